/-
  C31 — k.p models: numerical k-derivatives by the finite-difference stencil.   Core Lean only.

  Models of
    wannierberri/system/__finite_differences.py : Derivative3D.__call__
    wannierberri/system/system_kp.py            : SystemKP.__init__  (k_to_1BZ, k_red2cart, Ham / derHam / der2Ham / der3Ham
                                                   chained through Derivative3D)
  A function value is ONE matrix entry (the code multiplies entrywise: `function(k+b)[..., None] * bk_cart`).
  `find_shells` (SVD) is not modelled: its output (weights w_b, vectors b) is an input here, and the property it
  must have (Σ_b w_b b_a b_c = δ_ac, closed under b → −b) is a named hypothesis of the theorems, checked numerically
  on the real `find_shells` by the harness.
-/
import WB.Model.IO
namespace WB.C31

abbrev V3 (K : Type) := Fin 3 → K

def sum3 {K} [Add K] (f : Fin 3 → K) : K := f 0 + f 1 + f 2

def vadd {K} [Add K] (x y : V3 K) : V3 K := fun a => x a + y a

/-- `k_red2cart`: `np.dot(k, recip_lattice)` -/
def toCart {K} [Add K] [Mul K] (B : Fin 3 → Fin 3 → K) (k : V3 K) : V3 K := fun c => sum3 (fun a => k a * B a c)

/-- one stencil point: weight `wk`, displacement in reduced coordinates `bk_red`, Cartesian displacement `bk_cart` -/
structure BPoint (K : Type) where
  w : K
  bred : V3 K
  bcart : V3 K

/-- `Derivative3D.__call__`, component `e` of the new (last) axis:
      sum(wk * function(k + bk_red)[..., None] * bk_cart  for wk, bk_red, bk_cart in zip(...)) -/
def deriv3D {K} [Add K] [Mul K] [OfNat K 0] (f : V3 K → K) (k : V3 K) (e : Fin 3) : List (BPoint K) → K
  | [] => 0
  | p :: ps => p.w * f (vadd k p.bred) * p.bcart e + deriv3D f k e ps

/-- moments of the stencil `Σ_b w_b b_{a1} … b_{an}` (Cartesian components) -/
def mom {K} [Add K] [Mul K] [OfNat K 0] (g : V3 K → K) : List (BPoint K) → K
  | [] => 0
  | p :: ps => p.w * g p.bcart + mom g ps

def mom1 {K} [Add K] [Mul K] [OfNat K 0] (bs : List (BPoint K)) (a : Fin 3) : K := mom (fun b => b a) bs
def mom2 {K} [Add K] [Mul K] [OfNat K 0] (bs : List (BPoint K)) (a c : Fin 3) : K := mom (fun b => b a * b c) bs
def mom3 {K} [Add K] [Mul K] [OfNat K 0] (bs : List (BPoint K)) (a c d : Fin 3) : K :=
  mom (fun b => b a * b c * b d) bs
def mom4 {K} [Add K] [Mul K] [OfNat K 0] (bs : List (BPoint K)) (a c d e : Fin 3) : K :=
  mom (fun b => b a * b c * b d * b e) bs
def mom5 {K} [Add K] [Mul K] [OfNat K 0] (bs : List (BPoint K)) (a c d e f : Fin 3) : K :=
  mom (fun b => b a * b c * b d * b e * b f) bs

def fin3 : List (Fin 3) := [0, 1, 2]

/-! ### the chain of SystemKP: Ham → derHam → der2Ham → der3Ham -/

def der1 {K} [Add K] [Mul K] [OfNat K 0] (bs : List (BPoint K)) (H : V3 K → K) (k : V3 K) (e1 : Fin 3) : K :=
  deriv3D H k e1 bs
def der2 {K} [Add K] [Mul K] [OfNat K 0] (bs : List (BPoint K)) (H : V3 K → K) (k : V3 K) (e1 e2 : Fin 3) : K :=
  deriv3D (fun k' => der1 bs H k' e1) k e2 bs
def der3 {K} [Add K] [Mul K] [OfNat K 0] (bs : List (BPoint K)) (H : V3 K → K) (k : V3 K) (e1 e2 e3 : Fin 3) : K :=
  deriv3D (fun k' => der2 bs H k' e1 e2) k e3 bs

/-! ### polynomials up to degree 3 in tensor form, and their analytic derivatives -/

/-- `c0 + Σ g_a q_a + Σ h_ac q_a q_c + Σ t_acd q_a q_c q_d` -/
def cubic {K} [Add K] [Mul K] (c0 : K) (g : Fin 3 → K) (h : Fin 3 → Fin 3 → K) (t : Fin 3 → Fin 3 → Fin 3 → K)
    (q : V3 K) : K :=
  c0 + sum3 (fun a => g a * q a) + sum3 (fun a => sum3 (fun c => h a c * q a * q c))
     + sum3 (fun a => sum3 (fun c => sum3 (fun d => t a c d * q a * q c * q d)))

/-- analytic gradient of `cubic` -/
def cubicGrad {K} [Add K] [Mul K] (g : Fin 3 → K) (h : Fin 3 → Fin 3 → K) (t : Fin 3 → Fin 3 → Fin 3 → K)
    (q : V3 K) (e : Fin 3) : K :=
  g e + sum3 (fun a => (h a e + h e a) * q a)
      + sum3 (fun a => sum3 (fun c => (t e a c + t a e c + t a c e) * q a * q c))

/-- analytic Hessian of `cubic` -/
def cubicHess {K} [Add K] [Mul K] (h : Fin 3 → Fin 3 → K) (t : Fin 3 → Fin 3 → Fin 3 → K)
    (q : V3 K) (e1 e2 : Fin 3) : K :=
  (h e2 e1 + h e1 e2)
    + sum3 (fun a => (t e1 e2 a + t e2 e1 a + t e1 a e2 + t e2 a e1 + t a e1 e2 + t a e2 e1) * q a)

/-- analytic third derivative of `cubic` (constant) -/
def cubicD3 {K} [Add K] (t : Fin 3 → Fin 3 → Fin 3 → K) (e1 e2 e3 : Fin 3) : K :=
  t e1 e2 e3 + t e2 e1 e3 + t e1 e3 e2 + t e2 e3 e1 + t e3 e1 e2 + t e3 e2 e1


/-! ### `find_shells` / `check_B1`  (Rat; the SVD solve and `check_parallel` are abstract kernels)

  Code (system/__finite_differences.py):
      bki  = all integer triples in [-isearch, isearch]³ ;  bk = bki · basis ;  sorted by length
      shells = find_degen(leng, 1e-8)[1:]                       (runs of the sorted lengths with gaps ≤ 1e-8)
      for shell_try in shells[:50]:
          if not check_parallel(selected, shell_try): continue
          accept, checkB1, weights = check_B1(shell_mat, selected + [shell_try])
          if accept:  selected.append(shell_try)
          if checkB1: break
      return per-vector weights / vectors of the selected shells with |w| > 1e-8
  `check_B1`: SVD solve (reject if a singular value < 1e-7);  tol = ‖Σ_s w_s M_s − 1‖_F ;  B1 holds iff tol ≤ 1e-5.
  A shell is identified by its index k ≥ 1 in the list of runs (k = 0 is the zero vector). -/

abbrev I3 := Int × Int × Int

def symRange (n : Nat) : List Int := (List.range (2 * n + 1)).map (fun (t : Nat) => (t : Int) - (n : Int))

def boxList (n : Nat) : List I3 :=
  (symRange n).flatMap (fun a => (symRange n).flatMap (fun b => (symRange n).map (fun c => (a, b, c))))

def negI (m : I3) : I3 := (-m.1, -m.2.1, -m.2.2)

/-- `bk = bki.dot(basis)` -/
def cartI (basis : Fin 3 → Fin 3 → Rat) (m : I3) : V3 Rat :=
  fun c => (m.1 : Rat) * basis 0 c + (m.2.1 : Rat) * basis 1 c + (m.2.2 : Rat) * basis 2 c

/-- the search box sorted by length (`argsort(leng)`; ties in any order - here: stable merge sort).
    `nrm` = `np.linalg.norm` (abstract; contract `nrm (−v) = nrm v`) -/
def sortedBox (nrm : V3 Rat → Rat) (basis : Fin 3 → Fin 3 → Rat) (n : Nat) : List I3 :=
  (boxList n).mergeSort (fun a c => decide (nrm (cartI basis a) ≤ nrm (cartI basis c)))

/-- `find_degen`: the run index of sorted position `p` = number of cuts (gap > thresh) at positions 1..p -/
def blockIdx (E : Nat → Rat) (th : Rat) (p : Nat) : Nat :=
  ((List.range (p + 1)).filter (fun i => decide (0 < i) && decide (E i - E (i - 1) > th))).length

/-- the sorted lengths, as an array (constant-time access) -/
def keysOf (nrm : V3 Rat → Rat) (basis : Fin 3 → Fin 3 → Rat) (sb : List I3) : Array Rat :=
  (sb.map (fun m => nrm (cartI basis m))).toArray

/-- the vectors (integer triples) of shell `k` -/
def shellVecs (nrm : V3 Rat → Rat) (basis : Fin 3 → Fin 3 → Rat) (n : Nat) (th : Rat) (k : Nat) : List I3 :=
  let sb := sortedBox nrm basis n
  let keys := keysOf nrm basis sb
  let E : Nat → Rat := fun i => keys.getD i 0
  ((List.range sb.length).filter (fun p => blockIdx E th p == k)).map (fun p => sb.getD p (0, 0, 0))

/-- all run indices in one pass (equal to `(range N).map (blockIdx E th)`, proved in WB/Lemmas/C31Neg.lean) -/
def blockIdxAll (E : Nat → Rat) (th : Rat) (N : Nat) : List Nat :=
  ((List.range N).foldl (fun (acc : List Nat × Nat) p =>
      let c := if decide (0 < p) && decide (E p - E (p - 1) > th) then acc.2 + 1 else acc.2
      (c :: acc.1, c)) ([], 0)).1.reverse

/-- the shells 0..nshells as a list, computed in one pass (entry k equals `shellVecs … k`) -/
def shellTableList (nrm : V3 Rat → Rat) (basis : Fin 3 → Fin 3 → Rat) (n : Nat) (th : Rat) (nshells : Nat) :
    List (List I3) :=
  let sb := sortedBox nrm basis n
  let keys := keysOf nrm basis sb
  let E : Nat → Rat := fun i => keys.getD i 0
  let pi := (List.range sb.length).zip (blockIdxAll E th sb.length)
  (List.range (nshells + 1)).map (fun k => (pi.filter (fun x => x.2 == k)).map (fun x => sb.getD x.1 (0, 0, 0)))

/-- lookup in a precomputed table (`[]` beyond its end) -/
def tableFn (tbl : List (List I3)) : Nat → List I3 := fun k => tbl.getD k []

/-- `shell_mat[k] = Σ_{b in shell} b bᵀ` (Cartesian) -/
def shellMat (basis : Fin 3 → Fin 3 → Rat) (vecs : List I3) (a c : Fin 3) : Rat :=
  (vecs.map (fun m => cartI basis m a * cartI basis m c)).sum

/-- `check_eye = Σ_s w_s M_s` -/
def checkEye (M : Nat → Fin 3 → Fin 3 → Rat) (sel : List Nat) (ws : List Rat) (a c : Fin 3) : Rat :=
  ((sel.zip ws).map (fun kw => kw.2 * M kw.1 a c)).sum

def delta3 (a c : Fin 3) : Rat := if a = c then 1 else 0

/-- squared Frobenius norm of `check_eye − 1`  (the code compares the norm with 1e-5: same as comparing squares) -/
def resid2 (M : Nat → Fin 3 → Fin 3 → Rat) (sel : List Nat) (ws : List Rat) : Rat :=
  (fin3.flatMap (fun a => fin3.map (fun c => (checkEye M sel ws a c - delta3 a c) * (checkEye M sel ws a c - delta3 a c)))).sum

/-- outcome of `check_B1`: `(accept, checkB1, weights)`; `kernel sel = none` ⇔ a singular value is below 1e-7 -/
def checkB1 (kernel : List Nat → Option (List Rat)) (M : Nat → Fin 3 → Fin 3 → Rat) (tol : Rat) (sel : List Nat) :
    Bool × Bool × Option (List Rat) :=
  match kernel sel with
  | none => (false, false, none)
  | some ws => if resid2 M sel ws > tol * tol then (true, false, none) else (true, true, some ws)

/-- the loop of `find_shells` over the candidate shells; state = (selected, last value of `weights`).
    Returns the state at the `break` or at the end of the candidates. -/
def shellLoop (par : List Nat → Nat → Bool) (kernel : List Nat → Option (List Rat))
    (M : Nat → Fin 3 → Fin 3 → Rat) (tol : Rat) : List Nat → List Nat → Option (List Rat) → List Nat × Option (List Rat)
  | [], sel, w => (sel, w)
  | k :: rest, sel, w =>
    if !par sel k then shellLoop par kernel M tol rest sel w
    else
      match checkB1 kernel M tol (sel ++ [k]) with
      | (accept, b1, w') =>
        let sel' := if accept then sel ++ [k] else sel
        if b1 then (sel', w') else shellLoop par kernel M tol rest sel' w'

def absQ (x : Rat) : Rat := if x < 0 then -x else x

/-- per-vector expansion with the `abs(w) > 1e-8` filter -/
def expandF (vecsOf : Nat → List I3) (eps : Rat) (sel : List Nat) (ws : List Rat) : List (Rat × I3) :=
  (sel.zip ws).flatMap (fun kw => if decide (absQ kw.2 > eps) then (vecsOf kw.1).map (fun m => (kw.2, m)) else [])

/-- `find_shells`: `none` models the `TypeError` of the code when `weights` is still `None` after the loop -/
def findShells (par : List Nat → Nat → Bool) (kernel : List Nat → Option (List Rat)) (nrm : V3 Rat → Rat)
    (basis : Fin 3 → Fin 3 → Rat) (n : Nat) (th tol eps : Rat) (nshells : Nat) : Option (List (Rat × I3)) :=
  let tbl := shellTableList nrm basis n th nshells
  let vecsOf := tableFn tbl
  let M : Nat → Fin 3 → Fin 3 → Rat := fun k => shellMat basis (vecsOf k)
  match shellLoop par kernel M tol ((List.range nshells).map (· + 1)) [] none with
  | (sel, some ws) => some (expandF vecsOf eps sel ws)
  | (_, none) => none

/-- the stencil handed to `Derivative3D` by `SystemKP`: `bk_red = bki·dk`, `bk_cart = bki·basis` (basis = recip·dk) -/
def toStencil (basis : Fin 3 → Fin 3 → Rat) (dk : Rat) (st : List (Rat × I3)) : List (BPoint Rat) :=
  st.map (fun wm => ⟨wm.1, fun a => match a.val with
    | 0 => (wm.2.1 : Rat) * dk
    | 1 => (wm.2.2.1 : Rat) * dk
    | _ => (wm.2.2.2 : Rat) * dk, cartI basis wm.2⟩)


/-! ### exact kernels for the driver (the theorems treat `par` and `kernel` as arbitrary functions) -/

def cross3 (u v : V3 Rat) : V3 Rat := fun a =>
  match a.val with
  | 0 => u 1 * v 2 - u 2 * v 1
  | 1 => u 2 * v 0 - u 0 * v 2
  | _ => u 0 * v 1 - u 1 * v 0

/-- `check_parallel` in exact arithmetic: no vector of the candidate shell is parallel to a vector of a selected shell -/
def parExact (basis : Fin 3 → Fin 3 → Rat) (vecsOf : Nat → List I3) (sel : List Nat) (k : Nat) : Bool :=
  sel.all (fun s => (vecsOf s).all (fun i => (vecsOf k).all (fun j =>
    let c := cross3 (cartI basis i) (cartI basis j)
    !(c 0 == 0 && c 1 == 0 && c 2 == 0))))

/-- Gaussian elimination without pivot search (the Gram matrix is positive definite when it is regular) -/
def solveLin : Nat → List (List Rat) → List Rat → Option (List Rat)
  | 0, _, _ => some []
  | m + 1, G, r =>
    match G, r with
    | row :: restG, r0 :: restR =>
      let p := row.headD 0
      if p == 0 then none else
      let rowT := row.tail
      -- eliminate the first unknown from the remaining equations
      let G' := restG.map (fun g => let f := g.headD 0 / p; (g.tail.zip rowT).map (fun xy => xy.1 - f * xy.2))
      let r' := (restG.zip restR).map (fun gr => gr.2 - (gr.1.headD 0 / p) * r0)
      match solveLin m G' r' with
      | none => none
      | some w => some ((r0 - ((rowT.zip w).map (fun xy => xy.1 * xy.2)).sum) / p :: w)
    | _, _ => none

/-- the weights of `check_B1` in exact arithmetic: `w = b Aᵀ (A Aᵀ)⁻¹` (the pseudo-inverse solution when all singular
    values are non-zero); `none` when the Gram matrix is singular -/
def kernelExact (M : Nat → Fin 3 → Fin 3 → Rat) (sel : List Nat) : Option (List Rat) :=
  let ip (s t : Nat) : Rat := (fin3.flatMap (fun a => fin3.map (fun c => M s a c * M t a c))).sum
  let G := sel.map (fun s => sel.map (fun t => ip s t))
  let r := sel.map (fun s => M s 0 0 + M s 1 1 + M s 2 2)
  solveLin sel.length G r

def len2 (v : V3 Rat) : Rat := v 0 * v 0 + v 1 * v 1 + v 2 * v 2

/-! ### driver (Rat): monomial-list polynomials, the `k_to_1BZ` wrap, Cartesian / reduced convention -/
open WB.IO

def rpow (x : Rat) : Nat → Rat
  | 0 => 1
  | n + 1 => rpow x n * x

/-- monomial `(c, i, j, l)` = `c · x^i y^j z^l` -/
def polyEval (P : List (Rat × Nat × Nat × Nat)) (x : V3 Rat) : Rat :=
  P.foldl (fun acc m => acc + m.1 * rpow (x 0) m.2.1 * rpow (x 1) m.2.2.1 * rpow (x 2) m.2.2.2) 0

/-- `k_to_1BZ`: `(k + 0.5) % 1 - 0.5` componentwise (Python `%` on floats = x − floor(x)) -/
def wrap1 (x : Rat) : Rat := (x + 1/2) - ((x + 1/2).floor : Int) - 1/2
def wrap (k : V3 Rat) : V3 Rat := fun a => wrap1 (k a)

/-- `self.Ham = lambda k: Ham(self.k_ham_from_red(k))` -/
def hamFromRed (P : List (Rat × Nat × Nat × Nat)) (dowrap cart : Bool) (B : Fin 3 → Fin 3 → Rat) (k : V3 Rat) : Rat :=
  let k1 := if dowrap then wrap k else k
  polyEval P (if cart then toCart B k1 else k1)

def v3Of (l : List Rat) (off : Nat) : V3 Rat := fun a => l.getD (off + a.val) 0

def parseStencil (rows : List (List Rat)) : List (BPoint Rat) :=
  rows.map (fun r => ⟨r.getD 0 0, v3Of r 1, v3Of r 4⟩)

def parsePoly (rows : List (List Rat)) : List (Rat × Nat × Nat × Nat) :=
  rows.map (fun r => (r.getD 0 0, (r.getD 1 0).floor.toNat, (r.getD 2 0).floor.toNat, (r.getD 3 0).floor.toNat))

def handle : List String → String
  -- d3d order wrap cart stencil(rows: w,bred*3,bcart*3) poly(rows: c,i,j,l) B(3 rows) k comps(e1,e2,e3 - first `order` used)
  --   → the requested component of the `order`-th numerical derivative
  | ["d3d", order, wr, ct, st, poly, b, k, comps] =>
    match parseNat? order, parseBool? wr, parseBool? ct, parseRatss? st, parseRatss? poly, parseRatss? b, parseRats? k,
          parseNats? comps with
    | some order, some wr, some ct, some st, some poly, some b, some k, some comps =>
      let bs := parseStencil st
      let P := parsePoly poly
      let B : Fin 3 → Fin 3 → Rat := fun a c => (b.getD a.val []).getD c.val 0
      let H := hamFromRed P wr ct B
      let kk := v3Of k 0
      let e (i : Nat) : Fin 3 := Fin.ofNat 3 (comps.getD i 0)
      match order with
      | 0 => showRat (H kk)
      | 1 => showRat (der1 bs H kk (e 0))
      | 2 => showRat (der2 bs H kk (e 0) (e 1))
      | 3 => showRat (der3 bs H kk (e 0) (e 1) (e 2))
      | _ => "bad-op"
    | _, _, _, _, _, _, _, _ => "bad-op"
  -- moments stencil → M1 (3) M2 (9) M3 (27)
  | ["moments", st] =>
    match parseRatss? st with
    | some st =>
      let bs := parseStencil st
      showRats (fin3.map (mom1 bs)) ++ " " ++
      showRats (fin3.flatMap (fun a => fin3.map (fun c => mom2 bs a c))) ++ " " ++
      showRats (fin3.flatMap (fun a => fin3.flatMap (fun c => fin3.map (fun d => mom3 bs a c d))))
    | none => "bad-op"
  -- fshells n basis(3 rows) tol eps nshells → the stencil of find_shells `w,i,j,l;...` (exact kernels, shells = equal
  --   squared lengths) or `none`
  | ["fshells", n, b, tol, eps, ns] =>
    match parseNat? n, parseRatss? b, parseRat? tol, parseRat? eps, parseNat? ns with
    | some n, some b, some tol, some eps, some ns =>
      let basis : Fin 3 → Fin 3 → Rat := fun a c => (b.getD a.val []).getD c.val 0
      let tbl := shellTableList len2 basis n 0 ns
      let vecsOf := tableFn tbl
      let M : Nat → Fin 3 → Fin 3 → Rat := fun k => shellMat basis (vecsOf k)
      match findShells (parExact basis vecsOf) (kernelExact M) len2 basis n 0 tol eps ns with
      | none => "none"
      | some st => ";".intercalate (st.map (fun wm =>
          showRat wm.1 ++ "," ++ toString wm.2.1 ++ "," ++ toString wm.2.2.1 ++ "," ++ toString wm.2.2.2))
    | _, _, _, _, _ => "bad-op"
  | _ => "bad-op"

end WB.C31
