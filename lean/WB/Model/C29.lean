/-
  C29 — paths are built and tabulated faithfully.   Core Lean only.

  Models of
    wannierberri/grid/path.py        : Path.from_nodes, get_refined, getKline, get_K_list
    wannierberri/result/tabresult.py : TABresult.self_to_path (the reordering map)
  k-points are triples of rationals; labels are natural numbers (the driver numbers the label strings).
  The number of points of a segment in `dk`/`length` mode (`round(norm(...)/dk)+1`, floats) and the Cartesian
  segment lengths of `getKline` (`np.linalg.norm`) are inputs of the model (external kernels).
-/
import WB.Model.IO
namespace WB.C29

abbrev Q3 := Rat × Rat × Rat

def add3 (a b : Q3) : Q3 := (a.1 + b.1, a.2.1 + b.2.1, a.2.2 + b.2.2)
def sub3 (a b : Q3) : Q3 := (a.1 - b.1, a.2.1 - b.2.1, a.2.2 - b.2.2)
def smul3 (t : Rat) (a : Q3) : Q3 := (t * a.1, t * a.2.1, t * a.2.2)

/-- the point number `j` of `m` equal steps from `a` to `b`:  `a + (j/m)·(b − a)` -/
def lerp (a b : Q3) (j m : Nat) : Q3 := add3 a (smul3 ((j : Rat) / (m : Rat)) (sub3 b a))

/-- `start + np.linspace(0, 1, nk-1, endpoint=False)[:, None] * (end - start)` : `nk − 1` points, `end` excluded -/
def segPts (a b : Q3) (nk : Nat) : List Q3 := (List.range (nk - 1)).map (fun j => lerp a b j (nk - 1))

/-- a python dict `{index: label}`: assignment overwrites an existing key, otherwise appends (insertion order) -/
def dictSet (d : List (Nat × Nat)) (k v : Nat) : List (Nat × Nat) :=
  if d.any (fun p => p.1 == k) then d.map (fun p => if p.1 == k then (k, v) else p) else d ++ [(k, v)]

def dictGet (d : List (Nat × Nat)) (k : Nat) : Option Nat := (d.find? (fun p => p.1 == k)).map (·.2)

structure PathM where
  K : List Q3
  labels : List (Nat × Nat)
  breaks : List Nat
  deriving Repr, DecidableEq

def PathM.empty : PathM := ⟨[], [], []⟩

/-- the loop `for start, end, l1, l2 in zip(nodes, nodes[1:], labels, labels[1:])` of `from_nodes` followed by the
    final `vstack(K_list, nodes[-1])`.  A node is `none` (a break marker) or `some (k, label)`; `nks` is the stream
    of per-segment point numbers (`next(nkgen)`, or the rounded length/dk + 1), consumed by real segments only.
    `none` = the code raises (empty node list or `None` as last node). -/
def fromNodesLoop : List (Option (Q3 × Nat)) → List Nat → PathM → Option PathM
  | [], _, _ => none
  | [none], _, _ => none
  | [some (a, la)], _, st =>
      some { K := st.K ++ [a], labels := dictSet st.labels st.K.length la, breaks := st.breaks }
  | none :: y :: rest, nks, st => fromNodesLoop (y :: rest) nks st
  | some (a, la) :: none :: rest, nks, st =>
      fromNodesLoop (none :: rest) nks
        { K := st.K ++ [a], labels := dictSet st.labels st.K.length la, breaks := st.breaks ++ [st.K.length] }
  | some (a, la) :: some (b, lb) :: rest, nks, st =>
      fromNodesLoop (some (b, lb) :: rest) nks.tail
        { K := st.K ++ segPts a b (nks.headD 2), labels := dictSet st.labels st.K.length la, breaks := st.breaks }

def fromNodes (nodes : List (Option (Q3 × Nat))) (nks : List Nat) : Option PathM :=
  fromNodesLoop nodes nks PathM.empty

/-! ### get_refined -/

/-- `K_list_refined.append(K[i])` with its label and break mark, where `i` is the index in the original path -/
def pushOrig (P : PathM) (i : Nat) (a : Q3) (st : PathM) : PathM :=
  { K := st.K ++ [a],
    labels := match dictGet P.labels i with
      | some l => dictSet st.labels st.K.length l
      | none => st.labels,
    breaks := if P.breaks.contains i then st.breaks ++ [st.K.length] else st.breaks }

/-- the interior points `K[i] + j * (K[i+1] - K[i]) / factor`, `j = 1 .. factor-1` -/
def interior (a b : Q3) (factor : Nat) : List Q3 :=
  (List.range (factor - 1)).map (fun j => lerp a b (j + 1) factor)

/-- the loop `for i in range(last_point_index)` and the final append -/
def refineGo (P : PathM) (factor : Nat) : Nat → List Q3 → PathM → PathM
  | _, [], st => st
  | i, [a], st => pushOrig P i a st
  | i, a :: b :: rest, st =>
    let st1 := pushOrig P i a st
    let st2 := if P.breaks.contains i then st1 else { st1 with K := st1.K ++ interior a b factor }
    refineGo P factor (i + 1) (b :: rest) st2

def refine (P : PathM) (factor : Nat) : PathM := refineGo P factor 0 P.K PathM.empty

/-! ### getKline -/

/-- `k[k > break_thresh] = 0; k[breaks] = 0; K[1:] = cumsum(k)`; `d` = the Cartesian distances of consecutive
    points, `thresh = none` = `np.inf` -/
def klineSteps (d : List Rat) (breaks : List Nat) (thresh : Option Rat) : List Rat :=
  d.zipIdx.map (fun p =>
    if breaks.contains p.2 then 0
    else match thresh with
      | some t => if p.1 > t then 0 else p.1
      | none => p.1)

def cumsumFrom (s : Rat) : List Rat → List Rat
  | [] => []
  | x :: l => (s + x) :: cumsumFrom (s + x) l

def kline (d : List Rat) (breaks : List Nat) (thresh : Option Rat) : List Rat :=
  0 :: cumsumFrom 0 (klineSteps d breaks thresh)

/-! ### get_K_list -/

/-- `[K_list[ik:ik+k_batch] for ik in range(0, len, k_batch)]` -/
def chunksAux {α} (k : Nat) : Nat → List α → List (List α)
  | 0, _ => []
  | _, [] => []
  | fuel + 1, l@(_ :: _) => l.take k :: chunksAux k fuel (l.drop k)

def chunks {α} (k : Nat) (l : List α) : List (List α) := chunksAux k l.length l

/-! ### TABresult.self_to_path -/

/-- numpy `np.round` (half to even) on a rational -/
def roundHalfEven (q : Rat) : Int :=
  let f := q.floor
  let r := q - f
  if r < 1 / 2 then f else if r > 1 / 2 then f + 1 else if f % 2 = 0 then f else f + 1

def absR (q : Rat) : Rat := if q < 0 then -q else q

/-- one coordinate of `diff = abs(k - p); diff -= np.round(diff)` -/
def pdiff (x y : Rat) : Rat := absR (x - y) - roundHalfEven (absR (x - y))

/-- squared norm of the periodic difference of two k-points -/
def pdist2 (k p : Q3) : Rat :=
  pdiff k.1 p.1 * pdiff k.1 p.1 + pdiff k.2.1 p.2.1 * pdiff k.2.1 p.2.1 + pdiff k.2.2 p.2.2 * pdiff k.2.2 p.2.2

/-- `np.argmin` : index of the FIRST minimum (`l` non-empty) -/
def argminAux : List Rat → Nat → Nat → Rat → Nat
  | [], _, best, _ => best
  | x :: l, i, best, bv => if x < bv then argminAux l (i + 1) i x else argminAux l (i + 1) best bv

def argmin (l : List Rat) : Nat :=
  match l with
  | [] => 0
  | x :: l => argminAux l 1 0 x

/-- `mapping = np.argmin(norm, axis=0)` : for every path point the result k-point closest to it modulo 1 -/
def pathMapping (kres kpath : List Q3) : List Nat := kpath.map (fun p => argmin (kres.map (fun k => pdist2 k p)))

/-- the assert `np.allclose(diff, 0, atol=1e-5)` modelled exactly: every path point has an exact partner -/
def selfToPath (kres kpath : List Q3) : Option (List Nat) :=
  let m := pathMapping kres kpath
  if (m.zip kpath).all (fun ip => pdist2 (kres.getD ip.1 (0, 0, 0)) ip.2 == 0) then some m else none

/-! ### KBandResult.get_component / TABresult.get_data for index tuples -/

/-- a tensor value at one (k, band): the map from the full tuple of Cartesian indices to the entry
    (numpy: the Cartesian axes are the LAST axes of `data`) -/
abbrev Tensor := List Nat → Rat

/-- numpy `X[..., k]` : fix the LAST axis to `k` -/
def peelLast (T : Tensor) (k : Nat) : Tensor := fun idx => T (idx ++ [k])

/-- `for k in component[-1::-1]: Xnk = Xnk[..., k]` : the last entry of the tuple is applied first -/
def getComponent (T : Tensor) (comp : List Nat) : Tensor := comp.reverse.foldl peelLast T

/-- the rule of the seeded change W-C29: `for k in component: Xnk = Xnk[..., k]` -/
def getComponentFwd (T : Tensor) (comp : List Nat) : Tensor := comp.foldl peelLast T

/-- `KBandResult.to_path(k_map)` : `data[ik] for ik in k_map` -/
def toPath {α} (d : α) (dataall : List α) (m : List Nat) : List α := m.map (fun i => dataall.getD i d)

/-- `TABresult.get_data(quantity, component=comp)` of a path result: the values `V k` were computed at the k-points
    `kres` (any order), reordered with the mapping `m` of `self_to_path`, then the component is taken -/
def getDataPath (V : Q3 → Tensor) (kres : List Q3) (m : List Nat) (comp : List Nat) : List Rat :=
  (toPath (V (0, 0, 0)) (kres.map V) m).map (fun T => getComponent T comp [])

/-- a tensor of rank `r` stored C-ordered in a flat list -/
def tensorOfFlat (flat : List Rat) : Tensor := fun idx => flat.getD (idx.foldl (fun acc i => acc * 3 + i) 0) 0

/-! ### driver -/
open WB.IO

def toQ3 : List Rat → Option Q3
  | [a, b, c] => some (a, b, c)
  | _ => none

def showQ3 (a : Q3) : String := s!"{showRat a.1},{showRat a.2.1},{showRat a.2.2}"
def showK (l : List Q3) : String := showListWith showQ3 ";" l
def showDict (d : List (Nat × Nat)) : String := showListWith (fun p => s!"{p.1}:{p.2}") "," d

def showPath (P : PathM) : String := s!"{showK P.K} {showDict P.labels} {showNats P.breaks}"

/-- nodes token: `;`-separated, `N` for None, otherwise `x,y,z` ; labels: one natural per non-None node -/
def parseNodes (s : String) (labs : List Nat) : Option (List (Option (Q3 × Nat))) :=
  let rec go : List String → List Nat → Option (List (Option (Q3 × Nat)))
    | [], _ => some []
    | t :: ts, ls =>
      if t = "N" then (go ts ls).map (none :: ·)
      else match (parseRats? t).bind toQ3, ls with
        | some q, l :: ls' => (go ts ls').map (some (q, l) :: ·)
        | _, _ => none
  go (s.splitOn ";") labs

def parseDict (s : String) : Option (List (Nat × Nat)) :=
  if s = "_" then some [] else (s.splitOn ",").mapM (fun t =>
    match t.splitOn ":" with
    | [a, b] => match a.toNat?, b.toNat? with
      | some x, some y => some (x, y)
      | _, _ => none
    | _ => none)

def parsePath (k d b : String) : Option PathM :=
  match (parseRatss? k).bind (·.mapM toQ3), parseDict d, parseNats? b with
  | some K, some D, some B => some ⟨K, D, B⟩
  | _, _, _ => none

def handle : List String → String
  | ["nodes", nodes, labs, nks] =>
    match parseNats? labs, parseNats? nks with
    | some ls, some ns =>
      match (parseNodes nodes ls).bind (fun nd => fromNodes nd ns) with
      | some P => showPath P
      | none => "error"
    | _, _ => "bad-op"
  | ["refine", k, d, b, factor] =>
    match parsePath k d b, parseNat? factor with
    | some P, some f => showPath (refine P f)
    | _, _ => "bad-op"
  | ["kline", d, b, t] =>
    match parseRats? d, parseNats? b with
    | some ds, some bs =>
      if t = "inf" then showRats (kline ds bs none)
      else match parseRat? t with
        | some th => showRats (kline ds bs (some th))
        | none => "bad-op"
    | _, _ => "bad-op"
  | ["chunks", n, k] =>
    match parseNat? n, parseNat? k with
    | some n, some k => showNatss (chunks k (List.range n))
    | _, _ => "bad-op"
  | ["comp", flat, comp] =>
    match parseRats? flat, parseNats? comp with
    | some f, some c => showRat (getComponent (tensorOfFlat f) c [])
    | _, _ => "bad-op"
  | ["topath", kres, kpath] =>
    match (parseRatss? kres).bind (·.mapM toQ3), (parseRatss? kpath).bind (·.mapM toQ3) with
    | some a, some b => match selfToPath a b with
      | some m => "ok " ++ showNats m
      | none => "assert"
    | _, _ => "bad-op"
  | _ => "bad-op"

end WB.C29
