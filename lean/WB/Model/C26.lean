/-
  C26 — system interpolation.   Core Lean only.

  Model of wannierberri/system/interpolate.py : SystemInterpolator.__init__ / interpolate
    * the union R-vector list (a Python `set` union: ANY order — the order is a parameter)
    * re-embedding of every real-space matrix into the union list (`new[iRmap] = X`, zeros elsewhere)
    * only the matrices present in both systems are kept
    * `interpolate(alpha)`: centres and matrices `(1-alpha) * A0 + alpha * A1`, and the R-vector object rebuilt with
      shifts = the interpolated centres in reduced coordinates (the repair of finding F14; `interpolateOld` keeps the
      shifts of system0 as the code did before)
  A matrix is `X : Nat → Nat → K` (R index, flattened (m, n, cartesian) index).
-/
import WB.Model.IO
import WB.Model.C18
namespace WB.C26
open WB.C18 (Vec3 Name)

variable {K : Type}

structure Sys (K : Type) where
  Rs   : List Vec3
  wcc  : Nat → Nat → K                         -- wannier_centers_cart[i][c]
  shifts : Nat → Nat → K                       -- rvec.shifts_left_red[i][c]  (= shifts_right_red)
  mats : List (Name × (Nat → Nat → K))          -- _XX_R[key][iR][flat (m,n,...)]

/-- centres in reduced coordinates: `wannier_centers_cart.dot(inv(real_lattice))` with `Li = inv(real_lattice)` -/
def red [Add K] [Mul K] (Li : Nat → Nat → K) (w : Nat → Nat → K) : Nat → Nat → K :=
  fun i c => w i 0 * Li 0 c + w i 1 * Li 1 c + w i 2 * Li 2 c

/-- `new_matrix = zeros; new_matrix[iRmap] = X` where `iRmap[k]` is the position of `Rold[k]` in `Rnew` -/
def embed [OfNat K 0] (Rold Rnew : List Vec3) (X : Nat → Nat → K) : Nat → Nat → K :=
  fun inew c =>
    let R := Rnew.getD inew (0, 0, 0)
    if inew < Rnew.length ∧ R ∈ Rold then X (Rold.idxOf R) c else 0

/-- `SystemInterpolator.__init__` for one of the two systems: drop the matrices that the other system lacks,
    re-embed the rest, keep centres and shifts -/
def prepare [OfNat K 0] (s : Sys K) (otherKeys : List Name) (Rnew : List Vec3) : Sys K :=
  { Rs := Rnew, wcc := s.wcc, shifts := s.shifts
    mats := (s.mats.filter (fun p => otherKeys.contains p.1)).map (fun p => (p.1, embed s.Rs Rnew p.2)) }

def lookup (mats : List (Name × (Nat → Nat → K))) (k : Name) : Option (Nat → Nat → K) :=
  (mats.find? (fun p => p.1 == k)).map (·.2)

/-- `(1 - alpha) * a + alpha * b` -/
def mix [Add K] [Sub K] [Mul K] [OfNat K 1] (α a b : K) : K := (1 - α) * a + α * b

/-- `SystemInterpolator.interpolate(alpha)` on the two prepared systems -/
def interpolate [Add K] [Sub K] [Mul K] [OfNat K 0] [OfNat K 1] (Li : Nat → Nat → K) (p0 p1 : Sys K) (α : K) : Sys K :=
  let w : Nat → Nat → K := fun i c => mix α (p0.wcc i c) (p1.wcc i c)
  { Rs := p0.Rs, wcc := w, shifts := red Li w
    mats := p0.mats.map (fun p => (p.1, fun ir c =>
      match lookup p1.mats p.1 with
      | some Y => mix α (p.2 ir c) (Y ir c)
      | none => p.2 ir c)) }

/-- the method before the repair of F14: the shifts of the R-vector object stay those of system0 -/
def interpolateOld [Add K] [Sub K] [Mul K] [OfNat K 0] [OfNat K 1] (Li : Nat → Nat → K) (p0 p1 : Sys K) (α : K) : Sys K :=
  { interpolate Li p0 p1 α with shifts := p0.shifts }

/-- NOT the code: the seeded rule "snap alpha to an end point when it is close to it" (`near0`, `near1` play
    `np.isclose(alpha, 0.)`, `np.isclose(alpha, 1.)`) -/
def mixSnap [Add K] [Sub K] [Mul K] [OfNat K 0] [OfNat K 1] (near0 near1 : K → Bool) (α a b : K) : K :=
  if near0 α then mix 0 a b else if near1 α then mix 1 a b else mix α a b

/-- `Σ_iR χ(R_iR) X[iR][c]` — every k-space quantity is such a sum (χ = Bloch phase, possibly times R components) -/
def blochSum [Add K] [Mul K] [OfNat K 0] (χ : Vec3 → K) (Rs : List Vec3) (X : Nat → Nat → K) (c : Nat) : K :=
  ((List.range Rs.length).map (fun ir => χ (Rs.getD ir (0, 0, 0)) * X ir c)).sum

/-! ### one interpolator object used repeatedly

  `interpolate alpha` hands a system object to the caller, who may then edit that object in place (`mutate i f`:
  the i-th object handed out so far is changed by `f`).  `S` is the type of a system, `F s0 s1 alpha` the
  interpolation formula.  In the code every call builds a fresh object (`copy.deepcopy` + new arrays);
  `runMemo` is NOT the code: the seeded rule that keeps the objects in a cache keyed by alpha and hands the stored
  object out again.
-/

structure IState (K S : Type) where
  s0 : S
  s1 : S
  heap : List S                 -- the objects handed out so far, with their CURRENT contents
  cache : List (K × Nat)        -- memo variant only: alpha ↦ index of the stored object

inductive IOp (K S : Type) where
  | interp (α : K)
  | mutate (i : Nat) (f : S → S)

/-- the code: a fresh object per call; returns the list of (alpha, value returned) and the final state -/
def runFresh {S : Type} (F : S → S → K → S) : List (IOp K S) → IState K S → List (K × S) × IState K S
  | [], st => ([], st)
  | .interp α :: t, st =>
    let v := F st.s0 st.s1 α
    let r := runFresh F t { st with heap := st.heap ++ [v] }
    ((α, v) :: r.1, r.2)
  | .mutate i f :: t, st => runFresh F t { st with heap := st.heap.modify i f }

/-- the seeded rule: `if alpha in cache: return cache[alpha]` (the stored object, with whatever the caller did to it) -/
def runMemo {S : Type} [DecidableEq K] (F : S → S → K → S) : List (IOp K S) → IState K S → List (K × S) × IState K S
  | [], st => ([], st)
  | .interp α :: t, st =>
    match (st.cache.find? (fun c => c.1 = α)).bind (fun c => st.heap[c.2]?) with
    | some v =>
      let r := runMemo F t st
      ((α, v) :: r.1, r.2)
    | none =>
      let v := F st.s0 st.s1 α
      let r := runMemo F t { st with heap := st.heap ++ [v], cache := (α, st.heap.length) :: st.cache }
      ((α, v) :: r.1, r.2)
  | .mutate i f :: t, st => runMemo F t { st with heap := st.heap.modify i f }

/-! ### driver -/
open WB.IO

def vecs (l : List (List Int)) : List Vec3 := C18.vec3s l

def arr (ncomp : Nat) (fl : List Rat) : Nat → Nat → Rat := fun ir c => fl.getD (ir * ncomp + c) 0

def handle : List String → String
  | ["embed", rold, rnew, ncomp, x] =>
    match parseIntss? rold, parseIntss? rnew, parseNat? ncomp, parseRats? x with
    | some ro, some rn, some nc, some x =>
      let e := embed (vecs ro) (vecs rn) (arr nc x)
      showRats ((List.range rn.length).flatMap fun ir => (List.range nc).map fun c => e ir c)
    | _, _, _, _ => "bad-op"
  | ["mix", alpha, a, b] =>
    match parseRat? alpha, parseRats? a, parseRats? b with
    | some al, some a, some b => showRats ((List.range a.length).map fun i => mix al (a.getD i 0) (b.getD i 0))
    | _, _, _ => "bad-op"
  | ["shifts", alpha, li, w0, w1] =>
    match parseRat? alpha, parseRats? li, parseRats? w0, parseRats? w1 with
    | some al, some li, some w0, some w1 =>
      let n := w0.length / 3
      let w : Nat → Nat → Rat := fun i c => mix al (w0.getD (3 * i + c) 0) (w1.getD (3 * i + c) 0)
      let r := red (fun d c => li.getD (3 * d + c) 0) w
      showRats ((List.range n).flatMap fun i => (List.range 3).map fun c => r i c)
    | _, _, _, _ => "bad-op"
  | ["keys", k0, k1] =>
    let a := C18.names k0
    let b := C18.names k1
    showListWith (fun n => String.ofList n) "," (a.filter (fun k => b.contains k))
  | _ => "bad-op"

end WB.C26
