/-
  C15 — degenerate multiplets are never split.   Core Lean only.

  Models of
    wannierberri/grid/tetrahedron.py : get_borders, get_bands_in_range
    wannierberri/utility.py          : find_degen, select_window_degen
  Energies are a function `E : Nat → Rat` together with the number of bands `n`
  (the driver turns the list it reads into `fun i => l.getD i 0`).
-/
import WB.Model.IO
namespace WB.C15

/-- numpy: `np.where(A[1:] - A[:-1] > thresh)[0] + 1` — position `i` (1 ≤ i < n) starts a new block -/
def isCut (E : Nat → Rat) (th : Rat) (n i : Nat) : Bool :=
  decide (0 < i) && decide (i < n) && decide (E i - E (i - 1) > th)

/-- `get_borders`: `[0] + cuts + [n]`, keeping only even entries when Kramers degeneracy is requested.
    (n ≥ 1 is the domain of the code: for n = 0 numpy gives `[0,0]`.) -/
def borders (E : Nat → Rat) (th : Rat) (n : Nat) (kramers : Bool) : List Nat :=
  (List.range (n + 1)).filter
    (fun i => (i == 0 || i == n || isCut E th n i) && (!kramers || i % 2 == 0))

/-- consecutive pairs `zip(b, b[1:])` -/
def pairs : List Nat → List (Nat × Nat)
  | a :: b :: rest => (a, b) :: pairs (b :: rest)
  | _ => []

def blocks (E : Nat → Rat) (th : Rat) (n : Nat) (kramers : Bool) : List (Nat × Nat) :=
  pairs (borders E th n kramers)

/-- `get_bands_in_range(emin, emax, Eband, degen_thresh)` (without select_bands/Ebandmin/Ebandmax):
    a block is kept when max ≥ emin and min ≤ emax.  For sorted E: max = E[b-1], min = E[a];
    the code takes max/min over the slice, modelled literally with folds. -/
def sliceMax (E : Nat → Rat) (a b : Nat) : Rat :=
  ((List.range (b - a)).map (fun j => E (a + j))).foldl (fun m x => if x > m then x else m) (E a)
def sliceMin (E : Nat → Rat) (a b : Nat) : Rat :=
  ((List.range (b - a)).map (fun j => E (a + j))).foldl (fun m x => if x < m then x else m) (E a)

def bandsInRange (E : Nat → Rat) (th : Rat) (n : Nat) (kramers : Bool) (emin emax : Rat) : List (Nat × Nat) :=
  (blocks E th n kramers).filter (fun ab => decide (sliceMax E ab.1 ab.2 ≥ emin) && decide (sliceMin E ab.1 ab.2 ≤ emax))

/-! ### select_window_degen -/

/-- lowest index of the `< th` chain containing `i` (walk down while `E[j] - E[j-1] < th`) -/
def downChain (E : Nat → Rat) (th : Rat) : Nat → Nat
  | 0 => 0
  | i + 1 => if E (i + 1) - E i < th then downChain E th i else i + 1

/-- highest index (< n) of the `< th` chain containing `i` -/
def upChainAux (E : Nat → Rat) (th : Rat) (n : Nat) : Nat → Nat → Nat
  | 0, i => i
  | fuel + 1, i => if i + 1 < n ∧ E (i + 1) - E i < th then upChainAux E th n fuel (i + 1) else i
def upChain (E : Nat → Rat) (th : Rat) (n i : Nat) : Nat := upChainAux E th n n i

def inWindow (E : Nat → Rat) (wmin wmax : Rat) (i : Nat) : Bool := decide (E i ≤ wmax) && decide (E i ≥ wmin)

/-- first / last index inside the window (`ind[0]`, `ind[-1]`) -/
def firstIn (E : Nat → Rat) (wmin wmax : Rat) (n : Nat) : Option Nat :=
  (List.range n).find? (inWindow E wmin wmax)
def lastIn (E : Nat → Rat) (wmin wmax : Rat) (n : Nat) : Option Nat :=
  (List.range n).reverse.find? (inWindow E wmin wmax)

/-- the function of the (repaired) code, as a predicate on band indices.
    include_degen = True : the chain above `hi` and the chain below `lo` are added.
    include_degen = False: if the chain of `hi` continues above `hi`, the whole chain of `hi` is removed,
                           and symmetrically for `lo`. -/
def selectWindow (E : Nat → Rat) (th wmin wmax : Rat) (n : Nat) (incl : Bool) (j : Nat) : Bool :=
  match firstIn E wmin wmax n, lastIn E wmin wmax n with
  | some lo, some hi =>
    if incl then
      inWindow E wmin wmax j || (decide (hi ≤ j) && decide (j ≤ upChain E th n hi))
                            || (decide (downChain E th lo ≤ j) && decide (j ≤ lo))
    else
      let cutTop := decide (hi < upChain E th n hi)
      let cutBot := decide (downChain E th lo < lo)
      inWindow E wmin wmax j
        && !(cutTop && decide (downChain E th hi ≤ j) && decide (j ≤ hi))
        && !(cutBot && decide (lo ≤ j) && decide (j ≤ upChain E th n lo))
  | _, _ => false

/-- the ORIGINAL (pre-fix) behaviour with include_degen = False: only the band next to the edge is dropped.
    Kept to document the defect (finding F9): see `Props/C15.lean: old_exclude_splits_triplet`. -/
def selectWindowOld (E : Nat → Rat) (th wmin wmax : Rat) (n : Nat) (j : Nat) : Bool :=
  match firstIn E wmin wmax n, lastIn E wmin wmax n with
  | some lo, some hi =>
      inWindow E wmin wmax j
        && !(decide (hi < upChain E th n hi) && j == hi)
        && !(decide (downChain E th lo < lo) && j == lo)
  | _, _ => false

/-! ### driver -/
open WB.IO

def ofList (l : List Rat) : Nat → Rat := fun i => l.getD i 0

def showPairs (l : List (Nat × Nat)) : String :=
  showListWith (fun ab => toString ab.1 ++ "," ++ toString ab.2) ";" l

def handle : List String → String
  | ["borders", e, th, kr] =>
    match parseRats? e, parseRat? th, parseBool? kr with
    | some l, some t, some k => if l.isEmpty then "bad-op" else showPairs (blocks (ofList l) t l.length k)
    | _, _, _ => "bad-op"
  | ["inrange", e, th, kr, emin, emax] =>
    match parseRats? e, parseRat? th, parseBool? kr, parseRat? emin, parseRat? emax with
    | some l, some t, some k, some a, some b =>
      if l.isEmpty then "bad-op" else showPairs (bandsInRange (ofList l) t l.length k a b)
    | _, _, _, _, _ => "bad-op"
  | ["window", e, th, wmin, wmax, incl] =>
    match parseRats? e, parseRat? th, parseRat? wmin, parseRat? wmax, parseBool? incl with
    | some l, some t, some a, some b, some i =>
      showBools ((List.range l.length).map (selectWindow (ofList l) t a b l.length i))
    | _, _, _, _, _ => "bad-op"
  | ["windowold", e, th, wmin, wmax] =>
    match parseRats? e, parseRat? th, parseRat? wmin, parseRat? wmax with
    | some l, some t, some a, some b =>
      showBools ((List.range l.length).map (selectWindowOld (ofList l) t a b l.length))
    | _, _, _, _ => "bad-op"
  | _ => "bad-op"

end WB.C15
