/-
  C03 — integrals depend only on the k-point set, not on its FFT factorisation.   Core Lean only.

  Models of
    wannierberri/grid/grid.py      : GridAbstract.points_FFT, determineNK (paths NKdiv+NKFFT and NK+NKFFT),
                                     Grid.get_K_list (from the C06 model)
    wannierberri/grid/Kpoint.py    : KpointBZ.Kp_fullBZ, KpointBZparallel.dK_fullBZ
    wannierberri/data_K/data_K.py  : Data_K.kpoints_all
    wannierberri/fourier/fft.py + rvectors.py : the folded FFT of one direction
         (`iRvec % NKFFT`, `AAA_K[irvec] += AAA_R[ir]`, phase `expdK`), over an abstract "phase" function
    run_grid.py                    : result = Σ_K factor_K · (value of the calculator on the k-points of K)
-/
import WB.Model.C06
namespace WB.C03
open WB.C06

/-- numpy `x % 1` -/
def frac (r : Rat) : Rat := r - (r.floor : Rat)

def nprod (n : Idx) : Nat := n.1 * n.2.1 * n.2.2

/-- `GridAbstract.points_FFT`: `(ix*dkx, iy*dky, iz*dkz)`, ix outermost -/
def pointsFFT (fft : Idx) : List V3 :=
  (flatOrder fft).map fun i =>
    ⟨(i.1 : Rat) * (1 / fft.1), (i.2.1 : Rat) * (1 / fft.2.1), (i.2.2 : Rat) * (1 / fft.2.2)⟩

/-- `KpointBZ.Kp_fullBZ = K / NKFFT` -/
def kpFullBZ (K : V3) (fft : Idx) : V3 := ⟨K.x / fft.1, K.y / fft.2.1, K.z / fft.2.2⟩

/-- `KpointBZparallel.dK_fullBZ = dK / NKFFT` -/
def dKFullBZ (dK : V3) (fft : Idx) : V3 := ⟨dK.x / fft.1, dK.y / fft.2.1, dK.z / fft.2.2⟩

/-- `Data_K.kpoints_all = (grid.points_FFT + dK) % 1` -/
def kpointsAll (fft : Idx) (dK : V3) : List V3 :=
  (pointsFFT fft).map fun p => ⟨frac (p.x + dK.x), frac (p.y + dK.y), frac (p.z + dK.z)⟩

/-- every k-point that run() evaluates, with the weight it has in the result: `factor_K / prod(NKFFT)`
    (a calculator returns the mean over the `prod(NKFFT)` points of its Data_K; run() multiplies by `factor_K`) -/
def gridKW (kl : List KPoint) (fft : Idx) : List (V3 × Rat) :=
  kl.flatMap fun K => (kpointsAll fft (kpFullBZ K.K fft)).map fun k => (k, K.factor / ((nprod fft : Nat) : Rat))

/-- the integral: `Σ_K factor_K (∏fft)⁻¹ Σ_{k∈K} f k` for a function of k with values in any additive monoid with
    rational scaling -/
def wsum {V : Type} [Add V] [Zero V] [SMul Rat V] (kw : List (V3 × Rat)) (f : V3 → V) : V :=
  (kw.map fun p => p.2 • f p.1).sum

/-- the plain mean over the full grid `n` -/
def gridMean {V : Type} [Add V] [Zero V] [SMul Rat V] (n : Idx) (f : V3 → V) : V :=
  (1 / ((nprod n : Nat) : Rat)) • ((flatOrder n).map fun p => f (gridK n p)).sum

/-- `determineNK` for the two explicit paths: (NKdiv, NKFFT) given; or (NK, NKFFT) given, then
    `NKdiv = round(NK / NKFFT)`, at least 1.  Non-periodic directions get 1/1.  (`autoNK` is not modelled.) -/
def determineNK (periodic : Bool × Bool × Bool) (nkdiv nkfft nk : Option Idx) : Option (Idx × Idx) :=
  let r (a b : Nat) : Nat := let q := (roundHE ((a : Rat) / (b : Rat))).toNat; if q = 0 then 1 else q
  let mask (n : Idx) : Idx :=
    (if periodic.1 then n.1 else 1, if periodic.2.1 then n.2.1 else 1, if periodic.2.2 then n.2.2 else 1)
  match nkdiv, nkfft, nk with
  | some d, some f, _ => some (mask d, mask f)
  | _, some f, some n => some (mask (r n.1 f.1, r n.2.1 f.2.1, r n.2.2 f.2.2), mask f)
  | _, _, _ => none

/-! ### which grids are accepted -/

/-- the acceptance rule of `determineNK`: EACH of the grids that the caller specifies (NKdiv, NKFFT, NK) must be
    symmetric on its own - a symmetric total grid `NKdiv * NKFFT` is not enough -/
def acceptNK (syms : List Sym) (nkdiv nkfft nk : Option Idx) : Bool :=
  let ok (o : Option Idx) : Bool := match o with
    | none => true
    | some n => symmetricGrid syms n
  ok nkdiv && ok nkfft && ok nk

/-! ### the folded FFT of one direction, for any "phase" function `pw n = ζ^n` into a commutative semiring -/

/-- what `FFT_R_to_k` computes for FFT point `m`, box size `f`, K-shift `x` (in units of `1/(d f)`):
    `Σ_c ( Σ_{R ≡ c (mod f)} X(R) ζ^{xR} ) ζ^{d m c}` — R-vectors outside the box are folded into it and ADDED -/
def foldedFT {K : Type} [Add K] [Mul K] [Zero K] (pw : Int → K) (Rs : List Int) (X : Int → K)
    (d f x m : Nat) : K :=
  ((List.range f).map fun (c : Nat) =>
    ((Rs.filter fun R => R % (f : Int) == (c : Int)).map fun R => X R * pw ((x : Int) * R)).sum
      * pw ((d : Int) * (m : Int) * (c : Int))).sum

/-- the Fourier sum at the k-point `n / (d f)`: `Σ_R X(R) ζ^{nR}` -/
def directFT {K : Type} [Add K] [Mul K] [Zero K] (pw : Int → K) (Rs : List Int) (X : Int → K) (n : Nat) : K :=
  (Rs.map fun R => X R * pw ((n : Int) * R)).sum

/-! ### driver -/
open WB.IO

def showKW (l : List (V3 × Rat)) : String :=
  showListWith (fun p : V3 × Rat => showRats [p.1.x, p.1.y, p.1.z, p.2]) ";" l

def showIdx (n : Idx) : String := showNats [n.1, n.2.1, n.2.2]

def parseOptIdx? (s : String) : Option (Option Idx) :=
  if s = "_" then some none else (parseIdx? s).map some

def handle : List String → String
  | ["kpts", fft, dk] =>
    match parseIdx? fft, parseV3? dk with
    | some f, some d => showV3s (kpointsAll f d)
    | _, _ => "bad-op"
  | ["gridkw", syms, div, fft, us] =>
    match parseSyms? syms, parseIdx? div, parseIdx? fft, parseBool? us with
    | some s, some d, some f, some u => showKW (gridKW (getKList s d u) f)
    | _, _, _, _ => "bad-op"
  | ["listkw", kl, fft] =>
    match parseKPs? kl, parseIdx? fft with
    | some l, some f => showKW (gridKW l f)
    | _, _ => "bad-op"
  | ["dkfull", dk, fft] =>
    match parseV3? dk, parseIdx? fft with
    | some d, some f => showV3s [dKFullBZ d f]
    | _, _ => "bad-op"
  | ["accept", syms, nkdiv, nkfft, nk] =>
    match parseSyms? syms, parseOptIdx? nkdiv, parseOptIdx? nkfft, parseOptIdx? nk with
    | some s, some a, some b, some c => showBool (acceptNK s a b c)
    | _, _, _, _ => "bad-op"
  | ["symgrid", syms, n] =>
    match parseSyms? syms, parseIdx? n with
    | some s, some n => showBool (symmetricGrid s n)
    | _, _ => "bad-op"
  | ["detnk", per, nkdiv, nkfft, nk] =>
    match parseB3? per, parseOptIdx? nkdiv, parseOptIdx? nkfft, parseOptIdx? nk with
    | some p, some a, some b, some c =>
      match determineNK p a b c with
      | some (d, f) => showIdx d ++ ";" ++ showIdx f
      | none => "none"
    | _, _, _, _ => "bad-op"
  | _ => "bad-op"

end WB.C03
