/-
  C20 — real-space symmetrisation.   Core Lean only.

  Model of the marking loop of
    wannierberri/symmetry/sym_wann_2.py : SymWann.find_irreducible_Rab
  over an abstract finite action.  A point is a triple (a, b, iR); the code iterates the triples in the
  lexicographic order of (a, b, iR) and compares triples in that same order, so a point is represented by its
  position `x = (a·np2 + b)·nRvec + iR` in that order (0 ≤ x < N).  A symmetry operation is the partial map
  `x ↦ (a1, b1, iR1)` (`none` when the image R-vector is not in the list: `index_R` returned None).

      irreducible = np.ones(...)
      for isym in use_symmetries_index:
          for a, b (ascending), if (a1, b1) >= (a, b):
              for iR in range(nRvec):
                  if irreducible[iR, a, b]:
                      iR1 = index_R(atom_R_map[iR, a, b])
                      if iR1 is not None and (a1, b1, iR1) > (a, b, iR):
                          irreducible[iR1, a1, b1] = False

  (`(a1,b1) >= (a,b)` is implied by `(a1,b1,iR1) > (a,b,iR)`, so the outer guard only skips work.)
-/
import WB.Model.IO
namespace WB.C20

/-- body of the innermost loop for the point `x` -/
def markStep (act : Nat → Option Nat) (irr : List Bool) (x : Nat) : List Bool :=
  if irr.getD x false then
    match act x with
    | some y => if x < y then irr.set y false else irr
    | none => irr
  else irr

/-- the loops over (a, b, iR) for one symmetry operation -/
def markOp (N : Nat) (irr : List Bool) (act : Nat → Option Nat) : List Bool :=
  (List.range N).foldl (markStep act) irr

/-- the whole function: `irreducible` after all operations, as a list of `N` booleans -/
def findIrreducible (N : Nat) (ops : List (Nat → Option Nat)) : List Bool :=
  ops.foldl (markOp N) (List.replicate N true)

/-! ### driver -/
open WB.IO

/-- an operation given as a table of images (`-1` = image not in the R-vector list) -/
def actOfTable (tbl : List Int) : Nat → Option Nat := fun x =>
  let v := tbl.getD x (-1)
  if v < 0 then none else some v.toNat

def handle : List String → String
  -- irr <N> <table per operation: images of 0..N-1, -1 for none>  ->  indices that stay irreducible
  | ["irr", n, tbls] =>
    match parseNat? n, parseIntss? tbls with
    | some n, some t =>
      let r := findIrreducible n (t.map actOfTable)
      showNats ((List.range n).filter (fun x => r.getD x false))
    | _, _ => "bad-op"
  | _ => "bad-op"

end WB.C20
