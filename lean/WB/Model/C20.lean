/-
  C20 — real-space symmetrisation.   Core Lean only.

  Model of the marking loop of
    wannierberri/symmetry/sym_wann_2.py : SymWann.find_irreducible_Rab
  over an abstract finite action.  A point is a triple (a, b, iR); the code iterates the triples in the
  lexicographic order of (a, b, iR) and compares triples in that same order, so a point is represented by its
  position `x = (a·np2 + b)·nRvec + iR` in that order (0 ≤ x < N).  A symmetry operation is the partial map
  `x ↦ (a1, b1, iR1)` (`none` when the image R-vector is not in the list: `index_R` returned None).

      irreducible = np.ones(...)
      for isym in use_symmetries_index:
          for a, b (ascending), if (a1, b1) >= (a, b):
              for iR in range(nRvec):
                  if irreducible[iR, a, b]:
                      iR1 = index_R(atom_R_map[iR, a, b])
                      if iR1 is not None and (a1, b1, iR1) > (a, b, iR):
                          irreducible[iR1, a1, b1] = False

  (`(a1,b1) >= (a,b)` is implied by `(a1,b1,iR1) > (a,b,iR)`, so the outer guard only skips work.)
-/
import WB.Model.IO
namespace WB.C20

/-- body of the innermost loop for the point `x` -/
def markStep (act : Nat → Option Nat) (irr : List Bool) (x : Nat) : List Bool :=
  if irr.getD x false then
    match act x with
    | some y => if x < y then irr.set y false else irr
    | none => irr
  else irr

/-- the loops over (a, b, iR) for one symmetry operation -/
def markOp (N : Nat) (irr : List Bool) (act : Nat → Option Nat) : List Bool :=
  (List.range N).foldl (markStep act) irr

/-- the whole function: `irreducible` after all operations, as a list of `N` booleans -/
def findIrreducible (N : Nat) (ops : List (Nat → Option Nat)) : List Bool :=
  ops.foldl (markOp N) (List.replicate N true)

/-- the action the loop applies for ONE ordered pair of blocks (block1, block2): the point `x = (a·np2 + b)·nR + iR`
    with `a` a site of block1 and `b` a site of block2 goes to `(map1 a, map2 b, iR1)`, where `map1` is the atom map of
    BLOCK1 (`symmetrizer_left.atommap_list[block1][:, isym]`), `map2` the atom map of BLOCK2
    (`symmetrizer_right.atommap_list[block2][:, isym]`) — each block uses its own map — and
    `iR1 = index_R(R·rotᵀ + T1[a] − T2[b])` (`rimg iR a b`, `none` when that vector is not stored). -/
def pairAct (np2 nR : Nat) (map1 map2 : Nat → Nat) (rimg : Nat → Nat → Nat → Option Nat) : Nat → Option Nat :=
  fun x =>
    let a := x / (np2 * nR)
    let b := (x / nR) % np2
    let iR := x % nR
    (rimg iR a b).map (fun iR1 => (map1 a * np2 + map2 b) * nR + iR1)

/-! ### the block formula of `average_XX_block` (mode "sum") with `_rotate_XX_L_backwards`

  Executable over any scalar type (`conj` = complex conjugation, the identity over `Rat`).  One operation contributes to
  the entry `(p, q)` of the `n1 × n2` matrix at Cartesian component `i` of the target `(R, a, b)`:
      conj^{tr} ( Σ_j rc[j,i] · Σ_r Σ_s conj(D1[r,p]) · X(new_R, a_map, b_map)[j][r,s] · D2[s,q] )
  with `new_R = W·R + T1[a] − T2[b]` (`atom_R_map`), `rc` = `rotation_cart` times the parity signs, `D1 = rot_orb[a, isym]`
  (the code multiplies by `rot_orb_dagger[a, isym]` from the left), `D2 = rot_orb[b, isym]`. -/

section avgmodel
variable {K : Type} [OfNat K 0] [Add K] [Mul K]

def sumTo (n : Nat) (f : Nat → K) : K := (List.range n).foldl (fun acc j => acc + f j) 0

/-- `_rotate_XX_L_backwards` on one source entry `Y` (indexed by Cartesian component, row, column) -/
def pullEntry (conj : K → K) (tr : Bool) (n1 n2 nc : Nat) (rc d1 d2 : Nat → Nat → K)
    (Y : Nat → Nat → Nat → K) (i p q : Nat) : K :=
  let v := sumTo nc (fun j => rc j i * sumTo n1 (fun r => sumTo n2 (fun s => conj (d1 r p) * Y j r s * d2 s q)))
  if tr then conj v else v

/-- one symmetry operation as the code holds it for one pair of blocks -/
structure OpData (K : Type) where
  W : Nat → Nat → Int           -- symop.rotation (lattice coordinates)
  tr : Bool                     -- symop.time_reversal
  rc : Nat → Nat → K            -- rotation_cart (times parity_I·(−1)^ncart for inversions and parity_TR for TR)
  amap1 : Nat → Nat             -- atommap_list[block1][:, isym]
  amap2 : Nat → Nat
  T1 : Nat → Nat → Int          -- T_list[block1][a, isym]
  T2 : Nat → Nat → Int
  D1 : Nat → Nat → Nat → K      -- rot_orb_list[block1][a, isym]
  D2 : Nat → Nat → Nat → K

/-- `atom_R_map[iR, a, b] = R·rotationᵀ + T1[a] − T2[b]` -/
def newR (g : OpData K) (R : Int × Int × Int) (a b : Nat) : Int × Int × Int :=
  let r : Nat → Int := fun k => match k with | 0 => R.1 | 1 => R.2.1 | _ => R.2.2
  let c : Nat → Int := fun k => g.W k 0 * r 0 + g.W k 1 * r 1 + g.W k 2 * r 2 + g.T1 a k - g.T2 b k
  (c 0, c 1, c 2)

/-- entry of the averaged block: `invN · Σ_g` contribution of `g` (`invN = 1/len(use_symmetries_index)`); `X` returns
    zero for (R, a, b) that are not stored (the code skips them) -/
def blockAvgEntry (conj : K → K) (n1 n2 nc : Nat) (ops : List (OpData K))
    (X : Int × Int × Int → Nat → Nat → Nat → Nat → Nat → K) (invN : K)
    (R : Int × Int × Int) (a b i p q : Nat) : K :=
  invN * ops.foldl (fun acc g =>
    acc + pullEntry conj g.tr n1 n2 nc g.rc (g.D1 a) (g.D2 b) (X (newR g R a b) (g.amap1 a) (g.amap2 b)) i p q) 0

end avgmodel

/-! ### driver -/
open WB.IO

/-- an operation given as a table of images (`-1` = image not in the R-vector list) -/
def actOfTable (tbl : List Int) : Nat → Option Nat := fun x =>
  let v := tbl.getD x (-1)
  if v < 0 then none else some v.toNat

def toArr2 {α : Type} (m : List (List α)) : Array (Array α) := (m.map List.toArray).toArray
def get2 {α : Type} (arr : Array (Array α)) (d : α) (i j : Nat) : α := (arr.getD i #[]).getD j d

def handle : List String → String
  -- irr <N> <table per operation: images of 0..N-1, -1 for none>  ->  indices that stay irreducible
  | ["irr", n, tbls] =>
    match parseNat? n, parseIntss? tbls with
    | some n, some t =>
      let r := findIrreducible n (t.map actOfTable)
      showNats ((List.range n).filter (fun x => r.getD x false))
    | _, _ => "bad-op"
  -- avg <n1> <n2> <nc> <na1> <na2> <targets R0,R1,R2,a,b;...> <keys R0,R1,R2,a,b;...> <vals: row (key*nc+j)*n1+r>
  --     <W rows op*3+k> <tr flags> <rc rows op*nc+j> <amap1 rows per op> <amap2 rows per op> <T1 rows op*na1+a>
  --     <T2 rows op*na2+b> <D1 rows (op*na1+a)*n1+r> <D2 rows (op*na2+b)*n2+s> <1/nops>
  --   -> rows (target*nc+i)*n1+p of the averaged entries
  | ["avg", n1, n2, nc, na1, na2, tg, ks, vs, w, trs, rcs, am1, am2, t1, t2, d1, d2, invn] =>
    match parseNat? n1, parseNat? n2, parseNat? nc, parseNat? na1, parseNat? na2, parseIntss? tg, parseIntss? ks,
          parseRatss? vs, parseIntss? w, parseNats? trs with
    | some n1, some n2, some nc, some na1, some na2, some tg, some ks, some vs, some w, some trs =>
      match parseRatss? rcs, parseNatss? am1, parseNatss? am2, parseIntss? t1, parseIntss? t2, parseRatss? d1,
            parseRatss? d2, parseRat? invn with
      | some rcs, some am1, some am2, some t1, some t2, some d1, some d2, some invn =>
        let vsA := toArr2 vs
        let wA := toArr2 w
        let rcA := toArr2 rcs
        let t1A := toArr2 t1
        let t2A := toArr2 t2
        let d1A := toArr2 d1
        let d2A := toArr2 d2
        let vsM := get2 vsA 0
        let wM := get2 wA 0
        let rcM := get2 rcA 0
        let t1M := get2 t1A 0
        let t2M := get2 t2A 0
        let d1M := get2 d1A 0
        let d2M := get2 d2A 0
        let ops : List (OpData Rat) := (List.range trs.length).map fun g =>
          { W := fun k l => wM (g * 3 + k) l, tr := trs.getD g 0 != 0,
            rc := fun j i => rcM (g * nc + j) i,
            amap1 := fun a => (am1.getD g []).getD a 0, amap2 := fun b => (am2.getD g []).getD b 0,
            T1 := fun a k => t1M (g * na1 + a) k, T2 := fun b k => t2M (g * na2 + b) k,
            D1 := fun a r p => d1M ((g * na1 + a) * n1 + r) p, D2 := fun b s q => d2M ((g * na2 + b) * n2 + s) q }
        let X : Int × Int × Int → Nat → Nat → Nat → Nat → Nat → Rat := fun R a b =>
          match ks.findIdx? (fun k => k == [R.1, R.2.1, R.2.2, (a : Int), (b : Int)]) with
          | some key => fun j r s => vsM ((key * nc + j) * n1 + r) s
          | none => fun _ _ _ => 0
        showRatss (tg.flatMap fun t =>
          let R : Int × Int × Int := (t.getD 0 0, t.getD 1 0, t.getD 2 0)
          let a := (t.getD 3 0).toNat
          let b := (t.getD 4 0).toNat
          (List.range nc).flatMap fun i => (List.range n1).map fun p => (List.range n2).map fun q =>
            blockAvgEntry id n1 n2 nc ops X invn R a b i p q)
      | _, _, _, _, _, _, _, _ => "bad-op"
    | _, _, _, _, _, _, _, _, _, _ => "bad-op"
  | _ => "bad-op"

end WB.C20
