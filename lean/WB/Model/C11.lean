/-
  C11 — restarting an interrupted refinement run reproduces the uninterrupted run.   Core Lean only.

  Models of
    wannierberri/run_grid.py : run()  — the `restart=True` branch (reload K_list.pickle, read_factors, pad, set_factor,
                               result_all = Σ get_result_factor), the append-only K_list.pickle, write_factors /
                               read_factors, savedata after every iteration
  built on the bookkeeping model of C10 (`State`, `iterate`, `refStep`).

  The directory listing is part of the input: `Disk.facs` is the list of `factors_iter-XXXXXXXX.npy` files IN THE
  ORDER IN WHICH `glob.glob` RETURNS THEM, which the file system chooses.
-/
import WB.Model.C10
namespace WB.C11
open WB.C10

variable {K : Type}

/-- what a run leaves in `file_Klist_path` -/
structure Disk (K : Type) where
  klog : List (KP K)             -- K_list.pickle: the concatenation of the appended chunks; each K-point as it was
                                 -- when it was pickled (right after it had been evaluated)
  facs : List (Nat × List K)     -- (iteration number, content) of the factors files, in directory-listing order

/-- iteration numbers in listing order: `[int(f.split("-")[-1].split(".")[0]) for f in glob.glob(...)]` -/
def listing (d : Disk K) : List Nat := d.facs.map (·.1)

/-- `np.sort` (insertion sort: structurally recursive, so the kernel can evaluate it) -/
def insertNat (a : Nat) : List Nat → List Nat
  | [] => [a]
  | b :: l => if a ≤ b then a :: b :: l else b :: insertNat a l

def sortNat (l : List Nat) : List Nat := l.foldr insertNat []

/-- the iteration whose factors `read_factors(iter)` loads; `none` = IndexError.
    `sorted = true` is the repaired code (`np.sort(...)`), `false` the original (listing order as is). -/
def chooseIter (sorted : Bool) (lst : List Nat) (iter : Int) : Option Nat :=
  if 0 ≤ iter then some iter.toNat else
    let idxs := if sorted then sortNat lst else lst
    match idxs.getLast? with
    | none => none
    | some last =>
      let idx : Int := (last : Int) + iter + 1              -- iter_indices[-1] + iter + 1
      if idx < 0 then some 0
      else if idxs.contains idx.toNat then some idx.toNat
      else (idxs.filter (fun i => decide (i ≤ idx.toNat))).getLast?   -- iter_indices[iter_indices <= iter_index][-1]

def readFile (facs : List (Nat × List K)) (i : Nat) : Option (List K) :=
  (facs.find? (fun e => e.1 == i)).map (·.2)

/-- `write_factors`: overwrite the file of iteration `i` or create it (a new file shows up at the end of our
    listing; the theorems quantify over every re-ordering of the listing anyway) -/
def writeFile (facs : List (Nat × List K)) (i : Nat) (c : List K) : List (Nat × List K) :=
  if facs.any (fun e => e.1 == i) then facs.map (fun e => if e.1 == i then (i, c) else e) else facs ++ [(i, c)]

/-- `read_factors(file_Klist_path, iter)` -/
def readFactors (sorted : Bool) (d : Disk K) (iter : Int) : Option (Nat × List K) :=
  match chooseIter sorted (listing d) iter with
  | none => none
  | some i => (readFile d.facs i).map (fun c => (i, c))

/-- `factors = hstack([factors, zeros(len(K_list) - len(factors))])` ; `Kp.set_factor(fac)` -/
def setFactors [Zero K] : List (KP K) → List K → List (KP K)
  | [], _ => []
  | p :: ps, [] => { p with f := 0 } :: setFactors ps []
  | p :: ps, f :: fs => { p with f := f } :: setFactors ps fs

/-- `sum(Kp.get_result_factor() for Kp in K_list)`; `none` = a result could not be read -/
def sumAll [Mul K] [Add K] [Zero K] : List (KP K) → Option K
  | [] => some 0
  | p :: ps =>
    match getResult p, sumAll ps with
    | some x, some acc => some (x * p.f + acc)
    | _, _ => none

/-- a run() in progress / finished, together with what it has written -/
structure Run (K : Type) where
  st : State K
  disk : Disk K
  iter : Nat                  -- global number of the last completed iteration (i_iter + start_iter)
  nkPrev : Nat                -- nk_prev
  saved : List (Nat × K)      -- the `<fout_name>-..._iter-XXXX` files written by THIS call, in order

/-- the refinement decision (selection by K.max, division, symmetry merging) as a function of the K-point list -/
abbrev Policy (K : Type) := List (KP K) → List (RefOp K)

section run
variable [Mul K] [Add K] [Sub K] [Zero K] [Div K] [NatCast K] [DecidableEq K]

/-- run(restart=False, allow_restart=True) up to and including iteration 0 -/
def freshStart (mode : Mode) (init : List (K × K)) : Run K :=
  let s0 := start mode init
  let s1 := iterate keepNew s0
  { st := s1, disk := { klog := s1.pts.drop 0, facs := [(0, s0.factors)] }, iter := 0,
    nkPrev := s1.pts.length, saved := [(0, s1.resultAll.getD 0)] }

/-- one more pass of the loop body (fresh or restarted run alike): refine, process, append the new K-points to
    K_list.pickle, update result_all, write the factors, save the result -/
def nextIter (policy : Policy K) (r : Run K) : Run K :=
  let s1 := (policy r.st.pts).foldl refStep r.st
  let s2 := iterate keepNew s1
  let it := r.iter + 1
  { st := s2,
    disk := { klog := r.disk.klog ++ s2.pts.drop r.nkPrev, facs := writeFile r.disk.facs it s2.factors },
    iter := it, nkPrev := s2.pts.length, saved := r.saved ++ [(it, s2.resultAll.getD 0)] }

def steps (policy : Policy K) : Nat → Run K → Run K
  | 0, r => r
  | n + 1, r => steps policy n (nextIter policy r)

/-- uninterrupted run with `adpt_num_iter = n` -/
def runFresh (policy : Policy K) (mode : Mode) (init : List (K × K)) (n : Nat) : Run K :=
  steps policy n (freshStart mode init)

/-- run(restart=True, restart_iteration=rit) up to and including its pass `i_iter = 0`
    (nothing to process, no weight changed, the factors file is rewritten, nothing is saved) -/
def restartStart (sorted : Bool) (mode : Mode) (d : Disk K) (rit : Int) : Option (Run K) :=
  match readFactors sorted d rit with
  | none => none
  | some (i0, fac) =>
    let pts := setFactors d.klog fac
    match sumAll pts with
    | none => none
    | some tot =>
      let s0 : State K := { pts := pts, factors := pts.map (·.f), resultAll := some tot, mode := mode, err := false }
      let s1 := iterate keepNew s0
      some { st := s1,
             disk := { klog := d.klog ++ s1.pts.drop pts.length, facs := writeFile d.facs i0 s1.factors },
             iter := i0, nkPrev := s1.pts.length, saved := [] }

/-- run(restart=True, adpt_num_iter=n) -/
def runRestart (sorted : Bool) (policy : Policy K) (mode : Mode) (d : Disk K) (rit : Int) (n : Nat) :
    Option (Run K) :=
  (restartStart sorted mode d rit).map (steps policy n)

/-- a whole campaign: first call with `n` iterations, then one restarted call per entry of `more`;
    before every restart the file system may list the factors files in another order (`shuffle`) -/
def runSplit (policy : Policy K) (mode : Mode) (init : List (K × K))
    (shuffle : List (Nat × List K) → List (Nat × List K)) (n : Nat) (more : List Nat) : Option (Run K) :=
  more.foldl
    (fun acc m => acc.bind (fun r =>
      runRestart true policy mode { klog := r.disk.klog, facs := shuffle r.disk.facs } (-1) m))
    (some (runFresh policy mode init n))

/-! ### the selection rule of run()

      Kmax = np.array([K.max for K in K_list]).T                 # K.max = K._max * K.factor,  K._max = result.max
      select_points = set().union(*(np.argsort(Km)[-adpt_fac:] for Km in Kmax))

  `crit r` is the vector `result.max` (one entry per refinement criterion) of a K-point whose result is `r`: a
  function of the stored result, pickled as `_max`.  `argsort` is numpy's argsort, here ANY function from the list of
  scores to a list of positions.  What is done with the selected points (division, symmetry merging; geometry) stays
  an arbitrary function `expand` of the selection and the list. -/

/-- row `c` of `Kmax`: criterion `c` of every K-point times its weight -/
def kmaxRow (crit : Rat → List Rat) (pts : List (KP Rat)) (c : Nat) : List Rat :=
  pts.map (fun p => (crit p.r).getD c 0 * p.f)

/-- `a[-k:]` -/
def lastK (k : Nat) (l : List Nat) : List Nat := l.drop (l.length - k)

/-- `set().union(...)`: the selected positions without repetition (first occurrence kept) -/
def selectPoints (argsort : List Rat → List Nat) (crit : Rat → List Rat) (ncrit adptFac : Nat)
    (pts : List (KP Rat)) : List Nat :=
  ((List.range ncrit).flatMap (fun c => lastK adptFac (argsort (kmaxRow crit pts c)))).eraseDups

/-- the refinement decision of run() -/
def selectionPolicy (argsort : List Rat → List Nat) (crit : Rat → List Rat) (ncrit adptFac : Nat)
    (expand : List Nat → List (KP Rat) → List (RefOp Rat)) : Policy Rat :=
  fun pts => expand (selectPoints argsort crit ncrit adptFac pts) pts

/-- what `np.argsort` promises: a permutation of the positions that puts the scores in ascending order
    (nothing about the order of equal scores: the default sort is not stable) -/
def IsArgsort (v : List Rat) (p : List Nat) : Prop :=
  p.Perm (List.range v.length) ∧ (p.map (fun i => v.getD i 0)).Pairwise (fun a b => a ≤ b)

/-- a stable argsort (insertion by score, earlier position first among equal scores) — one admissible `np.argsort` -/
def insertIdx (v : List Rat) (i : Nat) : List Nat → List Nat
  | [] => [i]
  | j :: l => if v.getD i 0 < v.getD j 0 then i :: j :: l else j :: insertIdx v i l

def argsortStable (v : List Rat) : List Nat := (List.range v.length).foldl (fun acc i => insertIdx v i acc) []

/-- another admissible one: later position first among equal scores -/
def insertIdxRev (v : List Rat) (i : Nat) : List Nat → List Nat
  | [] => [i]
  | j :: l => if v.getD i 0 ≤ v.getD j 0 then i :: j :: l else j :: insertIdxRev v i l

def argsortRev (v : List Rat) : List Nat := (List.range v.length).foldl (fun acc i => insertIdxRev v i acc) []

/-! ### in-memory state that is NOT persisted

  A process may carry state `h : H` that is not written to the restart files (a cache, a counter, ...).  It
  evolves while the process runs (`stepH`) and is re-created from what was loaded when a process (re)starts
  (`initH`).  `policyH` is a refinement decision that may read it. -/

def nextIterH {H : Type} (policyH : H → Policy K) (stepH : H → State K → H) (rh : Run K × H) : Run K × H :=
  let r := nextIter (policyH rh.2) rh.1
  (r, stepH rh.2 r.st)

def stepsH {H : Type} (policyH : H → Policy K) (stepH : H → State K → H) : Nat → Run K × H → Run K × H
  | 0, rh => rh
  | n + 1, rh => stepsH policyH stepH n (nextIterH policyH stepH rh)

def runFreshH {H : Type} (policyH : H → Policy K) (stepH : H → State K → H) (initH : State K → H)
    (mode : Mode) (init : List (K × K)) (n : Nat) : Run K × H :=
  stepsH policyH stepH n (freshStart mode init, initH (freshStart mode init).st)

def runRestartH {H : Type} (policyH : H → Policy K) (stepH : H → State K → H) (initH : State K → H)
    (mode : Mode) (d : Disk K) (n : Nat) : Option (Run K × H) :=
  (restartStart true mode d (-1)).map (fun r => stepsH policyH stepH n (r, initH r.st))

end run

/-! ### driver -/
open WB.IO

def showOptNat : Option Nat → String
  | some n => toString n
  | none => "IndexError"

/-- the policy that replays recorded refinement events: `table` maps the factor vector of the K-point list after
    iteration j to the events that the real run() performed before iteration j+1 -/
def tablePolicy (table : List (List Rat × List (RefOp Rat))) : Policy Rat :=
  fun pts => match table.find? (fun e => e.1 == pts.map (·.f)) with
    | some e => e.2
    | none => []

def mkTable (mode : Mode) (init : List (Rat × Rat)) (iters : List (List (RefOp Rat))) :
    List (List Rat × List (RefOp Rat)) :=
  (List.range iters.length).map (fun j =>
    ((runIters keepNew mode init (iters.take j)).pts.map (·.f), iters.getD j []))

def shuffleOf : String → List (Nat × List Rat) → List (Nat × List Rat)
  | "rev" => List.reverse
  | "rot" => fun l => l.drop 1 ++ l.take 1
  | _ => id

def insertSorted (e : Nat × List Rat) : List (Nat × List Rat) → List (Nat × List Rat)
  | [] => [e]
  | x :: xs => if e.1 ≤ x.1 then e :: x :: xs else x :: insertSorted e xs

def showRun (r : Run Rat) : String :=
  showOpt r.st.resultAll ++ "@" ++ showRats r.st.factors ++ "@" ++
    showListWith (fun e => toString e.1 ++ ":" ++ showRat e.2) "," r.saved ++ "@" ++
    showRats (r.disk.klog.map (·.f)) ++ "@" ++
    showListWith (fun e => toString e.1 ++ ":" ++ showRats e.2) ";" (r.disk.facs.foldr insertSorted []) ++ "@" ++
    toString r.iter ++ "@" ++ showBool r.st.err

def handle : List String → String
  | ["choose", srt, lst, iter] =>
    match parseBool? srt, parseNats? lst, parseInt? iter with
    | some b, some l, some i => showOptNat (chooseIter b l i)
    | _, _, _ => "bad-op"
  | ["setfactors", fs, n] =>
    match parseRats? fs, parseNat? n with
    | some fs, some n =>
      showRats ((setFactors ((List.replicate n (0 : Rat)).map (fun r => KP.fresh r 1)) fs).map (·.f))
    | _, _ => "bad-op"
  | ["select", k, rows] =>
    -- rows of Kmax (criterion x K-point, already multiplied by the weights); answer: selectPoints with the stable argsort
    match parseNat? k, parseRatss? rows with
    | some k, some rows =>
      let n := (rows.headD []).length
      let pts : List (KP Rat) := (List.range n).map (fun (i : Nat) => KP.fresh ((i : Int) : Rat) 1)
      let crit : Rat → List Rat := fun r => rows.map (fun row => row.getD r.num.toNat 0)
      showNats (selectPoints argsortStable crit rows.length k pts)
    | _, _ => "bad-op"
  | ["campaign", mode, rs, fs, iters, n, more, shuf] =>
    match parseMode? mode, parseRats? rs, parseRats? fs, parseIters? iters, parseNat? n, parseNats? more with
    | some m, some rs, some fs, some its, some n, some more =>
      if rs.length ≠ fs.length then "bad-op" else
      let init := zipInit rs fs
      let policy := tablePolicy (mkTable m init its)
      let fresh := runFresh policy m init (n + more.sum)
      match runSplit policy m init (shuffleOf shuf) n more with
      | some r => showRun fresh ++ " " ++ showRun r
      | none => showRun fresh ++ " FAILED"
    | _, _, _, _, _, _ => "bad-op"
  | _ => "bad-op"

end WB.C11
