/-
  C22 — finite-difference b-vectors.   Core Lean only.

  Models of  wannierberri/w90files/bkvectors.py :
    BKVectors.find_G_and_neighbours          → `findNb`, `neighboursOf`, `findGN`
    BKVectors.k_to_shells                    → `kToShells`      (equal-length classes; the float tolerance
                                                                 `kmesh_tol` is modelled as exact equality)
    the search box of find_bk_vectors        → `boxList`
    BKVectors.get_shell_weights              → `resid2`, `expand`, `shellWeights`
                                               (the SVD solve is an external kernel: its output `ws` is a parameter)
    BKVectors.find_bk_vectors (shell loop)   → `findLoop`       (kernels `par` = is_parallel_shell,
                                                                 `kernel` = the SVD solve, both abstract)
-/
import WB.Model.IO
namespace WB.C22

abbrev I3 := Int × Int × Int
abbrev G3 := Nat × Nat × Nat
abbrev Q3 := Rat × Rat × Rat

def add3 (a b : I3) : I3 := (a.1 + b.1, a.2.1 + b.2.1, a.2.2 + b.2.2)
def sub3 (a b : I3) : I3 := (a.1 - b.1, a.2.1 - b.2.1, a.2.2 - b.2.2)
def neg3 (a : I3) : I3 := (-a.1, -a.2.1, -a.2.2)
/-- `G * mp_grid` -/
def mulN (g : I3) (N : G3) : I3 := (g.1 * N.1, g.2.1 * N.2.1, g.2.2 * N.2.2)

/-! ### find_G_and_neighbours -/

/-- `np.all(g % mp_grid == 0)` (numpy `%` on integers is the floor modulus) -/
def divisible (N : G3) (g : I3) : Bool :=
  g.1.fmod N.1 == 0 && g.2.1.fmod N.2.1 == 0 && g.2.2.fmod N.2.2 == 0

/-- `g // mp_grid` (floor division) -/
def gShift (N : G3) (g : I3) : I3 := (g.1.fdiv N.1, g.2.1.fdiv N.2.1, g.2.2.fdiv N.2.2)

/-- the inner loop `for ik2 in range(NK): ... break`: the FIRST k-point congruent to `kb` modulo the mesh;
    `none` = the `else:` branch (RuntimeError "Could not find a neighbour") -/
def findNb (N : G3) (ks : List I3) (kb : I3) : Option (Nat × I3) :=
  match ks.zipIdx.find? (fun p => divisible N (sub3 kb p.1)) with
  | some (k2, i2) => some (i2, gShift N (sub3 kb k2))
  | none => none

/-- all b-vectors of one k-point -/
def neighboursOf (N : G3) (ks : List I3) (bs : List I3) (k : I3) : Option (List (Nat × I3)) :=
  bs.mapM (fun b => findNb N ks (add3 k b))

/-- `find_G_and_neighbours(kpoints, bk_grid, mp_grid, kptirr)` with `ks = rint(kpoints_red * mp_grid)` -/
def findGN (N : G3) (ks : List I3) (bs : List I3) (kptirr : List Nat) : Option (List (List (Nat × I3))) :=
  kptirr.mapM (fun ik => neighboursOf N ks bs (ks.getD ik (0, 0, 0)))

/-! ### shells -/

abbrev Basis := Q3 × Q3 × Q3

/-- `k_latt @ basis` -/
def cart (B : Basis) (n : I3) : Q3 :=
  (n.1 * B.1.1 + n.2.1 * B.2.1.1 + n.2.2 * B.2.2.1,
   n.1 * B.1.2.1 + n.2.1 * B.2.1.2.1 + n.2.2 * B.2.2.2.1,
   n.1 * B.1.2.2 + n.2.1 * B.2.1.2.2 + n.2.2 * B.2.2.2.2)

def norm2 (v : Q3) : Rat := v.1 * v.1 + v.2.1 * v.2.1 + v.2.2 * v.2.2

/-- a b-vector candidate: lattice coordinates and Cartesian coordinates -/
abbrev BV := I3 × Q3
abbrev Shell := List BV

/-- ordered insertion without repetition (sorted list of the distinct lengths) -/
def insertUniq (x : Rat) : List Rat → List Rat
  | [] => [x]
  | y :: l => if x < y then x :: y :: l else if x = y then y :: l else y :: insertUniq x l

/-- the distinct non-zero squared lengths, ascending (`argsort(k_length)` + the border search) -/
def shellKeys (l : List BV) : List Rat :=
  ((l.map (fun p => norm2 p.2)).filter (fun q => q ≠ 0)).foldr insertUniq []

/-- `k_to_shells`: the zero vector is dropped, the rest is grouped by length, shortest first -/
def kToShells (l : List BV) : List Shell :=
  (shellKeys l).map (fun L => l.filter (fun p => norm2 p.2 == L))

/-- `range(-s*N, s*N+1)` -/
def symRange (m : Nat) : List Int := (List.range (2 * m + 1)).map (fun (t : Nat) => (t : Int) - (m : Int))

/-- the search box of `find_bk_vectors` (i outermost) -/
def boxList (N : G3) (s : Nat) : List I3 :=
  (symRange (s * N.1)).flatMap fun i => (symRange (s * N.2.1)).flatMap fun j =>
    (symRange (s * N.2.2)).map fun k => (i, j, k)

def boxBV (B : Basis) (N : G3) (s : Nat) : List BV := (boxList N s).map (fun n => (n, cart B n))

/-! ### get_shell_weights -/

def el (v : Q3) : Fin 3 → Rat
  | 0 => v.1
  | 1 => v.2.1
  | 2 => v.2.2

/-- entry (i,j) of `kcart.T.dot(kcart)` -/
def shellMat (S : Shell) (i j : Fin 3) : Rat := (S.map (fun b => el b.2 i * el b.2 j)).sum

/-- entry (i,j) of `check_eye = sum(w * m for w, m in zip(weight_shell, shell_mat))` -/
def checkEye (ws : List Rat) (shells : List Shell) (i j : Fin 3) : Rat :=
  ((ws.zip shells).map (fun p => p.1 * shellMat p.2 i j)).sum

def delta (i j : Fin 3) : Rat := if i = j then 1 else 0

def fin3 : List (Fin 3) := [0, 1, 2]

/-- squared Frobenius norm of a 3×3 array minus the identity -/
def frob2 (A : Fin 3 → Fin 3 → Rat) : Rat :=
  (fin3.map (fun i => (fin3.map (fun j => (A i j - delta i j) * (A i j - delta i j))).sum)).sum

def resid2 (ws : List Rat) (shells : List Shell) : Rat := frob2 (checkEye ws shells)

/-- one entry of the returned arrays: `(wk[b], bk_grid[b], bk_cart[b])` -/
abbrev WB3 := Rat × I3 × Q3

/-- the final loops of `get_shell_weights`: every vector of a shell gets the shell's weight -/
def expand (ws : List Rat) (shells : List Shell) : List WB3 :=
  (ws.zip shells).flatMap (fun p => p.2.map (fun b => (p.1, b.1, b.2)))

/-- `get_shell_weights` after the SVD solve returned `ws`:  `none` = "incomplete shells" -/
def shellWeights (ws : List Rat) (shells : List Shell) (tol : Rat) : Option (List WB3) :=
  if resid2 ws shells ≤ tol * tol then some (expand ws shells) else none

/-- Σ_b w_b b_i b_j of a flat list -/
def wbb (l : List WB3) (i j : Fin 3) : Rat := (l.map (fun p => p.1 * el p.2.2 i * el p.2.2 j)).sum

/-! ### find_bk_vectors: the loop over shells -/

/-- outcome of the SVD solve: a too small / too large singular value, or the weights -/
inductive Solve where
  | zeroSV
  | weights (ws : List Rat)

/-- `acc` = shell_list (accepted, still incomplete shells).  `par acc s` = is_parallel_shell(projectors of acc, s);
    `kernel` = the SVD pseudo-inverse.  `none` = RuntimeError "Could not find a complete set of bk vectors". -/
def findLoop (par : List Shell → Shell → Bool) (kernel : List Shell → Solve) (tol : Rat) :
    List Shell → List Shell → Option (List WB3)
  | [], _ => none
  | s :: rest, acc =>
    if par acc s then findLoop par kernel tol rest acc
    else match kernel (acc ++ [s]) with
      | .zeroSV => findLoop par kernel tol rest acc
      | .weights ws =>
        match shellWeights ws (acc ++ [s]) tol with
        | some r => some r
        | none => findLoop par kernel tol rest (acc ++ [s])

/-- `find_bk_vectors(recip_lattice, mp_grid, search_supercell = s)` with `B = recip_lattice / mp_grid[:, None]` -/
def findBk (par : List Shell → Shell → Bool) (kernel : List Shell → Solve) (tol : Rat)
    (B : Basis) (N : G3) (s : Nat) : Option (List WB3) :=
  findLoop par kernel tol (kToShells (boxBV B N s)) []

/-! ### driver -/
open WB.IO

def toI3 : List Int → Option I3
  | [a, b, c] => some (a, b, c)
  | _ => none
def toQ3 : List Rat → Option Q3
  | [a, b, c] => some (a, b, c)
  | _ => none
def toG3 : List Nat → Option G3
  | [a, b, c] => some (a, b, c)
  | _ => none
def toBasis : List (List Rat) → Option Basis
  | [a, b, c] => do let x ← toQ3 a; let y ← toQ3 b; let z ← toQ3 c; pure (x, y, z)
  | _ => none

def showI3 (a : I3) : String := s!"{a.1},{a.2.1},{a.2.2}"

def showNb : Option (List (Nat × I3)) → String
  | none => "none"
  | some l => showListWith (fun p => s!"{p.1}:{showI3 p.2}") ";" l

/-- insertion sort of lattice vectors (canonical order inside a shell: numpy's argsort is not stable) -/
def lexLe (a b : I3) : Bool :=
  a.1 < b.1 || (a.1 == b.1 && (a.2.1 < b.2.1 || (a.2.1 == b.2.1 && a.2.2 ≤ b.2.2)))
def sortI3 (l : List I3) : List I3 := l.mergeSort lexLe

def showShells (l : List Shell) (limit : Nat) : String :=
  showListWith (fun S => showListWith showI3 "|" (sortI3 (S.map (·.1)))) ";" (l.take limit)

def showFlat (l : List WB3) : String :=
  showListWith (fun p => s!"{showRat p.1}:{showI3 p.2.1}") ";" l

def handle : List String → String
  | ["nb", n, ks, bs, irr] =>
    match (parseNats? n).bind toG3, (parseIntss? ks).bind (·.mapM toI3), (parseIntss? bs).bind (·.mapM toI3),
          parseNats? irr with
    | some N, some k, some b, some ir =>
      match findGN N k b ir with
      | none => "none"
      | some rows => showListWith (fun r => showNb (some r)) "/" rows
    | _, _, _, _ => "bad-op"
  | ["shells", bas, latt, limit] =>
    match (parseRatss? bas).bind toBasis, (parseIntss? latt).bind (·.mapM toI3), parseNat? limit with
    | some B, some l, some lim => showShells (kToShells (l.map (fun n => (n, cart B n)))) lim
    | _, _, _ => "bad-op"
  | ["box", n, s] =>
    match (parseNats? n).bind toG3, parseNat? s with
    | some N, some s => showListWith showI3 ";" (boxList N s)
    | _, _ => "bad-op"
  | ["weights", bas, ws, shells, tol] =>
    -- shells: `;`-separated shells, each a `|`-separated list of lattice vectors
    match (parseRatss? bas).bind toBasis, parseRats? ws, parseRat? tol with
    | some B, some w, some t =>
      let sh := (shells.splitOn ";").mapM (fun s => (s.splitOn "|").mapM (fun v => (parseInts? v).bind toI3))
      match sh with
      | some sl =>
        let S : List Shell := sl.map (fun l => l.map (fun n => (n, cart B n)))
        match shellWeights w S t with
        | some r => "ok " ++ showFlat r
        | none => "incomplete"
      | none => "bad-op"
    | _, _, _ => "bad-op"
  | ["findbk", bas, n, s, tol, parT, zsvT, wT] =>
    -- trace driven: the kernels are tables indexed by the position of the NEW shell in the shell list
    match (parseRatss? bas).bind toBasis, (parseNats? n).bind toG3, parseNat? s, parseRat? tol,
          parseNats? parT, parseNats? zsvT, parseRatss? wT with
    | some B, some N, some s, some t, some pT, some zT, some wT =>
      let shells := kToShells (boxBV B N s)
      let idx (S : Shell) : Nat := shells.idxOf S
      let par : List Shell → Shell → Bool := fun _ S => pT.getD (idx S) 0 == 1
      let kernel : List Shell → Solve := fun acc =>
        let i := idx (acc.getLastD [])
        if zT.getD i 0 == 1 then .zeroSV else .weights (wT.getD i [])
      match findLoop par kernel t shells [] with
      | some r => "ok " ++ showFlat r
      | none => "none"
    | _, _, _, _, _, _, _ => "bad-op"
  | _ => "bad-op"

end WB.C22
