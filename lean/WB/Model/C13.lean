/-
  C13 — Fermi-sea / Fermi-surface semantics of static calculators (no tetrahedron).   Core Lean only.

  Models of
    wannierberri/calculators/static.py : StaticCalculator.__init__ (extraEf, dEF, EFmin, EFmax, nEF_extra),
                                         StaticCalculator.__call__ (accumulation into Fermi bins with
                                         iEf = ceil((E-EFmin)/dEF), finite-difference stencils, /nk, k_resolved)
    wannierberri/data_K/data_K.py      : Data_K.get_bands_in_range_groups_ik (window groups, mean energy, lumped
                                         sea group with energy -inf)
    wannierberri/utility.py            : weight_select_bands
  The value of a group (`formula.trace(ik, inn, out)`, one tensor component) is an input of the model; the overall
  scalars `1/cell_volume` and `constant_factor` multiply everything and are left out.
-/
import WB.Model.IO
import WB.Model.C15
import WB.Model.C14
namespace WB.C13

/-- `extraEf = 0 if fder == 0 else 1 if fder in (1,2) else 2 if fder == 3 else None` -/
def extraEf : Nat → Nat
  | 0 => 0
  | 1 => 1
  | 2 => 1
  | 3 => 2
  | _ => 0

/-- the Fermi-level array as `Ef : Nat → Rat` with length `n ≥ 1` -/
def dEF (Ef : Nat → Rat) (n : Nat) : Rat := if n > 1 then Ef 1 - Ef 0 else 1 / 1000
def EFmin (Ef : Nat → Rat) (n fder : Nat) : Rat := Ef 0 - (extraEf fder : Rat) * dEF Ef n
def EFmax (Ef : Nat → Rat) (n fder : Nat) : Rat := Ef (n - 1) + (extraEf fder : Rat) * dEF Ef n
def nEFextra (n fder : Nat) : Nat := n + 2 * extraEf fder

/-- a band group as seen by `__call__`: its energy (`none` = `-inf`, the lumped sea group) and its value
    (trace × `weight_select_bands`) -/
abbrev Group := Option Rat × Rat

/-- `iEf = ceil((E - EFmin) / dEF)` -/
def iEf (efmin d E : Rat) : Int := ((E - efmin) / d).ceil

/-- contribution of one group to `restot[j]`:
      `if E < EFmin: restot += v`   `elif E <= EFmax: restot[iEf:] += v` -/
def contrib (efmin efmax d : Rat) (g : Group) (j : Nat) : Rat :=
  match g.1 with
  | none => g.2
  | some E =>
    if E < efmin then g.2
    else if E ≤ efmax then (if iEf efmin d E ≤ (j : Int) then g.2 else 0)
    else 0

/-- `restot[j]` of one k-point before the finite differences -/
def accumulate (efmin efmax d : Rat) (groups : List Group) (j : Nat) : Rat :=
  (groups.map (fun g => contrib efmin efmax d g j)).foldl (· + ·) 0

/-- the finite-difference stencils of `__call__` (output index `j`, input = `restot` of length `n + 2·extraEf`) -/
def stencil (fder : Nat) (d : Rat) (r : Nat → Rat) (j : Nat) : Rat :=
  match fder with
  | 0 => r j
  | 1 => (r (j + 2) - r j) / (2 * d)
  | 2 => (r (j + 2) + r j - 2 * r (j + 1)) / (d * d)
  | 3 => (r (j + 4) - r j - 2 * (r (j + 3) - r (j + 1))) / (2 * (d * d * d))
  | _ => 0

/-- sum over k-points of the per-k accumulations -/
def sumK (rs : List (Nat → Rat)) (j : Nat) : Rat := (rs.map (fun r => r j)).foldl (· + ·) 0

/-- the unresolved result `EnergyResult.data[j]` (up to `constant_factor / cell_volume`): all k-points are dumped
    into one accumulator, the stencil is applied, and the result is divided by `nk` -/
def unresolved (fder : Nat) (Ef : Nat → Rat) (n : Nat) (ks : List (List Group)) (j : Nat) : Rat :=
  stencil fder (dEF Ef n)
    (sumK (ks.map (fun g => accumulate (EFmin Ef n fder) (EFmax Ef n fder) (dEF Ef n) g))) j
    / (ks.length : Rat)

/-- the k-resolved result `K__Result.data[ik, j]`: not divided by `nk` -/
def resolved (fder : Nat) (Ef : Nat → Rat) (n : Nat) (g : List Group) (j : Nat) : Rat :=
  stencil fder (dEF Ef n) (accumulate (EFmin Ef n fder) (EFmax Ef n fder) (dEF Ef n) g) j

/-! ### band groups of one k-point: `Data_K.get_bands_in_range_groups_ik` -/

/-- `E_K[ik, ib1:ib2].mean()` -/
def groupMean (E : Nat → Rat) (ab : Nat × Nat) : Rat :=
  (((List.range (ab.2 - ab.1)).map (fun j => E (ab.1 + j))).foldl (· + ·) 0) / ((ab.2 - ab.1 : Nat) : Rat)

/-- `set(range(ib1, ib2)).intersection(set(select_bands)) != set()` (no selection = keep) -/
def selHits (sel : Option (List Nat)) (ab : Nat × Nat) : Bool :=
  match sel with
  | none => true
  | some l => l.any (fun i => decide (ab.1 ≤ i) && decide (i < ab.2))

/-- `weight_select_bands(ib1, ib2, select_bands) = np.sum((sel >= ib1) * (sel < ib2)) / (ib2 - ib1)` -/
def wsel (sel : Option (List Nat)) (ab : Nat × Nat) : Rat :=
  match sel with
  | none => 1
  | some l => ((l.filter (fun i => decide (ab.1 ≤ i) && decide (i < ab.2))).length : Rat) / ((ab.2 - ab.1 : Nat) : Rat)

/-- window groups: `get_bands_in_range(emin, emax, E_K[ik], degen_thresh, degen_Kramers, select_bands)` -/
def windowGroups (E : Nat → Rat) (th : Rat) (n : Nat) (kr : Bool) (emin emax : Rat) (sel : Option (List Nat)) :
    List (Nat × Nat) :=
  (C15.blocks E th n kr).filter (fun ab =>
    selHits sel ab && (decide (C15.sliceMax E ab.1 ab.2 ≥ emin) && decide (C15.sliceMin E ab.1 ab.2 ≤ emax)))

/-- the lumped sea group `(0, bandmax)` with energy `-inf` -/
def seaBandmax (E : Nat → Rat) (n : Nat) (emin : Rat) (win : List (Nat × Nat)) : Nat :=
  match win.head? with
  | some ab => min (C14.bandsBelow E n (some emin)) ab.1
  | none => C14.bandsBelow E n (some emin)

/-- the dictionary `{(ib1, ib2): energy}` returned by `get_bands_in_range_groups_ik` (as a list; `none` = -inf) -/
def groupsIK (E : Nat → Rat) (th : Rat) (n : Nat) (kr : Bool) (emin emax : Rat) (sea : Bool)
    (sel : Option (List Nat)) : List ((Nat × Nat) × Option Rat) :=
  let win := windowGroups E th n kr emin emax sel
  let ws := win.map (fun ab => (ab, some (groupMean E ab)))
  if sea && decide (seaBandmax E n emin win > 0) then ws ++ [((0, seaBandmax E n emin win), none)] else ws

/-- groups with values: `values[ik][n] * weight_select_bands(n)`; `v` is the formula trace of a group -/
def groupsWithValues (E : Nat → Rat) (th : Rat) (n : Nat) (kr : Bool) (emin emax : Rat) (sea : Bool)
    (sel : Option (List Nat)) (v : Nat × Nat → Rat) : List Group :=
  (groupsIK E th n kr emin emax sea sel).map (fun g => (g.2, v g.1 * wsel sel g.1))

/-- a complete static calculator on one k-point with band energies `E` (the formula enters through `v`) -/
def calcK (fder : Nat) (Ef : Nat → Rat) (nEf : Nat) (E : Nat → Rat) (th : Rat) (nb : Nat) (kr : Bool)
    (sel : Option (List Nat)) (v : Nat × Nat → Rat) : List Group :=
  groupsWithValues E th nb kr (EFmin Ef nEf fder) (EFmax Ef nEf fder) (fder == 0) sel v

/-- the extended Fermi grid `EFmin + j·dEF`, `j < n + 2·extraEf` on which the sea calculator is differenced -/
def extGrid (fder : Nat) (Ef : Nat → Rat) (n : Nat) (j : Nat) : Rat := EFmin Ef n fder + (j : Rat) * dEF Ef n

/-- cumulative DOS of one k-point: `Identity` formula, trace = group size -/
def sizeOf (ab : Nat × Nat) : Rat := ((ab.2 - ab.1 : Nat) : Rat)

/-! ### value assembly, overall scalars, hole-like calculators -/

/-- `values[ik][n]`: `tr a b` stands for `formula.trace(ik, inn = arange(a,b), out = the other bands)`.
    additive formulas: `trace(ik, inn, out)` of the group; otherwise `_values[n[1]] - _values[n[0]]` with
    `_values[m] = trace(ik, arange(0,m), arange(m,NB))` -/
def assemble (additive : Bool) (tr : Nat → Nat → Rat) (ab : Nat × Nat) : Rat :=
  if additive then tr ab.1 ab.2 else tr 0 ab.2 - tr 0 ab.1

/-- `np.sign` -/
def sgn (c : Rat) : Rat := if c > 0 then 1 else if c < 0 then -1 else 0

/-- the factor the result is finally multiplied with: `__init__` flips the sign of `constant_factor` for a hole-like
    Fermi-sea calculator; `use_factor=False` keeps only the sign -/
def effFactor (cf : Rat) (holeLike : Bool) (fder : Nat) (useFactor : Bool) : Rat :=
  let c := if holeLike && fder == 0 then -cf else cf
  if useFactor then c else sgn c

/-- `EnergyResult.data[j]` of a (non-tetra) `StaticCalculator` with all scalars:
    `restot /= cell_volume; restot /= nk; restot *= constant_factor` -/
def fullUnresolved (cf vol : Rat) (holeLike useFactor : Bool) (fder : Nat) (Ef : Nat → Rat) (n : Nat)
    (ks : List (List Group)) (j : Nat) : Rat :=
  unresolved fder Ef n ks j / vol * effFactor cf holeLike fder useFactor

/-- `K__Result.data[ik, j]` with all scalars (no division by `nk`) -/
def fullResolved (cf vol : Rat) (holeLike useFactor : Bool) (fder : Nat) (Ef : Nat → Rat) (n : Nat)
    (g : List Group) (j : Nat) : Rat :=
  resolved fder Ef n g j / vol * effFactor cf holeLike fder useFactor

/-- `_DOS.__call__` (CumDOS, DOS, Spin, …): `super().__call__(data_K) * data_K.cell_volume` -/
def dosClass (vol : Rat) (fder : Nat) (Ef : Nat → Rat) (n : Nat) (ks : List (List Group)) (j : Nat) : Rat :=
  fullUnresolved 1 vol false true fder Ef n ks j * vol

/-! ### driver -/
open WB.IO

def ofList (l : List Rat) : Nat → Rat := fun i => l.getD i 0

def showGroup (g : (Nat × Nat) × Option Rat) : String :=
  toString g.1.1 ++ "," ++ toString g.1.2 ++ "," ++ (match g.2 with | some e => showRat e | none => "-inf")

def parseSel? (s : String) : Option (Option (List Nat)) :=
  if s = "none" then some none else (parseNats? s).map some

def parseGroup? (s : String) : Option Group :=
  match s.splitOn ":" with
  | [e, v] =>
    match (if e = "-inf" then some none else (parseRat? e).map some), parseRat? v with
    | some e', some v' => some (e', v')
    | _, _ => none
  | _ => none

/-- groups of several k-points: `e:v,e:v;e:v` (k-points separated by `;`, `_` = no group) -/
def parseGroupss? (s : String) : Option (List (List Group)) :=
  parseListWith (parseListWith parseGroup? ",") ";" s

def handle : List String → String
  -- ief efmin d E
  | ["ief", a, d, e] =>
    match parseRat? a, parseRat? d, parseRat? e with
    | some a', some d', some e' => if d' = 0 then "bad-op" else toString (iEf a' d' e')
    | _, _, _ => "bad-op"
  -- groups E th kr emin emax sea sel
  | ["groups", e, th, kr, emin, emax, sea, sel] =>
    match parseRats? e, parseRat? th, parseBool? kr, parseRat? emin, parseRat? emax, parseBool? sea, parseSel? sel with
    | some l, some t, some k, some a, some b, some s, some sl =>
      if l.isEmpty then "bad-op" else showListWith showGroup ";" (groupsIK (ofList l) t l.length k a b s sl)
    | _, _, _, _, _, _, _ => "bad-op"
  -- wsel sel a b
  | ["wsel", sel, a, b] =>
    match parseSel? sel, parseNat? a, parseNat? b with
    | some sl, some a', some b' => showRat (wsel sl (a', b'))
    | _, _, _ => "bad-op"
  -- params fder Ef  ->  dEF EFmin EFmax nEFextra
  | ["params", fder, ef] =>
    match parseNat? fder, parseRats? ef with
    | some f, some l =>
      if l.isEmpty then "bad-op" else
      showRats [dEF (ofList l) l.length, EFmin (ofList l) l.length f, EFmax (ofList l) l.length f,
                (nEFextra l.length f : Rat)]
    | _, _ => "bad-op"
  -- unres fder Ef groupsPerK   -> result for every Fermi level
  | ["unres", fder, ef, gs] =>
    match parseNat? fder, parseRats? ef, parseGroupss? gs with
    | some f, some l, some ks =>
      if l.isEmpty || ks.isEmpty then "bad-op" else
      showRats ((List.range l.length).map (unresolved f (ofList l) l.length ks))
    | _, _, _ => "bad-op"
  -- full cf vol hole usefactor fder Ef groupsPerK  -> unresolved result with all scalars
  | ["full", cf, vol, hole, uf, fder, ef, gs] =>
    match parseRat? cf, parseRat? vol, parseBool? hole, parseBool? uf, parseNat? fder, parseRats? ef, parseGroupss? gs with
    | some c, some v, some h, some u, some f, some l, some ks =>
      if l.isEmpty || ks.isEmpty || v = 0 then "bad-op" else
      showRats ((List.range l.length).map (fullUnresolved c v h u f (ofList l) l.length ks))
    | _, _, _, _, _, _, _ => "bad-op"
  -- fullres cf vol hole usefactor fder Ef groupsPerK  -> k-resolved result with all scalars
  | ["fullres", cf, vol, hole, uf, fder, ef, gs] =>
    match parseRat? cf, parseRat? vol, parseBool? hole, parseBool? uf, parseNat? fder, parseRats? ef, parseGroupss? gs with
    | some c, some v, some h, some u, some f, some l, some ks =>
      if l.isEmpty || ks.isEmpty || v = 0 then "bad-op" else
      showRatss (ks.map (fun g => (List.range l.length).map (fullResolved c v h u f (ofList l) l.length g)))
    | _, _, _, _, _, _, _ => "bad-op"
  -- res fder Ef groupsPerK   -> k-resolved result, one row per k
  | ["res", fder, ef, gs] =>
    match parseNat? fder, parseRats? ef, parseGroupss? gs with
    | some f, some l, some ks =>
      if l.isEmpty || ks.isEmpty then "bad-op" else
      showRatss (ks.map (fun g => (List.range l.length).map (resolved f (ofList l) l.length g)))
    | _, _, _ => "bad-op"
  | _ => "bad-op"

end WB.C13
