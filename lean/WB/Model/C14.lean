/-
  C14 — tetrahedron weights are the exact linear-tetrahedron volume fractions.   Core Lean only.

  Models of
    wannierberri/grid/tetrahedron.py : weights_tetra (both branches, der 0-3, the 1e-12 separation),
                                       get_bands_in_range (with Ebandmin/Ebandmax), get_bands_below_range,
                                       get_bands_above_range, TetraWeights.weights_all_band_groups,
                                       TetraWeightsParal.weight_1k1b_priv (12 tetrahedra of a parallelepiped)

  The weight functions are written against notation classes only, so that the SAME definition is executed at
  `Rat` by the driver and is the subject of the theorems for every linearly ordered field (ℝ included).
-/
import WB.Model.IO
import WB.Model.C15
namespace WB.C14

section weights
variable {K : Type} [Add K] [Sub K] [Mul K] [Div K] [Neg K] [OfNat K 0] [OfNat K 1] [NatCast K]
  [LE K] [LT K] [DecidableLE K] [DecidableLT K]

/-- `sorted([e0, e1, e2, e3])` -/
def sort4 (a b c d : K) : List K := [a, b, c, d].mergeSort (fun x y => decide (x ≤ y))

/-- the "dirty trick":  `for i in range(3): if e[i+1] - e[i] < diff_min: e[i+1] = e[i] + diff_min`
    (sequential: the already shifted `e[i]` is used for the next comparison) -/
def sep4 (dmin e1 e2 e3 e4 : K) : K × K × K × K :=
  let e2' := if e2 - e1 < dmin then e1 + dmin else e2
  let e3' := if e3 - e2' < dmin then e2' + dmin else e3
  let e4' := if e4 - e3' < dmin then e3' + dmin else e4
  (e1, e2', e3', e4')

/-- the five-way branch on the Fermi level that every loop of `weights_tetra` has -/
def piece (e1 e2 e3 e4 ef : K) (above below p3 p2 p1 : K) : K :=
  if e4 ≤ ef then above            -- ef >= e4
  else if ef < e1 then below
  else if e3 ≤ ef then p3          -- ef >= e3  : c3
  else if e2 ≤ ef then p2          -- ef >= e2  : c2
  else p1                          -- c1

/-- `accurate and der == 0` branch -/
def occAcc (e1 e2 e3 e4 ef : K) : K :=
  piece e1 e2 e3 e4 ef 1 0
    (1 - ((ef - e4) / (e1 - e4)) * ((ef - e4) / (e2 - e4)) * ((ef - e4) / (e3 - e4)))
    (let a13 := (ef - e1) / (e3 - e1)
     let a14 := (ef - e1) / (e4 - e1)
     let a23 := (ef - e2) / (e3 - e2)
     let a24 := (ef - e2) / (e4 - e2)
     a23 * a24 + a13 * (a14 * (1 - a24) + a24 * (1 - a23)))
    (((ef - e1) / (e2 - e1)) * ((ef - e1) / (e3 - e1)) * ((ef - e1) / (e4 - e1)))

/-- coefficients of the three cubics of the polynomial branch -/
structure Coef (K : Type) where
  c10 : K
  c11 : K
  c12 : K
  c13 : K
  c20 : K
  c21 : K
  c22 : K
  c23 : K
  c30 : K
  c31 : K
  c32 : K
  c33 : K

def two : K := ((2 : Nat) : K)
def three : K := ((3 : Nat) : K)
def six : K := ((6 : Nat) : K)

def coefs (e1 e2 e3 e4 : K) : Coef K :=
  let denom3 : K := 1 / ((e4 - e1) * (e4 - e2) * (e4 - e3))
  let denom2 : K := 1 / ((e3 - e1) * (e4 - e1) * (e3 - e2) * (e4 - e2))
  let denom1 : K := 1 / ((e2 - e1) * (e3 - e1) * (e4 - e1))
  { c10 := -(e1 * e1 * e1) * denom1
    c30 := -(e4 * e4 * e4) * denom3 + 1
    c20 := (e1 * e1 * (e3 - e2) * (e4 - e2) - (e2 * e2 * e4) * (e1 - e3) - e1 * e2 * e3 * (e2 - e4)) * denom2
    c13 := denom1
    c33 := denom3
    c23 := denom2 * (e1 + e2 - e3 - e4)
    c12 := -three * e1 * denom1
    c22 := (((e3 - e2) * (e4 - e2)) - (e1 - e3) * (two * e2 + e4) - (e3 + e1 + e2) * (e2 - e4)) * denom2
    c32 := -three * e4 * denom3
    c11 := three * (e1 * e1) * denom1
    c21 := (-two * e1 * ((e3 - e2) * (e4 - e2)) + (two * e2 * e4 + e2 * e2) * (e1 - e3)
              + (e1 * e2 + e2 * e3 + e1 * e3) * (e2 - e4)) * denom2
    c31 := three * (e4 * e4) * denom3 }

/-- polynomial branch (always used for `der ≥ 1`, and for `der = 0` with `accurate=False`);
    `der > 3` leaves the zero-initialised array untouched -/
def occPoly (der : Nat) (e1 e2 e3 e4 ef : K) : K :=
  let c := coefs e1 e2 e3 e4
  match der with
  | 0 => piece e1 e2 e3 e4 ef 1 0
           (c.c30 + ef * (c.c31 + ef * (c.c32 + c.c33 * ef)))
           (c.c20 + ef * (c.c21 + ef * (c.c22 + c.c23 * ef)))
           (c.c10 + ef * (c.c11 + ef * (c.c12 + c.c13 * ef)))
  | 1 => piece e1 e2 e3 e4 ef 0 0
           (c.c31 + ef * (two * c.c32 + three * c.c33 * ef))
           (c.c21 + ef * (two * c.c22 + three * c.c23 * ef))
           (c.c11 + ef * (two * c.c12 + three * c.c13 * ef))
  | 2 => piece e1 e2 e3 e4 ef 0 0
           (two * c.c32 + six * c.c33 * ef)
           (two * c.c22 + six * c.c23 * ef)
           (two * c.c12 + six * c.c13 * ef)
  | 3 => piece e1 e2 e3 e4 ef 0 0 (six * c.c33) (six * c.c23) (six * c.c13)
  | _ => 0

/-- weights on sorted, separated corners -/
def occ (der : Nat) (accurate : Bool) (e1 e2 e3 e4 ef : K) : K :=
  if accurate && der == 0 then occAcc e1 e2 e3 e4 ef else occPoly der e1 e2 e3 e4 ef

/-- `weights_tetra(efall, e0, e1, e2, e3, der, accurate)[i]` for `ef = efall[i]`; `dmin` is the code's `1e-12`.
    (`sort4` always has four elements — `sort4_length` in Lemmas/C14Sort — so the last branch is never taken.) -/
def weightsTetra (dmin : K) (der : Nat) (accurate : Bool) (e0 e1 e2 e3 ef : K) : K :=
  match sort4 e0 e1 e2 e3 with
  | [a, b, c, d] =>
    let s := sep4 dmin a b c d
    occ der accurate s.1 s.2.1 s.2.2.1 s.2.2.2 ef
  | _ => 0

/-! ### parallelepiped: 12 tetrahedra (centre + two triangles on each of the six faces) -/

/-- vertex triples `(Eface[0,0], Eface[0,1], Eface[1,1])`, `(Eface[0,0], Eface[1,0], Eface[1,1])` for
    `Eface ∈ eCorner[iface,:,:], eCorner[:,iface,:], eCorner[:,:,iface]`, `iface ∈ {0,1}`;
    a vertex is its index triple `(ix,iy,iz)` -/
def faceVertex (axis iface p q : Nat) : Nat × Nat × Nat :=
  match axis with
  | 0 => (iface, p, q)
  | 1 => (p, iface, q)
  | _ => (p, q, iface)

def paralTets : List ((Nat × Nat × Nat) × (Nat × Nat × Nat) × (Nat × Nat × Nat)) :=
  ([0, 1].flatMap fun iface => [0, 1, 2].flatMap fun axis =>
    [ (faceVertex axis iface 0 0, faceVertex axis iface 0 1, faceVertex axis iface 1 1),
      (faceVertex axis iface 0 0, faceVertex axis iface 1 0, faceVertex axis iface 1 1) ])

/-- `TetraWeightsParal.weight_1k1b_priv`: `corner (ix,iy,iz)` is `eCorners[ik, ix, iy, iz, ib]` -/
def paralWeight (dmin : K) (der : Nat) (accurate : Bool) (center : K) (corner : Nat × Nat × Nat → K) (ef : K) : K :=
  (paralTets.foldl (fun acc t =>
      acc + weightsTetra dmin der accurate center (corner t.1) (corner t.2.1) (corner t.2.2) ef) 0)
    / ((12 : Nat) : K)

end weights

/-! ### band groups of `TetraWeights.weights_all_band_groups` (one k-point) -/

/-- `get_bands_in_range(emin, emax, Eband, degen_thresh, degen_Kramers, Ebandmin, Ebandmax)`:
    blocks of the centre energies kept when `Ebandmax[a:b].max() ≥ emin` and `Ebandmin[a:b].min() ≤ emax` -/
def inRange (Ec Emin Emax : Nat → Rat) (th : Rat) (n : Nat) (kr : Bool) (emin emax : Rat) : List (Nat × Nat) :=
  (C15.blocks Ec th n kr).filter
    (fun ab => decide (C15.sliceMax Emax ab.1 ab.2 ≥ emin) && decide (C15.sliceMin Emin ab.1 ab.2 ≤ emax))

/-- `get_bands_below_range(emin, Eband, Ebandmax)`: (last index with `Ebandmax < emin`) + 1, or 0.
    `none` stands for `emin = -inf` -/
def bandsBelow (Emax : Nat → Rat) (n : Nat) : Option Rat → Nat
  | none => 0
  | some emin => match (List.range n).reverse.find? (fun i => decide (Emax i < emin)) with
    | some i => i + 1
    | none => 0

/-- `get_bands_above_range(emax, Eband, Ebandmin)`: first index with `Ebandmin > emax`, or `n`.
    `none` stands for `emax = +inf` -/
def bandsAbove (Emin : Nat → Rat) (n : Nat) : Option Rat → Nat
  | none => n
  | some emax => match (List.range n).find? (fun i => decide (Emin i > emax)) with
    | some i => i
    | none => n

/-- the lumped group added by `weights_all_band_groups` for `der = 0` (Fermi sea): bands below the window -/
def seaGroup (Emax : Nat → Rat) (n : Nat) (inr : List (Nat × Nat)) (ef0 : Rat) (EminP : Option Rat) : Option (Nat × Nat) :=
  let bandmax0 := bandsBelow Emax n (some ef0)
  let bandmin := bandsBelow Emax n EminP
  let bandmax := match inr.head? with
    | some ab => min bandmax0 ab.1
    | none => bandmax0
  if bandmax > bandmin then some (bandmin, bandmax) else none

/-- the lumped group for `der = -1` (hole-like: 1 - occupation): bands above the window -/
def antiSeaGroup (Emin : Nat → Rat) (n : Nat) (inr : List (Nat × Nat)) (efN : Rat) (EmaxP : Option Rat) : Option (Nat × Nat) :=
  let bandmin0 := bandsAbove Emin n (some efN)
  let bandmax := bandsAbove Emin n EmaxP
  let bandmin := match inr.getLast? with
    | some ab => max bandmin0 ab.2
    | none => bandmin0
  if bandmax > bandmin then some (bandmin, bandmax) else none

/-- tetrahedron-method result of a static calculator at one k-point and one Fermi level:
    `Σ_groups (mean over the group of the band weights) · value(group)  +  1 · value(lumped group)`.
    `w ib` is the weight of band `ib` at this Fermi level (`weight_1k1b`), `v` the formula trace of a group. -/
def groupWeight (w : Nat → Rat) (ab : Nat × Nat) : Rat :=
  (((List.range (ab.2 - ab.1)).map (fun j => w (ab.1 + j))).foldl (· + ·) 0) / ((ab.2 - ab.1 : Nat) : Rat)

/-- contribution of the lumped group: weight `ones(len(eFermi))` times the value -/
def lumpValue (lumped : Option (Nat × Nat)) (v : Nat × Nat → Rat) : Rat :=
  match lumped with
  | some g => v g
  | none => 0

def tetraResult (inr : List (Nat × Nat)) (lumped : Option (Nat × Nat)) (w : Nat → Rat) (v : Nat × Nat → Rat) : Rat :=
  (inr.map (fun ab => groupWeight w ab * v ab)).foldl (· + ·) 0 + lumpValue lumped v

/-- cumulative DOS contribution of one k-point: the formula is `Identity`, whose trace is the group size -/
def identTrace (ab : Nat × Nat) : Rat := ((ab.2 - ab.1 : Nat) : Rat)

def tetraCumDOS (Ec Emin Emax : Nat → Rat) (th : Rat) (n : Nat) (kr : Bool) (ef0 efN : Rat) (w : Nat → Rat) : Rat :=
  let inr := inRange Ec Emin Emax th n kr ef0 efN
  tetraResult inr (seaGroup Emax n inr ef0 none) w identTrace

/-! ### band selection inside `weights_all_band_groups` -/

/-- `set(range(ib1, ib2)).intersection(set(select_bands)) != set()` (no selection = keep) -/
def selHits (sel : Option (List Nat)) (ab : Nat × Nat) : Bool :=
  match sel with
  | none => true
  | some l => l.any (fun i => decide (ab.1 ≤ i) && decide (i < ab.2))

/-- `weight_select_bands(ib1, ib2, select_bands)` -/
def wsel (sel : Option (List Nat)) (ab : Nat × Nat) : Rat :=
  match sel with
  | none => 1
  | some l => ((l.filter (fun i => decide (ab.1 ≤ i) && decide (i < ab.2))).length : Rat) / ((ab.2 - ab.1 : Nat) : Rat)

/-- window groups with a band selection (groups without a selected band are skipped) -/
def inRangeSel (Ec Emin Emax : Nat → Rat) (th : Rat) (n : Nat) (kr : Bool) (emin emax : Rat)
    (sel : Option (List Nat)) : List (Nat × Nat) :=
  (inRange Ec Emin Emax th n kr emin emax).filter (selHits sel)

/-- weight of a window group: mean of the band weights times `weight_select_bands` -/
def groupWeightSel (w : Nat → Rat) (sel : Option (List Nat)) (ab : Nat × Nat) : Rat := groupWeight w ab * wsel sel ab

/-- tetrahedron-method result of a Fermi-surface calculator (`der ≥ 1`) with a band selection -/
def tetraResultSel (inr : List (Nat × Nat)) (sel : Option (List Nat)) (w : Nat → Rat) (v : Nat × Nat → Rat) : Rat :=
  (inr.map (fun ab => groupWeightSel w sel ab * v ab)).foldl (· + ·) 0

/-! ### the lazy weight cache of `TetraWeights` (hidden state)

  `TetraWeights` keeps `self.eFermis` (the Fermi arrays seen so far, compared BY IDENTITY, `eF is eFermi`) and
  `self.weights[ief][der][ik][ib]`.  A Fermi array is an object: an identity (`Nat`) whose contents live in a heap and
  can be changed in place.  `kern contents der ik ib` is the pure computation `weight_1k1b` (for `der = -1`:
  `1 - weight(der=0)`), evaluated on the contents the registered object has AT THE TIME of the first query. -/

structure TW where
  eFermis : List Nat
  cache : List ((Nat × Int × Nat × Nat) × List Rat)

def TW.empty : TW := ⟨[], []⟩

/-- `index_eFermi` + registration of an unseen array (appended, index = previous length) -/
def TW.register (s : TW) (id : Nat) : Nat × TW :=
  match s.eFermis.findIdx? (· == id) with
  | some i => (i, s)
  | none => (s.eFermis.length, { s with eFermis := s.eFermis ++ [id] })

abbrev Heap := List (Nat × List Rat)
def heapGet (h : Heap) (id : Nat) : List Rat := (h.lookup id).getD []

/-- `__weight_1b`: cached value, or compute from the CURRENT contents of the registered object and store -/
def TW.weight1b (kern : List Rat → Int → Nat → Nat → List Rat) (h : Heap) (s : TW) (ief : Nat) (der : Int)
    (ik ib : Nat) : List Rat × TW :=
  match s.cache.lookup (ief, der, ik, ib) with
  | some w => (w, s)
  | none =>
    let w := kern (heapGet h (s.eFermis.getD ief 0)) der ik ib
    (w, { s with cache := ((ief, der, ik, ib), w) :: s.cache })

inductive Op where
  | query (id : Nat) (der : Int) (ik ib : Nat)
  | mutate (id : Nat) (vals : List Rat)

structure Sys where
  heap : Heap
  tw : TW

def step (kern : List Rat → Int → Nat → Nat → List Rat) (σ : Sys) : Op → Sys × Option (List Rat)
  | .query id der ik ib =>
    let r := σ.tw.register id
    let q := r.2.weight1b kern σ.heap r.1 der ik ib
    ({ σ with tw := q.2 }, some q.1)
  | .mutate id vals => ({ σ with heap := (id, vals) :: σ.heap }, none)

def run (kern : List Rat → Int → Nat → Nat → List Rat) : Sys → List Op → List (Option (List Rat))
  | _, [] => []
  | σ, op :: rest => (step kern σ op).2 :: run kern (step kern σ op).1 rest

/-- the same history without any cache: every query computes from the contents at the time of the query -/
def pureRun (kern : List Rat → Int → Nat → Nat → List Rat) : Heap → List Op → List (Option (List Rat))
  | _, [] => []
  | h, .query id der ik ib :: rest => some (kern (heapGet h id) der ik ib) :: pureRun kern h rest
  | h, .mutate id vals :: rest => none :: pureRun kern ((id, vals) :: h) rest

/-- the kernel of `TetraWeights` (tetrahedron K-points): `corner ik ib` = the four corner energies of the band -/
def tetraKern (dmin : Rat) (corner : Nat → Nat → List Rat) (ef : List Rat) (der : Int) (ik ib : Nat) : List Rat :=
  match corner ik ib with
  | [c0, c1, c2, c3] =>
    if der = -1 then ef.map (fun x => 1 - weightsTetra dmin 0 true c0 c1 c2 c3 x)
    else ef.map (weightsTetra dmin der.toNat true c0 c1 c2 c3)
  | _ => []

/-! ### `Data_K.tetraWeights`: the weight object of a K-point is fed with the centre and corner energies -/

/-- parallelepiped K-point: `TetraWeightsParal(eCenter=E_K, eCorners=E_K_corners_parallel())`, weight of band `ib` at
    FFT point `ik`;  `Ecorn ik (ix,iy,iz) ib = E_K_corners_parallel()[ik, ix, iy, iz, ib]` -/
def dataKWeightParal {K : Type} [Add K] [Sub K] [Mul K] [Div K] [Neg K] [OfNat K 0] [OfNat K 1] [NatCast K]
    [LE K] [LT K] [DecidableLE K] [DecidableLT K]
    (dmin : K) (der : Nat) (EK : Nat → Nat → K) (Ecorn : Nat → Nat × Nat × Nat → Nat → K) (ik ib : Nat) (ef : K) : K :=
  paralWeight dmin der true (EK ik ib) (fun v => Ecorn ik v ib) ef

/-- tetrahedron K-point: `TetraWeights(eCenter=E_K, eCorners=E_K_corners_tetra())`; the centre energy is not used by
    the weight; `Ecorn ik iv ib = E_K_corners_tetra()[ik, iv, ib]` -/
def dataKWeightTetra {K : Type} [Add K] [Sub K] [Mul K] [Div K] [Neg K] [OfNat K 0] [OfNat K 1] [NatCast K]
    [LE K] [LT K] [DecidableLE K] [DecidableLT K]
    (dmin : K) (der : Nat) (Ecorn : Nat → Nat → Nat → K) (ik ib : Nat) (ef : K) : K :=
  weightsTetra dmin der true (Ecorn ik 0 ib) (Ecorn ik 1 ib) (Ecorn ik 2 ib) (Ecorn ik 3 ib) ef

/-! ### `run()` level: the reported tetrahedron result is `Σ_K factor_K · (k-average inside K)` -/

def listSum (l : List Rat) : Rat := l.foldl (· + ·) 0

/-- `Ks` = the K-points of the run: (factor, values of the `nk` FFT points of that K-point) -/
def runTotal (Ks : List (Rat × List Rat)) : Rat :=
  listSum (Ks.map (fun K => K.1 * (listSum K.2 / (K.2.length : Rat))))

/-! ### driver -/
open WB.IO

def ofList (l : List Rat) : Nat → Rat := fun i => l.getD i 0

def showPairs (l : List (Nat × Nat)) : String :=
  showListWith (fun ab => toString ab.1 ++ "," ++ toString ab.2) ";" l

def showOptPair : Option (Nat × Nat) → String
  | some ab => toString ab.1 ++ "," ++ toString ab.2
  | none => "_"

def parseOptRat? (s : String) : Option (Option Rat) :=
  if s = "inf" || s = "-inf" then some none else (parseRat? s).map some

def parseSel? (s : String) : Option (Option (List Nat)) :=
  if s = "none" then some none else (parseNats? s).map some

def cornerOf (l : List Rat) (v : Nat × Nat × Nat) : Rat := l.getD (4 * v.1 + 2 * v.2.1 + v.2.2) 0

def handle : List String → String
  -- wt dmin der acc e0,e1,e2,e3 ef,ef,...
  | ["wt", dmin, der, acc, e, efs] =>
    match parseRat? dmin, parseNat? der, parseBool? acc, parseRats? e, parseRats? efs with
    | some dm, some d, some a, some [e0, e1, e2, e3], some fs =>
      showRats (fs.map (weightsTetra dm d a e0 e1 e2 e3))
    | _, _, _, _, _ => "bad-op"
  -- paral dmin der acc center c000,c001,c010,c011,c100,c101,c110,c111 efs
  | ["paral", dmin, der, acc, cen, cs, efs] =>
    match parseRat? dmin, parseNat? der, parseBool? acc, parseRat? cen, parseRats? cs, parseRats? efs with
    | some dm, some d, some a, some c, some l, some fs =>
      if l.length ≠ 8 then "bad-op" else showRats (fs.map (paralWeight dm d a c (cornerOf l)))
    | _, _, _, _, _, _ => "bad-op"
  -- groups Ec Emin Emax th kr ef0 efN der EminP EmaxP sel  ->  inrange-groups | lumped | select weights
  | ["groups", ec, emn, emx, th, kr, ef0, efN, der, eminP, emaxP, sel] =>
    match parseRats? ec, parseRats? emn, parseRats? emx, parseRat? th, parseBool? kr, parseRat? ef0, parseRat? efN,
          parseInt? der, parseOptRat? eminP, parseOptRat? emaxP, parseSel? sel with
    | some c, some mn, some mx, some t, some k, some f0, some fN, some d, some eP, some xP, some sl =>
      if c.isEmpty || mn.length ≠ c.length || mx.length ≠ c.length then "bad-op" else
      let n := c.length
      let inr := inRangeSel (ofList c) (ofList mn) (ofList mx) t n k f0 fN sl
      let lum := if d = 0 then seaGroup (ofList mx) n inr f0 eP
                 else if d = -1 then antiSeaGroup (ofList mn) n inr fN xP else none
      showPairs inr ++ " | " ++ showOptPair lum ++ " | " ++ showRats (inr.map (wsel sl))
    | _, _, _, _, _, _, _, _, _, _, _ => "bad-op"
  -- twseq dmin corners(ik-major: c,c,c,c;c,c,c,c  bands of all k, nb bands per k) nb ops
  --   ops separated by `|`:  q:id:der:ik:ib   or   m:id:v,v,v     ->  answers of the queries separated by `;`
  | ["twseq", dmin, cs, nb, ops] =>
    match parseRat? dmin, parseRatss? cs, parseNat? nb with
    | some dm, some cl, some nbn =>
      let corner : Nat → Nat → List Rat := fun ik ib => cl.getD (ik * nbn + ib) []
      let parseOp (t : String) : Option Op :=
        match t.splitOn ":" with
        | ["q", id, d, ik, ib] =>
          match parseNat? id, parseInt? d, parseNat? ik, parseNat? ib with
          | some a, some b, some c, some e => some (Op.query a b c e)
          | _, _, _, _ => none
        | ["m", id, vs] =>
          match parseNat? id, parseRats? vs with
          | some a, some v => some (Op.mutate a v)
          | _, _ => none
        | _ => none
      match (ops.splitOn "|").mapM parseOp with
      | some ol =>
        let out := run (tetraKern dm corner) ⟨[], TW.empty⟩ ol
        showListWith (fun o => match o with | some w => showRats w | none => "-") ";" out
      | none => "bad-op"
    | _, _, _ => "bad-op"
  -- runtotal  f:v,v,v;f:v,v
  | ["runtotal", ks] =>
    let parseK (t : String) : Option (Rat × List Rat) :=
      match t.splitOn ":" with
      | [f, vs] => match parseRat? f, parseRats? vs with
        | some a, some v => some (a, v)
        | _, _ => none
      | _ => none
    match parseListWith parseK ";" ks with
    | some l => showRat (runTotal l)
    | none => "bad-op"
  -- tetcumdos Ec Emin Emax th kr ef0 efN w
  | ["tetcumdos", ec, emn, emx, th, kr, ef0, efN, ws] =>
    match parseRats? ec, parseRats? emn, parseRats? emx, parseRat? th, parseBool? kr, parseRat? ef0, parseRat? efN,
          parseRats? ws with
    | some c, some mn, some mx, some t, some k, some f0, some fN, some w =>
      if c.isEmpty then "bad-op" else
      showRat (tetraCumDOS (ofList c) (ofList mn) (ofList mx) t c.length k f0 fN (ofList w))
    | _, _, _, _, _, _, _, _ => "bad-op"
  | _ => "bad-op"

end WB.C14
