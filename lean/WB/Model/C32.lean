/-
  C32 — tight-binding imports reproduce the source model.   Core Lean only.

  Model of wannierberri/system/system_tb_py.py : get_system_tb_py
    * the R-vector list: `np.unique(vstack((0, R_hops, -R_hops)), axis=0)` (sorted, without repetitions)
    * `Ham_R[iR, i, j] += amplitude ; Ham_R[inR, j, i] += conj(amplitude)` for every hopping (PythTB, spinless)
    * 2×2 blocks for spinful PythTB models, whole matrices for TBmodels
    * `Ham_R[iR0, i, i] = site_energy[i]` (assignment) for PythTB
  `K` is the scalar type, `conj` its conjugation (a parameter).
-/
import WB.Model.IO
import WB.Model.C18
namespace WB.C32
open WB.C18 (Vec3)

variable {K : Type}

def negV (R : Vec3) : Vec3 := (-R.1, -R.2.1, -R.2.2)
def zeroV : Vec3 := (0, 0, 0)

/-- lexicographic order of `np.unique(axis=0)` -/
def ltV (a b : Vec3) : Bool :=
  decide (a.1 < b.1) || (a.1 == b.1 && (decide (a.2.1 < b.2.1) || (a.2.1 == b.2.1 && decide (a.2.2 < b.2.2))))

/-- insert into a sorted list without repetitions -/
def insertU (a : Vec3) : List Vec3 → List Vec3
  | [] => [a]
  | b :: t => if a = b then b :: t else if ltV a b then a :: b :: t else b :: insertU a t

/-- `np.unique(rows, axis=0)` -/
def uniqueRows (l : List Vec3) : List Vec3 := l.foldl (fun acc a => insertU a acc) []

/-- an elementary hopping: amplitude from orbital `i` in the home cell to orbital `j` in cell `R` -/
structure Hop (K : Type) where
  amp : K
  i : Nat
  j : Nat
  R : Vec3

/-- the R-vector list of the imported system -/
def mkRs (hops : List (Hop K)) : List Vec3 :=
  uniqueRows (zeroV :: hops.map (·.R) ++ hops.map (fun h => negV h.R))

/-- `A[ir, i, j] += a` -/
def addAt [Add K] (H : Nat → Nat → Nat → K) (ir i j : Nat) (a : K) : Nat → Nat → Nat → K :=
  fun ir' i' j' => if ir' = ir ∧ i' = i ∧ j' = j then H ir' i' j' + a else H ir' i' j'

/-- the loop over the hoppings: `Ham_R[iR, i, j] += t ; Ham_R[inR, j, i] += conj(t)` with
    `iR = rvec.iR(R)`, `inR = rvec.iR(-R)` (position in the R list) -/
def accumulate [Add K] [OfNat K 0] (conj : K → K) (Rs : List Vec3) (hops : List (Hop K)) : Nat → Nat → Nat → K :=
  hops.foldl (fun H h => addAt (addAt H (Rs.idxOf h.R) h.i h.j h.amp) (Rs.idxOf (negV h.R)) h.j h.i (conj h.amp))
    (fun _ _ _ => 0)

/-- `Ham_R[index0, i, i] = site_energies[i]` for `i < norb` (an assignment) -/
def setOnsite (H : Nat → Nat → Nat → K) (i0 norb : Nat) (E : Nat → K) : Nat → Nat → Nat → K :=
  fun ir i j => if ir = i0 ∧ i = j ∧ i < norb then E i else H ir i j

/-- PythTB, spinless: the imported `Ham_R` -/
def importPtb [Add K] [OfNat K 0] (conj : K → K) (hops : List (Hop K)) (norb : Nat) (E : Nat → K) :
    Nat → Nat → Nat → K :=
  let Rs := mkRs hops
  setOnsite (accumulate conj Rs hops) (Rs.idxOf zeroV) norb E

/-- a spinful PythTB hopping: 2×2 amplitude between orbitals `i` and `j` -/
structure Hop2 (K : Type) where
  amp : Nat → Nat → K
  i : Nat
  j : Nat
  R : Vec3

/-- `Ham_R[iR, 2i:2i+2, 2j:2j+2] += amp ; Ham_R[inR, 2j:2j+2, 2i:2i+2] += amp^†` as four elementary hoppings -/
def flattenSpin (hops : List (Hop2 K)) : List (Hop K) :=
  hops.flatMap (fun h => [(0, 0), (0, 1), (1, 0), (1, 1)].map (fun st =>
    { amp := h.amp st.1 st.2, i := 2 * h.i + st.1, j := 2 * h.j + st.2, R := h.R }))

/-- `Ham_R[index0, 2i:2i+2, 2i:2i+2] = site_energies[i]` (a 2×2 block assignment) -/
def setOnsite2 (H : Nat → Nat → Nat → K) (i0 norb : Nat) (E : Nat → Nat → Nat → K) : Nat → Nat → Nat → K :=
  fun ir a b => if ir = i0 ∧ a / 2 = b / 2 ∧ a / 2 < norb then E (a / 2) (a % 2) (b % 2) else H ir a b

def importPtbSpin [Add K] [OfNat K 0] (conj : K → K) (hops : List (Hop2 K)) (norb : Nat) (E : Nat → Nat → Nat → K) :
    Nat → Nat → Nat → K :=
  let fl := flattenSpin hops
  let Rs := mkRs fl
  setOnsite2 (accumulate conj Rs fl) (Rs.idxOf zeroV) norb E

/-- TBmodels: `model.hop` is a list of (R, matrix); `Ham_R[iR] += M ; Ham_R[inR] += M^†` as elementary hoppings -/
def flattenTbm (nw : Nat) (hop : List (Vec3 × (Nat → Nat → K))) : List (Hop K) :=
  hop.flatMap (fun p => (List.range nw).flatMap (fun a => (List.range nw).map (fun b =>
    { amp := p.2 a b, i := a, j := b, R := p.1 })))

def importTbm [Add K] [OfNat K 0] (conj : K → K) (nw : Nat) (hop : List (Vec3 × (Nat → Nat → K))) :
    Nat → Nat → Nat → K :=
  let fl := flattenTbm nw hop
  accumulate conj (mkRs fl) fl

/-- the Bloch sum of the imported system (convention II): `Σ_iR χ(R_iR) Ham_R[iR][i][j]` -/
def blochSum [Add K] [Mul K] [OfNat K 0] (χ : Vec3 → K) (Rs : List Vec3) (H : Nat → Nat → Nat → K) (i j : Nat) : K :=
  ((List.range Rs.length).map (fun ir => χ (Rs.getD ir zeroV) * H ir i j)).sum

/-- the Bloch Hamiltonian of the SOURCE model: every hopping contributes `χ(R) t` at (i,j) and its Hermitian
    conjugate `χ(-R) conj(t)` at (j,i) -/
def sourceHops [Add K] [Mul K] [OfNat K 0] (conj : K → K) (χ : Vec3 → K) (hops : List (Hop K)) (i j : Nat) : K :=
  (hops.map (fun h => (if h.i = i ∧ h.j = j then χ h.R * h.amp else 0) +
                      (if h.j = i ∧ h.i = j then χ (negV h.R) * conj h.amp else 0))).sum

/-! ### driver: Gaussian rationals -/
open WB.IO

structure GRat where
  re : Rat
  im : Rat
deriving DecidableEq

instance : Add GRat := ⟨fun a b => ⟨a.re + b.re, a.im + b.im⟩⟩
instance : Mul GRat := ⟨fun a b => ⟨a.re * b.re - a.im * b.im, a.re * b.im + a.im * b.re⟩⟩
instance : OfNat GRat 0 := ⟨⟨0, 0⟩⟩
def GRat.conj (a : GRat) : GRat := ⟨a.re, -a.im⟩

def showVecs (l : List Vec3) : String := showIntss (l.map (fun r => [r.1, r.2.1, r.2.2]))

/-- hops as flat rational list: re, im, i, j, R1, R2, R3 per hop -/
def hopsOf (fl : List Rat) : List (Hop GRat) :=
  (List.range (fl.length / 7)).map (fun n =>
    let g := fun k => fl.getD (7 * n + k) 0
    { amp := ⟨g 0, g 1⟩, i := (g 2).floor.toNat, j := (g 3).floor.toNat, R := ((g 4).floor, (g 5).floor, (g 6).floor) })

/-- spinful hops: 8 numbers of the 2×2 amplitude (row major re,im), then i, j, R -/
def hops2Of (fl : List Rat) : List (Hop2 GRat) :=
  (List.range (fl.length / 13)).map (fun n =>
    let g := fun k => fl.getD (13 * n + k) 0
    { amp := fun s t => ⟨g (4 * s + 2 * t), g (4 * s + 2 * t + 1)⟩,
      i := (g 8).floor.toNat, j := (g 9).floor.toNat, R := ((g 10).floor, (g 11).floor, (g 12).floor) })

def showH (nR nw : Nat) (H : Nat → Nat → Nat → GRat) : String :=
  showRats ((List.range nR).flatMap fun ir => (List.range nw).flatMap fun i => (List.range nw).flatMap fun j =>
    [(H ir i j).re, (H ir i j).im])

def handle : List String → String
  | ["unique", rs] =>
    match parseIntss? rs with
    | some l => showVecs (uniqueRows (C18.vec3s l))
    | none => "bad-op"
  | ["ptb", norb, hops, onsite] =>
    match parseNat? norb, parseRats? hops, parseRats? onsite with
    | some norb, some hl, some e =>
      let hops := hopsOf hl
      let Rs := mkRs hops
      showVecs Rs ++ " " ++ showH Rs.length norb (importPtb GRat.conj hops norb (fun i => ⟨e.getD i 0, 0⟩))
    | _, _, _ => "bad-op"
  | ["ptbspin", norb, hops, onsite] =>
    match parseNat? norb, parseRats? hops, parseRats? onsite with
    | some norb, some hl, some e =>
      let hops := hops2Of hl
      let Rs := mkRs (flattenSpin hops)
      showVecs Rs ++ " " ++ showH Rs.length (2 * norb)
        (importPtbSpin GRat.conj hops norb (fun i s t => ⟨e.getD (8 * i + 4 * s + 2 * t) 0, e.getD (8 * i + 4 * s + 2 * t + 1) 0⟩))
    | _, _, _ => "bad-op"
  | ["tbm", nw, rs, mats] =>
    match parseNat? nw, parseIntss? rs, parseRats? mats with
    | some nw, some rl, some m =>
      let hop : List (Vec3 × (Nat → Nat → GRat)) := (C18.vec3s rl).mapIdx (fun n R =>
        (R, fun a b => ⟨m.getD (((n * nw + a) * nw + b) * 2) 0, m.getD (((n * nw + a) * nw + b) * 2 + 1) 0⟩))
      let Rs := mkRs (flattenTbm nw hop)
      showVecs Rs ++ " " ++ showH Rs.length nw (importTbm GRat.conj nw hop)
    | _, _, _ => "bad-op"
  | _ => "bad-op"

end WB.C32
