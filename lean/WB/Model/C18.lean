/-
  C18 — system files round-trip.   Core Lean only.

  Token-level models of
    wannierberri/system/system_hr.py : write_hr_file, get_system_hr, write_WCC_WT_format, read_WCC_WT_format
    wannierberri/system/system_tb.py : write_tb_file, get_system_tb
    wannierberri/system/system_R.py  : to_npz / load_npz   (directory = association list  file name -> array)
    wannierberri/symmetry/point_symmetry.py : PointSymmetry.as_dict / __init__, PointGroup closure loop

  A text file is a list of lines, a line is a list of tokens, a token is an integer or a (real) value.
  Values are opaque elements of `V`; printing + parsing a float with a format is a map `ρ : V → V`
  (`%15.8e` in _tb.dat/_hr.dat, identity for `np.savetxt`'s %.18e and for `repr`).
  Complex numbers are pairs (re, im).
-/
import WB.Model.IO
namespace WB.C18

inductive Tok (V : Type) where
  | int (z : Int)
  | val (x : V)

abbrev Line (V : Type) := List (Tok V)
abbrev File (V : Type) := List (Line V)
abbrev Vec3 := Int × Int × Int

variable {V : Type}

/-- python `int(token)` (a float token is not an integer: outside the domain, modelled as 0) -/
def Tok.toInt : Tok V → Int
  | .int z => z
  | .val _ => 0

/-- python `float(token)` -/
def Tok.toVal [IntCast V] : Tok V → V
  | .int z => (z : V)
  | .val x => x

/-- `int(line.split()[i])` -/
def tokInt (l : Line V) (i : Nat) : Int := (l.getD i (Tok.int 0)).toInt
/-- `float(line.split()[i])` -/
def tokVal [IntCast V] (l : Line V) (i : Nat) : V := (l.getD i (Tok.int 0)).toVal

/-- the i-th line of a file (`[]` past the end, like `readline()` at EOF) -/
def lineAt (f : File V) (i : Nat) : Line V := f.getD i []

/-! ### the `Ndegen` header: 15 integers per line -/

/-- writer: `for i in range(0, n, 15): write(Ndegen[i:min(i+15,n)])` -/
def chunks15 (l : List Int) : File V :=
  (List.range ((l.length + 14) / 15)).map (fun i => ((l.drop (15 * i)).take 15).map Tok.int)

/-- reader: `while len(Ndegen) < nRvec: Ndegen += f.readline().split()`; returns the integers and the rest
    of the file.  (At EOF with too few integers the code loops forever: outside the domain.) -/
def readInts (n : Nat) : File V → List Int → List Int × File V
  | [], acc => (acc, [])
  | l :: rest, acc => if acc.length < n then readInts n rest (acc ++ l.map Tok.toInt) else (acc, l :: rest)

/-! ### a real-space system as far as the text formats are concerned -/

structure Sys (V : Type) where
  nw  : Nat
  Rs  : List Vec3
  lat : Nat → Nat → V                      -- real_lattice[i][j]
  wcc : Nat → Nat → V                      -- wannier_centers_cart[i][c]
  ham : Nat → Nat → Nat → V × V            -- Ham_R[iR][m][n]
  aa  : Nat → Nat → Nat → Nat → V × V      -- AA_R[iR][m][n][c]

/-- `Rvectors.iR0 = iRvec.tolist().index([0,0,0])` -/
def iR0 (Rs : List Vec3) : Nat := Rs.idxOf ((0, 0, 0) : Vec3)

def cmulInt [Mul V] [IntCast V] (h : V × V) (nd : Int) : V × V := (h.1 * (nd : V), h.2 * (nd : V))
def cdivInt [Div V] [IntCast V] (h : V × V) (nd : Int) : V × V := (h.1 / (nd : V), h.2 / (nd : V))

/-- loop nest of both writers: `for n in range_wann for m in range_wann` (n is the OUTER index) -/
def nestNM (nw : Nat) (f : Nat → Nat → Line V) : File V :=
  (List.range nw).flatMap (fun n => (List.range nw).map (fun m => f m n))

/-! ### `_hr.dat` -/

def hrLine (ρ : V → V) (R : Vec3) (m n : Nat) (h : V × V) : Line V :=
  [.int R.1, .int R.2.1, .int R.2.2, .int (m + 1), .int (n + 1), .val (ρ h.1), .val (ρ h.2)]

/-- `write_hr_file` generalised to arbitrary degeneracies `nd` (the code writes `Ndegen = 1`) -/
def writeHrNd [Mul V] [IntCast V] (ρ : V → V) (nd : List Int) (s : Sys V) : File V :=
  [[], [.int s.nw], [.int s.Rs.length]] ++ chunks15 nd ++
    (List.range s.Rs.length).flatMap (fun ir =>
      nestNM s.nw (fun m n => hrLine ρ (s.Rs.getD ir (0, 0, 0)) m n (cmulInt (s.ham ir m n) (nd.getD ir 1))))

/-- `write_hr_file` -/
def writeHr [Mul V] [IntCast V] (ρ : V → V) (s : Sys V) : File V :=
  writeHrNd ρ (List.replicate s.Rs.length 1) s

structure HrData (V : Type) where
  nw  : Nat
  Rs  : List Vec3
  ham : Nat → Nat → Nat → V × V

/-- `get_system_hr` (the text part): the header, then for every R a block of `nw*nw` lines;
    `hh[a][b] = line(ir*nw² + a*nw + b).split()[5:7]`, `.transpose((1,0,2))`, `/ Ndegen[ir]`;
    `iRvec[ir]` = first three tokens of the first line of the block. -/
def readHr [Div V] [IntCast V] (f : File V) : HrData V :=
  let nw := (tokInt (lineAt f 1) 0).toNat
  let nR := (tokInt (lineAt f 2) 0).toNat
  let p := readInts nR (f.drop 3) []
  let nd := p.1
  let body := p.2
  let hh : Nat → Nat → Nat → V × V := fun ir a b =>
    let l := lineAt body (ir * (nw * nw) + (a * nw + b))
    (tokVal l 5, tokVal l 6)
  { nw := nw
    Rs := (List.range nR).map (fun ir =>
      let l := lineAt body (ir * (nw * nw)); (tokInt l 0, tokInt l 1, tokInt l 2))
    ham := fun ir m n => cdivInt (hh ir n m) (nd.getD ir 0) }

/-! ### `_wannier_centre_WT_format.dat`: even rows first, then odd rows -/

/-- `data[::2]` -/
def evens {α} : List α → List α
  | [] => []
  | [a] => [a]
  | a :: _ :: t => a :: evens t
/-- `data[1::2]` -/
def odds {α} : List α → List α
  | [] => []
  | [_] => []
  | _ :: b :: t => b :: odds t

/-- `write_WCC_WT_format`; `κ` = "x if |x| > 1e-7 else 0.0" followed by `repr` -/
def writeWcc (κ : V → V) (rows : List (List V)) : File V :=
  (evens rows ++ odds rows).map (fun r => r.map (fun x => Tok.val (κ x)))

/-- `read_WCC_WT_format` with the split point as a parameter.  `data_2[::2] = data[:nhalf]` and
    `data_2[1::2] = data[nhalf:]` are numpy slice assignments: they raise unless the shapes agree
    (→ `none`). -/
def readWccWith [IntCast V] (split : Nat → Nat) (f : File V) : Option (List (List V)) :=
  let data : List (List V) := f.map (fun l => l.map Tok.toVal)
  let n := data.length
  let nhalf := split n
  if (n + 1) / 2 = min nhalf n ∧ n / 2 = n - nhalf then
    some ((List.range n).map (fun i => if i % 2 = 0 then data.getD (i / 2) [] else data.getD (nhalf + i / 2) []))
  else none

/-- the repaired reader: `nhalf = (n + 1) // 2` -/
def readWcc [IntCast V] (f : File V) : Option (List (List V)) := readWccWith (fun n => (n + 1) / 2) f
/-- the reader before the repair (finding F2): `nhalf = n // 2` -/
def readWccOld [IntCast V] (f : File V) : Option (List (List V)) := readWccWith (fun n => n / 2) f

/-! ### `_tb.dat` -/

def tbHamLine (ρ : V → V) (m n : Nat) (h : V × V) : Line V :=
  [.int (m + 1), .int (n + 1), .val (ρ h.1), .val (ρ h.2)]

def tbAALine (ρ : V → V) (m n : Nat) (a : Nat → V × V) : Line V :=
  [.int (m + 1), .int (n + 1), .val (ρ (a 0).1), .val (ρ (a 0).2), .val (ρ (a 1).1), .val (ρ (a 1).2),
   .val (ρ (a 2).1), .val (ρ (a 2).2)]

def rLine (R : Vec3) : Line V := [.int R.1, .int R.2.1, .int R.2.2]

/-- a block of the tb file: blank line, R line, `nw*nw` lines -/
def tbBlock (nw : Nat) (R : Vec3) (f : Nat → Nat → Line V) : File V := [] :: rLine R :: nestNM nw f

/-- `AA[iR0, i, i] += wannier_centers_cart[i]` (real part) when writing in convention II -/
def aaShift [Add V] (s : Sys V) (useII : Bool) (ir m n c : Nat) : V × V :=
  let a := s.aa ir m n c
  if useII && ir == iR0 s.Rs && m == n then (a.1 + s.wcc m c, a.2) else a

/-- `write_tb_file(system, use_convention_II)`; `hasAA = system.has_R_mat('AA')` -/
def writeTb [Add V] [Mul V] [IntCast V] (ρ : V → V) (s : Sys V) (hasAA useII : Bool) : File V :=
  let nR := s.Rs.length
  [[], [.val (s.lat 0 0), .val (s.lat 0 1), .val (s.lat 0 2)],
       [.val (s.lat 1 0), .val (s.lat 1 1), .val (s.lat 1 2)],
       [.val (s.lat 2 0), .val (s.lat 2 1), .val (s.lat 2 2)],
       [.int s.nw], [.int nR]] ++ chunks15 (List.replicate nR 1) ++
    (List.range nR).flatMap (fun ir =>
      tbBlock s.nw (s.Rs.getD ir (0, 0, 0)) (fun m n => tbHamLine ρ m n (cmulInt (s.ham ir m n) 1))) ++
    (if hasAA then
      (List.range nR).flatMap (fun ir =>
        tbBlock s.nw (s.Rs.getD ir (0, 0, 0))
          (fun m n => tbAALine ρ m n (fun c => cmulInt (aaShift s useII ir m n c) 1)))
     else [])

/-- `get_system_tb(tb_file, convention_II_to_I, wannier_centers_cart, berry=needAA)`.
    Ham: `hh[a][b] = line.split()[2:4]`, transpose(1,0,2), / Ndegen.
    AA : `aa[a][b] = line.split()[2:8]`, `(aa[:,:,0::2] + 1j*aa[:,:,1::2]).transpose((1,0,2)) / Ndegen`.
    Centres, unless given: real part of the diagonal of AA(R=0); in convention II they are then subtracted
    from that diagonal.  When AA is not needed and centres are given, the AA part of the file is not read. -/
def readTb [Sub V] [Div V] [IntCast V] (f : File V) (needAA convIItoI : Bool)
    (wccGiven : Option (Nat → Nat → V)) : Sys V :=
  let nw := (tokInt (lineAt f 4) 0).toNat
  let nR := (tokInt (lineAt f 5) 0).toNat
  let p := readInts nR (f.drop 6) []
  let nd := p.1
  let body := p.2
  let B := nw * nw + 2
  let Rs := (List.range nR).map (fun ir =>
      let l := lineAt body (ir * B + 1); (tokInt l 0, tokInt l 1, tokInt l 2))
  let hh : Nat → Nat → Nat → V × V := fun ir a b =>
    let l := lineAt body (ir * B + (2 + (a * nw + b)))
    (tokVal l 2, tokVal l 3)
  let body2 := body.drop (nR * B)
  let aaRaw : Nat → Nat → Nat → Nat → V × V := fun ir m n c =>
    let l := lineAt body2 (ir * B + (2 + (n * nw + m)))
    cdivInt (tokVal l (2 + 2 * c), tokVal l (2 + 2 * c + 1)) (nd.getD ir 0)
  let i0 := iR0 Rs
  let wcc : Nat → Nat → V := match wccGiven with
    | some w => w
    | none => fun i c => (aaRaw i0 i i c).1
  { nw := nw
    Rs := Rs
    lat := fun i j => tokVal (lineAt f (1 + i)) j
    wcc := wcc
    ham := fun ir m n => cdivInt (hh ir n m) (nd.getD ir 0)
    aa := fun ir m n c =>
      if needAA then
        (if convIItoI && ir == i0 && m == n then ((aaRaw ir m n c).1 - wcc m c, (aaRaw ir m n c).2)
         else aaRaw ir m n c)
      else aaRaw ir m n c }

/-- NOT the code: the system that the seeded writer "do not write R-vectors whose Ham block vanishes (except R=0)"
    effectively writes - the R list and all matrices restricted to the kept R-vectors -/
def dropZeroHam [DecidableEq V] [OfNat V 0] (s : Sys V) : Sys V :=
  let keep := (List.range s.Rs.length).filter (fun ir =>
    ir == iR0 s.Rs || (List.range s.nw).any (fun m => (List.range s.nw).any (fun n => !(s.ham ir m n == (0, 0)))))
  { s with Rs := keep.map (fun ir => s.Rs.getD ir (0, 0, 0))
           ham := fun ir m n => s.ham (keep.getD ir 0) m n
           aa := fun ir m n c => s.aa (keep.getD ir 0) m n c }

/-! ### npz directory (`to_npz` / `load_npz`) on the dictionary level

  A directory is an association list  file stem → array (`A` opaque).  `to_npz` writes one file per
  property and one file `_XX_R_<key>` per matrix.  `load_npz` lists the directory (in ANY order), treats
  every stem not starting with `_XX_R_` as a property — but loads `real_lattice` and
  `wannier_centers_cart` first, because loading `iRvec` builds the R-vector object from the lattice and
  the centres that are set at that moment — and every stem starting with `_XX_R_` as a matrix.
  Names are lists of characters.
-/

abbrev Name := List Char
def xxPrefix : Name := ['_', 'X', 'X', '_', 'R', '_']
/-- "real_lattice", "wannier_centers_cart", "iRvec" -/
def nLat : Name := ['r', 'e', 'a', 'l', '_', 'l', 'a', 't', 't', 'i', 'c', 'e']
def nWcc : Name := ['w', 'a', 'n', 'n', 'i', 'e', 'r', '_', 'c', 'e', 'n', 't', 'e', 'r', 's', '_', 'c', 'a', 'r', 't']
def nIR : Name := ['i', 'R', 'v', 'e', 'c']

structure Loaded (A : Type) where
  attrs : List (Name × A)                 -- setattr calls, latest first
  rvec  : Option (Option A × A × Option A)   -- (lattice, iRvec, centres) the Rvectors object was built from
  mats  : List (Name × A)
  done  : List Name

def Loaded.attr {A} (s : Loaded A) (k : Name) : Option A := (s.attrs.find? (fun p => p.1 == k)).map (·.2)

def dirGet {A} (dir : List (Name × A)) (k : Name) : Option A := (dir.find? (fun p => p.1 == k)).map (·.2)

/-- `to_npz`: properties and matrices → directory -/
def saveDir {A} (props mats : List (Name × A)) : List (Name × A) :=
  props ++ mats.map (fun p => (xxPrefix ++ p.1, p.2))

def loadStep {A} (dir : List (Name × A)) (s : Loaded A) (key : Name) : Loaded A :=
  if s.done.contains key then s else
  match dirGet dir key with
  | none => { s with done := key :: s.done }          -- np.load would raise: outside the domain
  | some a =>
    if key == nIR then
      { s with rvec := some (s.attr nLat, a, s.attr nWcc),
               done := key :: s.done }
    else { s with attrs := (key, a) :: s.attrs, done := key :: s.done }

/-- `load_npz(path)` given the directory listing `listing` (the order `glob` happened to return) -/
def loadDir {A} (dir : List (Name × A)) (listing : List Name) : Loaded A :=
  let props := listing.filter (fun x => !(xxPrefix.isPrefixOf x))
  let keys := nLat :: nWcc :: props
  let s := keys.foldl (loadStep dir) { attrs := [], rvec := none, mats := [], done := [] }
  let matNames := (listing.filter (fun x => xxPrefix.isPrefixOf x)).map (fun x => x.drop 6)
  { s with mats := matNames.filterMap (fun k => (dirGet dir (xxPrefix ++ k)).map (fun a => (k, a))) }

/-! ### point symmetries and the group closure loop -/

/-- 3×3 matrix as a function on indices 0..2 -/
abbrev M3 (K : Type) := Nat → Nat → K

def det3 {K} [Add K] [Sub K] [Mul K] (R : M3 K) : K :=
  R 0 0 * (R 1 1 * R 2 2 - R 1 2 * R 2 1) - R 0 1 * (R 1 0 * R 2 2 - R 1 2 * R 2 0)
    + R 0 2 * (R 1 0 * R 2 1 - R 1 1 * R 2 0)

structure PSym (K : Type) where
  R   : M3 K        -- proper part
  TR  : Bool
  Inv : Bool

/-- `PointSymmetry.__init__(R, TR)`: `Inv = det(R) < 0`, `self.R = R * (-1 if Inv else 1)` -/
def PSym.ofMatrix {K} [Add K] [Sub K] [Mul K] [Neg K] [OfNat K 0] [LT K] [DecidableLT K] (R : M3 K) (TR : Bool) : PSym K :=
  let inv := decide (det3 R < 0)
  { R := fun i j => if inv then - R i j else R i j, TR := TR, Inv := inv }

/-- `PointSymmetry.as_dict()`: `R = self.R * (-1 if self.Inv else 1)`, `TR` -/
def PSym.asDict {K} [Neg K] (s : PSym K) : M3 K × Bool :=
  (fun i j => if s.Inv then - s.R i j else s.R i j, s.TR)

/-- the closure loop of `PointGroup.__init__`:
      while True: lenold = len(l)
                  for s1 in l: for s2 in l: s3 = s1*s2; if s3 not in l: l.append(s3); (len > 1000 → error)
                  if len(l) == lenold: break
    Python's `for` over a list that is being appended to is an index loop; `fuel` bounds the number of
    loop steps (`none` = out of fuel or more than 1000 elements). -/
def inner {G} (mul : G → G → G) (eqv : G → G → Bool) : Nat → List G → Nat → Nat → Option (List G)
  | 0, _, _, _ => none
  | fuel + 1, l, i, j =>
    match l[i]?, l[j]? with
    | some s1, some s2 =>
      let s3 := mul s1 s2
      if l.any (fun x => eqv s3 x) then inner mul eqv fuel l i (j + 1)
      else if l.length + 1 > 1000 then none else inner mul eqv fuel (l ++ [s3]) i (j + 1)
    | _, _ => some l

def outer {G} (mul : G → G → G) (eqv : G → G → Bool) (fuel : Nat) : Nat → List G → Nat → Option (List G)
  | 0, _, _ => none
  | k + 1, l, i =>
    if i < l.length then
      match inner mul eqv fuel l i 0 with
      | some l' => outer mul eqv fuel k l' (i + 1)
      | none => none
    else some l

def closure {G} (mul : G → G → G) (eqv : G → G → Bool) (fuel : Nat) : Nat → List G → Option (List G)
  | 0, _ => none
  | k + 1, l =>
    match outer mul eqv fuel fuel l 0 with
    | some l' => if l'.length = l.length then some l' else closure mul eqv fuel k l'
    | none => none

/-- reading the generator list: `for op in generator_list: if op not in sym_list: sym_list.append(op)`
    (a generator that is listed twice is ignored) -/
def dedupGens {G} (eqv : G → G → Bool) (gens : List G) : List G :=
  gens.foldl (fun acc x => if acc.any (fun y => eqv x y) then acc else acc ++ [x]) []

/-- `PointGroup.__init__(generator_list)`: read the generators, then close the list -/
def generate {G} (mul : G → G → G) (eqv : G → G → Bool) (fuel k : Nat) (gens : List G) : Option (List G) :=
  closure mul eqv fuel k (dedupGens eqv gens)

/-! ### exact models of the print formats at `Rat` (used by the driver only) -/

def pow10 (n : Nat) : Rat := ((10 ^ n : Nat) : Rat)

def roundHalfEven (x : Rat) : Int :=
  let f := x.floor
  let d := x - (f : Rat)
  if d < 1 / 2 then f else if d > 1 / 2 then f + 1 else if f % 2 = 0 then f else f + 1

/-- floor(log10 |x|) for x ≠ 0 (by repeated scaling; 400 steps cover every double) -/
def expo10 (x : Rat) : Int :=
  let a := if x < 0 then -x else x
  let rec up (fuel : Nat) (a : Rat) (e : Int) : Int :=
    match fuel with
    | 0 => e
    | fuel + 1 => if a ≥ 10 then up fuel (a / 10) (e + 1) else e
  let rec down (fuel : Nat) (a : Rat) (e : Int) : Int :=
    match fuel with
    | 0 => e
    | fuel + 1 => if a < 1 then down fuel (a * 10) (e - 1) else e
  if a ≥ 1 then up 400 a 0 else down 400 a 0

def scale10 (x : Rat) (e : Int) : Rat := if e ≥ 0 then x * pow10 e.toNat else x / pow10 (-e).toNat

/-- `float(f"{x:15.8e}")` as an exact rational: 9 significant digits, round half even -/
def fmtE8 (x : Rat) : Rat :=
  if x = 0 then 0 else
  let e := expo10 x
  let m := scale10 x (8 - e)
  scale10 (roundHalfEven m : Rat) (e - 8)

/-- `x if abs(x) > thr else 0.0` -/
def clip (thr x : Rat) : Rat := if (if x < 0 then -x else x) > thr then x else 0

/-! ### driver -/
open WB.IO

def parseTok? (s : String) : Option (Tok Rat) :=
  if s.startsWith "i" then (parseInt? (s.drop 1).toString).map Tok.int else (parseRat? s).map Tok.val

def parseFile? (s : String) : Option (File Rat) :=
  parseListWith (fun l => parseListWith parseTok? "," l) ";" s

def showTok : Tok Rat → String
  | .int z => "i" ++ toString z
  | .val x => showRat x

def showFile (f : File Rat) : String := showListWith (fun l => showListWith showTok "," l) ";" f

def vec3s (l : List (List Int)) : List Vec3 := l.map (fun r => (r.getD 0 0, r.getD 1 0, r.getD 2 0))
def showVec3s (l : List Vec3) : String := showIntss (l.map (fun r => [r.1, r.2.1, r.2.2]))

/-- C-order flat complex array [ir][m][n] -/
def ham3 (nw : Nat) (fl : List Rat) : Nat → Nat → Nat → Rat × Rat :=
  fun ir m n => let p := ((ir * nw + m) * nw + n) * 2; (fl.getD p 0, fl.getD (p + 1) 0)
def aa4 (nw : Nat) (fl : List Rat) : Nat → Nat → Nat → Nat → Rat × Rat :=
  fun ir m n c => let p := (((ir * nw + m) * nw + n) * 3 + c) * 2; (fl.getD p 0, fl.getD (p + 1) 0)
def mat2 (nc : Nat) (fl : List Rat) : Nat → Nat → Rat := fun i c => fl.getD (i * nc + c) 0

def flatHam (nR nw : Nat) (h : Nat → Nat → Nat → Rat × Rat) : List Rat :=
  (List.range nR).flatMap fun ir => (List.range nw).flatMap fun m => (List.range nw).flatMap fun n =>
    [(h ir m n).1, (h ir m n).2]
def flatAA (nR nw : Nat) (a : Nat → Nat → Nat → Nat → Rat × Rat) : List Rat :=
  (List.range nR).flatMap fun ir => (List.range nw).flatMap fun m => (List.range nw).flatMap fun n =>
    (List.range 3).flatMap fun c => [(a ir m n c).1, (a ir m n c).2]
def flatMat (n nc : Nat) (w : Nat → Nat → Rat) : List Rat :=
  (List.range n).flatMap fun i => (List.range nc).map fun c => w i c

def mkSys (nw : Nat) (Rs : List Vec3) (lat wcc ham aa : List Rat) : Sys Rat :=
  { nw := nw, Rs := Rs, lat := mat2 3 lat, wcc := mat2 3 wcc, ham := ham3 nw ham, aa := aa4 nw aa }

def rho (tag : String) : Rat → Rat := if tag = "e8" then fmtE8 else id

/-- integer matrices for the closure driver: 3×3 as 9 ints + TR flag (10th entry) -/
def mulI (a b : List Int) : List Int :=
  ((List.range 3).flatMap fun i => (List.range 3).map fun j =>
    (List.range 3).foldl (fun acc k => acc + a.getD (3 * i + k) 0 * b.getD (3 * k + j) 0) 0)
  ++ [(a.getD 9 0 + b.getD 9 0) % 2]

def names (s : String) : List Name := if s = "_" then [] else (s.splitOn ",").map String.toList

def handle : List String → String
  | ["hrwrite", tag, nw, rs, ham] =>
    match parseNat? nw, parseIntss? rs, parseRats? ham with
    | some nw, some rs, some ham => showFile (writeHr (rho tag) (mkSys nw (vec3s rs) [] [] ham []))
    | _, _, _ => "bad-op"
  | ["hrread", file] =>
    match parseFile? file with
    | some f => let r := readHr f
                toString r.nw ++ " " ++ showVec3s r.Rs ++ " " ++ showRats (flatHam r.Rs.length r.nw r.ham)
    | none => "bad-op"
  | ["wccwrite", thr, rows] =>
    match parseRat? thr, parseRatss? rows with
    | some t, some rows => showFile (writeWcc (clip t) rows)
    | _, _ => "bad-op"
  | ["wccread", which, file] =>
    match parseFile? file with
    | some f => match (if which = "old" then readWccOld f else readWcc f) with
                | some rows => showRatss rows
                | none => "ValueError"
    | none => "bad-op"
  | ["tbwrite", tag, nw, rs, lat, wcc, ham, aa, hasAA, useII] =>
    match parseNat? nw, parseIntss? rs, parseRats? lat, parseRats? wcc, parseRats? ham, parseRats? aa,
          parseBool? hasAA, parseBool? useII with
    | some nw, some rs, some lat, some wcc, some ham, some aa, some hasAA, some useII =>
      showFile (writeTb (rho tag) (mkSys nw (vec3s rs) lat wcc ham aa) hasAA useII)
    | _, _, _, _, _, _, _, _ => "bad-op"
  | ["tbread", file, needAA, convII, wcc] =>
    match parseFile? file, parseBool? needAA, parseBool? convII, parseRats? wcc with
    | some f, some needAA, some convII, some wcc =>
      let given : Option (Nat → Nat → Rat) := if wcc.isEmpty then none else some (mat2 3 wcc)
      let r := readTb f needAA convII given
      let nR := r.Rs.length
      toString r.nw ++ " " ++ showVec3s r.Rs ++ " " ++ showRats (flatMat 3 3 r.lat) ++ " "
        ++ showRats (flatMat r.nw 3 r.wcc) ++ " " ++ showRats (flatHam nR r.nw r.ham) ++ " "
        ++ (if needAA then showRats (flatAA nR r.nw r.aa) else "_")
    | _, _, _, _ => "bad-op"
  | ["closure", gens] =>
    match parseIntss? gens with
    | some g => match generate mulI (fun a b => a == b) 100000 64 g with
                | some l => showIntss l
                | none => "RuntimeError"
    | none => "bad-op"
  | ["npzsave", props, mats] =>
    let ps := (names props).mapIdx (fun i n => (n, i))
    let ms := (names mats).mapIdx (fun i n => (n, 1000 + i))
    showListWith (fun p => String.ofList p.1) "," (saveDir ps ms)
  | ["npzload", props, mats, listing] =>
    let ps := (names props).mapIdx (fun i n => (n, i))
    let ms := (names mats).mapIdx (fun i n => (n, 1000 + i))
    let r := loadDir (saveDir ps ms) (names listing)
    let so : Option Nat → String := fun o => match o with | some v => toString v | none => "none"
    let kv : Name × Nat → String := fun p => String.ofList p.1 ++ "=" ++ toString p.2
    (match r.rvec with
      | some (l, i, w) => so l ++ "," ++ toString i ++ "," ++ so w
      | none => "none") ++ " " ++ showListWith kv "," r.attrs ++ " " ++ showListWith kv "," r.mats
  | ["fmte8", x] =>
    match parseRat? x with
    | some x => showRat (fmtE8 x)
    | none => "bad-op"
  | _ => "bad-op"

end WB.C18
