/-
  C28 — Fermi-sea and Fermi-surface formulations agree.   Core Lean only.

  An index / sign calculus for the static calculators.  A calculator integrates (over the BZ, summed over bands)

        sign · ( product of band quantities with cartesian indices ) · w_fder(E),      w_n = (-1)^n f^{(n)}(E)

  (`fder = 0`: Fermi sea, weight f;  `fder = 1`: the code differentiates the cumulative sum with respect to E_F, i.e.
  the weight is -f' = δ(E - E_F);  in general (∂/∂E_F)^n f(E - E_F) = (-1)^n f^{(n)}).

  A band quantity with a generalised derivative carries the derivative index LAST (`Matrix_GenDer_ln` convention):
  `DerOmega[c, d] = ∂_d Ω_c`, `InvMass[a, b] = ∂_b v_a`, `Der3E[a, b, c] = ∂_c ∂_b v_a`.

  Integration by parts on the periodic BZ (`WB/Props/C28.lean: ibp`):   ∫ (∂_d Y) w_n = ∫ Y v_d w_{n+1}
  (the minus sign of the partial integration cancels the one of ∂_d w_n = -v_d w_{n+1}), so the image of a sea entry
  `∂_d Y, fder n, sign s` is the surface entry `Y · v_d, fder n+1, sign s` with the same output axes.

  The table of calculators (Formula, fder, sign of constant_factor, permutation of the output axes applied in
  `__call__`, the `- 2 E_F ·` sub-calculator of the orbital ones) is REGENERATED from the live classes on every run;
  `pairOK` decides that a documented sea entry is the integration-by-parts image of the surface entry.
-/
import WB.Model.IO
namespace WB.C28

/-- band quantities -/
inductive Q
  | E        -- band energy: ⟨E,[a]⟩ = v_a, ⟨E,[a,b]⟩ = ∂_b v_a (inverse mass), ⟨E,[a,b,c]⟩ = third derivative
  | Omega    -- Berry curvature Ω_c (first index) and its derivatives
  | Spin     -- spin s_c
  | Hplus    -- orbital-moment part H+G (Morb_Hpm, sign = +1)
  | One      -- identity (density of states)
deriving DecidableEq, Repr

def Q.code : Q → Nat
  | .E => 0 | .Omega => 1 | .Spin => 2 | .Hplus => 3 | .One => 4

/-- own cartesian indices of the undifferentiated quantity -/
def Q.rank : Q → Nat
  | .E => 0 | .Omega => 1 | .Spin => 1 | .Hplus => 1 | .One => 0

/-- a quantity with index labels: own indices first, derivative indices appended last -/
structure Factor where
  q : Q
  idx : List Nat
deriving DecidableEq, Repr

/-- integrand of a static calculator. `out` lists the index labels in the order of the output axes. -/
structure Entry where
  factors : List Factor
  fder : Nat
  neg : Bool           -- sign of constant_factor is negative
  out : List Nat
deriving DecidableEq, Repr

/-- formula classes used by the paired calculators, in their own axis order (labels = axis positions) -/
inductive Formula
  | Identity | InvMass | VelVel | DerOmega | VelOmega | DerSpin | VelSpin | DerMorb | VelHplus
  | Der3E | MassVel | VelVelVel | Omega | Spin | Morb_Hpm | MassMass | VelMassVel
deriving DecidableEq, Repr

def formulaFactors : Formula → List Factor
  | .Identity => [⟨.One, []⟩]
  | .InvMass => [⟨.E, [0, 1]⟩]
  | .VelVel => [⟨.E, [0]⟩, ⟨.E, [1]⟩]
  | .DerOmega => [⟨.Omega, [0, 1]⟩]
  | .VelOmega => [⟨.E, [0]⟩, ⟨.Omega, [1]⟩]
  | .DerSpin => [⟨.Spin, [0, 1]⟩]
  | .VelSpin => [⟨.E, [0]⟩, ⟨.Spin, [1]⟩]
  | .DerMorb => [⟨.Hplus, [0, 1]⟩]
  | .VelHplus => [⟨.E, [0]⟩, ⟨.Hplus, [1]⟩]
  | .Der3E => [⟨.E, [0, 1, 2]⟩]
  | .MassVel => [⟨.E, [0, 1]⟩, ⟨.E, [2]⟩]
  | .VelVelVel => [⟨.E, [0]⟩, ⟨.E, [1]⟩, ⟨.E, [2]⟩]
  | .Omega => [⟨.Omega, [0]⟩]
  | .Spin => [⟨.Spin, [0]⟩]
  | .Morb_Hpm => [⟨.Hplus, [0]⟩]
  | .MassMass => [⟨.E, [0, 1]⟩, ⟨.E, [2, 3]⟩]
  | .VelMassVel => [⟨.E, [0]⟩, ⟨.E, [1, 2]⟩, ⟨.E, [3]⟩]

def formulaRank (f : Formula) : Nat :=
  ((formulaFactors f).map (fun x => x.idx.length)).foldl (· + ·) 0

/-- one static calculator as extracted from the live class:
    `perm` = the permutation of the cartesian axes applied to the result in `__call__`
    (numpy `transpose` convention: output axis i = formula axis perm[i]) -/
structure Calc where
  formula : Formula
  fder : Nat
  neg : Bool
  perm : List Nat
deriving DecidableEq, Repr

def Calc.entry (c : Calc) : Entry := ⟨formulaFactors c.formula, c.fder, c.neg, c.perm⟩

/-- integration by parts: the single differentiated factor loses its LAST index d, a velocity v_d is appended,
    the weight goes from w_n to w_{n+1}; sign and output axes are unchanged.
    `none` when the entry is not a single factor with at least one derivative index. -/
def ibpImage (e : Entry) : Option Entry :=
  match e.factors with
  | [⟨q, idx⟩] =>
    if q.rank < idx.length then
      some ⟨[⟨q, idx.dropLast⟩, ⟨.E, [idx.getLast?.getD 0]⟩], e.fder + 1, e.neg, e.out⟩
    else none
  | _ => none

/-- position of a label in the output axes -/
def pos (out : List Nat) (l : Nat) : Nat := (out.idxOf l)

def insertSorted (x : Nat) : List Nat → List Nat
  | [] => [x]
  | y :: ys => if x ≤ y then x :: y :: ys else y :: insertSorted x ys
def sortNat (l : List Nat) : List Nat := l.foldr insertSorted []

/-- code of a factor after renaming labels to output positions; derivatives of the energy commute -/
def factorCode (out : List Nat) (f : Factor) : List Nat :=
  let idx := f.idx.map (pos out)
  f.q.code :: (if f.q = .E then sortNat idx else idx.take f.q.rank ++ sortNat (idx.drop f.q.rank))

def lexLe : List Nat → List Nat → Bool
  | [], _ => true
  | _ :: _, [] => false
  | a :: as, b :: bs => if a < b then true else if b < a then false else lexLe as bs

def insertCode (x : List Nat) : List (List Nat) → List (List Nat)
  | [] => [x]
  | y :: ys => if lexLe x y then x :: y :: ys else y :: insertCode x ys

/-- canonical form: factors as a sorted list of codes (band-diagonal quantities / traces of products commute) -/
def canon (e : Entry) : List (List Nat) × Nat × Bool :=
  ((e.factors.map (factorCode e.out)).foldr insertCode [], e.fder, e.neg)

/-- the output axes are a permutation of the labels used -/
def wellFormed (e : Entry) : Bool :=
  let labels := sortNat (e.factors.flatMap (·.idx))
  labels == List.range labels.length && sortNat e.out == labels

/-- the sea entry is the integration-by-parts image of the surface entry, with the same index order and sign -/
def pairOK (sea surf : Calc) : Bool :=
  wellFormed sea.entry && wellFormed surf.entry &&
  match ibpImage sea.entry with
  | some img => decide (canon img = canon surf.entry)
  | none => false

/-- a documented pair, possibly with the `- 2 E_F · (sub-calculator)` term of the orbital quantities:
    `coef` is the integer multiplying `E_F · sub` on each side (0 = no sub-calculator) -/
structure Pair where
  sea : Calc
  surf : Calc
  seaSub : Option Calc
  surfSub : Option Calc
  seaCoef : Int
  surfCoef : Int
deriving Repr

def pairRowOK (p : Pair) : Bool :=
  pairOK p.sea p.surf &&
  match p.seaSub, p.surfSub with
  | none, none => p.seaCoef == 0 && p.surfCoef == 0
  | some a, some b => pairOK a b && p.seaCoef == p.surfCoef
  | _, _ => false

def pairTableOK (t : List Pair) : Bool := t.all pairRowOK

/-! ## driver -/
open WB.IO

def parseFormula? : String → Option Formula
  | "Identity" => some .Identity | "InvMass" => some .InvMass | "VelVel" => some .VelVel
  | "DerOmega" => some .DerOmega | "VelOmega" => some .VelOmega | "DerSpin" => some .DerSpin
  | "VelSpin" => some .VelSpin | "DerMorb" => some .DerMorb | "VelHplus" => some .VelHplus
  | "Der3E" => some .Der3E | "MassVel" => some .MassVel | "VelVelVel" => some .VelVelVel
  | "Omega" => some .Omega | "Spin" => some .Spin | "Morb_Hpm" => some .Morb_Hpm
  | "MassMass" => some .MassMass | "VelMassVel" => some .VelMassVel
  | _ => none

def parseCalc? (f fder neg perm : String) : Option Calc :=
  match parseFormula? f, parseNat? fder, parseBool? neg, parseNats? perm with
  | some f, some d, some n, some p => some ⟨f, d, n, p⟩
  | _, _, _, _ => none

def handle : List String → String
  | ["rank", f] =>
    match parseFormula? f with
    | some f => toString (formulaRank f)
    | none => "unknown"
  | ["pair", f1, d1, n1, p1, f2, d2, n2, p2] =>
    match parseCalc? f1 d1 n1 p1, parseCalc? f2 d2 n2 p2 with
    | some a, some b => showBool (pairOK a b)
    | _, _ => "bad-op"
  | ["image", f1, d1, n1, p1] =>
    match parseCalc? f1 d1 n1 p1 with
    | some a =>
      match ibpImage a.entry with
      | some img => showListWith showNats ";" (canon img).1 ++ " " ++ toString img.fder ++ " " ++ showBool img.neg
      | none => "none"
    | none => "bad-op"
  | ["canon", f1, d1, n1, p1] =>
    match parseCalc? f1 d1 n1 p1 with
    | some a => showListWith showNats ";" (canon a.entry).1 ++ " " ++ toString a.fder ++ " " ++ showBool a.neg
    | none => "bad-op"
  | _ => "bad-op"

end WB.C28
