/-
  C10 — adaptive refinement keeps  result_all = Σ factor_i · result_i .   Core Lean only.

  Models of
    wannierberri/run_grid.py   : run()  (the iteration loop: process → update of result_all with the factor
                                 differences of old K-points → refinement), process().set_result
    wannierberri/grid/Kpoint.py: KpointBZ.set_result / get_result / dump_result / clear_result /
                                 get_result_factor, KpointBZparallel.divide / absorb, exclude_equiv_points

  One scalar type `K` is used for weights and for (one component of) the per-K results; every operation of the
  code is componentwise linear in the results, so the componentwise statement is the statement.
  The definitions use notation classes only: they are proved for every `Field K` and executed at `Rat`.
-/
import WB.Model.IO
namespace WB.C10

/-- storage mode of `process.set_result`:  memory (store_results), dump (dump_results), clear (neither) -/
inductive Mode | memory | dump | clear
  deriving DecidableEq, Repr

/-- a K-point as far as the bookkeeping is concerned -/
structure KP (K : Type) where
  r : K                -- what `paralfunc` returns for this K-point (fixed by the point; known once evaluated)
  f : K                -- `factor`
  ev : Bool            -- `was_evaluated_flag`
  mem : Option K       -- `self.result`
  file : Option K      -- content of the `_Kp-<ik>.pickle` file
  dumped : Bool        -- `res_dumped_flag`
  cleared : Bool       -- `res_cleared_flag`

variable {K : Type}

/-- a K-point that was just created (grid.get_K_list, divide) -/
def KP.fresh (r f : K) : KP K :=
  { r := r, f := f, ev := false, mem := none, file := none, dumped := false, cleared := false }

/-- `KpointBZ.get_result`; `none` = RuntimeError -/
def getResult (p : KP K) : Option K :=
  match p.mem with
  | some x => some x
  | none => if p.dumped then p.file else none

/-- `process.set_result(Kp, res)` with `res = paralfunc(Kp)`: returns the K-point afterwards and `res_fac` -/
def setResult [Mul K] [Zero K] (mode : Mode) (p : KP K) : KP K × K :=
  let p1 : KP K := { p with mem := some p.r, ev := true }        -- Kp.set_result(res)
  let resFac : K := match getResult p1 with                       -- Kp.get_result_factor()
    | some x => x * p1.f
    | none => 0
  let p2 : KP K := match mode with
    | Mode.memory => p1
    | Mode.dump => if p1.dumped then p1 else { p1 with file := p1.mem, mem := none, dumped := true }
    | Mode.clear => { p1 with mem := none, cleared := true }
  (p2, resFac)

/-- `process()`: evaluate every K-point that is not evaluated yet (list order), return the new list and
    `result_sum` (`None` of the code is 0 here) -/
def processPts [Mul K] [Add K] [Zero K] (mode : Mode) : List (KP K) → List (KP K) × K
  | [] => ([], 0)
  | p :: ps =>
    let rest := processPts mode ps
    if p.ev then (p :: rest.1, rest.2)
    else
      let q := setResult mode p
      (q.1 :: rest.1, q.2 + rest.2)

/-- `sum(K_list[i].get_result() * fac for i, fac in factors_diff_dict.items())` where
    `factors_diff = factors[:len(factors_old)] - factors_old` and the dict keeps the entries with `keep fac`.
    `none` = get_result raised. -/
def corrSum [Mul K] [Add K] [Sub K] [Zero K] (keep : K → Bool) : List (KP K) → List K → Option K
  | p :: ps, fo :: fs =>
    let d := p.f - fo
    if keep d then
      match getResult p, corrSum keep ps fs with
      | some x, some acc => some (x * d + acc)
      | _, _ => none
    else corrSum keep ps fs
  | _, _ => some 0

structure State (K : Type) where
  pts : List (KP K)          -- K_list
  factors : List K           -- the array `factors` (weights recorded at the last update)
  resultAll : Option K       -- result_all (None before the first iteration)
  mode : Mode
  err : Bool                 -- a RuntimeError was raised

/-- state before the loop: `K_list = grid.get_K_list()`, `factors = [Kp.factor]`, `result_all = None` -/
def start (mode : Mode) (init : List (K × K)) : State K :=
  { pts := init.map (fun rf => KP.fresh rf.1 rf.2), factors := init.map (·.2), resultAll := none,
    mode := mode, err := false }

/-- process + update of one iteration.  `keep` is the rule that selects which factor changes are applied:
    repaired code `fac != 0`, original code `abs(fac) > 1e-8`. -/
def iterate [Mul K] [Add K] [Sub K] [Zero K] (keep : K → Bool) (s : State K) : State K :=
  let pr := processPts s.mode s.pts
  match s.resultAll with
  | none => { s with pts := pr.1, resultAll := some pr.2 }
  | some ra =>
    match corrSum keep pr.1 s.factors with
    | some c => { s with pts := pr.1, factors := pr.1.map (·.f), resultAll := some (ra + pr.2 + c) }
    | none => { s with pts := pr.1, err := true }

/-- a TEMPTING BUT WRONG variant of the update (kept to document why it is wrong, see
    `Props/C10.lean: skip_rule_loses_weight_changes`): "if process() evaluated no new K-point in this iteration,
    nothing has changed, skip the bookkeeping".  Weights can move without any new evaluation: every new child
    may be absorbed by an already evaluated equivalent point. -/
def iterateSkip [Mul K] [Add K] [Sub K] [Zero K] (keep : K → Bool) (s : State K) : State K :=
  if s.resultAll.isSome && s.pts.all (·.ev) then s else iterate keep s

/-! ### refinement -/

def zeroAt [Zero K] : Nat → List (KP K) → List (KP K)
  | _, [] => []
  | 0, p :: ps => { p with f := 0 } :: ps
  | i + 1, p :: ps => p :: zeroAt i ps

def addAt [Add K] (x : K) : Nat → List (KP K) → List (KP K)
  | _, [] => []
  | 0, p :: ps => { p with f := p.f + x } :: ps
  | i + 1, p :: ps => p :: addAt x i ps

def removeAt : Nat → List (KP K) → List (KP K)
  | _, [] => []
  | 0, _ :: ps => ps
  | j + 1, p :: ps => p :: removeAt j ps

inductive RefOp (K : Type)
  | divide (i : Nat) (children : List K)   -- K_list += K_list[i].divide(...): children given by their values
  | merge (i j : Nat)                      -- K_list[i].absorb(K_list[j]); del K_list[j]

/-- one refinement event.
    divide: the selected point must be evaluated (`K.max` asserts it) and `ndiv > 0` (asserted by the code);
            each child gets `factor / prod(ndiv)`, the parent's factor becomes 0.
    merge : `i < j`, the absorbed point is a new, not yet evaluated one (exclude_equiv_points never removes an
            old point); `absorb` then only adds the factor. -/
def refStep [Add K] [Zero K] [Div K] [NatCast K] (s : State K) : RefOp K → State K
  | RefOp.divide i children =>
    match s.pts[i]? with
    | some p =>
      if p.ev && !children.isEmpty then
        let newfac := p.f / (children.length : K)
        { s with pts := zeroAt i s.pts ++ children.map (fun r => KP.fresh r newfac) }
      else s
    | none => s
  | RefOp.merge i j =>
    match s.pts[i]?, s.pts[j]? with
    | some _, some q =>
      if decide (i < j) && !q.ev then { s with pts := removeAt j (addAt q.f i s.pts) } else s
    | _, _ => s

/-- one pass of the loop body after iteration 0: refinement events of this iteration, then process + update -/
def iteration [Mul K] [Add K] [Sub K] [Zero K] [Div K] [NatCast K] (keep : K → Bool)
    (s : State K) (ops : List (RefOp K)) : State K :=
  iterate keep (ops.foldl refStep s)

/-- `run()`: iteration 0, then one `iteration` per element of `iters` -/
def runIters [Mul K] [Add K] [Sub K] [Zero K] [Div K] [NatCast K] (keep : K → Bool) (mode : Mode)
    (init : List (K × K)) (iters : List (List (RefOp K))) : State K :=
  iters.foldl (iteration keep) (iterate keep (start mode init))

def runItersSkip [Mul K] [Add K] [Sub K] [Zero K] [Div K] [NatCast K] (keep : K → Bool) (mode : Mode)
    (init : List (K × K)) (iters : List (List (RefOp K))) : State K :=
  iters.foldl (fun s ops => iterateSkip keep (ops.foldl refStep s)) (iterate keep (start mode init))

/-- the specification: weighted sum over the current K-point list -/
def wsum [Mul K] [Add K] [Zero K] : List (KP K) → K
  | [] => 0
  | p :: ps => p.f * p.r + wsum ps

/-- the two update rules -/
def keepNew [Zero K] [DecidableEq K] (d : K) : Bool := decide (d ≠ 0)
def keepOld (tau : Rat) (d : Rat) : Bool := decide ((if d < 0 then -d else d) > tau)

/-! ### storage names

  The model above lets every K-point carry "its" file (`KP.file`).  In the code a file is reached through a NAME:
  `K_list[ik].set_storage_path(get_Kpoint_storage_path(file_Klist_path, ik))` gives `_Kp-<ik>.pickle`, `dump_result`
  writes `pickle.dump(self.result)` to that path and `get_dumped_result` reads it back.  This section models the
  directory as a map name → content and the naming discipline of run(), to justify the abstraction: the name of a
  K-point is its position in `K_list` at the moment of the assignment, positions of evaluated points never change,
  so no two K-points ever share a file.  Two other disciplines (seeded defects T-C10 / T-C11) are kept as `NameRule`
  alternatives to document why they are wrong. -/

/-- a K-point as far as storage is concerned -/
structure NP (K : Type) where
  r : K                  -- what paralfunc returns for it
  ev : Bool              -- was_evaluated_flag
  name : Option Nat      -- result_storage_path = _Kp-<name>.pickle   (None: not assigned yet)

/-- when the storage name is assigned -/
inductive NameRule
  | atIterStart      -- real code: at the top of the loop body, `for ik in range(nk_prev, len(K_list))`, name = ik
  | beforeDelete     -- T-C10: right after the divide() loop, BEFORE exclude_equiv_points deletes duplicates
  | perRunCounter    -- T-C11: in process(), name = (K-points processed by THIS call so far) + position in the batch
  deriving DecidableEq

structure NState (K : Type) where
  pts : List (NP K)          -- K_list
  files : List (Nat × K)     -- directory: the most recent write of a name comes first
  nkPrev : Nat               -- nk_prev
  counter : Nat              -- `counter` of run(): K-points processed by this call
  err : Bool                 -- dump_result without a storage path

def lookupFile (files : List (Nat × K)) (n : Nat) : Option K := (files.find? (fun e => e.1 == n)).map (·.2)

/-- `get_dumped_result` -/
def readBack (s : NState K) (p : NP K) : Option K :=
  match p.name with
  | some n => lookupFile s.files n
  | none => none

/-- `for ik in range(nk_prev, len(K_list)): K_list[ik].set_storage_path(path(ik))`; `off` = index of the head -/
def assignNames (nkPrev : Nat) : Nat → List (NP K) → List (NP K)
  | _, [] => []
  | off, p :: ps => (if nkPrev ≤ off then { p with name := some off } else p) :: assignNames nkPrev (off + 1) ps

/-- process() in dump mode: every K-point that is not evaluated is evaluated and dumped under its name.
    `ctr` = name given by the per-run-counter rule to the next processed point (`none`: the rule is not in force). -/
def processN : Option Nat → List (NP K) → List (Nat × K) → List (NP K) × List (Nat × K) × Nat × Bool
  | _, [], files => ([], files, 0, false)
  | ctr, p :: ps, files =>
    if p.ev then
      let rest := processN ctr ps files
      (p :: rest.1, rest.2.1, rest.2.2.1, rest.2.2.2)
    else
      let nm := match ctr with | some c => some c | none => p.name
      match nm with
      | some n =>
        let rest := processN (ctr.map (· + 1)) ps ((n, p.r) :: files)
        ({ p with ev := true, name := some n } :: rest.1, rest.2.1, rest.2.2.1 + 1, rest.2.2.2)
      | none =>
        let rest := processN ctr ps files
        ({ p with ev := true } :: rest.1, rest.2.1, rest.2.2.1 + 1, true)

def removeNP : Nat → List (NP K) → List (NP K)
  | _, [] => []
  | 0, _ :: ps => ps
  | j + 1, p :: ps => p :: removeNP j ps

/-- run-level `exclude_equiv_points`: delete the new (not evaluated) point at position `j` -/
def deleteNew (pts : List (NP K)) (j : Nat) : List (NP K) :=
  match pts[j]? with
  | some q => if q.ev then pts else removeNP j pts
  | none => pts

/-- one event of a campaign -/
inductive NEvent (K : Type)
  | iter (children : List K) (deletes : List Nat)   -- one pass of the loop: the new points appended by the divide()
                                                    -- calls (iteration 0: the initial grid), then the deletions
  | restart                                         -- a new call run(restart=True): K_list re-read from K_list.pickle
                                                    -- (identical points, names included), files stay, counter = 0

def nstep (rule : NameRule) (s : NState K) : NEvent K → NState K
  | NEvent.restart => { s with nkPrev := s.pts.length, counter := 0 }
  | NEvent.iter children deletes =>
    let appended := s.pts ++ children.map (fun r => ({ r := r, ev := false, name := none } : NP K))
    let named1 := if rule = NameRule.beforeDelete then assignNames s.nkPrev 0 appended else appended
    let pruned := deletes.foldl deleteNew named1
    let named2 := if rule = NameRule.atIterStart then assignNames s.nkPrev 0 pruned else pruned
    let pr := processN (if rule = NameRule.perRunCounter then some s.counter else none) named2 s.files
    { pts := pr.1, files := pr.2.1, nkPrev := pr.1.length, counter := s.counter + pr.2.2.1,
      err := s.err || pr.2.2.2 }

def nrun (rule : NameRule) (events : List (NEvent K)) : NState K :=
  events.foldl (nstep rule) { pts := [], files := [], nkPrev := 0, counter := 0, err := false }

/-! ### driver -/
open WB.IO

def parseMode? : String → Option Mode
  | "memory" => some Mode.memory
  | "dump" => some Mode.dump
  | "clear" => some Mode.clear
  | _ => none

/-- one op: `d:i:v1,v2,...` (divide)  or  `m:i:j` (merge) -/
def parseOp? (s : String) : Option (RefOp Rat) :=
  match s.splitOn ":" with
  | ["d", i, vs] => match parseNat? i, parseRats? vs with
    | some i, some vs => some (RefOp.divide i vs)
    | _, _ => none
  | ["m", i, j] => match parseNat? i, parseNat? j with
    | some i, some j => some (RefOp.merge i j)
    | _, _ => none
  | _ => none

/-- iterations separated by `|`, ops inside an iteration by `;`, `_` = no op -/
def parseIters? (s : String) : Option (List (List (RefOp Rat))) :=
  if s = "_" then some [] else (s.splitOn "|").mapM (fun it => parseListWith parseOp? ";" it)

def zipInit : List Rat → List Rat → List (Rat × Rat)
  | r :: rs, f :: fs => (r, f) :: zipInit rs fs
  | _, _ => []

def showOpt : Option Rat → String
  | some x => showRat x
  | none => "None"

/-- all states after iteration 0, 1, ... (the observable of the code after every iteration) -/
def trace (keep : Rat → Bool) (mode : Mode) (init : List (Rat × Rat)) (iters : List (List (RefOp Rat))) :
    List (State Rat) :=
  (List.range (iters.length + 1)).map (fun k => runIters keep mode init (iters.take k))

def showStateC10 (s : State Rat) : String :=
  showOpt s.resultAll ++ "@" ++ showRats s.factors ++ "@" ++ showRats (s.pts.map (·.f)) ++ "@" ++
    showRat (wsum s.pts) ++ "@" ++ showBool s.err

/-- events separated by `|`: `R` = restart, otherwise `v1,v2,..:j1,j2,..` (children values : deleted positions) -/
def parseNEvent? (t : String) : Option (NEvent Rat) :=
  if t = "R" then some NEvent.restart else
  match t.splitOn ":" with
  | [vs, ds] => match parseRats? vs, parseNats? ds with
    | some vs, some ds => some (NEvent.iter vs ds)
    | _, _ => none
  | _ => none

def parseRule? : String → Option NameRule
  | "iterstart" => some NameRule.atIterStart
  | "beforedelete" => some NameRule.beforeDelete
  | "counter" => some NameRule.perRunCounter
  | _ => none

def showOptNats (l : List (Option Nat)) : String :=
  showListWith (fun o => match o with | some n => toString n | none => "N") "," l

def handle : List String → String
  | ["names", rule, evs] =>
    match parseRule? rule, (evs.splitOn "|").mapM parseNEvent? with
    | some r, some es =>
      let s := nrun r es
      showOptNats (s.pts.map (·.name)) ++ "@" ++
        showListWith (fun p => match readBack s p with | some x => showRat x | none => "X") "," s.pts ++ "@" ++
        showRats (s.pts.map (·.r)) ++ "@" ++ showBool s.err
    | _, _ => "bad-op"
  | ["run", rule, mode, rs, fs, iters] =>
    match parseMode? mode, parseRats? rs, parseRats? fs, parseIters? iters with
    | some m, some rs, some fs, some its =>
      if rs.length ≠ fs.length then "bad-op" else
      let keep : Option (Rat → Bool) :=
        if rule = "new" then some keepNew
        else match rule.splitOn "=" with
          | ["old", t] => (parseRat? t).map keepOld
          | _ => none
      match keep with
      | some k => " ".intercalate ((trace k m (zipInit rs fs) its).map showStateC10)
      | none => "bad-op"
    | _, _, _, _ => "bad-op"
  | _ => "bad-op"

end WB.C10
