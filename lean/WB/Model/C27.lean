/-
  C27 — Berry-curvature sum rule.   Core Lean only.

  Models of
    wannierberri/data_K/data_K.py   : Data_K.dEig_inv, Data_K.D_H
    wannierberri/formula/covariant.py: Omega.nn (internal term) and Formula_ln.trace
    wannierberri/calculators/{static,tabulate}.py : the inn/out index sets of a band block
  The scalar type `K` is any type with the arithmetic notation; complex conjugation `conj` and the imaginary
  unit `I` are parameters.  The driver runs the same definitions at `GRat` (Gaussian rationals).
-/
import WB.Model.IO
import WB.Model.C15
namespace WB.C27

/-! ### Gaussian rationals (exact complex arithmetic for the driver) -/

structure GRat where
  re : Rat
  im : Rat
deriving DecidableEq, Repr

namespace GRat
instance : Zero GRat := ⟨⟨0, 0⟩⟩
instance : One GRat := ⟨⟨1, 0⟩⟩
instance : Add GRat := ⟨fun a b => ⟨a.re + b.re, a.im + b.im⟩⟩
instance : Sub GRat := ⟨fun a b => ⟨a.re - b.re, a.im - b.im⟩⟩
instance : Neg GRat := ⟨fun a => ⟨-a.re, -a.im⟩⟩
instance : Mul GRat := ⟨fun a b => ⟨a.re * b.re - a.im * b.im, a.re * b.im + a.im * b.re⟩⟩
/-- `1/z = conj z / |z|²` (and `0⁻¹ = 0`, as in every Mathlib field) -/
instance : Inv GRat := ⟨fun a =>
  let d := a.re * a.re + a.im * a.im
  if d = 0 then ⟨0, 0⟩ else ⟨a.re / d, -a.im / d⟩⟩
def conj (a : GRat) : GRat := ⟨a.re, -a.im⟩
def I : GRat := ⟨0, 1⟩
def ofRat (r : Rat) : GRat := ⟨r, 0⟩
def smulRat (r : Rat) (a : GRat) : GRat := ⟨r * a.re, r * a.im⟩
end GRat

/-! ### the model -/

section
variable {K : Type} [Add K] [Mul K] [Neg K] [Sub K] [Inv K] [Zero K]

/-- `utility.alpha_A = [1,2,0]`, `utility.beta_A = [2,0,1]` -/
def alphaA (c : Nat) : Nat := (c + 1) % 3
def betaA (c : Nat) : Nat := (c + 2) % 3

/-- `Data_K.dEig_inv`:  `dEig = E[:,None]-E[None,:]; select = |dEig| < 1e-7; 1/dEig, 0 where select`.
    `sel n l` is the mask `select[n,l]`. -/
def dEigInv (E : Nat → K) (sel : Nat → Nat → Bool) (n l : Nat) : K :=
  if sel n l then 0 else (E n - E l)⁻¹

/-- `Data_K.D_H = -Xbar('Ham',1) * dEig_inv[:, :, :, None]` -/
def DH (V : Nat → Nat → Nat → K) (E : Nat → K) (sel : Nat → Nat → Bool) (n l a : Nat) : K :=
  -(V n l a) * dEigInv E sel n l

/-- `Omega.nn`, internal term, before the Hermitian completion:
    `-1j * einsum("mlc,lnc->mnc", D.nl[:, :, alpha_A], D.ln[:, :, beta_A])` with `l` running over `out` -/
def omegaSumm (I : K) (D : Nat → Nat → Nat → K) (out : List Nat) (m n c : Nat) : K :=
  -I * (out.map (fun l => D m l (alphaA c) * D l n (betaA c))).sum

/-- `summ += summ.swapaxes(0, 1).conj()` -/
def omegaNN (conj : K → K) (I : K) (D : Nat → Nat → Nat → K) (out : List Nat) (m n c : Nat) : K :=
  omegaSumm I D out m n c + conj (omegaSumm I D out n m c)

/-- `Formula_ln.trace`: `einsum("nn...->...", nn(ik, inn, out))` (the `.real` is the identity here: the value is
    self-conjugate, see `Props/C27.lean: omegaTrace_real`) -/
def omegaTrace (conj : K → K) (I : K) (D : Nat → Nat → Nat → K) (inn out : List Nat) (c : Nat) : K :=
  (inn.map (fun n => omegaNN conj I D out n n c)).sum

/-- band block `(a, b)` of `N` bands:  `inn = arange(a, b)`, `out = concatenate(arange(0, a), arange(b, N))` -/
def blockInn (a b : Nat) : List Nat := List.range' a (b - a)
def blockOut (a b N : Nat) : List Nat := List.range a ++ List.range' b (N - b)

/-- the sum over all blocks of a grouping of the bands (what a Fermi-sea calculator accumulates once the Fermi
    level is above every block, and what the per-band tabulation sums to) -/
def omegaBlocks (conj : K → K) (I : K) (D : Nat → Nat → Nat → K) (N : Nat) (blocks : List (Nat × Nat))
    (c : Nat) : K :=
  (blocks.map (fun ab => omegaTrace conj I D (blockInn ab.1 ab.2) (blockOut ab.1 ab.2 N) c)).sum

/-- k-sum of a Fermi-sea integral with the Fermi level above all bands: `fac * Σ_k Σ_blocks trace` -/
def ahcAbove (conj : K → K) (I : K) (fac : K) (N : Nat)
    (ks : List ((Nat → Nat → Nat → K) × List (Nat × Nat))) (c : Nat) : K :=
  fac * (ks.map (fun kd => omegaBlocks conj I kd.1 N kd.2 c)).sum
end

/-- the mask of `dEig_inv` for rational energies: `|E n - E l| < thr` -/
def selRat (E : Nat → Rat) (thr : Rat) (n l : Nat) : Bool :=
  decide (E n - E l < thr) && decide (E l - E n < thr)

/-! ### making a band-index matrix Hermitian (k.p derivatives, `R_to_k(hermitian=True)`) -/

/-- `0.5 * (X + X.swapaxes(m, n).conj())` — the Hermitian part -/
def hermitize {K : Type} [Add K] [Mul K] (conj : K → K) (half : K) (X : Nat → Nat → K) (i j : Nat) : K :=
  half * (X i j + conj (X j i))

/-- `0.5 * (X + X.swapaxes(m, n))` — the conjugation forgotten: the symmetric part -/
def symmetrize {K : Type} [Add K] [Mul K] (half : K) (X : Nat → Nat → K) (i j : Nat) : K :=
  half * (X i j + X j i)

/-! ### `dEig_inv` for all k-points of a Data_K -/

/-- `Data_K.dEig_inv[ik, n, l]`: the per-k function applied at every k-point `ik < nk` of the FFT grid -/
def dEigInvAllK {K : Type} [Sub K] [Inv K] [Zero K] (E : Nat → Nat → K) (sel : Nat → Nat → Nat → Bool)
    (nk ik n l : Nat) : K :=
  if ik < nk then dEigInv (E ik) (sel ik) n l else 0

/-- the same array filled block-wise: `for i0 in range(0, nblocks*nb, nb): out[i0:i0+nb] = f(E[i0:i0+nb])`
    (slices clipped at `nk`), entries never written stay 0 -/
def dEigInvBlocks {K : Type} [Sub K] [Inv K] [Zero K] (E : Nat → Nat → K) (sel : Nat → Nat → Nat → Bool)
    (nblocks nb nk ik n l : Nat) : K :=
  if ik < nk ∧ ik < nblocks * nb then dEigInv (E ik) (sel ik) n l else 0

/-! ### the band groups of a Fermi-sea calculator (`Data_K.get_bands_in_range_groups_ik(..., sea=True)`) -/

/-- `get_bands_below_range(emin, E)`: `np.where(E < emin)[0][-1] + 1`, and 0 when no band lies below `emin` -/
def belowRange (E : Nat → Rat) (emin : Rat) (n : Nat) : Nat :=
  match (List.range n).reverse.find? (fun i => decide (E i < emin)) with
  | some i => i + 1
  | none => 0

/-- the keys of the dictionary returned with `sea=True`: the groups in the Fermi-level range `[emin, emax]`
    (`get_bands_in_range`) plus the lumped always-occupied block `(0, bandmax)`, where
    `bandmax = min(get_bands_below_range(emin), bands_in_range[0][0])` — the clamp keeps the lumped block
    disjoint from a group that straddles `emin` -/
def seaGroups (E : Nat → Rat) (th : Rat) (n : Nat) (kr : Bool) (emin emax : Rat) : List (Nat × Nat) :=
  let inr := WB.C15.bandsInRange E th n kr emin emax
  let below := belowRange E emin n
  let bandmax := match inr with
    | [] => below
    | ab :: _ => min below ab.1
  (if bandmax > 0 then [(0, bandmax)] else []) ++ inr

/-- the same WITHOUT the clamp (`bandmax` = number of bands below `emin`): kept to show that the clamp is what
    makes the groups a partition (`Props/C27.lean: sea_groups_without_clamp_overlap`) -/
def seaGroupsNoClamp (E : Nat → Rat) (th : Rat) (n : Nat) (kr : Bool) (emin emax : Rat) : List (Nat × Nat) :=
  let inr := WB.C15.bandsInRange E th n kr emin emax
  let bandmax := belowRange E emin n
  (if bandmax > 0 then [(0, bandmax)] else []) ++ inr

/-! ### driver -/
open WB.IO

def showG (z : GRat) : String := showRat z.re ++ "," ++ showRat z.im

/-- V[n][l][a] from two `N × 3N` tables (real and imaginary parts) -/
def mkV (re im : List (List Rat)) : Nat → Nat → Nat → GRat :=
  fun n l a => ⟨(re.getD n []).getD (3 * l + a) 0, (im.getD n []).getD (3 * l + a) 0⟩

def handle : List String → String
  -- deinv E thr  ->  N×N table of dEig_inv
  | ["deinv", e, th] =>
    match parseRats? e, parseRat? th with
    | some l, some t =>
      let E : Nat → Rat := fun i => l.getD i 0
      let N := l.length
      showRatss ((List.range N).map fun n => (List.range N).map fun m =>
        (dEigInv (fun i => GRat.ofRat (E i)) (selRat E t) n m).re)
    | _, _ => "bad-op"
  -- dh E thr Vre Vim -> D_H[n][l][a] as "re,im" separated by ';'
  | ["dh", e, th, vre, vim] =>
    match parseRats? e, parseRat? th, parseRatss? vre, parseRatss? vim with
    | some l, some t, some re, some im =>
      let E : Nat → Rat := fun i => l.getD i 0
      let N := l.length
      let D := DH (mkV re im) (fun i => GRat.ofRat (E i)) (selRat E t)
      showListWith showG ";" ((List.range N).flatMap fun n => (List.range N).flatMap fun m =>
        (List.range 3).map fun a => D n m a)
    | _, _, _, _ => "bad-op"
  -- trace E thr Vre Vim inn out -> the three components of Omega.trace as "re,im;re,im;re,im"
  | ["trace", e, th, vre, vim, inn, out] =>
    match parseRats? e, parseRat? th, parseRatss? vre, parseRatss? vim, parseNats? inn, parseNats? out with
    | some l, some t, some re, some im, some i, some o =>
      let E : Nat → Rat := fun i => l.getD i 0
      let D := DH (mkV re im) (fun i => GRat.ofRat (E i)) (selRat E t)
      showListWith showG ";" ((List.range 3).map fun c => omegaTrace GRat.conj GRat.I D i o c)
    | _, _, _, _, _, _ => "bad-op"
  -- nn E thr Vre Vim inn out -> Omega.nn[m][n][c] for m,n in inn
  | ["nn", e, th, vre, vim, inn, out] =>
    match parseRats? e, parseRat? th, parseRatss? vre, parseRatss? vim, parseNats? inn, parseNats? out with
    | some l, some t, some re, some im, some i, some o =>
      let E : Nat → Rat := fun i => l.getD i 0
      let D := DH (mkV re im) (fun i => GRat.ofRat (E i)) (selRat E t)
      showListWith showG ";" (i.flatMap fun m => i.flatMap fun n => (List.range 3).map fun c =>
        omegaNN GRat.conj GRat.I D o m n c)
    | _, _, _, _, _, _ => "bad-op"
  -- blocks E thr Vre Vim borders -> sum over the blocks (pairs of consecutive borders) of Omega.trace
  | ["blocks", e, th, vre, vim, bd] =>
    match parseRats? e, parseRat? th, parseRatss? vre, parseRatss? vim, parseNats? bd with
    | some l, some t, some re, some im, some b =>
      let E : Nat → Rat := fun i => l.getD i 0
      let D := DH (mkV re im) (fun i => GRat.ofRat (E i)) (selRat E t)
      showListWith showG ";" ((List.range 3).map fun c =>
        omegaBlocks GRat.conj GRat.I D l.length (b.zip b.tail) c)
    | _, _, _, _, _ => "bad-op"
  -- sea E thr kramers emin emax -> groups of get_bands_in_range_groups_ik(sea=True), lumped block first
  | ["sea", e, th, kr, emin, emax] =>
    match parseRats? e, parseRat? th, parseBool? kr, parseRat? emin, parseRat? emax with
    | some l, some t, some k, some a, some b =>
      if l.isEmpty then "bad-op" else
        showListWith (fun ab => toString ab.1 ++ "," ++ toString ab.2) ";"
          (seaGroups (fun i => l.getD i 0) t l.length k a b)
    | _, _, _, _, _ => "bad-op"
  | _ => "bad-op"

end WB.C27
