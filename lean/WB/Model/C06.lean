/-
  C06 — K-point weights partition the Brillouin zone for every grid and history.   Core Lean only.

  Models of
    wannierberri/symmetry/point_symmetry.py : PointSymmetry.transform_reduced_vector, PointGroup.star
    wannierberri/grid/grid.py               : Grid.get_K_list
    wannierberri/grid/Kpoint.py             : KpointBZparallel.absorb / equiv / divide, exclude_equiv_points
    wannierberri/run_grid.py                : the refinement step of run() (divide selected points, merge)
    wannierberri/grid/grid_tetra.py         : GridTetra.__init__ (starting tetrahedra, weights),
                                              split_tetra_volume, split_tetra_size, tetra_volume
    wannierberri/grid/Kpoint_tetra.py       : KpointBZtetra.__init__ / divide / size / i_max_edge

  Everything is exact: coordinates, cell sizes and factors are `Rat`; a symmetry operation is the integer
  matrix of the proper rotation in reduced reciprocal coordinates together with the inversion / time-reversal
  flags (read from the code's own PointGroup by the harness).
-/
import WB.Model.IO
namespace WB.C06

/-! ### vectors, symmetries -/

structure V3 where
  x : Rat
  y : Rat
  z : Rat
deriving DecidableEq, Repr, Inhabited

namespace V3
def add (a b : V3) : V3 := ⟨a.x + b.x, a.y + b.y, a.z + b.z⟩
def sub (a b : V3) : V3 := ⟨a.x - b.x, a.y - b.y, a.z - b.z⟩
def smul (c : Rat) (a : V3) : V3 := ⟨c * a.x, c * a.y, c * a.z⟩
def zero : V3 := ⟨0, 0, 0⟩
end V3

/-- grid indices `(x, y, z)` and triples of naturals (`div`, `ndiv`) -/
abbrev Idx := Nat × Nat × Nat

/-- a point symmetry: `m` is `basis @ R.T @ inv(basis)` of the PROPER part `R` (row `i`, column `j` = `mij`),
    `inv`/`tr` are the flags `Inv`/`TR`;  a reduced vector transforms as `vec @ m * (iTR * iInv)`. -/
structure Sym where
  m11 : Int
  m12 : Int
  m13 : Int
  m21 : Int
  m22 : Int
  m23 : Int
  m31 : Int
  m32 : Int
  m33 : Int
  inv : Bool
  tr : Bool
deriving DecidableEq, Repr

def Sym.sign (s : Sym) : Rat := (if s.tr then -1 else 1) * (if s.inv then -1 else 1)

/-- `PointSymmetry.transform_reduced_vector(vec, basis)` -/
def Sym.apply (s : Sym) (k : V3) : V3 :=
  ⟨(k.x * s.m11 + k.y * s.m21 + k.z * s.m31) * s.sign,
   (k.x * s.m12 + k.y * s.m22 + k.z * s.m32) * s.sign,
   (k.x * s.m13 + k.y * s.m23 + k.z * s.m33) * s.sign⟩

def isInt (r : Rat) : Bool := r.den == 1

/-- `norm(diff - round(diff)) < SYMMETRY_PRECISION`, exact version: the difference is a lattice vector -/
def eqMod1 (a b : V3) : Bool := isInt (a.x - b.x) && isInt (a.y - b.y) && isInt (a.z - b.z)

/-- the deletion loop of `PointGroup.star`: element `i` is deleted when it coincides (mod 1) with one of the
    elements before it; `seen` = the elements before the current one -/
def dedupAux : List V3 → List V3 → List V3
  | _, [] => []
  | seen, v :: rest =>
    if seen.any (fun s => eqMod1 s v) then dedupAux (v :: seen) rest else v :: dedupAux (v :: seen) rest

/-- `PointGroup.star(k)` -/
def star (syms : List Sym) (k : V3) : List V3 := dedupAux [] (syms.map (fun s => s.apply k))

/-! ### K-points with a parallelepiped cell -/

structure KPoint where
  K : V3
  dK : V3
  factor : Rat
  level : Nat
deriving DecidableEq, Repr, Inhabited

/-- `KpointBZparallel.equiv` -/
def equivK (syms : List Sym) (a b : KPoint) : Bool :=
  a.level == b.level &&
    (star syms a.K).any (fun s => (star syms b.K).any (fun t => eqMod1 s t))

/-! ### `Grid.get_K_list` -/

/-- numpy `round` (half to even) -/
def roundHE (r : Rat) : Int :=
  let f := r.floor
  let d := r - f
  if d < 1 / 2 then f else if d > 1 / 2 then f + 1 else if f % 2 = 0 then f else f + 1

/-- `np.array(np.round(k * div), dtype=int) % div` -/
def toIdx (div : Idx) (k : V3) : Idx :=
  ((roundHE (k.x * div.1) % (div.1 : Int)).toNat,
   (roundHE (k.y * div.2.1) % (div.2.1 : Int)).toNat,
   (roundHE (k.z * div.2.2) % (div.2.2 : Int)).toNat)

/-- position of `K_list[x][y][z]` in the flattened list (x outermost, z innermost) -/
def flat (div : Idx) (p : Idx) : Nat := (p.1 * div.2.1 + p.2.1) * div.2.2 + p.2.2

/-- the order of the final comprehension: x outer, y, z inner -/
def flatOrder (div : Idx) : List Idx :=
  (List.range div.1).flatMap fun x => (List.range div.2.1).flatMap fun y => (List.range div.2.2).map fun z => (x, y, z)

/-- the order of the symmetry loop: z outer, y, x inner -/
def loopOrder (div : Idx) : List Idx :=
  (List.range div.2.2).flatMap fun z => (List.range div.2.1).flatMap fun y => (List.range div.1).map fun x => (x, y, z)

def gridK (div : Idx) (p : Idx) : V3 := ⟨(p.1 : Rat) * (1 / div.1), (p.2.1 : Rat) * (1 / div.2.1), (p.2.2 : Rat) * (1 / div.2.2)⟩
def gridDK (div : Idx) : V3 := ⟨1 / div.1, 1 / div.2.1, 1 / div.2.2⟩

/-- the grid during the symmetry loop: one slot per grid point, `none` = the slot was set to `None` -/
abbrev GridState := List (Idx × Option Rat)

def initGrid (div : Idx) : GridState :=
  (flatOrder div).map fun p => (p, some (1 / ((div.1 * div.2.1 * div.2.2 : Nat) : Rat)))

def slot (g : GridState) (i : Nat) : Option Rat := (g[i]?).bind (fun e => e.2)

/-- `KP.absorb(K_list[k]); K_list[k] = None`  (KP = slot `i`, which is alive; slot `j ≠ i`) -/
def absorbAt (g : GridState) (i j : Nat) : GridState :=
  match g[i]?, g[j]? with
  | some (p, some f), some (q, some fo) => (g.set i (p, some (f + fo))).set j (q, none)
  | _, _ => g

/-- the star of grid point `p` as grid indices -/
def starIdx (syms : List Sym) (div : Idx) (p : Idx) : List Idx :=
  (star syms (gridK div p)).map (toIdx div)

/-- body of the loop for one grid point -/
def gridStep (syms : List Sym) (div : Idx) (g : GridState) (p : Idx) : GridState :=
  match slot g (flat div p) with
  | none => g
  | some _ =>
    (starIdx syms div p).foldl (fun g k => if k ≠ p then absorbAt g (flat div p) (flat div k) else g) g

def finalGrid (syms : List Sym) (div : Idx) (useSym : Bool) : GridState :=
  if useSym then (loopOrder div).foldl (gridStep syms div) (initGrid div) else initGrid div

/-- `Grid.get_K_list(use_symmetry)` -/
def getKList (syms : List Sym) (div : Idx) (useSym : Bool) : List KPoint :=
  (finalGrid syms div useSym).filterMap fun e =>
    e.2.map fun f => { K := gridK div e.1, dK := gridDK div, factor := f, level := 0 }

/-! ### `divide`, `exclude_equiv_points`, refinement step -/

/-- `ndiv[np.logical_not(periodic)] = 1` -/
def effNdiv (ndiv : Idx) (periodic : Bool × Bool × Bool) : Idx :=
  (if periodic.1 then ndiv.1 else 1, if periodic.2.1 then ndiv.2.1 else 1, if periodic.2.2 then ndiv.2.2 else 1)

/-- one child of `divide`: `K0 + adpt_shift + dK_adpt * (x, y, z)` -/
def child (kp : KPoint) (n : Idx) (c : Idx) : KPoint :=
  let da : V3 := ⟨kp.dK.x / n.1, kp.dK.y / n.2.1, kp.dK.z / n.2.2⟩
  { K := ⟨kp.K.x + (-kp.dK.x + da.x) / 2 + da.x * c.1,
          kp.K.y + (-kp.dK.y + da.y) / 2 + da.y * c.2.1,
          kp.K.z + (-kp.dK.z + da.z) / 2 + da.z * c.2.2⟩,
    dK := da,
    factor := kp.factor / ((n.1 * n.2.1 * n.2.2 : Nat) : Rat),
    level := kp.level + 1 }

/-- the children in the order of the code's loops (x outer, z inner); `n` is the effective `ndiv` -/
def children (kp : KPoint) (n : Idx) : List KPoint :=
  (flatOrder n).map (child kp n)

/-- state of `exclude_equiv_points`: every K-point with the flag "index is in `exclude`" -/
abbrev ExState := List (KPoint × Bool)

/-- one (i, j) iteration of the double loop: `j` is excluded and absorbed by `i`
    (`i >= j` and old-old pairs are skipped first, as in the code; `i`, `j` must not be in `exclude`) -/
def exclStep (eqv : Nat → Nat → Bool) (nOld : Nat) (s : ExState) (ij : Nat × Nat) : ExState :=
  if ij.1 < ij.2 ∧ ¬ (ij.1 < nOld ∧ ij.2 < nOld) then
    match s[ij.1]?, s[ij.2]? with
    | some (ki, false), some (kj, false) =>
      if eqv ij.1 ij.2 = true then
        (s.set ij.1 ({ ki with factor := ki.factor + kj.factor }, false)).set ij.2 (kj, true)
      else s
    | _, _ => s
  else s

/-- all (i, j) in the order of the loops over the groups of (sorted) indices -/
def groupPairs (groups : List (List Nat)) : List (Nat × Nat) :=
  groups.flatMap fun grp => grp.flatMap fun i => grp.map fun j => (i, j)

/-- `exclude_equiv_points(K_list, new_points)` for a given grouping/ordering of the indices (the code gets it from
    the float pre-filter `distGamma`: argsort + "walls") and a given `equiv` on indices -/
def excludeEquivWith (eqv : Nat → Nat → Bool) (groups : List (List Nat)) (l : List KPoint) (newPoints : Nat) :
    List KPoint :=
  let s := (groupPairs groups).foldl (exclStep eqv (l.length - newPoints)) (l.map fun k => (k, false))
  (s.filter fun e => !e.2).map fun e => e.1

/-- level and (lazily computed, then cached - as `cached_property star` in the code) star of every point -/
def starTable (syms : List Sym) (l : List KPoint) : Array (Nat × Thunk (List V3)) :=
  (l.map fun k => (k.level, Thunk.mk fun _ => star syms k.K)).toArray

/-- `K_list[i].equiv(K_list[j])` -/
def eqvTable (tbl : Array (Nat × Thunk (List V3))) (i j : Nat) : Bool :=
  match tbl[i]?, tbl[j]? with
  | some (li, si), some (lj, sj) => li == lj && si.get.any (fun s => sj.get.any (fun t => eqMod1 s t))
  | _, _ => false

/-- `exclude_equiv_points` with the pre-filter idealised to a single group in index order (for a symmetry list
    that is a group the result does not depend on the grouping as long as equivalent points share a group) -/
def excludeEquiv (syms : List Sym) (l : List KPoint) (newPoints : Nat) : List KPoint :=
  excludeEquivWith (eqvTable (starTable syms l)) [List.range l.length] l newPoints

/-- `KpointBZparallel.divide(ndiv, periodic, use_symmetry)`: returns the new points; the caller's point gets
    factor 0 (see `refineOne`) -/
def divide (syms : List Sym) (useSym : Bool) (periodic : Bool × Bool × Bool) (kp : KPoint) (ndiv : Idx) :
    List KPoint :=
  let ch := children kp (effNdiv ndiv periodic)
  if useSym then excludeEquiv syms ch ch.length else ch

/-- `K_list += K_list[iK].divide(...)` (including `self.set_factor(0)`) -/
def refineOne (syms : List Sym) (useSym : Bool) (periodic : Bool × Bool × Bool) (ndiv : Idx)
    (l : List KPoint) (iK : Nat) : List KPoint :=
  match l[iK]? with
  | none => l
  | some kp => l.set iK { kp with factor := 0 } ++ divide syms useSym periodic kp ndiv

/-- one refinement iteration of `run()`: divide the selected points, then merge equivalent new points -/
def refineStep (syms : List Sym) (useSym : Bool) (periodic : Bool × Bool × Bool)
    (l : List KPoint) (op : Idx × List Nat) : List KPoint :=
  let l' := op.2.foldl (refineOne syms useSym periodic op.1) l
  if useSym then excludeEquiv syms l' (l'.length - l.length) else l'

/-- the K-list after a whole refinement history -/
def runHistory (syms : List Sym) (div : Idx) (useSym : Bool) (periodic : Bool × Bool × Bool)
    (ops : List (Idx × List Nat)) : List KPoint :=
  ops.foldl (refineStep syms useSym periodic) (getKList syms div useSym)

/-- the half-open cell `[K - dK/2, K + dK/2)` around a K-point -/
def inCell (kp : KPoint) (p : V3) : Prop :=
  (kp.K.x - kp.dK.x / 2 ≤ p.x ∧ p.x < kp.K.x + kp.dK.x / 2) ∧
  (kp.K.y - kp.dK.y / 2 ≤ p.y ∧ p.y < kp.K.y + kp.dK.y / 2) ∧
  (kp.K.z - kp.dK.z / 2 ≤ p.z ∧ p.z < kp.K.z + kp.dK.z / 2)

/-! ### tetrahedra -/

structure Tet where
  K : V3
  v0 : V3
  v1 : V3
  v2 : V3
  v3 : V3
  factor : Rat
  level : Nat
  split : Nat
deriving DecidableEq, Repr, Inhabited

def absR (r : Rat) : Rat := if r < 0 then -r else r

def det3 (a b c : V3) : Rat :=
  a.x * (b.y * c.z - b.z * c.y) - a.y * (b.x * c.z - b.z * c.x) + a.z * (b.x * c.y - b.y * c.x)

/-- `tetra_volume(vertices)` -/
def volume4 (v0 v1 v2 v3 : V3) : Rat := absR (det3 (v1.sub v0) (v2.sub v0) (v3.sub v0)) / 6
def Tet.volume (t : Tet) : Rat := volume4 t.v0 t.v1 t.v2 t.v3

/-- `KpointBZtetra.__init__`: the vertices are stored relative to their centre, the centre is added to `K` -/
def mkTet (v0 v1 v2 v3 : V3) (K : V3) (factor : Rat) (level split : Nat) : Tet :=
  let c : V3 := V3.smul (1 / 4) (v0.add (v1.add (v2.add v3)))
  { K := K.add c, v0 := v0.sub c, v1 := v1.sub c, v2 := v2.sub c, v3 := v3.sub c,
    factor := factor, level := level, split := split }

def Tet.vert (t : Tet) : Nat → V3
  | 0 => t.v0
  | 1 => t.v1
  | 2 => t.v2
  | _ => t.v3

/-- absolute position of vertex `i` -/
def Tet.absVert (t : Tet) (i : Nat) : V3 := t.K.add (t.vert i)

/-- `EDGES` and `EDGES_COMPLEMENT` (the latter as produced by `list({0,1,2,3} - set(e))`: ascending) -/
def edgeEnds : Nat → Nat × Nat
  | 0 => (0, 1)
  | 1 => (0, 2)
  | 2 => (0, 3)
  | 3 => (1, 2)
  | 4 => (1, 3)
  | _ => (2, 3)
def edgeComp : Nat → Nat × Nat
  | 0 => (2, 3)
  | 1 => (1, 3)
  | 2 => (1, 2)
  | 3 => (0, 3)
  | 4 => (0, 2)
  | _ => (0, 1)

/-- `KpointBZtetra.divide(ndiv, refine)` along edge number `e` -/
def divideTet (t : Tet) (e : Nat) (ndiv : Nat) (refine : Bool) : List Tet :=
  let a := t.vert (edgeEnds e).1
  let dv := V3.smul (1 / (ndiv : Rat)) ((t.vert (edgeEnds e).2).sub a)
  (List.range ndiv).map fun (i : Nat) =>
    mkTet (t.vert (edgeComp e).1) (t.vert (edgeComp e).2)
      (a.add (V3.smul (i : Rat) dv)) (a.add (V3.smul ((i : Rat) + 1) dv))
      t.K (t.factor / (ndiv : Rat))
      (t.level + (if refine then 1 else 0)) (t.split + (if refine then 0 else 1))

/-- symmetric metric `G = basis basisᵀ` of the reduced reciprocal lattice, as `(g11,g12,g13,g22,g23,g33)` -/
structure Gram where
  g11 : Rat
  g12 : Rat
  g13 : Rat
  g22 : Rat
  g23 : Rat
  g33 : Rat

def Gram.sq (g : Gram) (e : V3) : Rat :=
  g.g11 * e.x * e.x + g.g22 * e.y * e.y + g.g33 * e.z * e.z +
    2 * (g.g12 * e.x * e.y + g.g13 * e.x * e.z + g.g23 * e.y * e.z)

def Tet.edgeSq (g : Gram) (t : Tet) (e : Nat) : Rat :=
  g.sq ((t.vert (edgeEnds e).2).sub (t.vert (edgeEnds e).1))

/-- square of `size` (longest edge) -/
def Tet.sizeSq (g : Gram) (t : Tet) : Rat :=
  (List.range 6).foldl (fun m e => if t.edgeSq g e > m then t.edgeSq g e else m) (t.edgeSq g 0)

/-- `__i_max_edge`: the smallest index among the longest edges (ties exact) -/
def Tet.iMaxEdge (g : Gram) (t : Tet) : Nat :=
  ((List.range 6).find? (fun e => t.edgeSq g e == t.sizeSq g)).getD 0

/-- one pass of the `while` loops: every selected tetrahedron is replaced by its two halves -/
def splitPass (sel : Tet → Bool) (edge : Tet → Nat) (l : List Tet) : List Tet :=
  l.flatMap fun t => if sel t then divideTet t (edge t) 2 false else [t]

/-- `split_tetra_volume` / `split_tetra_size` with `fuel` bounding the number of passes; `stop l` is the break test
    (repaired code: `max <= threshold`, i.e. the loop stops exactly when no tetrahedron would be split) -/
def splitLoop (stop : List Tet → Bool) (sel : Tet → Bool) (edge : Tet → Nat) : Nat → List Tet → List Tet
  | 0, l => l
  | fuel + 1, l => if stop l then l else splitLoop stop sel edge fuel (splitPass sel edge l)

def maxOf (l : List Rat) : Rat := l.foldl (fun m x => if x > m then x else m) (l.headD 0)

def splitVolume (g : Gram) (vmax : Rat) (fuel : Nat) (l : List Tet) : List Tet :=
  splitLoop (fun l => decide (maxOf (l.map Tet.volume) ≤ vmax)) (fun t => decide (t.volume > vmax)) (Tet.iMaxEdge g) fuel l

def splitSize (g : Gram) (dkmaxSq : Rat) (fuel : Nat) (l : List Tet) : List Tet :=
  splitLoop (fun l => decide (maxOf (l.map (Tet.sizeSq g)) ≤ dkmaxSq)) (fun t => decide (t.sizeSq g > dkmaxSq))
    (Tet.iMaxEdge g) fuel l

/-- the starting set of `GridTetra.__init__`: weights `vol / Σ vol`, or `weights[i] * vol[i]` when weights are given -/
def initTets (verts : List (V3 × V3 × V3 × V3)) (weights : Option (List Rat)) : List Tet :=
  let vols := verts.map fun q => volume4 q.1 q.2.1 q.2.2.1 q.2.2.2
  let tot := vols.sum
  let ws : List Rat := match weights with
    | none => vols.map fun v => v / tot
    | some w => (w.zip vols).map fun p => p.1 * p.2
  (verts.zip ws).map fun p => mkTet p.1.1 p.1.2.1 p.1.2.2.1 p.1.2.2.2 V3.zero p.2 0 0

def h : Rat := 1 / 2
/-- the five default tetrahedra (unit cube shifted by −1/2) -/
def fiveVerts : List (V3 × V3 × V3 × V3) :=
  let s : V3 := ⟨h, h, h⟩
  let m (a b c : Rat) : V3 := (V3.mk a b c).sub s
  [ (m 0 0 0, m 1 0 0, m 0 1 0, m 0 0 1),
    (m 1 0 1, m 0 0 1, m 1 0 0, m 1 1 1),
    (m 1 1 0, m 1 0 0, m 0 1 0, m 1 1 1),
    (m 0 1 1, m 0 0 1, m 0 1 0, m 1 1 1),
    (m 0 0 1, m 0 1 0, m 1 0 0, m 1 1 1) ]

/-- `p` is a convex combination of the four vertices with weights `≥ 0` (closed) / `> 0` (interior) -/
def inTetClosed (q : V3 × V3 × V3 × V3) (p : V3) : Prop :=
  ∃ a b c d : Rat, 0 ≤ a ∧ 0 ≤ b ∧ 0 ≤ c ∧ 0 ≤ d ∧ a + b + c + d = 1 ∧
    p.x = a * q.1.x + b * q.2.1.x + c * q.2.2.1.x + d * q.2.2.2.x ∧
    p.y = a * q.1.y + b * q.2.1.y + c * q.2.2.1.y + d * q.2.2.2.y ∧
    p.z = a * q.1.z + b * q.2.1.z + c * q.2.2.1.z + d * q.2.2.2.z
def inTetOpen (q : V3 × V3 × V3 × V3) (p : V3) : Prop :=
  ∃ a b c d : Rat, 0 < a ∧ 0 < b ∧ 0 < c ∧ 0 < d ∧ a + b + c + d = 1 ∧
    p.x = a * q.1.x + b * q.2.1.x + c * q.2.2.1.x + d * q.2.2.2.x ∧
    p.y = a * q.1.y + b * q.2.1.y + c * q.2.2.1.y + d * q.2.2.2.y ∧
    p.z = a * q.1.z + b * q.2.1.z + c * q.2.2.1.z + d * q.2.2.2.z

/-! ### executable check of the GROUP hypotheses (identity, inverses, products) on the list of operations -/

def Sym.isgn (s : Sym) : Int := (if s.tr then -1 else 1) * (if s.inv then -1 else 1)

/-- the operation "first `s`, then `t`" on reduced row vectors: signed matrix product, flags cleared -/
def Sym.comp (s t : Sym) : Sym :=
  let a := s.isgn
  let b := t.isgn
  { m11 := (s.m11 * t.m11 + s.m12 * t.m21 + s.m13 * t.m31) * (a * b),
    m12 := (s.m11 * t.m12 + s.m12 * t.m22 + s.m13 * t.m32) * (a * b),
    m13 := (s.m11 * t.m13 + s.m12 * t.m23 + s.m13 * t.m33) * (a * b),
    m21 := (s.m21 * t.m11 + s.m22 * t.m21 + s.m23 * t.m31) * (a * b),
    m22 := (s.m21 * t.m12 + s.m22 * t.m22 + s.m23 * t.m32) * (a * b),
    m23 := (s.m21 * t.m13 + s.m22 * t.m23 + s.m23 * t.m33) * (a * b),
    m31 := (s.m31 * t.m11 + s.m32 * t.m21 + s.m33 * t.m31) * (a * b),
    m32 := (s.m31 * t.m12 + s.m32 * t.m22 + s.m33 * t.m32) * (a * b),
    m33 := (s.m31 * t.m13 + s.m32 * t.m23 + s.m33 * t.m33) * (a * b),
    inv := false, tr := false }

def idSym : Sym := ⟨1, 0, 0, 0, 1, 0, 0, 0, 1, false, false⟩

/-- the two operations act in the same way on reduced vectors (same signed matrix) -/
def Sym.sameAct (u v : Sym) : Bool :=
  u.m11 * u.isgn == v.m11 * v.isgn && u.m12 * u.isgn == v.m12 * v.isgn && u.m13 * u.isgn == v.m13 * v.isgn &&
  u.m21 * u.isgn == v.m21 * v.isgn && u.m22 * u.isgn == v.m22 * v.isgn && u.m23 * u.isgn == v.m23 * v.isgn &&
  u.m31 * u.isgn == v.m31 * v.isgn && u.m32 * u.isgn == v.m32 * v.isgn && u.m33 * u.isgn == v.m33 * v.isgn

/-- the list contains the identity, an inverse of every element and the product of any two elements (as actions) -/
def groupCheck (syms : List Sym) : Bool :=
  syms.any (fun e => e.sameAct idSym) &&
  syms.all (fun s => syms.any fun t => (s.comp t).sameAct idSym) &&
  syms.all (fun s => syms.all fun t => syms.any fun u => u.sameAct (s.comp t))

/-! ### symmetric grids -/

/-- `PointGroup.symmetric_grid(nk)`: every symmetry maps the lattice `b_i / nk_i` to itself, i.e. in reduced
    coordinates `M_ij * nk_j / nk_i` is an integer for all i, j (the sign from inversion / time reversal is irrelevant) -/
def symmetricGrid (syms : List Sym) (n : Idx) : Bool :=
  syms.all fun s =>
    decide ((s.m11 * n.1) % (n.1 : Int) = 0) && decide ((s.m12 * n.2.1) % (n.1 : Int) = 0) &&
    decide ((s.m13 * n.2.2) % (n.1 : Int) = 0) &&
    decide ((s.m21 * n.1) % (n.2.1 : Int) = 0) && decide ((s.m22 * n.2.1) % (n.2.1 : Int) = 0) &&
    decide ((s.m23 * n.2.2) % (n.2.1 : Int) = 0) &&
    decide ((s.m31 * n.1) % (n.2.2 : Int) = 0) && decide ((s.m32 * n.2.1) % (n.2.2 : Int) = 0) &&
    decide ((s.m33 * n.2.2) % (n.2.2 : Int) = 0)

/-! ### executable check of the group hypotheses of the orbit theorem (used on the code's own point groups) -/

def inRangeB (div p : Idx) : Bool := decide (p.1 < div.1) && decide (p.2.1 < div.2.1) && decide (p.2.2 < div.2.2)

def nodupB : List Idx → Bool
  | [] => true
  | x :: l => !l.contains x && nodupB l

/-- on the grid `div` the relation `q ∈ S p` is reflexive, symmetric, transitive, stays on the grid, and `S p` has
    no repetitions -/
def orbitCheck (div : Idx) (S : Idx → List Idx) : Bool :=
  (flatOrder div).all fun p =>
    (S p).all (inRangeB div) && (S p).contains p && nodupB (S p) &&
    (S p).all (fun q => (S q).contains p && (S q).all (fun r => (S p).contains r))

/-! ### totals (the quantities the theorems talk about) -/

def totalW (l : List KPoint) : Rat := (l.map KPoint.factor).sum
def gridTotal (g : GridState) : Rat := (g.map fun e => e.2.getD 0).sum
def liveSum (s : ExState) : Rat := (s.map fun e => if e.2 then 0 else e.1.factor).sum
def tetTotalW (l : List Tet) : Rat := (l.map Tet.factor).sum
def tetTotalVol (l : List Tet) : Rat := (l.map Tet.volume).sum

/-! ### driver -/
open WB.IO

def parseSym? (l : List Int) : Option Sym :=
  match l with
  | [a, b, c, d, e, f, g, h, i, inv, tr] => some ⟨a, b, c, d, e, f, g, h, i, inv != 0, tr != 0⟩
  | _ => none
def parseSyms? (s : String) : Option (List Sym) := (parseIntss? s).bind (fun ll => ll.mapM parseSym?)

def parseIdx? (s : String) : Option Idx :=
  match parseNats? s with
  | some [a, b, c] => some (a, b, c)
  | _ => none
def parseB3? (s : String) : Option (Bool × Bool × Bool) :=
  match parseNats? s with
  | some [a, b, c] => some (a != 0, b != 0, c != 0)
  | _ => none
def parseV3? (s : String) : Option V3 :=
  match parseRats? s with
  | some [a, b, c] => some ⟨a, b, c⟩
  | _ => none

/-- a K-point is `Kx,Ky,Kz,dKx,dKy,dKz,factor,level` -/
def parseKP? (l : List Rat) : Option KPoint :=
  match l with
  | [a, b, c, d, e, f, w, lev] => some { K := ⟨a, b, c⟩, dK := ⟨d, e, f⟩, factor := w, level := lev.num.toNat }
  | _ => none
def parseKPs? (s : String) : Option (List KPoint) := (parseRatss? s).bind (fun ll => ll.mapM parseKP?)

def showKP (k : KPoint) : String :=
  showRats [k.K.x, k.K.y, k.K.z, k.dK.x, k.dK.y, k.dK.z, k.factor, (k.level : Rat)]
def showKPs (l : List KPoint) : String := showListWith showKP ";" l
def showV3s (l : List V3) : String := showListWith (fun v => showRats [v.x, v.y, v.z]) ";" l

/-- an op is `n0,n1,n2,sel...` -/
def parseOp? (l : List Nat) : Option (Idx × List Nat) :=
  match l with
  | a :: b :: c :: sel => some ((a, b, c), sel)
  | _ => none
def parseOps? (s : String) : Option (List (Idx × List Nat)) := (parseNatss? s).bind (fun ll => ll.mapM parseOp?)

/-- the K-list after every prefix of the history -/
def historyStates (syms : List Sym) (useSym : Bool) (periodic : Bool × Bool × Bool) :
    List KPoint → List (Idx × List Nat) → List (List KPoint)
  | l, [] => [l]
  | l, op :: ops => l :: historyStates syms useSym periodic (refineStep syms useSym periodic l op) ops

/-- a tetrahedron is `Kx,Ky,Kz, v0(3), v1(3), v2(3), v3(3), factor, level, split` (18 numbers) -/
def parseTet? (l : List Rat) : Option Tet :=
  match l with
  | [kx, ky, kz, a1, a2, a3, b1, b2, b3, c1, c2, c3, d1, d2, d3, w, lev, spl] =>
    some { K := ⟨kx, ky, kz⟩, v0 := ⟨a1, a2, a3⟩, v1 := ⟨b1, b2, b3⟩, v2 := ⟨c1, c2, c3⟩, v3 := ⟨d1, d2, d3⟩,
           factor := w, level := lev.num.toNat, split := spl.num.toNat }
  | _ => none
def parseTets? (s : String) : Option (List Tet) := (parseRatss? s).bind (fun ll => ll.mapM parseTet?)
def showTet (t : Tet) : String :=
  showRats [t.K.x, t.K.y, t.K.z, t.v0.x, t.v0.y, t.v0.z, t.v1.x, t.v1.y, t.v1.z, t.v2.x, t.v2.y, t.v2.z,
            t.v3.x, t.v3.y, t.v3.z, t.factor, (t.level : Rat), (t.split : Rat)]
def showTets (l : List Tet) : String := showListWith showTet ";" l

def parseVerts? (l : List Rat) : Option (V3 × V3 × V3 × V3) :=
  match l with
  | [a1, a2, a3, b1, b2, b3, c1, c2, c3, d1, d2, d3] => some (⟨a1, a2, a3⟩, ⟨b1, b2, b3⟩, ⟨c1, c2, c3⟩, ⟨d1, d2, d3⟩)
  | _ => none
def parseGram? (s : String) : Option Gram :=
  match parseRats? s with
  | some [a, b, c, d, e, f] => some ⟨a, b, c, d, e, f⟩
  | _ => none

def handle : List String → String
  | ["star", syms, k] =>
    match parseSyms? syms, parseV3? k with
    | some s, some k => showV3s (star s k)
    | _, _ => "bad-op"
  | ["equiv", syms, a, b] =>
    match parseSyms? syms, parseKPs? a, parseKPs? b with
    | some s, some [a], some [b] => showBool (equivK s a b)
    | _, _, _ => "bad-op"
  | ["grouphyp", syms, div] =>
    match parseSyms? syms, parseIdx? div with
    | some s, some d => showBool (groupCheck s && symmetricGrid s d)
    | _, _ => "bad-op"
  | ["orbithyp", syms, div] =>
    match parseSyms? syms, parseIdx? div with
    | some s, some d => showBool (orbitCheck d (starIdx s d))
    | _, _ => "bad-op"
  | ["staridx", syms, div, p] =>
    match parseSyms? syms, parseIdx? div, parseIdx? p with
    | some s, some d, some p => showListWith (fun q : Idx => showNats [q.1, q.2.1, q.2.2]) ";" (starIdx s d p)
    | _, _, _ => "bad-op"
  | ["klist", syms, div, us] =>
    match parseSyms? syms, parseIdx? div, parseBool? us with
    | some s, some d, some u => showKPs (getKList s d u)
    | _, _, _ => "bad-op"
  | ["divide", syms, us, per, kp, ndiv] =>
    match parseSyms? syms, parseBool? us, parseB3? per, parseKPs? kp, parseIdx? ndiv with
    | some s, some u, some p, some [k], some n => showKPs (divide s u p k n)
    | _, _, _, _, _ => "bad-op"
  | ["excl", syms, kl, np] =>
    match parseSyms? syms, parseKPs? kl, parseNat? np with
    | some s, some l, some n => showKPs (excludeEquiv s l n)
    | _, _, _ => "bad-op"
  | ["hist", syms, div, us, per, ops] =>
    match parseSyms? syms, parseIdx? div, parseBool? us, parseB3? per, parseOps? ops with
    | some s, some d, some u, some p, some o =>
      "|".intercalate ((historyStates s u p (getKList s d u) o).map showKPs)
    | _, _, _, _, _ => "bad-op"
  | ["tinit", verts, ws] =>
    match (parseRatss? verts).bind (fun ll => ll.mapM parseVerts?), parseRats? ws with
    | some v, some w => showTets (initTets v (if w.isEmpty then none else some w))
    | _, _ => "bad-op"
  | ["tfive"] => showTets (initTets fiveVerts none)
  | ["tdivide", gram, tet, ndiv, refine] =>
    match parseGram? gram, parseTets? tet, parseNat? ndiv, parseBool? refine with
    | some g, some [t], some n, some r => showTets (divideTet t (t.iMaxEdge g) n r)
    | _, _, _, _ => "bad-op"
  | ["tsplitvol", gram, tets, vmax, fuel] =>
    match parseGram? gram, parseTets? tets, parseRat? vmax, parseNat? fuel with
    | some g, some l, some v, some f => showTets (splitVolume g v f l)
    | _, _, _, _ => "bad-op"
  | ["tsplitsize", gram, tets, dk2, fuel] =>
    match parseGram? gram, parseTets? tets, parseRat? dk2, parseNat? fuel with
    | some g, some l, some v, some f => showTets (splitSize g v f l)
    | _, _, _, _ => "bad-op"
  | ["tvol", tets] =>
    match parseTets? tets with
    | some l => showRats (l.map Tet.volume)
    | _ => "bad-op"
  | _ => "bad-op"

end WB.C06
