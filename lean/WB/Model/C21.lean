/-
  C21 — orbital rotation matrices form an orthogonal representation.   Core Lean only.

  Models of
    wannierberri/symmetry/orbitals.py : Orbitals.rot_orb_basis (shells s, p, d: substitute (x',y',z') = S·(x,y,z) with
                                        S = inv(rot_glb) into every orbital, expand, read off monomial coefficients,
                                        recombine), Orbitals.rot_orb (hybrids: M · blockdiag(shells) · Mᵀ)
    wannierberri/symmetry/Dwann.py    : Dwann.get_on_points (block (atommap[ip], ip) = phase[ip] · rot_orb[ip])
  The scalar field `K` contains `r3 = √3` (a parameter with `r3·r3 = 3`); the driver uses ℚ(√3).
-/
import WB.Model.IO
namespace WB.C21

abbrev V3 (K : Type) := Fin 3 → K
abbrev M3 (K : Type) := Fin 3 → Fin 3 → K

def sum3 {K} [Add K] (f : Fin 3 → K) : K := f 0 + f 1 + f 2

/-- `(x', y', z') = S · (x, y, z)` -/
def mulVec3 {K} [Add K] [Mul K] (S : M3 K) (v : V3 K) : V3 K := fun a => sum3 (fun b => S a b * v b)

def mulM3 {K} [Add K] [Mul K] (A B : M3 K) : M3 K := fun a c => sum3 (fun b => A a b * B b c)

def transpose3 {K} (S : M3 K) : M3 K := fun a b => S b a

def one3 {K} [OfNat K 0] [OfNat K 1] : M3 K := fun a b => if a = b then 1 else 0

/-! ### p shell:  orbitals in the order `pz, px, py`, monomials `OC = [z, x, y]` -/

/-- shell position → Cartesian index (x=0, y=1, z=2) -/
def pIdx (i : Fin 3) : Fin 3 :=
  match i.val with
  | 0 => 2
  | 1 => 0
  | _ => 1

/-- the p orbitals as functions -/
def pFun {K} (i : Fin 3) (v : V3 K) : K := v (pIdx i)

/-- `orb_rot_mat[j, i]` = coefficient of the monomial `OC[j]` in `p_i(S·r)` = `S[pIdx i, pIdx j]` -/
def rotP {K} (S : M3 K) : Fin 3 → Fin 3 → K := fun j i => S (pIdx i) (pIdx j)

/-! ### d shell:  `dz2, dxz, dyz, dx2-y2, dxy`, monomials `OC = [z², xz, yz, x², xy, y²]` -/

/-- a homogeneous quadratic polynomial `Σ_{a,c} q a c · v_a v_c` (full coefficient array, not symmetrised) -/
abbrev Quad (K : Type) := Fin 3 → Fin 3 → K

def evalQuad {K} [Add K] [Mul K] (q : Quad K) (v : V3 K) : K := sum3 (fun a => sum3 (fun c => q a c * v a * v c))

/-- the d orbitals as coefficient arrays; `r3 = √3`:
    dz2 = (2z²−x²−y²)/(2√3), dxz = xz, dyz = yz, dx2-y2 = (x²−y²)/2, dxy = xy -/
def dQuad {K} [OfNat K 0] [OfNat K 1] [OfNat K 2] [Neg K] [Mul K] [Div K] (r3 : K) (i : Fin 5) : Quad K := fun a c =>
  match i.val, a.val, c.val with
  | 0, 2, 2 => 2 / (2 * r3)
  | 0, 0, 0 => -(1 / (2 * r3))
  | 0, 1, 1 => -(1 / (2 * r3))
  | 1, 0, 2 => 1
  | 2, 1, 2 => 1
  | 3, 0, 0 => 1 / 2
  | 3, 1, 1 => -(1 / 2)
  | 4, 0, 1 => 1
  | _, _, _ => 0

def dFun {K} [OfNat K 0] [OfNat K 1] [OfNat K 2] [Neg K] [Add K] [Mul K] [Div K] (r3 : K) (i : Fin 5) (v : V3 K) : K :=
  evalQuad (dQuad r3 i) v

/-- substitute `v = S·r` into a quadratic polynomial: coefficient array of the result in `r` -/
def substQuad {K} [Add K] [Mul K] (q : Quad K) (S : M3 K) : Quad K :=
  fun b d => sum3 (fun a => sum3 (fun c => q a c * S a b * S c d))

/-- coefficient of the monomial `r_b r_d` after expansion (`sympy.expand` + `subs`) -/
def monoCoeff {K} [Add K] (q : Quad K) (b d : Fin 3) : K := if b = d then q b b else q b d + q d b

/-- `rot_orb_basis('d', rot_glb)` with `S = inv(rot_glb)`:
      orb_rot_mat[0,i] = (2 c_zz − c_xx − c_yy)/√3 ;  [1,i] = c_xz ;  [2,i] = c_yz ;  [3,i] = c_xx − c_yy ;  [4,i] = c_xy -/
def rotD {K} [OfNat K 0] [OfNat K 1] [OfNat K 2] [Neg K] [Add K] [Sub K] [Mul K] [Div K] (r3 : K) (S : M3 K) :
    Fin 5 → Fin 5 → K := fun j i =>
  let c := monoCoeff (substQuad (dQuad r3 i) S)
  match j.val with
  | 0 => (2 * c 2 2 - c 0 0 - c 1 1) / r3
  | 1 => c 0 2
  | 2 => c 1 2
  | 3 => c 0 0 - c 1 1
  | _ => c 0 1


/-! ### f shell:  `fz3, fxz2, fyz2, fzx2-zy2, fxyz, fx3-3xy2, f3yx2-y3`,
    monomials used by the code `OC[0..6] = [z³, xz², yz², zx², xyz, x³, y³]`

    The orbitals are integer-coefficient cubics divided by normalisation constants:
      fz3 = z(2z²−3x²−3y²)/(2√15), fxz2 = x(4z²−x²−y²)/(2√10), fyz2 = y(4z²−x²−y²)/(2√10), fzx2-zy2 = z(x²−y²)/2,
      fxyz = xyz, fx3-3xy2 = x(x²−3y²)/(2√6), f3yx2-y3 = y(3x²−y²)/(2√6);   `r15, r10, r6` = √15, √10, √6. -/

/-- a homogeneous cubic polynomial as a list of monomials `(coefficient, a, c, e)` = `coefficient · v_a v_c v_e` -/
abbrev Cub (K : Type) := List (K × Fin 3 × Fin 3 × Fin 3)

def evalCub {K} [Add K] [Mul K] [OfNat K 0] (q : Cub K) (v : V3 K) : K :=
  q.foldr (fun m acc => m.1 * v m.2.1 * v m.2.2.1 * v m.2.2.2 + acc) 0

/-- substitute `v = S·r` and expand: coefficient array (ordered index triples `b d f`) of the result -/
def substCub {K} [Add K] [Mul K] [OfNat K 0] (q : Cub K) (S : M3 K) (b d f : Fin 3) : K :=
  q.foldr (fun m acc => m.1 * S m.2.1 b * S m.2.2.1 d * S m.2.2.2 f + acc) 0

/-- coefficients of the seven monomials the code reads off after `expand` (sum over the orderings of the indices) -/
def coefZZZ {K} (q : Fin 3 → Fin 3 → Fin 3 → K) : K := q 2 2 2
def coefXZZ {K} [Add K] (q : Fin 3 → Fin 3 → Fin 3 → K) : K := q 0 2 2 + q 2 0 2 + q 2 2 0
def coefYZZ {K} [Add K] (q : Fin 3 → Fin 3 → Fin 3 → K) : K := q 1 2 2 + q 2 1 2 + q 2 2 1
def coefZXX {K} [Add K] (q : Fin 3 → Fin 3 → Fin 3 → K) : K := q 2 0 0 + q 0 2 0 + q 0 0 2
def coefXYZ {K} [Add K] (q : Fin 3 → Fin 3 → Fin 3 → K) : K :=
  q 0 1 2 + q 0 2 1 + q 1 0 2 + q 1 2 0 + q 2 0 1 + q 2 1 0
def coefXXX {K} (q : Fin 3 → Fin 3 → Fin 3 → K) : K := q 0 0 0
def coefYYY {K} (q : Fin 3 → Fin 3 → Fin 3 → K) : K := q 1 1 1

/-- the integer-coefficient cubics `g_i` (numerators of the f orbitals) -/
def gCub {K} [OfNat K 1] [OfNat K 2] [OfNat K 3] [OfNat K 4] [Neg K] (i : Fin 7) : Cub K :=
  match i.val with
  | 0 => [(2, 2, 2, 2), (-3, 2, 0, 0), (-3, 2, 1, 1)]      -- z(2z² − 3x² − 3y²)
  | 1 => [(4, 0, 2, 2), (-1, 0, 0, 0), (-1, 0, 1, 1)]      -- x(4z² − x² − y²)
  | 2 => [(4, 1, 2, 2), (-1, 1, 0, 0), (-1, 1, 1, 1)]      -- y(4z² − x² − y²)
  | 3 => [(1, 2, 0, 0), (-1, 2, 1, 1)]                     -- z(x² − y²)
  | 4 => [(1, 0, 1, 2)]                                    -- xyz
  | 5 => [(1, 0, 0, 0), (-3, 0, 1, 1)]                     -- x(x² − 3y²)
  | _ => [(3, 1, 0, 0), (-1, 1, 1, 1)]                     -- y(3x² − y²)

/-- normalisation constants `n_i`:  `f_i = g_i / n_i` -/
def nF {K} [OfNat K 1] [OfNat K 2] [Mul K] (r15 r10 r6 : K) (i : Fin 7) : K :=
  match i.val with
  | 0 => 2 * r15
  | 1 => 2 * r10
  | 2 => 2 * r10
  | 3 => 2
  | 4 => 1
  | 5 => 2 * r6
  | _ => 2 * r6

def fCub {K} [OfNat K 1] [OfNat K 2] [OfNat K 3] [OfNat K 4] [Neg K] [Mul K] [Div K]
    (r15 r10 r6 : K) (i : Fin 7) : Cub K := (gCub i).map (fun m => (m.1 / nF r15 r10 r6 i, m.2))

def gFun {K} [OfNat K 0] [OfNat K 1] [OfNat K 2] [OfNat K 3] [OfNat K 4] [Neg K] [Add K] [Mul K]
    (i : Fin 7) (v : V3 K) : K := evalCub (gCub i) v

def fFun {K} [OfNat K 0] [OfNat K 1] [OfNat K 2] [OfNat K 3] [OfNat K 4] [Neg K] [Add K] [Mul K] [Div K]
    (r15 r10 r6 : K) (i : Fin 7) (v : V3 K) : K := evalCub (fCub r15 r10 r6 i) v

/-- `rot_orb_basis('f', rot_glb)` with `S = inv(rot_glb)`, `subs[k]` = coefficient of `OC[k]` in `f_i(S·r)`:
      [0,i] = subs0·√15 ; [1,i] = subs1·√10/2 ; [2,i] = subs2·√10/2 ; [3,i] = 2 subs3 + 3 subs0 ; [4,i] = subs4 ;
      [5,i] = (2 subs5 + subs1/2)·√6 ; [6,i] = (−2 subs6 − subs2/2)·√6 -/
def rotF {K} [OfNat K 0] [OfNat K 1] [OfNat K 2] [OfNat K 3] [OfNat K 4] [Neg K] [Add K] [Sub K] [Mul K] [Div K]
    (r15 r10 r6 : K) (S : M3 K) : Fin 7 → Fin 7 → K := fun j i =>
  let q := substCub (fCub r15 r10 r6 i) S
  match j.val with
  | 0 => coefZZZ q * r15
  | 1 => coefXZZ q * r10 / 2
  | 2 => coefYZZ q * r10 / 2
  | 3 => 2 * coefZXX q + 3 * coefZZZ q
  | 4 => coefXYZ q
  | 5 => (2 * coefXXX q + coefXZZ q / 2) * r6
  | _ => (-(2 * coefYYY q) - coefYZZ q / 2) * r6

/-- the same extraction in the rescaled integer basis `g` (rational entries): `rotF j i = n_j · rotG j i / n_i` -/
def rotG {K} [OfNat K 0] [OfNat K 1] [OfNat K 2] [OfNat K 3] [OfNat K 4] [Neg K] [Add K] [Sub K] [Mul K] [Div K]
    (S : M3 K) : Fin 7 → Fin 7 → K := fun j i =>
  let q := substCub (gCub i) S
  match j.val with
  | 0 => coefZZZ q / 2
  | 1 => coefXZZ q / 4
  | 2 => coefYZZ q / 4
  | 3 => coefZXX q + 3 * coefZZZ q / 2
  | 4 => coefXYZ q
  | 5 => coefXXX q + coefXZZ q / 4
  | _ => -(coefYYY q) - coefYZZ q / 4

/-! ### local frames: `read_xzaxis` / `get_perpendicular_coplanar_vector` (before normalisation) -/

def cross3 {K} [Sub K] [Mul K] (u v : V3 K) : V3 K := fun a =>
  match a.val with
  | 0 => u 1 * v 2 - u 2 * v 1
  | 1 => u 2 * v 0 - u 0 * v 2
  | _ => u 0 * v 1 - u 1 * v 0

def dotV {K} [Add K] [Mul K] (u v : V3 K) : K := u 0 * v 0 + u 1 * v 1 + u 2 * v 2

/-- `get_perpendicular_coplanar_vector(a, b)`: `c = cross(a, b); c = cross(c, a)` (the code then divides by the norm;
    it raises when `|cross(a,b)| ≤ 1e-5`) -/
def perpCoplanar {K} [Sub K] [Mul K] (a b : V3 K) : V3 K := cross3 (cross3 a b) a

def ex {K} [OfNat K 0] [OfNat K 1] : V3 K := fun a => match a.val with | 0 => 1 | _ => 0
def ey {K} [OfNat K 0] [OfNat K 1] : V3 K := fun a => match a.val with | 1 => 1 | _ => 0

/-- `read_xzaxis(None, zaxis)`: the x axis of the frame is the part of the Cartesian x perpendicular to z;
    y = cross(z, x) -/
def frameX {K} [Sub K] [Mul K] [OfNat K 0] [OfNat K 1] (z : V3 K) : V3 K := perpCoplanar z ex

/-- the shortcut "z nearly along the Cartesian x: take the Cartesian y as x axis, without orthogonalising"
    (NOT what the code does) -/
def frameXShortcut (z : V3 Rat) : V3 Rat :=
  if dotV (cross3 z ex) (cross3 z ex) < 1 / 10000 then ey else perpCoplanar z ex

/-! ### hybrids and Dwann on index functions -/

def sumRange {K} [Add K] [OfNat K 0] : Nat → (Nat → K) → K
  | 0, _ => 0
  | n + 1, f => sumRange n f + f n

/-- `matrix_hybrid @ rot_orb_loc @ matrix_hybrid.T` (`M : h×b`, `A : b×b`) -/
def hybridRot {K} [Add K] [Mul K] [OfNat K 0] (b : Nat) (M A : Nat → Nat → K) : Nat → Nat → K :=
  fun i j => sumRange b (fun k => sumRange b (fun l => M i k * A k l * M j l))

/-- `Dwann.get_on_points`: block `(atommap[ip], ip)` of size `m` is `phase[ip] · rot[ip]`; every other entry is 0
    (closed form of the loop over ip; equal to the loop when `atommap` is injective) -/
def dwann {K} [Mul K] [OfNat K 0] (m : Nat) (atommap : Nat → Nat) (phase : Nat → K) (rot : Nat → Nat → Nat → K)
    (r c : Nat) : K :=
  if atommap (c / m) = r / m then phase (c / m) * rot (c / m) (r % m) (c % m) else 0

/-! ### ℚ(√3) (driver only) -/

structure QS3 where
  a : Rat
  b : Rat      -- a + b√3
deriving BEq, Repr

namespace QS3
instance : Add QS3 := ⟨fun x y => ⟨x.a + y.a, x.b + y.b⟩⟩
instance : Sub QS3 := ⟨fun x y => ⟨x.a - y.a, x.b - y.b⟩⟩
instance : Neg QS3 := ⟨fun x => ⟨-x.a, -x.b⟩⟩
instance : Mul QS3 := ⟨fun x y => ⟨x.a * y.a + 3 * x.b * y.b, x.a * y.b + x.b * y.a⟩⟩
instance : Div QS3 := ⟨fun x y =>
  let n := y.a * y.a - 3 * y.b * y.b
  let z := x * (⟨y.a, -y.b⟩ : QS3)
  ⟨z.a / n, z.b / n⟩⟩
instance : OfNat QS3 0 := ⟨⟨0, 0⟩⟩
instance : OfNat QS3 1 := ⟨⟨1, 0⟩⟩
instance : OfNat QS3 2 := ⟨⟨2, 0⟩⟩
def ofRat (r : Rat) : QS3 := ⟨r, 0⟩
def sqrt3 : QS3 := ⟨0, 1⟩
end QS3

/-! ### driver -/
open WB.IO

def m3Of (rows : List (List Rat)) : M3 Rat := fun a b => (rows.getD a.val []).getD b.val 0

def fin3 : List (Fin 3) := [0, 1, 2]
def fin5 : List (Fin 5) := [0, 1, 2, 3, 4]
def fin7 : List (Fin 7) := [0, 1, 2, 3, 4, 5, 6]

def showQ (z : QS3) : String := showRat z.a ++ "," ++ showRat z.b

def matOfRows (rows : List (List Rat)) : Nat → Nat → Rat := fun a b => (rows.getD a []).getD b 0

def handle : List String → String
  -- rotp S  → 3×3 (rows j, columns i)
  | ["rotp", s] =>
    match parseRatss? s with
    | some s => showRatss (fin3.map (fun j => fin3.map (fun i => rotP (m3Of s) j i)))
    | none => "bad-op"
  -- rotd S → 5×5 entries `a,b` (= a + b√3) separated by ';', row-major
  | ["rotd", s] =>
    match parseRatss? s with
    | some s =>
      let S : M3 QS3 := fun a b => QS3.ofRat (m3Of s a b)
      ";".intercalate (fin5.flatMap (fun j => fin5.map (fun i => showQ (rotD QS3.sqrt3 S j i))))
    | none => "bad-op"
  -- rotg S → 7×7 rationals (f shell in the rescaled integer basis g; A_ji = n_j·B_ji/n_i)
  | ["rotg", s] =>
    match parseRatss? s with
    | some s => showRatss (fin7.map (fun j => fin7.map (fun i => rotG (m3Of s) j i)))
    | none => "bad-op"
  -- hyb h b M A → h×h
  | ["hyb", h, b, m, a] =>
    match parseNat? h, parseNat? b, parseRatss? m, parseRatss? a with
    | some h, some b, some m, some a =>
      let R := hybridRot b (matOfRows m) (matOfRows a)
      showRatss ((List.range h).map (fun i => (List.range h).map (fun j => R i j)))
    | _, _, _, _ => "bad-op"
  -- dwann npoints m atommap phase_re phase_im rot(rows = points, flattened m*m) → re-matrix and im-matrix
  | ["dwann", np, m, am, pr, pi, rot] =>
    match parseNat? np, parseNat? m, parseNats? am, parseRats? pr, parseRats? pi, parseRatss? rot with
    | some np, some m, some am, some pr, some pi, some rot =>
      let atm : Nat → Nat := fun i => am.getD i 0
      let R : Nat → Nat → Nat → Rat := fun ip a b => (rot.getD ip []).getD (a * m + b) 0
      let n := np * m
      -- real and imaginary part separately (rot is real)
      let Dre := dwann m atm (fun i => pr.getD i 0) R
      let Dim := dwann m atm (fun i => pi.getD i 0) R
      showRatss ((List.range n).map (fun r => (List.range n).map (fun c => Dre r c))) ++ " " ++
      showRatss ((List.range n).map (fun r => (List.range n).map (fun c => Dim r c)))
    | _, _, _, _, _, _ => "bad-op"
  | _ => "bad-op"

end WB.C21
