/-
  C02 — all Fourier back ends give the same k-space matrices.   Core Lean only.

  Models of
    wannierberri/fourier/fft.py      : FFT_R_to_k.__init__ (`iRvec % NKFFT`), __call__ (fft branch: `AAA_K[iRvec] += AAA_R`,
                                       slow branch: `exponent[i][(k_i R_i) % N_i]`, slow_path branch: explicit k list),
                                       hermitian option
    wannierberri/fourier/rvectors.py : apply_expdK, cRvec_shifted, derivative, R_to_k
  One matrix element (a,b) and one Cartesian component tuple at a time: an "entry" is a pair (R, X_ab(R)).
  Scalars are an arbitrary type `K` (executed at Gaussian rationals for FFT boxes whose sizes divide 4).
-/
import WB.Model.C01
namespace WB.C02
open WB.C01 (Vec3 QVec3 Mesh vmod gridPoints sumK GRat)

section scalars
variable {K : Type} [Add K] [Mul K] [OfNat K 0] [OfNat K 1]

/-- fft branch of `FFT_R_to_k.__call__`: `for ir, irvec in enumerate(iRvec % NKFFT): AAA_K[irvec] += AAA_R[ir]`
    (different R that coincide modulo the box are added up — this happens when NKFFT is smaller than recommended) -/
def placeOnBox (N : Mesh) (entries : List (Vec3 × K)) (c : Vec3) : K :=
  sumK ((entries.filter fun e => vmod e.1 N = c).map (·.2))

/-- the explicit sum `Σ_R χ(R) X(R)` (this is literally what the `slow_path` branch computes with
    `χ = exp(2πi k·R)` for every k of the list, `R` NOT reduced) -/
def explicitSum (χ : Vec3 → K) (entries : List (Vec3 × K)) : K :=
  sumK (entries.map fun e => χ e.1 * e.2)

/-- `Rvectors.apply_expdK`: `XX_R * expdK` -/
def applyExpdK (χd : Vec3 → K) (entries : List (Vec3 × K)) : List (Vec3 × K) :=
  entries.map fun e => (e.1, e.2 * χd e.1)

/-- fft branch of `FFT_R_to_k.__call__` on data that already carry their phases -/
def fftCore (Finv : (Vec3 → K) → Vec3 → K) (N : Mesh) (entries : List (Vec3 × K)) (m : Vec3) : K :=
  Finv (placeOnBox N entries) m

/-- fft branch: place on the box, inverse transform times `prod(NKFFT)` (= parameter `Finv`), value at box point `m` -/
def fftPath (Finv : (Vec3 → K) → Vec3 → K) (N : Mesh) (χd : Vec3 → K) (entries : List (Vec3 × K)) (m : Vec3) : K :=
  fftCore Finv N (applyExpdK χd entries) m

def npow (z : K) : Nat → K
  | 0 => 1
  | n + 1 => npow z n * z

/-- `exponent[i][(k_i * R_i) % N_i]` with `exponent[i][j] = ζ_i^j` -/
def slowPhase (ζ : K) (N : Nat) (k R : Int) : K := npow ζ ((k * R) % (N : Int)).toNat

/-- slow branch of `FFT_R_to_k.__call__` on data that already carry their phases:
    `sum(prod_i exponent[i][(k_i R_i) % N_i] * A for R, A in zip(iRvec % NKFFT, AAA_R))` -/
def slowCore (ζ : K × K × K) (N : Mesh) (entries : List (Vec3 × K)) (m : Vec3) : K :=
  sumK (entries.map fun e =>
    let R := vmod e.1 N
    (slowPhase ζ.1 N.1 m.1 R.1 * slowPhase ζ.2.1 N.2.1 m.2.1 R.2.1 * slowPhase ζ.2.2 N.2.2 m.2.2 R.2.2) * e.2)

/-- slow branch after `apply_expdK` -/
def slowPath (ζ : K × K × K) (N : Mesh) (χd : Vec3 → K) (entries : List (Vec3 × K)) (m : Vec3) : K :=
  slowCore ζ N (applyExpdK χd entries) m

/-- `Rvectors.derivative`: `1j * XX_R * cRvec_shifted[..., α]` for one element and one component -/
def derivStep (I : K) (v : K) (x : K) : K := I * x * v

/-- `R_to_k(der=n)`: `for i in range(der): XX_R = self.derivative(XX_R)` — components `vs = [v_α1, …, v_αn]` -/
def derivN (I : K) (vs : List K) (x : K) : K := vs.foldl (fun acc v => derivStep I v acc) x

/-- `0.5 * (A + A.swapaxes.conj())` for one element -/
def hermitize (half : K) (conj : K → K) (A : Nat → Nat → K) (a b : Nat) : K := half * (A a b + conj (A b a))

/-- the `hermitian` / `antihermitean` option of `FFT_R_to_k.__call__` on a k-resolved matrix `H k a b`, for ANY layout of
    the k index (`ι` = flat index, grid triple, k-list position): `0.5 * (A ± A.swapaxes(band axes).conj())` acts on the
    two BAND indices at fixed k  (`sign = 1` hermitian, `sign = -1` anti-hermitian) -/
def hermK {ι : Type} (half : K) (conj : K → K) (sign : K) (H : ι → Nat → Nat → K) (k : ι) (a b : Nat) : K :=
  half * (H k a b + sign * conj (H k b a))

/-- what `swapaxes(1, 2)` does to an array that is still in the grid layout `(N1, N2, N3, m, n)`: it exchanges the
    k2 and k3 GRID axes instead of the band axes (documentation of a defect class, not the code) -/
def hermSwapGrid (half : K) (conj : K → K) (H : Vec3 → Nat → Nat → K) (m : Vec3) (a b : Nat) : K :=
  half * (H m a b + conj (H (m.1, m.2.2, m.2.1) a b))

/-- `Data_K._rotate` for one k-point and one Cartesian component:
    `einsum('kba,kbc...,kcd->kad...', UU.conj(), mat, UU)`, i.e. `(U† X U)_{ad} = Σ_b Σ_c conj(U_ba) X_bc U_cd` -/
def rotate (n : Nat) (conj : K → K) (U X : Nat → Nat → K) (a d : Nat) : K :=
  sumK ((List.range n).map fun b => sumK ((List.range n).map fun c => conj (U b a) * X b c * U c d))

/-! ### the Fourier state of ONE `Rvectors` object over a history of `set_fft_R_to_k` calls -/

inductive Lib where
  | fft    -- 'fftw' and 'numpy': the fft branch
  | slow   -- 'slow': explicit sum on the grid
deriving DecidableEq

/-- argument of one `set_fft_R_to_k` call: a grid `(NK, fftlib, dK)` or an explicit list of k-points (their characters) -/
inductive Cfg (K : Type) where
  | grid (N : Mesh) (lib : Lib) (χd : Vec3 → K)
  | klist (χs : List (Vec3 → K))

inductive Mode (K : Type) where
  | unset
  | grid (N : Mesh) (lib : Lib)
  | klist (χs : List (Vec3 → K))

/-- `self.expdK` and `self.fft_R_to_k` -/
structure FFTState (K : Type) where
  expdK : Vec3 → K
  mode : Mode K

def FFTState.init : FFTState K := ⟨fun _ => 1, .unset⟩

/-- `set_fft_R_to_k`: the grid branch stores `expdK` AND the transform; the k-list branch replaces only the transform
    (`self.expdK` keeps its old value, which `apply_expdK` then ignores) -/
def setFFT (s : FFTState K) : Cfg K → FFTState K
  | .grid N lib χd => ⟨χd, .grid N lib⟩
  | .klist χs => ⟨s.expdK, .klist χs⟩

/-- `R_to_k(apply_expdK(XX_R))` with whatever is currently set: the values at all k-points of the current configuration -/
def rToK (Finv : Mesh → (Vec3 → K) → Vec3 → K) (ζ : Mesh → K × K × K) (s : FFTState K)
    (entries : List (Vec3 × K)) : List K :=
  match s.mode with
  | .unset => []
  | .grid N lib =>
    let e := applyExpdK s.expdK entries
    match lib with
    | .fft => (gridPoints N).map (fftCore (Finv N) N e)
    | .slow => (gridPoints N).map (slowCore (ζ N) N e)
  | .klist χs => χs.map fun χ => explicitSum χ entries

/-- the state after a history of calls -/
def runCfgs (cfgs : List (Cfg K)) : FFTState K := cfgs.foldl setFFT FFTState.init

/-- what the CURRENT configuration alone prescribes -/
def rToKcfg (Finv : Mesh → (Vec3 → K) → Vec3 → K) (ζ : Mesh → K × K × K) (c : Cfg K)
    (entries : List (Vec3 × K)) : List K :=
  match c with
  | .grid N .fft χd => (gridPoints N).map (fftPath (Finv N) N χd entries)
  | .grid N .slow χd => (gridPoints N).map (slowPath (ζ N) N χd entries)
  | .klist χs => χs.map fun χ => explicitSum χ entries

end scalars

/-- `cRvec_shifted[R,a,b,α] = (R·L)_α + (−t_a·L + t_b·L)_α` for a lattice `L` with rows = lattice vectors -/
def cartComp (L : List (List Rat)) (v : QVec3) (α : Nat) : Rat :=
  v.1 * (L.getD 0 []).getD α 0 + v.2.1 * (L.getD 1 []).getD α 0 + v.2.2 * (L.getD 2 []).getD α 0

def cRshift (L : List (List Rat)) (cs : List QVec3) (R : Vec3) (a b : Nat) (α : Nat) : Rat :=
  let ta := cs.getD a (0, 0, 0)
  let tb := cs.getD b (0, 0, 0)
  cartComp L ((R.1 : Rat), (R.2.1 : Rat), (R.2.2 : Rat)) α + (-(cartComp L ta α) + cartComp L tb α)

/-! ### driver (Gaussian rationals, box sizes dividing 4, dK a multiple of 1/4) -/
open WB.IO WB.C01

def ofRat (r : Rat) : GRat := ⟨r, 0⟩

/-- `exp(2πi R·dK)` for `dK = q/4` (component-wise integers `q`) -/
def quarterChar (q : Vec3) (R : Vec3) : GRat :=
  GRat.npow GRat.I (((q.1 * R.1 + q.2.1 * R.2.1 + q.2.2 * R.2.2) % 4).toNat)

/-- inverse DFT times `prod(N)` on the box: `Σ_c e^{+2πi m·c/N} B(c)` -/
def idftBox (N : Mesh) (B : Vec3 → GRat) (m : Vec3) : GRat :=
  sumK ((gridPoints N).map fun c => gchar false N m c * B c)

def handle : List String → String
  -- reduced R vectors and box contents: "slots | box contents over the box points (k fastest)"
  | ["box", n, rs, xs] =>
    match (parseNats? n).bind toMesh?, (parseIntss? rs).bind (·.mapM toVec3?), parseGRats? xs with
    | some N, some R, some X =>
      let entries := R.zip X
      showListWith showVec3 ";" (R.map fun r => vmod r N) ++ " | "
        ++ showListWith showGRat ";" ((gridPoints N).map (placeOnBox N entries))
    | _, _, _ => "bad-op"
  -- cRvec_shifted components
  | ["crs", l, cs, rs, a, b] =>
    match parseRatss? l, (parseRatss? cs).bind (·.mapM toQVec3?), (parseIntss? rs).bind (·.mapM toVec3?), parseNat? a, parseNat? b with
    | some L, some c, some R, some a, some b =>
      showListWith (fun r => showRats [cRshift L c r a b 0, cRshift L c r a b 1, cRshift L c r a b 2]) ";" R
    | _, _, _, _, _ => "bad-op"
  -- R_to_k(der = |alphas|) of element (a,b), components alphas, at every box point:
  --   "fft path | slow path | explicit sum with the character of k = m/N + dK"
  | ["rtok", l, cs, n, dk, rs, a, b, al, xs] =>
    match parseRatss? l, (parseRatss? cs).bind (·.mapM toQVec3?), (parseNats? n).bind toMesh?, (parseInts? dk).bind toVec3?,
        (parseIntss? rs).bind (·.mapM toVec3?), parseNat? a, parseNat? b, parseNats? al, parseGRats? xs with
    | some L, some c, some N, some q, some R, some a, some b, some al, some X =>
      let entries : List (Vec3 × GRat) := (R.zip X).map fun e =>
        (e.1, derivN GRat.I (al.map fun α => ofRat (cRshift L c e.1 a b α)) e.2)
      let χd := quarterChar q
      let z : GRat × GRat × GRat := (zeta N.1, zeta N.2.1, zeta N.2.2)
      let pts := gridPoints N
      showListWith showGRat ";" (pts.map (fftPath (idftBox N) N χd entries)) ++ " | "
        ++ showListWith showGRat ";" (pts.map (slowPath z N χd entries)) ++ " | "
        ++ showListWith showGRat ";" (pts.map fun m => explicitSum (fun r => gchar false N m r * χd r) entries)
    | _, _, _, _, _, _, _, _, _ => "bad-op"
  -- FFT_R_to_k.__call__(X, hermitian / antihermitean) of the element (a,b) at every grid point (dK = 0):
  --   flag 0 none, 1 hermitian, 2 antihermitean ; entries of X_ab and of X_ba over the same R list
  | ["callopt", n, flag, rs, xab, xba] =>
    match (parseNats? n).bind toMesh?, parseNat? flag, (parseIntss? rs).bind (·.mapM toVec3?), parseGRats? xab, parseGRats? xba with
    | some N, some fl, some R, some A, some B =>
      let H : Vec3 → Nat → Nat → GRat := fun m a b =>
        fftCore (idftBox N) N (R.zip (if a = 0 ∧ b = 1 then A else B)) m
      let half : GRat := ⟨1 / 2, 0⟩
      showListWith showGRat ";" ((gridPoints N).map fun m =>
        if fl = 0 then H m 0 1 else hermK half GRat.conj (if fl = 1 then 1 else ⟨-1, 0⟩) H m 0 1)
    | _, _, _, _, _ => "bad-op"
  -- Data_K._rotate: n, U (n x n row-major), X (n x n row-major)  ->  U^dagger X U (row-major)
  | ["rotate", n, us, xs] =>
    match parseNat? n, parseGRats? us, parseGRats? xs with
    | some n, some U, some X =>
      let Uf : Nat → Nat → GRat := fun i j => U.getD (i * n + j) 0
      let Xf : Nat → Nat → GRat := fun i j => X.getD (i * n + j) 0
      showListWith showGRat ";" ((List.range n).flatMap fun a => (List.range n).map fun d => rotate n GRat.conj Uf Xf a d)
    | _, _, _ => "bad-op"
  -- a history of set_fft_R_to_k calls on ONE object, R_to_k(apply_expdK(X)) after each:
  --   steps separated by '#':  "g:N1,N2,N3:lib:q1,q2,q3" (lib 0 = fft, 1 = slow, dK = q/4)  |  "k:t1,t2,t3;..." (k = t/4)
  | ["seq", steps, rs, xs] =>
    let parseStep := fun (t : String) =>
      match t.splitOn ":" with
      | ["g", n, lib, q] =>
        match (parseNats? n).bind toMesh?, parseNat? lib, (parseInts? q).bind toVec3? with
        | some N, some l, some q => some (Cfg.grid N (if l = 0 then Lib.fft else Lib.slow) (quarterChar q))
        | _, _, _ => none
      | ["k", ks] => ((parseIntss? ks).bind (·.mapM toVec3?)).map fun l => Cfg.klist (l.map quarterChar)
      | _ => none
    match (steps.splitOn "#").mapM parseStep, (parseIntss? rs).bind (·.mapM toVec3?), parseGRats? xs with
    | some cfgs, some R, some X =>
      let entries := R.zip X
      let states := (List.range cfgs.length).map fun i => runCfgs (cfgs.take (i + 1))
      showListWith (fun st => showListWith showGRat ";"
          (rToK (fun N => idftBox N) (fun N => (zeta N.1, zeta N.2.1, zeta N.2.2)) st entries)) "#" states
    | _, _, _ => "bad-op"
  | _ => "bad-op"

end WB.C02
