/-
  C23 — Monkhorst-Pack mesh detection.   Core Lean only.

  Models of
    wannierberri/w90files/utility.py : get_mp_grid, grid_from_kpoints
  A k-point is a triple of rationals (the value `Fraction(k).limit_denominator(100)` the code works with);
  `Fraction.limit_denominator` and the float roundings `np.round(.,8)`, `np.round(.,6)`, `is_round(.,1e-5)` are
  NOT modelled: on a float that is within 5e-9 of a fraction with denominator ≤ 100 they are the identity /
  exact integrality (trusted, exercised by the correspondence run on floats).
-/
import WB.Model.IO
namespace WB.C23

abbrev K3 := Rat × Rat × Rat
abbrev G3 := Nat × Nat × Nat
abbrev I3 := Int × Int × Int

/-- numpy `x % 1` on reals: the fractional part in `[0,1)` -/
def frac (q : Rat) : Rat := q - (q.floor : Rat)

/-- "is an integer" (the code: `np.round(x, 6) % 1 ≈ 0`, `is_round(x, 1e-5)`) -/
def isInt (q : Rat) : Bool := q.den == 1

/-! ### get_mp_grid -/

/-- python `min` of a non-empty list, written as the fold it is -/
def minOf (a : Rat) (l : List Rat) : Rat := l.foldl (fun m x => if x < m then x else m) a

/-- one direction of `get_mp_grid`: drop the zeros of `k % 1`; no non-zero coordinate → 1; otherwise the
    smallest one must have numerator 1 (else the `assert` fires = `none`) and its denominator is the mesh size -/
def detectDir (cs : List Rat) : Option Nat :=
  match (cs.map frac).filter (fun c => c ≠ 0) with
  | [] => some 1
  | a :: l => if (minOf a l).num = 1 then some (minOf a l).den else none

inductive Res where
  | ok (g : G3)
  | numNotOne     -- AssertionError "numerator of the smallest fraction is not 1"
  | offGrid       -- AssertionError "some kpoints are not on the Monkhorst-Pack grid"
  deriving DecidableEq, Repr

/-- the final check of `get_mp_grid`: `(k % 1) * mp_grid` is integer for every k-point -/
def onGridMod1 (g : G3) (k : K3) : Bool :=
  isInt (frac k.1 * g.1) && isInt (frac k.2.1 * g.2.1) && isInt (frac k.2.2 * g.2.2)

def mpGrid (ks : List K3) : Res :=
  match detectDir (ks.map (·.1)), detectDir (ks.map (·.2.1)), detectDir (ks.map (·.2.2)) with
  | some a, some b, some c => if ks.all (onGridMod1 (a, b, c)) then .ok (a, b, c) else .offGrid
  | _, _, _ => .numNotOne

/-! ### grid_from_kpoints -/

/-- `np.lcm.reduce([Fraction(k).limit_denominator(100).denominator for k in kp])` (non-empty `kp`) -/
def lcmDen (cs : List Rat) : Nat := cs.foldl (fun a q => Nat.lcm a q.den) 1

def gridOf (ks : List K3) : G3 :=
  (lcmDen (ks.map (·.1)), lcmDen (ks.map (·.2.1)), lcmDen (ks.map (·.2.2)))

/-- `is_round(k * npgrid, prec=1e-5)` — NO reduction modulo 1 here -/
def onGrid (g : G3) (k : K3) : Bool :=
  isInt (k.1 * g.1) && isInt (k.2.1 * g.2.1) && isInt (k.2.2 * g.2.2)

/-- `np.round(x)` (only ever applied to on-grid points, where it is the integer itself) -/
def roundInt (q : Rat) : Int := (q + 1 / 2).floor

/-- `tuple(np.round(k * npgrid).astype(int))` — NOT reduced modulo the grid -/
def kint (g : G3) (k : K3) : I3 := (roundInt (k.1 * g.1), roundInt (k.2.1 * g.2.1), roundInt (k.2.2 * g.2.2))

/-- the loop `for i, k in enumerate(kpoints)`: `seen` is `kpoints_unique`; the result lists the selected
    `(k, i)` pairs in loop order -/
def selectFrom (g : G3) : List (K3 × Nat) → List I3 → List (K3 × Nat)
  | [], _ => []
  | (k, i) :: rest, seen =>
    if onGrid g k && !(seen.contains (kint g k)) then (k, i) :: selectFrom g rest (kint g k :: seen)
    else selectFrom g rest seen

/-- `selected_kpoints` -/
def select (g : G3) (ks : List K3) : List Nat := (selectFrom g ks.zipIdx []).map (·.2)

inductive SelRes where
  | ok (sel : List Nat)
  | missing       -- ValueError "Some k-points are missing"
  | twice         -- RuntimeError "Some k-points are taken twice - this must be a bug"
  deriving DecidableEq, Repr

def numGrid (g : G3) : Nat := g.1 * g.2.1 * g.2.2

/-- `grid_from_kpoints(kpoints, grid=g)` -/
def selectGrid (g : G3) (ks : List K3) : SelRes :=
  let sel := select g ks
  if sel.length < numGrid g then .missing
  else if sel.length > numGrid g then .twice
  else .ok sel

inductive GridRes where
  | ok (g : G3)
  | missing
  | twice
  deriving DecidableEq, Repr

/-- `grid_from_kpoints(kpoints, grid=None)` -/
def gridFromKpoints (ks : List K3) : GridRes :=
  match selectGrid (gridOf ks) ks with
  | .ok _ => .ok (gridOf ks)
  | .missing => .missing
  | .twice => .twice

/-! ### driver -/
open WB.IO

def toK3s (l : List (List Rat)) : Option (List K3) :=
  l.mapM (fun r => match r with | [a, b, c] => some (a, b, c) | _ => none)

def showG (g : G3) : String := s!"{g.1},{g.2.1},{g.2.2}"

def handle : List String → String
  | ["mp", ks] =>
    match (parseRatss? ks).bind toK3s with
    | some l => match mpGrid l with
      | .ok g => "ok " ++ showG g
      | .numNotOne => "num"
      | .offGrid => "offgrid"
    | none => "bad-op"
  | ["gfk", ks] =>
    match (parseRatss? ks).bind toK3s with
    | some l => match gridFromKpoints l with
      | .ok g => "ok " ++ showG g
      | .missing => "missing"
      | .twice => "twice"
    | none => "bad-op"
  | ["sel", g, ks] =>
    match parseNats? g, (parseRatss? ks).bind toK3s with
    | some [a, b, c], some l => match selectGrid (a, b, c) l with
      | .ok s => "ok " ++ showNats s
      | .missing => "missing"
      | .twice => "twice"
    | _, _ => "bad-op"
  | _ => "bad-op"

end WB.C23
