/-
  Line-protocol helpers shared by all model drivers.  Core Lean only (no Mathlib).

  Conventions:
    * a line is a list of space-separated tokens
    * an integer token is `-12`, a rational token is `p/q` or `p`
    * a flat list token is comma separated: `1,2,3`  (the empty list is `_`)
    * a list of lists is `;` separated lists: `1,2;3,4`  (the empty outer list is `_`)
-/
namespace WB.IO

def parseInt? (s : String) : Option Int := s.toInt?

def parseNat? (s : String) : Option Nat := s.toNat?

def parseRat? (s : String) : Option Rat :=
  match s.splitOn "/" with
  | [p] => (parseInt? p).map (fun n => (n : Rat))
  | [p, q] =>
    match parseInt? p, parseNat? q with
    | some n, some d => if d = 0 then none else some (mkRat n d)
    | _, _ => none
  | _ => none

def parseListWith {α} (f : String → Option α) (sep : String) (s : String) : Option (List α) :=
  if s = "_" then some [] else (s.splitOn sep).mapM f

def parseInts? (s : String) : Option (List Int) := parseListWith parseInt? "," s
def parseNats? (s : String) : Option (List Nat) := parseListWith parseNat? "," s
def parseRats? (s : String) : Option (List Rat) := parseListWith parseRat? "," s
def parseIntss? (s : String) : Option (List (List Int)) := parseListWith parseInts? ";" s
def parseRatss? (s : String) : Option (List (List Rat)) := parseListWith parseRats? ";" s
def parseNatss? (s : String) : Option (List (List Nat)) := parseListWith parseNats? ";" s

def parseBool? (s : String) : Option Bool :=
  if s = "1" || s = "T" || s = "true" then some true
  else if s = "0" || s = "F" || s = "false" then some false
  else none

def showRat (r : Rat) : String :=
  if r.den = 1 then toString r.num else toString r.num ++ "/" ++ toString r.den

def showListWith {α} (f : α → String) (sep : String) (l : List α) : String :=
  if l.isEmpty then "_" else sep.intercalate (l.map f)

def showInts (l : List Int) : String := showListWith toString "," l
def showNats (l : List Nat) : String := showListWith toString "," l
def showRats (l : List Rat) : String := showListWith showRat "," l
def showIntss (l : List (List Int)) : String := showListWith showInts ";" l
def showNatss (l : List (List Nat)) : String := showListWith showNats ";" l
def showRatss (l : List (List Rat)) : String := showListWith showRats ";" l
def showBool (b : Bool) : String := if b then "1" else "0"
def showBools (l : List Bool) : String := showListWith showBool "," l

def tokens (line : String) : List String :=
  (line.trimAscii.toString.splitOn " ").filter (· ≠ "")

end WB.IO
