/-
  C24 — wannierise returns a valid gauge honouring the windows.   Core Lean only.

  Models of
    wannierberri/wannierisation/wannierise.py            : the frozen / selected / free / deselected mask logic
    wannierberri/wannierisation/kpoint_and_neighbours.py : `selected = frozen | free`, the embedding
        `U[frozen, range(nfrozen)] = 1 ; U[free, nfrozen:] = U_opt_free` and
        `rotate_to_projections` (`U[:] = 0 ; U[selected] = U_loc · ZV`)
  `select_window_degen` is the model of C15 (`WB.C15.selectWindow`): frozen window with
  include_degen = False, outer window with include_degen = True.

  External kernels are parameters: `Uf` (the `get_max_eig` / `eigh` output, NBfree × nWfree) and `W`
  (the polar factor coming from `orthogonalize` / `svd`, nW × nW).
-/
import WB.Model.IO
import WB.Model.C15
namespace WB.C24
open WB.C15 (selectWindow)

/-! ### masks (one k-point) -/

/-- `frozen = select_window_degen(E, win_min=froz_min, win_max=froz_max, include_degen=False)` followed by
    `frozen[:, ib] = True` for the explicit `frozen_states` (`extra`, 0-based indices `< n`). -/
def frozenMask (E : Nat → Rat) (th fmin fmax : Rat) (n : Nat) (extra : List Nat) (j : Nat) : Bool :=
  decide (j < n) && (selectWindow E th fmin fmax n false j || extra.contains j)

/-- `selected_bands = select_window_degen(E, win_min=outer_min, win_max=outer_max, include_degen=True)` -/
def outerMask (E : Nat → Rat) (th omin omax : Rat) (n : Nat) (j : Nat) : Bool :=
  decide (j < n) && selectWindow E th omin omax n true j

/-- `free = np.logical_not(frozen)` (restricted to the `n` bands of the array) -/
def free0 (n : Nat) (frozen : Nat → Bool) (j : Nat) : Bool := decide (j < n) && !frozen j

/-- `deselected = np.logical_and(np.logical_not(selected_bands), free)` -/
def deselected (n : Nat) (sel frozen : Nat → Bool) (j : Nat) : Bool := !sel j && free0 n frozen j

/-- `free[deselected] = False` -/
def freeMask (n : Nat) (sel frozen : Nat → Bool) (j : Nat) : Bool :=
  if deselected n sel frozen j then false else free0 n frozen j

/-- `assert np.all(selected_bands[frozen])` -/
def assertOK (n : Nat) (sel frozen : Nat → Bool) : Bool :=
  (List.range n).all (fun j => !frozen j || sel j)

/-- `Kpoint_and_neighbours.selected = frozen | free` -/
def kSelected (frozen free : Nat → Bool) (j : Nat) : Bool := frozen j || free j

/-- `np.where(mask)[0]` -/
def idx (n : Nat) (mask : Nat → Bool) : List Nat := (List.range n).filter mask

/-! ### explicit `frozen_states`

  The mask arrays have one row per IRREDUCIBLE k-point (`kptirr`, global k-point indices; `arange(NK)` without site
  symmetry).  A list applies to every row; a dictionary is keyed by the GLOBAL k-point index:
  `if ik in kptirr: iki = np.where(kptirr == ik)[0][0]; frozen[iki, ib] = True`. -/

inductive FrozenStates where
  | all (bands : List Nat)                       -- `frozen_states = [ib, ...]`
  | perK (entries : List (Nat × List Nat))       -- `frozen_states = {ik: [ib, ...], ...}`, `ik` a global index

/-- the explicitly frozen bands of row `iki` of the mask array -/
def explicitFrozen (fs : FrozenStates) (kptirr : List Nat) (iki : Nat) : List Nat :=
  match fs with
  | .all l => l
  | .perK d =>
    match kptirr[iki]? with
    | some ik => (d.filter (fun e => e.1 == ik)).flatMap (fun e => e.2)
    | none => []

/-! ### the embedding and the returned matrix (any scalar type) -/

section
variable {K : Type} [OfNat K 0] [OfNat K 1]

/-- `U = zeros((nband, num_wann)); U[frozen, range(nfrozen)] = 1; U[free, nfrozen:] = U_opt_free`
    with `fz = np.where(frozen)[0]`, `fr = np.where(free)[0]`:
    column `w < nfrozen` is the unit vector of the `w`-th frozen band; column `nfrozen + g` carries
    column `g` of `U_opt_free`, its `i`-th row going to the `i`-th free band. -/
def embed (fz fr : List Nat) (Uf : Nat → Nat → K) (b w : Nat) : K :=
  if w < fz.length then (if fz[w]? = some b then 1 else 0)
  else if fr.idxOf b < fr.length then Uf (fr.idxOf b) (w - fz.length) else 0

variable [Add K] [Mul K]

/-- finite sum `Σ_{j<n} f j` as the code's matrix product computes it -/
def sumTo (n : Nat) (f : Nat → K) : K := (List.range n).foldl (fun acc j => acc + f j) 0

/-- `rotate_to_projections`: `U[:] = 0 ; U[selected] = U_loc.dot(ZV)` with `U_loc = U[selected]`:
    rows outside `selected` are never written. -/
def finalU (sel : Nat → Bool) (nw : Nat) (Emb : Nat → Nat → K) (W : Nat → Nat → K) (b w : Nat) : K :=
  if sel b then sumTo nw (fun j => Emb b j * W j w) else 0

end

/-! ### one iteration of `Kpoint_and_neighbours.update` (and the initialisation in `__init__`)

  Matrices are functions `Nat → Nat → K` used on index ranges given by the data; `conj` is complex conjugation
  (the identity when the model is executed over `Rat`).  The numerical kernels are parameters:
    eig n nvec Z      `get_max_eig(Z, nvec, n)`   (numpy.linalg.eigh + selection of `nvec` columns)
    polarSq n A       `orthogonalize(A)` for a square `n × n` matrix    (numpy.linalg.svd, U @ VT)
    polarTall nb nw A `orthogonalize(A)` for an `nb × nw` matrix
    inv n A           `numpy.linalg.inv(A)`
  Their contracts are hypotheses of the theorems in `Props/C24.lean`.  Not modelled: the `mix_ratio_u != 1` branch
  (declared untested by the code itself), `symmetrizer_Uirr` / `symmetrizer_Zirr` other than the identity
  (`VoidSymmetrizer`, i.e. `sitesym=False`), the spread / centre bookkeeping (`update_Mmn_opt`). -/

/-- static data of one k-point object -/
structure KData (K : Type) where
  nb : Nat                      -- number of bands
  nw : Nat                      -- num_wann
  nnb : Nat                     -- number of b-vectors
  fz : List Nat                 -- np.where(frozen)[0]
  fr : List Nat                 -- np.where(free)[0]
  fzNb : Nat → List Nat         -- np.where(frozen_nb[ib])[0]
  frNb : Nat → List Nat         -- np.where(free_nb[ib])[0]
  M : Nat → Nat → Nat → K       -- Mmn[ib][m, n]
  wb : Nat → K                  -- weights of the b-vectors
  amn : Nat → Nat → K           -- projections

structure Kernels (K : Type) where
  eig : Nat → Nat → (Nat → Nat → K) → Nat → Nat → K
  polarSq : Nat → (Nat → Nat → K) → Nat → Nat → K
  polarTall : Nat → Nat → (Nat → Nat → K) → Nat → Nat → K
  inv : Nat → (Nat → Nat → K) → Nat → Nat → K

section update
variable {K : Type} [OfNat K 0] [OfNat K 1] [Add K] [Mul K] [Div K]

/-- `A.dot(B)` with inner dimension `n` -/
def matMulFn (n : Nat) (A B : Nat → Nat → K) (i j : Nat) : K := sumTo n (fun l => A i l * B l j)

/-- `self.freefree[ib].dot(U_nb_free[ib])`: rows = free bands here, columns = Wannier functions;
    `freefree[ib] = Mmn[ib][free, :][:, free_nb[ib]]`, `U_nb_free[ib] = U_nb[ib][free_nb[ib]]` -/
def mlocFree (d : KData K) (Unb : Nat → Nat → Nat → K) (ib i w : Nat) : K :=
  sumTo (d.frNb ib).length (fun j =>
    d.M ib (d.fr.getD i 0) ((d.frNb ib).getD j 0) * Unb ib ((d.frNb ib).getD j 0) w)

/-- `calc_Z(U_nb)`: `sum_b wb * mmn.dot(mmn.T.conj())` -/
def zFree (conj : K → K) (d : KData K) (Unb : Nat → Nat → Nat → K) (i i' : Nat) : K :=
  sumTo d.nnb (fun ib => d.wb ib * sumTo d.nw (fun w => mlocFree d Unb ib i w * conj (mlocFree d Unb ib i' w)))

/-- `Zfrozen = calc_Z()` with `freefrozen[ib] = Mmn[ib][free, :][:, frozen_nb[ib]]` -/
def zFrozen (conj : K → K) (d : KData K) (i i' : Nat) : K :=
  sumTo d.nnb (fun ib => d.wb ib * sumTo (d.fzNb ib).length (fun j =>
    d.M ib (d.fr.getD i 0) ((d.fzNb ib).getD j 0) * conj (d.M ib (d.fr.getD i' 0) ((d.fzNb ib).getD j 0))))

/-- `Z = calc_Z(U_nb_free) + Zfrozen`, then `Z = mix*Z + (1-mix)*Zold` when `Zold is not None and mix != 1`
    (`mixing = some (mix, 1-mix, Zold)` in that case) -/
def zMatrix (conj : K → K) (d : KData K) (mixing : Option (K × K × (Nat → Nat → K)))
    (Unb : Nat → Nat → Nat → K) (i i' : Nat) : K :=
  match mixing with
  | some (m, om, Zold) => m * (zFree conj d Unb i i' + zFrozen conj d i i') + om * Zold i i'
  | none => zFree conj d Unb i i' + zFrozen conj d i i'

/-- `selected = frozen | free` as a predicate -/
def selOf (d : KData K) (b : Nat) : Bool := d.fz.contains b || d.fr.contains b

/-- `rotate_to_projections(U_opt_free)`:
    `U_loc = U[selected]; ZV = orthogonalize(U_loc.T.conj().dot(amn_sel)); U[:] = 0; U[selected] = U_loc.dot(ZV)` -/
def projLoc (conj : K → K) (d : KData K) (E : Nat → Nat → K) (i j : Nat) : K :=
  sumTo d.nb (fun b => if selOf d b then conj (E b i) * d.amn b j else 0)

def rotateToProj (ker : Kernels K) (conj : K → K) (d : KData K) (Uf : Nat → Nat → K) : Nat → Nat → K :=
  let E := embed d.fz d.fr Uf
  finalU (selOf d) d.nw E (ker.polarSq d.nw (projLoc conj d E))

/-- `Mmn_loc_sumb`: `sum_b (U^H Mmn[ib] U_nb[ib] * phase[None,:,ib]) * wb / sum(wb)` with `U = [e_frozen | U_free]` -/
def mlocSum (conj : K → K) (d : KData K) (E : Nat → Nat → K) (Unb : Nat → Nat → Nat → K)
    (phase : Nat → Nat → K) (m w : Nat) : K :=
  sumTo d.nnb (fun ib =>
    (sumTo d.nb (fun p => conj (E p m) * sumTo d.nb (fun q => d.M ib p q * Unb ib q w)) * phase w ib) * d.wb ib)
    / sumTo d.nnb d.wb

/-- `update(U_nb, wcc_bk_phase, localise, mix_ratio)` with `mix_ratio_u = 1`: returns the new `U_opt_full` and `Z`
    (which becomes `Zold`) -/
def updateK (ker : Kernels K) (conj : K → K) (d : KData K) (localise : Bool)
    (mixing : Option (K × K × (Nat → Nat → K))) (Unb : Nat → Nat → Nat → K) (phase : Nat → Nat → K) :
    (Nat → Nat → K) × (Nat → Nat → K) :=
  let Z := zMatrix conj d mixing Unb
  let Uf := ker.eig d.fr.length (d.nw - d.fz.length) Z
  if localise then
    let E := embed d.fz d.fr Uf
    let Ui := ker.inv d.nw (mlocSum conj d E Unb phase)
    let W := ker.polarSq d.nw (fun i j => conj (Ui j i))
    (ker.polarTall d.nb d.nw (matMulFn d.nw E W), Z)
  else
    (rotateToProj ker conj d Uf, Z)

/-- `__init__`: `amn2 = amn[free].dot(amn[free].T.conj()); U_opt_free = get_max_eig(amn2, nWfree, NBfree)` -/
def amn2 (conj : K → K) (d : KData K) (i i' : Nat) : K :=
  sumTo d.nw (fun w => d.amn (d.fr.getD i 0) w * conj (d.amn (d.fr.getD i' 0) w))

def initK (ker : Kernels K) (conj : K → K) (d : KData K) : Nat → Nat → K :=
  rotateToProj ker conj d (ker.eig d.fr.length (d.nw - d.fz.length) (amn2 conj d))

/-- state of one k-point object between iterations -/
structure KState (K : Type) where
  U : Nat → Nat → K
  Zold : Option (Nat → Nat → K)

/-- one sweep of `Wannierizer.update_all`: every k-point is updated from the matrices its neighbours had after the
    previous sweep (`U_neigh` is assembled before the sweep); `phaseOf` (the `wcc_bk_phase` array) may depend on the
    whole previous state in any way; `mix = some (mix_ratio, 1 - mix_ratio)` when `mix_ratio != 1` -/
def stepAll (ker : Kernels K) (conj : K → K) (d : Nat → KData K) (nbr : Nat → Nat → Nat) (localise : Bool)
    (mix : Option (K × K)) (phaseOf : (Nat → KState K) → Nat → Nat → Nat → K)
    (S : Nat → KState K) (k : Nat) : KState K :=
  let mixing := match mix, (S k).Zold with
    | some (m, om), some Zold => some (m, om, Zold)
    | _, _ => none
  let r := updateK ker conj (d k) localise mixing (fun ib => (S (nbr k ib)).U) (phaseOf S k)
  ⟨r.1, some r.2⟩

def initAll (ker : Kernels K) (conj : K → K) (d : Nat → KData K) (k : Nat) : KState K :=
  ⟨initK ker conj (d k), none⟩

/-- the state after `n` iterations of the loop in `wannierise` -/
def runIter (ker : Kernels K) (conj : K → K) (d : Nat → KData K) (nbr : Nat → Nat → Nat) (localise : Bool)
    (mix : Option (K × K)) (phaseOf : (Nat → KState K) → Nat → Nat → Nat → K) : Nat → Nat → KState K
  | 0 => initAll ker conj d
  | n + 1 => stepAll ker conj d nbr localise mix phaseOf (runIter ker conj d nbr localise mix phaseOf n)

end update

/-! ### driver -/
open WB.IO

def ofList (l : List Rat) : Nat → Rat := fun i => l.getD i 0
def ofMat (m : List (List Rat)) : Nat → Nat → Rat := fun i j => (m.getD i []).getD j 0

def maskStr (n : Nat) (m : Nat → Bool) : String := showBools ((List.range n).map m)

def handle : List String → String
  -- masks <E> <th> <fmin> <fmax> <omin> <omax> <extra>  ->  frozen|selected|free|kselected|assert
  | ["masks", e, th, fmin, fmax, omin, omax, extra] =>
    match parseRats? e, parseRat? th, parseRat? fmin, parseRat? fmax, parseRat? omin, parseRat? omax,
          parseNats? extra with
    | some l, some t, some a, some b, some c, some d, some x =>
      let n := l.length
      let fz := frozenMask (ofList l) t a b n x
      let sl := outerMask (ofList l) t c d n
      let fr := freeMask n sl fz
      maskStr n fz ++ "|" ++ maskStr n sl ++ "|" ++ maskStr n fr ++ "|" ++ maskStr n (kSelected fz fr)
        ++ "|" ++ showBool (assertOK n sl fz)
    | _, _, _, _, _, _, _ => "bad-op"
  -- explicit <all|dict> <bands | ik,b1,b2;ik,b1,...> <kptirr>  ->  explicitly frozen bands per row of the mask array
  | ["explicit", form, data, kirr] =>
    match parseNatss? data, parseNats? kirr with
    | some d, some kirr =>
      let fs : FrozenStates := if form == "all" then .all (d.getD 0 []) else .perK (d.map fun e => (e.getD 0 0, e.drop 1))
      showNatss ((List.range kirr.length).map fun iki => explicitFrozen fs kirr iki)
    | _, _ => "bad-op"
  -- embed <nb> <nw> <fz> <fr> <Uf rows>  ->  the nb × nw matrix
  | ["embed", nb, nw, fz, fr, uf] =>
    match parseNat? nb, parseNat? nw, parseNats? fz, parseNats? fr, parseRatss? uf with
    | some nb, some nw, some fz, some fr, some uf =>
      showRatss ((List.range nb).map fun b => (List.range nw).map fun w => embed fz fr (ofMat uf) b w)
    | _, _, _, _, _ => "bad-op"
  -- final <nb> <nw> <fz> <fr> <Uf rows> <W rows>  ->  finalU with sel = fz ∪ fr
  | ["final", nb, nw, fz, fr, uf, w] =>
    match parseNat? nb, parseNat? nw, parseNats? fz, parseNats? fr, parseRatss? uf, parseRatss? w with
    | some nb, some nw, some fz, some fr, some uf, some w =>
      let sel : Nat → Bool := fun b => fz.contains b || fr.contains b
      showRatss ((List.range nb).map fun b => (List.range nw).map fun c =>
        finalU sel nw (embed fz fr (ofMat uf)) (ofMat w) b c)
    | _, _, _, _, _, _ => "bad-op"
  -- update <localise> <nb> <nw> <nnb> <fz> <fr> <fzNb> <frNb> <M rows (ib*nb+m)> <wb> <amn> <mix,1-mix | _> <Zold | _>
  --        <U_nb rows (ib*nb+m)> <phase rows w, cols ib> <eig out> <inv out> <polarSq out>
  --   one call of Kpoint_and_neighbours.update with the kernels stubbed by the given matrices (polarTall = identity)
  --   ->  Z | argument of inv (localise) or of the square orthogonalize (rotate_to_projections) | new U_opt_full
  | ["update", loc, nb, nw, nnb, fz, fr, fzNb, frNb, m, wb, amn, mix, zold, unb, ph, eo, io, po] =>
    match parseBool? loc, parseNat? nb, parseNat? nw, parseNat? nnb, parseNats? fz, parseNats? fr,
          parseNatss? fzNb, parseNatss? frNb, parseRatss? m, parseRats? wb, parseRats? mix with
    | some loc, some nb, some nw, some nnb, some fz, some fr, some fzNb, some frNb, some m, some wb, some mix =>
      match parseRatss? zold, parseRatss? unb, parseRatss? ph, parseRatss? eo, parseRatss? io, parseRatss? po,
            parseRatss? amn with
      | some zold, some unb, some ph, some eo, some io, some po, some amn =>
        let d : KData Rat := { nb := nb, nw := nw, nnb := nnb, fz := fz, fr := fr,
                               fzNb := fun ib => fzNb.getD ib [], frNb := fun ib => frNb.getD ib [],
                               M := fun ib p q => ofMat m (ib * nb + p) q, wb := ofList wb, amn := ofMat amn }
        let ker : Kernels Rat := { eig := fun _ _ _ => ofMat eo, polarSq := fun _ _ => ofMat po,
                                   polarTall := fun _ _ A => A, inv := fun _ _ => ofMat io }
        let mixing : Option (Rat × Rat × (Nat → Nat → Rat)) :=
          match mix with
          | [a, b] => some (a, b, ofMat zold)
          | _ => none
        let Unb : Nat → Nat → Nat → Rat := fun ib p w => ofMat unb (ib * nb + p) w
        let r := updateK ker id d loc mixing Unb (ofMat ph)
        let nf := fr.length
        let E := embed fz fr (ofMat eo)
        let mid : Nat → Nat → Rat := if loc then mlocSum id d E Unb (ofMat ph) else projLoc id d E
        showRatss ((List.range nf).map fun i => (List.range nf).map fun j => r.2 i j) ++ "|" ++
        showRatss ((List.range nw).map fun i => (List.range nw).map fun j => mid i j) ++ "|" ++
        showRatss ((List.range nb).map fun i => (List.range nw).map fun j => r.1 i j)
      | _, _, _, _, _, _, _ => "bad-op"
    | _, _, _, _, _, _, _, _, _, _, _ => "bad-op"
  | _ => "bad-op"

end WB.C24
