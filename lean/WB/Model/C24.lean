/-
  C24 — wannierise returns a valid gauge honouring the windows.   Core Lean only.

  Models of
    wannierberri/wannierisation/wannierise.py            : the frozen / selected / free / deselected mask logic
    wannierberri/wannierisation/kpoint_and_neighbours.py : `selected = frozen | free`, the embedding
        `U[frozen, range(nfrozen)] = 1 ; U[free, nfrozen:] = U_opt_free` and
        `rotate_to_projections` (`U[:] = 0 ; U[selected] = U_loc · ZV`)
  `select_window_degen` is the model of C15 (`WB.C15.selectWindow`): frozen window with
  include_degen = False, outer window with include_degen = True.

  External kernels are parameters: `Uf` (the `get_max_eig` / `eigh` output, NBfree × nWfree) and `W`
  (the polar factor coming from `orthogonalize` / `svd`, nW × nW).
-/
import WB.Model.IO
import WB.Model.C15
namespace WB.C24
open WB.C15 (selectWindow)

/-! ### masks (one k-point) -/

/-- `frozen = select_window_degen(E, win_min=froz_min, win_max=froz_max, include_degen=False)` followed by
    `frozen[:, ib] = True` for the explicit `frozen_states` (`extra`, 0-based indices `< n`). -/
def frozenMask (E : Nat → Rat) (th fmin fmax : Rat) (n : Nat) (extra : List Nat) (j : Nat) : Bool :=
  decide (j < n) && (selectWindow E th fmin fmax n false j || extra.contains j)

/-- `selected_bands = select_window_degen(E, win_min=outer_min, win_max=outer_max, include_degen=True)` -/
def outerMask (E : Nat → Rat) (th omin omax : Rat) (n : Nat) (j : Nat) : Bool :=
  decide (j < n) && selectWindow E th omin omax n true j

/-- `free = np.logical_not(frozen)` (restricted to the `n` bands of the array) -/
def free0 (n : Nat) (frozen : Nat → Bool) (j : Nat) : Bool := decide (j < n) && !frozen j

/-- `deselected = np.logical_and(np.logical_not(selected_bands), free)` -/
def deselected (n : Nat) (sel frozen : Nat → Bool) (j : Nat) : Bool := !sel j && free0 n frozen j

/-- `free[deselected] = False` -/
def freeMask (n : Nat) (sel frozen : Nat → Bool) (j : Nat) : Bool :=
  if deselected n sel frozen j then false else free0 n frozen j

/-- `assert np.all(selected_bands[frozen])` -/
def assertOK (n : Nat) (sel frozen : Nat → Bool) : Bool :=
  (List.range n).all (fun j => !frozen j || sel j)

/-- `Kpoint_and_neighbours.selected = frozen | free` -/
def kSelected (frozen free : Nat → Bool) (j : Nat) : Bool := frozen j || free j

/-- `np.where(mask)[0]` -/
def idx (n : Nat) (mask : Nat → Bool) : List Nat := (List.range n).filter mask

/-! ### the embedding and the returned matrix (any scalar type) -/

section
variable {K : Type} [OfNat K 0] [OfNat K 1]

/-- `U = zeros((nband, num_wann)); U[frozen, range(nfrozen)] = 1; U[free, nfrozen:] = U_opt_free`
    with `fz = np.where(frozen)[0]`, `fr = np.where(free)[0]`:
    column `w < nfrozen` is the unit vector of the `w`-th frozen band; column `nfrozen + g` carries
    column `g` of `U_opt_free`, its `i`-th row going to the `i`-th free band. -/
def embed (fz fr : List Nat) (Uf : Nat → Nat → K) (b w : Nat) : K :=
  if w < fz.length then (if fz[w]? = some b then 1 else 0)
  else if fr.idxOf b < fr.length then Uf (fr.idxOf b) (w - fz.length) else 0

variable [Add K] [Mul K]

/-- finite sum `Σ_{j<n} f j` as the code's matrix product computes it -/
def sumTo (n : Nat) (f : Nat → K) : K := (List.range n).foldl (fun acc j => acc + f j) 0

/-- `rotate_to_projections`: `U[:] = 0 ; U[selected] = U_loc.dot(ZV)` with `U_loc = U[selected]`:
    rows outside `selected` are never written. -/
def finalU (sel : Nat → Bool) (nw : Nat) (Emb : Nat → Nat → K) (W : Nat → Nat → K) (b w : Nat) : K :=
  if sel b then sumTo nw (fun j => Emb b j * W j w) else 0

end

/-! ### driver -/
open WB.IO

def ofList (l : List Rat) : Nat → Rat := fun i => l.getD i 0
def ofMat (m : List (List Rat)) : Nat → Nat → Rat := fun i j => (m.getD i []).getD j 0

def maskStr (n : Nat) (m : Nat → Bool) : String := showBools ((List.range n).map m)

def handle : List String → String
  -- masks <E> <th> <fmin> <fmax> <omin> <omax> <extra>  ->  frozen|selected|free|kselected|assert
  | ["masks", e, th, fmin, fmax, omin, omax, extra] =>
    match parseRats? e, parseRat? th, parseRat? fmin, parseRat? fmax, parseRat? omin, parseRat? omax,
          parseNats? extra with
    | some l, some t, some a, some b, some c, some d, some x =>
      let n := l.length
      let fz := frozenMask (ofList l) t a b n x
      let sl := outerMask (ofList l) t c d n
      let fr := freeMask n sl fz
      maskStr n fz ++ "|" ++ maskStr n sl ++ "|" ++ maskStr n fr ++ "|" ++ maskStr n (kSelected fz fr)
        ++ "|" ++ showBool (assertOK n sl fz)
    | _, _, _, _, _, _, _ => "bad-op"
  -- embed <nb> <nw> <fz> <fr> <Uf rows>  ->  the nb × nw matrix
  | ["embed", nb, nw, fz, fr, uf] =>
    match parseNat? nb, parseNat? nw, parseNats? fz, parseNats? fr, parseRatss? uf with
    | some nb, some nw, some fz, some fr, some uf =>
      showRatss ((List.range nb).map fun b => (List.range nw).map fun w => embed fz fr (ofMat uf) b w)
    | _, _, _, _, _ => "bad-op"
  -- final <nb> <nw> <fz> <fr> <Uf rows> <W rows>  ->  finalU with sel = fz ∪ fr
  | ["final", nb, nw, fz, fr, uf, w] =>
    match parseNat? nb, parseNat? nw, parseNats? fz, parseNats? fr, parseRatss? uf, parseRatss? w with
    | some nb, some nw, some fz, some fr, some uf, some w =>
      let sel : Nat → Bool := fun b => fz.contains b || fr.contains b
      showRatss ((List.range nb).map fun b => (List.range nw).map fun c =>
        finalU sel nw (embed fz fr (ofMat uf)) (ofMat w) b c)
    | _, _, _, _, _, _ => "bad-op"
  | _ => "bad-op"

end WB.C24
