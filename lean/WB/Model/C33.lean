/-
  C33 — tetrahedron / parallelepiped corner energies: the Hamiltonian whose eigenvalues are used at a corner is the
  Hamiltonian at the corner k-point.   Core Lean only.

  Models of
    data_K_R.py   : expdK_corners_parallel (`[1/expdK, expdK]`, `expdK[R,i] = exp(2πi R_i dK_i/2)`),
                    E_K_corners_parallel (`expdK[ix,:,0]*expdK[iy,:,1]*expdK[iz,:,2]`, `Ham_R * _expdK`, `R_to_k`),
                    expdK_corners_tetra / E_K_corners_tetra (`exp(2πi R·vertex)`)
    data_K_soc.py : E_K_corners_* : spin-up block with the up R list and ITS phases, spin-down block with the down R list
                    and ITS phases, SOC term with the SOC R list; interlaced assembly `[::2,::2]`, `[1::2,1::2]`
  The phase arrays of the code are indexed by the POSITION in an R list; this is kept in the model (`phaseArr`,
  `mulArr`) because the defect that was repaired (F5) was a phase array taken from the wrong list.
-/
import WB.Model.C02
namespace WB.C33
open WB.C01 (Vec3 QVec3 Mesh vmod gridPoints sumK GRat)
open WB.C02 (placeOnBox explicitSum applyExpdK)

section scalars
variable {K : Type} [Add K] [Mul K] [Inv K] [OfNat K 0] [OfNat K 1]

/-- `expdK_corners_parallel[s, R, i]` : `s = 1` → `e_i(R_i)`, `s = 0` → `1/e_i(R_i)` -/
def cornerFactor (e : Int → K) (up : Bool) (r : Int) : K := if up then e r else (e r)⁻¹

/-- `expdK[ix,:,0] * expdK[iy,:,1] * expdK[iz,:,2]` at one R -/
def cornerPhase (e1 e2 e3 : Int → K) (ix iy iz : Bool) (R : Vec3) : K :=
  cornerFactor e1 ix R.1 * cornerFactor e2 iy R.2.1 * cornerFactor e3 iz R.2.2

/-- a phase array over an R list (position-indexed, as in the code) -/
def phaseArr (φ : Vec3 → K) (iRvec : List Vec3) : List K := iRvec.map φ

/-- `Ham_R * _expdK[:, None, None]` : position-wise product of the entries with a phase array -/
def mulArr (entries : List (Vec3 × K)) (arr : List K) : List (Vec3 × K) :=
  List.zipWith (fun e p => (e.1, e.2 * p)) entries arr

/-- the Hamiltonian element used at one corner: `Ham_R` of the Data_K object already carries `exp(2πi K·R)`
    (`χd`), is multiplied by the corner phase array built from ITS OWN R list, and transformed (`Finv`, fft branch) -/
def cornerPath (Finv : (Vec3 → K) → Vec3 → K) (N : Mesh) (χd φ : Vec3 → K) (entries : List (Vec3 × K)) (m : Vec3) : K :=
  Finv (placeOnBox N (mulArr (applyExpdK χd entries) (phaseArr φ (entries.map (·.1))))) m

/-- the ORIGINAL (pre-fix) spin-down block of `Data_K_soc`: phase array built from the spin-UP R list -/
def cornerPathOld (Finv : (Vec3 → K) → Vec3 → K) (N : Mesh) (χd φ : Vec3 → K) (iRvecUp : List Vec3)
    (entriesDown : List (Vec3 × K)) (m : Vec3) : K :=
  Finv (placeOnBox N (mulArr (applyExpdK χd entriesDown) (phaseArr φ iRvecUp))) m

/-- interlaced assembly of `Data_K_soc`: `H[::2,::2] = up`, `H[1::2,1::2] = down`, `H += soc` -/
def socElem (up down : Nat → Nat → K) (soc : Nat → Nat → K) (i j : Nat) : K :=
  (if i % 2 = 0 ∧ j % 2 = 0 then up (i / 2) (j / 2)
   else if i % 2 = 1 ∧ j % 2 = 1 then down (i / 2) (j / 2) else 0) + soc i j

end scalars

/-! ### phonon frequencies and k.p corners -/

/-- `Data_K.phonon_freq_from_square`: `e = sqrt(|E|); e[E < 0] = -e`, with `g` the square root on non-negative numbers -/
def phononFreq {K : Type} [Neg K] [OfNat K 0] [LT K] [DecidableLT K] (g : K → K) (E : K) : K :=
  if E < 0 then -(g (-E)) else g E

/-- numpy `x % 1` -/
def frac1 (x : Rat) : Rat := x - (x.floor : Rat)
/-- `SystemKP.k_to_1BZ`: `(k + 0.5) % 1 - 0.5` -/
def fold1 (x : Rat) : Rat := frac1 (x + 1 / 2) - 1 / 2

def qadd (a b : QVec3) : QVec3 := (a.1 + b.1, a.2.1 + b.2.1, a.2.2 + b.2.2)
def fracV (k : QVec3) : QVec3 := (frac1 k.1, frac1 k.2.1, frac1 k.2.2)
def foldV (k : QVec3) : QVec3 := (fold1 k.1, fold1 k.2.1, fold1 k.2.2)

/-- `Data_K_k.E_K_corners_*`: `self.system.Ham(k + v)` for `k` in `kpoints_all = (points_FFT + dK) % 1`, where `system.Ham`
    folds its argument into the box `[-1/2, 1/2)` before calling the user's Hamiltonian `ham` -/
def kpCorner {α : Type} (ham : QVec3 → α) (p dK v : QVec3) : α := ham (foldV (qadd (fracV (qadd p dK)) v))

/-- direct evaluation of the k.p Hamiltonian at the corner k-point `p + dK + v` -/
def kpDirect {α : Type} (ham : QVec3 → α) (p dK v : QVec3) : α := ham (foldV (qadd (qadd p dK) v))

/-! #### Cartesian form of the corner k-points (reciprocal cell with rows `b₁,b₂,b₃`, not necessarily orthogonal) -/

abbrev Mat3 := QVec3 × QVec3 × QVec3

def smulQ (a : Rat) (v : QVec3) : QVec3 := (a * v.1, a * v.2.1, a * v.2.2)
def dotQ (u v : QVec3) : Rat := u.1 * v.1 + u.2.1 * v.2.1 + u.2.2 * v.2.2

/-- `s.dot(M)` : row vector times matrix -/
def vecMat (s : QVec3) (M : Mat3) : QVec3 := qadd (qadd (smulQ s.1 M.1) (smulQ s.2.1 M.2.1)) (smulQ s.2.2 M.2.2)
/-- `M.dot(s)` : matrix times column vector (the TRANSPOSED contraction) -/
def matVec (M : Mat3) (s : QVec3) : QVec3 := (dotQ M.1 s, dotQ M.2.1 s, dotQ M.2.2 s)

/-- `SystemKP.k_red2cart`: `np.dot(k, recip_lattice)` -/
def redToCart (B : Mat3) (k : QVec3) : QVec3 := vecMat k B
/-- `(np.array([ix,iy,iz]) - 0.5) * dK` : component-wise product -/
def hadamard (s dK : QVec3) : QVec3 := (s.1 * dK.1, s.2.1 * dK.2.1, s.2.2 * dK.2.2)
/-- `KpointBZparallel.dK_fullBZ_cart = dK_fullBZ[:, None] * recip_lattice` : the edge vectors of the parallelepiped -/
def dKcart (dK : QVec3) (B : Mat3) : Mat3 := (smulQ dK.1 B.1, smulQ dK.2.1 B.2.1, smulQ dK.2.2 B.2.2)

/-- corner evaluation when the user's Hamiltonian takes Cartesian k (`k_vector_cartesian=True`):
    `Ham_user(k_red2cart(k_to_1BZ(k + v)))` -/
def kpCornerCart {α : Type} (ham : QVec3 → α) (B : Mat3) (p dK v : QVec3) : α :=
  ham (redToCart B (foldV (qadd (fracV (qadd p dK)) v)))
def kpDirectCart {α : Type} (ham : QVec3 → α) (B : Mat3) (p dK v : QVec3) : α :=
  ham (redToCart B (foldV (qadd (qadd p dK) v)))

/-- exact square root of a rational perfect square (used by the driver only) -/
def sqrtExact (x : Rat) : Rat := mkRat (Nat.sqrt x.num.natAbs) (Nat.sqrt x.den)

/-- scalar quadratic k.p model `a0 + Σ a_i k_i + Σ b_i k_i²` with rational coefficients (driver) -/
def polyHam (c : List Rat) (k : QVec3) : Rat :=
  c.getD 0 0 + c.getD 1 0 * k.1 + c.getD 2 0 * k.2.1 + c.getD 3 0 * k.2.2
    + c.getD 4 0 * k.1 * k.1 + c.getD 5 0 * k.2.1 * k.2.1 + c.getD 6 0 * k.2.2 * k.2.2

/-! ### driver: Gaussian rationals; half steps dK/2 that are multiples of 1/4 -/
open WB.IO WB.C01 WB.C02

/-- `exp(2πi r q/4)` -/
def quarterAxis (q : Int) (r : Int) : GRat := GRat.npow GRat.I (((q * r) % 4).toNat)

def parseBools3? (s : String) : Option (Bool × Bool × Bool) :=
  match (parseNats? s) with
  | some [a, b, c] => some (a != 0, b != 0, c != 0)
  | _ => none

def handle : List String → String
  -- expdK_corners_parallel for half steps h = q/4: "1/e rows | e rows", each row = 3 values for one R
  | ["expdk", h, rs] =>
    match (parseInts? h).bind toVec3?, (parseIntss? rs).bind (·.mapM toVec3?) with
    | some q, some R =>
      let row := fun (up : Bool) (r : Vec3) =>
        showListWith showGRat ";" [cornerFactor (quarterAxis q.1) up r.1, cornerFactor (quarterAxis q.2.1) up r.2.1,
          cornerFactor (quarterAxis q.2.2) up r.2.2]
      showListWith (row false) "#" R ++ " | " ++ showListWith (row true) "#" R
    | _, _ => "bad-op"
  -- one matrix element of the corner Hamiltonian at every box point:
  --   corner ix,iy,iz ; box N ; dK = dq/4 (phase already on Ham_R) ; half steps q/4 ; R list ; values
  | ["corner", c, n, dq, h, rs, xs] =>
    match parseBools3? c, (parseNats? n).bind toMesh?, (parseInts? dq).bind toVec3?, (parseInts? h).bind toVec3?,
        (parseIntss? rs).bind (·.mapM toVec3?), parseGRats? xs with
    | some (ix, iy, iz), some N, some dq, some q, some R, some X =>
      let φ := cornerPhase (quarterAxis q.1) (quarterAxis q.2.1) (quarterAxis q.2.2) ix iy iz
      showListWith showGRat ";" ((gridPoints N).map (cornerPath (idftBox N) N (quarterChar dq) φ (R.zip X)))
    | _, _, _, _, _, _ => "bad-op"
  -- the same with the phase array taken from ANOTHER R list (what the code did for the spin-down block before the fix)
  | ["cornerold", c, n, dq, h, rsup, rs, xs] =>
    match parseBools3? c, (parseNats? n).bind toMesh?, (parseInts? dq).bind toVec3?, (parseInts? h).bind toVec3?,
        (parseIntss? rsup).bind (·.mapM toVec3?), (parseIntss? rs).bind (·.mapM toVec3?), parseGRats? xs with
    | some (ix, iy, iz), some N, some dq, some q, some Rup, some R, some X =>
      let φ := cornerPhase (quarterAxis q.1) (quarterAxis q.2.1) (quarterAxis q.2.2) ix iy iz
      showListWith showGRat ";" ((gridPoints N).map (cornerPathOld (idftBox N) N (quarterChar dq) φ Rup (R.zip X)))
    | _, _, _, _, _, _, _ => "bad-op"
  -- phonon_freq_from_square on rational perfect squares (with sign)
  | ["phonon", es] =>
    match parseRats? es with
    | some E => showRats (E.map (phononFreq sqrtExact))
    | none => "bad-op"
  -- k.p corner energies of the scalar model polyHam: coefficients, FFT points p (list), dK, corner vectors v (list)
  --   -> for every p: for every v: value     (p-blocks separated by '#')
  | ["kpcorner", cs, ps, dk, vs] =>
    match parseRats? cs, (parseRatss? ps).bind (·.mapM toQVec3?), (parseRats? dk).bind toQVec3?, (parseRatss? vs).bind (·.mapM toQVec3?) with
    | some c, some P, some dK, some V =>
      showListWith (fun p => showRats (V.map fun v => kpCorner (polyHam c) p dK v)) "#" P
    | _, _, _, _ => "bad-op"
  -- the same for a reciprocal cell B (rows) and a Hamiltonian that takes Cartesian k (B = identity: reduced k)
  | ["kpcornerc", cs, b, ps, dk, vs] =>
    match parseRats? cs, (parseRatss? b).bind (·.mapM toQVec3?), (parseRatss? ps).bind (·.mapM toQVec3?),
        (parseRats? dk).bind toQVec3?, (parseRatss? vs).bind (·.mapM toQVec3?) with
    | some c, some [b1, b2, b3], some P, some dK, some V =>
      showListWith (fun p => showRats (V.map fun v => kpCornerCart (polyHam c) (b1, b2, b3) p dK v)) "#" P
    | _, _, _, _, _ => "bad-op"
  | _ => "bad-op"

end WB.C33
