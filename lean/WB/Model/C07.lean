/-
  C07 — irreducible K-points + symmetrisation reproduce the full-grid run.   Core Lean only.

  Models of the bookkeeping around the (separately modelled, see `Model/C09.lean`) tensor action:
    run_grid.py        : paralfunc (`pointgroup.symmetrize(result)`) and the weighted sum `Σ_K factor_K · result_K`
    result/tabresult.py: TABresult.__init__ (`kpoints % 1`), transform, __add__ (stacking), to_grid (k_map)
    result/kbandresult.py : K__Result.to_grid (average of the entries that landed on a grid point)
  The physics (what a calculator returns at a k-point) is a parameter `f`; its covariance is a hypothesis of the
  theorems and is what the oracle checks on the real calculators.
-/
import WB.Model.C09
namespace WB.C07
open WB.C09

/-! ### TABresult: k-points on a grid -/

/-- numpy `x % 1` -/
def frac (q : Rat) : Rat := q - (q.floor : Rat)

def fracVec (k : Vec Rat) : Vec Rat := fun i => frac (k i)

/-- `TABresult.to_grid`: `kpoints_int = rint(k * grid)`, `on_grid = |kpoints_int / grid - k| < 1e-5` (exact here:
    `k_i * grid_i` is an integer), `kpoints_int % grid`, `ind = k2 + grid2 * (k1 + grid1 * k0)`.
    `none` = the k-point is not on the grid (the code warns and skips it). -/
def kIndex (grid : Fin 3 → Nat) (k : Vec Rat) : Option Nat :=
  if (List.finRange 3).all (fun i => isInt (k i * (grid i : Rat))) then
    let ki : Fin 3 → Nat := fun i => ((k i * (grid i : Rat)).num % (grid i : Int)).toNat
    some (ki 2 + grid 2 * (ki 1 + grid 1 * ki 0))
  else none

/-- the grid point with C-order index `c` (`k_new` of `to_grid`: `meshgrid(indexing='ij')` reshaped in C order) -/
def gridPoint (grid : Fin 3 → Nat) (c : Nat) : Vec Rat := fun i =>
  match i.val with
  | 0 => ((c / (grid 1 * grid 2) : Nat) : Rat) / (grid 0 : Rat)
  | 1 => ((c / grid 2 % grid 1 : Nat) : Rat) / (grid 1 : Rat)
  | _ => ((c % grid 2 : Nat) : Rat) / (grid 2 : Rat)

/-- `k_map`: for every grid cell the positions (ascending) of the k-points that fall on it -/
def kMap (grid : Fin 3 → Nat) (kpts : List (Vec Rat)) : List (List Nat) :=
  (List.range (grid 0 * grid 1 * grid 2)).map fun c =>
    (List.range kpts.length).filter fun ik => kIndex grid (kpts.getD ik (fun _ => 0)) == some c

/-- `K__Result.to_grid`: `sum(dataall[ik] for ik in km) / len(km)`; `none` = ZeroDivisionError (empty cell) -/
def cellAverage {K : Type} [Add K] [Div K] [OfNat K 0] [NatCast K] (vals : Nat → K) (km : List Nat) : Option K :=
  if km.isEmpty then none else some (km.foldl (fun acc ik => acc + vals ik) 0 / (km.length : K))

def toGrid {K : Type} [Add K] [Div K] [OfNat K 0] [NatCast K] (grid : Fin 3 → Nat) (kpts : List (Vec Rat))
    (vals : Nat → K) : List (Option K) :=
  (kMap grid kpts).map (cellAverage vals)

section Tab
variable {K : Type} [Add K] [Mul K] [Neg K] {r : Nat}

/-- one tabulated entry: a k-point (reduced coordinates, kept modulo 1 by `TABresult.__init__`) and its value -/
abbrev Entry (r : Nat) (K : Type) := Vec Rat × Tensor r K

/-- `TABresult.transform(sym)` -/
def tabTransform (ι : Rat → K) (conj : K → K) (g : PSym Rat) (B : Mat Rat) (tTR tInv : Transform r)
    (entries : List (Entry r K)) : List (Entry r K) :=
  entries.map fun e => (fracVec (g.transformReduced e.1 B), transformTensor ι conj g tTR tInv e.2)

/-- `pointgroup.symmetrize(TABresult)`: `sum(result.transform(s) for s in symmetries) / size` — `+` stacks the
    k-points (in the order of the group elements) and `/` is the identity for tabulated results -/
def tabSymmetrize (ι : Rat → K) (conj : K → K) (L : List (PSym Rat)) (B : Mat Rat) (tTR tInv : Transform r)
    (entries : List (Entry r K)) : List (Entry r K) :=
  L.flatMap fun g => tabTransform ι conj g B tTR tInv entries

end Tab

/-! ### the action on the indices of a (possibly anisotropic) division grid -/

/-- the matrix `k' = k @ M` of an operation on reduced k-vectors, sign of TR / inversion included -/
def signedRedMat (g : PSym Rat) (B : Mat Rat) : Mat Rat :=
  fun i j => g.redMat B i j * (sgn g.tr * sgn g.inv)

/-- The grid point with index `n` (`k_i = n_i / div_i`) is mapped to the grid point with index
    `n'_j = Σ_i n_i M_ij div_j / div_i`.  This is what `Grid.get_K_list` evaluates as
    `round(KP.star * div) % div`; the ratios `div_j / div_i` matter as soon as an operation couples two reduced axes
    that carry different numbers of divisions (oblique cells with anisotropic NKdiv). -/
def gridImage (M : Mat Rat) (div : Fin 3 → Nat) (n : Vec Rat) : Vec Rat :=
  fun j => sum3 fun i => n i * M i j * (div j : Rat) / (div i : Rat)

/-- the same without the ratios (correct only when coupled axes carry equal divisions) -/
def gridImageNoRatio (M : Mat Rat) (n : Vec Rat) : Vec Rat :=
  fun j => sum3 fun i => n i * M i j

/-- index modulo the grid (`% div`); meaningful for integral images -/
def modGrid (div : Fin 3 → Nat) (v : Vec Rat) : List Int :=
  (List.finRange 3).map fun i => (v i).floor % (div i : Int)

/-! ### integrated quantities -/

/-- `result_all = Σ_K  paralfunc(K) * factor_K`  with `paralfunc(K) = pointgroup.symmetrize(calc(K))`;
    `pts` = the K-list as (factor, value of the calculator at that K-point) -/
def irrSum {K : Type} [Add K] [Mul K] [Neg K] [Div K] [OfNat K 0] [NatCast K] {r : Nat} (ι : Rat → K)
    (conj : K → K) (L : List (PSym Rat)) (tTR tInv : Transform r) (pts : List (Rat × Tensor r K)) : Tensor r K :=
  fun idx => pts.foldl (fun acc p => acc + symmetrizeTensor ι conj L tTR tInv p.2 idx * ι p.1) 0

/-- the unsymmetrised full-grid run: `Σ_k f(k) * factor_k` -/
def fullSum {K : Type} [Add K] [Mul K] [OfNat K 0] {r : Nat} (ι : Rat → K) (pts : List (Rat × Tensor r K)) :
    Tensor r K :=
  fun idx => pts.foldl (fun acc p => acc + p.2 idx * ι p.1) 0

/-! ### syntax of Cartesian tensor formulas and their grades (semantics and the covariance theorem:
    `WB/Lemmas/C07Expr.lean`, `Props/C07.lean: tensor_expr_equivariant`) -/

/-- operations on the leading indices -/
inductive TOp : Nat → Nat → Type
  | contr (r : Nat) : TOp (r + 2) r            -- δ-contraction of the first two indices
  | eps (r : Nat) : TOp (r + 2) (r + 1)        -- ε-contraction of the first two indices: one new first index
  | swap (r : Nat) : TOp (r + 2) (r + 2)       -- transposition of the first two indices
  | under {r s : Nat} : TOp r s → TOp (r + 1) (s + 1)   -- the same operation behind the first index
  | comp {r s u : Nat} : TOp s u → TOp r s → TOp r u

/-- does the operation contain an odd number of ε's? -/
def TOp.flips : {r s : Nat} → TOp r s → Bool
  | _, _, .contr _ => false
  | _, _, .eps _ => true
  | _, _, .swap _ => false
  | _, _, .under f => f.flips
  | _, _, .comp g f => g.flips != f.flips

/-! ### expressions -/

inductive TExpr (A : Nat → Type) : Nat → Type
  | atom {r : Nat} : A r → TExpr A r
  | mul {r s : Nat} : TExpr A r → TExpr A s → TExpr A (s + r)
  | add {r : Nat} : TExpr A r → TExpr A r → TExpr A r
  | zsmul {r : Nat} : Int → TExpr A r → TExpr A r
  | app {r s : Nat} : TOp r s → TExpr A r → TExpr A s
  | deriv {r : Nat} : TExpr A r → TExpr A (r + 1)     -- k-derivative, the new index first

/-- transport along an equality of ranks (ranks of products / contractions are sums that the elaborator does not
    normalise by itself) -/
def TExpr.cast {A : Nat → Type} {r s : Nat} (h : r = s) (e : TExpr A r) : TExpr A s := h ▸ e

section Grades
variable {A : Nat → Type} (axA trA : ∀ r, A r → Bool)

/-- pseudo-tensor (picks up det R under improper operations)? -/
def TExpr.axial : {r : Nat} → TExpr A r → Bool
  | _, .atom a => axA _ a
  | _, .mul x y => x.axial != y.axial
  | _, .add x _ => x.axial
  | _, .zsmul _ x => x.axial
  | _, .app op x => op.flips != x.axial
  | _, .deriv x => x.axial

/-- odd under time reversal? -/
def TExpr.trOdd : {r : Nat} → TExpr A r → Bool
  | _, .atom a => trA _ a
  | _, .mul x y => x.trOdd != y.trOdd
  | _, .add x _ => x.trOdd
  | _, .zsmul _ x => x.trOdd
  | _, .app _ x => x.trOdd
  | _, .deriv x => !x.trOdd

/-- the two terms of every sum carry the same grade -/
def TExpr.wf : {r : Nat} → TExpr A r → Bool
  | _, .atom _ => true
  | _, .mul x y => x.wf && y.wf
  | _, .add x y => x.wf && y.wf && (x.axial axA == y.axial axA) && (x.trOdd trA == y.trOdd trA)
  | _, .zsmul _ x => x.wf
  | _, .app _ x => x.wf
  | _, .deriv x => x.wf

end Grades

/-! ### the atoms and the structure terms of the per-k integrands behind the calculators (transcribed once per class
    from `formula/covariant.py` / `calculators/static.py` / `calculators/tabulate.py`; index ORDER is not transcribed -
    a transposition changes neither rank nor grade).  The check compares `PTerm.grade` of every term with the rank and
    the declared transformTR / transformInv of the live calculator on every run. -/

/-- atoms: per-k quantities whose covariance is a hypothesis (tested by the oracles) -/
inductive PAtom : Nat → Type
  | scalar : PAtom 0      -- band energy E_n(k), occupation f(E), any invariant scalar
  | delta : PAtom 2       -- Kronecker δ
  | omega : PAtom 1       -- Berry curvature as a (pseudo-)vector
  | morb : PAtom 1        -- orbital moment
  | spin : PAtom 1        -- spin
  | metric : PAtom 2      -- quantum metric

def PAtom.axial : ∀ r, PAtom r → Bool
  | _, .scalar => false | _, .delta => false | _, .omega => true | _, .morb => true | _, .spin => true
  | _, .metric => false

def PAtom.trOdd : ∀ r, PAtom r → Bool
  | _, .scalar => false | _, .delta => false | _, .omega => true | _, .morb => true | _, .spin => true
  | _, .metric => false

abbrev PTerm := TExpr PAtom

/-- predicted (rank, inversion transform is odd, time-reversal transform is odd, well-formed):
    `transformInv = (-1)^(rank + axial)`, `transformTR = (-1)^trOdd` -/
def PTerm.grade {r : Nat} (e : PTerm r) : Nat × Bool × Bool × Bool :=
  (r, (r % 2 == 1) != e.axial PAtom.axial, e.trOdd PAtom.trOdd, e.wf PAtom.axial PAtom.trOdd)

namespace Term
def E : PTerm 0 := .atom .scalar
def v : PTerm 1 := .deriv E                       -- velocity = dE/dk
def mass : PTerm 2 := .deriv v                    -- inverse mass
def der3E : PTerm 3 := .deriv mass
def omega : PTerm 1 := .atom .omega
def dOmega : PTerm 2 := .deriv omega
def d2Omega : PTerm 3 := .deriv dOmega
def morb : PTerm 1 := .atom .morb
def dMorb : PTerm 2 := .deriv morb
def d2Morb : PTerm 3 := .deriv dMorb
def spin : PTerm 1 := .atom .spin
def dSpin : PTerm 2 := .deriv spin
def d2Spin : PTerm 3 := .deriv dSpin
def metric : PTerm 2 := .atom .metric
def dMetric : PTerm 3 := .deriv metric
def delta : PTerm 2 := .atom .delta

-- static calculators
def DOS : PTerm 0 := E
def CumDOS : PTerm 0 := E
def Spin : PTerm 1 := spin
def Morb : PTerm 1 := .add morb (.zsmul (-2) omega)                               -- H+ - 2 Ef Ω
def GME_orb_FermiSurf : PTerm (1 + 1) := .add (.mul v morb) (.zsmul (-2) (.mul v omega))
def GME_orb_FermiSea : PTerm 2 := .add dMorb (.zsmul (-2) dOmega)
def GME_spin_FermiSea : PTerm 2 := dSpin
def GME_spin_FermiSurf : PTerm (1 + 1) := .mul v spin
def AHC : PTerm 1 := omega
def Ohmic_FermiSea : PTerm 2 := mass
def Ohmic_FermiSurf : PTerm (1 + 1) := .mul v v
def massMass : PTerm (2 + 2) := .mul mass mass
def velMassVel : PTerm (2 + 2) := .cast rfl (.mul v (.mul mass v) : PTerm ((1 + 2) + 1))
/-- ε ε (m ⊗ m): two ε-contractions, rank 4 → 3 → 2 -/
def Hall_classic_FermiSea : PTerm (0 + 1 + 1) :=
  .app (.under (.eps 0)) (.cast rfl (.app (.eps 2) massMass : PTerm (2 + 1)) : PTerm ((0 + 2) + 1))
def Hall_classic_FermiSurf : PTerm (0 + 1 + 1) :=
  .app (.under (.eps 0)) (.cast rfl (.app (.eps 2) velMassVel : PTerm (2 + 1)) : PTerm ((0 + 2) + 1))
def BerryDipole_FermiSurf : PTerm (1 + 1) := .mul v omega
def BerryDipole_FermiSea : PTerm 2 := .app (.swap 0) dOmega
def NLAHC_FermiSurf : PTerm (1 + 1) := BerryDipole_FermiSurf
def NLAHC_FermiSea : PTerm 2 := BerryDipole_FermiSea
def NLDrude_FermiSea : PTerm 3 := der3E
def NLDrude_FermiSurf : PTerm (1 + 2) := .mul mass v
def NLDrude_Fermider2 : PTerm ((1 + 1) + 1) := .mul v (.mul v v)
def AHC_Zeeman_spin : PTerm (1 + 1) := .mul omega spin
def OmegaOmega : PTerm (1 + 1) := .mul omega omega
def AHC_Zeeman_orb : PTerm (1 + 1) := .mul omega morb
def QuantumMetric_FermiSea : PTerm 2 := metric
def QuantumMetric_Vel_DQ : PTerm (3 + 1) := .mul v dMetric
def NLDrude_Zeeman_spin : PTerm (1 + 3) :=
  .add (.zsmul (-1) (.mul der3E spin)) (.cast rfl (.mul d2Spin v : PTerm (1 + 3)))
def NLDrude_Zeeman_orb : PTerm (1 + 3) :=
  .add (.zsmul (-1) (.mul der3E morb)) (.cast rfl (.mul d2Morb v : PTerm (1 + 3)))
def NLDrude_Zeeman_orb_Omega : PTerm (1 + 3) :=
  .add (.zsmul (-1) (.mul der3E omega)) (.cast rfl (.mul d2Omega v : PTerm (1 + 3)))
/-- `emcha_surf`: v ∂Ω v, m Ω v, and δ ⊗ (contraction of two indices) of both -/
def vDOmegaV : PTerm (2 + 2) := .cast rfl (.mul v (.mul dOmega v) : PTerm ((1 + 2) + 1))
def massOmegaV : PTerm (2 + 2) := .cast rfl (.mul mass (.mul omega v) : PTerm ((1 + 1) + 2))
def eMChA_FermiSurf : PTerm (2 + 2) :=
  .add (.add vDOmegaV massOmegaV)
    (.add (.mul delta (.app (.contr 2) massOmegaV)) (.mul delta (.app (.contr 2) vDOmegaV)))

-- tabulators
def tabEnergy : PTerm 0 := E
def tabVelocity : PTerm 1 := v
def tabInvMass : PTerm 2 := mass
def tabDer3E : PTerm 3 := der3E
def tabBerryCurvature : PTerm 1 := omega
def tabDerBerryCurvature : PTerm 2 := dOmega
def tabDer2BerryCurvature : PTerm 3 := d2Omega
def tabSpin : PTerm 1 := spin
def tabDerSpin : PTerm 2 := dSpin
def tabDer2Spin : PTerm 3 := d2Spin
def tabOrbitalMoment : PTerm 1 := morb
def tabDerOrbitalMoment : PTerm 2 := dMorb
def tabDer2OrbitalMoment : PTerm 3 := d2Morb
end Term

/-! ### driver -/
open WB.IO

def gridOfList (l : List Nat) : Fin 3 → Nat := fun i => l.getD i.val 1

def showOptRats (l : List (Option Rat)) : String :=
  if l.any Option.isNone then "ERR" else showRats (l.map fun o => o.getD 0)

def handle : List String → String
  -- k_map of to_grid:  kmap n0,n1,n2  k1;k2;...
  | ["kmap", g, ks] =>
    match parseNats? g, parseRatss? ks with
    | some g, some ks => showNatss (kMap (gridOfList g) (ks.map vecOfList))
    | _, _ => "bad-op"
  -- to_grid of scalar data:  togrid n0,n1,n2  k1;k2;...  v1,v2,...
  | ["togrid", g, ks, vs] =>
    match parseNats? g, parseRatss? ks, parseRats? vs with
    | some g, some ks, some vs =>
      showOptRats (toGrid (gridOfList g) (ks.map vecOfList) (fun i => vs.getD i 0))
    | _, _, _ => "bad-op"
  -- grid point of a cell index:  gridpoint n0,n1,n2 c
  | ["gridpoint", g, c] =>
    match parseNats? g, parseNat? c with
    | some g, some c => showRats (vecToList (gridPoint (gridOfList g) c))
    | _, _ => "bad-op"
  -- TABresult.transform of one entry:  tabtr R inv tr B rank  nT cT aT  nI cI aI  k  re im   ->  k' re' im'
  | ["tabtr", rs, invs, trs, b, rk, nT, cT, aT, nI, cI, aI, k, re, im] =>
    withRank rk fun r =>
      match parseRatss? rs, parseNats? invs, parseNats? trs, parseRats? b, parseTransform r nT cT aT,
            parseTransform r nI cI aI, parseRats? k, parseRats? re, parseRats? im with
      | some rs, some invs, some trs, some b, some tT, some tI, some k, some re, some im =>
        match psymsOfWire rs invs trs with
        | [g] =>
          if det3 (matOfList b) = 0 then "singular"
          else
            match tabTransform GI.ofRat GI.conj g (matOfList b) tT tI [(vecOfList k, tensorOfLists (r := r) re im)] with
            | [e] => showRats (vecToList e.1) ++ " " ++ showTensor e.2
            | _ => "bad-op"
        | _ => "bad-op"
      | _, _, _, _, _, _, _, _, _ => "bad-op"
  -- weighted, symmetrised sum over a K-list:  irrsum Rs invs trs rank nT cT aT nI cI aI  weights  re1;re2;..  im1;im2;..
  | ["irrsum", rs, invs, trs, rk, nT, cT, aT, nI, cI, aI, ws, res, ims] =>
    withRank rk fun r =>
      match parseRatss? rs, parseNats? invs, parseNats? trs, parseTransform r nT cT aT, parseTransform r nI cI aI,
            parseRats? ws, parseRatss? res, parseRatss? ims with
      | some rs, some invs, some trs, some tT, some tI, some ws, some res, some ims =>
        let L := psymsOfWire rs invs trs
        if L.isEmpty then "bad-op"
        else
          let pts := (List.range ws.length).map fun n =>
            (ws.getD n 0, tensorOfLists (r := r) (res.getD n []) (ims.getD n []))
          showTensor (irrSum GI.ofRat GI.conj L tT tI pts)
      | _, _, _, _, _, _, _, _ => "bad-op"
  -- images of a grid index under every element:  gridimg Rs invs trs B div n  ->  n'(g1);n'(g2);...  (mod div)
  | ["gridimg", rs, invs, trs, b, dv, n] =>
    match parseRatss? rs, parseNats? invs, parseNats? trs, parseRats? b, parseNats? dv, parseRats? n with
    | some rs, some invs, some trs, some b, some dv, some n =>
      if det3 (matOfList b) = 0 || dv.any (· = 0) then "singular"
      else
        let imgs := (psymsOfWire rs invs trs).map fun g =>
          gridImage (signedRedMat g (matOfList b)) (gridOfList dv) (vecOfList n)
        if imgs.any (fun v => (List.finRange 3).any fun i => !isInt (v i)) then "nonintegral"
        else showIntss (imgs.map (modGrid (gridOfList dv)))
    | _, _, _, _, _, _ => "bad-op"
  | ["fullsum", rk, ws, res, ims] =>
    withRank rk fun r =>
      match parseRats? ws, parseRatss? res, parseRatss? ims with
      | some ws, some res, some ims =>
        let pts := (List.range ws.length).map fun n =>
          (ws.getD n 0, tensorOfLists (r := r) (res.getD n []) (ims.getD n []))
        showTensor (fullSum GI.ofRat pts)
      | _, _, _ => "bad-op"
  | _ => "bad-op"

end WB.C07
