/-
  C16 — result objects behave as vectors and survive saving.   Core Lean only.

  Models of
    wannierberri/result/energyresult.py : EnergyResult.__init__ (titles), __add__, __mul__, __truediv__, __sub__,
                                          mul_array, transform, as_dict, from_npz
    wannierberri/result/result.py       : VoidResult (+, *, -, /, transform, as_dict)
    wannierberri/result/kbandresult.py  : K__Result.__add__ (k-point concatenation; 0 / None / Void neutral on the right), __mul__, __sub__, add, data
    wannierberri/result/resultdict.py   : ResultDict.__add__, __mul__, __truediv__, __sub__, transform
    wannierberri/symmetry/point_symmetry.py : PointSymmetry.transform_tensor, Transform.__call__/__eq__/as_dict,
                                          transform_from_dict

  Arrays are functions of the multi-index (`Arr K`), the scalar type `K` is arbitrary; complex conjugation is a
  parameter `cj : K → K`.  The driver executes everything at the Gaussian rationals `GRat`.
-/
import WB.Model.IO
namespace WB.C16

abbrev Arr (K : Type) := (Nat → Nat) → K

/-- replace the position along axis `a` -/
def upd (idx : Nat → Nat) (a j : Nat) : Nat → Nat := fun b => if b = a then j else idx b

/-! ### `Transform` (how a tensor changes under time reversal / inversion) -/

structure Transform where
  factor : Int
  conj : Bool
  transpose : Option (List Nat)
  swap : Option (Nat × Nat)
deriving DecidableEq, Repr

/-- `Transform.__eq__`: compares factor, conj and transpose_axes — NOT swap_axes -/
def Transform.eqv (a b : Transform) : Bool :=
  a.factor == b.factor && a.conj == b.conj && a.transpose == b.transpose

section
variable {K : Type} [Add K] [Mul K] [Neg K] [Div K] [OfNat K 0] [OfNat K 1] [IntCast K]

/-- numpy `A.transpose(trans)` with `trans = (0..dim0-1) ++ (dim0 + p[a])`:  `B[t] = A[s]`, `s[trans[a]] = t[a]` -/
def transposeTail (dim0 : Nat) (p : List Nat) (A : Arr K) : Arr K :=
  fun t => A (fun ax => if ax < dim0 then t ax else t (dim0 + p.idxOf (ax - dim0)))

/-- numpy `A.swapaxes(i, j)` -/
def swapAxes (i j : Nat) (A : Arr K) : Arr K :=
  fun t => A (fun ax => if ax = i then t j else if ax = j then t i else t ax)

/-- `Transform.__call__(res)` on an array with `dim` axes -/
def Transform.apply (cj : K → K) (T : Transform) (dim : Nat) (A : Arr K) : Arr K :=
  let A1 : Arr K := match T.transpose with
    | some p => transposeTail (dim - p.length) p A
    | none => match T.swap with
      | some (i, j) => swapAxes i j A
      | none => A
  let A2 : Arr K := if T.conj then fun t => cj (A1 t) else A1
  fun t => A2 t * (T.factor : K)

def sum3 (f : Nat → K) : K := f 0 + f 1 + f 2

/-- `res @ R.T` on axis `a`:  `res'[.., i, ..] = Σ_j res[.., j, ..] · R[i][j]` -/
def rotAxis (R : Nat → Nat → K) (a : Nat) (A : Arr K) : Arr K :=
  fun t => sum3 (fun j => A (upd t a j) * R (t a) j)

/-- the loop `for i in range(dim - rank, dim)` of `transform_tensor` -/
def rotateAll (R : Nat → Nat → K) (dim rank : Nat) (A : Arr K) : Arr K :=
  (List.range rank).foldl (fun B i => rotAxis R (dim - rank + i) B) A

/-- a point symmetry after `PointSymmetry.__init__`: proper part `R`, flags `TR`, `Inv` -/
structure Sym (K : Type) where
  R : Nat → Nat → K
  TR : Bool
  Inv : Bool

/-- `PointSymmetry.transform_tensor(data, rank, transformTR, transformInv)` -/
def transformTensor (cj : K → K) (g : Sym K) (dim rank : Nat) (tTR tInv : Transform) (A : Arr K) : Arr K :=
  let A1 := rotateAll g.R dim rank A
  let A2 := if g.TR then tTR.apply cj dim A1 else A1
  if g.Inv then tInv.apply cj dim A2 else A2

/-! ### `EnergyResult` -/

structure ERes (K : Type) where
  energies : List (List Rat)
  shape : List Nat
  data : Arr K
  /-- identity classes of the smoothers (equal numbers = smoothers that compare equal; 0 = void) -/
  smoothers : List Nat
  tTR : Option Transform
  tInv : Option Transform
  rank : Nat
  titles : List String
  saveBin : Bool
  saveTxt : Bool
  comment : String

/-- `E_titles` as normalised by the constructor: cut or padded with "???" to the number of energies -/
def mkTitles (nE : Nat) (titles : List String) : List String :=
  if nE ≤ titles.length then titles.take nE else titles ++ List.replicate (nE - titles.length) "???"

def addData (A B : Arr K) : Arr K := fun t => A t + B t
def scaleData (A : Arr K) (c : K) : Arr K := fun t => A t * c

/-- `__mul__(number)`: everything is kept, data scaled -/
def ERes.mul (a : ERes K) (c : K) : ERes K := { a with data := scaleData a.data c }

/-- `__truediv__(number) = self * (1. / number)` -/
def ERes.div (a : ERes K) (c : K) : ERes K := a.mul (1 / c)

inductive Err | assertion | runtime | attribute | type | key | unmodelled
deriving DecidableEq, Repr

def sqDist (x y : List Rat) : Rat := ((x.zip y).map (fun p => (p.1 - p.2) * (p.1 - p.2))).foldl (· + ·) 0

/-- `norm(E - E') > 1e-8` -/
def energiesDiffer (x y : List Rat) : Bool := decide (sqDist x y > 1 / 10 ^ 16)

def transformsClash (s o : Option Transform) : Bool :=
  match s, o with
  | some a, some b => !(a.eqv b)
  | _, _ => false

/-- `EnergyResult.__add__(other)` for `other` an EnergyResult -/
def ERes.add (a b : ERes K) : Except Err (ERes K) :=
  if transformsClash a.tTR b.tTR || transformsClash a.tInv b.tInv then .error .assertion
  else if (List.range a.energies.length).any (fun i =>
      energiesDiffer (a.energies.getD i []) (b.energies.getD i []) || a.smoothers.getD i 0 != b.smoothers.getD i 0)
    then .error .runtime
  else .ok { a with
    data := addData a.data b.data
    saveBin := a.saveBin || b.saveBin
    saveTxt := a.saveTxt || b.saveTxt
    comment := if a.comment.length > b.comment.length then a.comment else b.comment }

/-- `mul_array(other, axes)`: data times an array living on the listed axes (note: the comment is NOT kept) -/
def ERes.mulArray (a : ERes K) (w : Arr K) (axes : List Nat) : ERes K :=
  { a with data := fun t => a.data t * w (fun i => t (axes.getD i 0)), comment := "undocumented" }

/-- `EnergyResult.transform(sym)`; transforms that are `None` cannot be called -/
def ERes.transform (cj : K → K) (g : Sym K) (a : ERes K) : Except Err (ERes K) :=
  match a.tTR, a.tInv with
  | some tr, some ti => .ok { a with data := transformTensor cj g a.shape.length a.rank tr ti a.data }
  | tr, ti =>
    if (g.TR && tr.isNone) || (g.Inv && ti.isNone) then .error .type
    else
      let d := transformTensor cj g a.shape.length a.rank
                (tr.getD ⟨1, false, none, none⟩) (ti.getD ⟨1, false, none, none⟩) a.data
      .ok { a with data := d }

/-! ### results in general: void, energy -/

inductive Res (K : Type)
  | void
  | energy (r : ERes K)

/-- what may stand to the right of `+` -/
inductive Rhs (K : Type)
  | zero
  | none
  | res (r : Res K)

/-- `self + other` -/
def Res.add : Res K → Rhs K → Except Err (Res K)
  | .void, .zero => .error .unmodelled         -- VoidResult.__add__ returns `other` itself (the int 0 / None):
  | .void, .none => .error .unmodelled         -- not a result object, outside this model
  | .void, .res r => .ok r                      -- `VoidResult.__add__` returns other
  | .energy a, .zero => .ok (.energy a)
  | .energy a, .none => .ok (.energy a)
  | .energy a, .res .void => .ok (.energy a)
  | .energy a, .res (.energy b) => (a.add b).map .energy

/-- `self * number` -/
def Res.mul : Res K → K → Res K
  | .void, _ => .void
  | .energy a, c => .energy (a.mul c)

/-- `self / number` -/
def Res.div : Res K → K → Res K
  | .void, _ => .void
  | .energy a, c => .energy (a.div c)

/-- `self - other`:  `EnergyResult: self + (-1) * other`,  `VoidResult: (-1) * other` -/
def Res.sub : Res K → Res K → Except Err (Res K)
  | .void, o => .ok (o.mul (-1))
  | .energy a, o => Res.add (.energy a) (.res (o.mul (-1)))

def Res.transform (cj : K → K) (g : Sym K) : Res K → Except Err (Res K)
  | .void => .ok .void
  | .energy a => (a.transform cj g).map .energy

/-- what may stand to the right of `+` for a k-resolved result or a dictionary:
    the int 0 (start value of `sum`), `None`, the void result, or a result of the same kind -/
inductive RhsOf (α : Type)
  | zero
  | none
  | void
  | res (r : α)

/-! ### `ResultDict` (insertion-ordered dictionary of results) -/

abbrev RDict (K : Type) := List (String × Res K)

def RDict.mul (d : RDict K) (c : K) : RDict K := d.map (fun kv => (kv.1, kv.2.mul c))
def RDict.div (d : RDict K) (c : K) : RDict K := d.map (fun kv => (kv.1, kv.2.div c))

/-- `{k: self[k] + other[k] for k in self if k in other}` -/
def RDict.add : RDict K → RDict K → Except Err (RDict K)
  | [], _ => .ok []
  | (k, v) :: rest, e =>
    match e.lookup k with
    | none => RDict.add rest e
    | some r =>
      match v.add (.res r), RDict.add rest e with
      | .ok s, .ok tl => .ok ((k, s) :: tl)
      | .error x, _ => .error x
      | _, .error x => .error x

/-- `ResultDict.__add__(other)` with its guard `other == 0 or other is None or isinstance(other, VoidResult)` -/
def RDict.addRhs (d : RDict K) : RhsOf (RDict K) → Except Err (RDict K)
  | .zero => .ok d
  | .none => .ok d
  | .void => .ok d
  | .res e => d.add e

def RDict.sub (d e : RDict K) : Except Err (RDict K) := d.add (e.mul (-1))

def RDict.transform (cj : K → K) (g : Sym K) : RDict K → Except Err (RDict K)
  | [] => .ok []
  | (k, v) :: rest =>
    match v.transform cj g, RDict.transform cj g rest with
    | .ok s, .ok tl => .ok ((k, s) :: tl)
    | .error x, _ => .error x
    | _, .error x => .error x

/-! ### `K__Result`: data for a list of k-points, kept as a list of blocks -/

structure KBlock (K : Type) where
  nk : Nat
  arr : Arr K

structure KRes (K : Type) where
  blocks : List (KBlock K)
  tTR : Option Transform
  tInv : Option Transform
  rank : Nat
  /-- number of axes of every block (k, band, tensor…) -/
  dim : Nat
  nband : Nat

/-- `np.vstack(data_list)`: the leading index runs through the blocks one after another -/
def vstack : List (KBlock K) → Arr K
  | [] => fun _ => 0
  | b :: rest => fun t => if t 0 < b.nk then b.arr t else vstack rest (upd t 0 (t 0 - b.nk))

def KRes.data (a : KRes K) : Arr K := vstack a.blocks
/-- `sum(d.shape[0] for d in data_list)` -/
def nkSum : List (KBlock K) → Nat
  | [] => 0
  | b :: rest => b.nk + nkSum rest
def KRes.nkTot (a : KRes K) : Nat := nkSum a.blocks

/-- `fit`: transforms, rank (and the number of bands for KBandResult) must agree — uses `!=`, i.e. `__eq__` -/
def optEqv (s o : Option Transform) : Bool :=
  match s, o with
  | some a, some b => a.eqv b
  | none, none => true
  | _, _ => false

def KRes.fit (a b : KRes K) : Bool :=
  a.nband == b.nband && optEqv a.tTR b.tTR && optEqv a.tInv b.tInv && a.rank == b.rank

/-- `K__Result.__add__`: the k-point lists are CONCATENATED (the sum over disjoint sets of k-points) -/
def KRes.add (a b : KRes K) : Except Err (KRes K) :=
  if a.fit b then .ok { a with blocks := a.blocks ++ b.blocks } else .error .assertion

/-- `K__Result.__add__(other)` with its guard for the neutral elements -/
def KRes.addRhs (a : KRes K) : RhsOf (KRes K) → Except Err (KRes K)
  | .zero => .ok a
  | .none => .ok a
  | .void => .ok a
  | .res b => a.add b

def KRes.mul (a : KRes K) (c : K) : KRes K :=
  { a with blocks := a.blocks.map (fun b => ⟨b.nk, scaleData b.arr c⟩) }

/-- `__truediv__` is a copy (`self * 1`): k-point weights play no role in tabulation -/
def KRes.div (a : KRes K) (_c : K) : KRes K := a.mul 1

/-- `K__Result.__sub__`: element-wise difference of the stacked data, one block, rank recomputed -/
def KRes.sub (a b : KRes K) : Except Err (KRes K) :=
  if transformsClash a.tTR b.tTR || transformsClash a.tInv b.tInv then .error .assertion
  else .ok { a with blocks := [⟨a.nkTot, fun t => a.data t + -(b.data t)⟩], rank := a.dim - 2 }

/-- `K__Result.add` (in place): block-wise element-wise sum -/
def KRes.addInPlace (a b : KRes K) : KRes K :=
  { a with blocks := (a.blocks.zip b.blocks).map (fun p => ⟨p.1.nk, addData p.1.arr p.2.arr⟩) }

def KRes.transform (cj : K → K) (g : Sym K) (a : KRes K) : Except Err (KRes K) :=
  match a.tTR, a.tInv with
  | some tr, some ti =>
    .ok { a with blocks := a.blocks.map (fun b => ⟨b.nk, transformTensor cj g a.dim a.rank tr ti b.arr⟩) }
  | _, _ => .error .type

end

/-! ### persistence: `as_dict`, `from_npz` -/

inductive Value (K : Type)
  | strs (l : List String)
  | str (s : String)
  | reals (l : List Rat)
  | arr (shape : List Nat) (a : Arr K)
  | nat (n : Nat)
  | tdict (t : Transform)
  | noneV

/-- the keys of the npz file; `energies i` is the string `Energies_<i>` -/
inductive Key
  | E_titles | data | rank | transformTR | transformInv | comment | type
  | energies (i : Nat)
deriving DecidableEq, Repr

abbrev Dict (K : Type) := List (Key × Value K)

section
variable {K : Type}

/-- `EnergyResult.as_dict()` (calls `.as_dict()` on both transforms: `None` raises AttributeError) -/
def ERes.asDict (r : ERes K) : Except Err (Dict K) :=
  match r.tTR, r.tInv with
  | some tr, some ti =>
    .ok ([(.E_titles, .strs r.titles), (.data, .arr r.shape r.data), (.rank, .nat r.rank),
          (.transformTR, .tdict tr), (.transformInv, .tdict ti), (.comment, .str r.comment)]
         ++ ((r.energies.zipIdx).map (fun ei => (Key.energies ei.2, Value.reals ei.1))))
  | _, _ => .error .attribute

/-- `VoidResult.as_dict()` -/
def voidDict : Dict K := [(.comment, .str "is identically zero, no data to save"), (.type, .str "VoidResult")]

def Res.asDict : Res K → Except Err (Dict K)
  | .void => .ok voidDict
  | .energy r => r.asDict

/-- `transform_from_dict(dic, key)` -/
def transformFromDict (d : Dict K) (key : Key) : Except Err (Option Transform) :=
  match d.lookup key with
  | none => .ok none
  | some .noneV => .ok none
  | some (.tdict t) => .ok (some t)
  | some (.str _) => .ok none
  | some _ => .error .type

/-- `[res[f'Energies_{i}'] for i, _ in enumerate(res['E_titles'])]`, first `n` entries -/
def collectEnergies (d : Dict K) : Nat → Except Err (List (List Rat))
  | 0 => .ok []
  | n + 1 =>
    match collectEnergies d n, d.lookup (.energies n) with
    | .ok l, some (.reals e) => .ok (l ++ [e])
    | .error x, _ => .error x
    | _, _ => .error .key

/-- `EnergyResult.from_npz` after `np.load` (the file content is the dictionary).  `save_mode` is never written by
    `as_dict`, so the default "bin+txt" applies; smoothers are not stored (void after loading). -/
def fromDict (d : Dict K) : Except Err (Res K) :=
  match d.lookup .type with
  | some (.str "VoidResult") => .ok .void
  | _ =>
    match d.lookup .E_titles, d.lookup .data, d.lookup .rank with
    | some (.strs titles), some (.arr shape data), some (.nat rank) =>
      match collectEnergies d titles.length, transformFromDict d .transformTR, transformFromDict d .transformInv with
      | .ok energies, .ok tr, .ok ti =>
        let comment := match d.lookup .comment with | some (.str c) => c | _ => "undocumented"
        .ok (.energy { energies := energies, shape := shape, data := data,
                       smoothers := List.replicate energies.length 0,
                       tTR := tr, tInv := ti, rank := rank, titles := mkTitles energies.length titles,
                       saveBin := true, saveTxt := true, comment := comment })
      | .error e, _, _ => .error e
      | _, .error e, _ => .error e
      | _, _, .error e => .error e
    | _, _, _ => .error .key

end

/-! ### Gaussian rationals (execution only) -/

structure GRat where
  re : Rat
  im : Rat
deriving DecidableEq, Repr

namespace GRat
instance : Add GRat := ⟨fun a b => ⟨a.re + b.re, a.im + b.im⟩⟩
instance : Neg GRat := ⟨fun a => ⟨-a.re, -a.im⟩⟩
instance : Mul GRat := ⟨fun a b => ⟨a.re * b.re - a.im * b.im, a.re * b.im + a.im * b.re⟩⟩
instance : Div GRat := ⟨fun a b =>
  let n := b.re * b.re + b.im * b.im
  ⟨(a.re * b.re + a.im * b.im) / n, (a.im * b.re - a.re * b.im) / n⟩⟩
instance : OfNat GRat 0 := ⟨⟨0, 0⟩⟩
instance : OfNat GRat 1 := ⟨⟨1, 0⟩⟩
instance : IntCast GRat := ⟨fun z => ⟨(z : Rat), 0⟩⟩
def conj (a : GRat) : GRat := ⟨a.re, -a.im⟩
def ofRat (r : Rat) : GRat := ⟨r, 0⟩
end GRat

/-! ### driver -/
open WB.IO

def flatIndex (shape : List Nat) (idx : Nat → Nat) : Nat :=
  (shape.zipIdx).foldl (fun acc (d, a) => acc * d + idx a) 0

def unflatten (shape : List Nat) (p : Nat) : Nat → Nat :=
  let rec go : List Nat → Nat → List Nat → List Nat
    | [], _, acc => acc
    | d :: rest, q, acc => go rest (q / d) ((q % d) :: acc)
  let l := go shape.reverse p []
  fun a => l.getD a 0

def arrOf (shape : List Nat) (re im : List Rat) : Arr GRat :=
  fun idx => let p := flatIndex shape idx; ⟨re.getD p 0, im.getD p 0⟩

def showArr (shape : List Nat) (A : Arr GRat) : String :=
  let l := (List.range (shape.foldl (· * ·) 1)).map (fun p => A (unflatten shape p))
  showRats (l.map (·.re)) ++ " " ++ showRats (l.map (·.im))

/-- transform token: `N` or `factor:conj:transpose:swap` with transpose = `N` | ints, swap = `N` | `i,j` -/
def parseTransform? (s : String) : Option (Option Transform) :=
  if s = "N" then some none else
  match s.splitOn ":" with
  | [f, c, tr, sw] =>
    match parseInt? f, parseBool? c with
    | some f, some c =>
      let tr? : Option (Option (List Nat)) := if tr = "N" then some none else (parseNats? tr).map some
      let sw? : Option (Option (Nat × Nat)) :=
        if sw = "N" then some none else
          match parseNats? sw with
          | some [i, j] => some (some (i, j))
          | _ => none
      match tr?, sw? with
      | some tr, some sw => some (some ⟨f, c, tr, sw⟩)
      | _, _ => none
    | _, _ => none
  | _ => none

def showTransform : Option Transform → String
  | none => "N"
  | some t => toString t.factor ++ ":" ++ showBool t.conj ++ ":" ++
      (match t.transpose with | none => "N" | some p => showNats p) ++ ":" ++
      (match t.swap with | none => "N" | some (i, j) => toString i ++ "," ++ toString j)

def showErr : Err → String
  | .assertion => "err:assertion" | .runtime => "err:runtime" | .attribute => "err:attribute"
  | .type => "err:type" | .key => "err:key" | .unmodelled => "err:unmodelled"

def parseMode (s : String) : Bool × Bool := (s.contains 'b', s.contains 't')
def showMode (b t : Bool) : String := if b && t then "bt" else if b then "b" else if t then "t" else "n"

def strList (s : String) : List String := if s = "_" then [] else s.splitOn ","
def showStrs (l : List String) : String := if l.isEmpty then "_" else ",".intercalate l

/-- an EnergyResult from 11 tokens:
    shape energies re im smoothers tTR tInv rank titles mode comment -/
def parseERes? : List String → Option (ERes GRat)
  | [sh, en, re, im, sm, ttr, tinv, rk, ti, mode, cm] =>
    match parseNats? sh, parseRatss? en, parseRats? re, parseRats? im, parseNats? sm,
          parseTransform? ttr, parseTransform? tinv, parseNat? rk with
    | some shape, some energies, some re, some im, some sm, some ttr, some tinv, some rank =>
      let (b, t) := parseMode mode
      some { energies := energies, shape := shape, data := arrOf shape re im, smoothers := sm,
             tTR := ttr, tInv := tinv, rank := rank, titles := mkTitles energies.length (strList ti),
             saveBin := b, saveTxt := t, comment := cm }
    | _, _, _, _, _, _, _, _ => none
  | _ => none

def showERes (r : ERes GRat) : String :=
  "E " ++ showNats r.shape ++ " " ++ showRatss r.energies ++ " " ++ showArr r.shape r.data ++ " " ++
    showNats r.smoothers ++ " " ++ showTransform r.tTR ++ " " ++ showTransform r.tInv ++ " " ++
    toString r.rank ++ " " ++ showStrs r.titles ++ " " ++ showMode r.saveBin r.saveTxt ++ " " ++ r.comment

/-- a result: `V` or `E` followed by the 11 tokens -/
def parseRes? : List String → Option (Res GRat × List String)
  | "V" :: rest => some (.void, rest)
  | "E" :: rest =>
    match parseERes? (rest.take 11) with
    | some r => if rest.length ≥ 11 then some (.energy r, rest.drop 11) else none
    | none => none
  | _ => none

def showRes : Res GRat → String
  | .void => "V"
  | .energy r => showERes r

def showExcept (f : α → String) : Except Err α → String
  | .ok a => f a
  | .error e => showErr e

def parseGRat? (s : String) : Option GRat :=
  match s.splitOn "+i" with
  | [a] => (parseRat? a).map GRat.ofRat
  | [a, b] => match parseRat? a, parseRat? b with
    | some a, some b => some ⟨a, b⟩
    | _, _ => none
  | _ => none

def parseSym? (r tr : String) : Option (Sym GRat) :=
  match parseRats? r, parseBool? tr with
  | some l, some tr =>
    if l.length ≠ 9 then none else
    -- PointSymmetry.__init__: Inv = det(R) < 0, R := R * (-1 if Inv else 1)
    let m : Nat → Nat → Rat := fun i j => l.getD (3 * i + j) 0
    let det := m 0 0 * (m 1 1 * m 2 2 - m 1 2 * m 2 1) - m 0 1 * (m 1 0 * m 2 2 - m 1 2 * m 2 0)
               + m 0 2 * (m 1 0 * m 2 1 - m 1 1 * m 2 0)
    let inv := decide (det < 0)
    some ⟨fun i j => GRat.ofRat (if inv then -(m i j) else m i j), tr, inv⟩
  | _, _ => none

/-- K-result tokens: dim nband rank tTR tInv blockshapes(`;`) re(`;`) im(`;`) -/
def parseKRes? : List String → Option (KRes GRat)
  | [dim, nb, rk, ttr, tinv, shs, res, ims] =>
    match parseNat? dim, parseNat? nb, parseNat? rk, parseTransform? ttr, parseTransform? tinv,
          parseNatss? shs, parseRatss? res, parseRatss? ims with
    | some dim, some nb, some rk, some ttr, some tinv, some shs, some res, some ims =>
      let blocks := (shs.zip (res.zip ims)).map (fun (sh, re, im) => (⟨sh.getD 0 0, arrOf sh re im⟩ : KBlock GRat))
      some ⟨blocks, ttr, tinv, rk, dim, nb⟩
    | _, _, _, _, _, _, _, _ => none
  | _ => none

/-- shape of the stacked data: total nk followed by the trailing shape given by the caller -/
def showKRes (tail : List Nat) (a : KRes GRat) : String :=
  let shape := a.nkTot :: tail
  "K " ++ showNats shape ++ " " ++ showArr shape a.data ++ " " ++ toString a.blocks.length ++ " " ++
    toString a.rank ++ " " ++ showTransform a.tTR ++ " " ++ showTransform a.tInv

/-- dictionary tokens `key=<type>:<payload>` for `fromdict` -/
def parseKey? (s : String) : Option Key :=
  if s = "E_titles" then some .E_titles else if s = "data" then some .data else if s = "rank" then some .rank
  else if s = "transformTR" then some .transformTR else if s = "transformInv" then some .transformInv
  else if s = "comment" then some .comment else if s = "type" then some .type
  else match s.splitOn "Energies_" with
    | ["", i] => (parseNat? i).map Key.energies
    | _ => none

def showKey : Key → String
  | .E_titles => "E_titles" | .data => "data" | .rank => "rank" | .transformTR => "transformTR"
  | .transformInv => "transformInv" | .comment => "comment" | .type => "type"
  | .energies i => "Energies_" ++ toString i

def parseEntry? (s : String) : Option (Key × Value GRat) :=
  match s.splitOn "=" with
  | [k0, v] =>
    match parseKey? k0 with
    | none => none
    | some k =>
    match v.splitOn "|" with
    | ["s", l] => some (k, .strs (strList l))
    | ["c", c] => some (k, .str c)
    | ["r", l] => (parseRats? l).map (fun e => (k, .reals e))
    | ["n", n] => (parseNat? n).map (fun n => (k, .nat n))
    | ["t", t] => match parseTransform? t with
      | some (some t) => some (k, .tdict t)
      | some none => some (k, .noneV)
      | none => none
    | ["a", sh, re, im] =>
      match parseNats? sh, parseRats? re, parseRats? im with
      | some sh, some re, some im => some (k, .arr sh (arrOf sh re im))
      | _, _, _ => none
    | _ => none
  | _ => none

def showValue : Value GRat → String
  | .strs l => "s|" ++ showStrs l
  | .str c => "c|" ++ c
  | .reals l => "r|" ++ showRats l
  | .nat n => "n|" ++ toString n
  | .tdict t => "t|" ++ showTransform (some t)
  | .noneV => "t|N"
  | .arr sh a => "a|" ++ showNats sh ++ "|" ++ ((showArr sh a).replace " " "|")

def showDict (d : Dict GRat) : String := " ".intercalate (d.map (fun kv => showKey kv.1 ++ "=" ++ showValue kv.2))

def cjG : GRat → GRat := GRat.conj

def handle : List String → String
  -- binary operations on results:  add|sub  <res> <rhs>   where rhs = Z | NONE | <res>
  | "add" :: rest =>
    match parseRes? rest with
    | some (a, ["Z"]) => showExcept showRes (a.add .zero)
    | some (a, ["NONE"]) => showExcept showRes (a.add .none)
    | some (a, rest') => match parseRes? rest' with
      | some (b, []) => showExcept showRes (a.add (.res b))
      | _ => "bad-op"
    | none => "bad-op"
  | "sub" :: rest =>
    match parseRes? rest with
    | some (a, rest') => match parseRes? rest' with
      | some (b, []) => showExcept showRes (a.sub b)
      | _ => "bad-op"
    | none => "bad-op"
  | "mul" :: c :: rest =>
    match parseGRat? c, parseRes? rest with
    | some c, some (a, []) => showRes (a.mul c)
    | _, _ => "bad-op"
  | "div" :: c :: rest =>
    match parseGRat? c, parseRes? rest with
    | some c, some (a, []) => showRes (a.div c)
    | _, _ => "bad-op"
  -- mularray <axes> <wshape> <wre> <wim> <res>
  | "mularray" :: ax :: wsh :: wre :: wim :: rest =>
    match parseNats? ax, parseNats? wsh, parseRats? wre, parseRats? wim, parseRes? rest with
    | some ax, some wsh, some wre, some wim, some (.energy a, []) => showERes (a.mulArray (arrOf wsh wre wim) ax)
    | _, _, _, _, _ => "bad-op"
  -- transform <R(9)> <TR> <res>
  | "transform" :: r :: tr :: rest =>
    match parseSym? r tr, parseRes? rest with
    | some g, some (a, []) => showExcept showRes (a.transform cjG g)
    | _, _ => "bad-op"
  -- ttensor <R> <TR> <shape> <rank> <tTR> <tInv> <re> <im>    (PointSymmetry.transform_tensor alone)
  | ["ttensor", r, tr, sh, rk, ttr, tinv, re, im] =>
    match parseSym? r tr, parseNats? sh, parseNat? rk, parseTransform? ttr, parseTransform? tinv,
          parseRats? re, parseRats? im with
    | some g, some sh, some rk, some (some ttr), some (some tinv), some re, some im =>
      showArr sh (transformTensor cjG g sh.length rk ttr tinv (arrOf sh re im))
    | _, _, _, _, _, _, _ => "bad-op"
  -- tcall <shape> <transform> <re> <im>      (Transform.__call__ alone)
  | ["tcall", sh, t, re, im] =>
    match parseNats? sh, parseTransform? t, parseRats? re, parseRats? im with
    | some sh, some (some t), some re, some im => showArr sh (t.apply cjG sh.length (arrOf sh re im))
    | _, _, _, _ => "bad-op"
  | ["teq", a, b] =>
    match parseTransform? a, parseTransform? b with
    | some (some a), some (some b) => showBool (a.eqv b)
    | _, _ => "bad-op"
  -- K results:  kadd|ksub|kaddip <tail shape> <kres(8)> <kres(8)> ;  kmul|kdiv <tail> <c> <kres> ; ktransform <tail> <R> <TR> <kres>
  | "kadd" :: tl :: rest =>
    match parseNats? tl, parseKRes? (rest.take 8), parseKRes? (rest.drop 8) with
    | some tl, some a, some b => showExcept (showKRes tl) (a.add b)
    | _, _, _ => "bad-op"
  | "ksub" :: tl :: rest =>
    match parseNats? tl, parseKRes? (rest.take 8), parseKRes? (rest.drop 8) with
    | some tl, some a, some b => showExcept (showKRes tl) (a.sub b)
    | _, _, _ => "bad-op"
  | "kaddip" :: tl :: rest =>
    match parseNats? tl, parseKRes? (rest.take 8), parseKRes? (rest.drop 8) with
    | some tl, some a, some b => showKRes tl (a.addInPlace b)
    | _, _, _ => "bad-op"
  -- kaddrhs <tail> <Z|NONE|V> <kres(8)>
  | "kaddrhs" :: tl :: r :: rest =>
    match parseNats? tl, parseKRes? rest with
    | some tl, some a =>
      if r = "Z" then showExcept (showKRes tl) (a.addRhs .zero)
      else if r = "NONE" then showExcept (showKRes tl) (a.addRhs .none)
      else if r = "V" then showExcept (showKRes tl) (a.addRhs .void) else "bad-op"
    | _, _ => "bad-op"
  | "kmul" :: tl :: c :: rest =>
    match parseNats? tl, parseGRat? c, parseKRes? rest with
    | some tl, some c, some a => showKRes tl (a.mul c)
    | _, _, _ => "bad-op"
  | "kdiv" :: tl :: c :: rest =>
    match parseNats? tl, parseGRat? c, parseKRes? rest with
    | some tl, some c, some a => showKRes tl (a.div c)
    | _, _, _ => "bad-op"
  | "ktransform" :: tl :: r :: tr :: rest =>
    match parseNats? tl, parseSym? r tr, parseKRes? rest with
    | some tl, some g, some a => showExcept (showKRes tl) (a.transform cjG g)
    | _, _, _ => "bad-op"
  -- rdkeys <keysA> <keysB>: key list of  ResultDict(A) + ResultDict(B)  (all values void)
  | ["rdkeys", ka, kb] =>
    let d : RDict GRat := (strList ka).map (fun k => (k, Res.void))
    let e : RDict GRat := (strList kb).map (fun k => (k, Res.void))
    showExcept (fun r => showStrs (r.map (·.1))) (d.add e)
  -- rdkeysrhs <keysA> <Z|NONE|V>
  | ["rdkeysrhs", ka, r] =>
    let d : RDict GRat := (strList ka).map (fun k => (k, Res.void))
    let rhs : Option (RhsOf (RDict GRat)) :=
      if r = "Z" then some .zero else if r = "NONE" then some .none else if r = "V" then some .void else none
    match rhs with
    | some rhs => showExcept (fun r => showStrs (r.map (·.1))) (d.addRhs rhs)
    | none => "bad-op"
  | "asdict" :: rest =>
    match parseRes? rest with
    | some (a, []) => showExcept showDict a.asDict
    | _ => "bad-op"
  | "fromdict" :: entries =>
    match entries.mapM parseEntry? with
    | some d => showExcept showRes (fromDict d)
    | none => "bad-op"
  | ["titles", n, t] =>
    match parseNat? n with
    | some n => showStrs (mkTitles n (strList t))
    | none => "bad-op"
  | _ => "bad-op"

end WB.C16
