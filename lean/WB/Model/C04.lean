/-
  C04 — periodicity in k and gauge independence.   Core Lean only.

  Models of
    wannierberri/data_K/data_K.py : Data_K.kpoints_all (`% 1`), Data_K.degen, Data_K.UU_K (random gauge inside the
                                    degenerate groups), Data_K._rotate
    wannierberri/system/system_kp.py : SystemKP.k_to_1BZ
    wannierberri/fourier/rvectors.py : the phase `expdK = exp(2 pi i R.dK)` (for k on the quarter grid, where it is a
                                    Gaussian rational)
  Scalars are polymorphic (`K` with arithmetic notation, conjugation as a parameter); the driver runs at `GRat`.
-/
import WB.Model.IO
import WB.Model.C15
import WB.Model.C27
namespace WB.C04
open WB.C27 (GRat)

/-! ### k-point bookkeeping -/

/-- numpy `x % 1` for a float `x` : `x - floor x` ∈ [0, 1) -/
def mod1 (x : Rat) : Rat := x - x.floor

/-- `Data_K.kpoints_all = (grid.points_FFT + dK[None]) % 1`, one component -/
def kpointAll (pointFFT dK : Rat) : Rat := mod1 (pointFFT + dK)

/-- `SystemKP.k_to_1BZ = (k + 0.5) % 1 - 0.5` -/
def kTo1BZ (k : Rat) : Rat := mod1 (k + 1/2) - 1/2

/-- powers of the imaginary unit -/
def iPow (n : Nat) : GRat :=
  match n % 4 with
  | 0 => ⟨1, 0⟩
  | 1 => ⟨0, 1⟩
  | 2 => ⟨-1, 0⟩
  | _ => ⟨0, -1⟩

/-- `expdK = exp(2 pi i R.dK)` for `dK = q/4` with integer `q` (a 4-th root of unity): `i^(q.R mod 4)` -/
def phase4 (q R : List Int) : GRat :=
  iPow (((List.zipWith (· * ·) q R).foldl (· + ·) 0) % 4).toNat

/-! ### degenerate groups -/

/-- `Data_K.degen` for one k-point: the blocks of `[0] + cuts + [n]` (cut where the gap is `> thr`) that contain
    more than one band -/
def degenGroups (E : Nat → Rat) (thr : Rat) (n : Nat) : List (Nat × Nat) :=
  (WB.C15.blocks E thr n false).filter (fun ab => decide (ab.2 - ab.1 > 1))

/-! ### matrices (as functions on indices) -/

section
variable {K : Type} [Add K] [Mul K] [Zero K]

def sumRange (n : Nat) (f : Nat → K) : K := ((List.range n).map f).sum

/-- `Data_K._rotate`: `einsum('ba,bc,cd->ad', UU.conj(), mat, UU)`  =  (U† X U)[a,d] -/
def rotate (conj : K → K) (n : Nat) (U X : Nat → Nat → K) (a d : Nat) : K :=
  sumRange n fun b => sumRange n fun c => conj (U b a) * X b c * U c d

def traceM (n : Nat) (X : Nat → Nat → K) : K := sumRange n fun i => X i i

/-- matrix product of index functions (`einsum("LM,MN->LN")`) -/
def mulM (n : Nat) (A B : Nat → Nat → K) (i j : Nat) : K := sumRange n fun k => A i k * B k j

/-- `FormulaProduct.nn`: `res = matrices[0]; for mat in matrices[1:]: res = einsum("LM..,MN..->LN..", res, mat)` -/
def chainM (n : Nat) (M0 : Nat → Nat → K) (rest : List (Nat → Nat → K)) : Nat → Nat → K :=
  rest.foldl (mulM n) M0

/-- `Matrix_ln.nn`: `matrix[ik][inn][:, inn]` -/
def subM (inn : List Nat) (X : Nat → Nat → K) (i j : Nat) : K := X (inn.getD i 0) (inn.getD j 0)

/-- `Formula_ln.trace` of a `FormulaProduct` of `Matrix_ln` factors over the inner states `inn` -/
def productTrace (inn : List Nat) (Ms : List (Nat → Nat → K)) : K :=
  match Ms.map (subM inn) with
  | [] => 0
  | M0 :: rest => traceM inn.length (chainM inn.length M0 rest)

/-- a variant that closes the chain with the LAST factor transposed (`Tr(A·B·Cᵀ)`): not gauge invariant, kept for
    the counterexample `Props/C04.lean: transposed_last_factor_not_invariant` -/
def productTraceLastT (inn : List Nat) (Ms : List (Nat → Nat → K)) : K :=
  match (Ms.map (subM inn)).reverse with
  | [] => 0
  | C :: revinit =>
    match revinit.reverse with
    | [] => traceM inn.length C
    | M0 :: mid => traceM inn.length (mulM inn.length (chainM inn.length M0 mid) (fun i j => C j i))

/-- the group (if any) that contains column `j` -/
def groupOf (groups : List (Nat × Nat)) (j : Nat) : Option (Nat × Nat × Nat) :=
  (groups.zipIdx.find? (fun g => decide (g.1.1 ≤ j) && decide (j < g.1.2))).map (fun g => (g.2, g.1.1, g.1.2))

/-- `Data_K.UU_K` with `random_gauge`: `UU[:, ib1:ib2] = UU[:, ib1:ib2].dot(W_g)` for every degenerate group `g`;
    columns outside the groups are untouched.  `W g` is the matrix drawn for the g-th group. -/
def applyGauge (groups : List (Nat × Nat)) (W : Nat → Nat → Nat → K) (UU : Nat → Nat → K) (r j : Nat) : K :=
  match groupOf groups j with
  | some (g, a, b) => sumRange (b - a) fun i => UU r (a + i) * W g i (j - a)
  | none => UU r j
end


/-! ### covariant expressions: one syntax for every formula class

  A formula class of `formula/covariant.py` computes, for an inner band set `inn` and the outer set `out`, blocks
  (`nn`, `nl`, `ln`, `ll`) from blocks of Hamiltonian-gauge matrices `Xbar(name, der)` by sums, products over a shared
  inner or outer index, Hermitian conjugation, scalar factors and element-wise factors that depend only on the two
  band energies (`dEig_inv`, `E_out`, `(E_m+E_n)/2`).  `CExpr` is that syntax; `eval` is its meaning, executed by the
  driver at `GRat` and used as such by the covariance theorem (`Lemmas/C04Expr.lean`). -/

inductive Side | inn | out
deriving DecidableEq, Repr

def Side.other : Side → Side
  | .inn => .out
  | .out => .inn

inductive CExpr (K : Type) : Side → Side → Type
  /-- block (r, c) of `Xbar(name, der)[..., comps]` -/
  | atom (name : String) (der : Nat) (comps : List Nat) (r c : Side) : CExpr K r c
  | zero (r c : Side) : CExpr K r c
  | add {r c : Side} : CExpr K r c → CExpr K r c → CExpr K r c
  | sub {r c : Side} : CExpr K r c → CExpr K r c → CExpr K r c
  | neg {r c : Side} : CExpr K r c → CExpr K r c
  | smul {r c : Side} (a : K) : CExpr K r c → CExpr K r c
  /-- matrix product over the shared index set `m` (`einsum("ml..,ln..->mn..")`) -/
  | mul {r m c : Side} : CExpr K r m → CExpr K m c → CExpr K r c
  /-- `X.swapaxes(0,1).conj()` -/
  | herm {r c : Side} : CExpr K c r → CExpr K r c
  /-- element-wise factor `φ(E_row, E_col)` -/
  | had {r c : Side} (φ : K → K → K) : CExpr K r c → CExpr K r c

/-- the blocks of the atoms, the block sizes and the band energies of the two index sets -/
structure BEnv (K : Type) where
  dim : Side → Nat
  blk : String → Nat → List Nat → Side → Side → Nat → Nat → K
  en : Side → Nat → K

section
variable {K : Type} [Add K] [Mul K] [Sub K] [Neg K] [Zero K]

def CExpr.eval (conj : K → K) (env : BEnv K) : {r c : Side} → CExpr K r c → Nat → Nat → K
  | _, _, .atom name der comps r c => env.blk name der comps r c
  | _, _, .zero _ _ => fun _ _ => 0
  | _, _, .add a b => fun i j => a.eval conj env i j + b.eval conj env i j
  | _, _, .sub a b => fun i j => a.eval conj env i j - b.eval conj env i j
  | _, _, .neg a => fun i j => -(a.eval conj env i j)
  | _, _, .smul k a => fun i j => k * a.eval conj env i j
  | _, _, .mul (m := m) a b => fun i j => sumRange (env.dim m) fun t => a.eval conj env i t * b.eval conj env t j
  | _, _, .herm a => fun i j => conj (a.eval conj env j i)
  | r, c, .had φ a => fun i j => a.eval conj env i j * φ (env.en r i) (env.en c j)

/-! #### formula classes as expressions (each mirrors the `nn`/`ln` body of the class of the same name) -/

/-- a formula with Cartesian indices: components ↦ the four blocks -/
abbrev Fm (K : Type) := List Nat → (r c : Side) → CExpr K r c

/-- a formula that only has the diagonal blocks `nn` (and `ll` with the roles exchanged) -/
abbrev FmNN (K : Type) := List Nat → (r : Side) → CExpr K r r

/-- `Matrix_ln(Xbar(name, der))` -/
def Xm (name : String) (der : Nat) : Fm K := fun cs r c => .atom name der cs r c

/-- `Dcov = Matrix_ln(D_H)`, `D_H = -Xbar('Ham',1) * dEig_inv`;  `dei x y = dEig_inv` as a function of the energies -/
def Dm (dei : K → K → K) : Fm K := fun cs r c => .had dei (.neg (.atom "Ham" 1 cs r c))

/-- `Matrix_GenDer_ln(A, dA, D)`; the last Cartesian index is the derivative direction:
    block (r,c) = `dA[r,c] - D[r,r̄]·A[r̄,c] + A[r,c̄]·D[c̄,c]`  (nn: `dA.nn - D.nl A.ln + A.nl D.ln`,
    ln: `dA.ln - D.ln A.nn + A.ll D.ln`) -/
def genDer (A dA D : Fm K) : Fm K := fun cs r c =>
  let b := cs.dropLast
  let d := [cs.getLastD 0]
  .add (.sub (dA cs r c) (.mul (D d r r.other) (A b r.other c))) (.mul (A b r c.other) (D d c.other c))

/-- `data_K.covariant('Ham', gender=1)` = `V_covariant`: `Xbar('Ham',1)` on the diagonal blocks, zero `ln`/`nl` -/
def Vcov : Fm K := fun cs r c => if r = c then .atom "Ham" 1 cs r c else .zero r c

/-- `data_K.covariant(name, gender=1)` for `name ≠ 'Ham'` -/
def covGender (dei : K → K → K) (name : String) : Fm K := genDer (Xm name 0) (Xm name 1) (Dm dei)

/-- `InvMass = Matrix_GenDer_ln(covariant('Ham',commader=1), covariant('Ham',commader=2), Dcov)` -/
def invMass (dei : K → K → K) : Fm K := genDer (Xm "Ham" 1) (Xm "Ham" 2) (Dm dei)

/-- `DerWln = Matrix_GenDer_ln(covariant('Ham',2), covariant('Ham',3), Dcov)` -/
def derWln (dei : K → K → K) : Fm K := genDer (Xm "Ham" 2) (Xm "Ham" 3) (Dm dei)

/-- `DerDcov.ln[b,d]` (and `nl` by exchanging the roles of the sets):
    `-(W[b,d] + V.ll[b] D[d] + V.ll[d] D[b] - D[b] V.nn[d] - D[d] V.nn[b]) * dEinv`, `V = covariant('Ham', gender=1)` -/
def derDcov (dei : K → K → K) : Fm K := fun cs r c =>
  let b := [cs.getD 0 0]
  let d := [cs.getD 1 0]
  let D := Dm dei
  .had dei (.neg
    (.sub (.sub (.add (.add (Xm "Ham" 2 cs r c) (.mul (Vcov b r r) (D d r c))) (.mul (Vcov d r r) (D b r c)))
      (.mul (D b r c) (Vcov d c c))) (.mul (D d r c) (Vcov b c c))))

def alpha (c : Nat) : Nat := (c + 1) % 3
def beta (c : Nat) : Nat := (c + 2) % 3

/-- `x + x.swapaxes(0,1).conj()` -/
def plusHerm {r : Side} (x : CExpr K r r) : CExpr K r r := .add x (.herm x)

/-- `Omega.nn[c]` -/
def omegaE (I half : K) (dei : K → K → K) (int ext : Bool) (oo : String) : FmNN K := fun cs r =>
  let c := cs.getD 0 0
  let D := Dm dei
  let A := Xm (K := K) "AA" 0
  let o := r.other
  let s0 : CExpr K r r := .zero r r
  let s1 := if int then .add s0 (.smul (-I) (.mul (D [alpha c] r o) (D [beta c] o r))) else s0
  let s2 := if ext then
      .add (.add (.sub (.add s1 (.smul half (Xm oo 0 [c] r r))) (.mul (D [alpha c] r o) (A [beta c] o r)))
        (.mul (D [beta c] r o) (A [alpha c] o r))) (.smul (-I) (.mul (A [alpha c] r r) (A [beta c] r r)))
    else s1
  plusHerm s2

/-- `DerOmega.nn[c,d]` -/
def derOmegaE (I half : K) (dei : K → K → K) (int ext : Bool) (oo : String) : FmNN K := fun cs r =>
  let c := cs.getD 0 0
  let d := cs.getD 1 0
  let D := Dm dei
  let dD := derDcov dei
  let A := Xm (K := K) "AA" 0
  let dA := covGender dei "AA"
  let dO := covGender dei oo
  let o := r.other
  let s0 : CExpr K r r := if ext then .smul half (dO [c, d] r r) else .zero r r
  let term (sg : Bool) (a b : Nat) (acc : CExpr K r r) : CExpr K r r :=
    let sgn (x : CExpr K r r) : CExpr K r r := if sg then x else .neg x
    let acc1 := if int then .add acc (sgn (.smul (-I) (.mul (D [a] r o) (dD [b, d] o r)))) else acc
    if ext then
      .add (.add (.add acc1 (sgn (.neg (.mul (D [a] r o) (dA [b, d] o r)))))
        (sgn (.neg (.mul (dD [a, d] r o) (A [b] o r))))) (sgn (.smul (-I) (.mul (A [a] r r) (dA [b, d] r r))))
    else acc1
  plusHerm (term false (beta c) (alpha c) (term true (alpha c) (beta c) s0))

def eCol : K → K → K := fun _ y => y
def eRow : K → K → K := fun x _ => x

/-- `Morb_H.nn[c]` -/
def morbHE (I half : K) (dei : K → K → K) (int ext : Bool) : FmNN K := fun cs r =>
  let c := cs.getD 0 0
  let D := Dm dei
  let A := Xm (K := K) "AA" 0
  let B := Xm (K := K) "BB" 0
  let o := r.other
  let s0 : CExpr K r r := .zero r r
  let s1 := if int then .add s0 (.smul (-I) (.mul (.had eCol (D [alpha c] r o)) (D [beta c] o r))) else s0
  let s2 := if ext then
      .add (.add (.sub (.add s1 (.smul half (Xm "CC" 0 [c] r r))) (.mul (D [alpha c] r o) (B [beta c] o r)))
        (.mul (D [beta c] r o) (B [alpha c] o r)))
        (.smul (-I) (.mul (.had eCol (A [alpha c] r r)) (A [beta c] r r)))
    else s1
  plusHerm s2

/-- `Morb_Hpm.nn[c] = Morb_H.nn + sign * Eav.nn * Omega.nn`  (`sgn` = the number `sign`) -/
def morbHpmE (I half sgn : K) (dei : K → K → K) (int ext : Bool) (oo : String) : FmNN K := fun cs r =>
  .add (morbHE I half dei int ext cs r)
    (.smul sgn (.had (fun x y => half * (x + y)) (omegaE I half dei int ext oo cs r)))

/-- `Der3E.nn[a,b,c]` -/
def der3E (dei : K → K → K) : FmNN K := fun cs r =>
  let a := cs.getD 0 0
  let b := cs.getD 1 0
  let c := cs.getD 2 0
  let D := Dm dei
  let V := Xm (K := K) "Ham" 1
  let dV := invMass dei
  let dD := derDcov dei
  let o := r.other
  .sub (.sub (.add (.add (derWln dei [a, b, c] r r) (.mul (dV [a, c] r o) (D [b] o r)))
    (.mul (V [a] r o) (dD [b, c] o r))) (.mul (dD [b, c] r o) (V [a] o r))) (.mul (D [b] r o) (dV [a, c] o r))

/-- `Der2Spin.nn[b,d,e]` (the same body serves `Der2A`, `Der2B`, `Der2O`, `Der2H` with another matrix name) -/
def der2X (dei : K → K → K) (name : String) : Fm K := fun cs r c =>
  let e := [cs.getLastD 0]
  let bd := cs.dropLast
  let d := [bd.getLastD 0]
  let b := bd.dropLast
  let D := Dm dei
  let dD := derDcov dei
  let S := Xm (K := K) name 0
  let dS := covGender dei name
  let Sde := genDer (Xm name 1) (Xm name 2) D
  let ro := r.other
  let co := c.other
  .add (.add (.sub (.sub (Sde cs r c) (.mul (dD (d ++ e) r ro) (S b ro c))) (.mul (D d r ro) (dS (b ++ e) ro c)))
    (.mul (S b r co) (dD (d ++ e) co c))) (.mul (dS (b ++ e) r co) (D d co c))

/-- `DerMorb_H.nn[c,d]` -/
def derMorbHE (I half : K) (dei : K → K → K) (int ext : Bool) : FmNN K := fun cs r =>
  let c := cs.getD 0 0
  let d := cs.getD 1 0
  let D := Dm dei
  let dD := derDcov dei
  let V := Xm (K := K) "Ham" 1
  let A := Xm (K := K) "AA" 0
  let dA := covGender dei "AA"
  let B := Xm (K := K) "BB" 0
  let dB := covGender dei "BB"
  let dH := covGender dei "CC"
  let o := r.other
  let two : K → K := fun x => x + x
  let s0 : CExpr K r r := .zero r r
  let termI (sg : Bool) (a b : Nat) (acc : CExpr K r r) : CExpr K r r :=
    let sgn (x : CExpr K r r) : CExpr K r r := if sg then x else .neg x
    .add acc (sgn (.smul (two (-I)) (.mul (D [a] r o) (.had eRow (dD [b, d] o r)))))
  let s1 := if int then
      termI false (beta c) (alpha c) (termI true (alpha c) (beta c)
        (.add s0 (.smul (two (-I)) (.mul (.mul (D [alpha c] r o) (V [d] o o)) (D [beta c] o r)))))
    else s0
  let termE (sg : Bool) (a b : Nat) (acc : CExpr K r r) : CExpr K r r :=
    let sgn (x : CExpr K r r) : CExpr K r r := if sg then x else .neg x
    .add (.add (.add acc (sgn (.smul (two (-I)) (.mul (.had eCol (A [a] r r)) (dA [b, d] r r)))))
      (sgn (.neg (.add (.mul (D [a] r o) (dB [b, d] o r)) (.mul (D [a] r o) (dB [b, d] o r))))))
      (sgn (.neg (.add (.mul (.herm (B [a] o r)) (dD [b, d] o r)) (.mul (.herm (B [a] o r)) (dD [b, d] o r)))))
  let s2 := if ext then
      termE false (beta c) (alpha c) (termE true (alpha c) (beta c)
        (.add (.add s1 (dH [c, d] r r))
          (.smul (two (-I)) (.mul (.mul (A [alpha c] r r) (V [d] r r)) (A [beta c] r r)))))
    else s1
  .smul half (plusHerm s2)

/-- `DerMorb.nn[c,d] = DerMorb_H.nn + sign * herm-part( Eav*dO + ½ O[c] V[d] + ½ V[d] O[c] )` -/
def derMorbE (I half sgn : K) (dei : K → K → K) (int ext : Bool) (oo : String) : FmNN K := fun cs r =>
  let c := cs.getD 0 0
  let d := cs.getD 1 0
  let V := Xm (K := K) "Ham" 1
  let O := omegaE I half dei int ext oo
  let dO := derOmegaE I half dei int ext oo
  let tmp : CExpr K r r :=
    .add (.add (.had (fun x y => half * (x + y)) (dO [c, d] r)) (.smul half (.mul (O [c] r) (V [d] r r))))
      (.smul half (.mul (V [d] r r) (O [c] r)))
  .add (derMorbHE I half dei int ext cs r) (.smul sgn (.smul half (plusHerm tmp)))


/-- sum of a list of terms -/
def sumE {r c : Side} (l : List (CExpr K r c)) : CExpr K r c := l.foldl .add (.zero r c)

def sgnE {r c : Side} (plus : Bool) (x : CExpr K r c) : CExpr K r c := if plus then x else .neg x

/-- `Der2Dcov.ln[b,d,e]` (and `nl` with the roles exchanged) -/
def der2Dcov (dei : K → K → K) : Fm K := fun cs r c =>
  let b := cs.getD 0 0
  let d := cs.getD 1 0
  let e := cs.getD 2 0
  let D := Dm dei
  let dD := derDcov dei
  let dV := invMass dei
  let V := Xm (K := K) "Ham" 1
  .had dei (.neg (sumE [
    derWln dei [b, d, e] r c,
    .mul (dV [b, e] r r) (D [d] r c),
    .mul (dV [d, e] r r) (D [b] r c),
    .mul (V [e] r r) (dD [b, d] r c),
    .mul (V [d] r r) (dD [b, e] r c),
    .mul (V [b] r r) (dD [d, e] r c),
    .neg (.mul (dD [d, e] r c) (V [b] c c)),
    .neg (.mul (dD [b, d] r c) (V [e] c c)),
    .neg (.mul (dD [b, e] r c) (V [d] c c)),
    .neg (.mul (D [b] r c) (dV [d, e] c c)),
    .neg (.mul (D [d] r c) (dV [b, e] c c))]))

/-- `Der2Omega.nn[c,d,e]` -/
def der2OmegaE (I half : K) (dei : K → K → K) (int ext : Bool) : FmNN K := fun cs r =>
  let c := cs.getD 0 0
  let d := cs.getD 1 0
  let e := cs.getD 2 0
  let D := Dm dei
  let dD := derDcov dei
  let ddD := der2Dcov dei
  let A := Xm (K := K) "AA" 0
  let dA := covGender dei "AA"
  let ddA := der2X dei "AA"
  let ddO := der2X dei "rotAA"
  let o := r.other
  let loop (pl : Bool) (a b : Nat) : List (CExpr K r r) :=
    (if int then [
      sgnE pl (.smul (-I) (.mul (dD [a, e] r o) (dD [b, d] o r))),
      sgnE pl (.smul (-I) (.mul (D [a] r o) (ddD [b, d, e] o r)))] else []) ++
    (if ext then [
      sgnE pl (.neg (.mul (dD [a, e] r o) (dA [b, d] o r))),
      sgnE pl (.neg (.mul (D [a] r o) (ddA [b, d, e] o r))),
      sgnE pl (.neg (.mul (ddD [a, d, e] r o) (A [b] o r))),
      sgnE pl (.neg (.mul (dD [a, d] r o) (dA [b, e] o r))),
      sgnE pl (.smul (-I) (.mul (dA [a, e] r r) (dA [b, d] r r))),
      sgnE pl (.smul (-I) (.mul (A [a] r r) (ddA [b, d, e] r r)))] else [])
  plusHerm (sumE ((if ext then [.smul half (ddO [c, d, e] r r)] else [])
    ++ loop true (alpha c) (beta c) ++ loop false (beta c) (alpha c)))

/-- `Der2Morb_H.nn[c,d,e]` -/
def der2MorbHE (I half : K) (dei : K → K → K) (int ext : Bool) : FmNN K := fun cs r =>
  let c := cs.getD 0 0
  let d := cs.getD 1 0
  let e := cs.getD 2 0
  let D := Dm dei
  let dD := derDcov dei
  let ddD := der2Dcov dei
  let V := Xm (K := K) "Ham" 1
  let dV := invMass dei
  let A := Xm (K := K) "AA" 0
  let dA := covGender dei "AA"
  let ddA := der2X dei "AA"
  let B := Xm (K := K) "BB" 0
  let dB := covGender dei "BB"
  let ddB := der2X dei "BB"
  let ddH := der2X dei "CC"
  let o := r.other
  let m2I : K := (-I) + (-I)
  let twice (x : CExpr K r r) : CExpr K r r := .add x x
  let loopI (pl : Bool) (a b : Nat) : List (CExpr K r r) := [
      sgnE pl (.smul (-I) (.mul (.mul (dD [a, e] r o) (V [d] o o)) (D [b] o r))),
      sgnE pl (.smul (-I) (.mul (.mul (D [a] r o) (V [d] o o)) (dD [b, e] o r))),
      sgnE pl (.smul m2I (.mul (dD [a, e] r o) (.had eRow (dD [b, d] o r)))),
      sgnE pl (.smul m2I (.mul (D [a] r o) (.had eRow (ddD [b, d, e] o r)))),
      sgnE pl (.smul m2I (.mul (.mul (D [a] r o) (V [e] o o)) (dD [b, d] o r)))]
  let loopE (pl : Bool) (a b : Nat) : List (CExpr K r r) := [
      sgnE pl (.smul (-I) (.mul (.mul (dA [a, e] r r) (V [d] r r)) (A [b] r r))),
      sgnE pl (.smul (-I) (.mul (.mul (A [a] r r) (V [d] r r)) (dA [b, e] r r))),
      sgnE pl (.smul m2I (.mul (.had eCol (dA [a, e] r r)) (dA [b, d] r r))),
      sgnE pl (.smul m2I (.mul (.had eCol (A [a] r r)) (ddA [b, d, e] r r))),
      sgnE pl (.smul m2I (.mul (.mul (A [a] r r) (V [e] r r)) (dA [b, d] r r))),
      sgnE pl (.neg (twice (.mul (dD [a, e] r o) (dB [b, d] o r)))),
      sgnE pl (.neg (twice (.mul (D [a] r o) (ddB [b, d, e] o r)))),
      sgnE pl (.neg (twice (.mul (.herm (dB [a, e] o r)) (dD [b, d] o r)))),
      sgnE pl (.neg (twice (.mul (.herm (B [a] o r)) (ddD [b, d, e] o r))))]
  let tI := if int then
      [.smul m2I (.mul (.mul (D [alpha c] r o) (dV [d, e] o o)) (D [beta c] o r))]
        ++ loopI true (alpha c) (beta c) ++ loopI false (beta c) (alpha c)
    else []
  let tE := if ext then
      [ddH [c, d, e] r r, .smul m2I (.mul (.mul (A [alpha c] r r) (dV [d, e] r r)) (A [beta c] r r))]
        ++ loopE true (alpha c) (beta c) ++ loopE false (beta c) (alpha c)
    else []
  .smul half (plusHerm (sumE (tI ++ tE)))

/-- `Der2Morb.nn[c,d,e]` -/
def der2MorbE (I half sgn : K) (dei : K → K → K) (int ext : Bool) (oo : String) : FmNN K := fun cs r =>
  let c := cs.getD 0 0
  let d := cs.getD 1 0
  let e := cs.getD 2 0
  let V := Xm (K := K) "Ham" 1
  let dV := invMass dei
  let O := omegaE I half dei int ext oo
  let dO := derOmegaE I half dei int ext oo
  let ddO := der2OmegaE I half dei int ext
  let tmp : CExpr K r r := sumE [
    .had (fun x y => half * (x + y)) (ddO [c, d, e] r),
    .smul half (.mul (dO [c, e] r) (V [d] r r)),
    .smul half (.mul (dO [c, d] r) (V [e] r r)),
    .smul half (.mul (V [d] r r) (dO [c, e] r)),
    .smul half (.mul (V [e] r r) (dO [c, d] r)),
    .smul half (.mul (O [c] r) (dV [d, e] r r)),
    .smul half (.mul (dV [d, e] r r) (O [c] r))]
  .add (der2MorbHE I half dei int ext cs r) (.smul sgn (.smul half (plusHerm tmp)))

/-- a product of inner blocks (`FormulaProduct.nn`): `res = x₀; for x in rest: res = res·x` -/
def prodE {r : Side} (x : CExpr K r r) (rest : List (CExpr K r r)) : CExpr K r r := rest.foldl .mul x
end

/-! ### driver -/
open WB.IO

/-! #### driver support for the formula classes -/

/-- `dEig_inv` as a function of two (real) energies, threshold `thr` -/
def deiG (thr : Rat) (x y : GRat) : GRat :=
  if decide (x.re - y.re < thr) && decide (y.re - x.re < thr) then ⟨0, 0⟩ else (x - y)⁻¹

/-- flattened tensor `T[m][n][comps...]` of an `N × N × 3^k` table -/
def flatGet (N : Nat) (re im : List Rat) (m n : Nat) (cs : List Nat) : GRat :=
  let k := cs.length
  let off := cs.foldl (fun acc c => acc * 3 + c) 0
  let pos := (m * N + n) * 3 ^ k + off
  ⟨re.getD pos 0, im.getD pos 0⟩

def mkEnv (N : Nat) (inn out : List Nat) (E : List Rat) (atoms : List (String × Nat × List Rat × List Rat)) :
    BEnv GRat where
  dim := fun s => match s with | .inn => inn.length | .out => out.length
  blk := fun name der cs r c i j =>
    let idx (s : Side) (t : Nat) : Nat := match s with | .inn => inn.getD t 0 | .out => out.getD t 0
    match atoms.find? (fun a => a.1 == name && a.2.1 == der) with
    | some a => flatGet N a.2.2.1 a.2.2.2 (idx r i) (idx c j) cs
    | none => ⟨0, 0⟩
  en := fun s t => GRat.ofRat (E.getD (match s with | .inn => inn.getD t 0 | .out => out.getD t 0) 0)

/-- the `nn` expression of a formula class by name, for Cartesian components `cs` -/
def classExpr (cls : String) (int ext : Bool) (sgn : Rat) (thr : Rat) (cs : List Nat) : Option (CExpr GRat .inn .inn) :=
  let I := GRat.I
  let half : GRat := ⟨1/2, 0⟩
  let dei := deiG thr
  let s : GRat := GRat.ofRat sgn
  let V := Xm (K := GRat) "Ham" 1
  match cls with
  | "Omega" => some (omegaE I half dei int ext "rotAA" cs .inn)
  | "DerOmega" => some (derOmegaE I half dei int ext "rotAA" cs .inn)
  | "Morb_H" => some (morbHE I half dei int ext cs .inn)
  | "Morb_Hpm" => some (morbHpmE I half s dei int ext "rotAA" cs .inn)
  | "DerMorb_H" => some (derMorbHE I half dei int ext cs .inn)
  | "DerMorb" => some (derMorbE I half s dei int ext "rotAA" cs .inn)
  | "Der3E" => some (der3E dei cs .inn)
  | "InvMass" => some (invMass dei cs .inn .inn)
  | "Spin" => some (Xm "SS" 0 cs .inn .inn)
  | "DerSpin" => some (covGender dei "SS" cs .inn .inn)
  | "Der2Spin" => some (der2X dei "SS" cs .inn .inn)
  | "Der2Omega" => some (der2OmegaE I half dei int ext cs .inn)
  | "Der2Morb_H" => some (der2MorbHE I half dei int ext cs .inn)
  | "Der2Morb" => some (der2MorbE I half s dei int ext "rotAA" cs .inn)
  | "Velocity" => some (Vcov cs .inn .inn)
  | "VelVelVel" => some (prodE (V [cs.getD 0 0] .inn .inn) [V [cs.getD 1 0] .inn .inn, V [cs.getD 2 0] .inn .inn])
  | "VelMassVel" => some (prodE (V [cs.getD 0 0] .inn .inn)
      [invMass dei [cs.getD 1 0, cs.getD 2 0] .inn .inn, V [cs.getD 3 0] .inn .inn])
  | "MassVel" => some (prodE (invMass dei [cs.getD 0 0, cs.getD 1 0] .inn .inn) [V [cs.getD 2 0] .inn .inn])
  | "VelOmega" => some (prodE (V [cs.getD 0 0] .inn .inn) [omegaE I half dei int ext "rotAA" [cs.getD 1 0] .inn])
  | _ => none

def parseAtoms : List String → Option (List (String × Nat × List Rat × List Rat))
  | nm :: re :: im :: rest =>
    match nm.splitOn ":", parseRats? re, parseRats? im, parseAtoms rest with
    | [n, d], some a, some b, some tl => (parseNat? d).map fun dd => (n, dd, a, b) :: tl
    | _, _, _, _ => none
  | [] => some []
  | _ => none

def showG (z : GRat) : String := showRat z.re ++ "," ++ showRat z.im

def mkM (re im : List (List Rat)) : Nat → Nat → GRat :=
  fun i j => ⟨(re.getD i []).getD j 0, (im.getD i []).getD j 0⟩

def showM (n m : Nat) (X : Nat → Nat → GRat) : String :=
  showListWith showG ";" ((List.range n).flatMap fun i => (List.range m).map fun j => X i j)

def showPairs (l : List (Nat × Nat)) : String :=
  showListWith (fun ab => toString ab.1 ++ "," ++ toString ab.2) ";" l

def handle : List String → String
  | ["kall", p, d] =>
    match parseRats? p, parseRats? d with
    | some ps, some ds => showRats (List.zipWith kpointAll ps ds)
    | _, _ => "bad-op"
  | ["k1bz", k] =>
    match parseRats? k with
    | some ks => showRats (ks.map kTo1BZ)
    | _ => "bad-op"
  | ["phase4", q, rs] =>
    match parseInts? q, parseIntss? rs with
    | some qq, some rr => showListWith showG ";" (rr.map (phase4 qq))
    | _, _ => "bad-op"
  | ["degen", e, th] =>
    match parseRats? e, parseRat? th with
    | some l, some t => if l.isEmpty then "bad-op" else showPairs (degenGroups (WB.C15.ofList l) t l.length)
    | _, _ => "bad-op"
  -- rotate n Ure Uim Xre Xim
  | ["rotate", n, ure, uim, xre, xim] =>
    match parseNat? n, parseRatss? ure, parseRatss? uim, parseRatss? xre, parseRatss? xim with
    | some n, some a, some b, some c, some d =>
      showM n n (rotate GRat.conj n (mkM a b) (mkM c d))
    | _, _, _, _, _ => "bad-op"
  -- gauge n UUre UUim groups Wre Wim   (all group matrices stacked: rows of group g are listed one after the other)
  | ["gauge", n, ure, uim, gr, wre, wim] =>
    match parseNat? n, parseRatss? ure, parseRatss? uim, parseNatss? gr, parseRatss? wre, parseRatss? wim with
    | some n, some a, some b, some g, some c, some d =>
      let groups := g.map fun ab => (ab.getD 0 0, ab.getD 1 0)
      -- offset of the rows of group number `gi` in the stacked tables
      let off : Nat → Nat := fun gi => ((groups.take gi).map fun ab => ab.2 - ab.1).foldl (· + ·) 0
      let W : Nat → Nat → Nat → GRat := fun gi i j => mkM c d (off gi + i) j
      showM n n (applyGauge groups W (mkM a b))
    | _, _, _, _, _, _ => "bad-op"
  -- ptrace inn M1re M1im M2re M2im ... : Re/Im of the trace over `inn` of the product of the factors
  | "ptrace" :: inn :: ms =>
    match parseNats? inn, ms.mapM parseRatss? with
    | some i, some tabs =>
      let rec pairUp : List (List (List Rat)) → List (Nat → Nat → GRat)
        | a :: b :: rest => mkM a b :: pairUp rest
        | _ => []
      showG (productTrace i (pairUp tabs))
    | _, _ => "bad-op"
  -- fx Class int ext sign thr N inn out E comps atoms... : the nn block of a formula class for the listed Cartesian
  -- component tuples; blocks are separated by '|'
  | "fx" :: cls :: int :: ext :: sg :: th :: n :: inn :: out :: e :: comps :: atoms =>
    match parseBool? int, parseBool? ext, parseRat? sg, parseRat? th, parseNat? n, parseNats? inn, parseNats? out,
      parseRats? e, parseNatss? comps, parseAtoms atoms with
    | some i, some x, some sgn, some thr, some N, some ii, some oo, some E, some css, some ats =>
      let env := mkEnv N ii oo E ats
      let blocks := css.map fun cs =>
        match classExpr cls i x sgn thr cs with
        | some ex => showM ii.length ii.length (ex.eval GRat.conj env)
        | none => "unknown-class"
      "|".intercalate blocks
    | _, _, _, _, _, _, _, _, _, _ => "bad-op"
  | _ => "bad-op"

end WB.C04
