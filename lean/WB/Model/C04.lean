/-
  C04 — periodicity in k and gauge independence.   Core Lean only.

  Models of
    wannierberri/data_K/data_K.py : Data_K.kpoints_all (`% 1`), Data_K.degen, Data_K.UU_K (random gauge inside the
                                    degenerate groups), Data_K._rotate
    wannierberri/system/system_kp.py : SystemKP.k_to_1BZ
    wannierberri/fourier/rvectors.py : the phase `expdK = exp(2 pi i R.dK)` (for k on the quarter grid, where it is a
                                    Gaussian rational)
  Scalars are polymorphic (`K` with arithmetic notation, conjugation as a parameter); the driver runs at `GRat`.
-/
import WB.Model.IO
import WB.Model.C15
import WB.Model.C27
namespace WB.C04
open WB.C27 (GRat)

/-! ### k-point bookkeeping -/

/-- numpy `x % 1` for a float `x` : `x - floor x` ∈ [0, 1) -/
def mod1 (x : Rat) : Rat := x - x.floor

/-- `Data_K.kpoints_all = (grid.points_FFT + dK[None]) % 1`, one component -/
def kpointAll (pointFFT dK : Rat) : Rat := mod1 (pointFFT + dK)

/-- `SystemKP.k_to_1BZ = (k + 0.5) % 1 - 0.5` -/
def kTo1BZ (k : Rat) : Rat := mod1 (k + 1/2) - 1/2

/-- powers of the imaginary unit -/
def iPow (n : Nat) : GRat :=
  match n % 4 with
  | 0 => ⟨1, 0⟩
  | 1 => ⟨0, 1⟩
  | 2 => ⟨-1, 0⟩
  | _ => ⟨0, -1⟩

/-- `expdK = exp(2 pi i R.dK)` for `dK = q/4` with integer `q` (a 4-th root of unity): `i^(q.R mod 4)` -/
def phase4 (q R : List Int) : GRat :=
  iPow (((List.zipWith (· * ·) q R).foldl (· + ·) 0) % 4).toNat

/-! ### degenerate groups -/

/-- `Data_K.degen` for one k-point: the blocks of `[0] + cuts + [n]` (cut where the gap is `> thr`) that contain
    more than one band -/
def degenGroups (E : Nat → Rat) (thr : Rat) (n : Nat) : List (Nat × Nat) :=
  (WB.C15.blocks E thr n false).filter (fun ab => decide (ab.2 - ab.1 > 1))

/-! ### matrices (as functions on indices) -/

section
variable {K : Type} [Add K] [Mul K] [Zero K]

def sumRange (n : Nat) (f : Nat → K) : K := ((List.range n).map f).sum

/-- `Data_K._rotate`: `einsum('ba,bc,cd->ad', UU.conj(), mat, UU)`  =  (U† X U)[a,d] -/
def rotate (conj : K → K) (n : Nat) (U X : Nat → Nat → K) (a d : Nat) : K :=
  sumRange n fun b => sumRange n fun c => conj (U b a) * X b c * U c d

def traceM (n : Nat) (X : Nat → Nat → K) : K := sumRange n fun i => X i i

/-- matrix product of index functions (`einsum("LM,MN->LN")`) -/
def mulM (n : Nat) (A B : Nat → Nat → K) (i j : Nat) : K := sumRange n fun k => A i k * B k j

/-- `FormulaProduct.nn`: `res = matrices[0]; for mat in matrices[1:]: res = einsum("LM..,MN..->LN..", res, mat)` -/
def chainM (n : Nat) (M0 : Nat → Nat → K) (rest : List (Nat → Nat → K)) : Nat → Nat → K :=
  rest.foldl (mulM n) M0

/-- `Matrix_ln.nn`: `matrix[ik][inn][:, inn]` -/
def subM (inn : List Nat) (X : Nat → Nat → K) (i j : Nat) : K := X (inn.getD i 0) (inn.getD j 0)

/-- `Formula_ln.trace` of a `FormulaProduct` of `Matrix_ln` factors over the inner states `inn` -/
def productTrace (inn : List Nat) (Ms : List (Nat → Nat → K)) : K :=
  match Ms.map (subM inn) with
  | [] => 0
  | M0 :: rest => traceM inn.length (chainM inn.length M0 rest)

/-- a variant that closes the chain with the LAST factor transposed (`Tr(A·B·Cᵀ)`): not gauge invariant, kept for
    the counterexample `Props/C04.lean: transposed_last_factor_not_invariant` -/
def productTraceLastT (inn : List Nat) (Ms : List (Nat → Nat → K)) : K :=
  match (Ms.map (subM inn)).reverse with
  | [] => 0
  | C :: revinit =>
    match revinit.reverse with
    | [] => traceM inn.length C
    | M0 :: mid => traceM inn.length (mulM inn.length (chainM inn.length M0 mid) (fun i j => C j i))

/-- the group (if any) that contains column `j` -/
def groupOf (groups : List (Nat × Nat)) (j : Nat) : Option (Nat × Nat × Nat) :=
  (groups.zipIdx.find? (fun g => decide (g.1.1 ≤ j) && decide (j < g.1.2))).map (fun g => (g.2, g.1.1, g.1.2))

/-- `Data_K.UU_K` with `random_gauge`: `UU[:, ib1:ib2] = UU[:, ib1:ib2].dot(W_g)` for every degenerate group `g`;
    columns outside the groups are untouched.  `W g` is the matrix drawn for the g-th group. -/
def applyGauge (groups : List (Nat × Nat)) (W : Nat → Nat → Nat → K) (UU : Nat → Nat → K) (r j : Nat) : K :=
  match groupOf groups j with
  | some (g, a, b) => sumRange (b - a) fun i => UU r (a + i) * W g i (j - a)
  | none => UU r j
end

/-! ### driver -/
open WB.IO

def showG (z : GRat) : String := showRat z.re ++ "," ++ showRat z.im

def mkM (re im : List (List Rat)) : Nat → Nat → GRat :=
  fun i j => ⟨(re.getD i []).getD j 0, (im.getD i []).getD j 0⟩

def showM (n m : Nat) (X : Nat → Nat → GRat) : String :=
  showListWith showG ";" ((List.range n).flatMap fun i => (List.range m).map fun j => X i j)

def showPairs (l : List (Nat × Nat)) : String :=
  showListWith (fun ab => toString ab.1 ++ "," ++ toString ab.2) ";" l

def handle : List String → String
  | ["kall", p, d] =>
    match parseRats? p, parseRats? d with
    | some ps, some ds => showRats (List.zipWith kpointAll ps ds)
    | _, _ => "bad-op"
  | ["k1bz", k] =>
    match parseRats? k with
    | some ks => showRats (ks.map kTo1BZ)
    | _ => "bad-op"
  | ["phase4", q, rs] =>
    match parseInts? q, parseIntss? rs with
    | some qq, some rr => showListWith showG ";" (rr.map (phase4 qq))
    | _, _ => "bad-op"
  | ["degen", e, th] =>
    match parseRats? e, parseRat? th with
    | some l, some t => if l.isEmpty then "bad-op" else showPairs (degenGroups (WB.C15.ofList l) t l.length)
    | _, _ => "bad-op"
  -- rotate n Ure Uim Xre Xim
  | ["rotate", n, ure, uim, xre, xim] =>
    match parseNat? n, parseRatss? ure, parseRatss? uim, parseRatss? xre, parseRatss? xim with
    | some n, some a, some b, some c, some d =>
      showM n n (rotate GRat.conj n (mkM a b) (mkM c d))
    | _, _, _, _, _ => "bad-op"
  -- gauge n UUre UUim groups Wre Wim   (all group matrices stacked: rows of group g are listed one after the other)
  | ["gauge", n, ure, uim, gr, wre, wim] =>
    match parseNat? n, parseRatss? ure, parseRatss? uim, parseNatss? gr, parseRatss? wre, parseRatss? wim with
    | some n, some a, some b, some g, some c, some d =>
      let groups := g.map fun ab => (ab.getD 0 0, ab.getD 1 0)
      -- offset of the rows of group number `gi` in the stacked tables
      let off : Nat → Nat := fun gi => ((groups.take gi).map fun ab => ab.2 - ab.1).foldl (· + ·) 0
      let W : Nat → Nat → Nat → GRat := fun gi i j => mkM c d (off gi + i) j
      showM n n (applyGauge groups W (mkM a b))
    | _, _, _, _, _, _ => "bad-op"
  -- ptrace inn M1re M1im M2re M2im ... : Re/Im of the trace over `inn` of the product of the factors
  | "ptrace" :: inn :: ms =>
    match parseNats? inn, ms.mapM parseRatss? with
    | some i, some tabs =>
      let rec pairUp : List (List (List Rat)) → List (Nat → Nat → GRat)
        | a :: b :: rest => mkM a b :: pairUp rest
        | _ => []
      showG (productTrace i (pairUp tabs))
    | _, _ => "bad-op"
  | _ => "bad-op"

end WB.C04
