/-
  C09 — point-group operations form a group acting on tensors.   Core Lean only.

  Models of  wannierberri/symmetry/point_symmetry.py :
    PointSymmetry.__init__ / __mul__ / __eq__ / transform_reduced_vector / rotate / transform_tensor
    PointGroup.__init__ (the closure loop) / check_basis_symmetry / symmetric_grid / symmetrize_tensor / star
    Transform.__call__ / TransformProduct

  Two scalar types:  `F` (ordered; entries of the 3x3 matrices — `Rat` when executed, any ordered field in the
  theorems, ℝ included) and `K` (tensor components — Gaussian rationals `GI` when executed, any field with an
  involution `conj` in the theorems, ℂ included), tied by a map `ι : F → K`.
  Tensors of rank r are functions `(Fin r → Fin 3) → K` (no leading "energy" axes: the code treats the leading
  axes as spectators of every operation modelled here).
-/
import WB.Model.IO
namespace WB.C09

abbrev Mat (F : Type) := Fin 3 → Fin 3 → F
abbrev Vec (F : Type) := Fin 3 → F

/-! ### 3x3 linear algebra, written out (no Mathlib) -/
section LinAlg
variable {F : Type}

def sum3 [Add F] (f : Fin 3 → F) : F := f 0 + f 1 + f 2

def matMul [Add F] [Mul F] (A B : Mat F) : Mat F := fun i j => sum3 fun k => A i k * B k j
def matT (A : Mat F) : Mat F := fun i j => A j i
/-- numpy `A * c` with a scalar `c` -/
def matScale [Mul F] (A : Mat F) (c : F) : Mat F := fun i j => A i j * c
def matId [OfNat F 0] [OfNat F 1] : Mat F := fun i j => if i = j then 1 else 0
def matVec [Add F] [Mul F] (A : Mat F) (v : Vec F) : Vec F := fun i => sum3 fun j => A i j * v j
/-- numpy `v @ A` -/
def vecMat [Add F] [Mul F] (v : Vec F) (A : Mat F) : Vec F := fun j => sum3 fun i => v i * A i j

def det3 [Add F] [Mul F] [Sub F] (A : Mat F) : F :=
  A 0 0 * (A 1 1 * A 2 2 - A 1 2 * A 2 1) - A 0 1 * (A 1 0 * A 2 2 - A 1 2 * A 2 0)
    + A 0 2 * (A 1 0 * A 2 1 - A 1 1 * A 2 0)

/-- adjugate (transposed cofactor matrix), written with cyclic indices -/
def adj3 [Mul F] [Sub F] (A : Mat F) : Mat F := fun i j =>
  A (j + 1) (i + 1) * A (j + 2) (i + 2) - A (j + 1) (i + 2) * A (j + 2) (i + 1)

/-- `np.linalg.inv` (contract: the exact inverse; here adjugate / determinant) -/
def matInv [Add F] [Mul F] [Sub F] [Div F] (A : Mat F) : Mat F := fun i j => adj3 A i j / det3 A

def matEq [DecidableEq F] (A B : Mat F) : Bool :=
  (List.finRange 3).all fun i => (List.finRange 3).all fun j => decide (A i j = B i j)

/-- Nine evaluated entries.  A definition that returns a function (`Mat F`) is compiled as a function of all
    its arguments, so a closure-valued "cache" would be recomputed at every entry access and iterated products
    would take exponential time; storing the entries in a structure forces their evaluation once. -/
structure Frozen (F : Type) where
  a00 : F
  a01 : F
  a02 : F
  a10 : F
  a11 : F
  a12 : F
  a20 : F
  a21 : F
  a22 : F

@[noinline] def Frozen.of (A : Mat F) : Frozen F :=
  ⟨A 0 0, A 0 1, A 0 2, A 1 0, A 1 1, A 1 2, A 2 0, A 2 1, A 2 2⟩

def Frozen.get (z : Frozen F) : Mat F := fun i j =>
  match i.val, j.val with
  | 0, 0 => z.a00 | 0, 1 => z.a01 | 0, _ => z.a02
  | 1, 0 => z.a10 | 1, 1 => z.a11 | 1, _ => z.a12
  | _, 0 => z.a20 | _, 1 => z.a21 | _, _ => z.a22

/-- extensionally the identity (`Lemmas/C09Alg.freeze_eq`); changes no value, only the evaluation cost -/
def freeze (A : Mat F) : Mat F := (Frozen.of A).get

/-- `-1 if flag else 1` -/
def sgn [Neg F] [OfNat F 1] (b : Bool) : F := if b then -1 else 1

end LinAlg

/-! ### PointSymmetry -/

/-- `PointSymmetry`: proper part `R` (the code stores `R * (-1 if Inv else 1)`), `Inv`, `TR` -/
structure PSym (F : Type) where
  R : Mat F
  inv : Bool
  tr : Bool

section PSymDefs
variable {F : Type} [Add F] [Mul F] [Sub F] [Neg F] [OfNat F 0] [OfNat F 1]

/-- `PointSymmetry.__init__(R, TR)`:  `Inv = det(R) < 0`,  `self.R = R * (-1 if Inv else 1)` -/
def PSym.mk' [LT F] [DecidableLT F] (M : Mat F) (tr : Bool) : PSym F :=
  let inv := decide (det3 M < 0)
  let z := Frozen.of (matScale M (sgn inv))   -- = `freeze (matScale M (sgn inv))`, evaluated here
  ⟨z.get, inv, tr⟩

/-- the full (improper) matrix `R * iInv` an operation stands for -/
def PSym.full (g : PSym F) : Mat F := matScale g.R (sgn g.inv)

/-- `__mul__`:  `PointSymmetry((self.R @ other.R) * (self.iInv * other.iInv), self.TR != other.TR)` -/
def PSym.mul [LT F] [DecidableLT F] (a b : PSym F) : PSym F :=
  PSym.mk' (matScale (matMul a.R b.R) (sgn a.inv * sgn b.inv)) (a.tr != b.tr)

/-- `__eq__` (the tolerance `1e-12` on `‖R - R'‖` is modelled as exact equality) -/
def PSym.eqv [DecidableEq F] (a b : PSym F) : Bool :=
  matEq a.R b.R && (a.tr == b.tr) && (a.inv == b.inv)

def PSym.identity [LT F] [DecidableLT F] : PSym F := PSym.mk' matId false

/-- documented action on a Cartesian k-vector: `iTR * iInv * (R @ k)` -/
def PSym.actCart (g : PSym F) (k : Vec F) : Vec F :=
  fun i => sgn g.tr * sgn g.inv * matVec g.R k i

/-- `basis @ self.R.T @ inv(basis)` -/
def PSym.redMat [Div F] (g : PSym F) (B : Mat F) : Mat F := matMul (matMul B (matT g.R)) (matInv B)

/-- `transform_reduced_vector(vec, basis) = vec @ (basis @ R.T @ inv(basis)) * (iTR * iInv)` -/
def PSym.transformReduced [Div F] (g : PSym F) (v : Vec F) (B : Mat F) : Vec F :=
  fun j => vecMat v (g.redMat B) j * (sgn g.tr * sgn g.inv)

end PSymDefs

/-! ### PointGroup.__init__ : the closure loop -/
section Generate
variable {F : Type} [Add F] [Mul F] [Sub F] [Neg F] [OfNat F 0] [OfNat F 1] [LT F] [DecidableLT F] [DecidableEq F]

/-- `s in sym_list` -/
def memL (s : PSym F) (L : List (PSym F)) : Bool := L.any fun t => t.eqv s

/-- The double loop `for s1 in sym_list: for s2 in sym_list:` over the list that grows while it is iterated
    (Python list iterators re-read the length at every step).  State: the list, the position `i` of `s1`, the
    position `j` of `s2`.  `none` = `RuntimeError("Cannot define a finite group")` (more than 1000 elements),
    or fuel exhausted (never happens with the fuel used by `generate`). -/
def passLoop : Nat → List (PSym F) → Nat → Nat → Option (List (PSym F))
  | 0, _, _, _ => none
  | fuel + 1, L, i, j =>
    if hi : i < L.length then
      if hj : j < L.length then
        let s3 := (L[i]).mul (L[j])
        if memL s3 L then passLoop fuel L i (j + 1)
        else
          let L' := L ++ [s3]
          if L'.length > 1000 then none else passLoop fuel L' i (j + 1)
      else passLoop fuel L (i + 1) 0
    else some L

/-- every iteration of a pass that ends with at most 1000 elements takes fewer steps than this -/
def passFuel : Nat := 1100000

/-- `while True: lenold = len(sym_list); <double loop>; if len(sym_list) == lenold: break` -/
def whileLoop : Nat → List (PSym F) → Option (List (PSym F))
  | 0, _ => none
  | n + 1, L =>
    match passLoop passFuel L 0 0 with
    | none => none
    | some L' => if L'.length = L.length then some L' else whileLoop n L'

/-- reading the generator list: `for op in generator_list: if op not in sym_list: sym_list.append(op)`
    (a generator that is listed twice is taken once) -/
def readGens (gens : List (PSym F)) : List (PSym F) :=
  gens.foldl (fun acc g => if memL g acc then acc else acc ++ [g]) []

/-- `PointGroup(generator_list).symmetries` (an empty generator list stands for `[Identity]`).
    The length grows in every repetition but the last, so 1002 repetitions are never exhausted. -/
def generate (gens : List (PSym F)) : Option (List (PSym F)) :=
  whileLoop 1002 (if (readGens gens).isEmpty then [PSym.identity] else readGens gens)

/-- index table of the products: position of `L[i] * L[j]` in `L` (`L.length` when absent) -/
def mulTable (L : List (PSym F)) : List (List Nat) :=
  L.map fun a => L.map fun b => L.findIdx fun t => t.eqv (a.mul b)

end Generate

/-! ### lattice checks (exact rationals; the tolerances `1e-6` of the code are modelled as exact integrality) -/

def isInt (q : Rat) : Bool := q.den == 1

def unitVec (i : Fin 3) : Vec Rat := fun j => if i = j then 1 else 0

/-- `check_basis_symmetry(basis)`: every image of the unit reduced vectors is an integer vector -/
def checkBasis (L : List (PSym Rat)) (B : Mat Rat) : Bool :=
  L.all fun g => (List.finRange 3).all fun i => (List.finRange 3).all fun j =>
    isInt (g.transformReduced (unitVec i) B j)

/-- `symmetric_grid(nk) = check_basis_symmetry(recip_lattice / nk[:, None])` -/
def symmetricGrid (L : List (PSym Rat)) (B : Mat Rat) (nk : Vec Rat) : Bool :=
  checkBasis L (fun i j => B i j / nk i)

/-! ### star -/

/-- two reduced vectors coincide modulo the lattice (`‖diff - round(diff)‖ < SYMMETRY_PRECISION`, exact here) -/
def equivMod1 (u v : Vec Rat) : Bool := (List.finRange 3).all fun i => isInt (u i - v i)

/-- the deletion loop `for i in range(len(st)-1, 0, -1): if st[i] ≡ some st[:i]: del st[i]`:
    an entry survives iff no *earlier entry of the original list* is equivalent to it. -/
def starFilter (seen : List (Vec Rat)) : List (Vec Rat) → List (Vec Rat)
  | [] => []
  | x :: rest =>
    if seen.any (fun y => equivMod1 y x) then starFilter (seen ++ [x]) rest
    else x :: starFilter (seen ++ [x]) rest

def starImages (L : List (PSym Rat)) (B : Mat Rat) (k : Vec Rat) : List (Vec Rat) :=
  L.map fun g => g.transformReduced k B

/-- `PointGroup.star(k)` -/
def star (L : List (PSym Rat)) (B : Mat Rat) (k : Vec Rat) : List (Vec Rat) :=
  starFilter [] (starImages L B k)

/-! ### tensors -/

abbrev Tensor (r : Nat) (K : Type) := (Fin r → Fin 3) → K

section TensorDefs
variable {K : Type} {r : Nat}

def setIdx (idx : Fin r → Fin 3) (a : Fin r) (j : Fin 3) : Fin r → Fin 3 :=
  fun b => if b = a then j else idx b

/-- `rotate` applied to axis `a` (the axis is moved last, `res @ R.T`, and moved back):
    `res'[.., i, ..] = Σ_j res[.., j, ..] * R[i, j]` -/
def rotAxis [Add K] [Mul K] (A : Mat K) (a : Fin r) (x : Tensor r K) : Tensor r K :=
  fun idx => sum3 fun j => x (setIdx idx a j) * A (idx a) j

/-- the loop `for i in range(dim - rank, dim): res = rotate(axis i)` -/
def rotAxes [Add K] [Mul K] (A : Mat K) (axes : List (Fin r)) (x : Tensor r K) : Tensor r K :=
  axes.foldl (fun y a => rotAxis A a y) x

def rotate [Add K] [Mul K] (A : Mat K) (x : Tensor r K) : Tensor r K := rotAxes A (List.finRange r) x

/-- `res.transpose(trans)`:  `out[i] = res[j]` with `j[trans[k]] = i[k]`; in terms of `σ a = k` where
    `trans[k] = a` this is `out i = res (i ∘ σ)` -/
def permute (σ : Fin r → Fin r) (x : Tensor r K) : Tensor r K := fun idx => x (fun a => idx (σ a))

/-- `Transform(factor, conj, transpose_axes)`; `perm = none` ↔ `transpose_axes is None`;
    `perm = some σ` is the position map of the full-length transposition (see `sigmaOfAxes`) -/
structure Transform (r : Nat) where
  neg : Bool
  conj : Bool
  perm : Option (Fin r → Fin r)

/-- the position map of a Transform (`id` when there is no transposition) -/
def Transform.sigma (t : Transform r) : Fin r → Fin r :=
  match t.perm with
  | none => id
  | some σ => σ

/-- The decidable side condition of the action law (`Props/C09.lean: transformTensor_mul`) on the pair
    (transformTR, transformInv): both transpositions are involutions and they commute.  (The factor ±1 and the
    conjugation always satisfy the analogous conditions.) -/
def sideCond (tTR tInv : Transform r) : Bool :=
  (List.finRange r).all fun a =>
    decide (tTR.sigma (tTR.sigma a) = a) && decide (tInv.sigma (tInv.sigma a) = a)
      && decide (tTR.sigma (tInv.sigma a) = tInv.sigma (tTR.sigma a))

/-- `Transform.__call__`: transpose, then conjugate, then multiply by the factor -/
def Transform.apply [Neg K] (conj : K → K) (t : Transform r) (x : Tensor r K) : Tensor r K :=
  let y := match t.perm with
    | none => x
    | some σ => permute σ x
  let y : Tensor r K := if t.conj then (fun idx => conj (y idx)) else y
  if t.neg then (fun idx => - y idx) else y

/-- position map of `transpose_axes = p` acting on the last `p.length` axes of a rank-`r` tensor:
    `trans = (0, …, d-1) ++ (d + p[k])`, `d = r - len p`; `σ a` = the position `k` with `trans[k] = a`. -/
def sigmaOfAxes (r : Nat) (p : List Nat) : Fin r → Fin r :=
  let d := r - p.length
  let trans := List.range d ++ p.map (· + d)
  fun a => if h : trans.idxOf a.val < r then ⟨trans.idxOf a.val, h⟩ else a

/-- `transpose_axes` is accepted by numpy iff it is a permutation of `range(len p)` (and fits the rank) -/
def validAxes (r : Nat) (p : List Nat) : Bool :=
  decide (p.length ≤ r) && (List.range p.length).all (fun k => p.contains k)

/-- `PointSymmetry.transform_tensor(data, rank, transformTR, transformInv)` for `data` of exactly `rank` axes -/
def transformTensor [Add K] [Mul K] [Neg K] {F : Type} (ι : F → K) (conj : K → K) (g : PSym F)
    (tTR tInv : Transform r) (x : Tensor r K) : Tensor r K :=
  let y := rotate (fun i j => ι (g.R i j)) x
  let y := if g.tr then tTR.apply conj y else y
  if g.inv then tInv.apply conj y else y

/-- `sum(s.transform_tensor(data, …) for s in self.symmetries) / self.size`  (Python `sum` folds from 0) -/
def symmetrizeTensor [Add K] [Mul K] [Neg K] [Div K] [OfNat K 0] [NatCast K] {F : Type} (ι : F → K)
    (conj : K → K) (L : List (PSym F)) (tTR tInv : Transform r) (x : Tensor r K) : Tensor r K :=
  fun idx => (L.foldl (fun acc g => acc + transformTensor ι conj g tTR tInv x idx) 0) / (L.length : K)

end TensorDefs

/-- `TransformProduct(transform_list)`: `none` = the ValueError / NotImplementedError branches
    (mixed conjugation, any transposition).  An empty list makes the code fail (`conj_list[0]`): `none`. -/
def transformProduct {r : Nat} (l : List (Transform r)) : Option (Transform r) :=
  match l with
  | [] => none
  | t0 :: _ =>
    if l.all (fun t => t.conj == t0.conj) && l.all (fun t => t.perm.isNone) then
      some ⟨l.foldl (fun acc t => acc != t.neg) false, t0.conj, none⟩
    else none

/-! ### named operations: Rotation(n, axis), Mirror(axis), dict_sym, from_string_prod -/

section Named
variable {F : Type} [Add F] [Mul F] [Sub F] [Neg F] [OfNat F 0] [OfNat F 1]

/-- `[u]×` -/
def crossMat (u : Vec F) : Mat F := fun i j =>
  match i.val, j.val with
  | 0, 1 => - u 2 | 0, 2 => u 1
  | 1, 0 => u 2 | 1, 2 => - u 0
  | 2, 0 => - u 1 | 2, 1 => u 0
  | _, _ => 0

/-- Rodrigues' formula `cosθ·1 + (1 - cosθ) u uᵀ + sinθ [u]×` — what
    `scipy.spatial.transform.Rotation.from_rotvec(θ u).as_matrix()` returns for a unit vector `u` (contract) -/
def rodrigues (c s : F) (u : Vec F) : Mat F := fun i j =>
  c * (if i = j then 1 else 0) + (1 - c) * (u i * u j) + s * crossMat u i j

variable [Div F] [LT F] [DecidableLT F]

/-- `(cos, sin)(2π/n)` for the crystallographic orders; `s3` stands for √3 -/
def cosSin (s3 : F) : Nat → Option (F × F)
  | 1 => some (1, 0)
  | 2 => some (-1, 0)
  | 3 => some (-(1 / (1 + 1)), s3 / (1 + 1))
  | 4 => some (0, 1)
  | 6 => some (1 / (1 + 1), s3 / (1 + 1))
  | _ => none

/-- `axis / |axis|` for the axes used by name: ±x, ±y, ±z and the body diagonals (±1,±1,±1)/√3 -/
def axisUnit (s3 : F) : List Int → Option (Vec F)
  | [a, b, c] =>
    let f : Int → F := fun z => if z = 0 then 0 else if z > 0 then 1 else -1
    if a.natAbs + b.natAbs + c.natAbs = 1 then some (fun i => f ([a, b, c].getD i.val 0))
    else if a.natAbs = 1 ∧ b.natAbs = 1 ∧ c.natAbs = 1 then
      some (fun i => f ([a, b, c].getD i.val 0) * (s3 / (1 + 1 + 1)))
    else none
  | _ => none

/-- `Rotation(n, axis)` -/
def rotationOp (s3 : F) (n : Nat) (axis : List Int) : Option (PSym F) :=
  match cosSin s3 n, axisUnit s3 axis with
  | some cs, some u => some (PSym.mk' (rodrigues cs.1 cs.2 u) false)
  | _, _ => none

/-- `Mirror(axis) = PointSymmetry(-Rotation(2, axis).R)` -/
def mirrorOp (s3 : F) (axis : List Int) : Option (PSym F) :=
  (rotationOp s3 2 axis).map fun g => PSym.mk' (matScale g.R (-1)) false

/-- `dict_sym` -/
def namedOp (s3 : F) : String → Option (PSym F)
  | "Identity" => some PSym.identity
  | "Inversion" => some (PSym.mk' (matScale matId (-1)) false)
  | "TimeReversal" => some (PSym.mk' matId true)
  | "Mx" => mirrorOp s3 [1, 0, 0]
  | "My" => mirrorOp s3 [0, 1, 0]
  | "Mz" => mirrorOp s3 [0, 0, 1]
  | "C2x" => rotationOp s3 2 [1, 0, 0]
  | "C2y" => rotationOp s3 2 [0, 1, 0]
  | "C2z" => rotationOp s3 2 [0, 0, 1]
  | "C3z" => rotationOp s3 3 [0, 0, 1]
  | "C4x" => rotationOp s3 4 [1, 0, 0]
  | "C4y" => rotationOp s3 4 [0, 1, 0]
  | "C4z" => rotationOp s3 4 [0, 0, 1]
  | "C6z" => rotationOp s3 6 [0, 0, 1]
  | _ => none

/-- `product(lst)`: `res = Identity; for op in lst[::-1]: res = op * res` -/
def productOps (l : List (PSym F)) : PSym F := l.foldr (fun op res => op.mul res) PSym.identity

/-- `from_string_prod("A*B*…")` (`none` = the ValueError for an unknown name) -/
def fromStringProd (s3 : F) (s : String) : Option (PSym F) :=
  ((s.splitOn "*").mapM (namedOp s3)).map productOps

end Named

/-! ### ℚ(√3): scalars in which the named operations are executed -/

structure QS3 where
  a : Rat
  b : Rat     -- a + b√3
deriving DecidableEq

namespace QS3
instance : Add QS3 := ⟨fun x y => ⟨x.a + y.a, x.b + y.b⟩⟩
instance : Sub QS3 := ⟨fun x y => ⟨x.a - y.a, x.b - y.b⟩⟩
instance : Neg QS3 := ⟨fun x => ⟨-x.a, -x.b⟩⟩
instance : Mul QS3 := ⟨fun x y => ⟨x.a * y.a + 3 * x.b * y.b, x.a * y.b + x.b * y.a⟩⟩
instance : OfNat QS3 0 := ⟨⟨0, 0⟩⟩
instance : OfNat QS3 1 := ⟨⟨1, 0⟩⟩
instance : Div QS3 := ⟨fun x y =>
  let n := y.a * y.a - 3 * y.b * y.b
  ⟨(x.a * y.a - 3 * x.b * y.b) / n, (x.b * y.a - x.a * y.b) / n⟩⟩
/-- is `a + b√3` positive? -/
def pos (x : QS3) : Bool :=
  if x.a ≥ 0 ∧ x.b ≥ 0 then decide (x.a ≠ 0 ∨ x.b ≠ 0)
  else if x.a ≤ 0 ∧ x.b ≤ 0 then false
  else if x.a > 0 then decide (x.a * x.a > 3 * x.b * x.b)
  else decide (3 * x.b * x.b > x.a * x.a)
instance : LT QS3 := ⟨fun x y => pos (y - x) = true⟩
instance : DecidableLT QS3 := fun x y => inferInstanceAs (Decidable (pos (y - x) = true))
def sqrt3 : QS3 := ⟨0, 1⟩
end QS3

/-! ### results: delegation of `transform` to `transform_tensor` -/

/-- what `EnergyResult` / `KBandResult` carry for the symmetry code: data, and their own declared transforms
    (the rank is the type index) -/
structure ResultM (r : Nat) (K : Type) where
  data : Tensor r K
  tTR : Transform r
  tInv : Transform r

section Results
variable {K : Type} [Add K] [Mul K] [Neg K] {r : Nat} {F : Type}

/-- `EnergyResult.transform(sym)` / `K__Result.transform(sym)`: `sym.transform_tensor(self.data, self.rank,
    transformTR=self.transformTR, transformInv=self.transformInv)`, transforms and rank passed on unchanged -/
def ResultM.transform (ι : F → K) (conj : K → K) (g : PSym F) (res : ResultM r K) : ResultM r K :=
  ⟨transformTensor ι conj g res.tTR res.tInv res.data, res.tTR, res.tInv⟩

/-- `ResultDict.transform(sym)`: every entry by its own `transform` -/
def resultDictTransform (ι : F → K) (conj : K → K) (g : PSym F) (d : List (String × ResultM r K)) :
    List (String × ResultM r K) :=
  d.map fun kv => (kv.1, kv.2.transform ι conj g)

/-- `PointGroup.symmetrize(result) = sum(result.transform(s) for s in symmetries) / size` for an EnergyResult -/
def symmetrizeResult [Div K] [OfNat K 0] [NatCast K] (ι : F → K) (conj : K → K) (L : List (PSym F))
    (res : ResultM r K) : ResultM r K :=
  ⟨fun idx => (L.foldl (fun acc g => acc + (res.transform ι conj g).data idx) 0) / (L.length : K), res.tTR, res.tInv⟩

end Results

/-! ### Gaussian rationals (scalars of the executed model) -/

structure GI where
  re : Rat
  im : Rat
deriving DecidableEq

namespace GI
instance : Add GI := ⟨fun a b => ⟨a.re + b.re, a.im + b.im⟩⟩
instance : Neg GI := ⟨fun a => ⟨-a.re, -a.im⟩⟩
instance : Mul GI := ⟨fun a b => ⟨a.re * b.re - a.im * b.im, a.re * b.im + a.im * b.re⟩⟩
instance : OfNat GI 0 := ⟨⟨0, 0⟩⟩
instance : OfNat GI 1 := ⟨⟨1, 0⟩⟩
instance : NatCast GI := ⟨fun n => ⟨n, 0⟩⟩
instance : Div GI := ⟨fun a b =>
  let n := b.re * b.re + b.im * b.im
  ⟨(a.re * b.re + a.im * b.im) / n, (a.im * b.re - a.re * b.im) / n⟩⟩
def conj (a : GI) : GI := ⟨a.re, -a.im⟩
def ofRat (q : Rat) : GI := ⟨q, 0⟩
end GI

/-! ### driver -/
open WB.IO

def matOfList (l : List Rat) : Mat Rat := fun i j => l.getD (3 * i.val + j.val) 0
def vecOfList (l : List Rat) : Vec Rat := fun i => l.getD i.val 0
def matToListG {F : Type} (A : Mat F) : List F :=
  (List.finRange 3).flatMap fun i => (List.finRange 3).map fun j => A i j
def matToList (A : Mat Rat) : List Rat :=
  (List.finRange 3).flatMap fun i => (List.finRange 3).map fun j => A i j
def vecToList (v : Vec Rat) : List Rat := (List.finRange 3).map v

/-- C-order position of a multi-index -/
def flatIdx {r : Nat} (idx : Fin r → Fin 3) : Nat :=
  (List.finRange r).foldl (fun acc a => acc * 3 + (idx a).val) 0

def digit (r n : Nat) (a : Fin r) : Fin 3 := ⟨(n / 3 ^ (r - 1 - a.val)) % 3, Nat.mod_lt _ (by decide)⟩

def tensorOfLists {r : Nat} (re im : List Rat) : Tensor r GI :=
  fun idx => ⟨re.getD (flatIdx idx) 0, im.getD (flatIdx idx) 0⟩

def tensorToLists {r : Nat} (x : Tensor r GI) : List Rat × List Rat :=
  let vals := (List.range (3 ^ r)).map fun n => x (digit r n)
  (vals.map (·.re), vals.map (·.im))

def showTensor {r : Nat} (x : Tensor r GI) : String :=
  let (a, b) := tensorToLists x
  showRats a ++ " " ++ showRats b

/-- elements on the wire: `R(9 rationals, the stored proper part)`, `inv`, `tr`  as three tokens-lists:
    `r11,..,r33;…`  `0,1,…`  `0,1,…` -/
def psymsOfWire (rs : List (List Rat)) (invs trs : List Nat) : List (PSym Rat) :=
  (List.range rs.length).map fun n => ⟨matOfList (rs.getD n []), invs.getD n 0 != 0, trs.getD n 0 != 0⟩

def showPSyms (L : List (PSym Rat)) : String :=
  showRatss (L.map fun g => matToList g.R) ++ " " ++ showBools (L.map (·.inv)) ++ " " ++ showBools (L.map (·.tr))

/-- a Transform on the wire: `neg conj axes` with `axes = N` for None -/
def parseTransform (r : Nat) (neg conj axes : String) : Option (Transform r) :=
  match parseBool? neg, parseBool? conj with
  | some n, some c =>
    if axes = "N" then some ⟨n, c, none⟩
    else match parseNats? axes with
      | some p => if validAxes r p then some ⟨n, c, some (sigmaOfAxes r p)⟩ else none
      | none => none
  | _, _ => none

def parseTransforms (r : Nat) : List String → Option (List (Transform r))
  | n :: c :: a :: rest =>
    match parseTransform r n c a, parseTransforms r rest with
    | some t, some ts => some (t :: ts)
    | _, _ => none
  | [] => some []
  | _ => none

def withRank (rk : String) (f : (r : Nat) → String) : String :=
  match parseNat? rk with
  | some r => if r ≤ 6 then f r else "bad-op"
  | none => "bad-op"

def handle : List String → String
  -- constructor + product on full matrices:  mk Rfull tr
  -- named operations in Q(sqrt3):  named <string>  ->  a-parts(9) b-parts(9) inv tr   |  ERR
  | ["named", name] =>
    match fromStringProd QS3.sqrt3 name with
    | some g => showRats ((matToListG g.R).map (·.a)) ++ " " ++ showRats ((matToListG g.R).map (·.b)) ++ " "
        ++ showBool g.inv ++ " " ++ showBool g.tr
    | none => "ERR"
  -- Rotation(n, axis) / Mirror(axis):  rot n a,b,c   |  mir a,b,c
  | ["rot", n, ax] =>
    match parseNat? n, parseInts? ax with
    | some n, some ax =>
      match rotationOp QS3.sqrt3 n ax with
      | some g => showRats ((matToListG g.R).map (·.a)) ++ " " ++ showRats ((matToListG g.R).map (·.b)) ++ " "
          ++ showBool g.inv ++ " " ++ showBool g.tr
      | none => "ERR"
    | _, _ => "bad-op"
  | ["mir", ax] =>
    match parseInts? ax with
    | some ax =>
      match mirrorOp QS3.sqrt3 ax with
      | some g => showRats ((matToListG g.R).map (·.a)) ++ " " ++ showRats ((matToListG g.R).map (·.b)) ++ " "
          ++ showBool g.inv ++ " " ++ showBool g.tr
      | none => "ERR"
    | none => "bad-op"
  | ["mk", m, tr] =>
    match parseRats? m, parseBool? tr with
    | some l, some t => showPSyms [PSym.mk' (matOfList l) t]
    | _, _ => "bad-op"
  | ["mul", rs, invs, trs] =>
    match parseRatss? rs, parseNats? invs, parseNats? trs with
    | some rs, some invs, some trs =>
      match psymsOfWire rs invs trs with
      | [a, b] => showPSyms [a.mul b]
      | _ => "bad-op"
    | _, _, _ => "bad-op"
  -- generators are given as constructor arguments (full matrix, TR flag)
  | ["gen", ms, trs] =>
    match parseRatss? ms, parseNats? trs with
    | some ms, some trs =>
      let gens := (List.range ms.length).map fun n => PSym.mk' (matOfList (ms.getD n [])) (trs.getD n 0 != 0)
      match generate gens with
      | some L => showPSyms L
      | none => "ERR"
    | _, _ => "bad-op"
  | ["table", rs, invs, trs] =>
    match parseRatss? rs, parseNats? invs, parseNats? trs with
    | some rs, some invs, some trs => showNatss (mulTable (psymsOfWire rs invs trs))
    | _, _, _ => "bad-op"
  | ["act", rs, invs, trs, k] =>
    match parseRatss? rs, parseNats? invs, parseNats? trs, parseRats? k with
    | some rs, some invs, some trs, some k =>
      showRatss ((psymsOfWire rs invs trs).map fun g => vecToList (g.actCart (vecOfList k)))
    | _, _, _, _ => "bad-op"
  | ["star", rs, invs, trs, b, k] =>
    match parseRatss? rs, parseNats? invs, parseNats? trs, parseRats? b, parseRats? k with
    | some rs, some invs, some trs, some b, some k =>
      if det3 (matOfList b) = 0 then "singular"
      else showRatss ((star (psymsOfWire rs invs trs) (matOfList b) (vecOfList k)).map vecToList)
    | _, _, _, _, _ => "bad-op"
  | ["images", rs, invs, trs, b, k] =>
    match parseRatss? rs, parseNats? invs, parseNats? trs, parseRats? b, parseRats? k with
    | some rs, some invs, some trs, some b, some k =>
      if det3 (matOfList b) = 0 then "singular"
      else showRatss ((starImages (psymsOfWire rs invs trs) (matOfList b) (vecOfList k)).map vecToList)
    | _, _, _, _, _ => "bad-op"
  | ["checkbasis", rs, invs, trs, b] =>
    match parseRatss? rs, parseNats? invs, parseNats? trs, parseRats? b with
    | some rs, some invs, some trs, some b =>
      if det3 (matOfList b) = 0 then "singular"
      else showBool (checkBasis (psymsOfWire rs invs trs) (matOfList b))
    | _, _, _, _ => "bad-op"
  | ["symgrid", rs, invs, trs, b, nk] =>
    match parseRatss? rs, parseNats? invs, parseNats? trs, parseRats? b, parseRats? nk with
    | some rs, some invs, some trs, some b, some nk =>
      if det3 (matOfList b) = 0 || nk.any (· = 0) then "singular"
      else showBool (symmetricGrid (psymsOfWire rs invs trs) (matOfList b) (vecOfList nk))
    | _, _, _, _, _ => "bad-op"
  -- transform_tensor of one element:  tt R inv tr rank  negT conjT axesT  negI conjI axesI  re im
  | ["tt", rs, invs, trs, rk, nT, cT, aT, nI, cI, aI, re, im] =>
    withRank rk fun r =>
      match parseRatss? rs, parseNats? invs, parseNats? trs, parseTransform r nT cT aT, parseTransform r nI cI aI,
            parseRats? re, parseRats? im with
      | some rs, some invs, some trs, some tT, some tI, some re, some im =>
        match psymsOfWire rs invs trs with
        | [g] => showTensor (transformTensor GI.ofRat GI.conj g tT tI (tensorOfLists (r := r) re im))
        | _ => "bad-op"
      | _, _, _, _, _, _, _ => "bad-op"
  | ["sym", rs, invs, trs, rk, nT, cT, aT, nI, cI, aI, re, im] =>
    withRank rk fun r =>
      match parseRatss? rs, parseNats? invs, parseNats? trs, parseTransform r nT cT aT, parseTransform r nI cI aI,
            parseRats? re, parseRats? im with
      | some rs, some invs, some trs, some tT, some tI, some re, some im =>
        let L := psymsOfWire rs invs trs
        if L.isEmpty then "bad-op"
        else showTensor (symmetrizeTensor GI.ofRat GI.conj L tT tI (tensorOfLists (r := r) re im))
      | _, _, _, _, _, _, _ => "bad-op"
  -- side condition of the action law for a pair of Transforms:  side rank negT conjT axesT negI conjI axesI
  | ["side", rk, nT, cT, aT, nI, cI, aI] =>
    withRank rk fun r =>
      match parseTransform r nT cT aT, parseTransform r nI cI aI with
      | some tT, some tI => showBool (sideCond tT tI)
      | _, _ => "bad-op"
  -- Transform.__call__ alone:  tf rank neg conj axes re im
  | ["tf", rk, n, c, a, re, im] =>
    withRank rk fun r =>
      match parseTransform r n c a, parseRats? re, parseRats? im with
      | some t, some re, some im => showTensor (t.apply GI.conj (tensorOfLists (r := r) re im))
      | _, _, _ => "bad-op"
  -- TransformProduct:  tprod n1 c1 a1 n2 c2 a2 ...   ->  "neg conj" or ERR
  | "tprod" :: rest =>
    match parseTransforms 2 rest with
    | some l =>
      match transformProduct l with
      | some t => showBool t.neg ++ " " ++ showBool t.conj
      | none => "ERR"
    | none => "bad-op"
  | _ => "bad-op"

end WB.C09
