/-
  C25 — spin doubling and spin-orbit assembly preserve the spectrum.   Core Lean only.

  Models of
    wannierberri/system/system_R.py    : System_R.double_spin            (`XX_new[:, i::2, i::2] = XX`)
    wannierberri/data_K/data_K_soc.py  : Data_K_soc.HH_K                 (`H[:, ::2, ::2] = up`, `H[:, 1::2, 1::2] = down`)
    wannierberri/system/system_soc.py  : SystemSOC.get_system_R          (merged R list, `matrix[map] += X`)
                                         SystemSOC.set_soc_axis          (Ham_SOC blocks from dV and the rotated Pauli matrices)
    wannierberri/w90files/soc.py       : SOC.get_C_ss, get_pauli_rotated
  Matrices are functions `Nat → Nat → K`; the scalar type `K` enters through notation classes only, so the same
  definitions run at `Rat` / `GRat` (driver) and are proved for every commutative ring / field (Props).
-/
import WB.Model.IO
namespace WB.C25

/-! ### strided block assignment (numpy `M[i::2, i::2] = X`) -/

/-- `M[i::2, i::2] = X` for `i ∈ {0,1}`: entry `(a,b)` with `a ≡ b ≡ i (mod 2)` is overwritten by
    `X[(a-i)/2, (b-i)/2]`, every other entry is kept -/
def assignStrided {K} (M : Nat → Nat → K) (i : Nat) (X : Nat → Nat → K) : Nat → Nat → K :=
  fun a b => if a % 2 = i ∧ b % 2 = i then X ((a - i) / 2) ((b - i) / 2) else M a b

def zeroMat {K} [OfNat K 0] : Nat → Nat → K := fun _ _ => 0

/-- `System_R.double_spin`: `XX_new = zeros; for i in range(2): XX_new[:, i::2, i::2] = XX` -/
def doubleSpin {K} [OfNat K 0] (X : Nat → Nat → K) : Nat → Nat → K :=
  assignStrided (assignStrided zeroMat 0 X) 1 X

/-- `Data_K_soc.HH_K` without SOC: `H = zeros; H[:, ::2, ::2] = up; H[:, 1::2, 1::2] = down` -/
def assembleUD {K} [OfNat K 0] (Hu Hd : Nat → Nat → K) : Nat → Nat → K :=
  assignStrided (assignStrided zeroMat 0 Hu) 1 Hd

/-! ### sums over `range n` and the Fourier-type sum `Σ_R χ(R) X(R)` -/

def sumRange {K} [Add K] [OfNat K 0] : Nat → (Nat → K) → K
  | 0, _ => 0
  | n + 1, f => sumRange n f + f n

abbrev Vec3 := Int × Int × Int

def nthR (l : List Vec3) (j : Nat) : Vec3 := l.getD j (0, 0, 0)

/-- `Σ_j χ(l[j]) · X[j]` over the R-vector list `l` (this is `R_to_k` at one k-point for one matrix entry, with
    `χ(R) = exp(2πi k·(R + τ_b − τ_a))`; the theorems hold for EVERY function `χ`) -/
def kSum {K} [Add K] [Mul K] [OfNat K 0] (χ : Vec3 → K) (l : List Vec3) (X : Nat → K) : K :=
  sumRange l.length (fun j => χ (nthR l j) * X j)

/-! ### `get_system_R`: merged R list and scatter-add -/

/-- `merge_Rvectors`: the code builds `list(set(...))` (arbitrary order); the driver uses first-occurrence order,
    the theorems hold for every list that contains all input vectors -/
def mergeR (ls : List (List Vec3)) : List Vec3 := ls.flatten.eraseDups

/-- `iRvec_map = [merged.index(R) for R in l]` -/
def rmap (merged l : List Vec3) : List Nat := l.map (fun R => merged.idxOf R)

/-- numpy `M[map] += X` for an index list without repetitions: row `r` receives `X[j]` for the `j` with `map[j] = r` -/
def scatterAdd {K} [Add K] [OfNat K 0] (M : Nat → K) (map : List Nat) (X : Nat → K) : Nat → K :=
  fun r => M r + sumRange map.length (fun j => if map.getD j 0 = r then X j else 0)

/-- `matrix[map, i::2, i::2] += X` : the strided embedding of an `n×n` matrix into the `2n×2n` zero matrix -/
def embedStrided {K} [OfNat K 0] (i : Nat) (X : Nat → Nat → K) : Nat → Nat → K :=
  fun a b => if a % 2 = i ∧ b % 2 = i then X ((a - i) / 2) ((b - i) / 2) else 0

/-- the `Ham` matrix of `get_system_R` at merged row `r`, entry `(a,b)`:
      matrix = zeros
      matrix[map0]               += Ham_SOC
      matrix[map1, ::2, ::2]     += Ham_up
      matrix[map2, 1::2, 1::2]   += Ham_down                                    -/
def sysRHam {K} [Add K] [OfNat K 0] (merged lsoc lup ldn : List Vec3)
    (Hsoc Hup Hdn : Nat → Nat → Nat → K) (r a b : Nat) : K :=
  scatterAdd
    (scatterAdd
      (scatterAdd (fun _ => 0) (rmap merged lsoc) (fun j => Hsoc j a b))
      (rmap merged lup) (fun j => embedStrided 0 (Hup j) a b))
    (rmap merged ldn) (fun j => embedStrided 1 (Hdn j) a b) r

/-- any other key (`AA`, …) of `get_system_R`: only the two spin blocks -/
def sysRMat {K} [Add K] [OfNat K 0] (merged lup ldn : List Vec3)
    (Xup Xdn : Nat → Nat → Nat → K) (r a b : Nat) : K :=
  scatterAdd
    (scatterAdd (fun _ => 0) (rmap merged lup) (fun j => embedStrided 0 (Xup j) a b))
    (rmap merged ldn) (fun j => embedStrided 1 (Xdn j) a b) r

/-! ### one spin channel of `Data_K_soc`: H(k) as a function of the PAIR (R list, matrix list) -/

/-- `R_to_k` of one channel for one matrix entry: `Σ_i phase(R_i) · X_i` over the paired lists (`Rvectors.iRvec`, `Ham_R`).
    Each channel (`data_K_up`, `data_K_down`) must be transformed with ITS OWN R list. -/
def chanSum {K} [Add K] [Mul K] [OfNat K 0] (phase : Vec3 → K) : List Vec3 → List K → K
  | R :: Rs, x :: xs => phase R * x + chanSum phase Rs xs
  | _, _ => 0

/-- the code: the down channel is summed with the down list -/
def downOwn {K} [Add K] [Mul K] [OfNat K 0] (phase : Vec3 → K) (_Rup Rdn : List Vec3) (Xdn : List K) : K :=
  chanSum phase Rdn Xdn

/-- the "shared Fourier-transform object" rule: the down matrices are summed with the UP list whenever the two lists
    have the same length (not what the code does) -/
def downShared {K} [Add K] [Mul K] [OfNat K 0] (phase : Vec3 → K) (Rup Rdn : List Vec3) (Xdn : List K) : K :=
  if Rup.length = Rdn.length then chanSum phase Rup Xdn else chanSum phase Rdn Xdn

/-! ### rotated Pauli matrices -/

/-- 2×2 matrices as functions on `Fin 2` -/
abbrev M2 (K : Type) := Fin 2 → Fin 2 → K

def mul2 {K} [Add K] [Mul K] (A B : M2 K) : M2 K := fun i j => A i 0 * B 0 j + A i 1 * B 1 j

def one2 {K} [OfNat K 0] [OfNat K 1] : M2 K := fun i j => if i = j then 1 else 0

/-- `pauli_xyz[:, :, c]` (utility.py); `I` is the imaginary unit of `K` -/
def pauli {K} [OfNat K 0] [OfNat K 1] [Neg K] (I : K) (c : Fin 3) : M2 K := fun a b =>
  match c.val, a.val, b.val with
  | 0, 0, 1 => 1
  | 0, 1, 0 => 1
  | 1, 0, 1 => -I
  | 1, 1, 0 => I
  | 2, 0, 0 => 1
  | 2, 1, 1 => -1
  | _, _, _ => 0

/-- `get_C_ss`:  `[[ct2*ep2, -st2*ep2], [st2/ep2, ct2/ep2]]` with `ct2 = cos(θ/2)`, `st2 = sin(θ/2)`,
    `ep2 = exp(-iφ/2)` -/
def Css {K} [Mul K] [Div K] [Neg K] (c s e : K) : M2 K := fun a b =>
  match a.val, b.val with
  | 0, 0 => c * e
  | 0, 1 => -(s * e)
  | 1, 0 => s / e
  | _, _ => c / e

/-- `get_pauli_rotated`: `einsum('ai,abc,bj->ijc', C.conj(), pauli_xyz, C)`  i.e. `σ'_c = C† σ_c C` -/
def pauliRot {K} [Add K] [Mul K] [Div K] [Neg K] [OfNat K 0] [OfNat K 1]
    (conj : K → K) (I c s e : K) (comp : Fin 3) : M2 K := fun i j =>
  let C := Css c s e
  let t (a b : Fin 2) : K := conj (C a i) * pauli I comp a b * C b j
  t 0 0 + t 0 1 + t 1 0 + t 1 1

/-- the quantisation axis `(sinθ cosφ, sinθ sinφ, cosθ)` expressed through `c = cos(θ/2)`, `s = sin(θ/2)`,
    `e = exp(-iφ/2)`:  `sinθ = 2sc`, `cosθ = c² − s²`, `cosφ = (e² + ē²)/2`, `sinφ = (ē² − e²)/(2i) = i(e² − ē²)/2` -/
def axis {K} [Add K] [Sub K] [Mul K] [Div K] [OfNat K 2] (conj : K → K) (I c s e : K) (comp : Fin 3) : K :=
  match comp.val with
  | 0 => 2 * s * c * ((e * e + conj e * conj e) / 2)
  | 1 => 2 * s * c * (I * (e * e - conj e * conj e) / 2)
  | _ => c * c - s * s

/-! ### `set_soc_axis`: the SOC Hamiltonian blocks (one R-vector) -/

def dot3 {K} [Add K] [Mul K] (x y : Fin 3 → K) : K := x 0 * y 0 + x 1 * y 1 + x 2 * y 2

/-- `soc_R_W` at one R for nspin = 2.  `d00 d11 d01 : n×n×3` at R, `d01c = conj_XX_R(dV01)` at R (that is
    `dV01(-R)†`), `P` = rotated Pauli matrices `P i j c`:
      soc[::2, ::2]   = d00 · P[0,0,:]      soc[1::2, 1::2] = d11 · P[1,1,:]
      soc[::2, 1::2]  = d01 · P[0,1,:]      soc[1::2, ::2]  = d01c · P[1,0,:]          (times alpha_soc) -/
def socHam {K} [Add K] [Mul K] (alpha : K) (P : Fin 2 → Fin 2 → Fin 3 → K)
    (d00 d11 d01 d01c : Nat → Nat → Fin 3 → K) (a b : Nat) : K :=
  let m := a / 2
  let n := b / 2
  (if a % 2 = 0 then
     (if b % 2 = 0 then dot3 (d00 m n) (P 0 0) else dot3 (d01 m n) (P 0 1))
   else
     (if b % 2 = 0 then dot3 (d01c m n) (P 1 0) else dot3 (d11 m n) (P 1 1))) * alpha

/-! ### Gaussian rationals (driver only) -/

structure GRat where
  re : Rat
  im : Rat
deriving BEq, Repr

namespace GRat
instance : Add GRat := ⟨fun x y => ⟨x.re + y.re, x.im + y.im⟩⟩
instance : Sub GRat := ⟨fun x y => ⟨x.re - y.re, x.im - y.im⟩⟩
instance : Neg GRat := ⟨fun x => ⟨-x.re, -x.im⟩⟩
instance : Mul GRat := ⟨fun x y => ⟨x.re * y.re - x.im * y.im, x.re * y.im + x.im * y.re⟩⟩
def conj (x : GRat) : GRat := ⟨x.re, -x.im⟩
def normSq (x : GRat) : Rat := x.re * x.re + x.im * x.im
instance : Div GRat := ⟨fun x y =>
  let n := normSq y
  let z := x * conj y
  ⟨z.re / n, z.im / n⟩⟩
instance : OfNat GRat 0 := ⟨⟨0, 0⟩⟩
instance : OfNat GRat 1 := ⟨⟨1, 0⟩⟩
instance : OfNat GRat 2 := ⟨⟨2, 0⟩⟩
def I : GRat := ⟨0, 1⟩
def ofRat (r : Rat) : GRat := ⟨r, 0⟩
end GRat

/-! ### driver -/
open WB.IO

def matOfRows (rows : List (List Rat)) : Nat → Nat → Rat := fun a b => (rows.getD a []).getD b 0

def showMat (n : Nat) (M : Nat → Nat → Rat) : String :=
  showRatss ((List.range n).map (fun a => (List.range n).map (fun b => M a b)))

def toVec3s (l : List (List Int)) : List Vec3 := l.map (fun v => (v.getD 0 0, v.getD 1 0, v.getD 2 0))

/-- stack over R of flattened `n×n` matrices: row `j` = matrix at `l[j]` -/
def stackOf (n : Nat) (rows : List (List Rat)) : Nat → Nat → Nat → Rat :=
  fun j a b => if a < n ∧ b < n then (rows.getD j []).getD (a * n + b) 0 else 0

def showG (z : GRat) : String := showRat z.re ++ "," ++ showRat z.im

def fin3 : List (Fin 3) := [0, 1, 2]
def fin2 : List (Fin 2) := [0, 1]

def vec3Of (l : List Rat) (k : Nat) : Fin 3 → Rat := fun c => l.getD (3 * k + c.val) 0

def handle : List String → String
  | ["double", n, x] =>
    match parseNat? n, parseRatss? x with
    | some n, some X => showMat (2 * n) (doubleSpin (matOfRows X))
    | _, _ => "bad-op"
  | ["assemble", n, hu, hd] =>
    match parseNat? n, parseRatss? hu, parseRatss? hd with
    | some n, some U, some D => showMat (2 * n) (assembleUD (matOfRows U) (matOfRows D))
    | _, _, _ => "bad-op"
  | ["merge", l0, l1, l2] =>
    match parseIntss? l0, parseIntss? l1, parseIntss? l2 with
    | some a, some b, some c =>
      let m := mergeR [toVec3s a, toVec3s b, toVec3s c]
      showIntss (m.map (fun v => [v.1, v.2.1, v.2.2])) ++ " " ++
        showNats (rmap m (toVec3s a)) ++ " " ++ showNats (rmap m (toVec3s b)) ++ " " ++ showNats (rmap m (toVec3s c))
    | _, _, _ => "bad-op"
  -- sysr n merged lsoc lup ldn Hsoc Hup Hdn  → rows over merged of the flattened (2n)×(2n) `Ham`
  | ["sysr", n, mg, l0, l1, l2, h0, h1, h2] =>
    match parseNat? n, parseIntss? mg, parseIntss? l0, parseIntss? l1, parseIntss? l2,
          parseRatss? h0, parseRatss? h1, parseRatss? h2 with
    | some n, some mg, some a, some b, some c, some H0, some H1, some H2 =>
      let m := toVec3s mg
      let f := sysRHam m (toVec3s a) (toVec3s b) (toVec3s c) (stackOf (2 * n) H0) (stackOf n H1) (stackOf n H2)
      showRatss ((List.range m.length).map (fun r =>
        (List.range (2 * n)).flatMap (fun a => (List.range (2 * n)).map (fun b => f r a b))))
    | _, _, _, _, _, _, _, _ => "bad-op"
  | ["sysrx", n, mg, l1, l2, h1, h2] =>
    match parseNat? n, parseIntss? mg, parseIntss? l1, parseIntss? l2, parseRatss? h1, parseRatss? h2 with
    | some n, some mg, some b, some c, some H1, some H2 =>
      let m := toVec3s mg
      let f := sysRMat m (toVec3s b) (toVec3s c) (stackOf n H1) (stackOf n H2)
      showRatss ((List.range m.length).map (fun r =>
        (List.range (2 * n)).flatMap (fun a => (List.range (2 * n)).map (fun b => f r a b))))
    | _, _, _, _, _, _ => "bad-op"
  -- pauli c s e.re e.im  → for comp in 0..2, i, j: re,im  (12 complex numbers separated by ';')
  | ["pauli", c, s, er, ei] =>
    match parseRat? c, parseRat? s, parseRat? er, parseRat? ei with
    | some c, some s, some er, some ei =>
      let e : GRat := ⟨er, ei⟩
      ";".intercalate (fin3.flatMap (fun comp => fin2.flatMap (fun i => fin2.map (fun j =>
        showG (pauliRot GRat.conj GRat.I (GRat.ofRat c) (GRat.ofRat s) e comp i j)))))
      ++ " " ++ ";".intercalate (fin3.map (fun comp => showG (axis GRat.conj GRat.I (GRat.ofRat c) (GRat.ofRat s) e comp)))
    | _, _, _, _ => "bad-op"
  -- socham n alpha c s e.re e.im  then re/im parts of d00 d11 d01 d01c (each: rows m, flattened n*3)
  -- → re-matrix and im-matrix of soc_R_W at that R
  | ["socham", n, al, c, s, er, ei, a00r, a00i, a11r, a11i, a01r, a01i, a01cr, a01ci] =>
    match parseNat? n, parseRat? al, parseRat? c, parseRat? s, parseRat? er, parseRat? ei,
          [a00r, a00i, a11r, a11i, a01r, a01i, a01cr, a01ci].mapM parseRatss? with
    | some n, some al, some c, some s, some er, some ei, some [A00r, A00i, A11r, A11i, A01r, A01i, A01cr, A01ci] =>
      let e : GRat := ⟨er, ei⟩
      let P : Fin 2 → Fin 2 → Fin 3 → GRat := fun i j comp =>
        pauliRot GRat.conj GRat.I (GRat.ofRat c) (GRat.ofRat s) e comp i j
      let d (Ar Ai : List (List Rat)) : Nat → Nat → Fin 3 → GRat := fun m k comp =>
        ⟨vec3Of (Ar.getD m []) k comp, vec3Of (Ai.getD m []) k comp⟩
      let H := socHam (GRat.ofRat al) P (d A00r A00i) (d A11r A11i) (d A01r A01i) (d A01cr A01ci)
      showMat (2 * n) (fun a b => (H a b).re) ++ " " ++ showMat (2 * n) (fun a b => (H a b).im)
    | _, _, _, _, _, _, _ => "bad-op"
  | _ => "bad-op"

end WB.C25
