/-
  C19 — Wannier90 file objects: text write → read, npz dictionary round trip.   Core Lean only.

  Token-level models (tokens, lines and files as in C18) of
    wannierberri/w90files/eig.py : EIG.to_w90_file / from_w90_file
    wannierberri/w90files/amn.py : AMN.to_w90_file / from_w90_file
    wannierberri/w90files/mmn.py : MMN.to_w90_file (its loop nest, with the neighbour table handed in) / from_w90_file
    wannierberri/w90files/io.py  : dic_to_keydic, keydic_to_dic, SavableNPZ.as_dict / from_dict
    wannierberri/w90files/w90file.py : W90_file.equals
    wannierberri/w90files/wandata.py : WannierData.to_npz / from_npz on the file-name level
-/
import WB.Model.C18
namespace WB.C19
open WB.C18

variable {V : Type}

/-! ### `.eig` -/

/-- `EIG.to_w90_file`: `for ik in range(NK): for ib in range(NB): " {ib+1:4d} {ik+1:4d} {E:17.12f}"` -/
def writeEig (ρ : V → V) (NK NB : Nat) (E : Nat → Nat → V) : File V :=
  (List.range NK).flatMap (fun (ik : Nat) => (List.range NB).map (fun (ib : Nat) =>
    [Tok.int ((ib : Int) + 1), Tok.int ((ik : Int) + 1), Tok.val (ρ (E ik ib))]))

structure EigData (V : Type) where
  NK : Nat
  NB : Nat
  E  : Nat → Nat → V

/-- `data[:, c].max()` of an integer column -/
def colMax (f : File V) (c : Nat) : Int := f.foldl (fun m l => max m (tokInt l c)) 0

/-- `EIG.from_w90_file` (repaired: `np.loadtxt(..., ndmin=2)`): `NB = max(col 0)`, `NK = max(col 1)`,
    `reshape(NK, NB, 3)` (raises unless the number of rows is `NK*NB`), the two asserts on the index columns,
    `data[ik][ib] = row[ik*NB+ib][2]`.  For an empty file `max()` raises: `none`.
    `oneRowFails = true` gives the reader BEFORE the repair (finding F16): for a ONE-line file `np.loadtxt`
    returned a 1-D array and `data[:, 0]` raised IndexError. -/
def readEigWith [IntCast V] (oneRowFails : Bool) (f : File V) : Option (EigData V) :=
  if f.isEmpty then none else
  if oneRowFails && f.length == 1 then none else
  let NB := (colMax f 0).toNat
  let NK := (colMax f 1).toNat
  if f.length ≠ NK * NB then none else
  if (List.range NK).all (fun (ik : Nat) => (List.range NB).all (fun (ib : Nat) =>
        tokInt (lineAt f (ik * NB + ib)) 0 == (ib : Int) + 1 && tokInt (lineAt f (ik * NB + ib)) 1 == (ik : Int) + 1))
  then some { NK := NK, NB := NB, E := fun ik ib => tokVal (lineAt f (ik * NB + ib)) 2 }
  else none

/-- the reader of the current code -/
def readEig [IntCast V] (f : File V) : Option (EigData V) := readEigWith false f
/-- the reader before the repair of F16 (documentation only) -/
def readEigOld [IntCast V] (f : File V) : Option (EigData V) := readEigWith true f

/-! ### `.amn` -/

/-- `AMN.to_w90_file`: comment, `NB NK NW`, then `for ik: for iw: for ib:` one line
    `ib+1 iw+1 ik+1 re im` of `data[ik][ib, iw]` -/
def writeAmn (ρ : V → V) (NK NB NW : Nat) (A : Nat → Nat → Nat → V × V) : File V :=
  [[], [Tok.int NB, Tok.int NK, Tok.int NW]] ++
  (List.range NK).flatMap (fun (ik : Nat) => (List.range NW).flatMap (fun (iw : Nat) => (List.range NB).map (fun (ib : Nat) =>
    [Tok.int ((ib : Int) + 1), Tok.int ((iw : Int) + 1), Tok.int ((ik : Int) + 1), Tok.val (ρ (A ik ib iw).1), Tok.val (ρ (A ik ib iw).2)])))

structure AmnData (V : Type) where
  NK : Nat
  NB : Nat
  NW : Nat
  A  : Nat → Nat → Nat → V × V     -- data[ik][ib, iw]

/-- `AMN.from_w90_file`: header, blocks of `NW*NB` lines per k-point, `l.split()[3:]`,
    `.reshape((NK, NW, NB)).transpose(0, 2, 1)` -/
def readAmn [IntCast V] (f : File V) : AmnData V :=
  let h := lineAt f 1
  let NB := (tokInt h 0).toNat
  let NK := (tokInt h 1).toNat
  let NW := (tokInt h 2).toNat
  let arr : Nat → Nat → Nat → V × V := fun ik iw ib =>
    let l := lineAt f (2 + (ik * (NW * NB) + (iw * NB + ib)))
    (tokVal l 3, tokVal l 4)
  { NK := NK, NB := NB, NW := NW, A := fun ik ib iw => arr ik iw ib }

/-! ### `.mmn` -/

/-- the loop nest of `MMN.to_w90_file` with the neighbour table `nb[ik][ib]` and the G vectors handed in
    (in /repo the method reads them from `self`, where they do not exist — finding F3):
    `for ik: for ib: header "ik+1 nb+1 G"; for m: for n: "re im" of data[ik][ib, n, m]`; values printed with `str` -/
def writeMmn (NK NNB NB : Nat) (nbr : Nat → Nat → Int) (G : Nat → Nat → Vec3)
    (M : Nat → Nat → Nat → Nat → V × V) : File V :=
  [[], [Tok.int NB, Tok.int NK, Tok.int NNB]] ++
  (List.range NK).flatMap (fun (ik : Nat) => (List.range NNB).flatMap (fun (ib : Nat) =>
    [Tok.int ((ik : Int) + 1), Tok.int (nbr ik ib + 1), Tok.int (G ik ib).1, Tok.int (G ik ib).2.1, Tok.int (G ik ib).2.2] ::
    (List.range NB).flatMap (fun (m : Nat) => (List.range NB).map (fun (n : Nat) =>
      [Tok.val (M ik ib n m).1, Tok.val (M ik ib n m).2]))))

structure MmnData (V : Type) where
  NK  : Nat
  NNB : Nat
  NB  : Nat
  M   : Nat → Nat → Nat → Nat → V × V      -- data[ik][ib, m, n]
  nbr : Nat → Nat → Int
  G   : Nat → Nat → Vec3
  headOk : Bool                              -- `assert headstring[:, :, 0] - 1 == arange(NK)`

/-- `MMN.from_w90_file` (the text part): blocks of `1 + NB*NB` lines; `data.reshape(NK, NNB, NB, NB).transpose((0,1,3,2))`;
    header columns → k-point check, neighbours (0-based) and G -/
def readMmn [IntCast V] (f : File V) : MmnData V :=
  let h := lineAt f 1
  let NB := (tokInt h 0).toNat
  let NK := (tokInt h 1).toNat
  let NNB := (tokInt h 2).toNat
  let block := 1 + NB * NB
  let head : Nat → Nat → Line V := fun ik ib => lineAt f (2 + (ik * NNB + ib) * block)
  let arr : Nat → Nat → Nat → Nat → V × V := fun ik ib a b =>
    let l := lineAt f (2 + ((ik * NNB + ib) * block + (1 + (a * NB + b))))
    (tokVal l 0, tokVal l 1)
  { NK := NK, NNB := NNB, NB := NB
    M := fun ik ib m n => arr ik ib n m
    nbr := fun ik ib => tokInt (head ik ib) 1 - 1
    G := fun ik ib => (tokInt (head ik ib) 2, tokInt (head ik ib) 3, tokInt (head ik ib) 4)
    headOk := (List.range NK).all (fun (ik : Nat) => (List.range NNB).all (fun (ib : Nat) => tokInt (head ik ib) 0 - 1 == (ik : Int))) }

/-! ### npz dictionaries: `dic_to_keydic` / `keydic_to_dic` / `as_dict` / `from_dict` -/

/-- `name + f"_{k}"` ; `render k` is `str(k)` -/
def keyOf (render : Int → Name) (name : Name) (k : Int) : Name := name ++ '_' :: render k

/-- `dic_to_keydic(dic, name)` (a dict is an association list in insertion order) -/
def dicToKeydic {A} (render : Int → Name) (name : Name) (d : List (Int × A)) : List (Name × A) :=
  d.map (fun p => (keyOf render name p.1, p.2))

/-- `keydic_to_dic(keydic, name)` when `name` itself is not a key:
    `for k, v in keydic.items(): if k.startswith(name + "_"): dic[int(k[len(name)+1:])] = v` -/
def keydicToDic {A} (parse : Name → Int) (name : Name) (kd : List (Name × A)) : List (Int × A) :=
  (kd.filter (fun p => (name ++ ['_']).isPrefixOf p.1)).map (fun p => (parse (p.1.drop (name.length + 1)), p.2))

/-- python `dict.update` / construction from pairs: a later pair with the same key replaces the value of the
    earlier one (keeping its position) -/
def dictInsert {A} (d : List (Name × A)) (p : Name × A) : List (Name × A) :=
  if d.any (fun q => q.1 == p.1) then d.map (fun q => if q.1 == p.1 then (q.1, p.2) else q) else d ++ [p]

def dictOf {A} (l : List (Name × A)) : List (Name × A) := l.foldl dictInsert []

/-- a file object as far as `SavableNPZ` sees it: scalar/array attributes by tag, dictionaries by tag -/
structure Obj (A : Type) where
  tags  : List (Name × A)                    -- npz_tags (and present optional tags) with their values
  dicts : List (Name × List (Int × A))       -- npz_keys_dict_int with their dictionaries

/-- `SavableNPZ.as_dict` -/
def asDict {A} (render : Int → Name) (o : Obj A) : List (Name × A) :=
  dictOf (o.tags ++ o.dicts.flatMap (fun t => dicToKeydic render t.1 t.2))

/-- `SavableNPZ.from_dict` for the class with the tag lists of `o` -/
def fromDict {A} (parse : Name → Int) (tagNames dictNames : List Name) (dic : List (Name × A)) : Obj A :=
  { tags := tagNames.filterMap (fun k => (dirGet dic k).map (fun a => (k, a)))
    dicts := dictNames.map (fun t => (t, keydicToDic parse t dic)) }

/-- `W90_file.equals` on one dictionary: same key set and `np.allclose` on every key -/
def dictEquals {A} (close : A → A → Bool) (d1 d2 : List (Int × A)) : Bool :=
  d1.all (fun p => d2.any (fun q => q.1 == p.1)) && d2.all (fun q => d1.any (fun p => p.1 == q.1)) &&
  d1.all (fun p => d2.all (fun q => !(q.1 == p.1) || close p.2 q.2))

/-! ### WannierData: which file name each key is written to / read from -/

/-- `to_npz`: `seedname + "." + val.extension + ".npz"` — `ext key` is the extension of the class of the object
    stored under `key` -/
def wdWriteName (ext : Name → Name) (key : Name) : Name := ext key

def nSym : Name := ['s', 'y', 'm', 'm', 'e', 't', 'r', 'i', 'z', 'e', 'r']      -- "symmetrizer"
def nSawf : Name := ['s', 'a', 'w', 'f']                                              -- "sawf"
def nUd : Name := ['m', 'm', 'n', '_', 'u', 'd']                                      -- "mmn_ud"
def nDu : Name := ['m', 'm', 'n', '_', 'd', 'u']                                      -- "mmn_du"
def nMmn : Name := ['m', 'm', 'n']                                                     -- "mmn"

/-- `from_npz`: `symmetrizer → "sawf"`, `mmn_ud / mmn_du → the key itself`, otherwise the class extension -/
def wdReadName (ext : Name → Name) (key : Name) : Name :=
  if key = nSym then nSawf
  else if key = nUd ∨ key = nDu then key
  else ext key

/-! ### histories on one container: repeated saves, in-place edits, replaced files

  A file object has an identity (`id(obj)`) and a content; `select_bands`, `select_kpoints`, `spin_order_*` and
  direct edits of `.data` change the content IN PLACE (same identity); `set_file(..., overwrite=True)` puts a new
  object.  The disk maps an npz path to the content last written there.
-/

structure FileObj (A : Type) where
  ident : Nat
  content : A

structure WState (A : Type) where
  cont : List (Name × FileObj A)            -- the container `_files`
  disk : List (Name × A)                    -- path → content (latest first)
  cache : List (Name × (Name × Nat))        -- only used by the seeded "skip if same object" variant

inductive WOp (A : Type) where
  | save (seed : Name)                       -- to_npz(seed)
  | edit (key : Name) (c : A)                -- in-place modification of the file stored under `key`
  | setFile (key : Name) (o : FileObj A)     -- set_file(key, o, overwrite=True)

/-- `seedname + "." + extension + ".npz"` -/
def npzPath (ext : Name → Name) (seed key : Name) : Name := seed ++ '.' :: ext key

/-- `WannierData.to_npz(seed)`: every file of the container is written, whatever was written before -/
def saveTo {A} (ext : Name → Name) (seed : Name) (cont : List (Name × FileObj A)) (disk : List (Name × A)) :
    List (Name × A) :=
  cont.foldl (fun d p => (npzPath ext seed p.1, p.2.content) :: d) disk

def setKey {A} (cont : List (Name × FileObj A)) (key : Name) (o : FileObj A) : List (Name × FileObj A) :=
  if cont.any (fun p => p.1 == key) then cont.map (fun p => if p.1 == key then (p.1, o) else p) else cont ++ [(key, o)]

def wstep {A} (ext : Name → Name) (s : WState A) : WOp A → WState A
  | .save seed => { s with disk := saveTo ext seed s.cont s.disk }
  | .edit key c => { s with cont := s.cont.map (fun p => if p.1 == key then (p.1, { p.2 with content := c }) else p) }
  | .setFile key o => { s with cont := setKey s.cont key o }

def wrun {A} (ext : Name → Name) (ops : List (WOp A)) (s : WState A) : WState A := ops.foldl (wstep ext) s

/-- `WannierData.from_npz(seed, files=keys)` -/
def loadFrom {A} (ext : Name → Name) (seed : Name) (keys : List Name) (disk : List (Name × A)) : List (Name × A) :=
  keys.filterMap (fun k => (dirGet disk (npzPath ext seed k)).map (fun a => (k, a)))

/-- the seeded variant (NOT the code): a file is skipped when the cache says that the same object (identity) was
    already written to that path and the path exists -/
def saveCached {A} (ext : Name → Name) (seed : Name) (s : WState A) : WState A :=
  s.cont.foldl (fun st p =>
    let path := npzPath ext seed p.1
    if (st.cache.find? (fun c => c.1 == p.1)).map (·.2) == some (path, p.2.ident) && (dirGet st.disk path).isSome
    then st
    else { st with disk := (path, p.2.content) :: st.disk, cache := (p.1, (path, p.2.ident)) :: st.cache }) s

/-! ### exact model of `%17.12f` at `Rat` (driver only) -/

def fmtF12 (x : Rat) : Rat := (roundHalfEven (x * pow10 12) : Rat) / pow10 12

/-! ### driver -/
open WB.IO

def rhoF (tag : String) : Rat → Rat := if tag = "f12" then fmtF12 else id

def arr2 (n2 : Nat) (fl : List Rat) : Nat → Nat → Rat := fun i j => fl.getD (i * n2 + j) 0
def carr3 (n2 n3 : Nat) (fl : List Rat) : Nat → Nat → Nat → Rat × Rat :=
  fun i j k => let p := ((i * n2 + j) * n3 + k) * 2; (fl.getD p 0, fl.getD (p + 1) 0)
def carr4 (n2 n3 n4 : Nat) (fl : List Rat) : Nat → Nat → Nat → Nat → Rat × Rat :=
  fun i j k l => let p := (((i * n2 + j) * n3 + k) * n4 + l) * 2; (fl.getD p 0, fl.getD (p + 1) 0)

/-- `str(k)` and `int(s)` for decimal integers, on character lists -/
def render10 (k : Int) : Name := if k < 0 then '-' :: Nat.toDigits 10 k.natAbs else Nat.toDigits 10 k.natAbs
def parseNat10 (s : Name) : Nat := s.foldl (fun acc c => acc * 10 + (c.toNat - 48)) 0
def parse10 (s : Name) : Int :=
  match s with
  | '-' :: t => - (parseNat10 t : Int)
  | _ => (parseNat10 s : Int)

def kvs (s : String) : List (Name × Nat) :=
  (names s).mapIdx (fun i n => (n, i))

/-- `tag:k1.k2.k3;tag2:...` → dictionaries with values numbered 100*(tag index)+position -/
def dictsOf (s : String) : List (Name × List (Int × Nat)) :=
  if s = "_" then [] else
  (s.splitOn ";").mapIdx (fun ti part =>
    match part.splitOn ":" with
    | [t, ks] => (t.toList, (if ks = "" then [] else (ks.splitOn ".")).mapIdx (fun j k => (k.toInt?.getD 0, 1000 * (ti + 1) + j)))
    | _ => (part.toList, []))

def showDict (d : List (Int × Nat)) : String := showListWith (fun p => toString p.1 ++ "=" ++ toString p.2) "." d

def handle : List String → String
  | ["eigwrite", tag, nk, nb, e] =>
    match parseNat? nk, parseNat? nb, parseRats? e with
    | some nk, some nb, some e => showFile (writeEig (rhoF tag) nk nb (arr2 nb e))
    | _, _, _ => "bad-op"
  | ["eigread", file] =>
    match parseFile? file with
    | some f => match readEig f with
      | some r => toString r.NK ++ " " ++ toString r.NB ++ " " ++
          showRats ((List.range r.NK).flatMap fun ik => (List.range r.NB).map fun ib => r.E ik ib)
      | none => "error"
    | none => "bad-op"
  | ["amnwrite", tag, nk, nb, nw, a] =>
    match parseNat? nk, parseNat? nb, parseNat? nw, parseRats? a with
    | some nk, some nb, some nw, some a => showFile (writeAmn (rhoF tag) nk nb nw (carr3 nb nw a))
    | _, _, _, _ => "bad-op"
  | ["amnread", file] =>
    match parseFile? file with
    | some f => let r := readAmn f
                toString r.NK ++ " " ++ toString r.NB ++ " " ++ toString r.NW ++ " " ++
                showRats ((List.range r.NK).flatMap fun ik => (List.range r.NB).flatMap fun ib =>
                  (List.range r.NW).flatMap fun iw => [(r.A ik ib iw).1, (r.A ik ib iw).2])
    | none => "bad-op"
  | ["mmnwrite", nk, nnb, nb, nbr, g, m] =>
    match parseNat? nk, parseNat? nnb, parseNat? nb, parseInts? nbr, parseInts? g, parseRats? m with
    | some nk, some nnb, some nb, some nbr, some g, some m =>
      showFile (writeMmn nk nnb nb (fun ik ib => nbr.getD (ik * nnb + ib) 0)
        (fun ik ib => let p := (ik * nnb + ib) * 3; (g.getD p 0, g.getD (p + 1) 0, g.getD (p + 2) 0))
        (carr4 nnb nb nb m))
    | _, _, _, _, _, _ => "bad-op"
  | ["mmnread", file] =>
    match parseFile? file with
    | some f => let r := readMmn f
                toString r.NK ++ " " ++ toString r.NNB ++ " " ++ toString r.NB ++ " " ++ showBool r.headOk ++ " " ++
                showInts ((List.range r.NK).flatMap fun ik => (List.range r.NNB).map fun ib => r.nbr ik ib) ++ " " ++
                showInts ((List.range r.NK).flatMap fun ik => (List.range r.NNB).flatMap fun ib =>
                  [(r.G ik ib).1, (r.G ik ib).2.1, (r.G ik ib).2.2]) ++ " " ++
                showRats ((List.range r.NK).flatMap fun ik => (List.range r.NNB).flatMap fun ib =>
                  (List.range r.NB).flatMap fun m => (List.range r.NB).flatMap fun n => [(r.M ik ib m n).1, (r.M ik ib m n).2])
    | none => "bad-op"
  | ["asdict", tags, dicts] =>
    let o : Obj Nat := { tags := kvs tags, dicts := dictsOf dicts }
    showListWith (fun p => String.ofList p.1 ++ "=" ++ toString p.2) "," (asDict render10 o)
  | ["roundtrip", tags, dicts] =>
    let o : Obj Nat := { tags := kvs tags, dicts := dictsOf dicts }
    let r := fromDict parse10 (o.tags.map (·.1)) (o.dicts.map (·.1)) (asDict render10 o)
    showListWith (fun p => String.ofList p.1 ++ "=" ++ toString p.2) "," r.tags ++ " " ++
      showListWith (fun t => String.ofList t.1 ++ ":" ++ showDict t.2) ";" r.dicts
  | ["wdnames", key, ext] =>
    String.ofList (wdWriteName (fun _ => ext.toList) key.toList) ++ " " ++
      String.ofList (wdReadName (fun _ => ext.toList) key.toList)
  | ["hist", ops] =>
    -- ops: `s:<seed>` save, `e:<key>:<v>` in-place edit to content v, `f:<key>:<v>` new object with content v
    let step : WState Nat → String → WState Nat := fun st o =>
      match o.splitOn ":" with
      | ["s", seed] => wstep id st (WOp.save seed.toList)
      | ["e", key, v] => wstep id st (WOp.edit key.toList (v.toNat?.getD 0))
      | ["f", key, v] => wstep id st (WOp.setFile key.toList ⟨1000 + v.toNat?.getD 0, v.toNat?.getD 0⟩)
      | _ => st
    let st := (ops.splitOn ";").foldl step { cont := [], disk := [], cache := [] }
    let paths := (st.disk.map (·.1)).eraseDups
    showListWith (fun pth => String.ofList pth ++ "=" ++ toString ((dirGet st.disk pth).getD 0)) "," paths
  | ["fmtf12", x] =>
    match parseRat? x with
    | some x => showRat (fmtF12 x)
    | none => "bad-op"
  | _ => "bad-op"

end WB.C19
