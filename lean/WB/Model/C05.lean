/-
  C05 — invariance under relabelling / co-centred rotation of the Wannier basis.   Core Lean only.

  Models of
    wannierberri/system/system_R.py  : System_R.reorder (matrices and centres)
    wannierberri/fourier/rvectors.py : Rvectors.reorder (shifts), Rvectors.cRvec_shifted (`R + t_j - t_i`, Cartesian),
                                       Rvectors.derivative (`1j * X * cRvec_shifted`), applied any number of times
  and of the user-level operation "rotate every real-space matrix by one k-independent unitary": `X(R) -> U† X(R) U`
  (`WB.C04.rotate`).  Scalars are polymorphic; the driver runs at `GRat`.
-/
import WB.Model.IO
import WB.Model.C04
namespace WB.C05
open WB.C27 (GRat)
open WB.C04 (sumRange rotate)

section
variable {K : Type} [Add K] [Mul K] [Sub K] [Zero K] [One K]

/-- `System_R.reorder`: `val[:, :, new][:, new, :]`, i.e. `X'[i,j] = X[new[i], new[j]]` for every R -/
def reorderM (p : Nat → Nat) (X : Nat → Nat → K) (i j : Nat) : K := X (p i) (p j)

/-- `wannier_centers_cart[new]` and `shifts_left_red[new]`, `shifts_right_red[new]`: `t'[i] = t[new[i]]` -/
def reorderC (p : Nat → Nat) (t : Nat → Nat → K) (i : Nat) : Nat → K := t (p i)

/-- `cRvec_shifted[iR, i, j, a] = (R·L)[a] - (t_i·L)[a] + (t_j·L)[a]`, reduced `R`, `t`, lattice rows `L b` -/
def shifted (L : Nat → Nat → K) (R ti tj : Nat → K) (a : Nat) : K :=
  sumRange 3 fun b => (R b + tj b - ti b) * L b a

/-- the factor picked up by `len axes` applications of `Rvectors.derivative` (Cartesian directions `axes`):
    `∏ (1j * cRvec_shifted[.., a])` -/
def derFac (I : K) (L : Nat → Nat → K) (R ti tj : Nat → K) : List Nat → K
  | [] => 1
  | a :: rest => I * shifted L R ti tj a * derFac I L R ti tj rest

/-- `R_to_k(..., der = len axes)` before the Fourier sum: the matrix of one lattice vector `R` times the factor -/
def derivX (I : K) (L : Nat → Nat → K) (R : Nat → K) (t : Nat → Nat → K) (X : Nat → Nat → K)
    (axes : List Nat) (i j : Nat) : K :=
  X i j * derFac I L R (t i) (t j) axes
end

/-- `System_R.reorder` on the whole dictionary of real-space matrices: `for key, val in self._XX_R.items(): …` —
    EVERY stored matrix is permuted, whatever its name -/
def reorderSys {K : Type} (p : Nat → Nat) (mats : List (String × (Nat → Nat → K))) : List (String × (Nat → Nat → K)) :=
  mats.map fun kv => (kv.1, reorderM p kv.2)

/-- a variant that only treats a fixed list of names (matrices outside the list keep the OLD order) -/
def reorderSysKeys {K : Type} (keys : List String) (p : Nat → Nat) (mats : List (String × (Nat → Nat → K))) :
    List (String × (Nat → Nat → K)) :=
  mats.map fun kv => if keys.contains kv.1 then (kv.1, reorderM p kv.2) else kv

/-! ### driver -/
open WB.IO WB.C04

/-! ### the shift bookkeeping of `Rvectors` as a state (multi-step histories)

  `shifts_left_red` and `shifts_right_red` are SEPARATE lists (indexed by Wannier function; an entry is the label of a
  centre — the bookkeeping does not depend on the coordinates), `aliased` records whether the right array is the same
  object as the left one (true for a freshly built `Rvectors`, false after `double_spin`, which allocates two arrays),
  `hasRight` is the flag `has_shifts_right` (stays false), `centres` are the centres of the owning `System_R`. -/

structure Shifts where
  left : List Nat
  right : List Nat
  aliased : Bool
  hasRight : Bool
  centres : List Nat
deriving DecidableEq, Repr

inductive SOp where
  | doubleSpin
  | reorder (p : List Nat)

/-- `new[0::2] = old; new[1::2] = old` -/
def dupList (l : List Nat) : List Nat := l.flatMap (fun x => [x, x])

/-- `arr[order]` -/
def permList (l p : List Nat) : List Nat := p.map (fun i => l.getD i 0)

/-- a freshly built system: both shift arrays are the centres, one object -/
def Shifts.fresh (c : List Nat) : Shifts := ⟨c, c, true, false, c⟩

/-- THE CODE: `System_R.double_spin` / `System_R.reorder` + `Rvectors.double_spin` / `Rvectors.reorder`
    (reorder builds `shifts_left_red[order]` and `shifts_right_red[order]`, both, unconditionally) -/
def stepShifts (s : Shifts) : SOp → Shifts
  | .doubleSpin => { s with left := dupList s.left, right := dupList s.right, aliased := false, centres := dupList s.centres }
  | .reorder p => { s with left := permList s.left p, right := permList s.right p, aliased := false,
                           centres := permList s.centres p }

def runShifts : Shifts → List SOp → Shifts
  | s, [] => s
  | s, op :: rest => runShifts (stepShifts s op) rest

/-- a different rule (NOT the code): permute the left array in place and the right one only if `has_shifts_right`;
    the right array follows only while it is the same object as the left one -/
def stepShiftsFlag (s : Shifts) : SOp → Shifts
  | .doubleSpin => { s with left := dupList s.left, right := dupList s.right, aliased := false, centres := dupList s.centres }
  | .reorder p =>
    let l := permList s.left p
    { s with left := l, right := if s.hasRight then permList s.right p else if s.aliased then l else s.right,
             centres := permList s.centres p }

def runShiftsFlag : Shifts → List SOp → Shifts
  | s, [] => s
  | s, op :: rest => runShiftsFlag (stepShiftsFlag s op) rest

/-- the law: both shift arrays are the centres of the system, function by function -/
def ShiftsOk (s : Shifts) : Prop := s.left = s.centres ∧ s.right = s.centres

instance (s : Shifts) : Decidable (ShiftsOk s) := by unfold ShiftsOk; infer_instance

def ofListFn (l : List Nat) : Nat → Nat := fun i => l.getD i 0
def ratFn (l : List Rat) : Nat → GRat := fun i => GRat.ofRat (l.getD i 0)
def tabFn (l : List (List Rat)) : Nat → Nat → GRat := fun i j => GRat.ofRat ((l.getD i []).getD j 0)

def handle : List String → String
  -- reorder n p Xre Xim
  | ["reorder", n, p, xre, xim] =>
    match parseNat? n, parseNats? p, parseRatss? xre, parseRatss? xim with
    | some n, some p, some a, some b => showM n n (reorderM (ofListFn p) (mkM a b))
    | _, _, _, _ => "bad-op"
  -- reorderc n p centres(n x 3)
  | ["reorderc", n, p, c] =>
    match parseNat? n, parseNats? p, parseRatss? c with
    | some n, some p, some c => showM n 3 (reorderC (ofListFn p) (tabFn c))
    | _, _, _ => "bad-op"
  -- cshift n lattice(3x3) R(3) centres(n x 3): cRvec_shifted[R, i, j, a], flattened (i, j, a)
  | ["cshift", n, lat, r, c] =>
    match parseNat? n, parseRatss? lat, parseRats? r, parseRatss? c with
    | some n, some l, some r, some c =>
      let t := tabFn c
      showListWith showG ";" ((List.range n).flatMap fun i => (List.range n).flatMap fun j =>
        (List.range 3).map fun a => shifted (tabFn l) (ratFn r) (t i) (t j) a)
    | _, _, _, _ => "bad-op"
  -- deriv n lattice R centres Xre Xim axes : derivative of order len(axes), entries (i, j)
  | ["deriv", n, lat, r, c, xre, xim, ax] =>
    match parseNat? n, parseRatss? lat, parseRats? r, parseRatss? c, parseRatss? xre, parseRatss? xim, parseNats? ax with
    | some n, some l, some r, some c, some a, some b, some ax =>
      showM n n (derivX GRat.I (tabFn l) (ratFn r) (tabFn c) (mkM a b) ax)
    | _, _, _, _, _, _, _ => "bad-op"
  -- rotsys n Ure Uim Xre Xim : U† X U  (the rotation applied to one real-space matrix)
  | ["rotsys", n, ure, uim, xre, xim] =>
    match parseNat? n, parseRatss? ure, parseRatss? uim, parseRatss? xre, parseRatss? xim with
    | some n, some a, some b, some c, some d => showM n n (rotate GRat.conj n (mkM a b) (mkM c d))
    | _, _, _, _, _ => "bad-op"
  -- shist centres ops   (ops separated by `|`:  d  = double_spin,  r:1,0,2 = reorder)  ->  left ; right ; centres
  | ["shist", c, ops] =>
    let parseOp (t : String) : Option SOp :=
      if t = "d" then some SOp.doubleSpin else
      match t.splitOn ":" with
      | ["r", p] => (parseNats? p).map SOp.reorder
      | _ => none
    match parseNats? c, (if ops = "_" then some [] else (ops.splitOn "|").mapM parseOp) with
    | some c, some ol =>
      let s := runShifts (Shifts.fresh c) ol
      showNats s.left ++ ";" ++ showNats s.right ++ ";" ++ showNats s.centres
    | _, _ => "bad-op"
  | _ => "bad-op"

end WB.C05
