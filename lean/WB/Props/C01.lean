/-
  C01 — property theorems: q → R → k round trip with Wigner-Seitz / MDRS replica selection.
  (statements are the deliverable; helper lemmas live in WB/Lemmas/C01*.lean)

  Vocabulary:  `wsClass ws G mp tol s c`  = selected replicas (with `Ndegen`) of grid point `c` for shift `s`,
  `wsSelect`  = the whole selection of a shift in the order of the code,  `selOf … a b` = selection of the pair (a,b)
  (looked up through `shift_index`),  `iRvecOf` = `Rvectors.iRvec`,  `weightOf sel R` = `weights[iR,a,b]`,
  `placeK` = `set_fft_q_to_R`,  `qToR` = `q_to_R` for one matrix element,  `RtoK χ` = `Σ_R χ(R) X(R)`.
-/
import WB.Lemmas.C01Fourier
import WB.Lemmas.C01Mirror
import WB.Lemmas.C01Sqrt
import WB.Lemmas.C01DFT
import WB.Lemmas.C01Excl
import WB.Lemmas.C01Herm
import WB.Lemmas.C01WsDist

namespace WB.C01

/-! ## T1 — replica weights -/

/-- T1.  For every Gram matrix, mesh, search size, non-zero tolerance, shift and grid point: the weights `1/Ndegen` of
    the selected replicas of that grid point sum to one (in every field of characteristic 0). -/
theorem ws_class_weight_one {K : Type} [Field K] [CharZero K]
    (ws : Nat) (G : Gram) (mp : Mesh) (tol : Rat) (s : QVec3) (c : Vec3) (htol : tol ≠ 0) :
    sumK ((wsClass ws G mp tol s c).map fun p => (((p.2 : Nat) : K))⁻¹) = 1 :=
  wsClass_weight_sum ws G mp tol s c htol

/-- T1 (corollary).  The accumulated replica weights of every pair (a,b) of Wannier functions, summed over the R list
    of the object, equal the number of mesh points — for any centres (inside/outside the home cell, coinciding or not),
    any lattice and any non-zero tolerance (negative = legacy convention). -/
theorem pair_weight_sum {K : Type} [Field K] [CharZero K]
    (ws : Nat) (G : Gram) (mp : Mesh) (tol : Rat) (cs : List QVec3) (a b : Nat)
    (htol : tol ≠ 0) (ha : a < cs.length) (hb : b < cs.length) :
    sumK ((iRvecOf ws G mp tol cs).map fun R => (weightOf (selOf ws G mp tol cs a b) R : K))
      = ((mp.1 * mp.2.1 * mp.2.2 : Nat) : K) := by
  have h := sum_weightOf (K := K) (iRvecOf ws G mp tol cs) (nodup_iRvecOf ws G mp tol cs)
    (selOf ws G mp tol cs a b) (selOf_sub_iRvecOf ws G mp tol cs a b ha hb) (fun _ => 1)
  simp only [one_mul] at h
  rw [h, selOf_eq ws G mp tol cs a b ha hb]
  have h2 := sum_wsSelect (K := K) ws G mp (absRat tol) (shiftOf (numDigits tol) cs a b)
    (absRat_ne_zero tol htol) (fun _ => 1) (fun _ => rfl)
  simp only [one_mul] at h2
  rw [h2, sumK_map_const, length_gridPoints]
  ring

/-! ## T2 — selected replicas are congruent to their grid point -/

/-- T2.  Every selected replica `R` of grid point `c` is a searched replica `c + t∘mp`, satisfies `R mod mp = c`
    (this is the remap table of the code), its `Ndegen` is the (positive) number of selected replicas of the class,
    and therefore every mesh-periodic character takes the same value on `R` and on `c`. -/
theorem ws_replica_congruent {K : Type} (ws : Nat) (G : Gram) (mp : Mesh) (tol : Rat) (s : QVec3) (c : Vec3)
    (hc : c ∈ gridPoints mp) (p : Vec3 × Nat) (hp : p ∈ wsClass ws G mp tol s c) :
    vmod p.1 mp = c ∧ p.2 = (wsClass ws G mp tol s c).length ∧ 0 < p.2 ∧
      ∀ χ : Vec3 → K, MeshPeriodic mp χ → χ p.1 = χ c := by
  have hsel := (mem_wsClass ws G mp tol s c p).1 hp
  have hmod := vmod_candidate ws mp c p.1 hc (selClass_sub_candidates ws G mp tol s c p.1 hsel.1)
  refine ⟨hmod, ?_, ?_, ?_⟩
  · rw [hsel.2, wsClass_eq, List.length_map]
  · rw [hsel.2]
    exact List.length_pos_of_mem hsel.1
  · intro χ hχ
    rw [hχ p.1, hmod]

/-! ## T3 — the round trip -/

/-- T3 (general form).  Under the FFT contract, for the selection of ANY shift `s` with any non-zero tolerance, any
    duplicate-free R list containing the selected replicas, any duplicate-free placement of the k-points on the mesh
    (= any ordering of the mesh points), and data `X` in any field of characteristic 0 (no Hermiticity, positivity or
    non-degeneracy is used):   `Σ_R χ_q(R) · w(R) · Xgrid(R mod mp) = X(q)`  at every listed mesh point `q`. -/
theorem roundtrip_any_shift {K : Type} [Field K] [CharZero K]
    (ws : Nat) (G : Gram) (mp : Mesh) (tol : Rat) (s : QVec3) (htol : tol ≠ 0)
    (iRvec : List Vec3) (hnd : iRvec.Nodup) (hsub : ∀ p ∈ wsSelect ws G mp tol s, p.1 ∈ iRvec)
    (slots : List Vec3) (hslots : slots.Nodup) (hbox : ∀ q ∈ slots, q ∈ gridPoints mp)
    (χ : Vec3 → Vec3 → K) (hper : ∀ q, MeshPeriodic mp (χ q))
    (F : (Vec3 → K) → Vec3 → K) (Ninv : K) (hF : FFTContract mp χ F Ninv)
    (X : Nat → K) (i : Nat) (hi : i < slots.length) :
    RtoK (χ (slots.getD i (0, 0, 0))) iRvec (qToR F Ninv mp slots (weightOf (wsSelect ws G mp tol s)) X) = X i := by
  rw [RtoK_qToR_eq_box ws G mp tol s htol iRvec hnd hsub _ (hper _)]
  have hmem : slots.getD i (0, 0, 0) ∈ gridPoints mp := by
    apply hbox
    rw [List.getD_eq_getElem?_getD, List.getElem?_eq_getElem hi]
    exact List.getElem_mem hi
  rw [hF (place slots X) _ hmem]
  exact place_slot slots hslots X i hi

/-- T3 (the objects the code builds).  With the R list, shift classes, selections and weights that `set_Rvec` builds
    from the centres, and the mesh slots that `set_fft_q_to_R` accepts for the listed k-points: `q_to_R` followed by the
    explicit interpolation returns the input matrix element (a,b) at every mesh point, for every listing order. -/
theorem roundtrip {K : Type} [Field K] [CharZero K]
    (ws : Nat) (G : Gram) (mp : Mesh) (tol : Rat) (cs : List QVec3) (a b : Nat)
    (h1 : 0 < mp.1) (h2 : 0 < mp.2.1) (h3 : 0 < mp.2.2)
    (htol : tol ≠ 0) (ha : a < cs.length) (hb : b < cs.length)
    (ks : List QVec3) (slots : List Vec3) (hplace : placeK mp ks = .ok slots)
    (χ : Vec3 → Vec3 → K) (hper : ∀ q, MeshPeriodic mp (χ q))
    (F : (Vec3 → K) → Vec3 → K) (Ninv : K) (hF : FFTContract mp χ F Ninv)
    (X : Nat → K) (i : Nat) (hi : i < slots.length) :
    RtoK (χ (slots.getD i (0, 0, 0))) (iRvecOf ws G mp tol cs)
      (qToR F Ninv mp slots (weightOf (selOf ws G mp tol cs a b)) X) = X i := by
  obtain ⟨hnd, hbox, -, -⟩ := placeK_ok mp h1 h2 h3 ks slots hplace
  have hsub := selOf_sub_iRvecOf ws G mp tol cs a b ha hb
  rw [selOf_eq ws G mp tol cs a b ha hb] at hsub ⊢
  exact roundtrip_any_shift ws G mp (absRat tol) _ (absRat_ne_zero tol htol) _ (nodup_iRvecOf ws G mp tol cs) hsub
    slots hnd hbox χ hper F Ninv hF X i hi

/-- T3 (contract discharged).  The exact discrete Fourier transform on the mesh box satisfies `FFTContract` for every mesh,
    in every field of characteristic 0 that contains primitive roots of unity `ζ_i` of the three mesh orders (ℂ): the
    characters are `χ_q(R) = Π_i ζ_i^{q_i R_i}` (= `e^{2πi q·R/mp}`), they are mesh periodic, and the round trip of the
    objects the code builds is exact.  What stays trusted is only that numpy / FFTW compute this transform. -/
theorem roundtrip_exact_dft {K : Type} [Field K] [CharZero K]
    (ws : Nat) (G : Gram) (mp : Mesh) (tol : Rat) (cs : List QVec3) (a b : Nat)
    (h1 : 0 < mp.1) (h2 : 0 < mp.2.1) (h3 : 0 < mp.2.2)
    (htol : tol ≠ 0) (ha : a < cs.length) (hb : b < cs.length)
    (ks : List QVec3) (slots : List Vec3) (hplace : placeK mp ks = .ok slots)
    (ζ : K × K × K)
    (z1 : IsPrimitiveRoot ζ.1 mp.1) (z2 : IsPrimitiveRoot ζ.2.1 mp.2.1) (z3 : IsPrimitiveRoot ζ.2.2 mp.2.2)
    (X : Nat → K) (i : Nat) (hi : i < slots.length) :
    RtoK (WB.C02.boxChar ζ (slots.getD i (0, 0, 0))) (iRvecOf ws G mp tol cs)
      (qToR (dftBox (fun s c => (WB.C02.boxChar ζ s c)⁻¹) mp) (((mp.1 * mp.2.1 * mp.2.2 : Nat) : K))⁻¹ mp slots
        (weightOf (selOf ws G mp tol cs a b)) X) = X i := by
  have hN : ((mp.1 * mp.2.1 * mp.2.2 : Nat) : K) ≠ 0 := by
    have : mp.1 * mp.2.1 * mp.2.2 ≠ 0 := by positivity
    exact_mod_cast this
  exact roundtrip ws G mp tol cs a b h1 h2 h3 htol ha hb ks slots hplace (WB.C02.boxChar ζ)
    (fun q => WB.C02.boxChar_periodic ζ mp h1 h2 h3 z1.pow_eq_one z2.pow_eq_one z3.pow_eq_one q)
    _ _ (dft_FFTContract ζ mp z1 z2 z3 hN) X i hi

/-- what `set_fft_q_to_R` guarantees when it does not raise: the slots are distinct mesh points, as many as the mesh
    has, and Γ is among them (so the placement is a bijection onto the mesh, whatever the listing order). -/
theorem placement_is_bijection (mp : Mesh) (h1 : 0 < mp.1) (h2 : 0 < mp.2.1) (h3 : 0 < mp.2.2)
    (ks : List QVec3) (slots : List Vec3) (h : placeK mp ks = .ok slots) :
    slots.Nodup ∧ (∀ s ∈ slots, s ∈ gridPoints mp) ∧ slots.length = (gridPoints mp).length ∧
      ((0, 0, 0) : Vec3) ∈ slots := by
  obtain ⟨a, b, c, d⟩ := placeK_ok mp h1 h2 h3 ks slots h
  exact ⟨a, b, by rw [c, length_gridPoints], d⟩

/-! ## remap_XX_R / do_ws_dist -/

/-- `remap_XX_R` (the core of `System_R.do_ws_dist`): an EXISTING real-space matrix element `(R_old, X_ab(R_old))` on any
    R list is folded onto the mesh box and redistributed over the Wigner-Seitz replicas of the pair (a,b) with their
    weights.  For every mesh-periodic character — i.e. at every k-point of the mesh — the k-space sum is unchanged:
    `Σ_{R ∈ new list} χ(R)·X_new(R) = Σ_{R_old} χ(R_old)·X_old(R_old)`; any lattice, mesh, centres, tolerance, old R list
    (also reaching beyond the mesh, where different old R collide) and data.  Together with
    `exclude_zeros_preserves_sums` this is the whole of `do_ws_dist`. -/
theorem ws_dist_preserves_mesh_values {K : Type} [Field K] [CharZero K]
    (ws : Nat) (G : Gram) (mp : Mesh) (tol : Rat) (cs : List QVec3) (a b : Nat)
    (h1 : 0 < mp.1) (h2 : 0 < mp.2.1) (h3 : 0 < mp.2.2)
    (htol : tol ≠ 0) (ha : a < cs.length) (hb : b < cs.length)
    (χ : Vec3 → K) (hper : MeshPeriodic mp χ) (entries : List (Vec3 × K)) :
    RtoK χ (iRvecOf ws G mp tol cs) (remapXXR mp (weightOf (selOf ws G mp tol cs a b)) entries)
      = WB.C02.explicitSum χ entries := by
  have hsub := selOf_sub_iRvecOf ws G mp tol cs a b ha hb
  rw [selOf_eq ws G mp tol cs a b ha hb] at hsub ⊢
  exact RtoK_remapXXR ws G mp h1 h2 h3 (absRat tol) _ (absRat_ne_zero tol htol) _ (nodup_iRvecOf ws G mp tol cs) hsub
    χ hper entries

/-- non-vacuity: mesh (2,1,1), old entries at R = 0, 2e₁ (collide on the mesh) and e₁, weights of the zero shift:
    the new matrix is `[X(-1)=½·1000, X(0)=11, X(1)=½·1000]`-like and the Γ-point sum is preserved. -/
example :
    let sel := wsSelect 1 ⟨1, 0, 0, 1, 0, 1⟩ (2, 1, 1) (1 / 1000) (0, 0, 0)
    let entries : List (Vec3 × Rat) := [((0, 0, 0), 1), ((2, 0, 0), 10), ((1, 0, 0), 1000)]
    [(-1, 0, 0), (0, 0, 0), (1, 0, 0)].map (remapXXR (2, 1, 1) (weightOf sel) entries) = [500, 11, 500] := by
  decide +kernel

/-! ## exclude_zeros (last step of `do_ws_dist`) -/

/-- `exclude_zeros` keeps exactly the R vectors at which some element of some matrix is big (`abs(x) > tolerance`),
    with their blocks unchanged. -/
theorem exclude_zeros_keeps_exactly {K : Type} (big : K → Bool) (blocks : List (Vec3 × List K)) (b : Vec3 × List K) :
    b ∈ excludeZeros big blocks ↔ b ∈ blocks ∧ ∃ x ∈ b.2, big x = true :=
  mem_excludeZeros big blocks b

/-- Every k-space sum `Σ_R χ(R)·X_j(R)` (any character, any element index `j`) splits into the sum over the kept R
    vectors plus the sum over the dropped ones, and every element of a dropped block is not big; in particular, when
    only exact zeros are "not big", removing the blocks changes NO k-space sum — the round trip survives `exclude_zeros`.
    (With the code's tolerance the change is bounded by `tolerance ·` number of dropped blocks.) -/
theorem exclude_zeros_preserves_sums {K : Type} [Field K] (big : K → Bool) (blocks : List (Vec3 × List K))
    (χ : Vec3 → K) (j : Nat) :
    (sumK (blocks.map fun b => χ b.1 * b.2.getD j 0)
      = sumK ((excludeZeros big blocks).map fun b => χ b.1 * b.2.getD j 0)
        + sumK ((blocks.filter fun b => !(b.2.any big)).map fun b => χ b.1 * b.2.getD j 0)) ∧
    (∀ b ∈ blocks.filter (fun b => !(b.2.any big)), ∀ x ∈ b.2, big x = false) ∧
    ((∀ x, big x = false → x = 0) →
      sumK (blocks.map fun b => χ b.1 * b.2.getD j 0)
        = sumK ((excludeZeros big blocks).map fun b => χ b.1 * b.2.getD j 0)) := by
  have hsplit := sumK_excludeZeros big blocks (fun b => χ b.1 * b.2.getD j 0)
  have hdrop : ∀ b ∈ blocks.filter (fun b => !(b.2.any big)), ∀ x ∈ b.2, big x = false := by
    intro b hb x hx
    have h := (List.mem_filter.mp hb).2
    simp only [Bool.not_eq_true', List.any_eq_false] at h
    simpa using h x hx
  refine ⟨hsplit, hdrop, ?_⟩
  intro hz
  rw [hsplit]
  have : sumK ((blocks.filter fun b => !(b.2.any big)).map fun b => χ b.1 * b.2.getD j 0) = 0 := by
    rw [sumK_map_congr _ _ (fun _ => (0 : K))]
    · exact sumK_map_zero _
    · intro b hb
      have h0 : b.2.getD j 0 = 0 := by
        rw [List.getD_eq_getElem?_getD]
        cases hget : b.2[j]? with
        | none => rfl
        | some x =>
          have hx : x ∈ b.2 := List.mem_of_getElem? hget
          simpa using hz x (hdrop b hb x hx)
      rw [h0, mul_zero]
  rw [this, add_zero]

/-- The rule "the largest element (numpy's real-part-first ordering of complex numbers) exceeds the tolerance" is NOT
    `exclude_zeros`: a lone hopping `t = −1` at `R = ±e₁` (or a purely imaginary block) is dropped although `|t| = 1`,
    and the k-space sum at Γ changes from `1 − 1 − 1 = −1` to `1`. -/
theorem max_without_abs_drops_nonzero_blocks :
    let blocks : List (Vec3 × List GRat) :=
      [((0, 0, 0), [⟨1, 0⟩]), ((1, 0, 0), [⟨-1, 0⟩]), ((-1, 0, 0), [⟨-1, 0⟩]), ((0, 1, 0), [⟨0, 1 / 2⟩]), ((0, -1, 0), [⟨0, -1 / 2⟩])]
    (excludeZeros (bigger (1 / 100000000)) blocks).map (·.1) = [(0, 0, 0), (1, 0, 0), (-1, 0, 0), (0, 1, 0), (0, -1, 0)] ∧
    (excludeZerosLexMax (1 / 100000000) blocks).map (·.1) = [(0, 0, 0)] := by
  decide +kernel

/-! ## the tolerance test -/

/-- The model decides the code's test `abs(dist - dist_min) < tolerance` exactly, in rational arithmetic: for the true
    distances `a = √q ≥ 0`, `b = √qmin ≥ 0` in any ordered field (ℝ included), `withinTol tol q qmin ↔ |a - b| < tol`. -/
theorem withinTol_is_the_code_test {K : Type} [Field K] [LinearOrder K] [IsStrictOrderedRing K]
    (tol q qmin : ℚ) (htol : 0 < tol) (hq : qmin ≤ q)
    (a b : K) (ha0 : 0 ≤ a) (hb0 : 0 ≤ b) (ha2 : a * a = (q : K)) (hb2 : b * b = (qmin : K)) :
    withinTol tol q qmin = true ↔ |a - b| < (tol : K) :=
  withinTol_iff_dist tol q qmin htol hq a b ha0 hb0 ha2 hb2

/-- non-vacuity: `q = 25/4`, `qmin = 4` (distances 5/2 and 2) with tolerance 1: within; with tolerance 1/2: not -/
example : withinTol 1 (25 / 4) 4 = true ∧ withinTol (1 / 2) (25 / 4) 4 = false := by decide +kernel

/-! ## T4 — X(−R) = X(R)†  (partial) -/

/-- T4 (per-class helper, formerly the partial statement).  Let `c' = (-c) mod mp`.  If the mirror image of every replica selected for shift `s` at `c` is
    among the searched replicas of `c'`, and vice versa for shift `-s` at `c'`, then the selection for `-s` at `c'` is
    exactly the mirror image of the selection for `s` at `c`, with the same `Ndegen` — i.e. the weights satisfy
    `w_ba(-R) = w_ab(R)` class by class, which with Hermitian mesh data gives `X(-R) = X(R)†`.
    PARTIAL: (i) the hypothesis is needed — see `far_centres_not_mirror` (finding F12); (ii) the last step
    (summing over classes and conjugating the DFT of Hermitian data) is checked by the oracle, not proved.
    Full statement not proved:  for Hermitian `X(q)`:  `qToR … (b,a) (-R) = conj (qToR … (a,b) R)`. -/
theorem ws_mirror_partial (ws : Nat) (G : Gram) (mp : Mesh) (tol : Rat) (htol : tol ≠ 0) (s : QVec3) (c : Vec3)
    (h1 : 0 < mp.1) (h2 : 0 < mp.2.1) (h3 : 0 < mp.2.2)
    (H1 : ∀ p ∈ wsClass ws G mp tol s c, vneg p.1 ∈ candidates ws mp (mirrorClass c mp))
    (H2 : ∀ p ∈ wsClass ws G mp tol (qneg s) (mirrorClass c mp), vneg p.1 ∈ candidates ws mp c)
    (R : Vec3) (nd : Nat) :
    (R, nd) ∈ wsClass ws G mp tol s c ↔ (vneg R, nd) ∈ wsClass ws G mp tol (qneg s) (mirrorClass c mp) := by
  have H1' : ∀ R ∈ selClass ws G mp tol s c, vneg R ∈ candidates ws mp (mirrorClass c mp) := by
    intro R hR
    exact H1 (R, _) ((mem_wsClass ..).2 ⟨hR, rfl⟩)
  have H2' : ∀ R' ∈ selClass ws G mp tol (qneg s) (mirrorClass c mp), vneg R' ∈ candidates ws mp c := by
    intro R hR
    exact H2 (R, _) ((mem_wsClass ..).2 ⟨hR, rfl⟩)
  have hlen := selClass_mirror_length ws G mp tol htol s c _ h1 h2 h3 H1' H2'
  have hmem := selClass_mirror ws G mp tol htol s c _ H1' H2' R
  rw [mem_wsClass, mem_wsClass]
  simp only
  rw [hmem, hlen]

/-- **T4 (full statement).**  Let the mirror hypothesis hold for the (rounded) shift of the pair (a,b) — every selected
    replica of `s` at every grid point `c`, and of `−s` at the mirror grid point, has its mirror image among the searched
    replicas (`MirrorInside`; this is exactly the condition the harness evaluates as "mirror image inside the search box").
    Let the input be Hermitian at every mesh point, `X_ba(q) = conj X_ab(q)`, in any field with an involution `star` and
    roots of unity `ζ_i` with `conj ζ_i = ζ_i⁻¹` (ℂ), and let the mesh transform be the exact DFT.  Then the real-space
    matrices that the model's `q_to_R` produces, with the R list, shift classes (`shift_index` look-up of (a,b) and of
    (b,a)), selections and weights that `set_Rvec` builds, satisfy   `X_ba(−R) = conj X_ab(R)`   for EVERY `R`.
    (Sum over classes + conjugation of the DFT are proved; `ws_mirror_partial` is the per-class helper.) -/
theorem hermitian_of_mirror {K : Type} [Field K] [StarRing K] [CharZero K]
    (ws : Nat) (G : Gram) (mp : Mesh) (tol : Rat) (cs : List QVec3) (a b : Nat)
    (h1 : 0 < mp.1) (h2 : 0 < mp.2.1) (h3 : 0 < mp.2.2)
    (htol : tol ≠ 0) (ha : a < cs.length) (hb : b < cs.length)
    (H : MirrorInside ws G mp (absRat tol) (shiftOf (numDigits tol) cs a b))
    (ζ : K × K × K) (c1 : star ζ.1 = ζ.1⁻¹) (c2 : star ζ.2.1 = ζ.2.1⁻¹) (c3 : star ζ.2.2 = ζ.2.2⁻¹)
    (z1 : ζ.1 ^ mp.1 = 1) (z2 : ζ.2.1 ^ mp.2.1 = 1) (z3 : ζ.2.2 ^ mp.2.2 = 1)
    (slots : List Vec3) (Xab Xba : Nat → K) (hX : ∀ i, Xba i = star (Xab i)) (R : Vec3) :
    let F := dftBox (fun q c => (WB.C02.boxChar ζ q c)⁻¹) mp
    let Ninv := (((mp.1 * mp.2.1 * mp.2.2 : Nat) : K))⁻¹
    qToR F Ninv mp slots (weightOf (selOf ws G mp tol cs b a)) Xba (vneg R)
      = star (qToR F Ninv mp slots (weightOf (selOf ws G mp tol cs a b)) Xab R) := by
  intro F Ninv
  rw [selOf_eq ws G mp tol cs b a hb ha, selOf_eq ws G mp tol cs a b ha hb, shiftOf_swap]
  apply qToR_hermitian ws G mp h1 h2 h3 (absRat tol) (absRat_ne_zero tol htol) _ H
  · intro q c
    rw [star_inv₀, star_boxChar ζ c1 c2 c3, boxChar_vneg]
  · intro q R'
    show (WB.C02.boxChar ζ q R')⁻¹ = (WB.C02.boxChar ζ q (vmod R' mp))⁻¹
    rw [← WB.C02.boxChar_periodic ζ mp h1 h2 h3 z1 z2 z3 q R']
  · rw [star_inv₀, star_natCast]
  · exact hX

/-- non-vacuity of `hermitian_of_mirror`: the mirror hypothesis holds, e.g., for the simple cubic lattice, mesh (2,1,1),
    shift (¼, 0, 0) (search size 1 keeps the kernel evaluation short), and `ζ = (−1, 1, 1)` over ℚ with the trivial
    involution satisfies `conj ζ = ζ⁻¹`, `ζ_i^{mp_i} = 1`. -/
example : MirrorInside 1 ⟨1, 0, 0, 1, 0, 1⟩ (2, 1, 1) (1 / 1000) (1 / 4, 0, 0) := by
  unfold MirrorInside
  decide +kernel

section
attribute [local instance] starRingOfComm
example : star (-1 : ℚ) = (-1 : ℚ)⁻¹ ∧ ((-1 : ℚ)) ^ 2 = 1 := by
  constructor
  · rw [star_id_of_comm]; norm_num
  · norm_num
end

/-- The hypothesis of T4 cannot be dropped (finding F12).  Shown here by kernel evaluation for search size `ws = 1`
    (3³ searched replicas; the code uses `ws = 3`, where the same happens for centres ≳ 3 mesh periods apart, e.g.
    (0,0,0) and (6.2,0.1,0) on the mesh (2,1,1): that instance is executed at `ws = 3` by the correspondence run and
    observed on the real code by the oracle).  Simple cubic lattice, mesh (2,1,1), shift `s = (2.2, 0.1, 0)`:
    for `s` the replica `R = (-1,0,0)` is selected at grid point (1,0,0) (its true nearest image `(-3,0,0)` lies outside
    the search box), but for `-s` the replica `(3,0,0)` is selected, not `-R = (1,0,0)` — the R list is not inversion
    symmetric, so `X(-R) = X(R)†` fails, while the round trip (`roundtrip_any_shift`) still holds. -/
theorem far_centres_not_mirror :
    let G : Gram := ⟨1, 0, 0, 1, 0, 1⟩
    let s : QVec3 := (11 / 5, 1 / 10, 0)
    wsClass 1 G (2, 1, 1) (1 / 1000) s (1, 0, 0) = [((-1, 0, 0), 1)] ∧
    wsClass 1 G (2, 1, 1) (1 / 1000) (qneg s) (mirrorClass (1, 0, 0) (2, 1, 1)) = [((3, 0, 0), 1)] := by
  decide +kernel

/-! ## non-vacuity -/

/-- fcc-like Gram matrix, mesh (2,2,2), shift (¼,¼,¼): the selection has Wigner-Seitz boundary ties
    (grid point (0,1,1) has three equidistant replicas, each with weight ⅓).  (`ws = 1` keeps the kernel evaluation
    short; the driver evaluates the same class at `ws = 3` in every correspondence run.) -/
example :
    wsClass 1 ⟨1/2, 1/4, 1/4, 1/2, 1/4, 1/2⟩ (2, 2, 2) (1 / 1000) (1/4, 1/4, 1/4) (0, 1, 1)
      = [((0, -1, -1), 3), ((0, -1, 1), 3), ((0, 1, -1), 3)] := by decide +kernel

/-- a successful placement of a shuffled, shifted listing of the (2,1,1) mesh -/
example : placeK (2, 1, 1) [(3 / 2, -1, 0), (-2, 0, 5)] = .ok [(1, 0, 0), (0, 0, 0)] := by decide +kernel

/-- the hypotheses `FFTContract` / `MeshPeriodic` of the round trip are satisfiable: mesh (2,1,1) over ℚ with the
    character `χ_q(c) = (-1)^{q₁c₁}` and the explicit DFT `dftBox` as the transform. -/
example :
    let mp : Mesh := (2, 1, 1)
    let χ : Vec3 → Vec3 → ℚ := fun q c => if (q.1 * c.1) % 2 = 0 then 1 else -1
    FFTContract mp χ (dftBox χ mp) (1 / 2) ∧ ∀ q, MeshPeriodic mp (χ q) := by
  intro mp χ
  constructor
  · intro A s hs
    have hg : gridPoints mp = [(0, 0, 0), (1, 0, 0)] := by decide
    rw [hg] at hs ⊢
    simp only [List.mem_cons, List.not_mem_nil, or_false] at hs
    rcases hs with rfl | rfl
    · simp [χ, dftBox, hg, sumK]; ring
    · simp [χ, dftBox, hg, sumK]; ring
  · intro q R
    simp only [χ, vmod]
    have : (q.1 * (R.1 % ((2 : Nat) : Int))) % 2 = (q.1 * R.1) % 2 := by
      push_cast
      rw [Int.mul_emod, Int.emod_emod_of_dvd _ (dvd_refl _), ← Int.mul_emod]
    simp only [mp]
    rw [this]

end WB.C01
