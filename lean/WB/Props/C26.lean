/-
  C26 — system interpolation reproduces its endpoints and is affine: property theorems.

  `K` any field; `χ : Vec3 → K` ANY function of the lattice vector (Bloch phases, and phases times components of
  `R`, are instances: every k-space matrix and every k-derivative is a combination of such sums and of the shifts).
-/
import WB.Lemmas.C26Embed

namespace WB.C26
open WB.C18 (Vec3 Name)

variable {K : Type} [Field K]

/-- T1.  Re-embedding a matrix into the union R-vector list preserves every k-space sum — for every order of the
    union list (it comes from a Python `set`), every pair of R lists without repetitions. -/
theorem embed_preserves (χ : Vec3 → K) (Rold Rnew : List Vec3) (X : Nat → Nat → K) (c : Nat)
    (hold : Rold.Nodup) (hnew : Rnew.Nodup) (hsub : ∀ R ∈ Rold, R ∈ Rnew) :
    blochSum χ Rnew (embed Rold Rnew X) c = blochSum χ Rold X c :=
  embed_preserves_aux χ Rold Rnew X c hold hnew hsub

/-- the embedded matrix has the original element at the position of every old R-vector and zero elsewhere -/
theorem embed_values (Rold Rnew : List Vec3) (X : Nat → Nat → K) (hold : Rold.Nodup) (hsub : ∀ R ∈ Rold, R ∈ Rnew)
    (k : Nat) (hk : k < Rold.length) (c : Nat) :
    embed Rold Rnew X (Rnew.idxOf (Rold.getD k (0, 0, 0))) c = X k c := by
  have hmem : Rold.getD k (0, 0, 0) ∈ Rold := by
    rw [List.getD_eq_getElem?_getD, List.getElem?_eq_getElem hk]; exact List.getElem_mem hk
  have hnew := hsub _ hmem
  have hlt : Rnew.idxOf (Rold.getD k (0, 0, 0)) < Rnew.length := List.idxOf_lt_length_iff.mpr hnew
  have hget : Rnew.getD (Rnew.idxOf (Rold.getD k (0, 0, 0))) (0, 0, 0) = Rold.getD k (0, 0, 0) := by
    rw [List.getD_eq_getElem?_getD, List.getElem?_eq_getElem hlt]; simp
  have hidx : Rold.idxOf (Rold.getD k (0, 0, 0)) = k := by
    rw [List.getD_eq_getElem?_getD, List.getElem?_eq_getElem hk]
    simp only [Option.getD_some]
    exact hold.idxOf_getElem k hk
  simp only [embed, hlt, hget, hmem, and_self, if_true, hidx]

/-- T2.  Endpoints: at `alpha = 0` the interpolated system has the centres, shifts and (re-embedded) matrices of
    system0, at `alpha = 1` those of system1 — shifts included, so `R + t_j - t_i` and with it every k-derivative
    (Berry curvature) is that of the end system.  (`hs0`, `hs1`: the R-vector object of each input system holds its
    own centres, as every constructor in the code base arranges.) -/
theorem endpoints (Li : Nat → Nat → K) (p0 p1 : Sys K)
    (hs0 : ∀ i c, p0.shifts i c = red Li p0.wcc i c) (hs1 : ∀ i c, p1.shifts i c = red Li p1.wcc i c) :
    (∀ i c, (interpolate Li p0 p1 0).wcc i c = p0.wcc i c ∧ (interpolate Li p0 p1 0).shifts i c = p0.shifts i c) ∧
    (∀ i c, (interpolate Li p0 p1 1).wcc i c = p1.wcc i c ∧ (interpolate Li p0 p1 1).shifts i c = p1.shifts i c) := by
  refine ⟨fun i c => ⟨?_, ?_⟩, fun i c => ⟨?_, ?_⟩⟩
  · simp [interpolate, mix_zero]
  · simp only [interpolate]; rw [red_mix, mix_zero, hs0]
  · simp [interpolate, mix_one]
  · simp only [interpolate]; rw [red_mix, mix_one, hs1]

/-- T2 (matrices).  For a matrix present in both prepared systems the interpolated matrix is the affine mix; at the
    endpoints it is the matrix of the end system. -/
theorem endpoints_matrix (Li : Nat → Nat → K) (p0 p1 : Sys K) (key : Name) (X0 X1 : Nat → Nat → K)
    (h0 : lookup p0.mats key = some X0) (h1 : lookup p1.mats key = some X1) (α : K) :
    ∃ Y, lookup (interpolate Li p0 p1 α).mats key = some Y ∧
      (∀ ir c, Y ir c = mix α (X0 ir c) (X1 ir c)) ∧
      (α = 0 → ∀ ir c, Y ir c = X0 ir c) ∧ (α = 1 → ∀ ir c, Y ir c = X1 ir c) := by
  have hl : lookup (interpolate Li p0 p1 α).mats key
      = (lookup p0.mats key).map (fun (X : Nat → Nat → K) => fun (ir c : Nat) =>
          match lookup p1.mats key with
          | some Y => mix α (X ir c) (Y ir c)
          | none => X ir c) := by
    unfold lookup interpolate
    exact lookup_map (fun (k : Name) (X : Nat → Nat → K) => fun (ir c : Nat) =>
      match ((p1.mats.find? (fun p => p.1 == k)).map (·.2)) with
      | some Y => mix α (X ir c) (Y ir c)
      | none => X ir c) p0.mats key
  rw [h0, h1] at hl
  refine ⟨_, hl, fun ir c => rfl, ?_, ?_⟩
  · intro hα ir c; simp only [hα, mix_zero]
  · intro hα ir c; simp only [hα, mix_one]

/-- T2 (k-space).  Combined with T1: at `alpha = 1` (resp. 0) every k-space sum of the interpolated matrix equals
    that of the ORIGINAL matrix of system1 (resp. system0) on its own R-vector list. -/
theorem endpoint_bloch (χ : Vec3 → K) (R0 R1 Rnew : List Vec3) (X0 X1 : Nat → Nat → K) (c : Nat)
    (h0 : R0.Nodup) (h1 : R1.Nodup) (hnew : Rnew.Nodup)
    (hs0 : ∀ R ∈ R0, R ∈ Rnew) (hs1 : ∀ R ∈ R1, R ∈ Rnew) :
    blochSum χ Rnew (fun ir c => mix 0 (embed R0 Rnew X0 ir c) (embed R1 Rnew X1 ir c)) c = blochSum χ R0 X0 c ∧
    blochSum χ Rnew (fun ir c => mix 1 (embed R0 Rnew X0 ir c) (embed R1 Rnew X1 ir c)) c = blochSum χ R1 X1 c := by
  constructor
  · simp only [mix_zero]; exact embed_preserves χ R0 Rnew X0 c h0 hnew hs0
  · simp only [mix_one]; exact embed_preserves χ R1 Rnew X1 c h1 hnew hs1

/-- T3.  Affinity: centres, shifts and every common matrix at `(1-t)·α + t·β` are the same affine combination of
    their values at `α` and `β` (so all second differences in alpha vanish). -/
theorem affine (Li : Nat → Nat → K) (p0 p1 : Sys K) (t α β : K) :
    (∀ i c, (interpolate Li p0 p1 ((1 - t) * α + t * β)).wcc i c
        = (1 - t) * (interpolate Li p0 p1 α).wcc i c + t * (interpolate Li p0 p1 β).wcc i c) ∧
    (∀ i c, (interpolate Li p0 p1 ((1 - t) * α + t * β)).shifts i c
        = (1 - t) * (interpolate Li p0 p1 α).shifts i c + t * (interpolate Li p0 p1 β).shifts i c) ∧
    (∀ a b : K, mix ((1 - t) * α + t * β) a b = (1 - t) * mix α a b + t * mix β a b) := by
  refine ⟨fun i c => ?_, fun i c => ?_, fun a b => mix_affine t α β a b⟩
  · simp only [interpolate]; exact mix_affine t α β _ _
  · simp only [interpolate, red_mix]; exact mix_affine t α β _ _

/-- T3a.  Exact distance from the end points: `X(alpha) - X(1) = (alpha - 1)(X1 - X0)` and
    `X(alpha) - X(0) = alpha (X1 - X0)` for every alpha, arbitrarily close to an end point included. -/
theorem mix_sub_endpoints (α a b : K) :
    mix α a b - mix 1 a b = (α - 1) * (b - a) ∧ mix α a b - mix 0 a b = α * (b - a) := by
  unfold mix; constructor <;> ring

/-- T3b.  No neighbourhood of an end point is flat: the interpolated value equals the end value only AT the end
    point, unless the two systems agree in that entry. -/
theorem no_flat_neighbourhood (α a b : K) :
    (mix α a b = mix 1 a b ↔ α = 1 ∨ a = b) ∧ (mix α a b = mix 0 a b ↔ α = 0 ∨ a = b) := by
  have h := mix_sub_endpoints α a b
  constructor
  · rw [← sub_eq_zero, h.1, mul_eq_zero, sub_eq_zero, sub_eq_zero]
    exact ⟨fun h => h.imp id Eq.symm, fun h => h.imp id Eq.symm⟩
  · rw [← sub_eq_zero, h.2, mul_eq_zero, sub_eq_zero]
    exact ⟨fun h => h.imp id Eq.symm, fun h => h.imp id Eq.symm⟩

/-- T3c.  Counterexample for the rule "snap alpha to the end point when `isclose(alpha, 1)`" (rtol 1e-5): at
    `alpha = 1 - 8e-6` between the entries 0 and 1 the snapped value is 1 instead of 1 - 8e-6, and the second
    difference with step 8e-6 ending at alpha = 1 - 8e-6 does not vanish: the snapped interpolation is not affine. -/
theorem snapping_is_not_affine :
    let near0 : Rat → Bool := fun α => decide (|α| ≤ 1 / 100000000)
    let near1 : Rat → Bool := fun α => decide (|α - 1| ≤ 1 / 100000 + 1 / 100000000)
    let h : Rat := 8 / 1000000
    mixSnap near0 near1 (1 - h) 0 1 = 1 ∧ mix (1 - h) (0 : Rat) 1 = 1 - h ∧
    mixSnap near0 near1 (1 - 3 * h) 0 1 - 2 * mixSnap near0 near1 (1 - 2 * h) 0 1 + mixSnap near0 near1 (1 - h) 0 1 ≠ 0 ∧
    mix (1 - 3 * h) (0 : Rat) 1 - 2 * mix (1 - 2 * h) 0 1 + mix (1 - h) 0 1 = 0 := by
  decide +kernel

/-- T4.  One interpolator used repeatedly: in EVERY history of `interpolate` calls and in-place edits of the systems
    that were handed out, every call `interpolate alpha` returns `F system0 system1 alpha`, and the interpolator's
    own two systems are never changed — for the code's rule (a fresh object per call). -/
theorem interpolate_is_a_function {S : Type} (F : S → S → K → S) :
    ∀ (ops : List (IOp K S)) (st : IState K S),
      (∀ p ∈ (runFresh F ops st).1, p.2 = F st.s0 st.s1 p.1) ∧
      (runFresh F ops st).2.s0 = st.s0 ∧ (runFresh F ops st).2.s1 = st.s1
  | [], st => ⟨fun p hp => by simp [runFresh] at hp, rfl, rfl⟩
  | .interp α :: t, st => by
    obtain ⟨h1, h2, h3⟩ := interpolate_is_a_function F t { st with heap := st.heap ++ [F st.s0 st.s1 α] }
    refine ⟨?_, h2, h3⟩
    intro p hp
    simp only [runFresh, List.mem_cons] at hp
    rcases hp with rfl | hp
    · rfl
    · exact h1 p hp
  | .mutate i f :: t, st => by
    obtain ⟨h1, h2, h3⟩ := interpolate_is_a_function F t { st with heap := st.heap.modify i f }
    exact ⟨fun p hp => h1 p (by simpa [runFresh] using hp), h2, h3⟩

/-- T4'.  Counterexample for the memoised rule (the cache hands out the stored object): interpolate 0, the caller
    edits the returned system, interpolate 0 again — the second call returns the edited system; the code's rule
    returns the interpolation both times. -/
theorem memoised_interpolate_is_aliased :
    let F : Nat → Nat → Nat → Nat := fun a b α => a + α * b
    let st : IState Nat Nat := { s0 := 5, s1 := 7, heap := [], cache := [] }
    let hist : List (IOp Nat Nat) := [.interp 0, .mutate 0 (· + 100), .interp 0, .interp 2]
    (runMemo F hist st).1 = [(0, 5), (0, 105), (2, 19)] ∧ (runFresh F hist st).1 = [(0, 5), (0, 5), (2, 19)] := by
  decide +kernel

/-- non-vacuity of T4: a history with repeated alphas and edits of earlier results, at `Rat` with the real `mix` -/
example :
    let F : Rat → Rat → Rat → Rat := fun a b α => mix α a b
    let st : IState Rat Rat := { s0 := 2, s1 := 6, heap := [], cache := [] }
    (runFresh F [.interp (1/2), .mutate 0 (fun _ => 0), .interp (1/2), .interp 1, .mutate 2 (· * 3), .interp 1] st).1
      = [(1/2, 4), (1/2, 4), (1, 6), (1, 6)] := by
  decide +kernel

/-- Only the matrices present in BOTH systems survive `__init__` (the others are dropped with a warning). -/
theorem prepare_keys [DecidableEq K] (s : Sys K) (otherKeys : List Name) (Rnew : List Vec3) (k : Name) :
    k ∈ (prepare s otherKeys Rnew).mats.map (·.1) ↔ k ∈ s.mats.map (·.1) ∧ k ∈ otherKeys := by
  simp only [prepare, List.map_map, List.mem_map, List.mem_filter, Function.comp]
  constructor
  · rintro ⟨p, ⟨hp, hc⟩, rfl⟩
    exact ⟨⟨p, hp, rfl⟩, by simpa using hc⟩
  · rintro ⟨⟨p, hp, rfl⟩, hk⟩
    exact ⟨p, ⟨hp, by simpa using hk⟩, rfl⟩

/-- The defect that was repaired (F14): with the shifts left at system0's values the `alpha = 1` system does not
    have system1's shifts as soon as the centres differ. -/
theorem old_interpolate_keeps_shifts0 (Li : Nat → Nat → K) (p0 p1 : Sys K) (α : K) (i c : Nat) :
    (interpolateOld Li p0 p1 α).shifts i c = p0.shifts i c := rfl

/-- non-vacuity: two R lists with different members and orders, union in a third order -/
example :
    let R0 : List Vec3 := [(0, 0, 0), (1, 0, 0), (-1, 0, 0)]
    let R1 : List Vec3 := [(0, 1, 0), (0, 0, 0)]
    let Rn : List Vec3 := [(0, 1, 0), (-1, 0, 0), (0, 0, 0), (1, 0, 0)]
    R0.Nodup ∧ R1.Nodup ∧ Rn.Nodup ∧ (∀ R ∈ R0, R ∈ Rn) ∧ (∀ R ∈ R1, R ∈ Rn) ∧
      (List.range 4).map (fun ir => embed R0 Rn (arr 1 [5, 7, 11]) ir 0) = [(0 : Rat), 11, 5, 7] := by
  decide +kernel

end WB.C26
