/-
  C31 — property theorems: the finite-difference stencil of `Derivative3D` / `SystemKP`.
  (helper lemmas: WB/Lemmas/C31.lean, WB/Lemmas/C31Poly.lean)

  Setting.  `bs` = the stencil (weight, reduced displacement, Cartesian displacement) produced by `find_shells`;
  `GoodStencil bs` = closed under b → −b with equal weights, and Σ_b w_b b_a b_c = δ_ac  (B1 of PRB 56, 12847).
  A function value is one matrix entry of the Hamiltonian; `K` is any field of characteristic 0 (ℝ, ℂ, ℚ).
-/
import WB.Lemmas.C31Poly
import WB.Lemmas.C31Find
import Mathlib.Tactic.FieldSimp

namespace WB.C31

variable {K : Type} [Field K] [CharZero K]

/-! ## T1  exactness up to degree 2 and the explicit degree-3 error -/

/-- T1 (general form, any function).  If along the stencil
      f(k + b) = Ev(b) + Σ_a A1_a b_a + Σ_acd A3_acd b_a b_c b_d        with Ev EVEN (constant, quadratic, quartic, … parts)
    then the stencil returns the linear coefficient (= the gradient) plus the fourth-moment term:
      Σ_b w_b f(k+b) b_e = A1_e + Σ_acd A3_acd M4_acde . -/
theorem fd_odd_expansion (bs : List (BPoint K)) (hs : GoodStencil bs) (f : V3 K → K) (k : V3 K)
    (Ev : V3 K → K) (hEv : ∀ b, Ev (fun a => -b a) = Ev b)
    (A1 : Fin 3 → K) (A3 : Fin 3 → Fin 3 → Fin 3 → K)
    (hf : ∀ p ∈ bs, f (vadd k p.bred) = Ev p.bcart + sum3 (fun a => A1 a * p.bcart a)
        + sum3 (fun a => sum3 (fun c => sum3 (fun d => A3 a c d * p.bcart a * p.bcart c * p.bcart d))))
    (e : Fin 3) :
    deriv3D f k e bs = A1 e + sum3 (fun a => sum3 (fun c => sum3 (fun d => A3 a c d * mom4 bs a c d e))) :=
  fd_odd_expansion_aux bs hs f k Ev hEv A1 A3 hf e

/-- T1a.  Polynomial Hamiltonian of degree ≤ 3 in tensor form, either k-vector convention
    (`A = recip_lattice, C = 1` for Cartesian; `A = 1, C = recip_lattice⁻¹` for reduced):
    numerical first derivative = analytic Cartesian gradient + the k-independent error `Σ_b w_b T3(C b) b_e`. -/
theorem fd_cubic_error (bs : List (BPoint K)) (hs : GoodStencil bs) (A C : Fin 3 → Fin 3 → K)
    (hAC : ∀ p ∈ bs, toCart A p.bred = toCart C p.bcart)
    (c0 : K) (g : Fin 3 → K) (h : Fin 3 → Fin 3 → K) (t : Fin 3 → Fin 3 → Fin 3 → K) (k : V3 K) (e : Fin 3) :
    der1 bs (fun x => cubic c0 g h t (toCart A x)) k e = gradC C g h t (toCart A k) e + err1 bs C t e :=
  fd_cubic_general_aux bs hs A C hAC c0 g h t k e

/-- T1b.  Exact for every polynomial of degree ≤ 2. -/
theorem fd_exact_quadratic (bs : List (BPoint K)) (hs : GoodStencil bs) (A C : Fin 3 → Fin 3 → K)
    (hAC : ∀ p ∈ bs, toCart A p.bred = toCart C p.bcart)
    (c0 : K) (g : Fin 3 → K) (h : Fin 3 → Fin 3 → K) (k : V3 K) (e : Fin 3) :
    der1 bs (fun x => cubic c0 g h (fun _ _ _ => 0) (toCart A x)) k e
      = gradC C g h (fun _ _ _ => 0) (toCart A k) e := by
  rw [fd_cubic_error bs hs A C hAC, err1_zero, add_zero]

omit [CharZero K] in
/-- T1c.  In the Cartesian convention (`C = 1`) the error term is the contraction with the fourth moment
    `Σ_acd t_acd M4_acde`  (of order dk²). -/
theorem err1_cartesian (bs : List (BPoint K)) (t : Fin 3 → Fin 3 → Fin 3 → K) (e : Fin 3) :
    err1 bs (fun a c => if a = c then 1 else 0) t e
      = sum3 (fun a => sum3 (fun c => sum3 (fun d => t a c d * mom4 bs a c d e))) := by
  unfold err1
  have h1 : ∀ b : V3 K, cub3 t (toCart (fun a c => if a = c then (1 : K) else 0) b) * b e
      = sum3 (fun a => sum3 (fun c => sum3 (fun d => t a c d * (b a * b c * b d * b e)))) := by
    intro b; simp [cub3, toCart, sum3]; ring
  rw [mom_congr _ _ h1]
  simp only [sum3, mom4, mom_add, mom_smul]

/-- a stencil closed under negation has vanishing odd moments (used inside T1; stated for the record) -/
theorem odd_moments_vanish (bs : List (BPoint K)) (hneg : (bs.map BPoint.neg).Perm bs) (a c d : Fin 3) :
    mom1 bs a = 0 ∧ mom3 bs a c d = 0 :=
  ⟨mom_odd_zero _ (fun b => by ring) bs hneg, mom_odd_zero _ (fun b => by ring) bs hneg⟩

/-! ## T2  Hermiticity is preserved -/

omit [CharZero K] in
/-- T2.  With real weights and real displacement vectors the stencil commutes with conjugation; hence if
    `H_mn(k') = conj H_nm(k')` for all k', the numerical derivative satisfies `D_mn = conj D_nm`. -/
theorem fd_hermitian (conj : K →+* K) (bs : List (BPoint K))
    (hreal : ∀ p ∈ bs, conj p.w = p.w ∧ ∀ a, conj (p.bcart a) = p.bcart a)
    (Hmn Hnm : V3 K → K) (hH : ∀ x, Hmn x = conj (Hnm x)) (k : V3 K) (e : Fin 3) :
    der1 bs Hmn k e = conj (der1 bs Hnm k e) := by
  unfold der1
  rw [deriv3D_conj conj Hnm k e bs hreal]
  exact deriv3D_congr _ _ hH k e bs

omit [CharZero K] in
/-- T2'.  The same for the iterated derivatives. -/
theorem fd_hermitian_iterated (conj : K →+* K) (bs : List (BPoint K))
    (hreal : ∀ p ∈ bs, conj p.w = p.w ∧ ∀ a, conj (p.bcart a) = p.bcart a)
    (Hmn Hnm : V3 K → K) (hH : ∀ x, Hmn x = conj (Hnm x)) (k : V3 K) (e1 e2 e3 : Fin 3) :
    der2 bs Hmn k e1 e2 = conj (der2 bs Hnm k e1 e2) ∧ der3 bs Hmn k e1 e2 e3 = conj (der3 bs Hnm k e1 e2 e3) := by
  have h2 : ∀ x, der2 bs Hmn x e1 e2 = conj (der2 bs Hnm x e1 e2) := fun x =>
    fd_hermitian conj bs hreal _ _ (fun y => fd_hermitian conj bs hreal Hmn Hnm hH y e1) x e2
  exact ⟨h2 k, fd_hermitian conj bs hreal _ _ h2 k e3⟩

/-! ## T3  iterating the stencil gives the 2nd and 3rd derivatives -/

/-- T3a.  For a polynomial of degree ≤ 3 the numerical SECOND derivative (stencil of the numerical first
    derivative) is exactly the analytic Cartesian Hessian: the error of the first stage is k-independent and is
    annihilated by the second stage. -/
theorem fd_second_exact_cubic (bs : List (BPoint K)) (hs : GoodStencil bs) (A C : Fin 3 → Fin 3 → K)
    (hAC : ∀ p ∈ bs, toCart A p.bred = toCart C p.bcart)
    (c0 : K) (g : Fin 3 → K) (h : Fin 3 → Fin 3 → K) (t : Fin 3 → Fin 3 → Fin 3 → K) (k : V3 K) (e1 e2 : Fin 3) :
    der2 bs (fun x => cubic c0 g h t (toCart A x)) k e1 e2 = hessC C h t (toCart A k) e1 e2 :=
  fd_second_aux bs hs A C hAC c0 g h t k e1 e2

/-- T3b.  … and the numerical THIRD derivative is exactly the analytic third-derivative tensor. -/
theorem fd_third_exact_cubic (bs : List (BPoint K)) (hs : GoodStencil bs) (A C : Fin 3 → Fin 3 → K)
    (hAC : ∀ p ∈ bs, toCart A p.bred = toCart C p.bcart)
    (c0 : K) (g : Fin 3 → K) (h : Fin 3 → Fin 3 → K) (t : Fin 3 → Fin 3 → Fin 3 → K) (k : V3 K) (e1 e2 e3 : Fin 3) :
    der3 bs (fun x => cubic c0 g h t (toCart A x)) k e1 e2 e3 = d3C C t e1 e2 e3 :=
  fd_third_aux bs hs A C hAC c0 g h t k e1 e2 e3


/-! ## T4  `find_shells` / `check_B1`: what the derivative theorems need holds whenever the function returns

  `par` (= `check_parallel`) and `kernel` (= the SVD solve of `check_B1`, `none` when a singular value is below 1e-7) are
  ARBITRARY functions; `nrm` (= `np.linalg.norm`) is any function with `nrm (−v) = nrm v`; `th` = 1e-8 (find_degen),
  `tol` = 1e-5, `eps` = 1e-8, `n` = isearch, `nshells` = 50.  `findShells … = none` models the `TypeError` of the code
  when the loop ends with `weights = None` (the known finding). -/

/-- T4a.  The main expansion without the completeness relation: for a stencil closed under negation,
    `Σ_b w_b f(k+b) b_e = Σ_a A1_a M2_ae + Σ A3_acd M4_acde`. -/
theorem fd_odd_expansion_no_b1 {K : Type} [Field K] [CharZero K] (bs : List (BPoint K))
    (hneg : (bs.map BPoint.neg).Perm bs) (f : V3 K → K) (k : V3 K)
    (Ev : V3 K → K) (hEv : ∀ b, Ev (fun a => -b a) = Ev b)
    (A1 : Fin 3 → K) (A3 : Fin 3 → Fin 3 → Fin 3 → K)
    (hf : ∀ p ∈ bs, f (vadd k p.bred) = Ev p.bcart + sum3 (fun a => A1 a * p.bcart a)
        + sum3 (fun a => sum3 (fun c => sum3 (fun d => A3 a c d * p.bcart a * p.bcart c * p.bcart d))))
    (e : Fin 3) :
    deriv3D f k e bs = sum3 (fun a => A1 a * mom2 bs a e)
      + sum3 (fun a => sum3 (fun c => sum3 (fun d => A3 a c d * mom4 bs a c d e))) :=
  fd_odd_expansion_gen_aux bs hneg f k Ev hEv A1 A3 hf e

/-- T4b (soundness of `find_shells`).  Whenever it returns a stencil `st`:
    (1) `st` is the per-vector expansion (with the `abs(w) > eps` filter) of shells `sel` with the kernel's weights `ws`,
        and these passed the guard  ‖Σ_s w_s M_s − 1‖_F ≤ tol  that `check_B1` evaluates before returning;
    (2) the stencil handed to `Derivative3D` is closed under b → −b with equal weights (a permutation of itself);
    (3) its second moment satisfies the completeness relation up to the tolerance, entrywise:
        (Σ_b w_b b_a b_c + [shells dropped by the filter] − δ_ac)² ≤ tol². -/
theorem findShells_sound (par : List Nat → Nat → Bool) (kernel : List Nat → Option (List Rat)) (nrm : V3 Rat → Rat)
    (hnrm : ∀ v : V3 Rat, nrm (fun c => -v c) = nrm v)
    (basis : Fin 3 → Fin 3 → Rat) (n : Nat) (th tol eps : Rat) (hth : 0 ≤ th) (nshells : Nat) (dk : Rat)
    (st : List (Rat × I3)) (h : findShells par kernel nrm basis n th tol eps nshells = some st) :
    ∃ (sel : List Nat) (ws : List Rat),
      kernel sel = some ws ∧ st = expandF (tableFn (shellTableList nrm basis n th nshells)) eps sel ws ∧
      resid2 (fun k => shellMat basis (tableFn (shellTableList nrm basis n th nshells) k)) sel ws ≤ tol * tol ∧
      ((toStencil basis dk st).map BPoint.neg).Perm (toStencil basis dk st) ∧
      ∀ a c, (mom2 (toStencil basis dk st) a c
                + droppedEye (fun k => shellMat basis (tableFn (shellTableList nrm basis n th nshells) k)) eps sel ws a c
                - delta3 a c)
             * (mom2 (toStencil basis dk st) a c
                + droppedEye (fun k => shellMat basis (tableFn (shellTableList nrm basis n th nshells) k)) eps sel ws a c
                - delta3 a c)
             ≤ tol * tol :=
  findShells_sound_aux par kernel nrm hnrm basis n th tol eps hth nshells dk st h

/-- T4c.  The table of shells used by the loop is the list of runs of the sorted lengths (`find_degen`), and every
    shell is closed under negation. -/
theorem shells_closed_under_negation (nrm : V3 Rat → Rat) (hnrm : ∀ v : V3 Rat, nrm (fun c => -v c) = nrm v)
    (basis : Fin 3 → Fin 3 → Rat) (n : Nat) (th : Rat) (hth : 0 ≤ th) (ns k : Nat) :
    tableFn (shellTableList nrm basis n th ns) k = (if k ≤ ns then shellVecs nrm basis n th k else []) ∧
    ((tableFn (shellTableList nrm basis n th ns) k).map negI).Perm (tableFn (shellTableList nrm basis n th ns) k) :=
  ⟨tableFn_shellTableList nrm basis n th ns k, tableFn_neg_perm nrm hnrm basis n th hth ns k⟩

/-- T4d.  Consequence for the numerical derivative with the stencil `find_shells` returned (Rat): the deviation from
    `A1_e + Σ A3 M4` is exactly `Σ_a A1_a (M2_ae − δ_ae)`, and `M2 − δ` is bounded by T4b(3). -/
theorem fd_with_returned_stencil (bs : List (BPoint Rat)) (hneg : (bs.map BPoint.neg).Perm bs) (f : V3 Rat → Rat)
    (k : V3 Rat) (Ev : V3 Rat → Rat) (hEv : ∀ b, Ev (fun a => -b a) = Ev b)
    (A1 : Fin 3 → Rat) (A3 : Fin 3 → Fin 3 → Fin 3 → Rat)
    (hf : ∀ p ∈ bs, f (vadd k p.bred) = Ev p.bcart + sum3 (fun a => A1 a * p.bcart a)
        + sum3 (fun a => sum3 (fun c => sum3 (fun d => A3 a c d * p.bcart a * p.bcart c * p.bcart d))))
    (e : Fin 3) :
    deriv3D f k e bs - (A1 e + sum3 (fun a => sum3 (fun c => sum3 (fun d => A3 a c d * mom4 bs a c d e))))
      = sum3 (fun a => A1 a * (mom2 bs a e - delta3 a e)) := by
  rw [fd_odd_expansion_gen_aux bs hneg f k Ev hEv A1 A3 hf e]
  fin_cases e <;> simp [sum3, delta3] <;> ring

/-- non-vacuity of T4b: the model of `find_shells` does return for suitable kernels (here: any lattice, a kernel that
    answers `[0]` and a generous tolerance, so that the guard 3 ≤ tol² holds whatever the shells are); the
    correspondence run exercises the realistic instances (exact weights such as 128 for the cubic basis 1/16) -/
example (nrm : V3 Rat → Rat) (basis : Fin 3 → Fin 3 → Rat) :
    (findShells (fun _ _ => true) (fun _ => some [0]) nrm basis 3 0 10 0 1).isSome = true := by
  have hc : checkB1 (fun _ => some [0])
      (fun k => shellMat basis (tableFn (shellTableList nrm basis 3 0 1) k)) 10 [1]
      = (true, true, some [0]) := by
    simp [checkB1, resid2, checkEye, delta3, fin3]
    norm_num
  simp [findShells, shellLoop, hc]

/-! ## non-vacuity: the simple-cubic stencil (what `find_shells` returns for `kmax`-type lattices) -/

/-- `b = ±d e_i`, `w = 1/(2d²)` -/
def cubicStencil (d : K) : List (BPoint K) :=
  let v (i : Fin 3) (s : K) : V3 K := fun a => if a = i then s else 0
  [⟨1 / (2 * d * d), v 0 d, v 0 d⟩, ⟨1 / (2 * d * d), v 0 (-d), v 0 (-d)⟩,
   ⟨1 / (2 * d * d), v 1 d, v 1 d⟩, ⟨1 / (2 * d * d), v 1 (-d), v 1 (-d)⟩,
   ⟨1 / (2 * d * d), v 2 d, v 2 d⟩, ⟨1 / (2 * d * d), v 2 (-d), v 2 (-d)⟩]

theorem cubicStencil_good (d : K) (hd : d ≠ 0) : GoodStencil (cubicStencil d) where
  neg_closed := by
    have hneg : ∀ (w : K) (i : Fin 3) (s : K),
        BPoint.neg (⟨w, (fun a => if a = i then s else 0), (fun a => if a = i then s else 0)⟩ : BPoint K)
          = ⟨w, (fun a => if a = i then -s else 0), (fun a => if a = i then -s else 0)⟩ := by
      intro w i s
      simp only [BPoint.neg, BPoint.mk.injEq, true_and]
      constructor <;> (funext a; split <;> simp)
    simp only [cubicStencil, List.map_cons, List.map_nil, hneg, neg_neg]
    exact (List.Perm.swap _ _ _).trans
      (List.Perm.cons _ (List.Perm.cons _ ((List.Perm.swap _ _ _).trans
        (List.Perm.cons _ (List.Perm.cons _ (List.Perm.swap _ _ _))))))
  b1 := by
    intro a c
    fin_cases a <;> fin_cases c <;> simp [cubicStencil, mom2, mom] <;> field_simp <;> norm_num

/-- with `A = C = 1` (reciprocal lattice = unit cube) the hypothesis `hAC` holds for the cubic stencil -/
example (d : K) : ∀ p ∈ cubicStencil d,
    toCart (fun a c => if a = c then (1 : K) else 0) p.bred = toCart (fun a c => if a = c then (1 : K) else 0) p.bcart := by
  intro p hp
  simp only [cubicStencil, List.mem_cons, List.not_mem_nil, or_false] at hp
  rcases hp with rfl | rfl | rfl | rfl | rfl | rfl <;> rfl

end WB.C31
