/-
  C11 — property theorems: a run() stopped after any completed iteration and continued with restart=True
  (restart_iteration = -1), in one or several steps, reproduces the uninterrupted run — for every refinement
  policy, every split, both storage modes, and every order in which the file system lists the factors files.
  Helper lemmas: WB/Lemmas/C11.lean, WB/Lemmas/C11Run.lean.
-/
import WB.Lemmas.C11Run

namespace WB.C11
open WB.C10

/-! ## read_factors -/

/-- T1.  With the repaired `read_factors` the iteration that is loaded depends only on the SET of iteration
    numbers present (any re-ordering of the directory listing gives the same answer), for every `iter`. -/
theorem chooseIter_order_independent (l1 l2 : List Nat) (h : l1.Perm l2) (iter : Int) :
    chooseIter true l1 iter = chooseIter true l2 iter := by
  unfold chooseIter
  simp only [if_true, sortNat_eq_of_perm h]

/-- T1 at the level of the directory: same files listed in another order ⇒ same (iteration, factors) loaded. -/
theorem readFactors_order_independent {K : Type} (d1 d2 : Disk K) (h : d1.facs.Perm d2.facs)
    (hn : (d1.facs.map (·.1)).Nodup) (iter : Int) :
    readFactors true d1 iter = readFactors true d2 iter := by
  unfold readFactors
  have hl : (listing d1).Perm (listing d2) := h.map _
  rw [chooseIter_order_independent _ _ hl]
  cases hc : chooseIter true (listing d2) iter with
  | none => rfl
  | some i =>
    dsimp only
    have hn2 : (d2.facs.map (·.1)).Nodup := (h.map _).nodup_iff.1 hn
    cases h1 : readFile d1.facs i with
    | none =>
      cases h2 : readFile d2.facs i with
      | none => rfl
      | some c =>
        have := readFile_of_mem d1.facs i c hn (h.mem_iff.2 (mem_of_readFile h2))
        rw [h1] at this; cases this
    | some c =>
      rw [readFile_of_mem d2.facs i c hn2 (h.mem_iff.1 (mem_of_readFile h1))]

/-- T1 (meaning of `restart_iteration = -1`): the LARGEST iteration number present is loaded. -/
theorem chooseIter_latest_is_max (l : List Nat) (m : Nat) (hm : m ∈ l) (hmax : ∀ x ∈ l, x ≤ m) :
    chooseIter true l (-1) = some m :=
  chooseIter_latest hm hmax

example : chooseIter true [1, 0, 3, 2] (-1) = some 3 ∧ chooseIter true [3, 1] (-2) = some 1 ∧
    chooseIter true [0, 1, 5] (-3) = some 1 ∧ chooseIter true [2, 0, 1] (-7) = some 0 := by decide +kernel

/-- the defect that was repaired (F4): the ORIGINAL read_factors took the last file in listing order — the same
    three files listed as `0,2,1` restart from iteration 1 instead of 2 -/
theorem old_read_factors_depends_on_listing :
    chooseIter false [0, 1, 2] (-1) = some 2 ∧ chooseIter false [0, 2, 1] (-1) = some 1 ∧
    chooseIter false [2, 1, 0] (-1) = some 0 := by decide +kernel

/-! ## restart = uninterrupted run -/

variable {K : Type} [Field K] [DecidableEq K]

/-- T2 (one restart).  Run `n1` iterations; restart from the files this run left behind — the factors files
    listed in ANY order — and run `n2` more.  Then the restarted call succeeds and ends in exactly the state of the
    uninterrupted `n1+n2` run (K-point list, weights, result_all), it has written exactly the results that the
    uninterrupted run writes for iterations `n1+1 … n1+n2`, K_list.pickle is identical and the factors files are
    the same set.  For every refinement policy, initial list and both storage modes that allow a restart. -/
theorem restart_equiv (policy : Policy K) (mode : Mode) (hm : mode ≠ Mode.clear) (init : List (K × K))
    (n1 n2 : Nat) (d : Disk K)
    (hk : d.klog = (runFresh policy mode init n1).disk.klog)
    (hf : d.facs.Perm (runFresh policy mode init n1).disk.facs) :
    ∃ R, runRestart true policy mode d (-1) n2 = some R ∧
      R.st = (runFresh policy mode init (n1 + n2)).st ∧
      (runFresh policy mode init (n1 + n2)).saved = (runFresh policy mode init n1).saved ++ R.saved ∧
      R.iter = (runFresh policy mode init (n1 + n2)).iter ∧
      R.disk.klog = (runFresh policy mode init (n1 + n2)).disk.klog ∧
      R.disk.facs.Perm (runFresh policy mode init (n1 + n2)).disk.facs := by
  have hJ : J mode (runFresh policy mode init n1) := J_steps mode hm policy n1 _ (J_freshStart mode hm init)
  obtain ⟨R0, hR0, heq, hsaved⟩ := restart_recreates mode _ hJ d hk hf
  obtain ⟨heq2, T, hT1, hT2⟩ := REq_steps policy n2 heq
  have hadd : runFresh policy mode init (n1 + n2) = steps policy n2 (runFresh policy mode init n1) := by
    unfold runFresh; exact steps_add policy n1 n2 _
  refine ⟨steps policy n2 R0, by unfold runRestart; rw [hR0]; rfl, ?_, ?_, ?_, ?_, ?_⟩
  · rw [hadd]; exact heq2.st
  · rw [hadd, hT2, hT1, hsaved, List.nil_append]
  · rw [hadd]; exact heq2.iter
  · rw [hadd]; exact heq2.klog
  · rw [hadd]; exact heq2.facs

/-- T2 (any split, any listing orders).  First call with `n` iterations, then one restarted call per entry of
    `more`; before every restart the directory may list the factors files in another order (`shuffle`, any
    function that only permutes).  The last call ends in the state of the uninterrupted run with
    `n + Σ more` iterations and its saved results are the tail of the uninterrupted run's saved results. -/
theorem restart_campaign_equiv (policy : Policy K) (mode : Mode) (hm : mode ≠ Mode.clear) (init : List (K × K))
    (shuffle : List (Nat × List K) → List (Nat × List K)) (hs : ∀ l, (shuffle l).Perm l) (n : Nat)
    (more : List Nat) :
    ∃ R, runSplit policy mode init shuffle n more = some R ∧
      R.st = (runFresh policy mode init (n + more.sum)).st ∧
      R.iter = (runFresh policy mode init (n + more.sum)).iter ∧
      R.disk.klog = (runFresh policy mode init (n + more.sum)).disk.klog ∧
      R.disk.facs.Perm (runFresh policy mode init (n + more.sum)).disk.facs ∧
      ∃ pre, (runFresh policy mode init (n + more.sum)).saved = pre ++ R.saved := by
  unfold runSplit
  -- generalise: any run B equivalent to the uninterrupted run with `n` iterations
  suffices H : ∀ (more : List Nat) (n : Nat) (B : Run K), REq B (runFresh policy mode init n) →
      (∃ pre, (runFresh policy mode init n).saved = pre ++ B.saved) →
      ∃ R, more.foldl (fun acc m => acc.bind (fun r =>
          runRestart true policy mode { klog := r.disk.klog, facs := shuffle r.disk.facs } (-1) m)) (some B) = some R ∧
        REq R (runFresh policy mode init (n + more.sum)) ∧
        ∃ pre, (runFresh policy mode init (n + more.sum)).saved = pre ++ R.saved by
    obtain ⟨R, h1, h2, h3⟩ := H more n (runFresh policy mode init n) ⟨rfl, rfl, List.Perm.refl _, rfl, rfl⟩ ⟨[], rfl⟩
    exact ⟨R, h1, h2.st, h2.iter, h2.klog, h2.facs, h3⟩
  intro more
  induction more with
  | nil => intro n B hB hpre; exact ⟨B, rfl, by simpa using hB, by simpa using hpre⟩
  | cons m more ih =>
    intro n B hB _
    rw [List.foldl_cons]
    obtain ⟨R1, hR1, hst, hsv, hit, hkl, hfc⟩ := restart_equiv policy mode hm init n m
      { klog := B.disk.klog, facs := shuffle B.disk.facs } hB.klog ((hs _).trans hB.facs)
    simp only [Option.bind_some, hR1]
    obtain ⟨R, h1, h2, h3⟩ := ih (n + m) R1
      ⟨hst, hkl, hfc, hit, by
        -- nk_prev: both equal the length of the K-point list
        have hJ : J mode (runFresh policy mode init (n + m)) := J_steps mode hm policy _ _ (J_freshStart mode hm init)
        have hJ1 : R1.nkPrev = R1.st.pts.length := by
          unfold runRestart at hR1
          cases hrs : restartStart true mode { klog := B.disk.klog, facs := shuffle B.disk.facs } (-1) with
          | none => rw [hrs] at hR1; cases hR1
          | some R0 =>
            rw [hrs] at hR1
            simp only [Option.map_some, Option.some.injEq] at hR1
            have hJ0 : J mode (runFresh policy mode init n) := J_steps mode hm policy _ _ (J_freshStart mode hm init)
            obtain ⟨R0', hR0', heq0, _⟩ := restart_recreates mode _ hJ0
              { klog := B.disk.klog, facs := shuffle B.disk.facs } hB.klog ((hs _).trans hB.facs)
            rw [hrs] at hR0'
            have : R0 = R0' := Option.some.inj hR0'
            subst this
            have heqs := (REq_steps policy m heq0).1
            rw [hR1] at heqs
            have hadd : runFresh policy mode init (n + m) = steps policy m (runFresh policy mode init n) := by
              unfold runFresh; exact steps_add policy n m _
            rw [heqs.nk, heqs.st, ← hadd]
            exact hJ.nk
        rw [hJ1, hst]; exact hJ.nk.symm⟩
      ⟨_, hsv⟩
    refine ⟨R, h1, ?_, ?_⟩
    · simpa [List.sum_cons, Nat.add_assoc] using h2
    · simpa [List.sum_cons, Nat.add_assoc] using h3

/-! ## what the refinement decision may depend on

  `restart_equiv` quantifies over `Policy K = List (KP K) → List (RefOp K)`: the decision is a function of the
  K-point list — values, weights, flags, order — i.e. of state that IS persisted (K_list.pickle, the factors
  files, the per-K result files) and therefore identical after a restart.  The two theorems below make the
  boundary explicit. -/

/-- T3.  A process may carry any amount of non-persisted state `h` (evolving by any `stepH`, rebuilt by any
    `initH` at a restart): as long as the refinement decision does not READ it, restart equivalence holds exactly
    as in `restart_equiv`. -/
theorem restart_equiv_persisted_only {H : Type} (policyH : H → Policy K) (stepH : H → State K → H)
    (initH : State K → H) (hind : ∀ h h', policyH h = policyH h')
    (mode : Mode) (hm : mode ≠ Mode.clear) (init : List (K × K)) (n1 n2 : Nat) (d : Disk K)
    (hk : d.klog = (runFreshH policyH stepH initH mode init n1).1.disk.klog)
    (hf : d.facs.Perm (runFreshH policyH stepH initH mode init n1).1.disk.facs) :
    ∃ R, runRestartH policyH stepH initH mode d n2 = some R ∧
      R.1.st = (runFreshH policyH stepH initH mode init (n1 + n2)).1.st ∧
      (runFreshH policyH stepH initH mode init (n1 + n2)).1.saved =
        (runFreshH policyH stepH initH mode init n1).1.saved ++ R.1.saved := by
  have h0 : H := initH (freshStart mode init).st
  have hfresh : ∀ n, (runFreshH policyH stepH initH mode init n).1 = runFresh (policyH h0) mode init n := by
    intro n; unfold runFreshH runFresh; exact stepsH_fst policyH stepH hind h0 n _
  rw [hfresh] at hk hf
  obtain ⟨R, hR, hst, hsv, _, _, _⟩ := restart_equiv (policyH h0) mode hm init n1 n2 d hk hf
  unfold runRestart at hR
  cases hrs : restartStart true mode d (-1) with
  | none => rw [hrs] at hR; cases hR
  | some r0 =>
    rw [hrs] at hR
    simp only [Option.map_some, Option.some.injEq] at hR
    refine ⟨stepsH policyH stepH n2 (r0, initH r0.st), by unfold runRestartH; rw [hrs]; rfl, ?_, ?_⟩
    · rw [stepsH_fst policyH stepH hind h0, hfresh, hR]; exact hst
    · rw [stepsH_fst policyH stepH hind h0, hfresh, hfresh, hR]; exact hsv

/-- T3' — the hypothesis is needed.  A decision that reads non-persisted state breaks restart equivalence.
    Here the hidden state is the number of iterations done by THIS process (re-created as 0 at a restart) and the
    decision refines the K-point with that index: 2 iterations in one go give 3/2, 1 + 1 iterations give 13/4
    (the restarted process refines the dead point 0 again).
    (A weight cache that is refreshed by set_factor() at a restart but not by add_factor() in the running process
    is hidden state of exactly this kind.) -/
theorem hidden_state_breaks_restart :
    let policyH : Nat → Policy Rat := fun h _ => [RefOp.divide h [1, 2]]
    let stepH : Nat → State Rat → Nat := fun h _ => h + 1
    let initH : State Rat → Nat := fun _ => 0
    let init : List (Rat × Rat) := [(3, 1/2), (5, 1/2)]
    let d := (runFreshH policyH stepH initH Mode.memory init 1).1.disk
    (runFreshH policyH stepH initH Mode.memory init 2).1.st.resultAll = some (3/2) ∧
    (runRestartH policyH stepH initH Mode.memory d 1).map (fun R => R.1.st.resultAll) = some (some (13/4)) := by
  decide +kernel

/-! ## the concrete selection rule of run()

  `selectionPolicy argsort crit ncrit adpt_fac expand` is run()'s decision: for every criterion the `adpt_fac` last
  positions of `argsort(max|result| × weight)`, their union, then division/merging (`expand`).  It reads the results
  (through `crit`, the pickled `_max`) and the weights only — persisted state. -/

/-- T4.  Restart equivalence for the concrete selection rule, for EVERY function `argsort` (stable or not, whatever it
    does with equal scores), every criterion vector, `adpt_fac` and every `expand`.  No tie-freeness is needed here:
    after a restart from the LATEST iteration `argsort` is applied to exactly the same arrays as in the uninterrupted
    run, and a function returns equal values on equal arguments. -/
theorem restart_equiv_selection_rule (argsort : List Rat → List Nat) (crit : Rat → List Rat) (ncrit adptFac : Nat)
    (expand : List Nat → List (KP Rat) → List (RefOp Rat)) (mode : Mode) (hm : mode ≠ Mode.clear)
    (init : List (Rat × Rat)) (n1 n2 : Nat) (d : Disk Rat)
    (hk : d.klog = (runFresh (selectionPolicy argsort crit ncrit adptFac expand) mode init n1).disk.klog)
    (hf : d.facs.Perm (runFresh (selectionPolicy argsort crit ncrit adptFac expand) mode init n1).disk.facs) :
    ∃ R, runRestart true (selectionPolicy argsort crit ncrit adptFac expand) mode d (-1) n2 = some R ∧
      R.st = (runFresh (selectionPolicy argsort crit ncrit adptFac expand) mode init (n1 + n2)).st ∧
      (runFresh (selectionPolicy argsort crit ncrit adptFac expand) mode init (n1 + n2)).saved =
        (runFresh (selectionPolicy argsort crit ncrit adptFac expand) mode init n1).saved ++ R.saved := by
  obtain ⟨R, h1, h2, h3, _⟩ := restart_equiv (selectionPolicy argsort crit ncrit adptFac expand) mode hm init n1 n2 d hk hf
  exact ⟨R, h1, h2, h3⟩

/-- T4' (tie-free data).  When the scores of every criterion are pairwise different, the selection does not depend on
    WHICH admissible argsort is used: any two functions that return a sorting permutation select the same points.
    (This is the situation in which runs that apply argsort to different arrays — another numpy version, or a restart
    from an EARLIER iteration, where stale zero-weight points sit in the list — can be expected to agree.) -/
theorem selection_independent_of_argsort_when_tie_free (as1 as2 : List Rat → List Nat)
    (h1 : ∀ v, IsArgsort v (as1 v)) (h2 : ∀ v, IsArgsort v (as2 v)) (crit : Rat → List Rat) (ncrit adptFac : Nat)
    (pts : List (KP Rat)) (htie : ∀ c, c < ncrit → (kmaxRow crit pts c).Nodup) :
    selectPoints as1 crit ncrit adptFac pts = selectPoints as2 crit ncrit adptFac pts := by
  unfold selectPoints
  congr 1
  apply List.flatMap_congr
  intro c hc
  rw [argsort_unique_of_nodup (htie c (List.mem_range.1 hc)) (h1 _) (h2 _)]

/-- T4'' — tie-freeness is needed: on two equal scores the stable argsort and the one that puts later positions
    first are both admissible answers of `np.argsort`, and they select different K-points for refinement.
    (Observed on the real code: restarting from an earlier iteration with an integer-valued calculator refines other
    points than the original run.) -/
theorem argsort_ties_change_selection :
    let pts : List (KP Rat) := [KP.fresh 3 (1/2), KP.fresh 3 (1/2)]
    let crit : Rat → List Rat := fun r => [r]
    IsArgsort (kmaxRow crit pts 0) (argsortStable (kmaxRow crit pts 0)) ∧
    IsArgsort (kmaxRow crit pts 0) (argsortRev (kmaxRow crit pts 0)) ∧
    selectPoints argsortStable crit 1 1 pts = [1] ∧ selectPoints argsortRev crit 1 1 pts = [0] := by
  refine ⟨⟨?_, ?_⟩, ⟨?_, ?_⟩, ?_, ?_⟩
  · decide +kernel
  · decide +kernel
  · have : argsortRev (kmaxRow (fun r => [r]) [KP.fresh (3 : Rat) (1/2), KP.fresh 3 (1/2)] 0) = [1, 0] := by decide +kernel
    rw [this]; exact List.Perm.swap 0 1 []
  · decide +kernel
  · decide +kernel
  · decide +kernel

/-- T4-padding (restart from an EARLIER iteration: stale zero-weight points behind the live ones).  Scores are
    `max|result| * weight ≥ 0`.  If the POSITIVE scores are pairwise different and at least `k = adpt_fac` of them
    exist, then the `k` positions selected from the array padded with `m` zero scores are exactly the positions
    selected from the unpadded array — for ANY admissible argsorts on the two arrays (ties among the zero scores of
    dead and stale points may be broken in any way). -/
theorem selection_stable_under_zero_padding (v : List Rat) (m k : Nat) (p q : List Nat)
    (hnn : ∀ x ∈ v, 0 ≤ x)
    (hdist : ∀ i j, i < v.length → j < v.length → 0 < v.getD i 0 → v.getD i 0 = v.getD j 0 → i = j)
    (hp : IsArgsort v p) (hq : IsArgsort (v ++ List.replicate m 0) q)
    (hk : k ≤ ((List.range v.length).filter (fun i => decide (0 < v.getD i 0))).length) :
    lastK k p = lastK k q := by
  have hf0 : ∀ i, 0 ≤ v.getD i 0 := by
    intro i
    by_cases hi : i < v.length
    · rw [List.getD_eq_getElem?_getD, List.getElem?_eq_getElem hi]; exact hnn _ (List.getElem_mem hi)
    · rw [List.getD_eq_getElem?_getD, List.getElem?_eq_none (by omega)]; exact le_refl _
  have hfg : ∀ i, i < v.length → (v ++ List.replicate m (0 : Rat)).getD i 0 = v.getD i 0 := by
    intro i hi
    simp [List.getD_eq_getElem?_getD, List.getElem?_append_left hi]
  have hg0' : ∀ i, v.length ≤ i → (v ++ List.replicate m (0 : Rat)).getD i 0 = 0 := by
    intro i hi
    rw [List.getD_eq_getElem?_getD, List.getElem?_append_right hi]
    by_cases h2 : i - v.length < m
    · simp [h2]
    · simp [h2]
  have hg0 : ∀ i, v.length ≤ i → ¬ 0 < (v ++ List.replicate m (0 : Rat)).getD i 0 := by
    intro i hi; rw [hg0' i hi]; exact lt_irrefl _
  have hgnn : ∀ i, 0 ≤ (v ++ List.replicate m (0 : Rat)).getD i 0 := by
    intro i
    by_cases hi : i < v.length
    · rw [hfg i hi]; exact hf0 i
    · rw [hg0' i (by omega)]
  have hlen : (v ++ List.replicate m (0 : Rat)).length = v.length + m := by simp
  have hpos := positive_part_unique v.length (fun i => v.getD i 0) (fun i => (v ++ List.replicate m (0 : Rat)).getD i 0)
    hfg hg0 hdist p q (v.length + m) (by omega) hp.1 hp.2 (by rw [← hlen]; exact hq.1) hq.2
  have hkp : k ≤ (p.filter (fun i => decide (0 < v.getD i 0))).length := by
    rw [(hp.1.filter _).length_eq]; exact hk
  rw [sorted_split (fun i => v.getD i 0) hf0 p hp.2, lastK_append k _ _ hkp,
    sorted_split (fun i => (v ++ List.replicate m (0 : Rat)).getD i 0) hgnn q hq.2,
    lastK_append k _ _ (by rw [← hpos]; exact hkp), hpos]

/-- non-vacuity: scores `[3, 0, 5, 1]` (one dead point), 3 stale zero entries appended, adpt_fac = 2 -/
example :
    IsArgsort [3, 0, 5, 1] (argsortStable [3, 0, 5, 1]) ∧
    IsArgsort ([3, 0, 5, 1] ++ List.replicate 3 0) (argsortRev ([3, 0, 5, 1] ++ List.replicate 3 0)) ∧
    lastK 2 (argsortStable [3, 0, 5, 1]) = [0, 2] ∧
    lastK 2 (argsortRev ([3, 0, 5, 1] ++ List.replicate 3 0)) = [0, 2] := by
  refine ⟨⟨by decide +kernel, by decide +kernel⟩, ⟨by decide +kernel, by decide +kernel⟩, by decide +kernel, by decide +kernel⟩

/-- non-vacuity of T4': a tie-free instance with two criteria and adpt_fac = 2 -/
example :
    let pts : List (KP Rat) := [KP.fresh 3 (1/2), KP.fresh 5 (1/4), KP.fresh 1 (1/4)]
    let crit : Rat → List Rat := fun r => [r, 10 - r]
    (kmaxRow crit pts 0).Nodup ∧ (kmaxRow crit pts 1).Nodup ∧
    selectPoints argsortStable crit 2 2 pts = [1, 0, 2] ∧ selectPoints argsortRev crit 2 2 pts = [1, 0, 2] := by
  decide +kernel

/-! ## concrete instances (non-vacuity) -/

/-- a policy for the examples: refine the last K-point into two children with values 1 and 2, merge nothing -/
def lastInTwo : Policy Rat := fun pts => [RefOp.divide (pts.length - 1) [1, 2]]

/-- 1 + (2 + 1) iterations with the listing reversed before each restart, dump storage: the campaign ends with the
    same weights and result as the uninterrupted 4-iteration run and saves the same last result -/
example :
    (runSplit lastInTwo Mode.dump [((3 : Rat), 1/2), (5, 1/2)] List.reverse 1 [2, 1]).map
        (fun R => (R.st.resultAll, R.st.factors, R.iter, R.saved)) =
      some (some (65/32), [1/2, 0, 1/4, 0, 1/8, 0, 1/16, 0, 1/32, 1/32], 4, [(4, 65/32)]) ∧
    (runFresh lastInTwo Mode.dump [((3 : Rat), 1/2), (5, 1/2)] 4).st.resultAll = some (65/32) := by
  decide +kernel

/-- what the ORIGINAL read_factors did on a reversed listing: the restart silently continues from iteration 0
    (its next saved result is "iteration 1"), the repaired one from iteration 2 -/
example :
    let d := (runFresh lastInTwo Mode.memory [((3 : Rat), 1/2), (5, 1/2)] 2).disk
    (runRestart false lastInTwo Mode.memory { klog := d.klog, facs := d.facs.reverse } (-1) 1).map (·.iter) = some 1 ∧
    (runRestart true lastInTwo Mode.memory { klog := d.klog, facs := d.facs.reverse } (-1) 1).map (·.iter) = some 3 := by
  decide +kernel

end WB.C11
