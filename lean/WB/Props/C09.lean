/-
  C09 — point-group operations form a group acting on tensors: property theorems.

  Conventions (see `WB/Model/C09.lean`): `F` = an ordered field holding the 3x3 matrices (ℝ for the code, ℚ when the
  model is executed), `K` = the field of tensor components with an involutive ring automorphism `conj` that fixes
  the image of `ι : F →+* K` (ℂ with complex conjugation for the code).  `PSym.Proper g` (`0 < det g.R`) is what
  `PointSymmetry.__init__` establishes for every nonsingular matrix (`mk'_proper`), and what `__mul__` preserves.
-/
import WB.Lemmas.C09Avg
import WB.Lemmas.C09Star
import WB.Lemmas.C09Named

namespace WB.C09

section General
variable {F : Type} [Field F] [LinearOrder F] [IsStrictOrderedRing F]

/-! ## T2 — the multiplication law -/

/-- T2a.  `__init__` normalises a nonsingular matrix to (proper part, inversion flag) without losing anything. -/
theorem mk'_proper_and_faithful (M : Mat F) (tr : Bool) (h : det3 M ≠ 0) :
    (PSym.mk' M tr).Proper ∧ (PSym.mk' M tr).full = M ∧ (PSym.mk' M tr).tr = tr :=
  ⟨PSym.mk'_proper M tr h, PSym.full_mk' M tr, rfl⟩

/-- T2b.  `__mul__` multiplies the full (improper) matrices and adds the TR flags — for all operations;
    for operations as the constructor leaves them it multiplies the proper parts and adds both flags, and the
    product is again of that form (the `det`-sign bookkeeping). -/
theorem mul_law (a b : PSym F) :
    (a.mul b).full = matMul a.full b.full ∧ (a.mul b).tr = (a.tr != b.tr) ∧
    (a.Proper → b.Proper →
      (a.mul b).R = matMul a.R b.R ∧ (a.mul b).inv = (a.inv != b.inv) ∧ (a.mul b).Proper) :=
  ⟨PSym.full_mul a b, rfl, fun ha hb =>
    ⟨(PSym.mul_parts a b ha hb).1, (PSym.mul_parts a b ha hb).2.1, PSym.mul_proper a b ha hb⟩⟩

/-- T2c.  The product is associative (no hypothesis). -/
theorem mul_assoc (a b c : PSym F) : (a.mul b).mul c = a.mul (b.mul c) := PSym.mul_assoc a b c

/-- T2d.  The product acts on Cartesian k-vectors (`iTR * iInv * (R @ k)`) as the composition of the actions,
    and the identity acts trivially. -/
theorem actCart_is_action (a b : PSym F) (k : Vec F) :
    (a.mul b).actCart k = a.actCart (b.actCart k) ∧ (PSym.identity : PSym F).actCart k = k :=
  ⟨PSym.actCart_mul a b k, PSym.actCart_identity k⟩

/-- T2e.  The same for the action on reduced coordinates `transform_reduced_vector(·, basis)` with any
    nonsingular basis. -/
theorem transformReduced_is_action (a b : PSym F) (ha : a.Proper) (hb : b.Proper) (B : Mat F) (hB : det3 B ≠ 0)
    (v : Vec F) :
    (a.mul b).transformReduced v B = a.transformReduced (b.transformReduced v B) B ∧
      (PSym.identity : PSym F).transformReduced v B = v :=
  ⟨PSym.transformReduced_mul a b ha hb B hB v, PSym.transformReduced_identity B hB v⟩

/-- T2f.  `__eq__` (exact) is equality of (proper part, Inv, TR). -/
theorem eqv_iff_eq (a b : PSym F) : a.eqv b = true ↔ a = b := PSym.eqv_iff a b

/-! ## T1 — the closure loop produces a group -/

/-- T1a.  If `PointGroup.__init__` returns (no "Cannot define a finite group"), the list `symmetries`
    * starts with the generators as read (repeated ones dropped; `[Identity]` for an empty generator list) and
      contains every generator,
    * is closed under `__mul__`,
    * has no duplicates,
    * consists of proper operations if the generators do,
    * and is contained in every product-closed set that contains the identity and the generators
      (it is the generated group). -/
theorem generate_is_closure (gens L : List (PSym F)) (h : generate gens = some L) :
    (∃ T, L = (if (readGens gens).isEmpty then [PSym.identity] else readGens gens) ++ T) ∧
    (∀ g ∈ gens, g ∈ L) ∧
    (∀ a ∈ L, ∀ b ∈ L, a.mul b ∈ L) ∧
    L.Nodup ∧
    ((∀ g ∈ gens, g.Proper) → ∀ g ∈ L, g.Proper) ∧
    (∀ P : PSym F → Prop, (∀ a b, P a → P b → P (a.mul b)) → P PSym.identity → (∀ g ∈ gens, P g) →
      ∀ g ∈ L, P g) := by
  unfold generate at h
  have start : ∀ P : PSym F → Prop, P PSym.identity → (∀ g ∈ gens, P g) →
      ∀ g ∈ (if (readGens gens).isEmpty then [PSym.identity] else readGens gens), P g := by
    intro P h1 hg g hmem
    split at hmem
    · rw [List.mem_singleton] at hmem; rw [hmem]; exact h1
    · exact hg g ((mem_readGens gens g).1 hmem)
  obtain ⟨hT, hcl, hnd, -⟩ := whileLoop_spec (fun _ => True) (fun _ _ _ _ => trivial) _ _ L h
  refine ⟨hT, ?_, hcl, ?_, ?_, ?_⟩
  · intro g hg
    obtain ⟨T, hT⟩ := hT
    rw [hT]
    apply List.mem_append_left
    have hr : g ∈ readGens gens := (mem_readGens gens g).2 hg
    have hne : (readGens gens).isEmpty = false := by
      cases hl : readGens gens with
      | nil => rw [hl] at hr; simp at hr
      | cons a t => rfl
    rw [hne]; exact hr
  · apply hnd
    split
    · exact List.nodup_singleton _
    · exact readGens_nodup gens
  · intro hg
    exact (whileLoop_spec PSym.Proper PSym.mul_proper _ _ L h).2.2.2
      (start PSym.Proper PSym.identity_proper hg)
  · intro P hmul h1 hg
    exact (whileLoop_spec P hmul _ _ L h).2.2.2 (start P h1 hg)

/-- T1a'.  A generator list without repetitions is read as it is (so `symmetries` starts with it, in order). -/
theorem readGens_id_of_nodup (gens : List (PSym F)) (h : gens.Nodup) : readGens gens = gens :=
  readGens_of_nodup gens h

/-- T1b.  A non-empty, duplicate-free, product-closed list of proper (hence invertible) operations contains
    the identity and a two-sided inverse of each of its members. -/
theorem closed_list_is_group (L : List (PSym F)) (hne : L ≠ []) (hnd : L.Nodup)
    (hcl : ∀ a ∈ L, ∀ b ∈ L, a.mul b ∈ L) (hp : ∀ g ∈ L, g.Proper) :
    PSym.identity ∈ L ∧ ∀ g ∈ L, ∃ h ∈ L, g.mul h = PSym.identity ∧ h.mul g = PSym.identity := by
  have hG := listGroup_of_closed L hnd hcl hp
  have mul_one : ∀ a : PSym F, a.Proper → a.mul PSym.identity = a := by
    intro a ha
    rw [PSym.mul_eq, PSym.identity_full, matMul_id_right, PSym.identity_R.2.2]
    simpa using PSym.mk'_full a ha
  have one_mul : ∀ a : PSym F, a.Proper → (PSym.identity : PSym F).mul a = a := by
    intro a ha
    rw [PSym.mul_eq, PSym.identity_full, matMul_id_left, PSym.identity_R.2.2]
    simpa using PSym.mk'_full a ha
  -- the identity is in the list
  have h1 : (PSym.identity : PSym F) ∈ L := by
    obtain ⟨g, hg⟩ := List.exists_mem_of_ne_nil L hne
    obtain ⟨e, he, hge⟩ := hG.exists_mul_eq hg hg
    have : e = PSym.identity := by
      apply PSym.mul_left_cancel g e PSym.identity (hp g hg) (hp e he) PSym.identity_proper
      rw [hge, mul_one g (hp g hg)]
    exact this ▸ he
  refine ⟨h1, fun g hg => ?_⟩
  obtain ⟨h, hh, hgh⟩ := hG.exists_mul_eq hg h1
  obtain ⟨h', hh', hhh'⟩ := hG.exists_mul_eq hh h1
  refine ⟨h, hh, hgh, ?_⟩
  -- g = g (h h') = (g h) h' = h'
  have : g = h' := by
    calc g = g.mul (h.mul h') := by rw [hhh', mul_one g (hp g hg)]
      _ = (g.mul h).mul h' := (PSym.mul_assoc g h h').symm
      _ = h' := by rw [hgh, one_mul h' (hp h' hh')]
  rw [this]; exact hhh'

/-! ## T6 — lattice invariance -/

end General

/-- T6a.  `check_basis_symmetry(basis)` true ⇒ every operation maps integer reduced vectors (lattice vectors)
    to integer reduced vectors. -/
theorem lattice_invariant (L : List (PSym Rat)) (B : Mat Rat) (h : checkBasis L B = true)
    (g : PSym Rat) (hg : g ∈ L) (n : Vec Rat) (hn : ∀ i, isInt (n i) = true) (j : Fin 3) :
    isInt (g.transformReduced n B j) = true :=
  checkBasis_integral_aux L B h g hg n hn j

/-- T6b.  … and, the list being a group, onto: every lattice vector is the image of a lattice vector. -/
theorem lattice_onto (L : List (PSym Rat)) (B : Mat Rat) (hB : det3 B ≠ 0) (h : checkBasis L B = true)
    (hne : L ≠ []) (hnd : L.Nodup) (hcl : ∀ a ∈ L, ∀ b ∈ L, a.mul b ∈ L) (hp : ∀ g ∈ L, g.Proper)
    (g : PSym Rat) (hg : g ∈ L) (n : Vec Rat) (hn : ∀ i, isInt (n i) = true) :
    ∃ m : Vec Rat, (∀ i, isInt (m i) = true) ∧ g.transformReduced m B = n := by
  obtain ⟨-, hinv⟩ := closed_list_is_group L hne hnd hcl hp
  obtain ⟨g', hg', hgg', -⟩ := hinv g hg
  refine ⟨g'.transformReduced n B, fun i => lattice_invariant L B h g' hg' n hn i, ?_⟩
  rw [← PSym.transformReduced_mul g g' (hp g hg) (hp g' hg') B hB, hgg', PSym.transformReduced_identity B hB]

/-- T6c.  `symmetric_grid(nk)` true ⇒ every operation maps the grid `{(m₁/nk₁, m₂/nk₂, m₃/nk₃)}` into itself. -/
theorem symmetric_grid_maps_grid (L : List (PSym Rat)) (B : Mat Rat) (nk : Vec Rat)
    (hnk : ∀ i, nk i ≠ 0) (hB : det3 B ≠ 0) (h : symmetricGrid L B nk = true)
    (g : PSym Rat) (hg : g ∈ L) (m : Vec Rat) (hm : ∀ i, isInt (m i) = true) (j : Fin 3) :
    isInt (g.transformReduced (fun i => m i / nk i) B j * nk j) = true :=
  symmetricGrid_maps_grid_aux L B nk hnk hB h g hg m hm j

/-! ## T3 — `transform_tensor` is a group action -/

section Tensors
variable {F K : Type} [Field F] [LinearOrder F] [IsStrictOrderedRing F] [Field K] {r : Nat}
  (ι : F →+* K) (conj : K →+* K)

/-- T3.  For every rank `r`, every tensor, all proper operations `g`, `h` and every pair of Transforms that meets
    the decidable side condition `sideCond` (the harness evaluates it for every Transform instance of the code):
    `transform_tensor(g) ∘ transform_tensor(h) = transform_tensor(g·h)`, and the identity acts trivially. -/
theorem transformTensor_mul (hreal : ∀ a : F, conj (ι a) = ι a) (hinv : ∀ a, conj (conj a) = a)
    (tTR tInv : Transform r) (hside : sideCond tTR tInv = true) (g h : PSym F) (hg : g.Proper) (hh : h.Proper)
    (x : Tensor r K) :
    transformTensor ι conj g tTR tInv (transformTensor ι conj h tTR tInv x)
      = transformTensor ι conj (g.mul h) tTR tInv x ∧
    transformTensor ι conj (PSym.identity : PSym F) tTR tInv x = x := by
  obtain ⟨h1, h2, h3⟩ := PSym.mul_parts g h hg hh
  refine ⟨transformTensor_comp ι conj hreal hinv tTR tInv hside g h (g.mul h) h1 h2 h3 x, ?_⟩
  obtain ⟨e1, e2, e3⟩ := PSym.identity_R (F := F)
  unfold transformTensor
  rw [e1, e2, e3]
  have : (fun i j => ι ((matId : Mat F) i j)) = (matId : Mat K) := by
    funext i j; simp only [matId]; split <;> simp
  simp only [this, rotate_id, Bool.false_eq_true, if_false]

/-- T3'.  `TransformProduct` is the product rule: if `a` transforms with `s` and `b` with `t` (factor ±1 and a
    common conjugation, no transposition), then the component-wise product transforms with the product. -/
theorem transformProduct_rule (s t p : Transform r) (hp : transformProduct [s, t] = some p)
    (x y : Tensor r K) :
    p.apply conj (fun idx => x idx * y idx) = fun idx => s.apply conj x idx * t.apply conj y idx := by
  unfold transformProduct at hp
  simp only [List.all_cons, List.all_nil, Bool.and_true, beq_self_eq_true, Bool.true_and,
    List.foldl_cons, List.foldl_nil] at hp
  split at hp
  · rename_i hc
    simp only [Option.some.injEq] at hp
    subst hp
    simp only [Bool.and_eq_true, beq_iff_eq, Option.isNone_iff_eq_none] at hc
    obtain ⟨hc1, hs, ht⟩ := hc
    simp only [Transform.apply_eq, Transform.sigma, hs, ht, hc1]
    funext idx
    cases s.neg <;> cases t.neg <;> cases s.conj <;> simp [negIf, conjIf, permute]
  · exact absurd hp (by simp)

/-! ## T4 — symmetrisation is the projection onto the invariant tensors -/

/-- T4.  For a point group (duplicate-free, product-closed list of proper operations, of size invertible in `K`)
    and Transforms meeting the side condition, `P = symmetrize_tensor` satisfies
    `ρ(h) ∘ P = P` for every member `h`, `P ∘ P = P`, and `P x = x ↔ ∀ g, ρ(g) x = x`. -/
theorem symmetrize_projection (hreal : ∀ a : F, conj (ι a) = ι a) (hinv : ∀ a, conj (conj a) = a)
    (tTR tInv : Transform r) (hside : sideCond tTR tInv = true)
    (L : List (PSym F)) (hne : (L.length : K) ≠ 0) (hnd : L.Nodup)
    (hcl : ∀ a ∈ L, ∀ b ∈ L, a.mul b ∈ L) (hp : ∀ g ∈ L, g.Proper) :
    (∀ h ∈ L, ∀ x : Tensor r K, transformTensor ι conj h tTR tInv (symmetrizeTensor ι conj L tTR tInv x)
        = symmetrizeTensor ι conj L tTR tInv x) ∧
    (∀ x : Tensor r K, symmetrizeTensor ι conj L tTR tInv (symmetrizeTensor ι conj L tTR tInv x)
        = symmetrizeTensor ι conj L tTR tInv x) ∧
    (∀ x : Tensor r K, symmetrizeTensor ι conj L tTR tInv x = x ↔
        ∀ g ∈ L, transformTensor ι conj g tTR tInv x = x) :=
  symmetrize_projection_aux ι conj hreal hinv tTR tInv hside L hne hnd hcl hp

end Tensors

/-- T4 (abstract form): for ANY finite group given as a list acting additively on an additive group,
    with `D` the division by the group order. -/
theorem average_is_projection {G V : Type} [AddCommGroup V] (mul : G → G → G) (L : List G)
    (hG : ListGroup mul L) (T : G → V → V) (D : V → V)
    (hTadd : ∀ g ∈ L, ∀ u v, T g (u + v) = T g u + T g v) (hT0 : ∀ g ∈ L, T g 0 = 0)
    (hD : ∀ v, D (L.length • v) = v) (hTD : ∀ g ∈ L, ∀ v, T g (D v) = D (T g v))
    (hmulT : ∀ g ∈ L, ∀ h ∈ L, ∀ v, T (mul g h) v = T g (T h v)) :
    (∀ h ∈ L, ∀ v, T h (D (L.map fun g => T g v).sum) = D (L.map fun g => T g v).sum) ∧
    (∀ v, D (L.map fun g => T g (D (L.map fun g => T g v).sum)).sum = D (L.map fun g => T g v).sum) ∧
    (∀ v, D (L.map fun g => T g v).sum = v ↔ ∀ g ∈ L, T g v = v) :=
  avg_abstract mul L hG T D hTadd hT0 hD hTD hmulT

/-! ## T5 — the star lists each distinct image exactly once -/

/-- T5.  `star(k)` is a sub-list of the images `[S·k for S in symmetries]` (order kept); its members are pairwise
    inequivalent modulo the reciprocal lattice; every image is equivalent to a member; and of every class the
    first image is the one that is kept. -/
theorem star_spec (L : List (PSym Rat)) (B : Mat Rat) (k : Vec Rat) :
    (star L B k).Sublist (starImages L B k) ∧
    (star L B k).Pairwise (fun u v => equivMod1 u v = false) ∧
    (∀ x ∈ starImages L B k, ∃ y ∈ star L B k, equivMod1 y x = true) ∧
    (∀ pre x post, starImages L B k = pre ++ x :: post → (∀ y ∈ pre, equivMod1 y x = false) →
      x ∈ star L B k) := by
  refine ⟨starFilter_sublist _ _, (starFilter_inequiv _ _).1, ?_, ?_⟩
  · intro x hx
    obtain ⟨y, hy, hyx⟩ := starFilter_cover [] _ x hx
    rcases hy with hy | hy
    · simp at hy
    · exact ⟨y, hy, hyx⟩
  · intro pre x post himg hpre
    unfold star
    rw [himg]
    exact starFilter_first [] pre x post (by simpa using hpre)

/-! ## T7 — named operations denote the documented matrices -/

section NamedOps
variable {F : Type} [Field F] [LinearOrder F] [IsStrictOrderedRing F]

/-- T7a.  `Rotation(n, axis)` (n ∈ {1,2,3,4,6}; axis ±x, ±y, ±z or a body diagonal; `s3 = √3`): a proper operation
    without inversion or time reversal whose matrix is orthogonal, has determinant 1 and order `n` (`Rⁿ = 1`). -/
theorem rotation_is_documented (s3 : F) (h3 : s3 * s3 = 3) (n : Nat) (ax : List Int) (g : PSym F)
    (h : rotationOp s3 n ax = some g) :
    g.inv = false ∧ g.tr = false ∧ g.Proper ∧ g.full = g.R ∧
      matMul (matT g.R) g.R = matId ∧ det3 g.R = 1 ∧ matPow g.R n = matId :=
  rotationOp_spec s3 h3 n ax g h

/-- T7b.  `Mirror(axis)`: the full matrix is minus the two-fold rotation about the axis, has determinant -1 and is
    an involution. -/
theorem mirror_is_documented (s3 : F) (h3 : s3 * s3 = 3) (ax : List Int) (g : PSym F) (h : mirrorOp s3 ax = some g) :
    ∃ c2 : PSym F, rotationOp s3 2 ax = some c2 ∧ g.full = matScale c2.R (-1) ∧ g.tr = false ∧
      det3 g.full = -1 ∧ matMul g.full g.full = matId :=
  mirrorOp_spec s3 h3 ax g h

/-- the matrices the module docstring promises for the names of `dict_sym` -/
def docFull (s3 : F) : String → Option (Mat F × Bool)
  | "Identity" => some (matId, false)
  | "Inversion" => some (fun i j => if i = j then -1 else 0, false)
  | "TimeReversal" => some (matId, true)
  | "Mx" => some (fun i j => if i = j then (if i = 0 then -1 else 1) else 0, false)
  | "My" => some (fun i j => if i = j then (if i = 1 then -1 else 1) else 0, false)
  | "Mz" => some (fun i j => if i = j then (if i = 2 then -1 else 1) else 0, false)
  | "C2x" => some (fun i j => if i = j then (if i = 0 then 1 else -1) else 0, false)
  | "C2y" => some (fun i j => if i = j then (if i = 1 then 1 else -1) else 0, false)
  | "C2z" => some (fun i j => if i = j then (if i = 2 then 1 else -1) else 0, false)
  | "C4x" => some (fun i j => [[1, 0, 0], [0, 0, -1], [0, 1, 0]].getD i.val [] |>.getD j.val 0, false)
  | "C4y" => some (fun i j => [[0, 0, 1], [0, 1, 0], [-1, 0, 0]].getD i.val [] |>.getD j.val 0, false)
  | "C4z" => some (fun i j => [[0, -1, 0], [1, 0, 0], [0, 0, 1]].getD i.val [] |>.getD j.val 0, false)
  | "C3z" => some (fun i j => [[-(1 / 2), -(s3 / 2), 0], [s3 / 2, -(1 / 2), 0], [0, 0, 1]].getD i.val [] |>.getD j.val 0,
      false)
  | "C6z" => some (fun i j => [[1 / 2, -(s3 / 2), 0], [s3 / 2, 1 / 2, 0], [0, 0, 1]].getD i.val [] |>.getD j.val 0, false)
  | _ => none

/-- T7c.  Every name of `dict_sym` denotes the documented full matrix and TR flag. -/
theorem named_ops_are_documented (s3 : F) (name : String)
    (hname : name ∈ ["Identity", "Inversion", "TimeReversal", "Mx", "My", "Mz", "C2x", "C2y", "C2z", "C3z", "C4x",
      "C4y", "C4z", "C6z"]) :
    (namedOp s3 name).map (fun g => (g.full, g.tr)) = docFull s3 name := by
  have h2 : ((1 : F) + 1) = 2 := by norm_num
  simp only [List.mem_cons, List.mem_nil_iff, or_false] at hname
  rcases hname with rfl | rfl | rfl | rfl | rfl | rfl | rfl | rfl | rfl | rfl | rfl | rfl | rfl | rfl
  · show (some (PSym.identity : PSym F)).map _ = _
    simp [docFull, PSym.identity_full, (PSym.identity_R (F := F)).2.2]
  · show (some (PSym.mk' (matScale matId (-1)) false : PSym F)).map _ = _
    simp only [docFull, Option.map_some, PSym.full_mk', PSym.mk'_tr, Option.some.injEq, Prod.mk.injEq, and_true]
    funext i j; fin_cases i <;> fin_cases j <;> simp [matScale, matId]
  · show (some (PSym.mk' matId true : PSym F)).map _ = _
    simp [docFull, PSym.full_mk', PSym.mk'_tr]
  · show (mirrorOp s3 [1, 0, 0]).map _ = _
    rw [mir_full s3 _ _ (axisUnit_x s3) (c2_det_nonneg 0)]
    simp only [docFull, Option.some.injEq, Prod.mk.injEq, and_true]
    funext i j; fin_cases i <;> fin_cases j <;> simp [rodrigues, crossMat, unitV, matScale] <;> norm_num
  · show (mirrorOp s3 [0, 1, 0]).map _ = _
    rw [mir_full s3 _ _ (axisUnit_y s3) (c2_det_nonneg 1)]
    simp only [docFull, Option.some.injEq, Prod.mk.injEq, and_true]
    funext i j; fin_cases i <;> fin_cases j <;> simp [rodrigues, crossMat, unitV, matScale] <;> norm_num
  · show (mirrorOp s3 [0, 0, 1]).map _ = _
    rw [mir_full s3 _ _ (axisUnit_z s3) (c2_det_nonneg 2)]
    simp only [docFull, Option.some.injEq, Prod.mk.injEq, and_true]
    funext i j; fin_cases i <;> fin_cases j <;> simp [rodrigues, crossMat, unitV, matScale] <;> norm_num
  · show (rotationOp s3 2 [1, 0, 0]).map _ = _
    rw [rot_full s3 2 _ (-1) 0 _ rfl (axisUnit_x s3)]
    simp only [docFull, Option.some.injEq, Prod.mk.injEq, and_true]
    funext i j; fin_cases i <;> fin_cases j <;> simp [rodrigues, crossMat, unitV] <;> norm_num
  · show (rotationOp s3 2 [0, 1, 0]).map _ = _
    rw [rot_full s3 2 _ (-1) 0 _ rfl (axisUnit_y s3)]
    simp only [docFull, Option.some.injEq, Prod.mk.injEq, and_true]
    funext i j; fin_cases i <;> fin_cases j <;> simp [rodrigues, crossMat, unitV] <;> norm_num
  · show (rotationOp s3 2 [0, 0, 1]).map _ = _
    rw [rot_full s3 2 _ (-1) 0 _ rfl (axisUnit_z s3)]
    simp only [docFull, Option.some.injEq, Prod.mk.injEq, and_true]
    funext i j; fin_cases i <;> fin_cases j <;> simp [rodrigues, crossMat, unitV] <;> norm_num
  · show (rotationOp s3 3 [0, 0, 1]).map _ = _
    rw [rot_full s3 3 _ (-(1 / (1 + 1))) (s3 / (1 + 1)) _ rfl (axisUnit_z s3)]
    simp only [docFull, Option.some.injEq, Prod.mk.injEq, and_true]
    funext i j; fin_cases i <;> fin_cases j <;> simp [rodrigues, crossMat, unitV, h2] <;> norm_num
  · show (rotationOp s3 4 [1, 0, 0]).map _ = _
    rw [rot_full s3 4 _ 0 1 _ rfl (axisUnit_x s3)]
    simp only [docFull, Option.some.injEq, Prod.mk.injEq, and_true]
    funext i j; fin_cases i <;> fin_cases j <;> simp [rodrigues, crossMat, unitV]
  · show (rotationOp s3 4 [0, 1, 0]).map _ = _
    rw [rot_full s3 4 _ 0 1 _ rfl (axisUnit_y s3)]
    simp only [docFull, Option.some.injEq, Prod.mk.injEq, and_true]
    funext i j; fin_cases i <;> fin_cases j <;> simp [rodrigues, crossMat, unitV]
  · show (rotationOp s3 4 [0, 0, 1]).map _ = _
    rw [rot_full s3 4 _ 0 1 _ rfl (axisUnit_z s3)]
    simp only [docFull, Option.some.injEq, Prod.mk.injEq, and_true]
    funext i j; fin_cases i <;> fin_cases j <;> simp [rodrigues, crossMat, unitV]
  · show (rotationOp s3 6 [0, 0, 1]).map _ = _
    rw [rot_full s3 6 _ (1 / (1 + 1)) (s3 / (1 + 1)) _ rfl (axisUnit_z s3)]
    simp only [docFull, Option.some.injEq, Prod.mk.injEq, and_true]
    funext i j; fin_cases i <;> fin_cases j <;> simp [rodrigues, crossMat, unitV, h2] <;> norm_num

/-- T7d.  `from_string_prod("A*B*…")` is the product, from left to right, of the named operations: its full matrix
    is the product of the full matrices and its TR flag the sum of the TR flags. -/
theorem from_string_prod_is_product (s3 : F) (s : String) (g : PSym F) (h : fromStringProd s3 s = some g) :
    ∃ ops : List (PSym F), (s.splitOn "*").mapM (namedOp s3) = some ops ∧ g = productOps ops ∧
      g.full = ops.foldr (fun op M => matMul op.full M) matId ∧
      g.tr = ops.foldr (fun op t => op.tr != t) false := by
  unfold fromStringProd at h
  cases hm : (s.splitOn "*").mapM (namedOp s3) with
  | none => rw [hm] at h; simp at h
  | some ops =>
    rw [hm] at h
    simp only [Option.map_some, Option.some.injEq] at h
    exact ⟨ops, rfl, h.symm, h ▸ (productOps_full ops).1, h ▸ (productOps_full ops).2⟩

end NamedOps

/-! ## T8 — `Result.transform` delegates to `transform_tensor` with the result's own rank and transforms -/

section ResultDelegation
variable {F K : Type} [Field F] [LinearOrder F] [IsStrictOrderedRing F] [Field K] {r : Nat}
  (ι : F →+* K) (conj : K →+* K)

/-- T8a.  `EnergyResult.transform` / `K__Result.transform`: the data is `transform_tensor` of the data with the
    result's own declared transforms (and rank), which are handed on unchanged; `ResultDict.transform` does this for
    every entry. -/
theorem result_transform_delegates (g : PSym F) (res : ResultM r K) (d : List (String × ResultM r K)) :
    (res.transform ι conj g).data = transformTensor ι conj g res.tTR res.tInv res.data ∧
    (res.transform ι conj g).tTR = res.tTR ∧ (res.transform ι conj g).tInv = res.tInv ∧
    resultDictTransform ι conj g d = d.map (fun kv => (kv.1, kv.2.transform ι conj g)) :=
  ⟨rfl, rfl, rfl, rfl⟩

/-- T8b.  Consequently `PointGroup.symmetrize(result)` is `symmetrize_tensor` with the result's own transforms, and
    inherits T4: it is idempotent and its value is invariant under every element of the group. -/
theorem symmetrize_result_is_projection (hreal : ∀ a : F, conj (ι a) = ι a) (hinv : ∀ a, conj (conj a) = a)
    (res : ResultM r K) (hside : sideCond res.tTR res.tInv = true)
    (L : List (PSym F)) (hne : (L.length : K) ≠ 0) (hnd : L.Nodup)
    (hcl : ∀ a ∈ L, ∀ b ∈ L, a.mul b ∈ L) (hp : ∀ g ∈ L, g.Proper) :
    (symmetrizeResult ι conj L res).data = symmetrizeTensor ι conj L res.tTR res.tInv res.data ∧
    symmetrizeResult ι conj L (symmetrizeResult ι conj L res) = symmetrizeResult ι conj L res ∧
    (∀ h ∈ L, (symmetrizeResult ι conj L res).transform ι conj h = symmetrizeResult ι conj L res) := by
  have e : ∀ x : ResultM r K, (symmetrizeResult ι conj L x).data = symmetrizeTensor ι conj L x.tTR x.tInv x.data :=
    fun _ => rfl
  obtain ⟨h1, h2, _⟩ := symmetrize_projection ι conj hreal hinv res.tTR res.tInv hside L hne hnd hcl hp
  refine ⟨rfl, ?_, ?_⟩
  · have : (symmetrizeResult ι conj L (symmetrizeResult ι conj L res)).data = (symmetrizeResult ι conj L res).data := by
      rw [e, e]; exact h2 res.data
    cases hx : symmetrizeResult ι conj L (symmetrizeResult ι conj L res)
    cases hy : symmetrizeResult ι conj L res
    rw [hx, hy] at this
    simp only at this
    have t1 : (symmetrizeResult ι conj L (symmetrizeResult ι conj L res)).tTR = res.tTR := rfl
    have t2 : (symmetrizeResult ι conj L (symmetrizeResult ι conj L res)).tInv = res.tInv := rfl
    have t3 : (symmetrizeResult ι conj L res).tTR = res.tTR := rfl
    have t4 : (symmetrizeResult ι conj L res).tInv = res.tInv := rfl
    rw [hx] at t1 t2; rw [hy] at t3 t4
    simp only at t1 t2 t3 t4
    rw [this, t1, t2, t3, t4]
  · intro h hh
    have hd : ((symmetrizeResult ι conj L res).transform ι conj h).data = (symmetrizeResult ι conj L res).data := by
      show transformTensor ι conj h res.tTR res.tInv (symmetrizeResult ι conj L res).data = _
      rw [e]; exact h1 h hh res.data
    cases hy : symmetrizeResult ι conj L res
    rw [hy] at hd
    simp only [ResultM.transform] at hd ⊢
    rw [hd]

end ResultDelegation

/-! ## examples: the hypotheses are met by concrete, non-trivial instances -/

/-- the four-fold rotation about z, as `PointSymmetry(R)` builds it -/
def exC4z : PSym Rat := PSym.mk' (matOfList [0, -1, 0, 1, 0, 0, 0, 0, 1]) false
/-- a mirror combined with time reversal (`Mx * TimeReversal`) -/
def exMxT : PSym Rat := PSym.mk' (matOfList [-1, 0, 0, 0, 1, 0, 0, 0, 1]) true

/-- the generators are proper operations … -/
example : det3 (matOfList [0, -1, 0, 1, 0, 0, 0, 0, 1]) ≠ 0 ∧ det3 (matOfList [-1, 0, 0, 0, 1, 0, 0, 0, 1]) ≠ 0 := by
  decide +kernel

/-- … and the closure loop terminates on them with the 8 elements of the magnetic group 4m'm' -/
example : (generate [exC4z, exMxT]).map List.length = some 8 := by decide +kernel

/-- the Transforms used by the code (here `transform_odd_trans_021` with `transform_odd`, and `transform_trans`
    with `transform_ident`) meet the side condition -/
example : sideCond (r := 3) ⟨true, false, some (sigmaOfAxes 3 [0, 2, 1])⟩ ⟨true, false, none⟩ = true := by
  decide +kernel
example : sideCond (r := 2) ⟨false, false, some (sigmaOfAxes 2 [1, 0])⟩ ⟨false, false, none⟩ = true := by
  decide +kernel
/-- a cyclic axis permutation is NOT an involution: the side condition is not vacuous -/
example : sideCond (r := 3) ⟨false, false, some (sigmaOfAxes 3 [1, 2, 0])⟩ ⟨false, false, none⟩ = false := by
  decide +kernel

/-- conjugation hypotheses: met by `K = F = ℚ` with the identity (and by ℂ/ℝ with complex conjugation) -/
example : (∀ a : Rat, (RingHom.id Rat) ((RingHom.id Rat) a) = (RingHom.id Rat) a) ∧
    (∀ a : Rat, (RingHom.id Rat) ((RingHom.id Rat) a) = a) := ⟨fun _ => rfl, fun _ => rfl⟩

/-- the cubic lattice is invariant under the group, the grid 4x4x2 is symmetric and 4x2x2 is not -/
example :
    (generate [exC4z, exMxT]).map (fun L => checkBasis L matId) = some true ∧
    (generate [exC4z, exMxT]).map (fun L => symmetricGrid L matId (vecOfList [4, 4, 2])) = some true ∧
    (generate [exC4z, exMxT]).map (fun L => symmetricGrid L matId (vecOfList [4, 2, 2])) = some false := by
  decide +kernel

/-- the star of k = (1/4, 0, 0) under that group has 4 members, that of a general point 8 -/
example :
    (generate [exC4z, exMxT]).map (fun L => (star L matId (vecOfList [1/4, 0, 0])).length) = some 4 ∧
    (generate [exC4z, exMxT]).map (fun L => (star L matId (vecOfList [1/8, 1/4, 3/8])).length) = some 8 := by
  decide +kernel

/-- A repeated generator is dropped when the list is read (repaired behaviour: before the repair
    `PointGroup(["C4z", "C4z"])` had `size` 5 and its `symmetrize` was a weighted average, not a projection). -/
theorem duplicate_generators_are_dropped :
    (generate [exC4z, exC4z]).map List.length = some 4 ∧ readGens [exC4z, exMxT, exC4z, exC4z] = [exC4z, exMxT] := by
  refine ⟨by decide +kernel, ?_⟩
  have e1 : memL exC4z ([] : List (PSym Rat)) = false := rfl
  have e2 : memL exMxT [exC4z] = false := by decide +kernel
  have e3 : memL exC4z [exC4z, exMxT] = true := by decide +kernel
  simp [readGens, List.foldl, e1, e2, e3]

end WB.C09
