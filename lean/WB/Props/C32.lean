/-
  C32 — tight-binding imports reproduce the source model: property theorems.

  `K` is any field, `conj` any additive involution (complex conjugation on ℂ), `χ : Vec3 → K` ANY function of the
  lattice vector (the Bloch phase `exp(2πi k·R)` for every k is one instance).  Equality of the Bloch sums for every
  χ means equality of the Bloch Hamiltonians at every k, hence of the bands (the orbital-position phases that
  distinguish the two Bloch conventions are a diagonal unitary and do not change eigenvalues).
-/
import WB.Lemmas.C32Sum

namespace WB.C32
open WB.C18 (Vec3)

variable {K : Type} [Field K]

/-! ## the R-vector list -/

/-- the R list of the imported system contains 0, every hopping vector and its negative, and is closed under `R ↦ -R` -/
theorem rlist_complete (hops : List (Hop K)) :
    zeroV ∈ mkRs hops ∧ (∀ h ∈ hops, h.R ∈ mkRs hops ∧ negV h.R ∈ mkRs hops) ∧
    (∀ R ∈ mkRs hops, negV R ∈ mkRs hops) :=
  ⟨zero_mem_mkRs hops, fun h hh => ⟨R_mem_mkRs hops h hh, negR_mem_mkRs hops h hh⟩, neg_mem_mkRs hops⟩

/-! ## PythTB, spinless -/

/-- T1.  The imported Hamiltonian is Hermitian, `H(-R)[j][i] = conj(H(R)[i][j])`, for every hopping list (repeated
    hoppings, both directions given, R = 0 included) when the site energies are real. -/
theorem import_hermitian (conj : K → K) (hc0 : conj 0 = 0) (hadd : ∀ a b, conj (a + b) = conj a + conj b)
    (hinv : ∀ a, conj (conj a) = a) (hops : List (Hop K)) (norb : Nat) (E : Nat → K)
    (hE : ∀ i, conj (E i) = E i) (R : Vec3) (hR : R ∈ mkRs hops) (i j : Nat) :
    importPtb conj hops norb E ((mkRs hops).idxOf (negV R)) j i
      = conj (importPtb conj hops norb E ((mkRs hops).idxOf R) i j) := by
  have hnR := neg_mem_mkRs hops R hR
  have hmem : ∀ h ∈ hops, h.R ∈ mkRs hops ∧ negV h.R ∈ mkRs hops :=
    fun h hh => ⟨R_mem_mkRs hops h hh, negR_mem_mkRs hops h hh⟩
  have h0 := zero_mem_mkRs hops
  have key : (mkRs hops).idxOf (negV R) = (mkRs hops).idxOf zeroV ↔ (mkRs hops).idxOf R = (mkRs hops).idxOf zeroV := by
    rw [idxOf_eq_iff _ _ _ hnR, idxOf_eq_iff _ _ _ hR, negV_eq_iff, negV_zero]
  simp only [importPtb, setOnsite]
  by_cases hc : (mkRs hops).idxOf R = (mkRs hops).idxOf zeroV ∧ i = j ∧ i < norb
  · have hc' : (mkRs hops).idxOf (negV R) = (mkRs hops).idxOf zeroV ∧ j = i ∧ j < norb :=
      ⟨key.mpr hc.1, hc.2.1.symm, hc.2.1 ▸ hc.2.2⟩
    rw [if_pos hc, if_pos hc', hE, hc.2.1]
  · have hc' : ¬ ((mkRs hops).idxOf (negV R) = (mkRs hops).idxOf zeroV ∧ j = i ∧ j < norb) :=
      fun hh => hc ⟨key.mp hh.1, hh.2.1.symm, hh.2.1 ▸ hh.2.2⟩
    rw [if_neg hc, if_neg hc']
    exact accumulate_hermitian conj hc0 hadd hinv (mkRs hops) R hR hnR i j hops hmem

/-- T2.  Same Bloch Hamiltonian as the source model: for every χ and every (i, j) the Bloch sum of the imported
    `Ham_R` is the source model's hopping sum plus Hermitian conjugate plus the on-site term — provided no hopping
    connects an orbital to itself in the home cell (PythTB rejects such a hopping; it would be overwritten by the
    on-site assignment). -/
theorem import_same_Hk (conj : K → K) (χ : Vec3 → K) (hops : List (Hop K)) (norb : Nat) (E : Nat → K)
    (hself : ∀ h ∈ hops, ¬ (h.R = zeroV ∧ h.i = h.j)) (i j : Nat) :
    blochSum χ (mkRs hops) (importPtb conj hops norb E) i j
      = sourceHops conj χ hops i j + (if i = j ∧ i < norb then χ zeroV * E i else 0) := by
  have h0 := zero_mem_mkRs hops
  have hmem : ∀ h ∈ hops, h.R ∈ mkRs hops ∧ negV h.R ∈ mkRs hops :=
    fun h hh => ⟨R_mem_mkRs hops h hh, negR_mem_mkRs hops h hh⟩
  have hz : (i = j ∧ i < norb) → accumulate conj (mkRs hops) hops ((mkRs hops).idxOf zeroV) i j = 0 := by
    rintro ⟨rfl, -⟩
    apply accumulate_zero
    intro g hg
    obtain ⟨hgR, hgnR⟩ := hmem g hg
    have hs := hself g hg
    simp only [contrib]
    rw [if_neg, if_neg, add_zero]
    · rintro ⟨e, e1, e2⟩
      have : negV g.R = zeroV := ((idxOf_eq_iff _ _ _ h0).mp e).symm
      rw [negV_eq_iff, negV_zero] at this
      exact hs ⟨this, e2.symm.trans e1⟩
    · rintro ⟨e, e1, e2⟩
      have : g.R = zeroV := ((idxOf_eq_iff _ _ _ h0).mp e).symm
      exact hs ⟨this, e1.symm.trans e2⟩
  have := blochSum_override χ (mkRs hops) (accumulate conj (mkRs hops) hops) ((mkRs hops).idxOf zeroV)
    (List.idxOf_lt_length_iff.mpr h0) (fun i j => i = j ∧ i < norb) (fun i _ => E i) i j hz
  rw [getD_idxOf _ _ h0, blochSum_accumulate conj χ (mkRs hops) hops hmem i j] at this
  exact this

/-! ## TBmodels -/

/-- T2 (TBmodels).  `Ham_R[iR] += M ; Ham_R[inR] += M†` over the stored hopping matrices gives, for every χ, the
    Bloch sum `Σ_R χ(R) M_R + χ(-R) M_R†` — TBmodels' own definition of H(k) from its half-stored matrices. -/
theorem tbm_same_Hk (conj : K → K) (χ : Vec3 → K) (nw : Nat) (hop : List (Vec3 × (Nat → Nat → K)))
    (i j : Nat) (hi : i < nw) (hj : j < nw) :
    blochSum χ (mkRs (flattenTbm nw hop)) (importTbm conj nw hop) i j
      = (hop.map (fun p => χ p.1 * p.2 i j + χ (negV p.1) * conj (p.2 j i))).sum := by
  have hmem : ∀ h ∈ flattenTbm nw hop, h.R ∈ mkRs (flattenTbm nw hop) ∧ negV h.R ∈ mkRs (flattenTbm nw hop) :=
    fun h hh => ⟨R_mem_mkRs _ h hh, negR_mem_mkRs _ h hh⟩
  unfold importTbm
  rw [blochSum_accumulate conj χ _ _ hmem i j]
  exact sourceHops_flattenTbm conj χ nw i j hi hj hop

/-- T1 (TBmodels): Hermitian for every stored hopping set -/
theorem tbm_hermitian (conj : K → K) (hc0 : conj 0 = 0) (hadd : ∀ a b, conj (a + b) = conj a + conj b)
    (hinv : ∀ a, conj (conj a) = a) (nw : Nat) (hop : List (Vec3 × (Nat → Nat → K)))
    (R : Vec3) (hR : R ∈ mkRs (flattenTbm nw hop)) (i j : Nat) :
    importTbm conj nw hop ((mkRs (flattenTbm nw hop)).idxOf (negV R)) j i
      = conj (importTbm conj nw hop ((mkRs (flattenTbm nw hop)).idxOf R) i j) :=
  accumulate_hermitian conj hc0 hadd hinv _ R hR (neg_mem_mkRs _ R hR) i j _
    (fun h hh => ⟨R_mem_mkRs _ h hh, negR_mem_mkRs _ h hh⟩)

/-! ## PythTB, spinful -/

/-- T2 (spinful).  With 2×2 hopping blocks written to rows `2i, 2i+1` and columns `2j, 2j+1` (spin interleaved)
    and 2×2 on-site blocks, the Bloch sum is the source's: the four elementary hoppings of every block plus
    Hermitian conjugates, plus the on-site block — provided no hopping connects an orbital to itself in the home cell. -/
theorem spin_same_Hk (conj : K → K) (χ : Vec3 → K) (hops : List (Hop2 K)) (norb : Nat) (E : Nat → Nat → Nat → K)
    (hself : ∀ h ∈ hops, ¬ (h.R = zeroV ∧ h.i = h.j)) (a b : Nat) :
    blochSum χ (mkRs (flattenSpin hops)) (importPtbSpin conj hops norb E) a b
      = sourceHops conj χ (flattenSpin hops) a b
        + (if a / 2 = b / 2 ∧ a / 2 < norb then χ zeroV * E (a / 2) (a % 2) (b % 2) else 0) := by
  set fl := flattenSpin hops with hfl
  have h0 := zero_mem_mkRs fl
  have hmem : ∀ h ∈ fl, h.R ∈ mkRs fl ∧ negV h.R ∈ mkRs fl :=
    fun h hh => ⟨R_mem_mkRs fl h hh, negR_mem_mkRs fl h hh⟩
  have hz : (a / 2 = b / 2 ∧ a / 2 < norb) → accumulate conj (mkRs fl) fl ((mkRs fl).idxOf zeroV) a b = 0 := by
    rintro ⟨hab, -⟩
    apply accumulate_zero
    intro g hg
    obtain ⟨h, hh, s, t, hs, ht, gi, gj, gR, -⟩ := mem_flattenSpin hops g hg
    have hsf := hself h hh
    simp only [contrib]
    rw [if_neg, if_neg, add_zero]
    · rintro ⟨e, e1, e2⟩
      have : negV g.R = zeroV := ((idxOf_eq_iff _ _ _ h0).mp e).symm
      rw [negV_eq_iff, negV_zero, gR] at this
      apply hsf ⟨this, ?_⟩
      rw [gj] at e1; rw [gi] at e2
      omega
    · rintro ⟨e, e1, e2⟩
      have : g.R = zeroV := ((idxOf_eq_iff _ _ _ h0).mp e).symm
      rw [gR] at this
      apply hsf ⟨this, ?_⟩
      rw [gi] at e1; rw [gj] at e2
      omega
  have := blochSum_override χ (mkRs fl) (accumulate conj (mkRs fl) fl) ((mkRs fl).idxOf zeroV)
    (List.idxOf_lt_length_iff.mpr h0) (fun a b => a / 2 = b / 2 ∧ a / 2 < norb)
    (fun a b => E (a / 2) (a % 2) (b % 2)) a b hz
  rw [getD_idxOf _ _ h0, blochSum_accumulate conj χ (mkRs fl) fl hmem a b] at this
  exact this

/-- the elementary hoppings of a spinful model are exactly the entries of its 2×2 blocks at the interleaved indices -/
theorem spin_blocks (hops : List (Hop2 K)) (g : Hop K) (hg : g ∈ flattenSpin hops) :
    ∃ h ∈ hops, ∃ s t, s < 2 ∧ t < 2 ∧ g.i = 2 * h.i + s ∧ g.j = 2 * h.j + t ∧ g.R = h.R ∧ g.amp = h.amp s t :=
  mem_flattenSpin hops g hg

/-! ## non-vacuity: the Haldane model's hopping list at Gaussian-rational parameters -/

/-- the nine hoppings of `models.Haldane_ptb` with `hop1 = -1`, `t2 = (3/20) i` (φ = π/2): the imported R list has 7
    vectors in `np.unique` order and the R = 0 block carries the on-site energies and the nearest-neighbour hopping -/
example :
    let t2 : GRat := ⟨0, 3/20⟩
    let t1 : GRat := ⟨-1, 0⟩
    let hops : List (Hop GRat) :=
      [⟨t1, 0, 1, (0, 0, 0)⟩, ⟨t1, 1, 0, (1, 0, 0)⟩, ⟨t1, 1, 0, (0, 1, 0)⟩,
       ⟨t2, 0, 0, (1, 0, 0)⟩, ⟨t2, 1, 1, (1, -1, 0)⟩, ⟨t2, 1, 1, (0, 1, 0)⟩,
       ⟨t2.conj, 1, 1, (1, 0, 0)⟩, ⟨t2.conj, 0, 0, (1, -1, 0)⟩, ⟨t2.conj, 0, 0, (0, 1, 0)⟩]
    let H := importPtb GRat.conj hops 2 (fun i => if i = 0 then ⟨-1/5, 0⟩ else ⟨1/5, 0⟩)
    mkRs hops = [(-1, 0, 0), (-1, 1, 0), (0, -1, 0), (0, 0, 0), (0, 1, 0), (1, -1, 0), (1, 0, 0)] ∧
    H 3 0 0 = ⟨-1/5, 0⟩ ∧ H 3 0 1 = ⟨-1, 0⟩ ∧ H 3 1 0 = ⟨-1, 0⟩ ∧ H 6 0 0 = ⟨0, 3/20⟩ ∧ H 0 0 0 = ⟨0, -3/20⟩ ∧
    (∀ h ∈ hops, ¬ (h.R = zeroV ∧ h.i = h.j)) := by
  decide +kernel

end WB.C32
