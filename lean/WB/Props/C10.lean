/-
  C10 — property theorems: after every iteration of run() with adaptive refinement,
  result_all = Σ_i factor_i · result_i over the current K-point list, whichever points are refined, however the
  refined points are merged, for memory / dump storage; iteration 0 for discarded results.
  Helper lemmas: WB/Lemmas/C10.lean.
-/
import WB.Lemmas.C10
import WB.Lemmas.C10Names

namespace WB.C10

variable {K : Type} [Field K]

/-- T1 (any update rule that drops only zero differences).  For every initial K-point list, every number of
    iterations and every sequence of refinement events per iteration (which points are divided, into how many
    children, which new points are merged into which old or new points), in memory and dump storage:
    no RuntimeError, `result_all = Σ f_i r_i`, the recorded `factors` are the current ones, and every per-K result
    can be read back and is what `paralfunc` returned. -/
theorem refine_invariant_of_keep (keep : K → Bool) (hk : ∀ d, keep d = false → d = 0)
    (mode : Mode) (hm : mode ≠ Mode.clear) (init : List (K × K)) (iters : List (List (RefOp K))) :
    let s := runIters keep mode init iters
    s.err = false ∧ s.resultAll = some (wsum s.pts) ∧ s.factors = s.pts.map (·.f) ∧
      ∀ p ∈ s.pts, p.ev = true ∧ getResult p = some p.r := by
  intro s
  have h := (synced_runIters keep hk mode hm init iters).1
  exact ⟨h.ok, h.sum, h.factors, h.stored⟩

/-- T3 (the repaired rule `fac != 0`): unconditional. -/
theorem refine_invariant [DecidableEq K] (mode : Mode) (hm : mode ≠ Mode.clear) (init : List (K × K))
    (iters : List (List (RefOp K))) :
    let s := runIters keepNew mode init iters
    s.err = false ∧ s.resultAll = some (wsum s.pts) :=
  let h := refine_invariant_of_keep keepNew (by intro d hd; simpa [keepNew] using hd) mode hm init iters
  ⟨h.1, h.2.1⟩

/-- T3 after EVERY iteration (what run() saves as `<fout_name>-<key>_iter-XXXX`), not only the last one. -/
theorem refine_invariant_every_iteration [DecidableEq K] (mode : Mode) (hm : mode ≠ Mode.clear)
    (init : List (K × K)) (iters : List (List (RefOp K))) (k : Nat) :
    let s := runIters keepNew mode init (iters.take k)
    s.err = false ∧ s.resultAll = some (wsum s.pts) :=
  refine_invariant mode hm init (iters.take k)

/-- T3' (an iteration WITHOUT any new evaluation).  If after the refinement events of the last iteration every
    K-point of the list is already evaluated (all new children were absorbed by evaluated points — restart from an
    earlier refinement level, or coinciding points on hexagonal / bcc grids), process() evaluates nothing
    (`result_sum` contributes 0 and the list is unchanged by it), and the update still has to run: afterwards
    `result_all = Σ f_i r_i` over the list with its MOVED weights.  The bookkeeping cannot be skipped on the
    grounds that "nothing was evaluated". -/
theorem refine_invariant_no_new_evaluation [DecidableEq K] (mode : Mode) (hm : mode ≠ Mode.clear)
    (init : List (K × K)) (iters : List (List (RefOp K))) (ops : List (RefOp K))
    (hall : ∀ p ∈ (ops.foldl refStep (runIters keepNew mode init iters)).pts, p.ev = true) :
    let s1 := ops.foldl refStep (runIters keepNew mode init iters)
    let s2 := runIters keepNew mode init (iters ++ [ops])
    (processPts s1.mode s1.pts) = (s1.pts, 0) ∧ s2.pts = s1.pts ∧
      s2.err = false ∧ s2.resultAll = some (wsum s1.pts) := by
  intro s1 s2
  have h := refine_invariant mode hm init (iters ++ [ops])
  have hs2 : s2 = iterate keepNew s1 := by
    show runIters keepNew mode init (iters ++ [ops]) = _
    unfold runIters
    rw [List.foldl_append]
    rfl
  have hproc : processPts s1.mode s1.pts = (s1.pts, 0) := by
    rw [processPts_eq]
    have hmap : ∀ (ps : List (KP K)), (∀ p ∈ ps, p.ev = true) → ps.map (procPt s1.mode) = ps ∧ unevSum ps = 0 := by
      intro ps
      induction ps with
      | nil => intro _; exact ⟨rfl, rfl⟩
      | cons p ps ih =>
        intro hp
        have h1 := hp p (List.mem_cons_self ..)
        obtain ⟨i1, i2⟩ := ih (fun q hq => hp q (List.mem_cons_of_mem _ hq))
        have hpp : procPt s1.mode p = p := by unfold procPt; rw [if_pos h1]
        exact ⟨by rw [List.map_cons, hpp, i1], by simp only [unevSum, h1, if_true]; exact i2⟩
    obtain ⟨m1, m2⟩ := hmap s1.pts hall
    rw [m1, m2]
  have hpts : s2.pts = s1.pts := by
    rw [hs2]
    have : (iterate keepNew s1).pts = (processPts s1.mode s1.pts).1 := by
      unfold iterate
      split
      · rfl
      · dsimp only
        split <;> rfl
    rw [this, hproc]
  refine ⟨hproc, hpts, h.1, ?_⟩
  rw [← hpts]
  exact h.2

/-- non-vacuity, and the defect class it guards against: two evaluated points; in the next iteration point 0 is
    divided into one child which is absorbed by the evaluated point 1 — nothing is left to evaluate, the weights
    moved from (1/2, 1/2) to (0, 1).  The real update gives Σ f r = 7; the rule "skip the update when nothing was
    evaluated" keeps the previous value 6 (and the previous recorded factors). -/
theorem skip_rule_loses_weight_changes :
    let ops := [RefOp.divide 0 [(9 : Rat)], RefOp.merge 1 2]
    let good := runIters keepNew Mode.memory [((5 : Rat), 1/2), (7, 1/2)] [ops]
    let bad := runItersSkip keepNew Mode.memory [((5 : Rat), 1/2), (7, 1/2)] [ops]
    good.pts.map (·.f) = [0, 1] ∧ good.pts.all (·.ev) = true ∧ good.resultAll = some (wsum good.pts) ∧
      good.resultAll = some 7 ∧
    bad.pts.map (·.f) = [0, 1] ∧ bad.resultAll = some 6 ∧ wsum bad.pts = 7 ∧ bad.factors = [1/2, 1/2] := by
  decide +kernel

/-- T4 (discarded results).  Without `allow_restart` and with `adpt_num_iter = 0` the per-K results are cleared;
    run() then performs iteration 0 only, and the result is the weighted sum. -/
theorem clear_mode_iteration0 (keep : K → Bool) (init : List (K × K)) :
    let s := runIters keep Mode.clear init []
    s.err = false ∧ s.resultAll = some (wsum s.pts) := by
  intro s
  have h := first_clear keep init
  exact ⟨h.2, h.1⟩

/-- the guard `store_results = allow_restart or adpt_num_iter > 0` of run() is needed: with cleared results a
    refinement iteration that changes the weight of an old K-point raises (get_result of a cleared point) -/
example : (runIters keepNew Mode.clear [((1 : Rat), 1)] [[RefOp.divide 0 [2, 3]]]).err = true := by decide +kernel

/-- non-vacuity: a 3-iteration history on 2 initial points with divisions, a merge of two new points, a merge of a
    new point into an old (dead) one — dump storage -/
example :
    let s := runIters keepNew Mode.dump [((5 : Rat), 1/2), (7, 1/2)]
      [[RefOp.divide 0 [1, 2, 3, 4], RefOp.merge 2 3], [RefOp.divide 2 [10, 20], RefOp.divide 1 [30, 40], RefOp.merge 0 5]]
    s.resultAll = some (wsum s.pts) ∧ s.pts.map (·.f) = [1/8, 0, 0, 1/8, 1/8, 1/8, 1/4, 1/4] ∧ s.resultAll = some (43/2) := by
  decide +kernel

/-- T2 — the defect that was repaired (F10): with the ORIGINAL rule `abs(fac) > 1e-8` the invariant fails as soon
    as a point whose weight is ≤ 1e-8 is refined.  History: one K-point (NKdiv = 1), `adpt_mesh = [1,1,100]`,
    the refined point is always the last child; in the 5th refinement the parent has weight 1e-8 exactly, its
    weight change is dropped and `result_all` keeps 1e-8·r of a point that no longer counts. -/
theorem old_rule_loses_weight :
    let child := List.replicate 99 (0 : Rat) ++ [1]
    let iters := [[RefOp.divide 0 child], [RefOp.divide 100 child], [RefOp.divide 200 child],
                  [RefOp.divide 300 child], [RefOp.divide 400 child]]
    let sOld := runIters (keepOld (1 / 100000000)) Mode.memory [((1 : Rat), 1)] iters
    let sNew := runIters keepNew Mode.memory [((1 : Rat), 1)] iters
    sOld.resultAll = some (wsum sOld.pts + 1 / 100000000) ∧ sNew.resultAll = some (wsum sNew.pts) ∧
    wsum sNew.pts = 1 / 10000000000 := by
  decide +kernel

/-! ## storage names (why `KP.file` may be treated as the K-point's own file)

  `NEvent` histories cover fresh runs and any number of restarts at any point (`NEvent.restart`), any numbers of new
  points per iteration and any deletions of new points by the run-level `exclude_equiv_points`. -/

omit [Field K] in
/-- T5.  With the naming rule of the code (name = position in K_list, assigned at the top of the loop body for the
    points behind `nk_prev`): after every event of every history, every K-point of the list is stored under the name
    that equals its position, and reading that file back yields its own result; no dump ever lacked a path. -/
theorem storage_names_own_file (events : List (NEvent K)) (i : Nat) (p : NP K)
    (hp : (nrun NameRule.atIterStart events).pts[i]? = some p) :
    p.ev = true ∧ p.name = some i ∧ readBack (nrun NameRule.atIterStart events) p = some p.r ∧
      (nrun NameRule.atIterStart events).err = false := by
  have h := ninv_run (K := K) events
  obtain ⟨h1, h2, h3⟩ := allNamed_get _ 0 _ h.named i p hp
  simp only [Nat.zero_add] at h2 h3
  refine ⟨h1, h2, ?_, h.ok⟩
  unfold readBack
  rw [h2]
  exact h3

omit [Field K] in
/-- T5 (injectivity).  Distinct K-points of the list never share a storage file. -/
theorem storage_names_injective_on_live_points (events : List (NEvent K)) (i j : Nat) (p q : NP K)
    (hp : (nrun NameRule.atIterStart events).pts[i]? = some p)
    (hq : (nrun NameRule.atIterStart events).pts[j]? = some q) (hij : i ≠ j) :
    p.name ≠ q.name ∧ p.name.isSome = true := by
  obtain ⟨_, h1, _, _⟩ := storage_names_own_file events i p hp
  obtain ⟨_, h2, _, _⟩ := storage_names_own_file events j q hq
  rw [h1, h2]
  exact ⟨by intro h; exact hij (Option.some.inj h), rfl⟩

/-- non-vacuity: 2 initial points; an iteration with 3 new points of which the one at position 3 is deleted; a
    restart; an iteration with 2 new points -/
example :
    let s := nrun NameRule.atIterStart
      [NEvent.iter [(10 : Rat), 11] [], NEvent.iter [20, 21, 22] [3], NEvent.restart, NEvent.iter [30, 31] []]
    s.pts.map (·.name) = [some 0, some 1, some 2, some 3, some 4, some 5] ∧
    s.pts.map (readBack s) = [some 10, some 11, some 20, some 22, some 30, some 31] := by decide +kernel

/-- the seeded rule T-C10 (names assigned after divide() but BEFORE exclude_equiv_points deletes duplicates) is
    wrong: the survivor behind a deleted point keeps a name beyond the end of the list, the next iteration hands the
    same name to a new point, whose dump overwrites the file — the earlier point reads back a foreign result. -/
theorem names_before_deletion_collide :
    let s := nrun NameRule.beforeDelete [NEvent.iter [(10 : Rat)] [], NEvent.iter [20, 21] [1], NEvent.iter [30] []]
    s.pts.map (·.r) = [10, 21, 30] ∧ s.pts.map (·.name) = [some 0, some 2, some 2] ∧
    s.pts.map (readBack s) = [some 10, some 30, some 30] := by decide +kernel

/-- the seeded rule T-C11 (name = number of K-points processed by THIS call) is right in an uninterrupted run and
    wrong after a restart: the counter starts again at 0 and the new point overwrites `_Kp-0.pickle`. -/
theorem per_run_counter_overwrites_after_restart :
    let fresh := nrun NameRule.perRunCounter [NEvent.iter [(10 : Rat), 11] [], NEvent.iter [20] []]
    let split := nrun NameRule.perRunCounter [NEvent.iter [(10 : Rat), 11] [], NEvent.restart, NEvent.iter [20] []]
    fresh.pts.map (readBack fresh) = [some 10, some 11, some 20] ∧
    split.pts.map (·.name) = [some 0, some 1, some 0] ∧
    split.pts.map (readBack split) = [some 20, some 11, some 20] := by decide +kernel

end WB.C10
