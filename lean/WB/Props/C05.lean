/-
  C05 — invariance under relabelling / co-centred rotation of the Wannier basis: property theorems.

  T1  `System_R.reorder` is conjugation by a permutation matrix (`reorder_is_conjugation`), it commutes with the
      derivative operator `i(R + t_j - t_i)` at every order because matrices, centres and shifts are permuted with
      the same index list (`reorder_commutes_with_derivative`), and with the Fourier sum (`reorder_fourier`).
  T2  a k-independent unitary that mixes only functions with equal centres commutes with the derivative operator at
      every order (`cocentred_rotation_commutes_with_derivative`); without the hypothesis it does not
      (`noncocentred_rotation_breaks_derivative`).
  T3  spectrum (characteristic polynomial) and every Hamiltonian-gauge matrix are unchanged by a unitary change of
      the Wannier basis (`charpoly_unitary_conj`, `charpoly_reorder`, `hamiltonian_gauge_unchanged`); traces: C04.
  Not proved here: that each calculator is a function of the Hamiltonian-gauge matrices and energies only — that is
  the structure of the code (Data_K.Xbar / E_K), exercised by the oracle (run() before/after the transformation).
-/
import WB.Lemmas.C04Gauge
import Mathlib.LinearAlgebra.Matrix.Charpoly.Basic
import Mathlib.Data.Matrix.PEquiv
import Mathlib.LinearAlgebra.Matrix.Permutation
import WB.Model.C05

namespace WB.C05
open Matrix WB.C04

/-! ## T1: reordering -/

section reorder
variable {K : Type} [Field K]

/-- **T1b.**  Reordering commutes with the derivative operator of every order: the derivative of the reordered
    system (matrices AND centres/shifts permuted, as `System_R.reorder` + `Rvectors.reorder` do) is the reordered
    derivative.  Holds for every index map `p`, lattice, lattice vector and list of Cartesian directions. -/
theorem reorder_commutes_with_derivative (I : K) (L : ℕ → ℕ → K) (R : ℕ → K) (t : ℕ → ℕ → K) (X : ℕ → ℕ → K)
    (p : ℕ → ℕ) (axes : List ℕ) (i j : ℕ) :
    derivX I L R (reorderC p t) (reorderM p X) axes i j = reorderM p (derivX I L R t X axes) i j := rfl

/-- what goes wrong when the centres are NOT permuted with the matrices (a `reorder` that forgets
    `wannier_centers`/`shifts`): the derivative factor is taken at the wrong pair of centres -/
theorem reorder_without_centres (I : K) (L : ℕ → ℕ → K) (R : ℕ → K) (t : ℕ → ℕ → K) (X : ℕ → ℕ → K)
    (p : ℕ → ℕ) (axes : List ℕ) (i j : ℕ) :
    derivX I L R t (reorderM p X) axes i j = X (p i) (p j) * derFac I L R (t i) (t j) axes := rfl

/-- **T1a.**  `X'[i,j] = X[p i, p j]` is conjugation by the permutation matrix of `p`:
    `X' = P X P⁻¹` with `P = p.toPEquiv.toMatrix`, `P⁻¹ = Pᵀ`. -/
theorem reorder_is_conjugation {n : ℕ} (p : Equiv.Perm (Fin n)) (X : Matrix (Fin n) (Fin n) K) :
    X.submatrix p p = p.toPEquiv.toMatrix * X * p.symm.toPEquiv.toMatrix
      ∧ (p.toPEquiv.toMatrix : Matrix (Fin n) (Fin n) K) * p.symm.toPEquiv.toMatrix = 1
      ∧ (p.symm.toPEquiv.toMatrix : Matrix (Fin n) (Fin n) K) = (p.toPEquiv.toMatrix)ᵀ := by
  refine ⟨?_, ?_, ?_⟩
  · rw [PEquiv.toMatrix_toPEquiv_mul, PEquiv.mul_toMatrix_toPEquiv]
    ext i j; simp
  · rw [← PEquiv.toMatrix_trans, ← Equiv.toPEquiv_trans, Equiv.self_trans_symm, Equiv.toPEquiv_refl,
      PEquiv.toMatrix_refl]
  · rw [Equiv.toPEquiv_symm, PEquiv.toMatrix_symm]

omit [Field K] in
/-- the model's `reorderM` is `Matrix.submatrix` -/
theorem reorderM_eq_submatrix {n : ℕ} (p : Equiv.Perm (Fin n)) (X : ℕ → ℕ → K) (i j : Fin n) :
    reorderM (fun a => if h : a < n then (p ⟨a, h⟩ : ℕ) else a) X i j
      = (Matrix.of fun a b : Fin n => X a b).submatrix p p i j := by
  simp [reorderM]

/-- **T1c.**  The Fourier sum of the reordered matrices is the reordered Fourier sum: `H'(k) = Pᵀ H(k) P`. -/
theorem reorder_fourier (Rs : List (ℕ → K)) (ph : (ℕ → K) → K) (X : (ℕ → K) → ℕ → ℕ → K) (p : ℕ → ℕ) (i j : ℕ) :
    (Rs.map fun R => ph R * reorderM p (X R) i j).sum = reorderM p (fun a b => (Rs.map fun R => ph R * X R a b).sum) i j :=
  rfl

/-- reordering leaves the spectrum unchanged -/
theorem charpoly_reorder {n : ℕ} (p : Equiv.Perm (Fin n)) (X : Matrix (Fin n) (Fin n) K) :
    (X.submatrix p p).charpoly = X.charpoly := by
  have := Matrix.charpoly_reindex p.symm X
  simpa [Matrix.reindex_apply] using this

end reorder

/-! ## T2: co-centred unitary rotation -/

section rotation
variable {K : Type} [Field K] [StarRing K]

/-- rotation by `U` of a matrix whose entries carry a factor depending only on the centres of the two functions -/
theorem rotate_label_factor (n : ℕ) (U X : ℕ → ℕ → K) {Lab : Type} (lab : ℕ → Lab) (φ : Lab → Lab → K)
    (hU : ∀ a i : Fin n, U a i ≠ 0 → lab a = lab i) (a d : Fin n) :
    rotate star n U (fun i j => X i j * φ (lab i) (lab j)) a d = rotate star n U X a d * φ (lab a) (lab d) := by
  unfold rotate
  simp only [sumRange_eq, Finset.sum_mul]
  apply Finset.sum_congr rfl; intro b _
  apply Finset.sum_congr rfl; intro c _
  by_cases h1 : U b a = 0
  · simp [h1]
  · by_cases h2 : U c d = 0
    · simp [h2]
    · rw [hU b a h1, hU c d h2]; ring

/-- **T2.**  If `U` mixes only Wannier functions with equal centres (`U a i ≠ 0 → t a = t i`), rotating all
    real-space matrices by `U` commutes with the derivative operator at every order:
    `D[U† X U] = U† D[X] U` for every lattice vector, lattice and list of Cartesian directions. -/
theorem cocentred_rotation_commutes_with_derivative (n : ℕ) (I : K) (L : ℕ → ℕ → K) (R : ℕ → K) (t : ℕ → ℕ → K)
    (U X : ℕ → ℕ → K) (hU : ∀ a i : Fin n, U a i ≠ 0 → t a = t i) (axes : List ℕ) (a d : Fin n) :
    derivX I L R t (rotate star n U X) axes a d = rotate star n U (derivX I L R t X axes) a d := by
  unfold derivX
  exact (rotate_label_factor n U X t (fun ti tj => derFac I L R ti tj axes) hU a d).symm

/-- the hypothesis of T2 is needed: two functions at different centres (0 and 1/2 along x), mixed by a rotation,
    first derivative along x — `D[U†XU] ≠ U† D[X] U` -/
theorem noncocentred_rotation_breaks_derivative :
    ∃ (U X : ℕ → ℕ → ℚ) (t : ℕ → ℕ → ℚ) (L : ℕ → ℕ → ℚ) (R : ℕ → ℚ),
      derivX (1 : ℚ) L R t (rotate id 2 U X) [0] 0 1 ≠ rotate id 2 U (derivX (1 : ℚ) L R t X [0]) 0 1 := by
  refine ⟨fun i j => if i = 1 ∧ j = 0 then -1 else 1, fun i j => if i = j then 0 else 1,
    fun i b => if i = 1 ∧ b = 0 then 1/2 else 0, fun b a => if b = a then 1 else 0, fun _ => 0, ?_⟩
  decide +kernel

/-- …and is met by a non-trivial instance: the same rotation between two functions on one site -/
example : ∀ a i : Fin 2, (fun i j : ℕ => if i = 1 ∧ j = 0 then (-1 : ℚ) else 1) a i ≠ 0 →
    (fun (_ : ℕ) (_ : ℕ) => (1/3 : ℚ)) a = (fun (_ : ℕ) (_ : ℕ) => (1/3 : ℚ)) i := by
  intro a i _; rfl

/-! ## T3: spectrum and Hamiltonian-gauge matrices -/

/-- **T3a.**  A unitary change of the Wannier basis leaves the spectrum (characteristic polynomial) of `H(k)`
    unchanged. -/
theorem charpoly_unitary_conj {n : ℕ} (U X : Matrix (Fin n) (Fin n) K) (hU : U * Uᴴ = 1) :
    (Uᴴ * X * U).charpoly = X.charpoly := by
  rw [Matrix.charpoly_mul_comm, ← Matrix.mul_assoc, hU, Matrix.one_mul]

/-- **T3b.**  If `V` are eigenvectors of `H` (Wannier → Hamiltonian gauge), `U†V` are eigenvectors of `U†HU`, and
    EVERY matrix in the Hamiltonian gauge is literally unchanged: `(U†V)† (U†XU) (U†V) = V† X V`.
    All quantities computed from `Xbar` matrices and energies therefore coincide. -/
theorem hamiltonian_gauge_unchanged {n : ℕ} (U V X : Matrix (Fin n) (Fin n) K) (hU : U * Uᴴ = 1) :
    (Uᴴ * V)ᴴ * (Uᴴ * X * U) * (Uᴴ * V) = Vᴴ * X * V := by
  have h : ∀ T : Matrix (Fin n) (Fin n) K, U * (Uᴴ * T) = T := by
    intro T; rw [← Matrix.mul_assoc, hU, Matrix.one_mul]
  rw [Matrix.conjTranspose_mul, Matrix.conjTranspose_conjTranspose]
  simp only [Matrix.mul_assoc, h]

/-- T3b for the permutation: the reordered system in the Hamiltonian gauge (`V' = Pᵀ V`) -/
theorem hamiltonian_gauge_unchanged_reorder {n : ℕ} (p : Equiv.Perm (Fin n)) (V X : Matrix (Fin n) (Fin n) K) :
    (V.submatrix p id)ᴴ * X.submatrix p p * V.submatrix p id = Vᴴ * X * V := by
  ext a b
  simp only [Matrix.mul_apply, Matrix.conjTranspose_apply, Matrix.submatrix_apply, id]
  apply Fintype.sum_equiv p
  intro x
  congr 1
  apply Fintype.sum_equiv p
  intro i
  rfl

end rotation


/-! ## reorder treats EVERY stored matrix -/

/-- **`reorder_all_matrices`.**  After `System_R.reorder` the system has exactly the keys it had before, in the same
    order, and the matrix of every key — `Ham`, `AA`, …, but also `OO`, `GG`, `SA`, `SHA`, `SR`, `SH`, `SHR`, or any
    name a user stored — is the permuted one. -/
theorem reorder_all_matrices {K : Type} (p : ℕ → ℕ) (mats : List (String × (ℕ → ℕ → K))) :
    (reorderSys p mats).map Prod.fst = mats.map Prod.fst ∧
    ∀ kv ∈ mats, (kv.1, reorderM p kv.2) ∈ reorderSys p mats := by
  constructor
  · unfold reorderSys; rw [List.map_map]; rfl
  · intro kv hkv
    unfold reorderSys
    exact List.mem_map.mpr ⟨kv, hkv, rfl⟩

/-- with a fixed list of names this fails: a matrix outside the list (`OO`) keeps the old order while the centres
    and the listed matrices are permuted -/
theorem reorder_fixed_keys_misses_matrix :
    let X : ℕ → ℕ → ℚ := fun a b => ((10 * a + b : ℕ) : ℚ)
    let out := reorderSysKeys ["Ham", "AA", "BB", "CC", "SS", "FF"] (ofListFn [1, 0]) [("Ham", X), ("OO", X)]
    (out.map fun kv => (kv.1, kv.2 0 0)) = [("Ham", 11), ("OO", 0)] ∧
    ((reorderSys (ofListFn [1, 0]) [("Ham", X), ("OO", X)]).map fun kv => (kv.1, kv.2 0 0)) = [("Ham", 11), ("OO", 11)] := by
  decide +kernel

/-! ## multi-step histories: the shift bookkeeping of `Rvectors` -/

theorem stepShifts_ok (s : Shifts) (op : SOp) (h : ShiftsOk s) : ShiftsOk (stepShifts s op) := by
  obtain ⟨h1, h2⟩ := h
  cases op with
  | doubleSpin => exact ⟨by simp [stepShifts, h1], by simp [stepShifts, h2]⟩
  | reorder p => exact ⟨by simp [stepShifts, h1], by simp [stepShifts, h2]⟩

/-- T7 (histories).  After EVERY history of `double_spin` and `reorder` operations (any index lists, any number of
    steps) on a freshly built system, the left and the right shift arrays both equal the centres of the current
    Wannier functions: `reorder` permutes both arrays unconditionally, `double_spin` duplicates both. -/
theorem shifts_follow_centres (c : List Nat) (ops : List SOp) : ShiftsOk (runShifts (Shifts.fresh c) ops) := by
  have gen : ∀ (ops : List SOp) (s : Shifts), ShiftsOk s → ShiftsOk (runShifts s ops) := by
    intro ops
    induction ops with
    | nil => intro s h; exact h
    | cons op rest ih => intro s h; exact ih _ (stepShifts_ok s op h)
  exact gen ops _ ⟨rfl, rfl⟩

/-- … hence the pair `(t_i, t_j)` entering `R + t_j - t_i` is the pair of centres of the relabelled functions `i, j`,
    so the derivative factor is relabelled consistently with the matrices (`reorder_commutes_with_derivative`). -/
theorem shift_pairs_consistent (c : List Nat) (ops : List SOp) (i j : Nat) :
    let s := runShifts (Shifts.fresh c) ops
    (s.left.getD i 0, s.right.getD j 0) = (s.centres.getD i 0, s.centres.getD j 0) := by
  obtain ⟨h1, h2⟩ := shifts_follow_centres c ops
  simp only [h1, h2]

/-- T7' (why a flag-guarded rule is wrong, and why it hides).  "Permute the right array only if `has_shifts_right`"
    keeps the law for `[reorder p]` on a fresh system (the right array is the same object as the left one), but after
    `double_spin` the arrays are separate objects while the flag is still false: for two centres `0, 1` the history
    `[double_spin, reorder [2,3,0,1]]` leaves the right shifts in the old order. -/
theorem flag_guarded_reorder_breaks_after_double_spin :
    ShiftsOk (runShiftsFlag (Shifts.fresh [0, 1]) [SOp.reorder [1, 0]]) ∧
    ¬ ShiftsOk (runShiftsFlag (Shifts.fresh [0, 1]) [SOp.doubleSpin, SOp.reorder [2, 3, 0, 1]]) ∧
    (runShiftsFlag (Shifts.fresh [0, 1]) [SOp.doubleSpin, SOp.reorder [2, 3, 0, 1]]).right = [0, 0, 1, 1] ∧
    (runShiftsFlag (Shifts.fresh [0, 1]) [SOp.doubleSpin, SOp.reorder [2, 3, 0, 1]]).centres = [1, 1, 0, 0] ∧
    ShiftsOk (runShifts (Shifts.fresh [0, 1]) [SOp.doubleSpin, SOp.reorder [2, 3, 0, 1]]) := by
  decide +kernel

/-! ## non-vacuity of the executable model -/

/-- a concrete reorder: swapping two functions moves rows, columns and centres together -/
example : (List.range 2).map (fun i => (List.range 2).map fun j =>
      reorderM (ofListFn [1, 0]) (fun a b => ((10 * a + b : ℕ) : ℚ)) i j) = [[11, 10], [1, 0]] := by decide +kernel

/-- a concrete history: two centres, double_spin, then a relabelling that moves functions between the centres -/
example : (runShifts (Shifts.fresh [0, 1]) [SOp.doubleSpin, SOp.reorder [2, 3, 0, 1]]).right = [1, 1, 0, 0] := by
  decide +kernel

end WB.C05
