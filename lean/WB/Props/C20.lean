/-
  C20 — real-space symmetrisation yields a symmetric, Hermitian model: property theorems.

  Part A (T2): the marking loop of `SymWann.find_irreducible_Rab` (model: `WB.C20.findIrreducible`, the function
      the correspondence run executes) keeps exactly the first point — in iteration order — of every orbit,
      whenever the operation list is closed (reachability is symmetric and transitive: true for a group acting on
      a closed (R, a, b) set; corollary `irreducible_group_action` for a Mathlib `MulAction` of a finite group).
  Part B (T1, T3): averaging over a finite group acting additively on any space of real-space matrices is an idempotent
      projection onto the invariants, its result is invariant under every g, and it commutes with every additive
      involution that commutes with the action — in particular with `X(R) ↦ X(−R)†`, which commutes with
      `X ↦ D · X(σR) · D†` and with its time-reversed form `X ↦ D · conj X(σR) · D†`.
  PARTIAL: that `average_XX_block` / `_rotate_XX_L_backwards` *implement* this averaging (orbital rotation matrices,
      back-rotation, spinor factors, parities) is checked on the real code by the oracle, not proved.
-/
import WB.Lemmas.C20
import WB.Lemmas.C20Avg
import WB.Lemmas.C20Bridge
import Mathlib.Algebra.BigOperators.Group.Finset.Basic
import Mathlib.Algebra.Module.Defs
import Mathlib.Algebra.Group.Action.Defs
import Mathlib.GroupTheory.GroupAction.Defs
import Mathlib.Data.Fintype.BigOperators
import Mathlib.LinearAlgebra.Matrix.ConjTranspose
import Mathlib.Algebra.Module.BigOperators
import Mathlib.Tactic.Ring
import Mathlib.GroupTheory.GroupAction.DomAct.Basic
import Mathlib.GroupTheory.Perm.Basic
import Mathlib.Data.Fintype.Perm
import Mathlib.Data.Rat.Cast.CharZero
import Mathlib.Algebra.Group.Subgroup.Actions
import Mathlib.Tactic.NormNum
import Mathlib.Algebra.Module.Basic

namespace WB.C20

/-! ## Part A — the irreducible (R, a, b) search -/

/-- `y` is the image of `x` under one of the listed operations -/
def Reach (ops : List (Nat → Option Nat)) (x y : Nat) : Prop := ∃ g ∈ ops, g x = some y

/-- T2.  If reachability through the operation list is symmetric and transitive (a group acting on a closed set),
    then after the marking loop a point is still flagged irreducible iff it is the first point, in iteration order,
    of its orbit.  Any number of points, any operation list, any listing order of the operations. -/
theorem irreducible_iff_orbit_min (N : Nat) (ops : List (Nat → Option Nat))
    (hsymm : ∀ x y, x < N → Reach ops x y → Reach ops y x)
    (htrans : ∀ x y z, Reach ops x y → Reach ops y z → Reach ops x z)
    (x : Nat) (hx : x < N) :
    view (findIrreducible N ops) x = true ↔ ∀ y, Reach ops x y → x ≤ y := by
  classical
  -- a minimum of its orbit is never marked
  have keep : ∀ m, m < N → (∀ w, Reach ops m w → m ≤ w) → view (findIrreducible N ops) m = true := by
    intro m hm hmin
    by_contra hne
    have hf : view (findIrreducible N ops) m = false := by
      cases hv : view (findIrreducible N ops) m
      · rfl
      · exact absurd hv hne
    have h0 : view (List.replicate N true) m = true := by rw [view_replicate]; simpa using hm
    obtain ⟨g, hg, w, hw, hgw, hlt⟩ := foldl_markOp_marked N ops _ m h0 hf
    have := hmin w (hsymm w m hw ⟨g, hg, hgw⟩)
    omega
  constructor
  · intro hirr
    by_contra hnot
    have hnot' : ∃ y, Reach ops x y ∧ y < x := by
      by_contra hcon
      apply hnot
      intro y hy
      by_contra hlt
      exact hcon ⟨y, hy, by omega⟩
    obtain ⟨y, hy, hyx⟩ := hnot'
    -- the first point of the orbit of x
    have hex : ∃ z, Reach ops x z := ⟨y, hy⟩
    obtain ⟨m, hm_reach, hm_first⟩ : ∃ m, Reach ops x m ∧ ∀ w, Reach ops x w → m ≤ w :=
      ⟨Nat.find hex, Nat.find_spec hex, fun w hw => Nat.find_min' hex hw⟩
    have hm_le : m ≤ y := hm_first y hy
    have hm_min : ∀ w, Reach ops m w → m ≤ w := fun w hw => hm_first w (htrans _ _ _ hm_reach hw)
    have hmN : m < N := by omega
    obtain ⟨g, hg, hgm⟩ := hsymm x _ hx hm_reach
    obtain ⟨pre, post, hops⟩ := List.append_of_mem hg
    have hkeep := keep _ hmN hm_min
    unfold findIrreducible at hkeep hirr
    rw [hops] at hkeep hirr
    have := marked_after N pre post g m x hmN hgm (by omega) hkeep
    rw [this] at hirr; cases hirr
  · intro hmin
    exact keep x hx hmin

/-- T2'.  Under the same hypotheses (plus: images stay inside the set, and every point reaches itself) each orbit
    keeps exactly one representative. -/
theorem one_representative_per_orbit (N : Nat) (ops : List (Nat → Option Nat))
    (hrefl : ∀ x, x < N → Reach ops x x)
    (hsymm : ∀ x y, x < N → Reach ops x y → Reach ops y x)
    (htrans : ∀ x y z, Reach ops x y → Reach ops y z → Reach ops x z)
    (hrange : ∀ x y, x < N → Reach ops x y → y < N)
    (x : Nat) (hx : x < N) :
    ∃ m, Reach ops x m ∧ view (findIrreducible N ops) m = true ∧
      ∀ m', Reach ops x m' → view (findIrreducible N ops) m' = true → m' = m := by
  classical
  have hex : ∃ z, Reach ops x z := ⟨x, hrefl x hx⟩
  have hm_reach : Reach ops x (Nat.find hex) := Nat.find_spec hex
  have hmN := hrange x _ hx hm_reach
  refine ⟨Nat.find hex, hm_reach, ?_, ?_⟩
  · rw [irreducible_iff_orbit_min N ops hsymm htrans _ hmN]
    exact fun w hw => Nat.find_min' hex (htrans _ _ _ hm_reach hw)
  · intro m' hm' hirr
    have hm'N := hrange x _ hx hm'
    rw [irreducible_iff_orbit_min N ops hsymm htrans _ hm'N] at hirr
    have h1 : Nat.find hex ≤ m' := Nat.find_min' hex hm'
    have h2 : m' ≤ Nat.find hex := hirr _ (htrans _ _ _ (hsymm x m' hx hm') hm_reach)
    omega

/-- T2 instantiated for an ordered pair of blocks.  The operations of `find_irreducible_Rab(block1, block2)` are the maps
    `pairAct np2 nR (map1 g) (map2 g) (rimg g)`: site `a` of block1 is moved by the atom map of block1, site `b` of block2 by
    the atom map of BLOCK2 (off-diagonal pairs of different multi-site blocks use two different permutations), and the
    R-vector by `R ↦ g R + T1(a) − T2(b)`.  If reachability through these maps is symmetric and transitive, the loop keeps
    exactly the first triple `(a, b, iR)` of every orbit.  (The correspondence check builds exactly these tables from the
    real `atommap_list[block1]`, `atommap_list[block2]`, `get_atom_R_map` and `index_R` for every ordered block pair.) -/
theorem irreducible_block_pair (np1 np2 nR : Nat)
    (ops : List ((Nat → Nat) × (Nat → Nat) × (Nat → Nat → Nat → Option Nat)))
    (hsymm : ∀ x y, x < np1 * np2 * nR →
      Reach (ops.map fun g => pairAct np2 nR g.1 g.2.1 g.2.2) x y → Reach (ops.map fun g => pairAct np2 nR g.1 g.2.1 g.2.2) y x)
    (htrans : ∀ x y z, Reach (ops.map fun g => pairAct np2 nR g.1 g.2.1 g.2.2) x y →
      Reach (ops.map fun g => pairAct np2 nR g.1 g.2.1 g.2.2) y z → Reach (ops.map fun g => pairAct np2 nR g.1 g.2.1 g.2.2) x z)
    (x : Nat) (hx : x < np1 * np2 * nR) :
    view (findIrreducible (np1 * np2 * nR) (ops.map fun g => pairAct np2 nR g.1 g.2.1 g.2.2)) x = true ↔
      ∀ y, Reach (ops.map fun g => pairAct np2 nR g.1 g.2.1 g.2.2) x y → x ≤ y :=
  irreducible_iff_orbit_min _ _ hsymm htrans x hx

/-- two different two-site blocks, one R-vector; the operation swaps the sites of block A and fixes those of block B.
    With each block's own map the triple (a₀,b₀) (index 0) is sent to (a₁,b₀) (index 2); with block A's map used for both
    sites it would be sent to (a₁,b₁) (index 3), a triple of a different orbit — the seeded defect V-C20. -/
example :
    let swap : Nat → Nat := fun a => 1 - a
    let fix : Nat → Nat := fun b => b
    let e : Nat → Nat := fun a => a
    findIrreducible 4 [pairAct 2 1 e e (fun _ _ _ => some 0), pairAct 2 1 swap fix (fun _ _ _ => some 0)]
      = [true, true, false, false] ∧
    findIrreducible 4 [pairAct 2 1 e e (fun _ _ _ => some 0), pairAct 2 1 swap swap (fun _ _ _ => some 0)]
      = [true, true, false, false] ∧
    pairAct 2 1 swap fix (fun _ _ _ => some 0) 0 = some 2 ∧ pairAct 2 1 swap swap (fun _ _ _ => some 0) 0 = some 3 := by
  decide +kernel

/-- an operation of a group acting on the `N` points, in the form the model consumes -/
def actOf {G : Type} {N : Nat} [Group G] [MulAction G (Fin N)] (g : G) : Nat → Option Nat :=
  fun x => if h : x < N then some ((g • (⟨x, h⟩ : Fin N)).val) else none

/-- T2 for a group action: if the listed operations are all the elements of a group acting on the set of points,
    the loop keeps exactly the points that are minimal in their orbit. -/
theorem irreducible_group_action {G : Type} {N : Nat} [Group G] [MulAction G (Fin N)]
    (ops : List G) (hall : ∀ g : G, g ∈ ops) (x : Fin N) :
    view (findIrreducible N (ops.map (actOf (N := N)))) x.val = true ↔ ∀ g : G, x ≤ g • x := by
  have reach_iff : ∀ (a b : Nat), Reach (ops.map (actOf (N := N))) a b ↔
      ∃ (ha : a < N) (hb : b < N), ∃ g : G, g • (⟨a, ha⟩ : Fin N) = ⟨b, hb⟩ := by
    intro a b
    constructor
    · rintro ⟨f, hf, hfa⟩
      obtain ⟨g, _, rfl⟩ := List.mem_map.1 hf
      unfold actOf at hfa
      by_cases ha : a < N
      · rw [dif_pos ha] at hfa
        injection hfa with hfa
        exact ⟨ha, hfa ▸ (g • (⟨a, ha⟩ : Fin N)).isLt, g, Fin.ext hfa⟩
      · rw [dif_neg ha] at hfa; cases hfa
    · rintro ⟨ha, hb, g, hg⟩
      refine ⟨actOf g, List.mem_map.2 ⟨g, hall g, rfl⟩, ?_⟩
      unfold actOf
      rw [dif_pos ha, hg]
  have hsymm : ∀ a b, a < N → Reach (ops.map (actOf (N := N))) a b → Reach (ops.map (actOf (N := N))) b a := by
    intro a b _ h
    obtain ⟨ha, hb, g, hg⟩ := (reach_iff a b).1 h
    exact (reach_iff b a).2 ⟨hb, ha, g⁻¹, by rw [← hg, inv_smul_smul]⟩
  have htrans : ∀ a b c, Reach (ops.map (actOf (N := N))) a b → Reach (ops.map (actOf (N := N))) b c → Reach (ops.map (actOf (N := N))) a c := by
    intro a b c h1 h2
    obtain ⟨ha, hb, g, hg⟩ := (reach_iff a b).1 h1
    obtain ⟨_, hc, g', hg'⟩ := (reach_iff b c).1 h2
    exact (reach_iff a c).2 ⟨ha, hc, g' * g, by rw [mul_smul, hg, hg']⟩
  rw [irreducible_iff_orbit_min N _ hsymm htrans x.val x.isLt]
  constructor
  · intro h g
    have := h (g • x).val ((reach_iff _ _).2 ⟨x.isLt, (g • x).isLt, g, rfl⟩)
    exact Fin.le_def.2 this
  · intro h y hy
    obtain ⟨_, hb, g, hg⟩ := (reach_iff _ _).1 hy
    have := h g
    rw [show (⟨x.val, x.isLt⟩ : Fin N) = x from rfl] at hg
    rw [hg] at this
    exact Fin.le_def.1 this

/-- non-vacuity / concrete run: 6 points, the cyclic group generated by (0 1 2)(3 4 5) listed with the identity:
    orbits {0,1,2}, {3,4,5}; the loop keeps 0 and 3. -/
example :
    let r : Nat → Option Nat := fun x => if x < 6 then some ((x / 3) * 3 + (x + 1) % 3) else none
    let r2 : Nat → Option Nat := fun x => if x < 6 then some ((x / 3) * 3 + (x + 2) % 3) else none
    let e : Nat → Option Nat := fun x => if x < 6 then some x else none
    findIrreducible 6 [e, r, r2] = [true, false, false, true, false, false] ∧
    findIrreducible 6 [r2, e, r] = [true, false, false, true, false, false] := by
  decide +kernel

/-- without closure under inverses the conclusion fails (so the hypothesis is needed): with only the rotation
    `x ↦ x+2 mod 3` listed, point 1 is hit from 2 (a larger point) only, and survives although 0 is in its orbit. -/
example :
    let r2 : Nat → Option Nat := fun x => if x < 3 then some ((x + 2) % 3) else none
    findIrreducible 3 [r2] = [true, true, false] := by
  decide +kernel

/-! ## Part B — group averaging -/

section avg
variable {G V K : Type*} [Group G] [Fintype G] [AddCommGroup V] [DistribMulAction G V]
  [DivisionRing K] [Module K V] [SMulCommClass G K V]

variable (G K) in
/-- the symmetrised object: `(1/|G|) Σ_g g • v` (mode "sum" of `average_XX_block` divides by the number of
    operations).  `G` acts additively and commutes with the scalars `K` (for antiunitary operations take `K = ℝ`). -/
noncomputable def avg (v : V) : V := ((Fintype.card G : K)⁻¹) • ∑ g : G, g • v

omit [SMulCommClass G K V] in
theorem sum_smul_reindex (h : G) (v : V) : ∑ g : G, (h * g) • v = ∑ g : G, g • v :=
  Fintype.sum_equiv (Equiv.mulLeft h) _ _ (fun _ => rfl)

/-- T1a.  The average is invariant under every operation of the group. -/
theorem smul_avg (h : G) (v : V) : h • avg G K v = avg G K v := by
  unfold avg
  rw [smul_comm, Finset.smul_sum]
  congr 1
  simp only [← mul_smul]
  exact sum_smul_reindex h v

omit [SMulCommClass G K V] in
/-- T1b.  Invariant objects are left unchanged (the average is a projection *onto* the invariants). -/
theorem avg_of_invariant (hcard : (Fintype.card G : K) ≠ 0) (v : V) (hv : ∀ g : G, g • v = v) :
    avg G K v = v := by
  unfold avg
  simp only [hv, Finset.sum_const, Finset.card_univ]
  rw [← Nat.cast_smul_eq_nsmul K, smul_smul, inv_mul_cancel₀ hcard, one_smul]

/-- T1c.  Symmetrising twice changes nothing. -/
theorem avg_idem (hcard : (Fintype.card G : K) ≠ 0) (v : V) : avg G K (avg G K v) = avg G K v :=
  avg_of_invariant hcard _ (fun g => smul_avg g v)

omit [SMulCommClass G K V] in
/-- T3.  The average commutes with every additive map `J` that commutes with the scalars and with every operation —
    e.g. `J X (R) = X(−R)†`. -/
theorem avg_comm (J : V →+ V) (hJK : ∀ (c : K) v, J (c • v) = c • J v) (hJg : ∀ (g : G) v, J (g • v) = g • J v)
    (v : V) : J (avg G K v) = avg G K (J v) := by
  unfold avg
  rw [hJK, map_sum]
  simp only [hJg]

omit [SMulCommClass G K V] in
/-- T3'.  Hence a Hermitian input (`J v = v`) gives a Hermitian symmetrised output. -/
theorem avg_hermitian (J : V →+ V) (hJK : ∀ (c : K) v, J (c • v) = c • J v)
    (hJg : ∀ (g : G) v, J (g • v) = g • J v) (v : V) (hv : J v = v) : J (avg G K v) = avg G K v := by
  rw [avg_comm J hJK hJg, hv]

/-! ### the normalisation is part of the statement -/

variable (G) in
/-- the sum over the operations actually used (`G` = the group selected with `use_symmetries_index`), divided by an
    arbitrary count `n` -/
noncomputable def avgN (n : K) (v : V) : V := n⁻¹ • ∑ g : G, g • v

omit [SMulCommClass G K V] in
/-- dividing by the number of operations summed over is the average of T1 -/
theorem avgN_card (v : V) : avgN G (Fintype.card G : K) v = avg G K v := rfl

/-- whatever the count, the result is invariant under the operations used … -/
theorem smul_avgN (n : K) (h : G) (v : V) : h • avgN G n v = avgN G n v := by
  unfold avgN
  rw [smul_comm, Finset.smul_sum]
  congr 1
  simp only [← mul_smul]
  exact sum_smul_reindex h v

/-- … but every further pass multiplies it by `|G| / n` -/
theorem avgN_avgN (n : K) (v : V) :
    avgN G n (avgN G n v) = (n⁻¹ * (Fintype.card G : K)) • avgN G n v := by
  have hinv : ∀ g : G, g • avgN G n v = avgN G n v := fun g => smul_avgN n g v
  show n⁻¹ • ∑ g : G, g • avgN G n v = _
  simp only [hinv, Finset.sum_const, Finset.card_univ]
  rw [← Nat.cast_smul_eq_nsmul K, smul_smul]

/-- T1d.  Dividing the sum over the selected operations by any count `n` is idempotent (on an input whose
    symmetrised value is not zero) **only if** `n` is the number of operations summed over.  In particular, the
    average over a subgroup `H` normalised by the order of the full group is not a projection unless `|H| = |G|`. -/
theorem avgN_idem_iff (n : K) (hn : n ≠ 0) (v : V) (hw : avgN G n v ≠ 0) :
    avgN G n (avgN G n v) = avgN G n v ↔ n = (Fintype.card G : K) := by
  rw [avgN_avgN]
  constructor
  · intro h
    have h1 : (n⁻¹ * (Fintype.card G : K) - 1) • avgN G n v = 0 := by
      rw [sub_smul, one_smul, h, sub_self]
    rcases smul_eq_zero.1 h1 with h2 | h2
    · have h3 : n⁻¹ * (Fintype.card G : K) = 1 := sub_eq_zero.1 h2
      have := congrArg (fun x => n * x) h3
      simp only [← mul_assoc, mul_inv_cancel₀ hn, one_mul, mul_one] at this
      exact this.symm
    · exact absurd h2 hw
  · intro h
    rw [← h, inv_mul_cancel₀ hn, one_smul]

/-- T1 for a selected subgroup: the theorems above apply verbatim to `H ≤ G` acting by restriction, with the
    count `|H|` -/
theorem avg_subgroup_idem {G₀ : Type*} [Group G₀] [DistribMulAction G₀ V] [SMulCommClass G₀ K V]
    (H : Subgroup G₀) [Fintype H] (hcard : (Fintype.card H : K) ≠ 0) (v : V) :
    avg H K (avg H K v) = avg H K v :=
  avg_idem hcard v

/-- and with the count of the full group instead of `|H|` the subgroup "average" is idempotent only when the two
    counts agree in `K` -/
theorem subgroup_wrong_count {G₀ : Type*} [Group G₀] [Fintype G₀] [DistribMulAction G₀ V] [SMulCommClass G₀ K V]
    (H : Subgroup G₀) [Fintype H] (hG : (Fintype.card G₀ : K) ≠ 0) (v : V)
    (hw : avgN H (Fintype.card G₀ : K) v ≠ 0) :
    avgN H (Fintype.card G₀ : K) (avgN H (Fintype.card G₀ : K) v) = avgN H (Fintype.card G₀ : K) v
      ↔ (Fintype.card G₀ : K) = (Fintype.card H : K) :=
  avgN_idem_iff _ hG v hw

end avg

section nonvacuous
/-- non-vacuity of Part B: the six permutations of three sites acting on `Fin 3 → ℚ` by relabelling satisfy every
    instance hypothesis (`DistribMulAction`, `SMulCommClass`, `|G| ≠ 0`), so T1c applies to them -/
noncomputable local instance : Fintype (Equiv.Perm (Fin 3))ᵈᵐᵃ := Fintype.ofEquiv _ DomMulAct.mk

example (v : Fin 3 → ℚ) :
    avg (Equiv.Perm (Fin 3))ᵈᵐᵃ ℚ (avg (Equiv.Perm (Fin 3))ᵈᵐᵃ ℚ v) = avg (Equiv.Perm (Fin 3))ᵈᵐᵃ ℚ v :=
  avg_idem (by
    have : 0 < Fintype.card (Equiv.Perm (Fin 3))ᵈᵐᵃ := Fintype.card_pos
    exact_mod_cast this.ne') v

/-- counterexample documenting T1d: summing over the 6 relabellings but dividing by 12 (the order of a group twice as
    large) halves the constant vector at every pass — the result is invariant but the map is not idempotent -/
theorem wrong_count_not_idempotent :
    avgN (Equiv.Perm (Fin 3))ᵈᵐᵃ (12 : ℚ) (avgN (Equiv.Perm (Fin 3))ᵈᵐᵃ (12 : ℚ) (fun _ : Fin 3 => (1 : ℚ)))
      ≠ avgN (Equiv.Perm (Fin 3))ᵈᵐᵃ (12 : ℚ) (fun _ : Fin 3 => (1 : ℚ)) := by
  have hcard : Fintype.card (Equiv.Perm (Fin 3))ᵈᵐᵃ = 6 := by
    rw [← Fintype.card_congr (DomMulAct.mk (M := Equiv.Perm (Fin 3))), Fintype.card_perm]; rfl
  have hinv : ∀ g : (Equiv.Perm (Fin 3))ᵈᵐᵃ, g • (fun _ : Fin 3 => (1 : ℚ)) = fun _ => 1 := by
    intro g; funext i; rfl
  have hval : avgN (Equiv.Perm (Fin 3))ᵈᵐᵃ (12 : ℚ) (fun _ : Fin 3 => (1 : ℚ)) = fun _ => (1 / 2 : ℚ) := by
    unfold avgN
    simp only [hinv, Finset.sum_const, Finset.card_univ, hcard]
    funext i
    simp only [Pi.smul_apply, smul_eq_mul, nsmul_eq_mul]
    norm_num
  intro h
  have hne : avgN (Equiv.Perm (Fin 3))ᵈᵐᵃ (12 : ℚ) (fun _ : Fin 3 => (1 : ℚ)) ≠ 0 := by
    rw [hval]; intro h0
    have := congrFun h0 0
    norm_num at this
  have := (avgN_idem_iff (12 : ℚ) (by norm_num) _ hne).1 h
  rw [hcard] at this
  norm_num at this
end nonvacuous

/-! ## Part C — `average_XX_block` IS that group average

  `BlockRep` (in `Lemmas/C20Avg.lean`) lists what the code's ingredients must satisfy: the atom maps are group actions, the
  home-cell translations satisfy the cocycle `T(gh,a) − T(gh,b) = g·(T(h,a) − T(h,b)) + T(g,ha) − T(g,hb)`, the orbital
  matrices the (co)representation rule `D(gh,a) = ω(g,h) · D(g,ha) · conj^{tr g} D(h,a)` with a unimodular phase common
  to both blocks, `D(1,a)` a common unimodular scalar, `tr` and the Cartesian matrices `Rc` (rotation × parity signs,
  real) are homomorphisms.  Under exactly these hypotheses `pull` is contravariant, `g • X := pull g⁻¹ X` is an additive
  group action commuting with rational scalars, and the sum the code forms is its average. -/

section block
variable {G ι A₁ A₂ n₁ n₂ c K : Type*} [Group G] [Fintype G] [AddCommGroup ι] [DistribMulAction G ι]
    [MulAction G A₁] [MulAction G A₂] [Fintype n₁] [Fintype n₂] [DecidableEq n₁] [DecidableEq n₂]
    [Fintype c] [DecidableEq c] [Field K] [StarRing K] [CharZero K]
variable (S : BlockRep G ι A₁ A₂ n₁ n₂ c K)

/-- mode "sum" of `average_XX_block`: every listed operation `g` adds its back-rotated contribution `pull g X` to the
    entry `(R, a, b)`, and the total is divided by the number of operations -/
noncomputable def blockAverage (X : BlockFn S) : BlockFn S := ((Fintype.card G : ℚ)⁻¹) • ∑ g : G, pull S g X

/-- T4.  `average_block_is_group_average`: the block formula the code evaluates is the group average `avg` of the action
    `g • X = pull g⁻¹ X` (the code sums the pull-backs by `g`, the average sums the images under `g`; the two sums are
    reindexed by `g ↦ g⁻¹`, which is why the operation list must be closed under inverses). -/
theorem average_block_is_group_average (X : BlockFn S) : blockAverage S X = avg G ℚ X := by
  unfold blockAverage avg
  congr 1
  exact Fintype.sum_equiv (Equiv.inv G) _ _ (fun g => by rw [smul_def]; simp)

/-- hence the result of the code's formula is invariant under every operation … -/
theorem blockAverage_invariant (g : G) (X : BlockFn S) : g • blockAverage S X = blockAverage S X := by
  rw [average_block_is_group_average]; exact smul_avg g X

/-- … is unchanged if it is symmetric already … -/
theorem blockAverage_of_invariant (X : BlockFn S) (hX : ∀ g : G, g • X = X) : blockAverage S X = X := by
  rw [average_block_is_group_average]
  exact avg_of_invariant (by exact_mod_cast (Fintype.card_pos (α := G)).ne') X hX

/-- … and symmetrising twice changes nothing. -/
theorem blockAverage_idem (X : BlockFn S) : blockAverage S (blockAverage S X) = blockAverage S X := by
  simp only [average_block_is_group_average]
  exact avg_idem (by exact_mod_cast (Fintype.card_pos (α := G)).ne') X

end block

section blockherm
open Matrix
variable {G ι A n c K : Type*} [Group G] [Fintype G] [AddCommGroup ι] [DistribMulAction G ι]
    [MulAction G A] [Fintype n] [DecidableEq n] [Fintype c] [DecidableEq c] [Field K] [StarRing K] [CharZero K]
variable (S : BlockRep G ι A A n n c K)

/-- `X(R)_{ab} ↦ (X(−R)_{ba})†` on a diagonal block pair -/
def blockDagger (X : BlockFn S) : BlockFn S := fun R a b i => (X (-R) b a i)ᴴ

omit [Fintype G] [CharZero K] in
/-- on a diagonal block pair (left and right data equal) the Hermitian-conjugate reflection commutes with the
    contribution of every operation -/
theorem blockDagger_pull (hT : S.T₁ = S.T₂) (hD : S.D₁ = S.D₂) (h : G) (X : BlockFn S) :
    blockDagger S (pull S h X) = pull S h (blockDagger S X) := by
  funext R a b i
  have hpos : h • (-R) + S.T₁ h b - S.T₂ h a = -(h • R + S.T₁ h a - S.T₂ h b) := by
    rw [hT, smul_neg]; abel
  show (pull S h X (-R) b a i)ᴴ = pull S h (blockDagger S X) R a b i
  unfold pull blockDagger
  rw [← cj_conjTranspose, conjTranspose_sum, hpos, hD]
  congr 1
  apply Finset.sum_congr rfl
  intro j _
  rw [conjTranspose_smul, S.Rc_real, conjTranspose_mul, conjTranspose_mul, conjTranspose_conjTranspose,
    Matrix.mul_assoc]

/-- T4'.  The code's block average of a Hermitian model is Hermitian. -/
theorem blockAverage_hermitian (hT : S.T₁ = S.T₂) (hD : S.D₁ = S.D₂) (X : BlockFn S)
    (hX : blockDagger S X = X) : blockDagger S (blockAverage S X) = blockAverage S X := by
  have hadd : ∀ X Y : BlockFn S, blockDagger S (X + Y) = blockDagger S X + blockDagger S Y := by
    intro X Y; funext R a b i
    show ((X + Y) (-R) b a i)ᴴ = (X (-R) b a i)ᴴ + (Y (-R) b a i)ᴴ
    rw [← conjTranspose_add]; rfl
  have hzero : blockDagger S (0 : BlockFn S) = 0 := by
    funext R a b i
    show ((0 : BlockFn S) (-R) b a i)ᴴ = 0
    exact conjTranspose_zero
  let J : BlockFn S →+ BlockFn S := { toFun := blockDagger S, map_zero' := hzero, map_add' := hadd }
  have hJK : ∀ (q : ℚ) (v : BlockFn S), J (q • v) = q • J v := by
    intro q v; funext R a b i
    show ((q • v) (-R) b a i)ᴴ = q • (v (-R) b a i)ᴴ
    have e : (q • v) (-R) b a i = q • v (-R) b a i := rfl
    rw [e]
    ext x y
    simp only [conjTranspose_apply, Matrix.smul_apply, Rat.smul_def, star_mul', star_ratCast]
  have hJg : ∀ (g : G) (v : BlockFn S), J (g • v) = g • J v := by
    intro g v
    show blockDagger S (pull S g⁻¹ v) = pull S g⁻¹ (blockDagger S v)
    exact blockDagger_pull S hT hD g⁻¹ v
  rw [average_block_is_group_average]
  exact avg_hermitian J hJK hJg X hX

end blockherm

section bridge
variable {K : Type} [Field K] [StarRing K]
variable {G ι A₁ A₂ : Type} {N1 N2 NC : Nat} [Group G] [AddCommGroup ι] [DistribMulAction G ι]
    [MulAction G A₁] [MulAction G A₂]

/-- T4''.  The executable entry formula of the model (`WB.C20.pullEntry`, compared number by number with the real
    `average_XX_block` / `_rotate_XX_L_backwards` by the correspondence check) is the `(p, q)` entry of `pull` — the
    object of T4.  So "model = code" on the tested inputs plus T4 gives "code = group average" there. -/
theorem model_entry_is_pull (S : BlockRep G ι A₁ A₂ (Fin N1) (Fin N2) (Fin NC) K) (h : G) (X : BlockFn S)
    (R : ι) (a : A₁) (b : A₂) (i : Fin NC) (p : Fin N1) (q : Fin N2) :
    pull S h X R a b i p q =
      pullEntry star (S.tr h) N1 N2 NC (ext2 (S.Rc h)) (ext2 (S.D₁ h a)) (ext2 (S.D₂ h b))
        (fun j r s => if hj : j < NC then
            ext2 (X (h • R + S.T₁ h a - S.T₂ h b) (h • a) (h • b) ⟨j, hj⟩) r s else 0)
        i.val p.val q.val :=
  pull_entry S h X R a b i p q

end bridge

/-! ### the concrete shape of the operations: `J` commutes with them -/

section dagger
open Matrix
variable {ι n K : Type*} [Neg ι] [Fintype n] [CommRing K] [StarRing K]

/-- `X(R) ↦ X(−R)†` -/
def dagger (X : ι → Matrix n n K) : ι → Matrix n n K := fun r => (X (-r))ᴴ

/-- a unitary-type operation: `X(R) ↦ D · X(σR) · D†` -/
def opU (D : Matrix n n K) (σ : ι → ι) (X : ι → Matrix n n K) : ι → Matrix n n K := fun r => D * X (σ r) * Dᴴ

/-- an antiunitary-type operation (time reversal): `X(R) ↦ D · conj X(σR) · D†` -/
def opA (D : Matrix n n K) (σ : ι → ι) (X : ι → Matrix n n K) : ι → Matrix n n K :=
  fun r => D * (X (σ r)).map star * Dᴴ

/-- the Hermitian-conjugate reflection commutes with every unitary-type operation whose R-map is odd (`σ(−R) = −σR`:
    rotations of lattice vectors are linear) -/
theorem dagger_opU (D : Matrix n n K) (σ : ι → ι) (hσ : ∀ r, σ (-r) = -σ r) (X : ι → Matrix n n K) :
    dagger (opU D σ X) = opU D σ (dagger X) := by
  funext r
  simp only [dagger, opU, conjTranspose_mul, conjTranspose_conjTranspose, hσ, Matrix.mul_assoc]

/-- … and with every antiunitary-type operation -/
theorem dagger_opA (D : Matrix n n K) (σ : ι → ι) (hσ : ∀ r, σ (-r) = -σ r) (X : ι → Matrix n n K) :
    dagger (opA D σ X) = opA D σ (dagger X) := by
  have hmap : ∀ M : Matrix n n K, (M.map star)ᴴ = Mᴴ.map star := by
    intro M; ext i j; simp [conjTranspose_apply]
  funext r
  simp only [dagger, opA, conjTranspose_mul, conjTranspose_conjTranspose, hσ, Matrix.mul_assoc, hmap]

end dagger

end WB.C20
