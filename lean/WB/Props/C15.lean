/-
  C15 — property theorems (statements are the deliverable; helper lemmas live in WB/Lemmas).
-/
import WB.Lemmas.Pairs
import WB.Lemmas.Window

namespace WB.C15

/-! ## band blocks (`get_borders`, `find_degen`) -/

/-- membership in the border list -/
theorem mem_borders (E : Nat → Rat) (th : Rat) (n : Nat) (kr : Bool) (i : Nat) :
    i ∈ borders E th n kr ↔
      i ≤ n ∧ (i = 0 ∨ i = n ∨ isCut E th n i = true) ∧ (kr = true → i % 2 = 0) := by
  unfold borders
  simp only [List.mem_filter, List.mem_range, Bool.and_eq_true, Bool.or_eq_true, beq_iff_eq,
    Bool.not_eq_true', Nat.lt_succ_iff]
  rw [or_assoc]
  constructor
  · rintro ⟨h1, h2, h3⟩
    refine ⟨h1, h2, ?_⟩
    intro hk
    rcases h3 with h3 | h3
    · simp [hk] at h3
    · exact h3
  · rintro ⟨h1, h2, h3⟩
    refine ⟨h1, h2, ?_⟩
    cases kr
    · left; rfl
    · right; exact h3 rfl

theorem borders_sorted (E : Nat → Rat) (th : Rat) (n : Nat) (kr : Bool) :
    (borders E th n kr).Pairwise (· < ·) :=
  List.Pairwise.filter _ List.pairwise_lt_range

/-- T1/T2 (partition).  For `n ≥ 1` bands (and an even number of bands when Kramers pairs are requested)
    every band index lies in exactly one block. -/
theorem blocks_partition (E : Nat → Rat) (th : Rat) (n : Nat) (kr : Bool)
    (hn : 0 < n) (hk : kr = true → n % 2 = 0) (j : Nat) (hj : j < n) :
    ∃ ab ∈ blocks E th n kr, (ab.1 ≤ j ∧ j < ab.2) ∧
      ∀ cd ∈ blocks E th n kr, cd.1 ≤ j → j < cd.2 → cd = ab := by
  have hs := borders_sorted E th n kr
  have h0 : 0 ∈ borders E th n kr := (mem_borders ..).2 ⟨by omega, Or.inl rfl, fun _ => rfl⟩
  have hN : n ∈ borders E th n kr := (mem_borders ..).2 ⟨le_refl _, Or.inr (Or.inl rfl), hk⟩
  -- the list starts with 0 and ends with n
  obtain ⟨l, hl⟩ : ∃ l, borders E th n kr = 0 :: l := by
    cases hb : borders E th n kr with
    | nil => rw [hb] at h0; simp at h0
    | cons x l =>
      rw [hb] at h0 hs
      rcases List.mem_cons.mp h0 with h | h
      · exact ⟨l, by rw [← h]⟩
      · have := (List.pairwise_cons.mp hs).1 0 h; omega
  have hlast : (0 :: l).getLast (by simp) = n := by
    have hmem : n ∈ (0 :: l) := hl ▸ hN
    have hle : ∀ c ∈ (0 :: l), c ≤ n := by
      intro c hc; rw [← hl] at hc; exact ((mem_borders ..).1 hc).1
    have hs' : (0 :: l).Pairwise (· < ·) := hl ▸ hs
    -- the last element of a strictly increasing list is its maximum
    have hge : ∀ c ∈ (0 :: l), c ≤ (0 :: l).getLast (by simp) := by
      intro c hc
      rcases List.mem_iff_append.mp hc with ⟨s, t, hst⟩
      cases t with
      | nil => simp [hst]
      | cons y t =>
        have : (0 :: l).getLast (by simp) ∈ (y :: t) := by
          simp only [hst]
          rw [List.getLast_append_of_ne_nil _ (by simp), List.getLast_cons (by simp)]
          exact List.getLast_mem _
        have hp : (s ++ c :: y :: t).Pairwise (· < ·) := hst ▸ hs'
        have := (List.pairwise_cons.mp (List.pairwise_append.mp hp).2.1).1 _ this
        omega
    have h1 := hge n hmem
    have h2 := hle _ (List.getLast_mem (l := 0 :: l) (by simp))
    omega
  have hs' : (0 :: l).Pairwise (· < ·) := hl ▸ hs
  obtain ⟨ab, hab, h3⟩ := pairs_cover l 0 hs' j (Nat.zero_le _) (by rw [hlast]; exact hj)
  refine ⟨ab, by unfold blocks; rw [hl]; exact hab, h3, ?_⟩
  intro cd hcd h4 h5
  unfold blocks at hcd; rw [hl] at hcd
  exact pairs_disjoint _ hs' cd hcd ab hab j h4 h5 h3.1 h3.2

/-- T1 (internal gaps).  Without Kramers grouping, inside a block all gaps are at most the threshold. -/
theorem blocks_internal_gap (E : Nat → Rat) (th : Rat) (n : Nat) (a b i : Nat)
    (hab : (a, b) ∈ blocks E th n false) (h1 : a < i) (h2 : i < b) :
    E i - E (i - 1) ≤ th := by
  obtain ⟨_, hb, _, hno⟩ := pairs_mem_consecutive _ (borders_sorted E th n false) a b hab
  have hbn : b ≤ n := ((mem_borders ..).1 hb).1
  by_contra hgt
  apply hno i _ ⟨h1, h2⟩
  refine (mem_borders ..).2 ⟨by omega, Or.inr (Or.inr ?_), by simp⟩
  unfold isCut
  simp only [Bool.and_eq_true, decide_eq_true_eq]
  exact ⟨⟨by omega, by omega⟩, lt_of_not_ge hgt⟩

/-- T1/T2 (boundaries).  Every block boundary other than 0 and n has a gap larger than the threshold,
    and is an even index when Kramers grouping is requested. -/
theorem blocks_boundary_gap (E : Nat → Rat) (th : Rat) (n : Nat) (kr : Bool) (a b : Nat)
    (hab : (a, b) ∈ blocks E th n kr) :
    (0 < a → E a - E (a - 1) > th) ∧ (b < n → E b - E (b - 1) > th) ∧
      (kr = true → a % 2 = 0 ∧ b % 2 = 0) := by
  obtain ⟨ha, hb, hlt, _⟩ := pairs_mem_consecutive _ (borders_sorted E th n kr) a b hab
  obtain ⟨ha1, ha2, ha3⟩ := (mem_borders ..).1 ha
  obtain ⟨hb1, hb2, hb3⟩ := (mem_borders ..).1 hb
  have cut : ∀ i, isCut E th n i = true → E i - E (i - 1) > th := by
    intro i h; unfold isCut at h
    simp only [Bool.and_eq_true, decide_eq_true_eq] at h; exact h.2
  refine ⟨?_, ?_, fun hk => ⟨ha3 hk, hb3 hk⟩⟩
  · intro h0
    rcases ha2 with h | h | h
    · omega
    · omega
    · exact cut a h
  · intro hbn
    rcases hb2 with h | h | h
    · omega
    · omega
    · exact cut b h

/-- T2 (completeness of the boundaries): every (even, if Kramers) index with a gap above the threshold
    is a block boundary. -/
theorem cut_is_boundary (E : Nat → Rat) (th : Rat) (n : Nat) (kr : Bool) (i : Nat)
    (h0 : 0 < i) (hi : i < n) (hgap : E i - E (i - 1) > th) (heven : kr = true → i % 2 = 0) :
    i ∈ borders E th n kr := by
  refine (mem_borders ..).2 ⟨by omega, Or.inr (Or.inr ?_), heven⟩
  unfold isCut
  simp only [Bool.and_eq_true, decide_eq_true_eq]
  exact ⟨⟨h0, hi⟩, hgap⟩

/-- T2' — the hypothesis "even number of bands" in `blocks_partition` is needed: with Kramers grouping and
    five bands the last band belongs to no block (finding F11; input outside physical use). -/
theorem kramers_odd_drops_last_band :
    ∃ (E : Nat → Rat), ∀ ab ∈ blocks E 0 5 true, ¬ (ab.1 ≤ 4 ∧ 4 < ab.2) := by
  refine ⟨fun i => (i : Rat), ?_⟩
  decide +kernel

/-- non-vacuity: a concrete 6-band spectrum with a doublet and a triplet meets the hypotheses -/
example : blocks (ofList [0, 1, 1, 2, 2, 2]) (1/10) 6 false = [(0, 1), (1, 3), (3, 6)] := by decide +kernel
example : blocks (ofList [0, 0, 1, 1, 2, 2]) (1/10) 6 true = [(0, 2), (2, 4), (4, 6)] := by decide +kernel

/-! ## energy-window selection (`select_window_degen`) -/

/-- T4/T5 (no split).  For energies sorted ascending, bands closer than the threshold are either both
    selected or both left out — for `include_degen = True` and `False` alike. -/
theorem selectWindow_no_split (E : Nat → Rat) (th wmin wmax : Rat) (n : Nat) (incl : Bool)
    (hsorted : ∀ i j, i ≤ j → j < n → E i ≤ E j)
    (i : Nat) (hi : i + 1 < n) (hclose : E (i + 1) - E i < th) :
    selectWindow E th wmin wmax n incl i = selectWindow E th wmin wmax n incl (i + 1) :=
  selectWindow_no_split_aux E th wmin wmax n incl hsorted i hi hclose

/-- T4 (include adds, never removes): with `include_degen = True` every band inside the window is selected. -/
theorem selectWindow_include_superset (E : Nat → Rat) (th wmin wmax : Rat) (n : Nat) (j : Nat) (hj : j < n)
    (hin : inWindow E wmin wmax j = true) :
    selectWindow E th wmin wmax n true j = true :=
  selectWindow_include_superset_aux E th wmin wmax n j hj hin

/-- T5 (exclude removes, never adds): with `include_degen = False` every selected band is inside the window. -/
theorem selectWindow_exclude_subset (E : Nat → Rat) (th wmin wmax : Rat) (n : Nat) (j : Nat)
    (hsel : selectWindow E th wmin wmax n false j = true) :
    inWindow E wmin wmax j = true := by
  unfold selectWindow at hsel
  split at hsel
  · simp only [Bool.false_eq_true, ↓reduceIte, Bool.and_eq_true] at hsel
    exact hsel.1.1
  · simp at hsel

/-- the defect that was repaired (F9): the original rule drops only the band next to the edge and splits a
    triplet `[1, 1.001, 1.002]` cut by `win_max = 1.0015` -/
theorem old_exclude_splits_triplet :
    let E := ofList [0, 1, 1001/1000, 1002/1000, 2]
    selectWindowOld E (1/100) (-1) (2003/2000) 5 1 = true ∧
    selectWindowOld E (1/100) (-1) (2003/2000) 5 2 = false ∧
    E 2 - E 1 < 1/100 := by
  decide +kernel

/-- and the repaired rule does not -/
example :
    (List.range 5).map (selectWindow (ofList [0, 1, 1001/1000, 1002/1000, 2]) (1/100) (-1) (2003/2000) 5 false)
      = [true, false, false, false, false] := by decide +kernel

/-! ## the threshold the user gives is the threshold of the blocks (boundary value 0) -/

/-- T1'' (threshold 0).  With `degen_thresh = 0` — the boundary value of "gap at most the threshold" — exactly
    degenerate bands are never separated: a block boundary inside the band range sits between two DIFFERENT
    energies; for sorted bands: strictly increasing across every boundary. -/
theorem zero_threshold_keeps_exact_ties (E : Nat → Rat) (n : Nat) (kr : Bool) (a b : Nat)
    (hab : (a, b) ∈ blocks E 0 n kr) :
    (0 < a → E (a - 1) < E a) ∧ (b < n → E (b - 1) < E b) := by
  obtain ⟨h1, h2, _⟩ := blocks_boundary_gap E 0 n kr a b hab
  exact ⟨fun h => by have := h1 h; linarith, fun h => by have := h2 h; linarith⟩

/-- the hand-over of the user's threshold to the grouping: the code passes it on unchanged; the seeded rule
    W-C15 ("a non-positive threshold switches grouping off": 0 ↦ −1) is the alternative -/
def handOver (seeded : Bool) (user : Rat) : Rat := if seeded && decide (user ≤ 0) then -1 else user

/-- for every threshold the blocks used with the code's hand-over are the blocks of the user's threshold;
    the seeded hand-over agrees with it for every POSITIVE threshold (that is why it hid) -/
theorem handOver_faithful (E : Nat → Rat) (n : Nat) (kr : Bool) (user : Rat) :
    blocks E (handOver false user) n kr = blocks E user n kr ∧
      (0 < user → blocks E (handOver true user) n kr = blocks E user n kr) := by
  refine ⟨by simp [handOver], fun h => ?_⟩
  have : ¬ user ≤ 0 := not_le.mpr h
  simp [handOver, this]

/-- … and at threshold 0 it splits an exactly degenerate pair: bands `[0, 0, 3]` -/
theorem seeded_handOver_splits_exact_pair :
    blocks (ofList [0, 0, 3]) (handOver false 0) 3 false = [(0, 2), (2, 3)] ∧
    blocks (ofList [0, 0, 3]) (handOver true 0) 3 false = [(0, 1), (1, 2), (2, 3)] := by
  decide +kernel

example : (0, 2) ∈ blocks (ofList [0, 0, 3]) 0 3 false := by decide +kernel

end WB.C15
