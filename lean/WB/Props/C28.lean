/-
  C28 — property theorems.

  T1 (`pair_table_snapshot_ok`, and `pair_table_ok` in the file regenerated from the live calculator classes on every
      run): every documented Fermi-sea entry is the integration-by-parts image of its Fermi-surface partner — same
      formula content, derivative index appended last, same output-axis order (including the `swapaxes(1,2)` of the
      sea calculators), same sign of `constant_factor`, same `- 2 E_F ·` sub-calculator coefficient.
  T2 (`ibp` and its five named corollaries): the continuum identity behind the image rule, for any periodic
      differentiable integrand, in the code's weight convention w_n = (-1)^n f^{(n)}.
  `_partial`: agreement of the DISCRETISED integrals (finite grid, finite-difference in E_F, Fermi-Dirac smoothing) is
      convergence, not algebra: it is checked by the oracle on the real code only.
-/
import WB.Model.C28
import WB.Lemmas.C28Snapshot
import Mathlib.Algebra.Ring.Basic
import Mathlib.Algebra.Group.Hom.Defs
import Mathlib.Algebra.Polynomial.Derivative
import Mathlib.Tactic.Ring
import Mathlib.Tactic.Abel
import Mathlib.Tactic.Linarith
import Mathlib.Tactic.LinearCombination

namespace WB.C28

/-! ## T2  integration by parts on the periodic Brillouin zone -/

section IBP
variable {R : Type} [CommRing R] {S : Type} [AddCommGroup S]
  (integ : R →+ S)                       -- ∫_BZ Σ_n
  (D : Fin 3 → R →+ R)                   -- ∂_d
  (hLeib : ∀ d x y, D d (x * y) = D d x * y + x * D d y)
  (hPer : ∀ d x, integ (D d x) = 0)      -- the integral of a derivative of a periodic function vanishes
  (v : Fin 3 → R)                        -- band velocity v_d = ∂_d E
  (w : Nat → R)                          -- w_n = (-1)^n f^{(n)}(E): what `fder = n` integrates against
  (hw : ∀ d n, D d (w n) = -(v d * w (n + 1)))   -- chain rule: ∂_d g(E) = g'(E) v_d
include hLeib hPer hw

/-- T2.  ∫ (∂_d Y) w_n = ∫ Y v_d w_{n+1}: a Fermi-sea entry with the derivative index d equals the Fermi-surface
    entry with an extra velocity v_d and `fder + 1`, with the SAME sign (the minus sign of the partial integration
    cancels against ∂_d w_n = -v_d w_{n+1}; with the textbook weight f' instead of -f' it is the familiar minus sign). -/
theorem ibp (Y : R) (d : Fin 3) (n : Nat) : integ (D d Y * w n) = integ (Y * v d * w (n + 1)) := by
  have h := hPer d (Y * w n)
  rw [hLeib, hw, map_add] at h
  have h2 : Y * -(v d * w (n + 1)) = -(Y * v d * w (n + 1)) := by ring
  rw [h2, map_neg] at h
  exact eq_of_sub_eq_zero (by rw [sub_eq_add_neg]; exact h)

/-- Ohmic conductivity: `Ohmic_FermiSea` (InvMass[a,b] = ∂_b v_a, fder 0) = `Ohmic_FermiSurf` (VelVel[a,b], fder 1) -/
theorem ohmic_pair (a b : Fin 3) : integ (D b (v a) * w 0) = integ (v a * v b * w 1) :=
  ibp integ D hLeib hPer v w hw (v a) b 0

/-- Berry curvature dipole / NLAHC: sea = DerOmega[δ,β].swapaxes → D_{βδ} = ∫ ∂_β Ω_δ f ;
    surface = VelOmega[β,δ] = ∫ v_β Ω_δ (-f') -/
theorem berry_dipole_pair (Om : Fin 3 → R) (β δ : Fin 3) :
    integ (D β (Om δ) * w 0) = integ (v β * Om δ * w 1) := by
  rw [ibp integ D hLeib hPer v w hw (Om δ) β 0]; congr 1; ring

/-- spin gyrotropic tensor: K_{αμ}: sea = DerSpin[μ,α].swapaxes, surface = VelSpin[α,μ] -/
theorem gme_spin_pair (s : Fin 3 → R) (α μ : Fin 3) :
    integ (D α (s μ) * w 0) = integ (v α * s μ * w 1) := by
  rw [ibp integ D hLeib hPer v w hw (s μ) α 0]; congr 1; ring

/-- orbital gyrotropic tensor, including the `- 2 E_F ·` Berry-dipole term that both calculators subtract:
    m_μ = H_μ - 2 E_F Ω_μ with E_F a constant -/
theorem gme_orb_pair (H Om : Fin 3 → R) (EF2 : S →+ S) (α μ : Fin 3) :
    integ (D α (H μ) * w 0) - EF2 (integ (D α (Om μ) * w 0))
      = integ (v α * H μ * w 1) - EF2 (integ (v α * Om μ * w 1)) := by
  rw [ibp integ D hLeib hPer v w hw (H μ) α 0, ibp integ D hLeib hPer v w hw (Om μ) α 0]
  have e1 : H μ * v α * w (0 + 1) = v α * H μ * w 1 := by ring
  have e2 : Om μ * v α * w (0 + 1) = v α * Om μ * w 1 := by ring
  rw [e1, e2]

/-- nonlinear Drude: sea = Der3E[a,b,c] = ∂_c ∂_b v_a (fder 0), surface = MassVel[a,b,c] = (∂_b v_a) v_c (fder 1) -/
theorem nldrude_pair (a b c : Fin 3) :
    integ (D c (D b (v a)) * w 0) = integ (D b (v a) * v c * w 1) :=
  ibp integ D hLeib hPer v w hw (D b (v a)) c 0

/-- the `fder = 2` form `NLDrude_Fermider2` (VelVelVel, constant_factor/2):
    ∫ v_a v_b v_c w_2 = T_abc + T_cba with T_abc = ∫ (∂_b v_a) v_c w_1, i.e. twice the (fully symmetric) surface form -/
theorem nldrude_fermider2 (a b c : Fin 3) :
    integ (v a * v b * v c * w 2) = integ (D b (v a) * v c * w 1) + integ (D b (v c) * v a * w 1) := by
  have hw1 : D b (w 1) = -(v b * w 2) := hw b 1
  have key : D b (v a * v c * w 1)
      = D b (v a) * v c * w 1 + D b (v c) * v a * w 1 - v a * v b * v c * w 2 := by
    rw [hLeib, hLeib, hw1]; ring
  have h := hPer b (v a * v c * w 1)
  rw [key, map_sub, map_add] at h
  exact (sub_eq_zero.mp h).symm

end IBP

/-- non-vacuity of the hypotheses of `ibp`: polynomials in z = e^{ik}, D = z d/dz (the derivative with respect to k up
    to the factor i), ∫ = constant Fourier coefficient, w_n = (-2)^n z, v = 1/2 -/
example : ∃ (integ : Polynomial ℚ →+ ℚ) (D : Fin 3 → Polynomial ℚ →+ Polynomial ℚ) (v : Fin 3 → Polynomial ℚ)
    (w : Nat → Polynomial ℚ),
    (∀ d x y, D d (x * y) = D d x * y + x * D d y) ∧ (∀ d x, integ (D d x) = 0) ∧
    (∀ d n, D d (w n) = -(v d * w (n + 1))) ∧ D 0 Polynomial.X ≠ 0 := by
  refine ⟨(Polynomial.lcoeff ℚ 0).toAddMonoidHom,
    fun _ => (LinearMap.mulLeft ℚ Polynomial.X).toAddMonoidHom.comp Polynomial.derivative.toAddMonoidHom,
    fun _ => Polynomial.C (1 / 2), fun n => Polynomial.C ((-2 : ℚ) ^ n) * Polynomial.X, ?_, ?_, ?_, ?_⟩
  · intro d x y
    simp only [AddMonoidHom.coe_comp, LinearMap.toAddMonoidHom_coe, Function.comp_apply, LinearMap.mulLeft_apply,
      Polynomial.derivative_mul]
    ring
  · intro d x
    simp
  · intro d n
    simp only [AddMonoidHom.coe_comp, LinearMap.toAddMonoidHom_coe, Function.comp_apply, LinearMap.mulLeft_apply,
      Polynomial.derivative_mul, Polynomial.derivative_C, Polynomial.derivative_X, zero_mul, zero_add, mul_one]
    rw [pow_succ]
    simp only [map_mul, Polynomial.C_neg]
    have : (Polynomial.C (1 / 2 : ℚ)) * Polynomial.C (2 : ℚ) = 1 := by
      rw [← Polynomial.C_mul]; norm_num
    linear_combination (-(Polynomial.C ((-2 : ℚ) ^ n) * Polynomial.X)) * this
  · show Polynomial.X * Polynomial.derivative Polynomial.X ≠ 0
    simp

/-! ## T1  the documented pairs are integration-by-parts images -/

/-- snapshot of the live calculator table (Formula, fder, sign, axis permutation, sub-calculator) for the documented
    pairs Ohmic, BerryDipole, NLAHC, GME spin, GME orbital, nonlinear Drude; regenerated and re-checked on every run -/
theorem pair_table_snapshot_ok : pairTableOK snapshotPairs = true := by decide +kernel

/-- the check has teeth: without the `swapaxes(1,2)` of `BerryDipole_FermiSea` the pair is rejected -/
theorem missing_swap_rejected :
    pairOK ⟨.DerOmega, 0, false, [0, 1]⟩ ⟨.VelOmega, 1, false, [0, 1]⟩ = false := by decide +kernel

/-- a sign flip of one `constant_factor` is rejected -/
theorem sign_flip_rejected :
    pairOK ⟨.InvMass, 0, false, [0, 1]⟩ ⟨.VelVel, 1, true, [0, 1]⟩ = false := by decide +kernel

/-- forgetting the `swapaxes(1,2)` of the spin GME sea calculator is rejected, and so is a wrong `fder` -/
theorem spin_axes_and_fder :
    pairOK ⟨.DerSpin, 0, false, [0, 1]⟩ ⟨.VelSpin, 1, false, [0, 1]⟩ = false ∧
    pairOK ⟨.DerSpin, 0, false, [1, 0]⟩ ⟨.VelSpin, 2, false, [0, 1]⟩ = false ∧
    pairOK ⟨.DerSpin, 0, false, [1, 0]⟩ ⟨.VelSpin, 1, false, [0, 1]⟩ = true := by decide +kernel

/-- the image rule itself, on the Berry dipole: DerOmega[c,d] with output axes (d,c) ↦ Ω_c v_d, fder 1 -/
example : (ibpImage (Calc.entry ⟨.DerOmega, 0, false, [1, 0]⟩)).map canon
    = some (canon (Calc.entry ⟨.VelOmega, 1, false, [0, 1]⟩)) := by decide +kernel

end WB.C28
