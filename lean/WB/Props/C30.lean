/-
  C30 — property theorems: the C-order slot index is a bijection; every factorisation NKdiv × NKFFT produces every
  point of the dense grid exactly once; `to_grid` puts into the slot of a grid point exactly the values carried by
  that k-point (for any processing order, also with repeated k-points); `find_grid` recovers the grid of a complete
  set of k-points; component extraction is the corresponding algebraic operation.
-/
import WB.Lemmas.C30
import WB.Lemmas.C30Find

namespace WB.C30

/-! ## T1 — the C-order index `kz + g₂(ky + g₁ kx)` -/

/-- slots are in range -/
theorem cindex_lt (g p : N3) (h : inBox g p) : cindex g p < vol g := cindex_lt' g p h

/-- `unindex` (the grid point written into `k_new[s]`) inverts `cindex` … -/
theorem unindex_cindex (g p : N3) (h : inBox g p) : unindex g (cindex g p) = p := unindex_cindex' g p h

/-- … on both sides: every slot `s < g₀g₁g₂` is the slot of exactly the grid point `k_new[s]`, which lies in the box. -/
theorem cindex_unindex (g : N3) (s : Nat) (hs : s < vol g) :
    cindex g (unindex g s) = s ∧ inBox g (unindex g s) := cindex_unindex' g s hs

/-- different grid points have different slots -/
theorem cindex_injective (g p q : N3) (hp : inBox g p) (hq : inBox g q) (h : cindex g p = cindex g q) : p = q := by
  rw [← unindex_cindex g p hp, ← unindex_cindex g q hq, h]

example : (List.range (vol (2, 3, 2))).map (unindex (2, 3, 2)) =
    [(0,0,0),(0,0,1),(0,1,0),(0,1,1),(0,2,0),(0,2,1),(1,0,0),(1,0,1),(1,1,0),(1,1,1),(1,2,0),(1,2,1)] := by decide

/-! ## T2 — every factorisation covers the dense grid exactly once -/

/-- For every factorisation `NKdiv × NKFFT` (all entries positive) every point of the dense grid
    `NKdiv·NKFFT` is produced by exactly one (K-point, FFT point) pair: it occurs exactly once among the tabulated
    k-points, and nothing else occurs. -/
theorem tabPoints_cover (div fft : N3) (hd : 0 < div.1 ∧ 0 < div.2.1 ∧ 0 < div.2.2) (P : N3) :
    (inBox (dense div fft) P → (tabPoints div fft).count P = 1) ∧
    (¬ inBox (dense div fft) P → (tabPoints div fft).count P = 0) := by
  constructor
  · intro h
    exact List.count_eq_one_of_mem (tabPoints_nodup div fft) ((mem_tabPoints div fft P hd).2 h)
  · intro h
    exact List.count_eq_zero_of_not_mem (fun hm => h ((mem_tabPoints div fft P hd).1 hm))

/-- the number of tabulated k-points is the size of the dense grid -/
theorem tabPoints_slots_perm (div fft : N3) (hd : 0 < div.1 ∧ 0 < div.2.1 ∧ 0 < div.2.2) :
    ((tabPoints div fft).map (cindex (dense div fft))).Perm (List.range (vol (dense div fft))) := by
  rw [List.perm_ext_iff_of_nodup ?_ List.nodup_range]
  · intro s
    simp only [List.mem_map, List.mem_range]
    constructor
    · rintro ⟨P, hP, rfl⟩
      exact cindex_lt _ _ ((mem_tabPoints div fft P hd).1 hP)
    · intro hs
      obtain ⟨h1, h2⟩ := cindex_unindex (dense div fft) s hs
      exact ⟨_, (mem_tabPoints div fft _ hd).2 h2, h1⟩
  · refine (tabPoints_nodup div fft).map_on ?_
    intro P hP Q hQ h
    exact cindex_injective _ P Q ((mem_tabPoints div fft P hd).1 hP) ((mem_tabPoints div fft Q hd).1 hQ) h

example : tabPoints (2, 1, 1) (1, 1, 2) = [(0,0,0),(0,0,1),(1,0,0),(1,0,1)] := by decide
example : tabPoints (1, 1, 2) (2, 1, 1) = [(0,0,0),(1,0,0),(0,0,1),(1,0,1)] := by decide

/-! ## T3 — `to_grid`: each slot receives the values of its own grid point -/

variable {K : Type} [Field K] [CharZero K]

/-- Let `pts` be ANY list of grid points (any order, repetitions allowed — symmetric copies, refinement passes),
    and `data ik` the value tabulated for the `ik`-th of them.  If the grid point `P` occurs in the list and all its
    occurrences carry the same value `v`, then `to_grid` stores exactly `v` in the slot `cindex g P`: no other
    k-point contributes to that slot and the average of equal values is the value. -/
theorem toGrid_own_value (g : N3) (pts : List N3) (hbox : ∀ p ∈ pts, inBox g p) (data : Nat → K)
    (P : N3) (hP : inBox g P) (hmem : P ∈ pts) (v : K)
    (hval : ∀ ik, ik < pts.length → pts.getD ik (0, 0, 0) = P → data ik = v) :
    toGrid g (pts.map (toQ g)) data (cindex g P) = some v := by
  have hslot : ∀ ik, ik < pts.length →
      slotOf g ((pts.map (toQ g)).getD ik (0, 0, 0)) = some (cindex g (pts.getD ik (0, 0, 0))) := by
    intro ik hik
    have e1 : (pts.map (toQ g)).getD ik (0, 0, 0) = toQ g (pts.getD ik (0, 0, 0)) := by
      simp [List.getD_eq_getElem?_getD, List.getElem?_map, List.getElem?_eq_getElem hik]
    rw [e1]
    apply slotOf_exact
    apply hbox
    simp [List.getD_eq_getElem?_getD, List.getElem?_eq_getElem hik]
  have hkm : ∀ ik, ik ∈ kmap g (pts.map (toQ g)) (cindex g P) ↔ ik < pts.length ∧ pts.getD ik (0, 0, 0) = P := by
    intro ik
    rw [mem_kmap, List.length_map]
    constructor
    · rintro ⟨hik, hs⟩
      refine ⟨hik, ?_⟩
      rw [hslot ik hik] at hs
      have hin : inBox g (pts.getD ik (0, 0, 0)) := by
        apply hbox; simp [List.getD_eq_getElem?_getD, List.getElem?_eq_getElem hik]
      exact cindex_injective g _ _ hin hP (Option.some.inj hs)
    · rintro ⟨hik, he⟩
      exact ⟨hik, by rw [hslot ik hik, he]⟩
  have hne : kmap g (pts.map (toQ g)) (cindex g P) ≠ [] := by
    obtain ⟨ik, hik, he⟩ := List.getElem_of_mem hmem
    intro hnil
    have : ik ∈ kmap g (pts.map (toQ g)) (cindex g P) :=
      (hkm ik).2 ⟨hik, by simp [List.getD_eq_getElem?_getD, List.getElem?_eq_getElem hik, he]⟩
    rw [hnil] at this
    cases this
  unfold toGrid
  simp only [List.isEmpty_iff, hne, if_false]
  congr 1
  exact sumList_const _ hne data v (fun ik hik => hval ik ((hkm ik).1 hik).1 ((hkm ik).1 hik).2)

/-- Tabulation on a grid.  For every factorisation, and for the k-points collected in ANY order (`pts` is any
    permutation of the tabulated points — serial or parallel evaluation): every slot `s` of the C-ordered output
    holds the value of exactly one tabulated k-point, namely of the grid point `k_new[s] = unindex s`. -/
theorem tabulate_grid (div fft : N3) (hd : 0 < div.1 ∧ 0 < div.2.1 ∧ 0 < div.2.2)
    (pts : List N3) (hperm : pts.Perm (tabPoints div fft)) (data : Nat → K) (s : Nat)
    (hs : s < vol (dense div fft)) :
    ∃ ik, ik < pts.length ∧ pts.getD ik (0, 0, 0) = unindex (dense div fft) s ∧
      (∀ jk, jk < pts.length → pts.getD jk (0, 0, 0) = unindex (dense div fft) s → jk = ik) ∧
      toGrid (dense div fft) (pts.map (toQ (dense div fft))) data s = some (data ik) := by
  obtain ⟨h1, h2⟩ := cindex_unindex (dense div fft) s hs
  have hmem : unindex (dense div fft) s ∈ pts := hperm.mem_iff.2 ((mem_tabPoints div fft _ hd).2 h2)
  have hnd : pts.Nodup := hperm.nodup_iff.2 (tabPoints_nodup div fft)
  obtain ⟨ik, hik, he⟩ := List.getElem_of_mem hmem
  have hget : ∀ jk (hjk : jk < pts.length), pts.getD jk (0, 0, 0) = pts[jk] := by
    intro jk hjk; simp [List.getD_eq_getElem?_getD, List.getElem?_eq_getElem hjk]
  have huniq : ∀ jk, jk < pts.length → pts.getD jk (0, 0, 0) = unindex (dense div fft) s → jk = ik := by
    intro jk hjk hj
    rw [hget jk hjk, ← he] at hj
    exact (List.Nodup.getElem_inj_iff hnd).1 hj
  refine ⟨ik, hik, by rw [hget ik hik, he], huniq, ?_⟩
  have := toGrid_own_value (dense div fft) pts
    (fun p hp => (mem_tabPoints div fft p hd).1 (hperm.mem_iff.1 hp)) data _ h2 hmem (data ik)
    (fun jk hjk hj => by rw [huniq jk hjk hj])
  rw [h1] at this
  exact this

/-- non-vacuity: a 2×1×2 grid collected in a scrambled order with a repeated point -/
example : (List.range 4).map (toGrid (K := Rat) (2, 1, 2)
      ([(1,0,1), (0,0,0), (1,0,0), (0,0,1), (1,0,1)].map (toQ (2, 1, 2))) (fun ik => [7, 1, 3, 2, 7].getD ik 0))
    = [some 1, some 2, some 3, some 7] := by decide +kernel

/-! ## T4 — `find_grid` -/

/-- For a complete set of k-points along one direction (every `n/g`, `n < g`, occurs — in any order, any number of
    times — and nothing else), `find_grid` returns `g`. -/
theorem findGrid1_complete (g : Nat) (hg : 0 < g) (coords : List Rat)
    (h1 : ∀ c ∈ coords, ∃ n : Nat, n < g ∧ c = (n : Rat) / g)
    (h2 : ∀ n : Nat, n < g → (n : Rat) / g ∈ coords) :
    findGrid1 coords = g := by
  have hgQ : (0 : Rat) < g := by exact_mod_cast hg
  set s := sortQ (coords ++ [1]) with hsdef
  have hperm : s.Perm (coords ++ [1]) := sortQ_perm _
  have hsorted : s.Pairwise (· ≤ ·) := sortQ_sorted _
  have hone : (1 : Rat) = ((g : Nat) : Rat) / g := by rw [div_self hgQ.ne']
  have hgrid : ∀ c ∈ s, ∃ n : Nat, n ≤ g ∧ c = (n : Rat) / g := by
    intro c hc
    rcases List.mem_append.1 (hperm.mem_iff.1 hc) with h | h
    · obtain ⟨n, hn, rfl⟩ := h1 c h; exact ⟨n, by omega, rfl⟩
    · simp only [List.mem_singleton] at h; exact ⟨g, le_refl _, by rw [h]; exact hone⟩
  have hall : ∀ n : Nat, n ≤ g → (n : Rat) / g ∈ s := by
    intro n hn
    apply hperm.mem_iff.2
    rcases Nat.lt_or_ge n g with h | h
    · exact List.mem_append_left _ (h2 n h)
    · have : n = g := by omega
      subst this
      exact List.mem_append_right _ (by rw [← hone]; simp)
  -- the sorted list has at least two elements: 0 and 1
  have h0 : (0 : Rat) ∈ s := by simpa using hall 0 (by omega)
  have h1' : (1 : Rat) ∈ s := by have := hall g (le_refl _); rwa [← hone] at this
  obtain ⟨a, b, rest, hs⟩ : ∃ a b rest, s = a :: b :: rest := by
    match hm : s with
    | [] => cases h0
    | [x] =>
      simp only [List.mem_singleton] at h0 h1'
      exact absurd (h0.trans h1'.symm) (by norm_num)
    | a :: b :: rest => exact ⟨a, b, rest, rfl⟩
  have hle : ∀ d ∈ gaps s, d ≤ 1 / (g : Rat) :=
    gaps_le g hg s hsorted hgrid (fun n hn _ => hall n hn)
  have hhead : a ≤ 0 := by
    rw [hs] at hsorted h0
    rcases List.mem_cons.1 h0 with h | h
    · exact le_of_eq h.symm
    · exact (List.pairwise_cons.1 hsorted).1 _ h
  obtain ⟨d, hd, hpos⟩ := exists_pos_gap s hsorted a (by rw [hs]; simp) 1 h1' (by linarith)
  have hdge : 1 / (g : Rat) ≤ d := by
    obtain ⟨k, m, rfl⟩ := mem_gaps_grid g s hgrid d hd
    have hkm : k < m := by
      by_contra hcon
      have := (gv_le g hg m k).2 (by omega)
      linarith
    have : ((k + 1 : Nat) : Rat) / g ≤ (m : Rat) / g := (gv_le g hg (k + 1) m).2 hkm
    push_cast at this
    rw [add_div] at this
    linarith
  have hmax : maxQ (gaps s) = 1 / (g : Rat) := by
    apply le_antisymm
    · exact hle _ (maxQ_mem _ (by rw [hs]; exact gaps_ne_nil a b rest))
    · exact le_trans hdge (maxQ_ge _ d hd)
  unfold findGrid1
  rw [← hsdef, hmax, one_div_one_div]
  exact_mod_cast rint_int (g : Int)

/-- the three directions together: a complete `g₀×g₁×g₂` grid (any order of the points) is recognised -/
theorem findGrid_complete (g : N3) (hg : 0 < g.1 ∧ 0 < g.2.1 ∧ 0 < g.2.2) (pts : List N3)
    (hbox : ∀ p ∈ pts, inBox g p) (hall : ∀ p, inBox g p → p ∈ pts) :
    findGrid (pts.map (toQ g)) = ((g.1 : Int), (g.2.1 : Int), (g.2.2 : Int)) := by
  unfold findGrid
  simp only [List.map_map]
  refine Prod.ext ?_ (Prod.ext ?_ ?_)
  · apply findGrid1_complete g.1 hg.1
    · intro c hc
      obtain ⟨p, hp, rfl⟩ := List.mem_map.1 hc
      exact ⟨p.1, (hbox p hp).1, rfl⟩
    · intro n hn
      exact List.mem_map.2 ⟨(n, 0, 0), hall _ ⟨hn, hg.2.1, hg.2.2⟩, rfl⟩
  · apply findGrid1_complete g.2.1 hg.2.1
    · intro c hc
      obtain ⟨p, hp, rfl⟩ := List.mem_map.1 hc
      exact ⟨p.2.1, (hbox p hp).2.1, rfl⟩
    · intro n hn
      exact List.mem_map.2 ⟨(0, n, 0), hall _ ⟨hg.1, hn, hg.2.2⟩, rfl⟩
  · apply findGrid1_complete g.2.2 hg.2.2
    · intro c hc
      obtain ⟨p, hp, rfl⟩ := List.mem_map.1 hc
      exact ⟨p.2.2, (hbox p hp).2.2, rfl⟩
    · intro n hn
      exact List.mem_map.2 ⟨(0, 0, n), hall _ ⟨hg.1, hg.2.1, hn⟩, rfl⟩

/-- … in particular for the k-points of every factorisation, in any order -/
theorem findGrid_tabPoints (div fft : N3) (hd : 0 < div.1 ∧ 0 < div.2.1 ∧ 0 < div.2.2)
    (hf : 0 < fft.1 ∧ 0 < fft.2.1 ∧ 0 < fft.2.2) (pts : List N3) (hperm : pts.Perm (tabPoints div fft)) :
    findGrid (pts.map (toQ (dense div fft)))
      = (((dense div fft).1 : Int), ((dense div fft).2.1 : Int), ((dense div fft).2.2 : Int)) := by
  apply findGrid_complete
  · exact ⟨Nat.mul_pos hd.1 hf.1, Nat.mul_pos hd.2.1 hf.2.1, Nat.mul_pos hd.2.2 hf.2.2⟩
  · intro p hp; exact (mem_tabPoints div fft p hd).1 (hperm.mem_iff.1 hp)
  · intro p hp; exact hperm.mem_iff.2 ((mem_tabPoints div fft p hd).2 hp)

example : findGrid ([(1,0,2), (0,0,0), (1,0,0), (0,0,1), (0,0,2), (1,0,1)].map (toQ (2, 1, 3))) = (2, 1, 3) := by
  decide +kernel

/-! ## T4' — the text writer: every grid point is written by exactly one writer process -/

/-- For any number of points `n` and any chunk length `npp > 0`, every position `p < n` of the flattened (C-ordered)
    band lies in exactly one of the chunks `[(i, i+npp) for i in range(0, n, npp)]`. -/
theorem chunk_cover (n npp p : Nat) (hnpp : 0 < npp) (hp : p < n) :
    ∃ c, (c * npp, c * npp + npp) ∈ chunkBounds n npp ∧ c * npp ≤ p ∧ p < c * npp + npp ∧
      ∀ c', c' * npp ≤ p → p < c' * npp + npp → c' = c := by
  refine ⟨p / npp, ?_, Nat.div_mul_le_self p npp, ?_, ?_⟩
  · unfold chunkBounds
    rw [List.mem_map]
    refine ⟨p / npp, ?_, rfl⟩
    rw [List.mem_range, Nat.lt_iff_add_one_le, Nat.le_div_iff_mul_le hnpp]
    have := Nat.div_mul_le_self p npp
    rw [Nat.add_mul, Nat.one_mul]
    omega
  · have := Nat.lt_div_mul_add hnpp (a := p)
    rw [Nat.mul_comm] at this
    rw [Nat.mul_comm]; exact this
  · intro c' h1 h2
    apply Nat.le_antisymm
    · exact (Nat.le_div_iff_mul_le hnpp).2 h1
    · have : p / npp < c' + 1 := by
        rw [Nat.div_lt_iff_lt_mul hnpp, Nat.add_mul, Nat.one_mul]; exact h2
      omega

/-- the chunk length chosen for `npar` processes is positive whenever there is something to write -/
theorem nppproc_pos (n npar : Nat) (hn : 0 < n) (hnpar : 0 < npar) : 0 < nppproc n npar := by
  unfold nppproc
  by_cases h : n % npar > 0
  · simp [h]
  · have h0 : n % npar = 0 := by omega
    have hle : npar ≤ n := Nat.le_of_dvd hn (Nat.dvd_of_mod_eq_zero h0)
    simp [h]; exact ⟨hnpar, hle⟩

/-- concrete sizes, and the 'balanced arange' variant, which drops the tail when `n` is not a multiple of the chunk -/
theorem chunk_examples :
    chunkWrite (List.range 27) (nppproc 27 2) = List.range 27 ∧
    chunkWrite (List.range 6) (nppproc 6 4) = List.range 6 ∧
    chunkWrite (List.range 1) (nppproc 1 3) = List.range 1 ∧
    chunkBoundsArange 27 (27 / 2) = [(0, 13), (13, 26)] := by
  decide

/-! ## T5 — which degenerate group supplies a selected band -/

/-- If the band groups do not overlap, a selected band gets the value of THE group that contains it. -/
theorem groupOf_spec (groups : List (Nat × Nat)) (ibands : List Nat) (ib : Nat) (n : Nat × Nat)
    (hn : n ∈ groups) (hc : n.1 ≤ ib ∧ ib < n.2) (hib : ib ∈ ibands)
    (hdisj : ∀ m ∈ groups, m.1 ≤ ib → ib < m.2 → m = n) :
    groupOf groups ibands ib = some n := by
  unfold groupOf
  have hneeded : n ∈ neededGroups groups ibands := by
    unfold neededGroups
    rw [List.mem_filter]
    refine ⟨hn, ?_⟩
    rw [List.any_eq_true]
    exact ⟨ib, hib, by simp [hc.1, hc.2]⟩
  cases hf : (neededGroups groups ibands).find? (fun n => decide (ib < n.2) && decide (n.1 ≤ ib)) with
  | none =>
    rw [List.find?_eq_none] at hf
    have := hf n hneeded
    simp [hc.1, hc.2] at this
  | some m =>
    have hm := List.mem_of_find?_eq_some hf
    have hp := List.find?_some hf
    simp only [Bool.and_eq_true, decide_eq_true_eq] at hp
    unfold neededGroups at hm
    rw [hdisj m (List.mem_filter.1 hm).1 hp.2 hp.1]

/-- T5' (column order).  The band axis of the tabulated array follows the selection AS GIVEN: as many columns as
    entries (repetitions included), and column `j` is the value of the group of band `ibands[j]` — no sorting, no
    merging of repeated entries. -/
theorem tabBands_order {V : Type} (groups : List (Nat × Nat)) (ibands : List Nat) (values : Nat × Nat → V) :
    (tabBands groups ibands values).length = ibands.length ∧
    ∀ j (hj : j < ibands.length),
      (tabBands groups ibands values)[j]? = some ((groupOf groups ibands ibands[j]).map values) := by
  constructor
  · simp [tabBands]
  · intro j hj
    simp [tabBands, List.getElem?_map, List.getElem?_eq_getElem hj]

/-- … with non-overlapping groups that cover the selected bands: column `j` is exactly the group containing
    `ibands[j]`, whatever the order of the selection -/
theorem tabBands_column (groups : List (Nat × Nat)) (ibands : List Nat) (j : Nat) (hj : j < ibands.length)
    (n : Nat × Nat) (hn : n ∈ groups) (hc : n.1 ≤ ibands[j] ∧ ibands[j] < n.2)
    (hdisj : ∀ m ∈ groups, m.1 ≤ ibands[j] → ibands[j] < m.2 → m = n) :
    (tabBands groups ibands id)[j]? = some (some n) := by
  rw [(tabBands_order groups ibands id).2 j hj,
    groupOf_spec groups ibands ibands[j] n hn hc (List.getElem_mem hj) hdisj]
  rfl

/-- 'sort (np.unique) the selection first' breaks it: for the selection [3,0,2] of four non-degenerate bands the
    user's column 0 is band 3, the sorted variant returns band 0 there; a repeated entry loses a column. -/
theorem unique_first_permutes_columns :
    let groups := [(0, 1), (1, 2), (2, 3), (3, 4)]
    tabBands groups [3, 0, 2] id = [some (3, 4), some (0, 1), some (2, 3)] ∧
    tabBandsUnique groups [3, 0, 2] id = [some (0, 1), some (2, 3), some (3, 4)] ∧
    (tabBands groups [2, 2, 0] id).length = 3 ∧ (tabBandsUnique groups [2, 2, 0] id).length = 2 := by
  decide

/-! ## T6 — components -/

variable {F : Type} [Field F]

omit [Field F] in
/-- a full word `'xy…'` (axes moved to the front, then indexed) picks the same element as the index tuple
    `(0,1,…)` (last axes stripped one by one): the two code paths of `get_component` agree. -/
theorem compLetters_eq_compTuple (cs : List Nat) (T : TArr F) (hT : HasRank cs.length T) (v t : Nat → Nat) :
    compLetters cs T v t = compTuple cs.length cs T v t := by
  unfold compLetters compTuple
  apply hT
  intro a ha
  simp [ha]

omit [Field F] in
/-- `'x'|'y'|'z'` of a vector, a word of a tensor and an index tuple are the element with those indices:
    the value does not depend on anything but that element. -/
theorem compTuple_full (cs : List Nat) (T : TArr F) (hT : HasRank cs.length T) (v t : Nat → Nat) :
    compTuple cs.length cs T v t = T v (fun a => cs.getD a 0) := by
  unfold compTuple
  apply hT
  intro a ha
  simp

omit [Field F] in
/-- a shorter tuple fixes the LAST axes and keeps the leading tensor axes free -/
theorem compTuple_partial (ndim : Nat) (cs : List Nat) (t : Nat → Nat) (a : Nat) :
    (a < ndim - cs.length →
      (fun a => if a < ndim - cs.length then t a else cs.getD (a - (ndim - cs.length)) 0) a = t a) ∧
    (ndim - cs.length ≤ a →
      (fun a => if a < ndim - cs.length then t a else cs.getD (a - (ndim - cs.length)) 0) a
        = cs.getD (a - (ndim - cs.length)) 0) := by
  constructor
  · intro h; simp [h]
  · intro h; simp [Nat.not_lt.2 h]

/-- every component except the norm is linear in the tensor -/
theorem comp_linear (ndim : Nat) (cs : List Nat) (T U : TArr F) (c d : F) (v t : Nat → Nat) :
    compTuple ndim cs (fun v t => c * T v t + d * U v t) v t
        = c * compTuple ndim cs T v t + d * compTuple ndim cs U v t ∧
    compLetters cs (fun v t => c * T v t + d * U v t) v t
        = c * compLetters cs T v t + d * compLetters cs U v t ∧
    compTrace (fun v t => c * T v t + d * U v t) v = c * compTrace T v + d * compTrace U v := by
  refine ⟨rfl, rfl, ?_⟩
  simp only [compTrace]
  ring

/-- `"trace"` is the sum of the three diagonal components `xx…x + yy…y + zz…z` -/
theorem compTrace_eq_diag (ndim : Nat) (T : TArr F) (hT : HasRank ndim T) (v t : Nat → Nat) :
    compTrace T v = compLetters (List.replicate ndim 0) T v t + compLetters (List.replicate ndim 1) T v t
                  + compLetters (List.replicate ndim 2) T v t := by
  have h : ∀ i, compLetters (List.replicate ndim i) T v t = T v (fun _ => i) := by
    intro i
    unfold compLetters
    apply hT
    intro a ha
    simp [ha, List.getD_eq_getElem?_getD]
  rw [h 0, h 1, h 2]
  rfl

/-- `'sq'` is `Σ_i d_i · conj(d_i)` over the three components of each (k, band) element separately, and
    `'norm'` squared is `'sq'` for any square-root function -/
theorem compNorm_sq (sqrt cj : F → F) (hsqrt : ∀ x, sqrt x * sqrt x = x) (T : TArr F) (hT : HasRank 1 T)
    (v t : Nat → Nat) :
    compNorm sqrt cj T v * compNorm sqrt cj T v = compSq cj T v ∧
    compSq cj T v = compTuple 1 [0] T v t * cj (compTuple 1 [0] T v t)
                  + compTuple 1 [1] T v t * cj (compTuple 1 [1] T v t)
                  + compTuple 1 [2] T v t * cj (compTuple 1 [2] T v t) := by
  refine ⟨hsqrt _, ?_⟩
  have h : ∀ i, compTuple 1 [i] T v t = T v (fun _ => i) := by
    intro i
    unfold compTuple
    apply hT
    intro a ha
    have : a = 0 := by omega
    subst this
    simp
  rw [h 0, h 1, h 2]
  rfl

theorem words_length (n : Nat) : (words n).length = 3 ^ n := by
  induction n with
  | zero => rfl
  | succ n ih =>
    simp only [words, List.flatMap_cons, List.flatMap_nil, List.length_append, List.length_map, ih, List.length_nil]
    ring

theorem words_mem_length (n : Nat) (w : List Nat) (hw : w ∈ words n) : w.length = n := by
  induction n generalizing w with
  | zero => simp [words] at hw; subst hw; rfl
  | succ n ih =>
    simp only [words, List.mem_flatMap, List.mem_map] at hw
    obtain ⟨c, _, w', hw', rfl⟩ := hw
    simp [ih w' hw']

/-- `get_component_list`: `3^dim` words, plus "trace" from rank 2 on; `[None]` for scalars -/
theorem componentList_length (dim : Nat) :
    (componentList dim).length = if dim = 0 then 1 else 3 ^ dim + (if dim ≥ 2 then 1 else 0) := by
  unfold componentList
  split
  · rfl
  · simp only [List.length_append, List.length_map, words_length]
    split <;> rfl

/-- every component offered by `get_component_list` can be extracted and is a scalar per (k, band) -/
theorem componentList_valid (dim : Nat) (sp : Spec) (h : sp ∈ componentList dim) : compBranch dim sp = .ok 0 := by
  unfold componentList at h
  split at h
  · rename_i h0
    simp only [List.mem_singleton] at h
    subst h h0
    rfl
  · rename_i h0
    rcases List.mem_append.1 h with h | h
    · obtain ⟨w, hw, rfl⟩ := List.mem_map.1 h
      have hl := words_mem_length dim w hw
      unfold compBranch
      simp only [h0, if_false, hl]
      split
      · simp
      · simp
    · split at h
      · rename_i h2
        simp only [List.mem_singleton] at h
        subst h
        simp [compBranch, h2]
      · cases h

example : componentList 1 = [.letters [0], .letters [1], .letters [2]] := by decide
example : (componentList 2).length = 10 := by decide

end WB.C30
