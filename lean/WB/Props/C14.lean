/-
  C14 — tetrahedron weights are the exact linear-tetrahedron volume fractions: property theorems.
  (Statements are the deliverable; helper lemmas live in WB/Lemmas/C14*.lean.)

  SPEC (Lemmas/C14Spec):  spec n e₁ e₂ e₃ e₄ ε = (3·2·…) · Σᵢ (ε-eᵢ)₊^(3-n) / Π_{j≠i}(eⱼ-eᵢ)
  — for n = 0 the fraction of the volume of a tetrahedron with corner energies e₁..e₄ (linear interpolation) below ε
  (Hermite–Genocchi / truncated-power form; taken as the definition of "exact fraction"), for n = 1,2,3 its
  term-wise derivatives.  `K` is any linearly ordered field; the analytic statements are over ℝ.
-/
import WB.Lemmas.C14Spec
import WB.Lemmas.C14Mono
import WB.Lemmas.C14Sort
import WB.Lemmas.C14Real
import WB.Lemmas.C14Groups
import WB.Lemmas.C14Paral
import WB.Lemmas.C14Cache
import WB.Lemmas.C14Glue

namespace WB.C14
set_option linter.unusedSectionVars false

section field
variable {K : Type} [Field K] [LinearOrder K] [IsStrictOrderedRing K]

/-! ## the code's formulas are the spec -/

/-- T1.  On strictly increasing corners the `accurate` branch of `weights_tetra` equals the exact volume fraction
    on each of the five intervals of the Fermi level. -/
theorem accurate_eq_spec {e1 e2 e3 e4 : K} (h12 : e1 < e2) (h23 : e2 < e3) (h34 : e3 < e4) (x : K) :
    occAcc e1 e2 e3 e4 x = spec 0 e1 e2 e3 e4 x :=
  occAcc_eq_spec ⟨h12, h23, h34⟩ x

/-- T2 + T3 (algebraic).  The polynomial branch — cubic coefficients `c1*, c2*, c3*` evaluated by Horner, and the
    `der = 1, 2, 3` expressions built from the same coefficients — equals the spec and its term-wise derivatives. -/
theorem poly_eq_spec {e1 e2 e3 e4 : K} (h12 : e1 < e2) (h23 : e2 < e3) (h34 : e3 < e4) (der : Nat) (hder : der ≤ 3)
    (x : K) : occPoly der e1 e2 e3 e4 x = spec der e1 e2 e3 e4 x := by
  have h : Incr e1 e2 e3 e4 := ⟨h12, h23, h34⟩
  have : der = 0 ∨ der = 1 ∨ der = 2 ∨ der = 3 := by omega
  rcases this with rfl | rfl | rfl | rfl
  · exact occPoly0_eq_spec h x
  · exact occPoly1_eq_spec h x
  · exact occPoly2_eq_spec h x
  · exact occPoly3_eq_spec h x

/-- MAIN.  For ARBITRARY corner energies (any order, coincident or not), every derivative order 0-3 and both
    branches, `weights_tetra` evaluates the spec on the sorted corners after the `diff_min` separation pass. -/
theorem weightsTetra_is_spec {dmin : K} (hd : 0 < dmin) (der : Nat) (hder : der ≤ 3) (acc : Bool)
    (a b c d x s1 s2 s3 s4 : K) (hs : sort4 a b c d = [s1, s2, s3, s4]) :
    weightsTetra dmin der acc a b c d x =
      spec der (sep4 dmin s1 s2 s3 s4).1 (sep4 dmin s1 s2 s3 s4).2.1 (sep4 dmin s1 s2 s3 s4).2.2.1
        (sep4 dmin s1 s2 s3 s4).2.2.2 x :=
  weightsTetra_eq_spec hd der hder acc a b c d x s1 s2 s3 s4 hs

/-- the sorted corners exist, are ordered, and are a permutation of the input -/
theorem sorted_corners (a b c d : K) :
    ∃ s1 s2 s3 s4 : K, sort4 a b c d = [s1, s2, s3, s4] ∧ s1 ≤ s2 ∧ s2 ≤ s3 ∧ s3 ≤ s4 ∧
      [s1, s2, s3, s4].Perm [a, b, c, d] := by
  obtain ⟨s1, s2, s3, s4, hs, h1, h2, h3⟩ := sort4_cases a b c d
  exact ⟨s1, s2, s3, s4, hs, h1, h2, h3, hs ▸ sort4_perm a b c d⟩

/-- MAIN (separated corners).  When the sorted corners are at least `diff_min` apart the separation pass is the
    identity, so the weight is the spec of the corners themselves. -/
theorem weightsTetra_is_spec_separated {dmin : K} (hd : 0 < dmin) (der : Nat) (hder : der ≤ 3) (acc : Bool)
    (a b c d x s1 s2 s3 s4 : K) (hs : sort4 a b c d = [s1, s2, s3, s4])
    (g12 : dmin ≤ s2 - s1) (g23 : dmin ≤ s3 - s2) (g34 : dmin ≤ s4 - s3) :
    weightsTetra dmin der acc a b c d x = spec der s1 s2 s3 s4 x := by
  rw [weightsTetra_eq_spec hd der hder acc a b c d x s1 s2 s3 s4 hs, sep4_id g12 g23 g34]

/-- the separation pass moves no corner down and none up by more than `3·diff_min`; the result is strictly
    increasing with gaps `≥ diff_min` (this is the only place where the code departs from the exact fraction of
    the given corners) -/
theorem separation_bound {dmin : K} (hd : 0 < dmin) {s1 s2 s3 s4 : K} (h12 : s1 ≤ s2) (h23 : s2 ≤ s3) (h34 : s3 ≤ s4) :
    (sep4 dmin s1 s2 s3 s4).1 = s1 ∧
    (s2 ≤ (sep4 dmin s1 s2 s3 s4).2.1 ∧ (sep4 dmin s1 s2 s3 s4).2.1 ≤ s2 + dmin) ∧
    (s3 ≤ (sep4 dmin s1 s2 s3 s4).2.2.1 ∧ (sep4 dmin s1 s2 s3 s4).2.2.1 ≤ s3 + 2 * dmin) ∧
    (s4 ≤ (sep4 dmin s1 s2 s3 s4).2.2.2 ∧ (sep4 dmin s1 s2 s3 s4).2.2.2 ≤ s4 + 3 * dmin) ∧
    (sep4 dmin s1 s2 s3 s4).1 < (sep4 dmin s1 s2 s3 s4).2.1 ∧
    (sep4 dmin s1 s2 s3 s4).2.1 < (sep4 dmin s1 s2 s3 s4).2.2.1 ∧
    (sep4 dmin s1 s2 s3 s4).2.2.1 < (sep4 dmin s1 s2 s3 s4).2.2.2 := by
  obtain ⟨a, b, c, d⟩ := sep4_shift hd.le h12 h23 h34
  obtain ⟨i1, i2, i3⟩ := sep4_incr hd s1 s2 s3 s4
  exact ⟨a, b, c, d, i1, i2, i3⟩

/-! ## range, monotonicity, symmetry -/

/-- T4 (range).  The occupation weight lies in [0,1] for all corners and Fermi levels, both branches. -/
theorem occupation_range {dmin : K} (hd : 0 < dmin) (acc : Bool) (a b c d x : K) :
    0 ≤ weightsTetra dmin 0 acc a b c d x ∧ weightsTetra dmin 0 acc a b c d x ≤ 1 :=
  weightsTetra_range hd acc a b c d x

/-- T4 (monotone).  The occupation weight is non-decreasing in the Fermi level. -/
theorem occupation_monotone {dmin : K} (hd : 0 < dmin) (acc : Bool) (a b c d : K) {x y : K} (hxy : x ≤ y) :
    weightsTetra dmin 0 acc a b c d x ≤ weightsTetra dmin 0 acc a b c d y :=
  weightsTetra_mono hd acc a b c d hxy

/-- T4 (DOS weight).  The first-derivative weight is non-negative. -/
theorem dos_weight_nonneg {dmin : K} (hd : 0 < dmin) (acc : Bool) (a b c d x : K) :
    0 ≤ weightsTetra dmin 1 acc a b c d x :=
  weightsTetra_der1_nonneg hd acc a b c d x

/-- T4 (limits).  Below all corners every weight is 0; `3·diff_min` above all corners the occupation is 1. -/
theorem occupation_limits {dmin : K} (hd : 0 < dmin) (acc : Bool) (a b c d x : K) :
    (x < a → x < b → x < c → x < d → ∀ der, der ≤ 3 → weightsTetra dmin der acc a b c d x = 0) ∧
    (∀ M, a ≤ M → b ≤ M → c ≤ M → d ≤ M → M + 3 * dmin ≤ x → weightsTetra dmin 0 acc a b c d x = 1) :=
  ⟨fun ha hb hc hdd der hder => weightsTetra_zero_below hd der hder acc a b c d x ha hb hc hdd,
   fun M ha hb hc hdd hx => weightsTetra_one_above hd acc a b c d x M ha hb hc hdd hx⟩

/-- T5.  `weights_tetra` does not depend on the order of the corners: all 24 permutations, every `der`, both
    branches (no hypothesis on the corners or on `diff_min`). -/
theorem perm_invariant (dmin : K) (der : Nat) (acc : Bool) {a b c d a' b' c' d' : K}
    (hp : [a, b, c, d].Perm [a', b', c', d']) (x : K) :
    weightsTetra dmin der acc a b c d x = weightsTetra dmin der acc a' b' c' d' x :=
  weightsTetra_perm dmin der acc hp x

/-- the spec itself is symmetric under the three adjacent transpositions (which generate S₄) -/
theorem spec_symmetric (n : Nat) (e1 e2 e3 e4 x : K) :
    spec n e2 e1 e3 e4 x = spec n e1 e2 e3 e4 x ∧ spec n e1 e3 e2 e4 x = spec n e1 e2 e3 e4 x ∧
    spec n e1 e2 e4 e3 x = spec n e1 e2 e3 e4 x :=
  ⟨spec_swap12 n e1 e2 e3 e4 x, spec_swap23 n e1 e2 e3 e4 x, spec_swap34 n e1 e2 e3 e4 x⟩

/-! ## parallelepiped K-points -/

/-- T6 (geometry).  The 12 tetrahedra of `TetraWeightsParal` (centre + two triangles per face) each have 1/12 of
    the cell volume (|det|/6 with det² = 1/4) and … -/
theorem paral_volumes : paralTets.length = 12 ∧ ∀ t ∈ paralTets, tetVol6 t * tetVol6 t = 1 / 4 :=
  ⟨paralTets_length, paralTets_volume⟩

/-- … every point of the cell lies in one of them: they tile the parallelepiped. -/
theorem paral_cover (x y z : K) (hx0 : 0 ≤ x) (hx1 : x ≤ 1) (hy0 : 0 ≤ y) (hy1 : y ≤ 1) (hz0 : 0 ≤ z) (hz1 : z ≤ 1) :
    ∃ t ∈ paralTets, InTet t (x, y, z) :=
  paralTets_cover x y z hx0 hx1 hy0 hy1 hz0 hz1

/-- T6 (weights).  The parallelepiped weight is the mean of 12 exact tetrahedron fractions, hence in [0,1],
    non-decreasing, 0 below and 1 (`3·diff_min`) above the centre and all corners. -/
theorem paral_weight {dmin : K} (hd : 0 < dmin) (acc : Bool) (center : K) (corner : Nat × Nat × Nat → K) :
    (∀ x, 0 ≤ paralWeight dmin 0 acc center corner x ∧ paralWeight dmin 0 acc center corner x ≤ 1) ∧
    (∀ x y, x ≤ y → paralWeight dmin 0 acc center corner x ≤ paralWeight dmin 0 acc center corner y) ∧
    (∀ x, x < center → (∀ v, x < corner v) → ∀ der, der ≤ 3 → paralWeight dmin der acc center corner x = 0) ∧
    (∀ x M, center ≤ M → (∀ v, corner v ≤ M) → M + 3 * dmin ≤ x → paralWeight dmin 0 acc center corner x = 1) :=
  ⟨fun x => paralWeight_range hd acc center corner x,
   fun _ _ hxy => paralWeight_mono hd acc center corner hxy,
   fun x hc hcorn der hder => paralWeight_zero_below hd der hder acc center corner x hc hcorn,
   fun x M hc hcorn hx => paralWeight_one_above hd acc center corner x M hc hcorn hx⟩

end field

/-! ## the derivative weights are the derivatives (over ℝ) -/

/-- T3 (analytic).  For real corner energies the weight returned for `der + 1` is the derivative, with respect to
    the Fermi level, of the weight returned for `der` (`der = 0, 1`: at every Fermi level; `der = 2`, where the
    function is piecewise linear: at every Fermi level that is not one of the four separated corners). -/
theorem der_is_derivative {dmin : ℝ} (hd : 0 < dmin) (der : Nat) (hder : der ≤ 2) (acc acc' : Bool)
    (a b c d x s1 s2 s3 s4 : ℝ) (hs : sort4 a b c d = [s1, s2, s3, s4])
    (hx : der = 2 → x ≠ (sep4 dmin s1 s2 s3 s4).1 ∧ x ≠ (sep4 dmin s1 s2 s3 s4).2.1 ∧
      x ≠ (sep4 dmin s1 s2 s3 s4).2.2.1 ∧ x ≠ (sep4 dmin s1 s2 s3 s4).2.2.2) :
    HasDerivAt (fun y => weightsTetra dmin der acc a b c d y) (weightsTetra dmin (der + 1) acc' a b c d x) x := by
  have hf : (fun y => weightsTetra dmin der acc a b c d y) =
      spec der (sep4 dmin s1 s2 s3 s4).1 (sep4 dmin s1 s2 s3 s4).2.1 (sep4 dmin s1 s2 s3 s4).2.2.1
        (sep4 dmin s1 s2 s3 s4).2.2.2 :=
    funext fun y => weightsTetra_eq_spec hd der (by omega) acc a b c d y s1 s2 s3 s4 hs
  rw [hf, weightsTetra_eq_spec hd (der + 1) (by omega) acc' a b c d x s1 s2 s3 s4 hs]
  exact spec_hasDerivAt der hder _ _ _ _ x hx

/-- T4 (continuity).  The weights for `der = 0, 1, 2` are continuous functions of the Fermi level (in particular at
    the three interior breakpoints and at both ends); `der = 3` is piecewise constant. -/
theorem weights_continuous {dmin : ℝ} (hd : 0 < dmin) (der : Nat) (hder : der ≤ 2) (acc : Bool) (a b c d : ℝ) :
    Continuous (fun y => weightsTetra dmin der acc a b c d y) := by
  obtain ⟨s1, s2, s3, s4, hs, -, -, -⟩ := sort4_cases a b c d
  have hf : (fun y => weightsTetra dmin der acc a b c d y) =
      spec der (sep4 dmin s1 s2 s3 s4).1 (sep4 dmin s1 s2 s3 s4).2.1 (sep4 dmin s1 s2 s3 s4).2.2.1
        (sep4 dmin s1 s2 s3 s4).2.2.2 :=
    funext fun y => weightsTetra_eq_spec hd der (by omega) acc a b c d y s1 s2 s3 s4 hs
  rw [hf]
  exact spec_continuous der hder _ _ _ _

/-! ## cumulative DOS with the tetrahedron method (one k-point; the BZ result is the average over k) -/

/-- T7 (above).  Band groups of `weights_all_band_groups(der=0)` + the lumped sea group count every band exactly
    once: if the Fermi level `ef` of the scan (`ef0 ≤ … ≤ efN`) is above every band (`Emax i + δ ≤ ef`, `δ` the margin
    beyond which the band weight is 1 — `3·diff_min` by `occupation_limits`/`paral_weight`), the contribution of the
    k-point to CumDOS is the number of bands.  Hypotheses: `n ≥ 1` bands, even with Kramers grouping, per-band
    `Emin ≤ Emax` (min/max over centre and corners) and `Emax` non-decreasing in the band index (bands are sorted
    at every corner). -/
theorem tetraCumDOS_above (Ec Emin Emax : Nat → Rat) (th : Rat) (n : Nat) (kr : Bool) (ef0 efN ef : Rat)
    (w : Nat → Rat) (hk : kr = true → n % 2 = 0)
    (hmm : ∀ i, i < n → Emin i ≤ Emax i) (hmono : ∀ i j, i ≤ j → j < n → Emax i ≤ Emax j)
    (hN : ef ≤ efN) (δ : Rat) (hδ : 0 ≤ δ) (habove : ∀ i, i < n → Emax i + δ ≤ ef)
    (hw : ∀ i, i < n → Emax i + δ ≤ ef → w i = 1) :
    tetraCumDOS Ec Emin Emax th n kr ef0 efN w = (n : Rat) :=
  tetraCumDOS_above_aux Ec Emin Emax th n kr ef0 efN ef w hk hmm hmono hN δ hδ habove hw

/-- T7 (below).  If the Fermi level is below every corner of every band the contribution vanishes. -/
theorem tetraCumDOS_below (Ec Emin Emax : Nat → Rat) (th : Rat) (n : Nat) (kr : Bool) (ef0 efN ef : Rat)
    (w : Nat → Rat) (hk : kr = true → n % 2 = 0)
    (hmm : ∀ i, i < n → Emin i ≤ Emax i)
    (h0 : ef0 ≤ ef) (hbelow : ∀ i, i < n → ef < Emin i)
    (hw : ∀ i, i < n → ef < Emin i → w i = 0) :
    tetraCumDOS Ec Emin Emax th n kr ef0 efN w = 0 :=
  tetraCumDOS_below_aux Ec Emin Emax th n kr ef0 efN ef w hk hmm h0 hbelow hw

/-! ## glue: band selection, the weight cache, corner energies, the sum over K-points -/

/-- T8 (selection).  `select_bands=None` and a selection of ALL bands give the same groups and weights as no selection
    (groups `(a,b)` with `a < b ≤ n`, as `blocks_bounds` guarantees). -/
theorem select_all_is_unselected (Ec Emin Emax : Nat → Rat) (th : Rat) (n : Nat) (kr : Bool) (emin emax : Rat) :
    inRangeSel Ec Emin Emax th n kr emin emax none = inRange Ec Emin Emax th n kr emin emax ∧
    ∀ ab : Nat × Nat, ab.1 < ab.2 → ab.2 ≤ n →
      selHits (some (List.range n)) ab = true ∧ wsel (some (List.range n)) ab = 1 :=
  ⟨inRangeSel_none Ec Emin Emax th n kr emin emax, fun ab h1 h2 => select_all n ab h1 h2⟩

/-- T8 (selection, DOS).  With the Identity formula a window group contributes its mean band weight times the NUMBER OF
    ITS SELECTED BANDS (so for a group of degenerate bands: the sum of the weights of the selected bands). -/
theorem select_counts_selected_bands (w : Nat → Rat) (l : List Nat) (ab : Nat × Nat) (h1 : ab.1 < ab.2) :
    groupWeightSel w (some l) ab * identTrace ab =
      groupWeight w ab * ((l.filter (fun i => decide (ab.1 ≤ i) && decide (i < ab.2))).length : Rat) :=
  select_weight_counts w (some l) ab h1

/-- T8 (order of the selection).  `weight_select_bands`, the group filter and hence the whole group dictionary with
    values depend on `select_bands` only as a multiset: permuting the selection changes nothing (repeated entries are
    counted with their multiplicity, as `np.sum` of the masks does). -/
theorem weight_select_perm_invariant {l l' : List Nat} (h : l.Perm l') (ab : Nat × Nat) :
    wsel (some l) ab = wsel (some l') ab ∧ selHits (some l) ab = selHits (some l') ab :=
  wsel_perm h ab

/-- T9 (cache transparency).  `TetraWeights` evaluates a weight once per (Fermi array BY IDENTITY, der, ik, ib).  For
    every history of queries — any arrays, orders and repetitions — interleaved with in-place modifications only of
    arrays that this object has never seen (or that leave the contents unchanged), every answer equals the cache-free
    computation on the contents at the time of the query.  `kern` is any pure weight kernel (`tetraKern`, the
    parallelepiped one, …). -/
theorem cache_transparent (kern : List Rat → Int → Nat → Nat → List Rat) (heap : Heap) (ops : List Op)
    (hsafe : AllSafe kern ⟨heap, TW.empty⟩ ops) :
    run kern ⟨heap, TW.empty⟩ ops = pureRun kern heap ops :=
  cache_transparent_aux kern ops ⟨heap, TW.empty⟩ (cacheOk_empty kern heap) hsafe

/-- T9' (the hidden state).  The hypothesis is needed: after an in-place change of a Fermi array that was already
    queried, the object keeps returning the weights of the OLD contents (the key is the identity of the array). -/
theorem cache_stale_after_inplace_change :
    let kern : List Rat → Int → Nat → Nat → List Rat := fun ef _ _ _ => ef
    let ops := [Op.mutate 7 [0, 1], Op.query 7 0 0 0, Op.mutate 7 [5, 6], Op.query 7 0 0 0]
    run kern ⟨[], TW.empty⟩ ops = [none, some [0, 1], none, some [0, 1]] ∧
    pureRun kern [] ops = [none, some [0, 1], none, some [5, 6]] := by
  decide +kernel

/-- T9b (which entry is used).  A query re-uses an existing cache line exactly when the SAME array object (identity)
    was passed before, and the line it uses is the one registered for that object; any other array — even one with equal
    contents — gets its own line. -/
theorem cache_hit_iff_same_array (s : TW) (id : Nat) :
    ((s.register id).1 < s.eFermis.length ↔ id ∈ s.eFermis) ∧
    (s.register id).2.eFermis[(s.register id).1]? = some id :=
  ⟨register_hit_iff s id, register_hit_same s id⟩

/-- T9c (a coarser key is wrong).  If the lookup accepted a stored array with the same LENGTH, FIRST and LAST value, a
    second array with other interior points would receive the weights of the first one, although no array was ever
    modified: arrays `0, 1, 2` and `0, 1/2, 2` (while the identity-keyed cache answers correctly, and the history is
    `Safe`). -/
theorem size_and_endpoints_key_is_wrong :
    let kern : List Rat → Int → Nat → Nat → List Rat := fun ef _ _ _ => ef
    let ops := [Op.mutate 1 [0, 1, 2], Op.mutate 2 [0, 1 / 2, 2], Op.query 1 0 0 0, Op.query 2 0 0 0]
    runEnds kern ⟨[], TW.empty⟩ ops = [none, none, some [0, 1, 2], some [0, 1, 2]] ∧
    run kern ⟨[], TW.empty⟩ ops = [none, none, some [0, 1, 2], some [0, 1 / 2, 2]] := by
  decide +kernel

/-- T10 (corner energies).  `Data_K.tetraWeights` feeds the weight object with `E_K` and `E_K_corners_parallel()`.  If
    these are the band energies `eps` at the FFT point and at the 8 corners of its cell (C33: the corner Hamiltonian is
    the Hamiltonian at the shifted k-point), the weight of band `ib` is the parallelepiped weight of the band structure
    itself, and all of T6 applies to it. -/
theorem weights_from_band_structure {K : Type} [Field K] [LinearOrder K] [IsStrictOrderedRing K] {Q : Type} [Add Q]
    (dmin : K) (der : Nat) (eps : Q → Nat → K) (kpt : Nat → Q) (shift : Nat × Nat × Nat → Q)
    (EK : Nat → Nat → K) (Ecorn : Nat → Nat × Nat × Nat → Nat → K)
    (hcen : ∀ ik ib, EK ik ib = eps (kpt ik) ib)
    (hcorn : ∀ ik v ib, Ecorn ik v ib = eps (kpt ik + shift v) ib) (ik ib : Nat) (ef : K) :
    dataKWeightParal dmin der EK Ecorn ik ib ef =
      paralWeight dmin der true (eps (kpt ik) ib) (fun v => eps (kpt ik + shift v) ib) ef := by
  unfold dataKWeightParal
  rw [hcen]
  congr 1
  funext v
  exact hcorn ik v ib

/-- T11 (run level).  `run()` reports `Σ_K factor_K · (mean over the FFT points of K)`.  With `Σ_K factor_K = 1` (C06)
    the tetrahedron CumDOS is NB once every FFT point of every K-point reports NB (`tetraCumDOS_above`), 0 when all
    report 0 (`tetraCumDOS_below`) … -/
theorem run_total_of_constant (Ks : List (Rat × List Rat)) (c : Rat)
    (hsum : (Ks.map (fun K => K.1)).sum = 1)
    (hK : ∀ K ∈ Ks, K.2 ≠ [] ∧ ∀ x ∈ K.2, x = c) : runTotal Ks = c :=
  runTotal_const Ks c hsum hK

/-- … and, the factors being non-negative, it is monotone in the per-point values (hence non-decreasing in the Fermi
    level and between 0 and NB). -/
theorem run_total_monotone (Ks Ks' : List (Rat × List Rat))
    (h : List.Forall₂ (fun K K' => K.1 = K'.1 ∧ 0 ≤ K.1 ∧ K.2.length = K'.2.length ∧ List.Forall₂ (· ≤ ·) K.2 K'.2) Ks Ks') :
    runTotal Ks ≤ runTotal Ks' :=
  runTotal_mono Ks Ks' h

/-! ## non-vacuity -/

/-- corners 0,1,2,3, Fermi level 3/2: half of the tetrahedron is below (both branches); DOS weight 3/4;
    (`mergeSort` is defined by well-founded recursion and does not reduce in the kernel, hence the rewrite) -/
example : weightsTetra (1 / 10 ^ 12 : Rat) 0 true 0 1 2 3 (3 / 2) = 1 / 2 := by
  unfold weightsTetra; rw [sort4_of_sorted (by norm_num) (by norm_num) (by norm_num)]; decide +kernel
example : weightsTetra (1 / 10 ^ 12 : Rat) 0 false 0 1 2 3 (3 / 2) = 1 / 2 := by
  unfold weightsTetra; rw [sort4_of_sorted (by norm_num) (by norm_num) (by norm_num)]; decide +kernel
example : weightsTetra (1 / 10 ^ 12 : Rat) 1 true 0 1 2 3 (3 / 2) = 3 / 4 := by
  unfold weightsTetra; rw [sort4_of_sorted (by norm_num) (by norm_num) (by norm_num)]; decide +kernel
/-- the hypotheses of `weightsTetra_is_spec_separated` are met by these corners -/
example : sort4 (0 : Rat) 1 2 3 = [0, 1, 2, 3] ∧ (1 / 10 ^ 12 : Rat) ≤ 1 - 0 :=
  ⟨sort4_of_sorted (by norm_num) (by norm_num) (by norm_num), by norm_num⟩
/-- coincident corners are separated -/
example : sep4 (1 / 8 : Rat) 1 1 1 2 = (1, 9 / 8, 5 / 4, 2) := by decide +kernel
/-- a 3-band k-point, Fermi window [0,1], all bands below ef = 1 (δ = 0, weights 1): CumDOS = 3 -/
example : tetraCumDOS (ofList [-2, 0, 1 / 2]) (ofList [-3, -1 / 4, 1 / 4]) (ofList [-1, 1 / 4, 3 / 4]) (1 / 100) 3 false
    0 1 (fun _ => 1) = 3 := by decide +kernel

end WB.C14
