/-
  C24 — wannierise returns a valid gauge honouring the windows: property theorems.

  Objects (all from `WB/Model/C24.lean`, the functions the correspondence run executes):
    frozenMask / outerMask / freeMask / assertOK / kSelected / idx   the mask logic of `wannierise`
    embed fz fr Uf                                                   `U[frozen, :nfrozen] = 1; U[free, nfrozen:] = U_opt_free`
    finalU sel nw E W                                                `U[:] = 0; U[selected] = U_loc · ZV`
  External kernels enter only through named hypotheses:
    `hUf : U_free† U_free = 1`   (contract of `numpy.linalg.eigh` used by `get_max_eig`)
    `hW  : W† W = 1`             (contract of `numpy.linalg.svd` used by `orthogonalize` on a square matrix)
    `hQ  : Q† Q = 1`, `Q · H = A`, `H · H' = 1`   (contract of `orthogonalize` on a full-column-rank NB × nW matrix)
  Scalars: any commutative star-ring (ℂ, ℝ included).
-/
import WB.Lemmas.C24
import Mathlib.LinearAlgebra.Matrix.SemiringInverse

namespace WB.C24
open WB.C15 Matrix

/-! ## T1 — masks -/

/-- T1a.  When the frozen window lies inside the outer window and the explicit `frozen_states` are selected bands,
    every frozen band is a selected band (so the code's `assert` cannot fire) — for every spectrum, threshold,
    and position of the window edges, including edges cutting multiplets. -/
theorem frozen_subset_selected (E : Nat → Rat) (th fmin fmax omin omax : Rat) (n : Nat) (extra : List Nat)
    (hmin : omin ≤ fmin) (hmax : fmax ≤ omax)
    (hextra : ∀ x ∈ extra, outerMask E th omin omax n x = true)
    (j : Nat) (hf : frozenMask E th fmin fmax n extra j = true) :
    outerMask E th omin omax n j = true := by
  unfold frozenMask at hf
  simp only [Bool.and_eq_true, Bool.or_eq_true, decide_eq_true_eq, List.contains_iff_mem] at hf
  obtain ⟨hj, h | h⟩ := hf
  · unfold outerMask
    simp only [Bool.and_eq_true, decide_eq_true_eq]
    refine ⟨hj, selectWindow_include_superset_aux E th omin omax n j hj ?_⟩
    exact inWindow_mono E fmin fmax omin omax j hmin hmax (selectWindow_false_inWindow E th fmin fmax n j h)
  · exact hextra j h

/-- T1a'.  The code's guard `assert np.all(selected_bands[frozen])` is exactly `frozen ⊆ selected`. -/
theorem assert_guard (n : Nat) (sel frozen : Nat → Bool) :
    assertOK n sel frozen = true ↔ ∀ j, j < n → frozen j = true → sel j = true :=
  assertOK_iff n sel frozen

/-- T1b.  `free ∩ frozen = ∅`, `free ⊆ selected`, and `free` is exactly "selected and not frozen". -/
theorem free_spec (n : Nat) (sel frozen : Nat → Bool) (j : Nat) :
    freeMask n sel frozen j = true ↔ j < n ∧ frozen j = false ∧ sel j = true := by
  rw [freeMask_eq]
  cases frozen j <;> cases sel j <;> simp

theorem free_disjoint_frozen (n : Nat) (sel frozen : Nat → Bool) (j : Nat)
    (h : freeMask n sel frozen j = true) : frozen j = false :=
  ((free_spec n sel frozen j).1 h).2.1

/-- T1c.  Once the guard has passed, the band set each k-point object works on (`frozen | free`) is exactly the
    outer-window selection: nothing outside `selected_bands` is ever addressed. -/
theorem kSelected_eq_selected (n : Nat) (sel frozen : Nat → Bool)
    (hsel : ∀ j, sel j = true → j < n) (hok : assertOK n sel frozen = true)
    (hfz : ∀ j, frozen j = true → j < n) (j : Nat) :
    kSelected frozen (freeMask n sel frozen) j = sel j := by
  unfold kSelected
  rw [freeMask_eq]
  have h1 := (assertOK_iff n sel frozen).1 hok j
  cases hf : frozen j <;> cases hs : sel j <;> simp
  · exact hsel j hs
  · have := h1 (hfz j hf) hf; rw [hs] at this; cases this

/-- the masks produced for a concrete spectrum: a doublet cut by the upper frozen edge is left out of the frozen
    set (include_degen=False), a doublet cut by the upper outer edge is kept whole (include_degen=True) -/
example :
    let E := ofList [0, 1, 1, 2, 3, 3, 4]
    (List.range 7).map (frozenMask E (1/100) 0 1 7 []) = [true, true, true, false, false, false, false] ∧
    (List.range 7).map (frozenMask E (1/100) 0 (1/2) 7 []) = [true, false, false, false, false, false, false] ∧
    (List.range 7).map (outerMask E (1/100) 0 3 7) = [true, true, true, true, true, true, false] ∧
    assertOK 7 (outerMask E (1/100) 0 3 7) (frozenMask E (1/100) 0 1 7 []) = true := by
  decide +kernel

/-! ## T2–T4 — the returned matrix -/

section
variable {K : Type} [CommRing K]

/-- the unit vector of the `j`-th frozen band is the `j`-th column of the embedding -/
theorem frozen_unit_is_column (fz fr : List Nat) (Uf : Nat → Nat → K) (nb nw : Nat)
    (hfzlt : ∀ b ∈ fz, b < nb) (j : Nat) (hj : j < fz.length) (hjw : j < nw) :
    (Pi.single (⟨fz[j], hfzlt _ (List.getElem_mem hj)⟩ : Fin nb) (1 : K))
      = Emat fz fr Uf nb nw *ᵥ Pi.single (⟨j, hjw⟩ : Fin nw) 1 := by
  rw [mulVec_single_one]
  ext b
  simp only [Matrix.col_apply, Emat, Matrix.of_apply, embed_frozen_col _ _ _ _ _ hj, Pi.single_apply]
  by_cases hb : fz[j] = b.val
  · rw [if_pos hb, if_pos (Fin.ext hb.symm)]
  · rw [if_neg hb, if_neg (fun h => hb (by rw [h]))]

/-- T4.  Rows of bands that are neither frozen nor free (i.e. outside the outer-window selection) are zero in
    `E·W`, whatever `U_free` and `W` are. -/
theorem outer_zero (fz fr : List Nat) (Uf : Nat → Nat → K) (nb nw : Nat)
    (W : Matrix (Fin nw) (Fin nw) K) (b : Fin nb) (h1 : b.val ∉ fz) (h2 : b.val ∉ fr) (w : Fin nw) :
    (Emat fz fr Uf nb nw * W) b w = 0 := by
  rw [Matrix.mul_apply]
  apply Finset.sum_eq_zero
  intro j _
  simp only [Emat, Matrix.of_apply, embed_zero_row fz fr Uf b.val j.val h1 h2, zero_mul]

/-- the matrix the model returns (`rotate_to_projections`: `U[:] = 0; U[selected] = U_loc·ZV`) is `E·W`
    when `selected = frozen ∪ free`, and it never writes a row outside `selected` -/
theorem finalU_eq_mul (fz fr : List Nat) (Uf : Nat → Nat → K) (nb nw : Nat) (sel : Nat → Bool)
    (hsel : ∀ b, sel b = true ↔ (b ∈ fz ∨ b ∈ fr))
    (W : Matrix (Fin nw) (Fin nw) K) (b : Fin nb) (w : Fin nw) :
    finalU sel nw (embed fz fr Uf) (fun i j => if h : i < nw ∧ j < nw then W ⟨i, h.1⟩ ⟨j, h.2⟩ else 0) b.val w.val
      = (Emat fz fr Uf nb nw * W) b w := by
  unfold finalU
  by_cases hb : sel b.val = true
  · rw [if_pos hb, sumTo_eq, Matrix.mul_apply, ← Fin.sum_univ_eq_sum_range
      (fun j => embed fz fr Uf b.val j * (if h : j < nw ∧ w.val < nw then W ⟨j, h.1⟩ ⟨w.val, h.2⟩ else 0)) nw]
    apply Finset.sum_congr rfl
    intro j _
    simp only [Emat, Matrix.of_apply]
    rw [dif_pos ⟨j.isLt, w.isLt⟩]
  · rw [if_neg hb]
    have hb' : b.val ∉ fz ∧ b.val ∉ fr := not_or.1 ((hsel b.val).not.1 hb)
    exact (outer_zero fz fr Uf nb nw W b hb'.1 hb'.2 w).symm

theorem finalU_zero_outside (sel : Nat → Bool) (nw : Nat) (Emb W : Nat → Nat → K) (b w : Nat)
    (h : sel b = false) : finalU sel nw Emb W b w = 0 := by
  unfold finalU; simp [h]

end

section
variable {K : Type} [CommRing K] [StarRing K]

/-- T2a.  The embedding `E = [e_frozen | U_free]` built by the code's two masked assignments has orthonormal
    columns whenever the index lists are duplicate-free, disjoint, within range, and `U_free† U_free = 1`
    (eigh contract).  Any number of bands, frozen bands, free bands and Wannier functions. -/
theorem embedding_isometry (fz fr : List Nat) (Uf : Nat → Nat → K) (nb ng : Nat)
    (hfz : fz.Nodup) (hfr : fr.Nodup) (hdisj : ∀ b ∈ fz, b ∉ fr)
    (hfzlt : ∀ b ∈ fz, b < nb) (hfrlt : ∀ b ∈ fr, b < nb)
    (hUf : (Ufmat Uf fr.length ng)ᴴ * Ufmat Uf fr.length ng = 1) :
    (Emat fz fr Uf nb (fz.length + ng))ᴴ * Emat fz fr Uf nb (fz.length + ng) = 1 :=
  Emat_isometry fz fr Uf nb ng hfz hfr hdisj hfzlt hfrlt hUf

/-- T2.  `U = E·W` with `E†E = 1` and `W†W = 1` (SVD contract) has orthonormal columns. -/
theorem isometry {m n : Type} [Fintype m] [Fintype n] [DecidableEq n]
    (E : Matrix m n K) (W : Matrix n n K) (hE : Eᴴ * E = 1) (hW : Wᴴ * W = 1) :
    (E * W)ᴴ * (E * W) = 1 := by
  rw [conjTranspose_mul, Matrix.mul_assoc, ← Matrix.mul_assoc Eᴴ, hE, Matrix.one_mul, hW]

/-- T3 (generic form).  With `W` unitary, `U U†` acts as the identity on every vector of the column space of `E`. -/
theorem projector_fixes_range {m n : Type} [Fintype m] [Fintype n] [DecidableEq n]
    (E : Matrix m n K) (W : Matrix n n K) (hE : Eᴴ * E = 1) (hW : Wᴴ * W = 1) (c : n → K) :
    ((E * W) * (E * W)ᴴ) *ᵥ (E *ᵥ c) = E *ᵥ c := by
  have hW' : W * Wᴴ = 1 := mul_eq_one_comm.1 hW
  rw [conjTranspose_mul, Matrix.mul_assoc, ← Matrix.mul_assoc W, hW', Matrix.one_mul, mulVec_mulVec,
    Matrix.mul_assoc, hE, Matrix.mul_one]

/-- T3.  Every frozen state lies completely in the span of the returned matrix: `U U† e_f = e_f`
    for every frozen band `f` (`U = E·W`, `W` unitary, `E` the code's embedding). -/
theorem frozen_in_span (fz fr : List Nat) (Uf : Nat → Nat → K) (nb ng : Nat)
    (hfz : fz.Nodup) (hfr : fr.Nodup) (hdisj : ∀ b ∈ fz, b ∉ fr)
    (hfzlt : ∀ b ∈ fz, b < nb) (hfrlt : ∀ b ∈ fr, b < nb)
    (hUf : (Ufmat Uf fr.length ng)ᴴ * Ufmat Uf fr.length ng = 1)
    (W : Matrix (Fin (fz.length + ng)) (Fin (fz.length + ng)) K) (hW : Wᴴ * W = 1)
    (j : Nat) (hj : j < fz.length) :
    let U := Emat fz fr Uf nb (fz.length + ng) * W
    (U * Uᴴ) *ᵥ (Pi.single (⟨fz[j], hfzlt _ (List.getElem_mem hj)⟩ : Fin nb) (1 : K))
      = Pi.single (⟨fz[j], hfzlt _ (List.getElem_mem hj)⟩ : Fin nb) 1 := by
  intro U
  have hE := Emat_isometry fz fr Uf nb ng hfz hfr hdisj hfzlt hfrlt hUf
  rw [frozen_unit_is_column fz fr Uf nb (fz.length + ng) hfzlt j hj (by omega)]
  exact projector_fixes_range _ W hE hW _

/-- T2–T4 for the `localise=True` update and any further `orthogonalize`: if `Q` is the polar isometry of
    `A = E·W` (`Q†Q = 1`, `Q·H = A` with `H` invertible — the SVD contract for a matrix of full column rank) and
    `W` is invertible, then `Q` still contains every frozen state in its span and still vanishes on deselected rows. -/
theorem orthogonalised_keeps_constraints (fz fr : List Nat) (Uf : Nat → Nat → K) (nb nw : Nat)
    (hfzlt : ∀ b ∈ fz, b < nb)
    (W W' H H' : Matrix (Fin nw) (Fin nw) K) (Q : Matrix (Fin nb) (Fin nw) K)
    (hQ : Qᴴ * Q = 1) (hpolar : Q * H = Emat fz fr Uf nb nw * W) (hH : H * H' = 1) (hW : W * W' = 1) :
    (∀ j (hj : j < fz.length) (_ : j < nw),
        (Q * Qᴴ) *ᵥ (Pi.single (⟨fz[j], hfzlt _ (List.getElem_mem hj)⟩ : Fin nb) (1 : K))
          = Pi.single (⟨fz[j], hfzlt _ (List.getElem_mem hj)⟩ : Fin nb) 1) ∧
    (∀ (b : Fin nb), b.val ∉ fz → b.val ∉ fr → ∀ w, Q b w = 0) := by
  have hQE : Q = Emat fz fr Uf nb nw * (W * H') := by
    rw [← Matrix.mul_assoc, ← hpolar, Matrix.mul_assoc, hH, Matrix.mul_one]
  have hEQ : Emat fz fr Uf nb nw = Q * (H * W') := by
    rw [← Matrix.mul_assoc, hpolar, Matrix.mul_assoc, hW, Matrix.mul_one]
  constructor
  · intro j hj hjw
    rw [frozen_unit_is_column fz fr Uf nb nw hfzlt j hj hjw]
    conv_lhs => rw [hEQ]
    conv_rhs => rw [hEQ]
    rw [mulVec_mulVec, ← Matrix.mul_assoc, Matrix.mul_assoc Q Qᴴ, hQ, Matrix.mul_one]
  · intro b h1 h2 w
    rw [hQE]
    exact outer_zero fz fr Uf nb nw (W * H') b h1 h2 w

/-- C24, assembled for one k-point.  Take any spectrum, windows and explicit frozen list for which the code's
    guard passes; let `fz`, `fr` be the index lists the code derives from its masks; let `U_free` have orthonormal
    columns (eigh contract) and `W` be unitary (SVD contract).  Then `U = E·W`
    (1) has orthonormal columns, (2) satisfies `U U† e_f = e_f` for every frozen band `f`,
    (3) is zero on every band outside the outer-window selection. -/
theorem wannierise_gauge_valid (E : Nat → Rat) (th fmin fmax omin omax : Rat) (n : Nat) (extra : List Nat)
    (ng : Nat) (Uf : Nat → Nat → K)
    (hok : assertOK n (outerMask E th omin omax n) (frozenMask E th fmin fmax n extra) = true) :
    let frozen := frozenMask E th fmin fmax n extra
    let sel := outerMask E th omin omax n
    let fz := idx n frozen
    let fr := idx n (freeMask n sel frozen)
    ∀ (_ : (Ufmat Uf fr.length ng)ᴴ * Ufmat Uf fr.length ng = 1)
      (W : Matrix (Fin (fz.length + ng)) (Fin (fz.length + ng)) K) (_ : Wᴴ * W = 1),
      let U := Emat fz fr Uf n (fz.length + ng) * W
      Uᴴ * U = 1 ∧
      (∀ f : Fin n, frozen f.val = true → (U * Uᴴ) *ᵥ Pi.single f (1 : K) = Pi.single f 1) ∧
      (∀ b : Fin n, sel b.val = false → ∀ w, U b w = 0) := by
  intro frozen sel fz fr hUf W hW U
  have hfzN : fz.Nodup := idx_nodup n frozen
  have hfrN : fr.Nodup := idx_nodup n _
  have hfzlt : ∀ b ∈ fz, b < n := fun b hb => ((mem_idx n frozen b).1 hb).1
  have hfrlt : ∀ b ∈ fr, b < n := fun b hb => ((mem_idx n _ b).1 hb).1
  have hdisj : ∀ b ∈ fz, b ∉ fr := by
    intro b hb hb'
    have h1 := ((mem_idx n frozen b).1 hb).2
    have h2 := free_disjoint_frozen n sel frozen b ((mem_idx n _ b).1 hb').2
    rw [h1] at h2; cases h2
  have hE := Emat_isometry fz fr Uf n ng hfzN hfrN hdisj hfzlt hfrlt hUf
  refine ⟨isometry _ W hE hW, ?_, ?_⟩
  · intro f hf
    have hmem : f.val ∈ fz := (mem_idx n frozen f.val).2 ⟨f.isLt, hf⟩
    obtain ⟨j, hj, hjf⟩ := List.getElem_of_mem hmem
    have := frozen_in_span fz fr Uf n ng hfzN hfrN hdisj hfzlt hfrlt hUf W hW j hj
    have hfe : (⟨fz[j], hfzlt _ (List.getElem_mem hj)⟩ : Fin n) = f := Fin.ext hjf
    rw [hfe] at this
    exact this
  · intro b hb w
    apply outer_zero
    · intro hmem
      have h1 := ((mem_idx n frozen b.val).1 hmem).2
      have := (assertOK_iff n sel frozen).1 hok b.val b.isLt h1
      rw [hb] at this; cases this
    · intro hmem
      have := ((free_spec n sel frozen b.val).1 ((mem_idx n _ b.val).1 hmem).2).2.2
      rw [hb] at this; cases this

end

/-- non-vacuity of the hypotheses of T2–T4: 5 bands, frozen bands {1,2}, free bands {0,3}, one free Wannier
    function `U_free = (3/5, 4/5)ᵀ`; the embedding has orthonormal columns over ℚ (star = id). -/
example :
    let E : Nat → Nat → Rat := embed [1, 2] [0, 3] (ofMat [[3/5], [4/5]])
    (List.range 3).map (fun w => (List.range 3).map (fun w' =>
        sumTo 5 (fun b => E b w * E b w'))) = [[1, 0, 0], [0, 1, 0], [0, 0, 1]] ∧
    (List.range 5).map (fun b => (List.range 3).map (E b))
      = [[0, 0, 3/5], [1, 0, 0], [0, 1, 0], [0, 0, 4/5], [0, 0, 0]] := by
  decide +kernel

end WB.C24
