/-
  C24 — wannierise returns a valid gauge honouring the windows: property theorems.

  Objects (all from `WB/Model/C24.lean`, the functions the correspondence run executes):
    frozenMask / outerMask / freeMask / assertOK / kSelected / idx   the mask logic of `wannierise`
    embed fz fr Uf                                                   `U[frozen, :nfrozen] = 1; U[free, nfrozen:] = U_opt_free`
    finalU sel nw E W                                                `U[:] = 0; U[selected] = U_loc · ZV`
  External kernels enter only through named hypotheses:
    `hUf : U_free† U_free = 1`   (contract of `numpy.linalg.eigh` used by `get_max_eig`)
    `hW  : W† W = 1`             (contract of `numpy.linalg.svd` used by `orthogonalize` on a square matrix)
    `hQ  : Q† Q = 1`, `Q · H = A`, `H · H' = 1`   (contract of `orthogonalize` on a full-column-rank NB × nW matrix)
  Scalars: any commutative star-ring (ℂ, ℝ included).
-/
import WB.Lemmas.C24Iter

namespace WB.C24
open WB.C15 Matrix

/-! ## T1 — masks -/

/-- T1a.  When the frozen window lies inside the outer window and the explicit `frozen_states` are selected bands,
    every frozen band is a selected band (so the code's `assert` cannot fire) — for every spectrum, threshold,
    and position of the window edges, including edges cutting multiplets. -/
theorem frozen_subset_selected (E : Nat → Rat) (th fmin fmax omin omax : Rat) (n : Nat) (extra : List Nat)
    (hmin : omin ≤ fmin) (hmax : fmax ≤ omax)
    (hextra : ∀ x ∈ extra, outerMask E th omin omax n x = true)
    (j : Nat) (hf : frozenMask E th fmin fmax n extra j = true) :
    outerMask E th omin omax n j = true := by
  unfold frozenMask at hf
  simp only [Bool.and_eq_true, Bool.or_eq_true, decide_eq_true_eq, List.contains_iff_mem] at hf
  obtain ⟨hj, h | h⟩ := hf
  · unfold outerMask
    simp only [Bool.and_eq_true, decide_eq_true_eq]
    refine ⟨hj, selectWindow_include_superset_aux E th omin omax n j hj ?_⟩
    exact inWindow_mono E fmin fmax omin omax j hmin hmax (selectWindow_false_inWindow E th fmin fmax n j h)
  · exact hextra j h

/-- T1a'.  The code's guard `assert np.all(selected_bands[frozen])` is exactly `frozen ⊆ selected`. -/
theorem assert_guard (n : Nat) (sel frozen : Nat → Bool) :
    assertOK n sel frozen = true ↔ ∀ j, j < n → frozen j = true → sel j = true :=
  assertOK_iff n sel frozen

/-- T1b.  `free ∩ frozen = ∅`, `free ⊆ selected`, and `free` is exactly "selected and not frozen". -/
theorem free_spec (n : Nat) (sel frozen : Nat → Bool) (j : Nat) :
    freeMask n sel frozen j = true ↔ j < n ∧ frozen j = false ∧ sel j = true := by
  rw [freeMask_eq]
  cases frozen j <;> cases sel j <;> simp

theorem free_disjoint_frozen (n : Nat) (sel frozen : Nat → Bool) (j : Nat)
    (h : freeMask n sel frozen j = true) : frozen j = false :=
  ((free_spec n sel frozen j).1 h).2.1

/-- T1c.  Once the guard has passed, the band set each k-point object works on (`frozen | free`) is exactly the
    outer-window selection: nothing outside `selected_bands` is ever addressed. -/
theorem kSelected_eq_selected (n : Nat) (sel frozen : Nat → Bool)
    (hsel : ∀ j, sel j = true → j < n) (hok : assertOK n sel frozen = true)
    (hfz : ∀ j, frozen j = true → j < n) (j : Nat) :
    kSelected frozen (freeMask n sel frozen) j = sel j := by
  unfold kSelected
  rw [freeMask_eq]
  have h1 := (assertOK_iff n sel frozen).1 hok j
  cases hf : frozen j <;> cases hs : sel j <;> simp
  · exact hsel j hs
  · have := h1 (hfz j hf) hf; rw [hs] at this; cases this

/-- the masks produced for a concrete spectrum: a doublet cut by the upper frozen edge is left out of the frozen
    set (include_degen=False), a doublet cut by the upper outer edge is kept whole (include_degen=True) -/
example :
    let E := ofList [0, 1, 1, 2, 3, 3, 4]
    (List.range 7).map (frozenMask E (1/100) 0 1 7 []) = [true, true, true, false, false, false, false] ∧
    (List.range 7).map (frozenMask E (1/100) 0 (1/2) 7 []) = [true, false, false, false, false, false, false] ∧
    (List.range 7).map (outerMask E (1/100) 0 3 7) = [true, true, true, true, true, true, false] ∧
    assertOK 7 (outerMask E (1/100) 0 3 7) (frozenMask E (1/100) 0 1 7 []) = true := by
  decide +kernel

/-! ## T1d — explicit `frozen_states` and irreducible k-points -/

/-- the list form freezes the listed bands at EVERY row of the mask array, i.e. at every irreducible k-point whatever
    its global index -/
theorem explicit_list_applies_everywhere (l : List Nat) (kptirr : List Nat) (iki : Nat) :
    explicitFrozen (.all l) kptirr iki = l := rfl

/-- the dictionary form is keyed by the GLOBAL k-point index: band `b` is explicitly frozen at row `iki` iff some entry
    whose key equals `kptirr[iki]` lists it -/
theorem explicit_dict_by_global_index (d : List (Nat × List Nat)) (kptirr : List Nat) (iki : Nat) (hk : iki < kptirr.length)
    (b : Nat) :
    b ∈ explicitFrozen (.perK d) kptirr iki ↔ ∃ e ∈ d, e.1 = kptirr[iki] ∧ b ∈ e.2 := by
  unfold explicitFrozen
  simp only [List.getElem?_eq_getElem hk, List.mem_flatMap, List.mem_filter, beq_iff_eq]
  constructor
  · rintro ⟨e, ⟨he, hk⟩, hb⟩; exact ⟨e, he, hk, hb⟩
  · rintro ⟨e, he, hk, hb⟩; exact ⟨e, ⟨he, hk⟩, hb⟩

/-- counterexample for "position in the irreducible list": rewriting the list form as a dictionary over the positions
    `0 … NKirr−1` is NOT the same thing once the irreducible k-points are not the first ones (`kptirr = [0, 1, 3]`,
    diamond 2×2×2): the third irreducible point (global index 3) loses its explicitly frozen bands -/
theorem list_form_is_not_dict_over_positions :
    explicitFrozen (.all [0, 1, 2, 3]) [0, 1, 3] 2 = [0, 1, 2, 3] ∧
    explicitFrozen (.perK [(0, [0, 1, 2, 3]), (1, [0, 1, 2, 3]), (2, [0, 1, 2, 3])]) [0, 1, 3] 2 = [] := by
  decide

/-! ## T2–T4 — the returned matrix -/

section
variable {K : Type} [CommRing K]

/-- the unit vector of the `j`-th frozen band is the `j`-th column of the embedding -/
theorem frozen_unit_is_column (fz fr : List Nat) (Uf : Nat → Nat → K) (nb nw : Nat)
    (hfzlt : ∀ b ∈ fz, b < nb) (j : Nat) (hj : j < fz.length) (hjw : j < nw) :
    (Pi.single (⟨fz[j], hfzlt _ (List.getElem_mem hj)⟩ : Fin nb) (1 : K))
      = Emat fz fr Uf nb nw *ᵥ Pi.single (⟨j, hjw⟩ : Fin nw) 1 :=
  Core.frozen_unit_is_column fz fr Uf nb nw hfzlt j hj hjw

/-- T4.  Rows of bands that are neither frozen nor free (i.e. outside the outer-window selection) are zero in
    `E·W`, whatever `U_free` and `W` are. -/
theorem outer_zero (fz fr : List Nat) (Uf : Nat → Nat → K) (nb nw : Nat)
    (W : Matrix (Fin nw) (Fin nw) K) (b : Fin nb) (h1 : b.val ∉ fz) (h2 : b.val ∉ fr) (w : Fin nw) :
    (Emat fz fr Uf nb nw * W) b w = 0 :=
  Core.outer_zero fz fr Uf nb nw W b h1 h2 w

/-- the matrix the model returns (`rotate_to_projections`: `U[:] = 0; U[selected] = U_loc·ZV`) is `E·W`
    when `selected = frozen ∪ free`, and it never writes a row outside `selected` -/
theorem finalU_eq_mul (fz fr : List Nat) (Uf : Nat → Nat → K) (nb nw : Nat) (sel : Nat → Bool)
    (hsel : ∀ b, sel b = true ↔ (b ∈ fz ∨ b ∈ fr))
    (W : Matrix (Fin nw) (Fin nw) K) (b : Fin nb) (w : Fin nw) :
    finalU sel nw (embed fz fr Uf) (fun i j => if h : i < nw ∧ j < nw then W ⟨i, h.1⟩ ⟨j, h.2⟩ else 0) b.val w.val
      = (Emat fz fr Uf nb nw * W) b w :=
  Core.finalU_eq_mul fz fr Uf nb nw sel hsel W b w

theorem finalU_zero_outside (sel : Nat → Bool) (nw : Nat) (Emb W : Nat → Nat → K) (b w : Nat)
    (h : sel b = false) : finalU sel nw Emb W b w = 0 :=
  Core.finalU_zero_outside sel nw Emb W b w h

end

section
variable {K : Type} [CommRing K] [StarRing K]

/-- T2a.  The embedding `E = [e_frozen | U_free]` built by the code's two masked assignments has orthonormal
    columns whenever the index lists are duplicate-free, disjoint, within range, and `U_free† U_free = 1`
    (eigh contract).  Any number of bands, frozen bands, free bands and Wannier functions. -/
theorem embedding_isometry (fz fr : List Nat) (Uf : Nat → Nat → K) (nb ng : Nat)
    (hfz : fz.Nodup) (hfr : fr.Nodup) (hdisj : ∀ b ∈ fz, b ∉ fr)
    (hfzlt : ∀ b ∈ fz, b < nb) (hfrlt : ∀ b ∈ fr, b < nb)
    (hUf : (Ufmat Uf fr.length ng)ᴴ * Ufmat Uf fr.length ng = 1) :
    (Emat fz fr Uf nb (fz.length + ng))ᴴ * Emat fz fr Uf nb (fz.length + ng) = 1 :=
  Emat_isometry fz fr Uf nb ng hfz hfr hdisj hfzlt hfrlt hUf

/-- T2.  `U = E·W` with `E†E = 1` and `W†W = 1` (SVD contract) has orthonormal columns. -/
theorem isometry {m n : Type} [Fintype m] [Fintype n] [DecidableEq n]
    (E : Matrix m n K) (W : Matrix n n K) (hE : Eᴴ * E = 1) (hW : Wᴴ * W = 1) :
    (E * W)ᴴ * (E * W) = 1 :=
  Core.isometry E W hE hW

/-- T3 (generic form).  With `W` unitary, `U U†` acts as the identity on every vector of the column space of `E`. -/
theorem projector_fixes_range {m n : Type} [Fintype m] [Fintype n] [DecidableEq n]
    (E : Matrix m n K) (W : Matrix n n K) (hE : Eᴴ * E = 1) (hW : Wᴴ * W = 1) (c : n → K) :
    ((E * W) * (E * W)ᴴ) *ᵥ (E *ᵥ c) = E *ᵥ c :=
  Core.projector_fixes_range E W hE hW c

/-- T3.  Every frozen state lies completely in the span of the returned matrix: `U U† e_f = e_f`
    for every frozen band `f` (`U = E·W`, `W` unitary, `E` the code's embedding). -/
theorem frozen_in_span (fz fr : List Nat) (Uf : Nat → Nat → K) (nb ng : Nat)
    (hfz : fz.Nodup) (hfr : fr.Nodup) (hdisj : ∀ b ∈ fz, b ∉ fr)
    (hfzlt : ∀ b ∈ fz, b < nb) (hfrlt : ∀ b ∈ fr, b < nb)
    (hUf : (Ufmat Uf fr.length ng)ᴴ * Ufmat Uf fr.length ng = 1)
    (W : Matrix (Fin (fz.length + ng)) (Fin (fz.length + ng)) K) (hW : Wᴴ * W = 1)
    (j : Nat) (hj : j < fz.length) :
    let U := Emat fz fr Uf nb (fz.length + ng) * W
    (U * Uᴴ) *ᵥ (Pi.single (⟨fz[j], hfzlt _ (List.getElem_mem hj)⟩ : Fin nb) (1 : K))
      = Pi.single (⟨fz[j], hfzlt _ (List.getElem_mem hj)⟩ : Fin nb) 1 :=
  Core.frozen_in_span fz fr Uf nb ng hfz hfr hdisj hfzlt hfrlt hUf W hW j hj

/-- T2–T4 for the `localise=True` update and any further `orthogonalize`: if `Q` is the polar isometry of
    `A = E·W` (`Q†Q = 1`, `Q·H = A` with `H` invertible — the SVD contract for a matrix of full column rank) and
    `W` is invertible, then `Q` still contains every frozen state in its span and still vanishes on deselected rows. -/
theorem orthogonalised_keeps_constraints (fz fr : List Nat) (Uf : Nat → Nat → K) (nb nw : Nat)
    (hfzlt : ∀ b ∈ fz, b < nb)
    (W W' H H' : Matrix (Fin nw) (Fin nw) K) (Q : Matrix (Fin nb) (Fin nw) K)
    (hQ : Qᴴ * Q = 1) (hpolar : Q * H = Emat fz fr Uf nb nw * W) (hH : H * H' = 1) (hW : W * W' = 1) :
    (∀ j (hj : j < fz.length) (_ : j < nw),
        (Q * Qᴴ) *ᵥ (Pi.single (⟨fz[j], hfzlt _ (List.getElem_mem hj)⟩ : Fin nb) (1 : K))
          = Pi.single (⟨fz[j], hfzlt _ (List.getElem_mem hj)⟩ : Fin nb) 1) ∧
    (∀ (b : Fin nb), b.val ∉ fz → b.val ∉ fr → ∀ w, Q b w = 0) :=
  Core.orthogonalised_keeps_constraints fz fr Uf nb nw hfzlt W W' H H' Q hQ hpolar hH hW

/-- C24, assembled for one k-point.  Take any spectrum, windows and explicit frozen list for which the code's
    guard passes; let `fz`, `fr` be the index lists the code derives from its masks; let `U_free` have orthonormal
    columns (eigh contract) and `W` be unitary (SVD contract).  Then `U = E·W`
    (1) has orthonormal columns, (2) satisfies `U U† e_f = e_f` for every frozen band `f`,
    (3) is zero on every band outside the outer-window selection. -/
theorem wannierise_gauge_valid (E : Nat → Rat) (th fmin fmax omin omax : Rat) (n : Nat) (extra : List Nat)
    (ng : Nat) (Uf : Nat → Nat → K)
    (hok : assertOK n (outerMask E th omin omax n) (frozenMask E th fmin fmax n extra) = true) :
    let frozen := frozenMask E th fmin fmax n extra
    let sel := outerMask E th omin omax n
    let fz := idx n frozen
    let fr := idx n (freeMask n sel frozen)
    ∀ (_ : (Ufmat Uf fr.length ng)ᴴ * Ufmat Uf fr.length ng = 1)
      (W : Matrix (Fin (fz.length + ng)) (Fin (fz.length + ng)) K) (_ : Wᴴ * W = 1),
      let U := Emat fz fr Uf n (fz.length + ng) * W
      Uᴴ * U = 1 ∧
      (∀ f : Fin n, frozen f.val = true → (U * Uᴴ) *ᵥ Pi.single f (1 : K) = Pi.single f 1) ∧
      (∀ b : Fin n, sel b.val = false → ∀ w, U b w = 0) := by
  intro frozen sel fz fr hUf W hW U
  have hfzN : fz.Nodup := idx_nodup n frozen
  have hfrN : fr.Nodup := idx_nodup n _
  have hfzlt : ∀ b ∈ fz, b < n := fun b hb => ((mem_idx n frozen b).1 hb).1
  have hfrlt : ∀ b ∈ fr, b < n := fun b hb => ((mem_idx n _ b).1 hb).1
  have hdisj : ∀ b ∈ fz, b ∉ fr := by
    intro b hb hb'
    have h1 := ((mem_idx n frozen b).1 hb).2
    have h2 := free_disjoint_frozen n sel frozen b ((mem_idx n _ b).1 hb').2
    rw [h1] at h2; cases h2
  have hE := Emat_isometry fz fr Uf n ng hfzN hfrN hdisj hfzlt hfrlt hUf
  refine ⟨isometry _ W hE hW, ?_, ?_⟩
  · intro f hf
    have hmem : f.val ∈ fz := (mem_idx n frozen f.val).2 ⟨f.isLt, hf⟩
    obtain ⟨j, hj, hjf⟩ := List.getElem_of_mem hmem
    have := frozen_in_span fz fr Uf n ng hfzN hfrN hdisj hfzlt hfrlt hUf W hW j hj
    have hfe : (⟨fz[j], hfzlt _ (List.getElem_mem hj)⟩ : Fin n) = f := Fin.ext hjf
    rw [hfe] at this
    exact this
  · intro b hb w
    apply outer_zero
    · intro hmem
      have h1 := ((mem_idx n frozen b.val).1 hmem).2
      have := (assertOK_iff n sel frozen).1 hok b.val b.isLt h1
      rw [hb] at this; cases this
    · intro hmem
      have := ((free_spec n sel frozen b.val).1 ((mem_idx n _ b.val).1 hmem).2).2.2
      rw [hb] at this; cases this

end

/-! ## T5 — the update loop: the invariants after every iteration

  Model: `updateK` (one call of `Kpoint_and_neighbours.update`: `calc_Z` from the neighbours' matrices and the overlaps,
  Z-mixing, `get_max_eig`, assembly `[e_frozen | U_free]`, then either `rotate_to_projections` or the localisation branch
  `orthogonalize(E · orthogonalize(inv(M_loc)^†))`), `initK` (`__init__`), `stepAll` / `runIter` (the loop of `wannierise`
  with `U_neigh` taken from the previous sweep).  Kernels are parameters; their contracts are `Contracts`. -/

section
variable {K : Type} [Field K] [StarRing K]

/-- T5a.  One call of `update` — any neighbour matrices, overlaps, phases, mixing with a Hermitian `Zold`, either branch —
    returns a matrix with the three invariants, and a Hermitian `Z`.  Contracts used: `eig_orthonormal` (on the Hermitian
    `Z`, proved Hermitian here), `polarSq_unitary` (both branches), `polarTall_fullrank` (localisation branch only, applied
    to `E·W`, which is shown to have the left inverse `W†E†`). -/
theorem update_keeps_invariants (ker : Kernels K) (hker : Contracts ker) (d : KData K) (hd : Valid d) (localise : Bool)
    (mixing : Option (K × K × (Nat → Nat → K))) (hmix : MixOK d.fr.length mixing)
    (Unb : Nat → Nat → Nat → K) (phase : Nat → Nat → K) :
    Inv3 d (updateK ker star d localise mixing Unb phase).1 ∧
      HermFn d.fr.length (updateK ker star d localise mixing Unb phase).2 :=
  updateK_inv3 ker hker d hd localise mixing hmix Unb phase

/-- T5b.  The initial gauge (`__init__`: eigenvectors of `A_free A_free†`, then `rotate_to_projections`) has the
    invariants for ANY projection matrix, rank-deficient ones included — because the only matrix that is orthogonalised
    is the square `U_loc† A`. -/
theorem init_has_invariants (ker : Kernels K) (hker : Contracts ker) (d : KData K) (hd : Valid d) :
    Inv3 d (initK ker star d) :=
  initK_inv3 ker hker d hd

/-- T5.  `wannierise_invariant_all_iterations`: for every number of iterations `n`, every k-point, every neighbour table,
    every overlap / projection / weight data (`Valid`: the index lists come from the masks, `#frozen ≤ num_wann ≤
    #selected`, real weights), any phase array computed from the previous state, `localise` on or off, with or without
    Z-mixing (real `mix_ratio`): the matrix held after `n` sweeps has orthonormal columns, contains every frozen state
    in its span and vanishes on every band outside the selection. -/
theorem wannierise_invariant_all_iterations (ker : Kernels K) (hker : Contracts ker)
    (d : Nat → KData K) (hd : ∀ k, Valid (d k)) (nbr : Nat → Nat → Nat) (localise : Bool) (mix : Option (K × K))
    (hmix : ∀ m om, mix = some (m, om) → star m = m ∧ star om = om)
    (phaseOf : (Nat → KState K) → Nat → Nat → Nat → K) (n k : Nat) :
    Inv3 (d k) ((runIter ker star d nbr localise mix phaseOf n) k).U := by
  have h : ∀ n, StateOK d (runIter ker star d nbr localise mix phaseOf n) := by
    intro n
    induction n with
    | zero => exact initAll_ok ker hker d hd
    | succ n ih => exact stepAll_ok ker hker d hd nbr localise mix hmix phaseOf _ ih
  exact (h n k).1

/-- T5c (the square-factor contract is necessary).  With `E†E = 1`, `U = E·W` has orthonormal columns IF AND ONLY IF
    `W†W = 1`: an `orthogonalize` that is not unitary on some (e.g. rank-deficient) square argument — such as the
    Löwdin formula `u (u†u)^(-1/2)` with clipped eigenvalues — breaks the isometry exactly there. -/
theorem isometry_iff_square_factor_unitary {m n : Type} [Fintype m] [Fintype n] [DecidableEq n]
    (E : Matrix m n K) (W : Matrix n n K) (hE : Eᴴ * E = 1) :
    (E * W)ᴴ * (E * W) = 1 ↔ Wᴴ * W = 1 := by
  rw [conjTranspose_mul, Matrix.mul_assoc, ← Matrix.mul_assoc Eᴴ, hE, Matrix.one_mul]

end

/-- T5d (why the full-rank hypothesis of the tall polar contract cannot be dropped, and why the code orthogonalises the
    SQUARE matrix `U_loc† A` instead of the tall product `U_loc (U_loc† A)`).  Two bands, one Wannier function, band 0
    frozen, projection orthogonal to the selected subspace (`U_loc† A = 0`, rank deficient).  The tall product is the zero
    matrix; `Q = e_1`, `H = 0` is a legitimate SVD polar pair for it (`Q†Q = 1`, `Q·H = A`), and the frozen state is
    then completely outside the span of `Q`, whereas the square route gives `U = E · 1 = e_0`. -/
theorem rank_deficient_tall_polar_can_lose_frozen_state :
    ∃ (Q : Matrix (Fin 2) (Fin 1) ℚ) (H : Matrix (Fin 1) (Fin 1) ℚ),
      Qᴴ * Q = 1 ∧ Q * H = Emat [0] [] (fun _ _ => (0 : ℚ)) 2 1 * (0 : Matrix (Fin 1) (Fin 1) ℚ) ∧
      (Q * Qᴴ) *ᵥ Pi.single (0 : Fin 2) (1 : ℚ) ≠ Pi.single 0 1 := by
  refine ⟨Matrix.of ![![0], ![1]], 0, ?_, ?_, ?_⟩
  · ext i j
    fin_cases i; fin_cases j
    simp [Matrix.mul_apply, Fin.sum_univ_two]
  · simp
  · intro h
    have := congrFun h 0
    simp [Matrix.mulVec, dotProduct, Matrix.mul_apply] at this

/-- non-vacuity of `Valid`: a two-band k-point with one frozen and one free band (executed instances of one update step
    with concrete kernel outputs are the `update` lines of the correspondence run) -/
example : Valid ({ nb := 2, nw := 1, nnb := 1, fz := [0], fr := [1], fzNb := fun _ => [0], frNb := fun _ => [1],
                   M := fun _ _ _ => (1 : ℚ), wb := fun _ => 1, amn := fun _ _ => 1 } : KData ℚ) :=
  { fz_nodup := by simp, fr_nodup := by simp, disj := by simp, fz_lt := by simp, fr_lt := by simp,
    nfz_le := by simp, nw_le := by simp, wb_real := by intro _; simp }

/-- non-vacuity of the hypotheses of T2–T4: 5 bands, frozen bands {1,2}, free bands {0,3}, one free Wannier
    function `U_free = (3/5, 4/5)ᵀ`; the embedding has orthonormal columns over ℚ (star = id). -/
example :
    let E : Nat → Nat → Rat := embed [1, 2] [0, 3] (ofMat [[3/5], [4/5]])
    (List.range 3).map (fun w => (List.range 3).map (fun w' =>
        sumTo 5 (fun b => E b w * E b w'))) = [[1, 0, 0], [0, 1, 0], [0, 0, 1]] ∧
    (List.range 5).map (fun b => (List.range 3).map (E b))
      = [[0, 0, 3/5], [1, 0, 0], [0, 1, 0], [0, 0, 4/5], [0, 0, 0]] := by
  decide +kernel

end WB.C24
