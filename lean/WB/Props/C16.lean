/-
  C16 — property theorems: results behave as vectors (element-wise +, −, scaling; void neutral), the symmetry
  transformation distributes over + and commutes with real scaling, band-resolved results add by concatenating
  k-points, dictionaries lift the operations key by key, and the saved form of an energy result loads back to
  the same energies, data, rank, transformations and comment.   `K` is any field, `σ` any ring endomorphism
  of it (complex conjugation on ℂ, the identity on ℝ).
-/
import WB.Lemmas.C16

namespace WB.C16

variable {K : Type} [Field K]

/-! ## energy-resolved results: element-wise vector operations -/

/-- T1a (scaling).  `r * c` scales every data element and keeps every other attribute. -/
theorem eres_mul_spec (a : ERes K) (c : K) :
    (∀ t, (a.mul c).data t = a.data t * c) ∧ (a.mul c).energies = a.energies ∧ (a.mul c).shape = a.shape ∧
    (a.mul c).rank = a.rank ∧ (a.mul c).tTR = a.tTR ∧ (a.mul c).tInv = a.tInv ∧
    (a.mul c).smoothers = a.smoothers ∧ (a.mul c).comment = a.comment ∧ (a.mul c).titles = a.titles :=
  ⟨fun _ => rfl, rfl, rfl, rfl, rfl, rfl, rfl, rfl, rfl⟩

/-- T1b (division) `r / c` divides every element (the code multiplies by `1/c`). -/
theorem eres_div_data (a : ERes K) (c : K) (t : Nat → Nat) : (a.div c).data t = a.data t / c := by
  simp [ERes.div, ERes.mul, scaleData, div_eq_mul_inv]

/-- T1c (addition).  Whenever `a + b` is defined its data are the element-wise sums and energies, shape, rank,
    transformations, smoothers and titles are those of `a`. -/
theorem eres_add_spec (a b r : ERes K) (h : a.add b = .ok r) :
    (∀ t, r.data t = a.data t + b.data t) ∧ r.energies = a.energies ∧ r.shape = a.shape ∧ r.rank = a.rank ∧
    r.tTR = a.tTR ∧ r.tInv = a.tInv ∧ r.smoothers = a.smoothers ∧ r.titles = a.titles ∧
    (r.comment = a.comment ∨ r.comment = b.comment) := by
  obtain ⟨_, _, rfl⟩ := add_ok_inv a b r h
  refine ⟨fun _ => rfl, rfl, rfl, rfl, rfl, rfl, rfl, rfl, ?_⟩
  simp only [addOk]
  split
  · left; rfl
  · right; rfl

/-- T1c' `a + b` is defined when the transformations do not clash, the energies agree (to 1e-8) and the
    smoothers are equal. -/
theorem eres_add_defined (a b : ERes K)
    (htr : transformsClash a.tTR b.tTR = false) (hti : transformsClash a.tInv b.tInv = false)
    (hE : ∀ i, i < a.energies.length →
      energiesDiffer (a.energies.getD i []) (b.energies.getD i []) = false ∧
      a.smoothers.getD i 0 = b.smoothers.getD i 0) :
    ∃ r, a.add b = .ok r := by
  refine ⟨_, add_eq_ok a b (by simp [addGuard1, htr, hti]) ?_⟩
  unfold addGuard2
  rw [List.any_eq_false]
  intro i hi
  have := hE i (List.mem_range.mp hi)
  rw [this.1, this.2]
  simp

/-- T1d (subtraction) `a − b = a + (−1)·b`, element-wise `a − b`. -/
theorem eres_sub_data (a b r : ERes K) (h : Res.sub (.energy a) (.energy b) = .ok (.energy r)) :
    a.add (b.mul (-1)) = .ok r ∧ ∀ t, r.data t = a.data t - b.data t := by
  simp only [Res.sub, Res.mul, Res.add] at h
  cases hab : a.add (b.mul (-1)) with
  | error e => rw [hab] at h; cases h
  | ok r' =>
    rw [hab] at h
    have hr : r' = r := by
      simp only [Except.map] at h
      injection h with h
      injection h
    subst hr
    refine ⟨rfl, fun t => ?_⟩
    rw [(eres_add_spec a (b.mul (-1)) r' hab).1 t]
    simp [ERes.mul, scaleData, sub_eq_add_neg]

/-- T1e (distributivity over results).  `(a + b)·c` has the data of `a·c + b·c`, and the latter is defined. -/
theorem eres_mul_add (a b r : ERes K) (c : K) (h : a.add b = .ok r) :
    ∃ s, (a.mul c).add (b.mul c) = .ok s ∧ ∀ t, s.data t = (r.mul c).data t := by
  obtain ⟨h1, h2, rfl⟩ := add_ok_inv a b r h
  refine ⟨_, add_eq_ok (a.mul c) (b.mul c) h1 h2, ?_⟩
  intro t
  simp only [addOk, ERes.mul, scaleData, addData]
  ring

/-- T1f (distributivity over scalars, unit, compatibility). -/
theorem eres_scalar_laws (a : ERes K) (c d : K) (t : Nat → Nat) :
    (a.mul (c + d)).data t = (a.mul c).data t + (a.mul d).data t ∧
    ((a.mul c).mul d).data t = (a.mul (c * d)).data t ∧
    (a.mul 1).data t = a.data t := by
  simp only [ERes.mul, scaleData]
  refine ⟨by ring, by ring, by ring⟩

/-- T1g (commutativity / associativity on data, whenever the sums are defined). -/
theorem eres_add_comm_data (a b r s : ERes K) (h1 : a.add b = .ok r) (h2 : b.add a = .ok s) (t : Nat → Nat) :
    r.data t = s.data t := by
  rw [(eres_add_spec a b r h1).1, (eres_add_spec b a s h2).1, add_comm]

theorem eres_add_assoc_data (a b c ab bc l r : ERes K) (h1 : a.add b = .ok ab) (h2 : ab.add c = .ok l)
    (h3 : b.add c = .ok bc) (h4 : a.add bc = .ok r) (t : Nat → Nat) : l.data t = r.data t := by
  rw [(eres_add_spec _ _ _ h2).1, (eres_add_spec _ _ _ h1).1, (eres_add_spec _ _ _ h4).1,
    (eres_add_spec _ _ _ h3).1, add_assoc]

/-- `mul_array`: multiplication by an array on some axes distributes over + -/
theorem eres_mulArray_add (a b r : ERes K) (w : Arr K) (axes : List Nat) (h : a.add b = .ok r) (t : Nat → Nat) :
    (r.mulArray w axes).data t = (a.mulArray w axes).data t + (b.mulArray w axes).data t := by
  simp only [ERes.mulArray, (eres_add_spec a b r h).1]
  ring

/-! ## the void result -/

/-- T2 (neutral element).  `Void + x = x`, `x + Void = x`, `x + 0 = x`, `x + None = x`. -/
theorem void_neutral (x : Res K) (a : ERes K) :
    Res.add .void (.res x) = .ok x ∧ Res.add x (.res .void) = .ok x ∧
    Res.add (.energy a) .zero = .ok (.energy a) ∧ Res.add (.energy a) .none = .ok (.energy a) := by
  refine ⟨rfl, ?_, rfl, rfl⟩
  cases x <;> rfl

/-- T2' the void result is absorbing for scaling and transformation, `Void − x = (−1)·x`, `x − Void = x`. -/
theorem void_absorbing (σ : K → K) (g : Sym K) (x : Res K) (c : K) :
    Res.mul (.void : Res K) c = .void ∧ Res.div (.void : Res K) c = .void ∧
    Res.transform σ g (.void : Res K) = .ok .void ∧
    Res.sub .void x = .ok (x.mul (-1)) ∧ Res.sub x .void = .ok x := by
  refine ⟨rfl, rfl, rfl, rfl, ?_⟩
  cases x <;> rfl

/-- T2'' (neutral on the right of k-resolved results and dictionaries).  `k + Void = k + 0 = k + None = k`
    (so `sum([k₁, k₂, …])` works) and `d + Void = d + 0 = d + None = d`; on the left `Void + x` returns `x` itself
    for every kind of result (`VoidResult.__add__`). -/
theorem void_neutral_right (a : KRes K) (d : RDict K) :
    a.addRhs .void = .ok a ∧ a.addRhs .zero = .ok a ∧ a.addRhs .none = .ok a ∧
    d.addRhs .void = .ok d ∧ d.addRhs .zero = .ok d ∧ d.addRhs .none = .ok d :=
  ⟨rfl, rfl, rfl, rfl, rfl, rfl⟩

omit [Field K] in
/-- `sum([k₁, k₂])` = `(0 + k₁) + k₂`, where `0 + k₁ = k₁.__radd__(0) = k₁ + 0`: the concatenation of the two -/
theorem kres_sum_two (a b r : KRes K) (h : a.add b = .ok r) :
    (a.addRhs .zero).bind (fun s => s.addRhs (.res b)) = .ok r := by
  simp only [KRes.addRhs, Except.bind]
  exact h

/-! ## symmetry transformation -/

/-- T3a.  `transform_tensor` is additive: rotation of every tensor axis, transposition / axis swap, conjugation
    and the ±1 factor all distribute over +. -/
theorem transformTensor_add (σ : K →+* K) (g : Sym K) (dim rank : Nat) (tr ti : Transform) (A B : Arr K) :
    transformTensor σ g dim rank tr ti (addData A B)
      = addData (transformTensor σ g dim rank tr ti A) (transformTensor σ g dim rank tr ti B) :=
  transformTensor_add_aux σ g dim rank tr ti A B

/-- T3b.  … and commutes with multiplication by every scalar fixed by the conjugation (every real number). -/
theorem transformTensor_smul (σ : K →+* K) (g : Sym K) (dim rank : Nat) (tr ti : Transform) (A : Arr K)
    (c : K) (hc : σ c = c) :
    transformTensor σ g dim rank tr ti (scaleData A c) = scaleData (transformTensor σ g dim rank tr ti A) c :=
  transformTensor_smul_aux σ g dim rank tr ti A c hc

/-- T3c (results).  For energy results with the same transformations, shape and rank:
    `transform(a) + transform(b)` is defined and has the data of `transform(a + b)`. -/
theorem eres_transform_add (σ : K →+* K) (g : Sym K) (a b r : ERes K) (tr ti : Transform)
    (ha : a.tTR = some tr) (hai : a.tInv = some ti) (hb : b.tTR = some tr) (hbi : b.tInv = some ti)
    (hshape : a.shape = b.shape) (hrank : a.rank = b.rank) (h : a.add b = .ok r) :
    ∃ a' b' r' s, a.transform σ g = .ok a' ∧ b.transform σ g = .ok b' ∧ r.transform σ g = .ok r' ∧
      a'.add b' = .ok s ∧ ∀ t, s.data t = r'.data t := by
  obtain ⟨h1, h2, rfl⟩ := add_ok_inv a b r h
  have ea : a.transform σ g
      = .ok { a with data := transformTensor σ g a.shape.length a.rank tr ti a.data } := by
    simp only [ERes.transform, ha, hai]
  have eb : b.transform σ g
      = .ok { b with data := transformTensor σ g b.shape.length b.rank tr ti b.data } := by
    simp only [ERes.transform, hb, hbi]
  have er : (addOk a b).transform σ g
      = .ok { addOk a b with data := transformTensor σ g a.shape.length a.rank tr ti (addData a.data b.data) } := by
    simp only [ERes.transform, addOk, ha, hai]
  refine ⟨_, _, _, _, ea, eb, er, add_eq_ok _ _ h1 h2, ?_⟩
  intro t
  simp only [addOk, ← hshape, ← hrank, transformTensor_add]

/-- T3d.  `transform(c·a) = c·transform(a)` on the data, for real `c`. -/
theorem eres_transform_mul (σ : K →+* K) (g : Sym K) (a : ERes K) (tr ti : Transform) (c : K) (hc : σ c = c)
    (ha : a.tTR = some tr) (hai : a.tInv = some ti) :
    ∃ x y, (a.mul c).transform σ g = .ok x ∧ a.transform σ g = .ok y ∧ x.data = (y.mul c).data := by
  refine ⟨_, _, by simp only [ERes.transform, ERes.mul, ha, hai]; rfl, by simp only [ERes.transform, ha, hai]; rfl, ?_⟩
  simp only [ERes.mul]
  exact transformTensor_smul σ g _ _ tr ti a.data c hc

/-- the hypothesis "same transformations" of T3c is about ALL four attributes: `Transform.__eq__` (used by the
    guard of `+`) ignores `swap_axes`, so two transforms that differ only there pass the guard. -/
theorem transform_eq_ignores_swap :
    ∃ s t : Transform, s.eqv t = true ∧ s ≠ t :=
  ⟨⟨1, false, none, some (0, 1)⟩, ⟨1, false, none, none⟩, by decide, by decide⟩

/-! ## band-resolved results (`K__Result`) -/

/-- T4a.  `a + b` of k-resolved results is the concatenation of their k-points: the data of the sum are the data
    of `a` followed by the data of `b`, every element untouched. -/
theorem kres_add_data (a b r : KRes K) (h : a.add b = .ok r) (t : Nat → Nat) :
    r.data t = (if t 0 < a.nkTot then a.data t else b.data (upd t 0 (t 0 - a.nkTot))) ∧
    r.nkTot = a.nkTot + b.nkTot := by
  unfold KRes.add at h
  split at h
  · cases h
    exact ⟨vstack_append _ _ t, nkSum_append _ _⟩
  · cases h

/-- T4b.  scaling acts on every element of every block. -/
theorem kres_mul_data (a : KRes K) (c : K) (t : Nat → Nat) :
    (a.mul c).data t = a.data t * c ∧ (a.mul c).nkTot = a.nkTot :=
  ⟨vstack_map_scale a.blocks c t, nkSum_map a.blocks _⟩

/-- T4c.  `a − b` is element-wise on the stacked data. -/
theorem kres_sub_data (a b r : KRes K) (h : a.sub b = .ok r) (t : Nat → Nat) (ht : t 0 < a.nkTot) :
    r.data t = a.data t - b.data t := by
  unfold KRes.sub at h
  split at h
  · cases h
  · cases h
    simp [KRes.data, vstack, ht, sub_eq_add_neg]

/-- T4d.  scaling and transformation distribute over `+` (block lists), and `+` stays defined. -/
theorem kres_mul_add (a b r : KRes K) (c : K) (h : a.add b = .ok r) :
    (a.mul c).add (b.mul c) = .ok (r.mul c) := by
  unfold KRes.add at h ⊢
  split at h
  · rename_i hfit
    cases h
    have hf : (a.mul c).fit (b.mul c) = true := hfit
    rw [if_pos hf]
    simp [KRes.mul]
  · cases h

theorem kres_transform_add (σ : K → K) (g : Sym K) (a b r a' b' : KRes K) (h : a.add b = .ok r)
    (ha : a.transform σ g = .ok a') (hb : b.transform σ g = .ok b')
    (hdim : a.dim = b.dim) (hrank : a.rank = b.rank) (htr : a.tTR = b.tTR) (hti : a.tInv = b.tInv) :
    ∃ r', r.transform σ g = .ok r' ∧ a'.add b' = .ok r' := by
  unfold KRes.add at h
  split at h
  · rename_i hfit
    cases h
    unfold KRes.transform at ha hb ⊢
    cases h1 : a.tTR with
    | none => simp [h1] at ha
    | some tr =>
      cases h2 : a.tInv with
      | none => simp [h1, h2] at ha
      | some ti =>
        simp only [h1, h2, ← htr, ← hti, ← hdim, ← hrank] at ha hb ⊢
        cases ha; cases hb
        refine ⟨_, rfl, ?_⟩
        unfold KRes.add
        have hf : KRes.fit (K := K)
            { blocks := List.map (fun b => { nk := b.nk, arr := transformTensor σ g a.dim a.rank tr ti b.arr }) a.blocks,
              tTR := some tr, tInv := some ti, rank := a.rank, dim := a.dim, nband := a.nband }
            { blocks := List.map (fun b => { nk := b.nk, arr := transformTensor σ g a.dim a.rank tr ti b.arr }) b.blocks,
              tTR := some tr, tInv := some ti, rank := a.rank, dim := a.dim, nband := b.nband } = true := by
          simp only [KRes.fit, Bool.and_eq_true] at hfit ⊢
          exact ⟨⟨⟨hfit.1.1.1, by simp [optEqv, Transform.eqv]⟩, by simp [optEqv, Transform.eqv]⟩, by simp⟩
        rw [if_pos hf]
        simp
  · cases h

/-! ## dictionaries of results -/

/-- T5a.  `ResultDict + ResultDict`: exactly the keys present in both, each entry the sum of the two entries. -/
theorem rdict_add_lookup (d e r : RDict K) (h : d.add e = .ok r) (k : String) :
    match d.lookup k, e.lookup k with
    | some x, some y => ∃ s, x.add (.res y) = .ok s ∧ r.lookup k = some s
    | _, _ => r.lookup k = none := by
  induction d generalizing r with
  | nil => cases h; simp
  | cons kv rest ih =>
    obtain ⟨k0, v⟩ := kv
    unfold RDict.add at h
    by_cases hk : k = k0
    · subst hk
      simp only [List.lookup_cons, beq_self_eq_true]
      cases he : e.lookup k with
      | none =>
        simp only [he] at h
        have := ih r h
        rw [he] at this
        cases hd : List.lookup k rest <;> simpa [hd] using this
      | some y =>
        simp only [he] at h
        cases hv : v.add (.res y) with
        | error x => simp [hv] at h
        | ok s =>
          cases ht : RDict.add rest e with
          | error x => simp [hv, ht] at h
          | ok tl =>
            simp only [hv, ht] at h
            cases h
            exact ⟨s, hv, by simp⟩
    · have hkb : (k == k0) = false := by simpa using hk
      simp only [List.lookup_cons, hkb]
      cases he : e.lookup k0 with
      | none =>
        simp only [he] at h
        exact ih r h
      | some y =>
        simp only [he] at h
        cases hv : v.add (.res y) with
        | error x => simp [hv] at h
        | ok s =>
          cases ht : RDict.add rest e with
          | error x => simp [hv, ht] at h
          | ok tl =>
            simp only [hv, ht] at h
            cases h
            simp only [List.lookup_cons, hkb]
            exact ih tl ht

/-- T5b.  scaling a dictionary scales every entry. -/
theorem rdict_mul_lookup (d : RDict K) (c : K) (k : String) :
    (d.mul c).lookup k = (d.lookup k).map (fun x => x.mul c) := by
  induction d with
  | nil => rfl
  | cons kv rest ih =>
    obtain ⟨k0, v⟩ := kv
    have ih' : List.lookup k (List.map (fun kv => (kv.1, kv.2.mul c)) rest)
        = Option.map (fun x => x.mul c) (List.lookup k rest) := ih
    simp only [RDict.mul, List.map_cons, List.lookup_cons]
    cases (k == k0)
    · exact ih'
    · rfl

/-! ## saving and loading -/

omit [Field K] in
theorem collectEnergies_asDict (r : ERes K) (d : Dict K) (h : r.asDict = .ok d) (n : Nat)
    (hn : n ≤ r.energies.length) : collectEnergies d n = .ok (r.energies.take n) := by
  unfold ERes.asDict at h
  split at h
  · rename_i tr ti htr hti
    cases h
    induction n with
    | zero => rfl
    | succ n ih =>
      have hlt : n < r.energies.length := by omega
      have hl : ∀ (x : Key) (v : Value K) (tl : Dict K), x ≠ Key.energies n →
          List.lookup (Key.energies n) ((x, v) :: tl) = List.lookup (Key.energies n) tl := by
        intro x v tl hx
        have : (Key.energies n == x) = false := by simpa using fun h => hx h.symm
        simp [List.lookup_cons, this]
      have hlook : List.lookup (Key.energies n)
          ([(Key.E_titles, Value.strs r.titles), (Key.data, Value.arr r.shape r.data), (Key.rank, Value.nat r.rank),
            (Key.transformTR, Value.tdict tr), (Key.transformInv, Value.tdict ti), (Key.comment, Value.str r.comment)]
            ++ (r.energies.zipIdx).map (fun ei => (Key.energies ei.2, (Value.reals ei.1 : Value K))))
          = some (Value.reals r.energies[n]) := by
        simp only [List.cons_append, List.nil_append]
        rw [hl _ _ _ (by simp), hl _ _ _ (by simp), hl _ _ _ (by simp), hl _ _ _ (by simp), hl _ _ _ (by simp),
          hl _ _ _ (by simp), lookup_energies, List.getElem?_eq_getElem hlt]
        rfl
      rw [collectEnergies, ih (by omega), hlook]
      simp only
      rw [List.take_add_one, List.getElem?_eq_getElem hlt]
      rfl
  · cases h

omit [Field K] in
/-- T6 (round trip).  Saving an energy result (`as_dict`) and loading it (`from_npz`) gives back the same
    energies, data, shape, rank, both transformations with all four attributes, comment and titles; the
    smoothers are void and the save mode is the default afterwards (`ERes.loaded`). -/
theorem fromDict_asDict (r : ERes K) (d : Dict K) (h : r.asDict = .ok d)
    (htitles : r.titles.length = r.energies.length) :
    fromDict d = .ok (.energy r.loaded) := by
  have hcol : collectEnergies d r.titles.length = .ok r.energies := by
    rw [collectEnergies_asDict r d h r.titles.length (by omega), htitles, List.take_length]
  unfold ERes.asDict at h
  split at h
  · rename_i tr ti htr hti
    cases h
    have htype : List.lookup Key.type
        (List.map (fun ei => (Key.energies ei.2, (Value.reals ei.1 : Value K))) r.energies.zipIdx) = none := by
      rw [List.lookup_eq_none_iff]
      intro p hp
      obtain ⟨ei, _, rfl⟩ := List.mem_map.mp hp
      simp
    unfold fromDict
    simp only [List.cons_append, List.nil_append] at hcol ⊢
    simp only [List.lookup_cons, transformFromDict, htype, hcol,
      show (Key.type == Key.E_titles) = false by decide, show (Key.type == Key.data) = false by decide,
      show (Key.type == Key.rank) = false by decide, show (Key.type == Key.transformTR) = false by decide,
      show (Key.type == Key.transformInv) = false by decide, show (Key.type == Key.comment) = false by decide,
      show (Key.data == Key.E_titles) = false by decide, show (Key.rank == Key.E_titles) = false by decide,
      show (Key.rank == Key.data) = false by decide, show (Key.transformTR == Key.E_titles) = false by decide,
      show (Key.transformTR == Key.data) = false by decide, show (Key.transformTR == Key.rank) = false by decide,
      show (Key.transformInv == Key.E_titles) = false by decide, show (Key.transformInv == Key.data) = false by decide,
      show (Key.transformInv == Key.rank) = false by decide,
      show (Key.transformInv == Key.transformTR) = false by decide,
      show (Key.comment == Key.E_titles) = false by decide, show (Key.comment == Key.data) = false by decide,
      show (Key.comment == Key.rank) = false by decide, show (Key.comment == Key.transformTR) = false by decide,
      show (Key.comment == Key.transformInv) = false by decide, beq_self_eq_true]
    simp only [ERes.loaded, List.take_length, mkTitles, ← htitles, le_refl, if_true, htr, hti]
  · cases h

omit [Field K] in
/-- T6' the void result round-trips to the void result. -/
theorem fromDict_void : fromDict (voidDict : Dict K) = .ok .void := rfl

/-- T6'' robustness of loading: a file without a comment gets "undocumented", without transformations `None`. -/
example : ∃ r, fromDict ([(.E_titles, .strs ["Efermi"]), (.data, .arr [2] (fun _ => (0 : Rat))), (.rank, .nat 0),
      (.energies 0, .reals [0, 1])] : Dict Rat) = .ok (.energy r) ∧
    r.comment = "undocumented" ∧ r.tTR = none ∧ r.tInv = none ∧ r.energies = [[0, 1]] :=
  ⟨_, rfl, rfl, rfl, rfl, rfl⟩

/-- the constructor's normalisation makes the hypothesis of T6 true: the titles always number the energies -/
theorem mkTitles_length (nE : Nat) (titles : List String) : (mkTitles nE titles).length = nE := by
  unfold mkTitles
  split
  · simp; omega
  · simp; omega

end WB.C16
