/-
  C12 — property theorems: the parallel collection loop of `process()` adds every remote result exactly once
  for EVERY sequence of answers of `ray.wait`, hence equals the serial evaluation; tabulated points come back
  in path / grid order whatever the arrival order.  Helper lemmas: WB/Lemmas/C12.lean.
-/
import WB.Lemmas.C12

namespace WB.C12

/-! ## the collection loop -/

/-- T1a (never twice).  Whatever `ray.wait` answers (any number of answers, any subsets, the loop finished or
    not), no remote result is added to `result_sum` more than once, and only indices of remotes are added. -/
theorem collect_never_twice (n nstep : Nat) (sched : List (List Nat))
    (hv : ∀ r ∈ sched, ValidReady n r) :
    (run true n nstep sched).added.Nodup ∧ ∀ i ∈ (run true n nstep sched).added, i < n := by
  have h := inv_run n nstep sched hv
  exact ⟨h.nodup, by simpa using h.bounded⟩

/-- T1 (exactly once).  For every schedule after which the loop has left through `break`, the log of added
    results is a permutation of all remotes: each K-point is set and added exactly once. -/
theorem collect_once (n nstep : Nat) (sched : List (List Nat))
    (hv : ∀ r ∈ sched, ValidReady n r) (hdone : (run true n nstep sched).done = true) :
    (run true n nstep sched).added.Perm (List.range n) := by
  have h := inv_run n nstep sched hv
  rw [List.perm_ext_iff_of_nodup h.nodup List.nodup_range]
  intro i
  constructor
  · intro hi; exact List.mem_range.2 (by simpa using h.bounded i hi)
  · intro hi; exact h.finished hdone i (by simpa using List.mem_range.1 hi)

/-- T1 (termination side): the loop leaves through `break` as soon as one answer contains all references. -/
theorem collect_terminates (u : Bool) (n nstep : Nat) (sched : List (List Nat))
    (h : ∃ r ∈ sched, n ≤ r.length) : (run u n nstep sched).done = true := by
  unfold run
  exact foldl_reaches_done u sched (init n nstep) (by simpa [init] using h)

/-- T1 (sum).  With values in any commutative monoid (`ResultDict` of arrays, with `None` as 0) the parallel
    `result_sum` equals the serial one — for every schedule that lets the loop finish. -/
theorem parallel_sum_eq_serial {V} [AddCommMonoid V] (v : Nat → V) (n nstep : Nat) (sched : List (List Nat))
    (hv : ∀ r ∈ sched, ValidReady n r) (hdone : (run true n nstep sched).done = true) :
    sumOver v (run true n nstep sched).added = sumOver v (serialAdded n) := by
  unfold sumOver serialAdded
  exact ((collect_once n nstep sched hv hdone).map v).sum_eq

/-- non-vacuity: the non-nested schedule observed with ray 2.48 (`[5,6,7]`, then `[0,1,2,4,6,7]`, then all) is
    valid, respects `num_returns` for 3 workers, finishes, and the repaired loop adds each of 8 remotes once -/
example :
    (∀ r ∈ [[5, 6, 7], [0, 1, 2, 4, 6, 7], [0, 1, 2, 3, 4, 5, 6, 7]], ValidReady 8 r) ∧
    admissible true 8 3 [[5, 6, 7], [0, 1, 2, 4, 6, 7], [0, 1, 2, 3, 4, 5, 6, 7]] (init 8 3) = true ∧
    (run true 8 3 [[5, 6, 7], [0, 1, 2, 4, 6, 7], [0, 1, 2, 3, 4, 5, 6, 7]]).done = true ∧
    (run true 8 3 [[5, 6, 7], [0, 1, 2, 4, 6, 7], [0, 1, 2, 3, 4, 5, 6, 7]]).added = [5, 6, 7, 0, 1, 2, 4, 3] := by
  refine ⟨?_, by decide +kernel, by decide +kernel, by decide +kernel⟩
  intro r hr
  simp only [List.mem_cons, List.not_mem_nil, or_false] at hr
  rcases hr with rfl | rfl | rfl <;> exact ⟨by decide, by decide⟩

/-- the defect that was repaired (F7): with the ORIGINAL rule `old := ready` the same admissible schedule
    adds remote 5 twice -/
theorem old_rule_double_counts :
    admissible false 8 3 [[5, 6, 7], [0, 1, 2, 4, 6, 7], [0, 1, 2, 3, 4, 5, 6, 7]] (init 8 3) = true ∧
    (run false 8 3 [[5, 6, 7], [0, 1, 2, 4, 6, 7], [0, 1, 2, 3, 4, 5, 6, 7]]).done = true ∧
    (run false 8 3 [[5, 6, 7], [0, 1, 2, 4, 6, 7], [0, 1, 2, 3, 4, 5, 6, 7]]).added
      = [5, 6, 7, 0, 1, 2, 4, 3, 5] := by
  decide +kernel

/-- T1' — the original rule was right exactly under the extra assumption that every answer of `ray.wait`
    contains the previous one (which ray does not promise): then both rules produce the same log. -/
theorem old_rule_ok_on_nested (n nstep : Nat) (sched : List (List Nat)) (hn : Nested sched) :
    (run true n nstep sched).added = (run false n nstep sched).added ∧
    (run true n nstep sched).done = (run false n nstep sched).done ∧
    (run true n nstep sched).asked = (run false n nstep sched).asked := by
  unfold run
  apply old_rule_eq_on_nested sched (init n nstep) (init n nstep) rfl rfl rfl rfl rfl rfl (fun _ => rfl) hn
  intro r _ i hi
  simp [init] at hi

example : Nested [[1], [1, 3], [0, 1, 3], [0, 1, 2, 3]] := by
  refine ⟨by simp, by simp, by simp, trivial⟩

/-! ## tabulated points -/

/-- T2.  `self_to_path` returns, for every path point, that point's own value — for every arrival order
    (the arrivals are any permutation of the (k-point, value) pairs; the same k-point may occur twice on a path,
    both copies then carry the value that belongs to that k-point). -/
theorem toPath_perm_invariant {κ ν} [BEq κ] [LawfulBEq κ] (val : κ → ν) (path : List κ) (arr : List (κ × ν))
    (h : arr.Perm (path.map (fun k => (k, val k)))) :
    toPath arr path = path.map (fun k => some (val k)) :=
  toPath_of_perm val path arr h

/-- T2 composed with T1: batches of `k_batch` path points evaluated by remote `ir`, stacked in the order in which
    the loop added them, are mapped back to path order with each point's own value — for every schedule. -/
theorem path_result_schedule_independent {κ ν} [BEq κ] [LawfulBEq κ] (val : κ → ν)
    (batchKeys : Nat → List κ) (n nstep : Nat) (sched : List (List Nat))
    (hv : ∀ r ∈ sched, ValidReady n r) (hdone : (run true n nstep sched).done = true) :
    let path := arrivals batchKeys (List.range n)
    let arr := arrivals (fun ir => (batchKeys ir).map (fun k => (k, val k))) (run true n nstep sched).added
    toPath arr path = path.map (fun k => some (val k)) := by
  intro path arr
  apply toPath_of_perm
  have hp := arrivals_perm (fun ir => (batchKeys ir).map (fun k => (k, val k))) (collect_once n nstep sched hv hdone)
  refine hp.trans (List.Perm.of_eq ?_)
  simp only [arrivals, path, List.map_flatMap]

example : toPath [((2 : Int), (20 : Rat)), (0, 0), (1, 10), (0, 0)] [0, 1, 2, 0] = [some 0, some 10, some 20, some 0] := by
  decide +kernel

/-- T2' (purity).  One call of `self_to_path` leaves the Path object as it was and returns `toPath` of the path's
    k-points and THIS call's arrivals — a function of (path, collected k-points) and of nothing else. -/
theorem selfToPath_pure {κ ν} [BEq κ] (po : PathObj κ) (arr : List (κ × ν)) :
    selfToPath false po arr = (po, toPath arr po.pts) := by
  unfold selfToPath
  rw [applyMapping_mappingOf]

/-- T2' (repeated calls).  Any number of run() calls on one Path object, each with its own arrival order (any
    permutation of the points with their own values): every call returns each path point's own value. -/
theorem repeated_runs_on_one_path {κ ν} [BEq κ] [LawfulBEq κ] (val : κ → ν) (po : PathObj κ) :
    ∀ (runs : List (List (κ × ν))), (∀ arr ∈ runs, arr.Perm (po.pts.map (fun k => (k, val k)))) →
      ∀ out ∈ runsOnPath false po runs, out = po.pts.map (fun k => some (val k))
  | [], _, out, ho => by cases ho
  | arr :: rest, h, out, ho => by
    simp only [runsOnPath, selfToPath_pure, List.mem_cons] at ho
    rcases ho with rfl | ho
    · exact toPath_of_perm val po.pts arr (h arr (List.mem_cons_self ..))
    · exact repeated_runs_on_one_path val po rest (fun a ha => h a (List.mem_cons_of_mem _ ha)) out ho

/-- the seeded defect T-C12: with the mapping remembered on the Path object, a serial call (arrival = path order)
    followed by a call whose batches arrive in another order returns the values of OTHER k-points -/
theorem cached_mapping_breaks_second_run :
    let po : PathObj Int := { pts := [0, 1, 2, 3], cache := none }
    let serial : List (Int × Rat) := [(0, 0), (1, 10), (2, 20), (3, 30)]
    let later : List (Int × Rat) := [(2, 20), (3, 30), (0, 0), (1, 10)]
    runsOnPath false po [serial, later] = [[some 0, some 10, some 20, some 30], [some 0, some 10, some 20, some 30]] ∧
    runsOnPath true po [serial, later] = [[some 0, some 10, some 20, some 30], [some 20, some 30, some 0, some 10]] := by
  decide +kernel

/-- T4 (repeated parallel runs on one object).  With a fresh `ray.put` in every call the workers evaluate the object
    as it is at THAT call, whatever was stored before — so each parallel run can equal the serial run of the current
    object. -/
theorem workers_see_current_object {σ : Type} : ∀ (stored : Option σ) (states : List σ),
    workersSee false stored states = states
  | _, [] => rfl
  | stored, s :: rest => by
    simp only [workersSee]
    rw [workers_see_current_object (some s) rest]

/-- the seeded defect W-C12: re-using the reference of the first call makes every later call evaluate the FIRST state -/
theorem reused_snapshot_is_stale :
    workersSee true none [(1 : Nat), 2, 3] = [1, 1, 1] ∧ workersSee false none [(1 : Nat), 2, 3] = [1, 2, 3] := by
  decide

/-- T3.  `to_grid` (mean of the arrivals sitting on each grid point) does not depend on the arrival order. -/
theorem toGrid_perm_invariant {κ ν} [BEq κ] [Field ν] (arr arr' : List (κ × ν)) (h : arr.Perm arr')
    (grid : List κ) : toGrid arr grid = toGrid arr' grid :=
  toGrid_of_perm h grid

/-- T3 composed with T1: the grid tabulation after the parallel loop equals the serial one, for every schedule. -/
theorem grid_result_schedule_independent {κ ν} [BEq κ] [Field ν] (batch : Nat → List (κ × ν))
    (grid : List κ) (n nstep : Nat) (sched : List (List Nat))
    (hv : ∀ r ∈ sched, ValidReady n r) (hdone : (run true n nstep sched).done = true) :
    toGrid (arrivals batch (run true n nstep sched).added) grid = toGrid (arrivals batch (serialAdded n)) grid :=
  toGrid_of_perm (arrivals_perm batch (collect_once n nstep sched hv hdone)) grid

example : toGrid [((1 : Int), (3 : Rat)), (0, 2), (1, 5)] [0, 1] = [2, 4] := by decide +kernel

end WB.C12
