/-
  C06 — K-point weights partition the Brillouin zone for every grid and history: property theorems.
  (helper lemmas: WB/Lemmas/C06Sum.lean, C06Cell.lean, C06Tetra.lean, C06Orbit.lean)
-/
import WB.Lemmas.C06Sum
import WB.Lemmas.C06Cell
import WB.Lemmas.C06Tetra
import WB.Lemmas.C06Orbit
import WB.Lemmas.C06Calls
import WB.Lemmas.C06Bridge
import WB.Lemmas.C06Excl
import WB.Lemmas.C06TetTile
import WB.Lemmas.C06SplitSize
import WB.Lemmas.C06Restart
import WB.Lemmas.C06DistGamma
import Mathlib.Tactic.IntervalCases

namespace WB.C06

/-! ## T1 — `Grid.get_K_list`: weights are non-negative and sum to one, for ANY list of symmetry operations
    (group or not), any grid `div` with positive entries, with and without symmetry reduction -/

theorem getKList_total (syms : List Sym) (div : Idx) (useSym : Bool)
    (h1 : 0 < div.1) (h2 : 0 < div.2.1) (h3 : 0 < div.2.2) :
    totalW (getKList syms div useSym) = 1 ∧ ∀ k ∈ getKList syms div useSym, 0 ≤ k.factor := by
  refine ⟨by rw [getKList_total_eq]; exact finalGrid_total syms div useSym h1 h2 h3, ?_⟩
  intro k hk
  unfold getKList at hk
  obtain ⟨e, he, hk⟩ := List.mem_filterMap.mp hk
  have := finalGrid_nonneg syms div useSym e he
  cases ho : e.2 with
  | none => rw [ho] at hk; simp at hk
  | some f =>
    rw [ho] at hk this
    simp only [Option.map_some, Option.some.injEq] at hk
    rw [← hk]; simpa using this

/-- without symmetry every grid point is kept, with weight `1/N` -/
theorem getKList_nosym (syms : List Sym) (div : Idx) :
    getKList syms div false =
      (flatOrder div).map fun p =>
        { K := gridK div p, dK := gridDK div, factor := 1 / ((div.1 * div.2.1 * div.2.2 : Nat) : Rat), level := 0 } := by
  unfold getKList finalGrid initGrid
  simp only [Bool.false_eq_true, ↓reduceIte, List.filterMap_map]
  rw [← List.filterMap_eq_map]
  rfl

/-- the group 4/m (four rotations about z, each also combined with inversion) -/
def exampleSyms : List Sym :=
  [⟨1, 0, 0, 0, 1, 0, 0, 0, 1, false, false⟩, ⟨0, 1, 0, -1, 0, 0, 0, 0, 1, false, false⟩,
   ⟨-1, 0, 0, 0, -1, 0, 0, 0, 1, false, false⟩, ⟨0, -1, 0, 1, 0, 0, 0, 0, 1, false, false⟩,
   ⟨1, 0, 0, 0, 1, 0, 0, 0, 1, true, false⟩, ⟨0, 1, 0, -1, 0, 0, 0, 0, 1, true, false⟩,
   ⟨-1, 0, 0, 0, -1, 0, 0, 0, 1, true, false⟩, ⟨0, -1, 0, 1, 0, 0, 0, 0, 1, true, false⟩]


/-! ## T1' — call histories on ONE grid object: the answer to `get_K_list(use_symmetry)` is a function of
    (grid, group, use_symmetry) only.  For every sequence of calls the object is unchanged and call number `i` returns
    `getKList syms div calls[i]`: weights ≥ 0 with sum 1, and all grid points with weight 1/N when `use_symmetry = False`,
    irrespective of what was asked before (a cache that remembers the first call's reduction violates this). -/

theorem getKList_call_history (g : GridObj) (calls : List Bool)
    (h1 : 0 < g.div.1) (h2 : 0 < g.div.2.1) (h3 : 0 < g.div.2.2) :
    (gridCalls g calls).1 = g ∧
    (gridCalls g calls).2 = calls.map (getKList g.syms g.div) ∧
    (∀ l ∈ (gridCalls g calls).2, totalW l = 1 ∧ ∀ k ∈ l, 0 ≤ k.factor) ∧
    (∀ i : Nat, calls[i]? = some false → (gridCalls g calls).2[i]? = some
      ((flatOrder g.div).map fun p =>
        ({ K := gridK g.div p, dK := gridDK g.div,
           factor := 1 / ((g.div.1 * g.div.2.1 * g.div.2.2 : Nat) : Rat), level := 0 } : KPoint))) := by
  obtain ⟨a, b⟩ := gridCalls_spec g calls
  refine ⟨a, b, ?_, ?_⟩
  · intro l hl
    rw [b] at hl
    obtain ⟨us, _, rfl⟩ := List.mem_map.mp hl
    exact getKList_total g.syms g.div us h1 h2 h3
  · intro i hi
    rw [b, List.getElem?_map, hi, Option.map_some, getKList_nosym]

/-- symmetric call, then the full list, then the symmetric one again on the same object -/
example : (gridCalls ⟨exampleSyms, (2, 2, 2)⟩ [true, false, true]).2.map List.length = [6, 8, 6] := by decide +kernel

/-! ## T2 — orbit cover.  Hypotheses (`OrbitHyp`, the "group hypotheses" at the level where the loop uses them):
    on the grid, `q ∈ star(p)` is an equivalence relation that stays on the grid, and `star(p)` lists every point of
    the orbit once.  `orbitCheck` is an executable test of exactly these facts; the harness runs it on the integer
    matrices read from the code's own `PointGroup` for every group/grid it uses.
    Conclusion: (1) a retained point carries `|orbit| / N`; (2) every grid point lies in the star of exactly one
    retained point; (3) `get_K_list` returns exactly the retained points (as K-points with that weight). -/

theorem getKList_orbit_cover (syms : List Sym) (div : Idx) (hS : OrbitHyp div (starIdx syms div)) :
    (∀ r f, (r, f) ∈ kept syms div true →
        inRange div r ∧ f = ((starIdx syms div r).length : Rat) / ((div.1 * div.2.1 * div.2.2 : Nat) : Rat)) ∧
    (∀ q, inRange div q → ∃ r f, (r, f) ∈ kept syms div true ∧ q ∈ starIdx syms div r ∧
        ∀ r' f', (r', f') ∈ kept syms div true → q ∈ starIdx syms div r' → r' = r) ∧
    getKList syms div true =
      (kept syms div true).map fun rf => { K := gridK div rf.1, dK := gridDK div, factor := rf.2, level := 0 } :=
  ⟨(kept_orbit_cover syms div hS).1, (kept_orbit_cover syms div hS).2, getKList_eq_kept syms div true⟩

/-- the executable check is sufficient for the hypotheses -/
theorem orbitCheck_sound (syms : List Sym) (div : Idx) (h : orbitCheck div (starIdx syms div) = true) :
    OrbitHyp div (starIdx syms div) := orbitHyp_of_check div _ h

/-- the hypothesis is needed: for a list that is not a group (identity and one 4-fold rotation only) the relation is
    not symmetric and the retained weights are not orbit sizes (they still sum to 1 by T1) -/
theorem orbit_hyp_needed :
    orbitCheck (4, 4, 1) (starIdx [⟨1, 0, 0, 0, 1, 0, 0, 0, 1, false, false⟩, ⟨0, 1, 0, -1, 0, 0, 0, 0, 1, false, false⟩] (4, 4, 1)) = false := by
  decide +kernel

/-! ## T2' — orbit cover from GROUP hypotheses.  `GroupHyp syms div`: the list contains an operation acting as the
    identity, for every operation one acting as its inverse, for every two one acting as their product (all as maps on
    reduced vectors), and the grid passes the symmetric-grid test (`PointGroup.symmetric_grid`).  From these alone the star
    relation on grid points is reflexive, symmetric, transitive, stays on the grid and `star` lists every orbit point
    once (`orbitHyp_of_group`), hence the orbit-cover conclusion.  `groupCheck` is the executable form of the three
    group conditions (run on the code's own point groups by the harness); `orbitCheck_sound` stays as the direct
    run-time check of the derived facts. -/

theorem getKList_orbit_cover_of_group (syms : List Sym) (div : Idx) (hG : GroupHyp syms div) :
    (∀ r f, (r, f) ∈ kept syms div true →
        inRange div r ∧ f = ((starIdx syms div r).length : Rat) / ((div.1 * div.2.1 * div.2.2 : Nat) : Rat)) ∧
    (∀ q, inRange div q → ∃ r f, (r, f) ∈ kept syms div true ∧ q ∈ starIdx syms div r ∧
        ∀ r' f', (r', f') ∈ kept syms div true → q ∈ starIdx syms div r' → r' = r) ∧
    getKList syms div true =
      (kept syms div true).map fun rf => { K := gridK div rf.1, dK := gridDK div, factor := rf.2, level := 0 } :=
  getKList_orbit_cover syms div (orbitHyp_of_group syms div hG)

/-- the group hypotheses imply the hypotheses of the orbit theorem -/
theorem orbitHyp_of_groupHyp (syms : List Sym) (div : Idx) (hG : GroupHyp syms div) :
    OrbitHyp div (starIdx syms div) := orbitHyp_of_group syms div hG

/-- the executable group test (identity, inverses, products as signed matrices) + the symmetric-grid test give the
    group hypotheses -/
theorem groupCheck_sound (syms : List Sym) (div : Idx) (hd : 0 < div.1 ∧ 0 < div.2.1 ∧ 0 < div.2.2)
    (hg : groupCheck syms = true) (hs : symmetricGrid syms div = true) : GroupHyp syms div :=
  groupHyp_of_check syms div hd hg hs

/-- the group 4/m on the 4x4x2 grid satisfies the group hypotheses -/
example : GroupHyp exampleSyms (4, 4, 2) :=
  groupCheck_sound _ _ ⟨by norm_num, by norm_num, by norm_num⟩ (by decide +kernel) (by decide +kernel)

/-! ## T3 — `divide`: the children tile the parent's cell and carry the parent's weight -/

/-- the children are exactly `child kp n c` for the index triples `c` below `n`, in the order of the loops -/
theorem mem_children (kp : KPoint) (n : Idx) (k : KPoint) :
    k ∈ children kp n ↔ ∃ c : Idx, (c.1 < n.1 ∧ c.2.1 < n.2.1 ∧ c.2.2 < n.2.2) ∧ k = child kp n c := by
  unfold children
  rw [List.mem_map]
  constructor
  · rintro ⟨c, hc, rfl⟩; exact ⟨c, (mem_flatOrder n c).mp hc, rfl⟩
  · rintro ⟨c, hc, rfl⟩; exact ⟨c, (mem_flatOrder n c).mpr hc, rfl⟩

/-- T3a: for every `ndiv > 0` and every cell of positive size: a point lies in the parent's half-open cell
    iff it lies in the cell of some child, and that child is unique. -/
theorem divide_tiles (kp : KPoint) (n : Idx) (hn : 0 < n.1 ∧ 0 < n.2.1 ∧ 0 < n.2.2)
    (hd : 0 < kp.dK.x ∧ 0 < kp.dK.y ∧ 0 < kp.dK.z) (p : V3) :
    (inCell kp p ↔ ∃ c : Idx, (c.1 < n.1 ∧ c.2.1 < n.2.1 ∧ c.2.2 < n.2.2) ∧ inCell (child kp n c) p) ∧
    (∀ c c' : Idx, inCell (child kp n c) p → inCell (child kp n c') p → c = c') := by
  constructor
  · constructor
    · intro h
      obtain ⟨x, hx, hx'⟩ := cell1_cover kp.K.x kp.dK.x p.x n.1 hn.1 hd.1 h.1
      obtain ⟨y, hy, hy'⟩ := cell1_cover kp.K.y kp.dK.y p.y n.2.1 hn.2.1 hd.2.1 h.2.1
      obtain ⟨z, hz, hz'⟩ := cell1_cover kp.K.z kp.dK.z p.z n.2.2 hn.2.2 hd.2.2 h.2.2
      exact ⟨(x, y, z), ⟨hx, hy, hz⟩, (inCell_child kp n (x, y, z) p).mpr ⟨hx', hy', hz'⟩⟩
    · rintro ⟨c, hc, h⟩
      obtain ⟨a, b, d⟩ := (inCell_child kp n c p).mp h
      exact ⟨cell1_inside _ _ _ _ _ hn.1 hd.1 hc.1 a, cell1_inside _ _ _ _ _ hn.2.1 hd.2.1 hc.2.1 b,
        cell1_inside _ _ _ _ _ hn.2.2 hd.2.2 hc.2.2 d⟩
  · intro c c' h h'
    obtain ⟨a, b, d⟩ := (inCell_child kp n c p).mp h
    obtain ⟨a', b', d'⟩ := (inCell_child kp n c' p).mp h'
    have e1 := cell1_unique _ _ _ _ _ _ hn.1 hd.1 a a'
    have e2 := cell1_unique _ _ _ _ _ _ hn.2.1 hd.2.1 b b'
    have e3 := cell1_unique _ _ _ _ _ _ hn.2.2 hd.2.2 d d'
    exact Prod.ext e1 (Prod.ext e2 e3)

/-- the children have cells of positive size again, `1/ndiv` of the parent's, and are one level deeper -/
theorem child_shape (kp : KPoint) (n c : Idx) :
    (child kp n c).dK = ⟨kp.dK.x / n.1, kp.dK.y / n.2.1, kp.dK.z / n.2.2⟩ ∧ (child kp n c).level = kp.level + 1 ∧
    (child kp n c).factor = kp.factor / ((n.1 * n.2.1 * n.2.2 : Nat) : Rat) := ⟨rfl, rfl, rfl⟩

/-- T3b: `divide` (with the effective `ndiv`, non-periodic directions not divided, with or without merging of
    symmetry-equivalent children) returns points whose weights sum to the parent's weight … -/
theorem divide_conserves (syms : List Sym) (useSym : Bool) (per : Bool × Bool × Bool) (kp : KPoint) (ndiv : Idx)
    (h1 : 0 < ndiv.1) (h2 : 0 < ndiv.2.1) (h3 : 0 < ndiv.2.2) :
    totalW (divide syms useSym per kp ndiv) = kp.factor :=
  divide_total syms useSym per kp ndiv h1 h2 h3

/-- … and the divided point stays in the list with weight 0 (`K_list += K.divide(...)`): the list's total is kept -/
theorem refineOne_conserves (syms : List Sym) (useSym : Bool) (per : Bool × Bool × Bool) (ndiv : Idx)
    (l : List KPoint) (iK : Nat) (h1 : 0 < ndiv.1) (h2 : 0 < ndiv.2.1) (h3 : 0 < ndiv.2.2) :
    totalW (refineOne syms useSym per ndiv l iK) = totalW l ∧
    (∀ kp, l[iK]? = some kp →
      (refineOne syms useSym per ndiv l iK)[iK]? = some { kp with factor := 0 }) := by
  refine ⟨refineOne_total syms useSym per ndiv l iK h1 h2 h3, ?_⟩
  intro kp hk
  obtain ⟨hi, _⟩ := List.getElem?_eq_some_iff.mp hk
  unfold refineOne
  rw [hk]
  simp only
  rw [List.getElem?_append_left (by simpa using hi)]
  simp [hi]

/-! ## T4 — `exclude_equiv_points` conserves the total weight: for ANY equivalence test, ANY grouping/ordering of
    the indices (the float pre-filter of the code) and any number of new points -/

theorem excludeEquiv_conserves (eqv : Nat → Nat → Bool) (groups : List (List Nat)) (l : List KPoint) (np : Nat) :
    totalW (excludeEquivWith eqv groups l np) = totalW l ∧
    ((∀ k ∈ l, 0 ≤ k.factor) → ∀ k ∈ excludeEquivWith eqv groups l np, 0 ≤ k.factor) :=
  ⟨excludeEquivWith_total eqv groups l np, excludeEquivWith_nonneg eqv groups l np⟩

/-! ## T4' — full specification of `exclude_equiv_points` when the test is an equivalence relation on the indices
    (`EqvHyp`: reflexive, symmetric, transitive, old points pairwise inequivalent) and every equivalent pair is visited
    by the double loop (`hcov`; true for the single group of the model and for the code's distGamma groups as long as
    equivalent points share a group): the result consists exactly of the FIRST point of every class, in list order, each
    with the sum of the weights of its class; and - without any hypothesis - old points are never deleted or moved. -/

theorem excludeEquiv_spec (eqv : Nat → Nat → Bool) (groups : List (List Nat)) (l : List KPoint) (np : Nat)
    (H : EqvHyp eqv (l.length - np) l.length)
    (hcov : ∀ i j, i < j → j < l.length → eqv i j = true → (i, j) ∈ groupPairs groups) :
    excludeEquivWith eqv groups l np =
      ((List.range l.length).filter fun m => decide (isMin eqv m)).filterMap fun m =>
        (l[m]?).map fun k => { k with factor := classWeight eqv l m } :=
  excludeEquivWith_spec eqv groups l np H hcov

theorem excludeEquiv_keeps_old (eqv : Nat → Nat → Bool) (groups : List (List Nat)) (l : List KPoint) (np : Nat)
    (i : Nat) (hi : i < l.length - np) :
    ((excludeEquivWith eqv groups l np)[i]?).map kkey = (l[i]?).map kkey :=
  excludeEquivWith_keeps_old eqv groups l np i hi

/-- the single group in index order used by the model visits every pair -/
theorem single_group_covers (n : Nat) (i j : Nat) (hij : i < j) (hj : j < n) : (i, j) ∈ groupPairs [List.range n] := by
  unfold groupPairs
  simp only [List.flatMap_cons, List.flatMap_nil, List.append_nil, List.mem_flatMap, List.mem_map, List.mem_range,
    Prod.mk.injEq]
  exact ⟨i, by omega, j, hj, rfl, rfl⟩

/-- non-vacuity: "same parity" on 5 points of which the first two are old -/
example : EqvHyp (fun i j => i % 2 == j % 2) 2 5 :=
  { refl := fun i _ => by simp
    symm := fun i j _ _ h => by simp only [beq_iff_eq] at h ⊢; omega
    trans := fun i j k _ _ _ h h' => by simp only [beq_iff_eq] at h h' ⊢; omega
    old := fun i j hi hj hne => by simp only [beq_eq_false_iff_ne, ne_eq]; omega }

/-! ## T4'' — the pre-filter key `distGamma` of `exclude_equiv_points` (distance from `K % 1` to the nearest lattice
    point, searched among the corners `[-n, n]^3`; the code uses n = 3).  The key equals the true minimal distance as
    soon as the box contains a minimiser, so two symmetry-equivalent points (same true distance) get the same key and
    fall into the same group - the hypothesis `hcov` of `excludeEquiv_spec`.  For a sheared (non-reduced) basis the box
    `±1` misses the minimiser: two equivalent points get different keys and would never be compared, `±3` does not.
    (This part of the model is tied to the code by the oracle on sheared lattices, not by a protocol line.) -/

theorem distGamma_is_true_distance (g : Gram) (n : Nat) (k : V3) (m : Rat)
    (hlow : ∀ c ∈ boxCorners n, m ≤ g.sq ((fracV k).sub c))
    (hatt : ∃ c ∈ boxCorners n, g.sq ((fracV k).sub c) = m) : distGammaSq g n k = m :=
  distGammaSq_eq g n k m hlow hatt

/-- two points with the same true distance `m` whose minimisers lie in the box get the same key -/
theorem distGamma_equal_for_equivalent (g : Gram) (n : Nat) (k k' : V3) (m : Rat)
    (h1 : ∀ c ∈ boxCorners n, m ≤ g.sq ((fracV k).sub c)) (a1 : ∃ c ∈ boxCorners n, g.sq ((fracV k).sub c) = m)
    (h2 : ∀ c ∈ boxCorners n, m ≤ g.sq ((fracV k').sub c)) (a2 : ∃ c ∈ boxCorners n, g.sq ((fracV k').sub c) = m) :
    distGammaSq g n k = distGammaSq g n k' := by
  rw [distGammaSq_eq g n k m h1 a1, distGammaSq_eq g n k' m h2 a2]

/-- sheared basis b3 = 2 b1 + z (Gram 1,0,2,1,0,5): K = (1/8, 0, 5/8) and its image -K under a two-fold axis -/
theorem narrow_box_splits_equivalent_points :
    let g : Gram := ⟨1, 0, 2, 1, 0, 5⟩
    distGammaSq g 1 ⟨1/8, 0, 5/8⟩ ≠ distGammaSq g 1 ⟨-1/8, 0, -5/8⟩ ∧
    distGammaSq g 3 ⟨1/8, 0, 5/8⟩ = distGammaSq g 3 ⟨-1/8, 0, -5/8⟩ := by
  decide +kernel

example : distGammaSq ⟨1, 0, 0, 1, 0, 1⟩ 1 ⟨1/4, 0, 0⟩ = 1/16 :=
  distGamma_is_true_distance _ _ _ _ (by decide +kernel) (by decide +kernel)

/-! ## T5 — every refinement history keeps `Σ factor = 1` and `factor ≥ 0` -/

theorem refineStep_conserves (syms : List Sym) (useSym : Bool) (per : Bool × Bool × Bool) (l : List KPoint)
    (op : Idx × List Nat) (h1 : 0 < op.1.1) (h2 : 0 < op.1.2.1) (h3 : 0 < op.1.2.2) :
    totalW (refineStep syms useSym per l op) = totalW l :=
  refineStep_total syms useSym per l op h1 h2 h3

/-- for all symmetry lists, grids, periodicity masks, and all sequences of (refinement mesh, selected indices) -/
theorem history_invariant (syms : List Sym) (div : Idx) (useSym : Bool) (per : Bool × Bool × Bool)
    (ops : List (Idx × List Nat))
    (h1 : 0 < div.1) (h2 : 0 < div.2.1) (h3 : 0 < div.2.2)
    (hops : ∀ op ∈ ops, 0 < op.1.1 ∧ 0 < op.1.2.1 ∧ 0 < op.1.2.2) :
    totalW (runHistory syms div useSym per ops) = 1 ∧
    ∀ k ∈ runHistory syms div useSym per ops, 0 ≤ k.factor := by
  unfold runHistory
  obtain ⟨a, b⟩ := getKList_total syms div useSym h1 h2 h3
  generalize getKList syms div useSym = l at a b
  induction ops generalizing l with
  | nil => exact ⟨a, b⟩
  | cons op ops ih =>
    simp only [List.foldl_cons]
    obtain ⟨p1, p2, p3⟩ := hops op (by simp)
    apply ih (fun o ho => hops o (by simp [ho]))
    · rw [refineStep_total syms useSym per l op p1 p2 p3]; exact a
    · exact refineStep_nonneg syms useSym per l op b

/-! ## T5' — restart of run() from a stored iteration: the stored factor vector of that iteration (shorter than the
    stored K-list when later iterations created more points) is padded with zeros.  Then the weights of the restarted
    list are exactly the stored ones followed by zeros: every point created after that iteration is dead, positions,
    cells and levels are untouched, and the total is the stored total (= 1).  Without the padding the later points keep
    the weight they were pickled with and the total exceeds 1. -/

theorem restart_weights (l : List KPoint) (stored : List Rat) (h : stored.length ≤ l.length) :
    (restartWeights l stored).map KPoint.factor = stored ++ List.replicate (l.length - stored.length) 0 ∧
    totalW (restartWeights l stored) = stored.sum ∧
    (restartWeights l stored).map (fun k => (k.K, k.dK, k.level)) = l.map (fun k => (k.K, k.dK, k.level)) ∧
    ((∀ f ∈ stored, 0 ≤ f) → ∀ k ∈ restartWeights l stored, 0 ≤ k.factor) := by
  have e : (restartWeights l stored).map KPoint.factor = padFactors stored l.length :=
    setFactors_factors l _ (padFactors_length stored l.length h)
  refine ⟨e, ?_, setFactors_keys l _, ?_⟩
  · unfold totalW; rw [e, padFactors_sum]
  · intro hs k hk
    have : k.factor ∈ (restartWeights l stored).map KPoint.factor := List.mem_map.mpr ⟨k, hk, rfl⟩
    rw [e] at this
    unfold padFactors at this
    rcases List.mem_append.mp this with h1 | h1
    · exact hs _ h1
    · rw [(List.mem_replicate.mp h1).2]

/-- a history that reaches the restart: after any refinement history the weights sum to 1; restarting from the
    factors of an earlier state of the same list (a prefix-length vector with sum 1) gives total weight 1 again -/
theorem restart_total_one (l : List KPoint) (stored : List Rat) (h : stored.length ≤ l.length) (h1 : stored.sum = 1) :
    totalW (restartWeights l stored) = 1 := by
  rw [(restart_weights l stored h).2.1, h1]

/-- the counterexample without padding: one point of weight 1 was divided into two children (stored list: dead parent
    + two children of 1/2); restarting from the state before the division gives the parent its weight back - with the
    padding the children die (total 1), without it they keep 1/2 each (total 2) -/
theorem restart_without_padding_gains_weight :
    let k : Rat → KPoint := fun w => { K := ⟨0, 0, 0⟩, dK := ⟨1, 1, 1⟩, factor := w, level := 0 }
    totalW (restartWeights [k 0, k (1/2), k (1/2)] [1]) = 1 ∧
    totalW (restartWeightsNoPad [k 0, k (1/2), k (1/2)] [1]) = 2 := by
  decide +kernel

/-! ## T6 — tetrahedral grids -/

/-- each piece of an edge split (any edge, any `ndiv > 0`) has `1/ndiv` of the volume and of the weight -/
theorem divideTet_volume (t : Tet) (e n : Nat) (refine : Bool) (hn : 0 < n) :
    (divideTet t e n refine).length = n ∧
    ∀ c ∈ divideTet t e n refine, c.volume = t.volume / n ∧ c.factor = t.factor / n :=
  ⟨divideTet_length t e n refine, fun c hc => divideTet_mem t e n refine c hc hn⟩

/-- the pieces keep the two vertices off the edge and put the other two on the edge at `i/ndiv`, `(i+1)/ndiv`
    (absolute positions: the re-centring in `KpointBZtetra.__init__` does not move anything) -/
theorem divideTet_vertices (t : Tet) (e n : Nat) (refine : Bool) (i : Nat) (hi : i < n) :
    ∃ c, (divideTet t e n refine)[i]? = some c ∧
      c.absVert 0 = t.absVert (edgeComp e).1 ∧ c.absVert 1 = t.absVert (edgeComp e).2 ∧
      c.absVert 2 = t.K.add ((t.vert (edgeEnds e).1).add
        (V3.smul (i : Rat) (V3.smul (1 / (n : Rat)) ((t.vert (edgeEnds e).2).sub (t.vert (edgeEnds e).1))))) ∧
      c.absVert 3 = t.K.add ((t.vert (edgeEnds e).1).add
        (V3.smul ((i : Rat) + 1) (V3.smul (1 / (n : Rat)) ((t.vert (edgeEnds e).2).sub (t.vert (edgeEnds e).1))))) := by
  unfold divideTet
  simp only [List.getElem?_map, List.getElem?_range hi, Option.map_some]
  refine ⟨_, rfl, ?_⟩
  obtain ⟨a, b, c, d⟩ := mkTet_absVert (t.vert (edgeComp e).1) (t.vert (edgeComp e).2)
    ((t.vert (edgeEnds e).1).add (V3.smul (i : Rat) (V3.smul (1 / (n : Rat)) ((t.vert (edgeEnds e).2).sub (t.vert (edgeEnds e).1)))))
    ((t.vert (edgeEnds e).1).add (V3.smul ((i : Rat) + 1) (V3.smul (1 / (n : Rat)) ((t.vert (edgeEnds e).2).sub (t.vert (edgeEnds e).1)))))
    t.K (t.factor / n) (t.level + (if refine then 1 else 0)) (t.split + (if refine then 0 else 1))
  exact ⟨a, b, c, d⟩

/-- the split loops (`split_tetra_volume`, `split_tetra_size`) keep total weight and total volume, whatever the
    break test, the selection, the edge choice and the number of passes -/
theorem splitLoop_conserves (stop : List Tet → Bool) (sel : Tet → Bool) (edge : Tet → Nat) (fuel : Nat) (l : List Tet) :
    tetTotalW (splitLoop stop sel edge fuel l) = tetTotalW l ∧
    tetTotalVol (splitLoop stop sel edge fuel l) = tetTotalVol l :=
  splitLoop_totals stop sel edge fuel l

/-- the (repaired) break test `max <= threshold` holds exactly when no tetrahedron would be split, so a pass that is
    executed always splits something, and a pass that would split nothing is never executed … -/
theorem split_stops_iff_nothing_to_split (f : Tet → Rat) (thr : Rat) (hthr : 0 ≤ thr) (l : List Tet) :
    decide (maxOf (l.map f) ≤ thr) = true ↔ ∀ t ∈ l, decide (f t > thr) = false := by
  rw [decide_eq_true_iff, maxOf_le_iff _ _ hthr]
  simp only [List.mem_map, forall_exists_index, and_imp, forall_apply_eq_imp_iff₂, decide_eq_false_iff_not, not_lt]

/-- … and the volume loop ends: when every starting volume is at most `2^n · vmax` (`vmax > 0`), `n + 1` passes
    suffice, after which every tetrahedron has volume `≤ vmax` (extra fuel changes nothing: the loop has stopped). -/
theorem splitVolume_terminates (g : Gram) (vmax : Rat) (hv : 0 < vmax) (n : Nat) (l : List Tet)
    (hl : ∀ t ∈ l, t.volume ≤ 2 ^ n * vmax) :
    ∀ t ∈ splitVolume g vmax (n + 1) l, t.volume ≤ vmax :=
  splitVolume_done g vmax hv n l hl

/-- the defect that was repaired: with the original break test `max < threshold` a list whose largest volume EQUALS
    the threshold is not accepted, although the pass selects nothing and returns the list unchanged - the `while True`
    loop of `split_tetra_volume` / `split_tetra_size` never ended (e.g. cubic a = 1.25, length = 10, NKFFT = 2) -/
theorem old_break_test_loops_on_tie (f : Tet → Rat) (thr : Rat) (hthr : 0 ≤ thr) (edge : Tet → Nat) (l : List Tet)
    (htie : maxOf (l.map f) = thr) :
    decide (maxOf (l.map f) < thr) = false ∧ splitPass (fun t => decide (f t > thr)) edge l = l := by
  refine ⟨by simp [htie], splitPass_none _ _ l ?_⟩
  exact (split_stops_iff_nothing_to_split f thr hthr l).mp (by simp [htie])

/-! ## T6' — the pieces of an edge split TILE the parent tetrahedron (any edge `e`, any `ndiv = n > 0`), in the
    parent's own frame (`divideTet_vertices`: the pieces sit at `t.K +` these vertices): a point lies in the closed
    parent iff it lies in one of the closed pieces, and for a non-degenerate parent no point lies in the interior of two
    different pieces. -/

/-- the four vertices of piece `i` (relative to the parent's `K`), as `divideTet` passes them to `mkTet` -/
def pieceVerts (t : Tet) (e n i : Nat) : V3 × V3 × V3 × V3 := pieceQ (quadOf t e) n i

theorem divideTet_pieces (t : Tet) (e n : Nat) (refine : Bool) :
    divideTet t e n refine = (List.range n).map fun i : Nat =>
      mkTet (pieceVerts t e n i).1 (pieceVerts t e n i).2.1 (pieceVerts t e n i).2.2.1 (pieceVerts t e n i).2.2.2
        t.K (t.factor / (n : Rat)) (t.level + (if refine then 1 else 0)) (t.split + (if refine then 0 else 1)) := rfl

theorem divideTet_tiles (t : Tet) (e n : Nat) (hn : 0 < n) (p : V3) :
    (inTetClosed (t.v0, t.v1, t.v2, t.v3) p ↔ ∃ i, i < n ∧ inTetClosed (pieceVerts t e n i) p) ∧
    (t.volume ≠ 0 → ∀ i j, i < n → j < n → i ≠ j →
      inTetOpen (pieceVerts t e n i) p → inTetOpen (pieceVerts t e n j) p → False) := by
  constructor
  · rw [quadOf_closed t e p]
    constructor
    · exact pieces_cover (quadOf t e) n hn p
    · rintro ⟨i, hi, h⟩; exact piece_inside (quadOf t e) n i hn hi p h
  · intro hv i j _ _ hij h1 h2
    have hD : det3 (t.v1.sub t.v0) (t.v2.sub t.v0) (t.v3.sub t.v0) ≠ 0 := by
      intro h0
      apply hv
      unfold Tet.volume volume4
      rw [h0]; simp [absR]
    have hq : det3 ((quadOf t e).2.1.sub (quadOf t e).1) ((quadOf t e).2.2.1.sub (quadOf t e).1)
        ((quadOf t e).2.2.2.sub (quadOf t e).1) ≠ 0 := by
      rcases quadOf_det t e with h | h <;> rw [h]
      · exact hD
      · exact neg_ne_zero.mpr hD
    rcases Nat.lt_or_gt_of_ne hij with h | h
    · exact pieces_disjoint (quadOf t e) hq n i j hn h p h1 h2
    · exact pieces_disjoint (quadOf t e) hq n j i hn h p h2 h1

/-- non-vacuity: the corner tetrahedron of the default set has non-zero volume; its centre lies in exactly the
    pieces the theorem allows -/
example : ((initTets fiveVerts none).getD 0 default).volume ≠ 0 := by decide +kernel

/-- the fuel of the model is no restriction: once the result passes the break test, any additional fuel returns the
    same list (`split_tetra_volume`, `split_tetra_size`, any break test / selection / edge choice) -/
theorem splitLoop_fuel_irrelevant (stop : List Tet → Bool) (sel : Tet → Bool) (edge : Tet → Nat) (a d : Nat)
    (l : List Tet) (h : stop (splitLoop stop sel edge a l) = true) :
    splitLoop stop sel edge (a + d) l = splitLoop stop sel edge a l :=
  splitLoop_stable stop sel edge a d l h

/-- CONDITIONAL termination of `split_tetra_size`.  The hypothesis `hcontr` - `m` passes of the splitting rule bring
    every squared size down to a quarter of the previous bound or below the threshold - is a geometric property of
    longest-edge bisection that is NOT proved here (the unconditional statement remains open; the oracle checks
    termination on the real code under a time guard).  Given it, lists with squared sizes `≤ 4^n · thr` are finished
    after `m n + 1` passes and every squared size is `≤ thr`. -/
theorem splitSize_terminates_of_contraction (g : Gram) (thr : Rat) (hthr : 0 < thr) (m : Nat)
    (hcontr : ∀ (B : Rat) (l : List Tet), (∀ t ∈ l, t.sizeSq g ≤ B) →
      ∀ t ∈ (splitPass (fun t => decide (t.sizeSq g > thr)) (Tet.iMaxEdge g))^[m] l, t.sizeSq g ≤ max thr (B / 4))
    (n : Nat) (l : List Tet) (hl : ∀ t ∈ l, t.sizeSq g ≤ 4 ^ n * thr) :
    ∀ t ∈ splitSize g thr (m * n + 1) l, t.sizeSq g ≤ thr :=
  splitSize_done g thr hthr m hcontr n l hl

/-- a concrete run: the five default tetrahedra, cubic metric, squared threshold 3/4: five passes suffice (the result
    passes the break test), so by `splitLoop_fuel_irrelevant` any larger fuel gives the same 64 tetrahedra -/
example :
    let g : Gram := ⟨1, 0, 0, 1, 0, 1⟩
    decide (maxOf ((splitSize g (3/4) 5 (initTets fiveVerts none)).map (Tet.sizeSq g)) ≤ 3/4) = true ∧
    (splitSize g (3/4) 5 (initTets fiveVerts none)).length = 64 := by
  decide +kernel

/-- default weights: each starting tetrahedron gets `volume / Σ volume` (so they sum to 1 when the total is not 0);
    with explicit weights it gets `weight · volume` -/
theorem initTets_weights (verts : List (V3 × V3 × V3 × V3))
    (hv : (verts.map fun q => volume4 q.1 q.2.1 q.2.2.1 q.2.2.2).sum ≠ 0) :
    (initTets verts none).map Tet.factor =
      (verts.map fun q => volume4 q.1 q.2.1 q.2.2.1 q.2.2.2 / (verts.map fun q => volume4 q.1 q.2.1 q.2.2.1 q.2.2.2).sum) ∧
    tetTotalW (initTets verts none) = 1 := by
  have e : (initTets verts none).map Tet.factor =
      (verts.map fun q => volume4 q.1 q.2.1 q.2.2.1 q.2.2.2 / (verts.map fun q => volume4 q.1 q.2.1 q.2.2.1 q.2.2.2).sum) := by
    unfold initTets
    simp only [List.map_map]
    have := initTets_factors verts
      ((verts.map fun q => volume4 q.1 q.2.1 q.2.2.1 q.2.2.2).map fun v => v / (verts.map fun q => volume4 q.1 q.2.1 q.2.2.1 q.2.2.2).sum)
      (by simp)
    simp only [List.map_map] at this
    exact this
  refine ⟨e, ?_⟩
  unfold tetTotalW
  rw [e]
  have := sum_map_div ((verts.map fun q => volume4 q.1 q.2.1 q.2.2.1 q.2.2.2).sum) (verts.map fun q => volume4 q.1 q.2.1 q.2.2.1 q.2.2.2)
  simp only [List.map_map] at this
  rw [show (fun q : V3 × V3 × V3 × V3 => volume4 q.1 q.2.1 q.2.2.1 q.2.2.2 / (verts.map fun q => volume4 q.1 q.2.1 q.2.2.1 q.2.2.2).sum)
      = ((fun v => v / (verts.map fun q => volume4 q.1 q.2.1 q.2.2.1 q.2.2.2).sum) ∘ fun q : V3 × V3 × V3 × V3 => volume4 q.1 q.2.1 q.2.2.1 q.2.2.2) from rfl]
  rw [this]
  exact div_self hv

/-- the five default tetrahedra: volumes 1/6,1/6,1/6,1/6,1/3 of the unit cell, weights equal to the volumes -/
theorem five_tetra_volumes :
    (initTets fiveVerts none).map Tet.volume = [1/6, 1/6, 1/6, 1/6, 1/3] ∧
    (initTets fiveVerts none).map Tet.factor = [1/6, 1/6, 1/6, 1/6, 1/3] ∧
    tetTotalVol (initTets fiveVerts none) = 1 ∧ tetTotalW (initTets fiveVerts none) = 1 := by
  decide +kernel

/-- every point of the cell `[-1/2, 1/2]³` lies in one of the five (closed) tetrahedra … -/
theorem five_tetra_cover (p : V3) (hx : -1/2 ≤ p.x ∧ p.x ≤ 1/2) (hy : -1/2 ≤ p.y ∧ p.y ≤ 1/2)
    (hz : -1/2 ≤ p.z ∧ p.z ≤ 1/2) : ∃ q ∈ fiveVerts, inTetClosed q p := by
  obtain ⟨x, y, z⟩ := p
  simp only at hx hy hz
  -- shifted coordinates in the unit cube
  by_cases c1 : (x + 1/2) + (y + 1/2) + (z + 1/2) ≤ 1
  · refine ⟨fiveVerts[0], by simp [fiveVerts], 1 - (x + 1/2) - (y + 1/2) - (z + 1/2), x + 1/2, y + 1/2, z + 1/2, ?_⟩
    simp only [fiveVerts, List.getElem_cons_zero, V3.sub, h]
    refine ⟨by linarith, by linarith, by linarith, by linarith, by ring, by ring, by ring, by ring⟩
  by_cases c2 : (x + 1/2) - (y + 1/2) + (z + 1/2) ≥ 1
  · refine ⟨fiveVerts[1], by simp [fiveVerts], (x + 1/2) + (z + 1/2) - (y + 1/2) - 1, 1 - (x + 1/2), 1 - (z + 1/2), y + 1/2, ?_⟩
    simp only [fiveVerts, List.getElem_cons_succ, List.getElem_cons_zero, V3.sub, h]
    refine ⟨by linarith, by linarith, by linarith, by linarith, by ring, by ring, by ring, by ring⟩
  by_cases c3 : (x + 1/2) + (y + 1/2) - (z + 1/2) ≥ 1
  · refine ⟨fiveVerts[2], by simp [fiveVerts], (x + 1/2) + (y + 1/2) - (z + 1/2) - 1, 1 - (y + 1/2), 1 - (x + 1/2), z + 1/2, ?_⟩
    simp only [fiveVerts, List.getElem_cons_succ, List.getElem_cons_zero, V3.sub, h]
    refine ⟨by linarith, by linarith, by linarith, by linarith, by ring, by ring, by ring, by ring⟩
  by_cases c4 : -(x + 1/2) + (y + 1/2) + (z + 1/2) ≥ 1
  · refine ⟨fiveVerts[3], by simp [fiveVerts], (y + 1/2) + (z + 1/2) - (x + 1/2) - 1, 1 - (y + 1/2), 1 - (z + 1/2), x + 1/2, ?_⟩
    simp only [fiveVerts, List.getElem_cons_succ, List.getElem_cons_zero, V3.sub, h]
    refine ⟨by linarith, by linarith, by linarith, by linarith, by ring, by ring, by ring, by ring⟩
  · refine ⟨fiveVerts[4], by simp [fiveVerts], (-(x + 1/2) - (y + 1/2) + (z + 1/2) + 1) / 2,
      (-(x + 1/2) + (y + 1/2) - (z + 1/2) + 1) / 2, ((x + 1/2) - (y + 1/2) - (z + 1/2) + 1) / 2,
      ((x + 1/2) + (y + 1/2) + (z + 1/2) - 1) / 2, ?_⟩
    simp only [fiveVerts, List.getElem_cons_succ, List.getElem_cons_zero, V3.sub, h]
    refine ⟨by linarith, by linarith, by linarith, by linarith, by ring, by ring, by ring, by ring⟩

/-- … every tetrahedron lies inside the cell … -/
theorem five_tetra_inside (p : V3) (q : V3 × V3 × V3 × V3) (hq : q ∈ fiveVerts) (hp : inTetClosed q p) :
    (-1/2 ≤ p.x ∧ p.x ≤ 1/2) ∧ (-1/2 ≤ p.y ∧ p.y ≤ 1/2) ∧ (-1/2 ≤ p.z ∧ p.z ≤ 1/2) := by
  obtain ⟨a, b, c, d, ha, hb, hc, hd, hs, ex, ey, ez⟩ := hp
  simp only [fiveVerts, List.mem_cons, List.not_mem_nil, or_false] at hq
  rcases hq with rfl | rfl | rfl | rfl | rfl <;>
    simp only [V3.sub, h] at ex ey ez <;>
    refine ⟨⟨?_, ?_⟩, ⟨?_, ?_⟩, ⟨?_, ?_⟩⟩ <;> linarith

/-- … and no point lies in the interior of two different ones: the five tetrahedra tile the cell. -/
theorem five_tetra_disjoint (p : V3) (i j : Nat) (hi : i < 5) (hj : j < 5) (hij : i ≠ j)
    (h1 : inTetOpen (fiveVerts.getD i default) p) (h2 : inTetOpen (fiveVerts.getD j default) p) : False := by
  have key : ∀ i j : Nat, i < 5 → j < 5 → i < j →
      inTetOpen (fiveVerts.getD i default) p → inTetOpen (fiveVerts.getD j default) p → False := by
    intro i j hi hj hij h1 h2
    obtain ⟨a, b, c, d, ha, hb, hc, hd, hs, ex, ey, ez⟩ := h1
    obtain ⟨a', b', c', d', ha', hb', hc', hd', hs', ex', ey', ez'⟩ := h2
    interval_cases i <;> interval_cases j
    all_goals
      simp only [fiveVerts, List.getD_cons_zero, List.getD_cons_succ, V3.sub, h] at ex ey ez ex' ey' ez'
      linarith
  rcases Nat.lt_or_gt_of_ne hij with hlt | hlt
  · exact key i j hi hj hlt h1 h2
  · exact key j i hj hi hlt h2 h1

/-! ## non-vacuity: concrete instances -/

example : OrbitHyp (2, 2, 2) (starIdx exampleSyms (2, 2, 2)) := orbitCheck_sound _ _ (by decide +kernel)

example : (getKList exampleSyms (2, 2, 2) true).map KPoint.factor = [1/8, 1/8, 1/4, 1/4, 1/8, 1/8] := by
  decide +kernel

/-- a two-step history with merging of equivalent children; the total weight stays 1 -/
example : (historyStates exampleSyms true (true, true, true) (getKList exampleSyms (2, 2, 2) true)
      [((2, 2, 2), [2]), ((2, 1, 1), [0, 7])]).map (fun l => (l.length, totalW l)) = [(6, 1), (8, 1), (11, 1)] := by
  decide +kernel

/-- the hypotheses of `divide_tiles` / `splitVolume_terminates` are satisfiable: a cell of the 4x4x2 grid divided 2x2x3,
    and the five default tetrahedra with `vmax = 1/50` (all volumes `≤ 2^5/50`) -/
example (p : V3) :
    (inCell { K := ⟨1/4, 0, 1/2⟩, dK := ⟨1/4, 1/4, 1/2⟩, factor := 1/32, level := 0 } p ↔
      ∃ c : Idx, (c.1 < 2 ∧ c.2.1 < 2 ∧ c.2.2 < 3) ∧
        inCell (child { K := ⟨1/4, 0, 1/2⟩, dK := ⟨1/4, 1/4, 1/2⟩, factor := 1/32, level := 0 } (2, 2, 3) c) p) :=
  (divide_tiles _ (2, 2, 3) ⟨by norm_num, by norm_num, by norm_num⟩ ⟨by norm_num, by norm_num, by norm_num⟩ p).1

example (g : Gram) : ∀ t ∈ splitVolume g (1/50) 6 (initTets fiveVerts none), t.volume ≤ 1/50 :=
  splitVolume_terminates g (1/50) (by norm_num) 5 _ (by
    intro t ht
    have h : ∀ t ∈ initTets fiveVerts none, t.volume ≤ 2 ^ 5 * (1/50 : Rat) := by decide +kernel
    exact h t ht)

end WB.C06
