/-
  C19 — Wannier90 files written by the code can be read back: property theorems.

  `ρ` = "print with the format of the file (`%17.12f`), parse again"; nothing is assumed about it.
-/
import WB.Lemmas.C19Text
import WB.Lemmas.C19Dict

namespace WB.C19
open WB.C18

/-! ## text files -/

/-- T1a.  `EIG.from_w90_file ∘ EIG.to_w90_file`: for every NK ≥ 1 and NB ≥ 1 (1×1 included) the reader succeeds
    (both index-column asserts hold, the reshape fits), finds NK and NB from the column maxima, and `data[ik][ib]`
    is the printed value of the original. -/
theorem eig_roundtrip {V : Type} [IntCast V] (ρ : V → V) (NK NB : Nat) (E : Nat → Nat → V) (hK : 0 < NK) (hB : 0 < NB) :
    ∃ r, readEig (writeEig ρ NK NB E) = some r ∧ r.NK = NK ∧ r.NB = NB ∧
      ∀ ik ib, ik < NK → ib < NB → r.E ik ib = ρ (E ik ib) :=
  readEig_writeEig ρ NK NB E hK hB

/-- T1a' (documentation of the repaired defect F16, about the OLD reader only).  Before `ndmin=2` was added, the file
    of one k-point with one band — a single line — made `np.loadtxt` return a 1-D array and the reader raise. -/
theorem old_eig_reader_single_row_fails {V : Type} [IntCast V] (ρ : V → V) (E : Nat → Nat → V) :
    readEigOld (writeEig ρ 1 1 E) = none := by
  simp [readEigOld, readEigWith, writeEig]

/-- T1b.  `AMN.from_w90_file ∘ AMN.to_w90_file`: header `(NB, NK, NW)` and, through the writer's loop order
    `ik, iw, ib` and the reader's `reshape((NK, NW, NB)).transpose(0, 2, 1)`, every `data[ik][ib, iw]` —
    for all sizes. -/
theorem amn_roundtrip {V : Type} [IntCast V] (ρ : V → V) (NK NB NW : Nat) (A : Nat → Nat → Nat → V × V) :
    (readAmn (writeAmn ρ NK NB NW A)).NK = NK ∧ (readAmn (writeAmn ρ NK NB NW A)).NB = NB ∧
    (readAmn (writeAmn ρ NK NB NW A)).NW = NW ∧
    ∀ ik ib iw, ik < NK → ib < NB → iw < NW →
      (readAmn (writeAmn ρ NK NB NW A)).A ik ib iw = (ρ (A ik ib iw).1, ρ (A ik ib iw).2) :=
  readAmn_writeAmn ρ NK NB NW A

/-- T1c.  The loop nest of `MMN.to_w90_file` IS consistent with `MMN.from_w90_file` once the neighbour table and
    the G vectors are available: sizes, the k-point assert, neighbours, G and every `data[ik][ib, m, n]` come
    back exactly (values are printed with `str`, which round-trips).  What is broken in /repo (finding F3) is only
    that the method looks for `self.neighbours` / `self.G`, which live in `BKVectors`. -/
theorem mmn_roundtrip {V : Type} [IntCast V] (NK NNB NB : Nat) (nbr : Nat → Nat → Int) (G : Nat → Nat → Vec3)
    (M : Nat → Nat → Nat → Nat → V × V) :
    let r := readMmn (writeMmn NK NNB NB nbr G M)
    r.NK = NK ∧ r.NNB = NNB ∧ r.NB = NB ∧ r.headOk = true ∧
    (∀ ik ib, ik < NK → ib < NNB → r.nbr ik ib = nbr ik ib ∧ r.G ik ib = G ik ib) ∧
    (∀ ik ib m n, ik < NK → ib < NNB → m < NB → n < NB → r.M ik ib m n = M ik ib m n) :=
  readMmn_writeMmn NK NNB NB nbr G M

/-- non-vacuity: a 2 k-point, 3 band, 2 Wannier-function AMN and a 2×2×3 MMN at `Rat` -/
example :
    let A := carr3 3 2 ((List.range 24).map (fun (i : Nat) => (i : Rat) / 3))
    (List.range 2).all (fun ik => (List.range 3).all (fun ib => (List.range 2).all (fun iw =>
      (readAmn (writeAmn id 2 3 2 A)).A ik ib iw == A ik ib iw))) = true := by
  decide +kernel

example : (readEig (writeEig id 2 3 (arr2 3 [1, 2, 3, 4, 5, (6 : Rat)]))).map
    (fun r => (r.NK, r.NB, r.E 0 0, r.E 0 2, r.E 1 0, r.E 1 2)) = some (2, 3, 1, 3, 4, 6) := by
  decide +kernel

/-! ## npz dictionaries -/

/-- T2.  `keydic_to_dic(dic_to_keydic(d, t), t) = d` inside the dictionary that `as_dict` stores, in the
    original key order — provided no other stored key starts with `t_` (plain tags, and the keys of the other
    dictionary tags) and `int(str(k)) = k`. -/
theorem keydic_roundtrip {A : Type} (render : Int → Name) (parse : Name → Int) (hpr : ∀ k, parse (render k) = k)
    (o : Obj A) (t : Name) (d : List (Int × A)) (hmem : (t, d) ∈ o.dicts)
    (hnd : (o.dicts.map (·.1)).Nodup)
    (hkeys : ((o.tags ++ o.dicts.flatMap (fun t => dicToKeydic render t.1 t.2)).map (·.1)).Nodup)
    (htags : ∀ p ∈ o.tags, (t ++ ['_']).isPrefixOf p.1 = false)
    (hsep : ∀ u ∈ o.dicts, u.1 ≠ t → ∀ k, (t ++ ['_']).isPrefixOf (keyOf render u.1 k) = false) :
    keydicToDic parse t (asDict render o) = d := by
  have has : asDict render o = o.tags ++ o.dicts.flatMap (fun t => dicToKeydic render t.1 t.2) :=
    dictOf_nodup _ hkeys
  rw [has, keydicToDic_append, keydicToDic_none parse t o.tags htags,
    keydicToDic_flatMap render parse hpr t d o.dicts hmem hnd hsep]
  rfl

/-- T2'.  The side condition of T2 follows from a condition on the TAGS alone (this is what is re-checked on the
    live tag tables of every `SavableNPZ` subclass on every run): `t ≠ u`, `t_` is not a prefix of `u_`, and the
    decimal rendering of an integer contains no underscore. -/
theorem keydic_side_condition (render : Int → Name) (t u : Name) (hne : t ≠ u)
    (hpre : (t ++ ['_']).isPrefixOf (u ++ ['_']) = false) (hr : ∀ k, '_' ∉ render k) (k : Int) :
    (t ++ ['_']).isPrefixOf (keyOf render u k) = false :=
  sep_of_tags render t u hne hpre hr k

/-- T2''.  The whole object: `from_dict(as_dict(o)) = o` — every tag with its value and every dictionary with its
    keys, values and order. -/
theorem npz_object_roundtrip {A : Type} (render : Int → Name) (parse : Name → Int) (hpr : ∀ k, parse (render k) = k)
    (o : Obj A) (hnd : (o.dicts.map (·.1)).Nodup)
    (hkeys : ((o.tags ++ o.dicts.flatMap (fun t => dicToKeydic render t.1 t.2)).map (·.1)).Nodup)
    (htags : ∀ t ∈ o.dicts, ∀ p ∈ o.tags, (t.1 ++ ['_']).isPrefixOf p.1 = false)
    (hsep : ∀ t ∈ o.dicts, ∀ u ∈ o.dicts, u.1 ≠ t.1 → ∀ k, (t.1 ++ ['_']).isPrefixOf (keyOf render u.1 k) = false) :
    fromDict parse (o.tags.map (·.1)) (o.dicts.map (·.1)) (asDict render o) = o :=
  fromDict_asDict render parse hpr o hnd hkeys htags hsep

/-- T3.  The reloaded object compares equal to the original under `W90_file.equals` (same key set, `allclose` on
    every key) for every reflexive closeness test — i.e. for all data without NaN. -/
theorem equals_on_roundtrip {A : Type} (render : Int → Name) (parse : Name → Int) (hpr : ∀ k, parse (render k) = k)
    (close : A → A → Bool) (hc : ∀ a, close a a = true)
    (o : Obj A) (hnd : (o.dicts.map (·.1)).Nodup)
    (hkeys : ((o.tags ++ o.dicts.flatMap (fun t => dicToKeydic render t.1 t.2)).map (·.1)).Nodup)
    (htags : ∀ t ∈ o.dicts, ∀ p ∈ o.tags, (t.1 ++ ['_']).isPrefixOf p.1 = false)
    (hsep : ∀ t ∈ o.dicts, ∀ u ∈ o.dicts, u.1 ≠ t.1 → ∀ k, (t.1 ++ ['_']).isPrefixOf (keyOf render u.1 k) = false)
    (hdk : ∀ t ∈ o.dicts, (t.2.map (·.1)).Nodup) :
    ∀ t ∈ o.dicts, ∃ d', (t.1, d') ∈ (fromDict parse (o.tags.map (·.1)) (o.dicts.map (·.1)) (asDict render o)).dicts ∧
      dictEquals close t.2 d' = true := by
  intro t ht
  rw [fromDict_asDict render parse hpr o hnd hkeys htags hsep]
  exact ⟨t.2, ht, dictEquals_refl close hc t.2 (hdk t ht)⟩

/-- non-vacuity: an MMN-like object (tags NK; dictionaries data and bk_reorder with sparse keys 0, 2, 11) -/
example :
    let o : Obj Nat := { tags := [(['N', 'K'], 0)],
                         dicts := [(['d', 'a', 't', 'a'], [(0, 1000), (2, 1001), (11, 1002)]),
                                   (['b', 'k', '_', 'r', 'e', 'o', 'r', 'd', 'e', 'r'], [(0, 2000), (2, 2001), (11, 2002)])] }
    let r := fromDict parse10 (o.tags.map (·.1)) (o.dicts.map (·.1)) (asDict render10 o)
    r.tags = o.tags ∧ r.dicts = o.dicts ∧ o.dicts.length = 2 := by
  decide +kernel

/-! ## histories: repeated saves of one container -/

/-- T5.  `to_npz` is a function of the CURRENT contents of the container only: after ANY history of saves (to the
    same or other seednames, so with any files already on disk), in-place edits (select_bands, select_kpoints,
    direct edits of `.data`: same object identity, new content) and replaced files, a save followed by `from_npz`
    of the same seedname returns every file with the content it has NOW — provided the files of the container are
    written to different paths (the `mmn_ud` collision F15 excluded). -/
theorem save_after_any_history {A : Type} (ext : Name → Name) (hist : List (WOp A)) (s0 : WState A) (seed : Name)
    (hpaths : ((wrun ext hist s0).cont.map (fun p => npzPath ext seed p.1)).Nodup) :
    let s := wrun ext (hist ++ [WOp.save seed]) s0
    loadFrom ext seed (s.cont.map (·.1)) s.disk = s.cont.map (fun p => (p.1, p.2.content)) := by
  intro s
  have hs : s = wstep ext (wrun ext hist s0) (WOp.save seed) := by
    simp only [s, wrun, List.foldl_append, List.foldl_cons, List.foldl_nil]
  rw [hs]
  simp only [wstep, loadFrom]
  rw [List.filterMap_map]
  apply filterMap_eq_map_of_some
  intro p hp
  simp only [Function.comp]
  rw [saveTo_get ext seed _ _ hpaths p hp]
  rfl

/-- T5'.  In particular what a save leaves for `from_npz` does not depend on what was saved before: two containers
    with the same current contents but different pasts (different disks, different object identities) load equal. -/
theorem save_independent_of_past {A : Type} (ext : Name → Name) (h1 h2 : List (WOp A)) (s1 s2 : WState A) (seed : Name)
    (hp1 : ((wrun ext h1 s1).cont.map (fun p => npzPath ext seed p.1)).Nodup)
    (hp2 : ((wrun ext h2 s2).cont.map (fun p => npzPath ext seed p.1)).Nodup)
    (hsame : (wrun ext h1 s1).cont.map (fun p => (p.1, p.2.content)) = (wrun ext h2 s2).cont.map (fun p => (p.1, p.2.content))) :
    let t1 := wrun ext (h1 ++ [WOp.save seed]) s1
    let t2 := wrun ext (h2 ++ [WOp.save seed]) s2
    loadFrom ext seed (t1.cont.map (·.1)) t1.disk = loadFrom ext seed (t2.cont.map (·.1)) t2.disk := by
  intro t1 t2
  have e1 := save_after_any_history ext h1 s1 seed hp1
  have e2 := save_after_any_history ext h2 s2 seed hp2
  have c1 : t1.cont = (wrun ext h1 s1).cont := by
    simp only [t1, wrun, List.foldl_append, List.foldl_cons, List.foldl_nil, wstep]
  have c2 : t2.cont = (wrun ext h2 s2).cont := by
    simp only [t2, wrun, List.foldl_append, List.foldl_cons, List.foldl_nil, wstep]
  simp only at e1 e2
  rw [e1, e2, c1, c2, hsame]

/-- T5''.  Counterexample for the rule "skip a file whose object (identity) was already written to this path":
    save, edit the file in place (5 bands → 3, same identity), save again under the same seedname — the cached save
    leaves the stale 5 on disk, the real `to_npz` (which rewrites every file) gives 3. -/
theorem skip_same_identity_is_stale :
    let eig : Name := ['e', 'i', 'g']
    let seed : Name := ['x']
    let s0 : WState Nat := { cont := [(eig, ⟨7, 5⟩)], disk := [], cache := [] }
    let edit := fun (s : WState Nat) => wstep id s (WOp.edit eig 3)
    loadFrom id seed [eig] (saveCached id seed (edit (saveCached id seed s0))).disk = [(eig, 5)] ∧
    loadFrom id seed [eig] (wrun id [WOp.save seed, WOp.edit eig 3, WOp.save seed] s0).disk = [(eig, 3)] := by
  decide +kernel

/-! ## WannierData: file names -/

/-- T4.  For every key other than `symmetrizer`, `mmn_ud`, `mmn_du`, `from_npz` looks for exactly the file that
    `to_npz` wrote; for `symmetrizer` it does when the symmetrizer's extension is "sawf". -/
theorem wd_names_agree (ext : Name → Name) (key : Name) (h1 : key ≠ nSym) (h2 : key ≠ nUd) (h3 : key ≠ nDu) :
    wdReadName ext key = wdWriteName ext key := by
  simp [wdReadName, wdWriteName, h1, h2, h3]

theorem wd_symmetrizer_name (ext : Name → Name) (h : ext nSym = nSawf) :
    wdReadName ext nSym = wdWriteName ext nSym := by
  simp [wdReadName, wdWriteName, h]

/-- T4'.  The keys `mmn_ud` / `mmn_du` hold MMN objects (extension "mmn"): `to_npz` writes them to the file of
    the plain `mmn` key (overwriting it) and `from_npz` looks for a different file — finding F15. -/
theorem wd_mmn_ud_name_mismatch (ext : Name → Name) (h : ext nUd = nMmn) (h' : ext nMmn = nMmn) :
    wdReadName ext nUd ≠ wdWriteName ext nUd ∧ wdWriteName ext nUd = wdWriteName ext nMmn := by
  refine ⟨?_, by simp [wdWriteName, h, h']⟩
  have e1 : wdReadName ext nUd = nUd := by
    unfold wdReadName
    rw [if_neg (by decide), if_pos (Or.inl rfl)]
  rw [e1, wdWriteName, h]
  decide

end WB.C19
