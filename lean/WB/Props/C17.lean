/-
  C17 — property theorems: every smoother is linear, preserves constants, acts along one axis only,
  smoothers of different axes commute, `dataSmooth` is the composition over all energy axes in any order,
  void smoothers change nothing.  `K` is any field (ℝ, ℂ, ℚ …).
-/
import WB.Lemmas.C17

namespace WB.C17
open Finset

variable {K : Type} [Field K]

/-! ## one smoother -/

/-- T1 (linear).  `s(c·A + d·B) = c·s(A) + d·s(B)` along any axis, for all arrays, scalars, kernels and sizes
    (no hypothesis on the kernel: also true when a window sum vanishes). -/
theorem smoother_linear (s : Smoother K) (a : Nat) (A B : Arr K) (c d : K) :
    smoothAxis s a (fun x => c * A x + d * B x) = fun x => c * smoothAxis s a A x + d * smoothAxis s a B x := by
  funext idx
  exact smooth1_linear s (fun j => A (upd idx a j)) (fun j => B (upd idx a j)) c d (idx a)

/-- T2 (constants).  A constant array is mapped to the same constant wherever the window sum of the kernel is
    non-zero. -/
theorem smoother_const (s : Smoother K) (a : Nat) (c : K) (idx : Nat → Nat) (h : wsum s (idx a) ≠ 0) :
    smoothAxis s a (fun _ => c) idx = c :=
  smooth1_const s c (idx a) h

/-- T2' — the hypothesis of T2 holds for every positive kernel (Fermi-Dirac `1/cosh²`, Gaussian `exp`) at every
    position inside the array. -/
theorem smoother_const_of_pos {F : Type} [Field F] [LinearOrder F] [IsStrictOrderedRing F]
    (s : Smoother F) (a : Nat) (c : F) (idx : Nat → Nat) (hi : idx a < s.NE)
    (hpos : ∀ k, k ≤ 2 * s.NE1 → 0 < s.smt k) :
    smoothAxis s a (fun _ => c) idx = c :=
  smoother_const s a c idx (ne_of_gt (wsum_pos s (idx a) hi hpos))

example : ∀ i < 5, 0 < wsum (mkSmoother 5 2 [1, 2, 4, 2, 1]) i := by decide +kernel

/-- T3 (axis-local, reads).  The output at `idx` depends only on the inputs on the line through `idx` along
    axis `a`, and there only on positions inside the window `[max(0,i-NE1), min(NE,i+NE1+1))`. -/
theorem smoother_axis_local (s : Smoother K) (a : Nat) (A B : Arr K) (idx : Nat → Nat)
    (h : ∀ j, wstart s (idx a) ≤ j → j < wend s (idx a) → A (upd idx a j) = B (upd idx a j)) :
    smoothAxis s a A idx = smoothAxis s a B idx :=
  smooth1_congr s _ _ (idx a) h

/-- T3' (axis-local, other axes are spectators).  Multiplying by an array that does not depend on the position
    along axis `a` commutes with smoothing along `a` — the smoother is linear over functions of the other axes. -/
theorem smoother_other_axes_linear (s : Smoother K) (a : Nat) (w A : Arr K)
    (hw : ∀ idx j, w (upd idx a j) = w idx) :
    smoothAxis s a (fun x => w x * A x) = fun x => w x * smoothAxis s a A x := by
  funext idx
  simp only [smoothAxis_eq, hw]
  rw [← mul_div_assoc, Finset.mul_sum]
  congr 1
  apply Finset.sum_congr rfl
  intro t _
  ring

/-- T3'' the pass along axis `a` is the 1-D rule on each fibre: slicing at fixed other indices and smoothing
    commute (definitional in the model; the correspondence check ties it to the transposes of the code). -/
theorem smoother_fibre (s : Smoother K) (a : Nat) (A : Arr K) (idx : Nat → Nat) :
    smoothAxis s a A idx = smooth1 s (fun j => A (upd idx a j)) (idx a) := rfl

/-- T4 (commute).  Smoothers of different axes commute, for arbitrary (also different) kernels. -/
theorem smoothers_commute (s t : Smoother K) (a b : Nat) (hab : a ≠ b) (A : Arr K) :
    smoothAxis s a (smoothAxis t b A) = smoothAxis t b (smoothAxis s a A) :=
  smoothAxis_comm s t hab A

/-! ## `EnergyResult.dataSmooth` -/

/-- T5 (all axes, any order).  `dataSmooth` equals the raw data passed through the smoother of every energy axis,
    taken in any order `l` (any permutation of `0 … nE-1`); void slots are skipped. -/
theorem dataSmooth_any_order (sm : Nat → Option (Smoother K)) (nE : Nat) (A : Arr K) (l : List Nat)
    (hl : l.Perm (List.range nE)) :
    dataSmooth sm nE A = applyAxes sm l A := by
  unfold dataSmooth
  exact applyAxes_perm sm ((List.reverse_perm _).trans hl.symm) A

/-- T5 for the case no test covers: two energy axes (Efermi × Omega). -/
theorem dataSmooth_two_axes (sm : Nat → Option (Smoother K)) (A : Arr K) :
    dataSmooth sm 2 A = applySm (sm 0) 0 (applySm (sm 1) 1 A) ∧
    dataSmooth sm 2 A = applySm (sm 1) 1 (applySm (sm 0) 0 A) := by
  constructor
  · rfl
  · exact dataSmooth_any_order sm 2 A [0, 1] (List.Perm.refl _)

example : [2, 0, 1].Perm (List.range 3) := by decide

/-- T6 (void).  A result whose smoothers are all void is unchanged. -/
theorem dataSmooth_void (sm : Nat → Option (Smoother K)) (nE : Nat) (A : Arr K)
    (h : ∀ i, i < nE → sm i = none) : dataSmooth sm nE A = A := by
  unfold dataSmooth
  have : ∀ (l : List Nat), (∀ i ∈ l, i < nE) → ∀ B : Arr K, applyAxes sm l B = B := by
    intro l
    induction l with
    | nil => intro _ B; rfl
    | cons a l ih =>
      intro hl B
      simp only [applyAxes]
      rw [h a (hl a (by simp))]
      exact ih (fun i hi => hl i (by simp [hi])) B
  apply this
  intro i hi
  simpa using hi

/-- T1 lifted: `dataSmooth` is linear. -/
theorem dataSmooth_linear (sm : Nat → Option (Smoother K)) (nE : Nat) (A B : Arr K) (c d : K) :
    dataSmooth sm nE (fun x => c * A x + d * B x)
      = fun x => c * dataSmooth sm nE A x + d * dataSmooth sm nE B x := by
  unfold dataSmooth
  generalize (List.range nE).reverse = l
  induction l generalizing A B with
  | nil => rfl
  | cons a l ih =>
    simp only [applyAxes]
    cases hs : sm a with
    | none => simp only [applySm]; exact ih A B
    | some s => simp only [applySm]; rw [smoother_linear]; exact ih _ _

/-- T1' (homogeneous, no threshold).  `dataSmooth(c·A) = c·dataSmooth(A)` for EVERY scalar `c`, however small:
    there is no magnitude below which a result may be left unsmoothed. -/
theorem dataSmooth_homogeneous (sm : Nat → Option (Smoother K)) (nE : Nat) (A : Arr K) (c : K) :
    dataSmooth sm nE (fun x => c * A x) = fun x => c * dataSmooth sm nE A x := by
  have h := dataSmooth_linear sm nE A (fun _ => 0) c 0
  simp only [mul_zero, add_zero, zero_mul] at h
  exact h

/-- T2 lifted: with positive kernels `dataSmooth` maps a constant array to the same constant at every position
    inside the array. -/
theorem dataSmooth_const {F : Type} [Field F] [LinearOrder F] [IsStrictOrderedRing F]
    (sm : Nat → Option (Smoother F)) (nE : Nat) (c : F)
    (hpos : ∀ a s, sm a = some s → ∀ k, k ≤ 2 * s.NE1 → 0 < s.smt k)
    (idx : Nat → Nat) (hin : ∀ a s, sm a = some s → idx a < s.NE) :
    dataSmooth sm nE (fun _ => c) idx = c := by
  unfold dataSmooth
  generalize (List.range nE).reverse = l
  -- a constant on the box {idx' | idx' agrees with the bounds} stays that constant; we track the exact
  -- statement "the array is `c` at every in-bounds multi-index"
  have key : ∀ (l : List Nat) (B : Arr F),
      (∀ j : Nat → Nat, (∀ a s, sm a = some s → j a < s.NE) → B j = c) →
      ∀ j : Nat → Nat, (∀ a s, sm a = some s → j a < s.NE) → applyAxes sm l B j = c := by
    intro l
    induction l with
    | nil => intro B hB j hj; exact hB j hj
    | cons a l ih =>
      intro B hB j hj
      simp only [applyAxes]
      apply ih _ _ j hj
      intro j' hj'
      cases hs : sm a with
      | none => simp only [applySm]; exact hB j' hj'
      | some s =>
        simp only [applySm]
        have hloc : smoothAxis s a B j' = smoothAxis s a (fun _ => c) j' := by
          apply smoother_axis_local
          intro k _ hk
          apply hB
          intro b s' hs'
          by_cases hba : b = a
          · subst hba
            rw [hs] at hs'; cases hs'
            rw [upd_same]
            unfold wend at hk; omega
          · rw [upd_other _ _ hba]; exact hj' b s' hs'
        rw [hloc]
        exact smoother_const_of_pos s a c j' (hj' a s hs) (hpos a s hs)
  exact key l _ (fun _ _ => rfl) idx hin

/-! ## the memoised `dataSmooth` and the in-place `add` -/

theorem cacheOk_step (sm : Nat → Option (Smoother K)) (nE : Nat) (s : Cached K) (op : Op K)
    (h : CacheOk sm nE s) : CacheOk sm nE (step sm nE s op) := by
  cases op with
  | read =>
    intro c hc
    simp only [step, Option.some.injEq] at hc
    subst hc
    unfold observe
    cases hs : s.cache with
    | none => rfl
    | some c' => exact h c' hs
  | add B => intro c hc; simp [step] at hc

/-- T7 (any history).  After ANY sequence of reads of `dataSmooth` and in-place `add`s, starting from a fresh
    result, `dataSmooth` is the smoothed current data — never a stale value. -/
theorem observe_after_history (sm : Nat → Option (Smoother K)) (nE : Nat) (A : Arr K) (ops : List (Op K)) :
    observe sm nE (runOps sm nE ⟨A, none⟩ ops) = dataSmooth sm nE (runOps sm nE ⟨A, none⟩ ops).data := by
  have hinv : ∀ (ops : List (Op K)) (s : Cached K), CacheOk sm nE s → CacheOk sm nE (runOps sm nE s ops) := by
    intro ops
    induction ops with
    | nil => intro s h; exact h
    | cons op ops ih => intro s h; exact ih _ (cacheOk_step sm nE s op h)
  have h := hinv ops ⟨A, none⟩ (by intro c hc; simp at hc)
  unfold observe
  cases hs : (runOps sm nE ⟨A, none⟩ ops).cache with
  | none => rfl
  | some c => exact h c hs

/-- T7' the history the old code got wrong: read, `add(B)`, read again gives the smoothed sum
    `dataSmooth(A) + dataSmooth(B)`. -/
theorem read_add_read (sm : Nat → Option (Smoother K)) (nE : Nat) (A B : Arr K) :
    observe sm nE (runOps sm nE ⟨A, none⟩ [.read, .add B, .read])
      = fun x => dataSmooth sm nE A x + dataSmooth sm nE B x := by
  rw [observe_after_history]
  have := dataSmooth_linear sm nE A B 1 1
  simp only [one_mul] at this
  exact this

/-- … whereas the original `add` kept the memoised value: the second read returned the smoothed OLD data -/
theorem old_add_keeps_stale_cache (sm : Nat → Option (Smoother K)) (nE : Nat) (A B : Arr K) :
    observe sm nE ([Op.read, Op.add B, Op.read].foldl (stepOld sm nE) ⟨A, none⟩) = dataSmooth sm nE A := rfl

/-! ## several live results: derived results and hidden state -/

/-- every operation keeps every live result consistent: reading memoises the right value, the in-place `add`
    forgets it, and a derived result (`*`, `/`, `mul_array`, `+`, `-`, `transform`, loaded copy — anything built by
    the constructor from the data of existing results) starts without a memoised value -/
theorem hstep_ok (h : List (Obj K)) (op : HOp K) (hok : ∀ o ∈ h, ObjOk o) : ∀ o ∈ hstep h op, ObjOk o := by
  intro o ho
  cases op with
  | read i =>
    rcases mem_updAt _ _ _ _ ho with h1 | ⟨a, ha, rfl⟩
    · exact hok o h1
    · intro c hc
      simp only [Option.some.injEq] at hc
      subst hc
      unfold Obj.observe
      cases hs : a.cache with
      | none => rfl
      | some c' => exact hok a ha c' hs
  | addIn i B =>
    rcases mem_updAt _ _ _ _ ho with h1 | ⟨a, _, rfl⟩
    · exact hok o h1
    · intro c hc; simp at hc
  | new mk =>
    simp only [hstep, List.mem_append, List.mem_singleton] at ho
    rcases ho with h1 | rfl
    · exact hok o h1
    · intro c hc; simp at hc

/-- T8 (any history, any number of live results).  Starting from fresh results, after ANY interleaving of reads,
    in-place adds and derivations of new results from old ones, EVERY live result's `dataSmooth` is the smoothing
    of its own current data with its own smoothers. -/
theorem heap_after_history (h0 : List (Obj K)) (hfresh : ∀ o ∈ h0, o.cache = none) (ops : List (HOp K)) :
    ∀ o ∈ hrun h0 ops, o.observe = dataSmooth o.sm o.nE o.data := by
  have hinv : ∀ (ops : List (HOp K)) (h : List (Obj K)), (∀ o ∈ h, ObjOk o) → ∀ o ∈ hrun h ops, ObjOk o := by
    intro ops
    induction ops with
    | nil => intro h hh; exact hh
    | cons op ops ih => intro h hh; exact ih _ (hstep_ok h op hh)
  intro o ho
  have hok := hinv ops h0 (fun o ho c hc => by rw [hfresh o ho] at hc; cases hc) o ho
  unfold Obj.observe
  cases hs : o.cache with
  | none => rfl
  | some c => exact hok c hs

/-- the shortcut 'product inherits parent.dataSmooth × factor' IS sound for a factor that does not vary along any
    smoothed axis — here: a scalar -/
theorem prefill_scalar_ok (o : Obj K) (c : K) (hok : ObjOk o) : ObjOk (mulArrPrefilled o (fun _ => c)) := by
  intro d hd
  unfold mulArrPrefilled at hd ⊢
  cases hs : o.cache with
  | none => rw [hs] at hd; cases hd
  | some c0 =>
    rw [hs] at hd
    simp only [Option.some.injEq] at hd
    subst hd
    have h1 := hok c0 hs
    have h2 := dataSmooth_linear o.sm o.nE o.data (fun _ => 0) c 0
    simp only [mul_zero, add_zero, zero_mul] at h2
    funext x
    simp only
    rw [h1]
    have := congrFun h2 x
    simp only [mul_comm c] at this
    exact this.symm

/-- … and it is UNSOUND for `mul_array` with an array that varies along a smoothed energy axis (what the calculators
    do with `Efermi`): smoothing does not commute with multiplication by a non-constant array.  Two energies,
    kernel (1,2,1), data (1,0), factor (1,2): the inherited value is (2/3, 2/3), the smoothed product (2/3, 1/3). -/
theorem prefill_array_breaks :
    let s : Option (Smoother Rat) := some (mkSmoother 2 1 [1, 2, 1])
    let parent : Obj Rat := ⟨fun _ => s, 1, arrOfList [2] [1, 0], none⟩
    let looked := (hstep [parent] (.read 0)).getD 0 parent
    let child := mulArrPrefilled looked (arrOfList [2] [1, 2])
    listOfArr [2] child.observe = [2/3, 2/3] ∧
    listOfArr [2] (dataSmooth child.sm child.nE child.data) = [2/3, 1/3] ∧
    -- the same product derived through the constructor (repaired / original code) is right
    listOfArr [2] (((hrun [parent] [.read 0, .new (fun h => mulArr (h.getD 0 parent) (arrOfList [2] [1, 2]))]).getD 1
      parent).observe) = [2/3, 1/3] := by
  decide +kernel

/-! ## the defect that was repaired (finding F1) -/

/-- the original loop returns the axis-0 smoother applied to the raw data, whatever the other smoothers are -/
theorem old_dataSmooth_only_axis0 (sm : Nat → Option (Smoother K)) (nE : Nat) (A : Arr K) :
    dataSmoothOld sm (nE + 1) A = applySm (sm 0) 0 A := by
  unfold dataSmoothOld
  rw [List.range_succ_eq_map, List.reverse_cons, List.foldl_append]
  rfl

/-- … which differs from the composition over both axes already for a 2×2 array and the kernel (1,2,1) -/
theorem old_dataSmooth_differs :
    let s : Option (Smoother Rat) := some (mkSmoother 2 1 [1, 2, 1])
    let A := arrOfList [2, 2] [1, 0, 0, 0]
    listOfArr [2, 2] (dataSmoothOld (fun _ => s) 2 A) = [2/3, 0, 1/3, 0] ∧
    listOfArr [2, 2] (dataSmooth (fun _ => s) 2 A) = [4/9, 2/9, 2/9, 1/9] := by
  decide +kernel

/-! ## construction -/

/-- `get_smoother` returns the void smoother exactly when there is nothing to smooth with -/
theorem getSmoother_void_iff (hasE : Bool) (len : Nat) (smear : Option Rat) (mode : Nat) :
    getSmoother hasE len smear mode = .void ↔
      (hasE = false ∨ smear = none ∨ (∃ x, smear = some x ∧ x ≤ 0) ∨ len ≤ 1) := by
  unfold getSmoother
  cases hasE <;> cases smear with
  | none => simp
  | some x =>
    by_cases hx : x ≤ 0 <;> by_cases hl : len ≤ 1 <;> by_cases h0 : mode = 0 <;> by_cases h1 : mode = 1 <;>
      simp [hx, hl, h0, h1]

/-- otherwise the mode selects the kernel, and an unknown mode is an error -/
theorem getSmoother_kind (len : Nat) (x : Rat) (mode : Nat) (hx : 0 < x) (hl : 1 < len) :
    getSmoother true len (some x) mode =
      if mode = 0 then .fermiDirac else if mode = 1 then .gaussian else .error := by
  unfold getSmoother
  simp [not_le.mpr hx, not_le.mpr hl]

end WB.C17
