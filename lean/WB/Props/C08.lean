/-
  C08 — property theorems.

  Reading guide.  `WB/Model/C08.lean` contains, for every formula class reachable from the calculators, a
  hand transcription `termOf f v : PExpr` of the observable the calculators use (`Formula_ln.trace`, resp.
  `trace_ln`), `grade : PExpr → Grade` and the decision procedure `checkTable`.
  The theorems below say: whatever `checkTable` accepts is TRUE in every TR-symmetric / inversion-symmetric
  model.  The table of DECLARED transforms is extracted from the live code on every run and checked by
  `decide +kernel` (theorem `declared_table_ok` in the generated file; `declared_table_snapshot_ok` below is the
  same check on the snapshot taken when this file was written).

  `_partial`: `termOf` is a transcription by hand of the `nn()/ln()/trace_ln` bodies; that it denotes what the
  Python computes is checked numerically on every run (correspondence: the grade of every term = the parity
  measured on the real code in symmetric random models), not proved.
-/
import WB.Lemmas.C08
import WB.Lemmas.C08Snapshot
import Mathlib.Algebra.Polynomial.Derivative
import Mathlib.Algebra.Polynomial.Eval.Defs
import Mathlib.Data.Complex.Basic
import Mathlib.Tactic.Ring

namespace WB.C08

variable {R : Type} [Ring R]

/-! ## T1  soundness of the graded calculus -/

/-- T1 (time reversal).  In every TR-symmetric model (atoms satisfy `rev a = ± conj a` as `baseGrade` says),
    every expression of grade `(t, i)` satisfies `rev ⟦e⟧ = (-1)^t conj ⟦e⟧`: its value at -k is ± the complex
    conjugate of its value at k.  By induction on the expression. -/
theorem grade_sound_TR (A : Alg R) (hA : TRSym A) (e : PExpr) (t i : Bool) (hg : grade e = .val t i) :
    A.rev (eval A e) = sg t (A.conj (eval A e)) := by
  have h := grade_sound_TR_aux A hA e
  rw [hg] at h
  exact h

/-- T1 (inversion).  In every inversion-symmetric model (`rev a = ± a`), an expression of grade `(t, i)`
    satisfies `rev ⟦e⟧ = (-1)^i ⟦e⟧`. -/
theorem grade_sound_Inv (A : Alg R) (hA : InvSym A) (e : PExpr) (t i : Bool) (hg : grade e = .val t i) :
    A.rev (eval A e) = sg i (eval A e) := by
  have h := grade_sound_Inv_aux A hA e
  rw [hg] at h
  exact h

/-- an expression graded `zero` vanishes identically (its declared transforms hold trivially) -/
theorem grade_zero_sound (A : Alg R) (hA : TRSym A) (e : PExpr) (hg : grade e = .zero) : eval A e = 0 := by
  have h := grade_sound_TR_aux A hA e
  rw [hg] at h
  exact h

/-- expressions recognised as real by `isReal` are fixed by conjugation -/
theorem isReal_sound (A : Alg R) (e : PExpr) (h : isReal e = true) : A.conj (eval A e) = eval A e :=
  isReal_sound_aux A e h

/-! ## T2  a declaration accepted by `checkRow` is true -/

/-- T2 (time reversal), for an ARBITRARY expression `e` - in particular for whatever term the translator emitted from
    the live source: every `PExpr` constructor is covered by `grade_sound_TR`, so if `checkRowTerm e r` accepts, then in
    every TR-symmetric model in which the structural axis symmetries listed in `tauFacts r.f r.v` hold for ⟦e⟧, applying
    the DECLARED `Transform` (permute axes, conjugate, multiply by the factor) to the value at k gives the value at -k. -/
theorem declared_TR_sound_term (A : Alg R) (hA : TRSym A) (e : PExpr) (r : Row) (hrow : checkRowTerm e r = true)
    (hfacts : ∀ t ∈ tauFacts r.f r.v, TauHolds A t (eval A e)) :
    applyDecl A r.tr (eval A e) = A.rev (eval A e) := by
  unfold checkRowTerm at hrow
  have hs := grade_sound_TR_aux A hA e
  cases hg : grade e with
  | bad => simp [hg] at hrow
  | zero =>
    rw [hg] at hs
    simp only [SoundTR] at hs
    obtain ⟨odd, cj, tp⟩ := r.tr
    cases tp <;> cases odd <;> cases cj <;> simp [applyDecl, permOp, conjIf, hs]
  | val t i =>
    rw [hg] at hs
    simp only [hg, Bool.and_eq_true] at hrow
    exact declOK_TR_sound_aux A t (isReal e) _ r.tr _ hs (isReal_sound_aux A _) hfacts hrow.1

/-- T2 (inversion), for an arbitrary expression. -/
theorem declared_Inv_sound_term (A : Alg R) (hA : InvSym A) (e : PExpr) (r : Row) (hrow : checkRowTerm e r = true)
    (hfacts : ∀ t ∈ tauFacts r.f r.v, TauHolds A t (eval A e)) :
    applyDecl A r.inv (eval A e) = A.rev (eval A e) := by
  unfold checkRowTerm at hrow
  have hs := grade_sound_Inv_aux A hA e
  cases hg : grade e with
  | bad => simp [hg] at hrow
  | zero =>
    rw [hg] at hs
    simp only [SoundInv] at hs
    obtain ⟨odd, cj, tp⟩ := r.inv
    cases tp <;> cases odd <;> cases cj <;> simp [applyDecl, permOp, conjIf, hs]
  | val t i =>
    rw [hg] at hs
    simp only [hg, Bool.and_eq_true] at hrow
    exact declOK_Inv_sound_aux A i (isReal e) _ r.inv _ hs (isReal_sound_aux A _) hfacts hrow.2

/-- T2 for the hand-written terms -/
theorem declared_TR_sound (A : Alg R) (hA : TRSym A) (r : Row) (hrow : checkRow r = true)
    (hfacts : ∀ t ∈ tauFacts r.f r.v, TauHolds A t (eval A (termOf r.f r.v))) :
    applyDecl A r.tr (eval A (termOf r.f r.v)) = A.rev (eval A (termOf r.f r.v)) :=
  declared_TR_sound_term A hA _ r hrow hfacts

theorem declared_Inv_sound (A : Alg R) (hA : InvSym A) (r : Row) (hrow : checkRow r = true)
    (hfacts : ∀ t ∈ tauFacts r.f r.v, TauHolds A t (eval A (termOf r.f r.v))) :
    applyDecl A r.inv (eval A (termOf r.f r.v)) = A.rev (eval A (termOf r.f r.v)) :=
  declared_Inv_sound_term A hA _ r hrow hfacts

/-- T2 for the TRANSLATED table of a run (`translated_table_ok : checkAll table = true` in the generated file): for
    every flagged line, the term translated from the live source has the grade of the hand-written term, and the
    declared transform applied to its value at k is its value at -k in every TR-symmetric model. -/
theorem translated_TR_sound (A : Alg R) (hA : TRSym A) (t : List (Row × PExpr × Bool)) (h : checkAll t = true)
    (p : Row × PExpr × Bool) (hp : p ∈ t) (hflag : p.2.2 = true)
    (hfacts : ∀ f ∈ tauFacts p.1.f p.1.v, TauHolds A f (eval A p.2.1)) :
    applyDecl A p.1.tr (eval A p.2.1) = A.rev (eval A p.2.1) :=
  declared_TR_sound_term A hA p.2.1 p.1 ((checkAll_spec t h p hp).2.2 hflag).1 hfacts

theorem translated_Inv_sound (A : Alg R) (hA : InvSym A) (t : List (Row × PExpr × Bool)) (h : checkAll t = true)
    (p : Row × PExpr × Bool) (hp : p ∈ t) (hflag : p.2.2 = true)
    (hfacts : ∀ f ∈ tauFacts p.1.f p.1.v, TauHolds A f (eval A p.2.1)) :
    applyDecl A p.1.inv (eval A p.2.1) = A.rev (eval A p.2.1) :=
  declared_Inv_sound_term A hA p.2.1 p.1 ((checkAll_spec t h p hp).2.2 hflag).1 hfacts

/-- the snapshot of the declared-transform table (all formula classes × variants, extracted from /repo when this
    file was written) passes the check; the live table is re-extracted and re-checked on every run -/
theorem declared_table_snapshot_ok : checkTable snapshotTable = true := snapshotTable_ok

/-! ## T3  the `(name, der) → parity` rule of `Data_K.covariant` -/

/-- T3.  `Xbar(name, der) = U† (∂^der X^W) U` has the parity of the real-space matrix shifted by `der`:
    every k-derivative flips both the TR and the inversion parity (this is what `(p + der) % 2` in
    `get_transform_TR / get_transform_Inv` implements), for every name and every derivative order. -/
theorem covariant_parity_rule (n : Name) (der : Nat) : barGrade n der = (baseGrade n).flipN der :=
  barGrade_rule_aux n der

/-- the live `(name, der)` map, snapshot (rows the calculus contradicts are the known finding below and are
    not part of the snapshot) -/
theorem get_transform_snapshot_ok : checkParity snapshotParity = true := snapshotParity_ok

/-- Known finding (latent): `get_transform_TR` lists FF, GG, rotAAab, CCab_antisym as "odd before derivative", but
    their matrices are TR-EVEN (FF(R), GG(R) real; rotAAab = ∓(i/2)·curl A, CCab_antisym = ∓(i/2)·CC). -/
theorem get_transform_TR_FF_GG_deviates :
    barGrade .FF 0 = .val false false ∧ barGrade .GG 0 = .val false false ∧
    barGrade .rotAAab 0 = .val false false ∧ barGrade .CCab_antisym 0 = .val false false ∧
    checkParRow ⟨.FF, 0, some (plainDecl true), some (plainDecl false)⟩ = false := by
  decide +kernel

/-- Known finding (latent): `tildeHab` (declared TR-odd) is TR-even and `tildeHab_d` (declared TR-even) is
    TR-odd, term by term, with and without external terms. -/
theorem tildeHab_TR_deviates :
    grade (termOf .tildeHab { cc := .CCab_antisym }) = .val false false ∧
    grade (termOf .tildeHab { cc := .CCab_antisym, ext := false }) = .val false false ∧
    grade (termOf .tildeHab_d { cc := .CCab_antisym }) = .val true true ∧
    checkRow ⟨.tildeHab, { cc := .CCab_antisym }, plainDecl true, plainDecl false⟩ = false := by
  decide +kernel

/-- Known finding: `Formula_SDCT_surf_II(sym=False)` is TR-even but has no (a,b) axis symmetry (the code
    antisymmetrises (b,c)), so its declared `transform_odd_trans_102` cannot be validated; the other seven SDCT
    variants pass. -/
theorem sdct_surfII_asym_deviates :
    grade (termOf .Formula_SDCT_surf_II { sym := false }) = .val false true ∧
    checkRow ⟨.Formula_SDCT_surf_II, { sym := false }, ⟨true, false, some [1, 0, 2]⟩, plainDecl true⟩ = false ∧
    checkRow ⟨.Formula_SDCT_surf_II, { sym := true }, ⟨true, false, some [1, 0, 2]⟩, plainDecl true⟩ = true ∧
    checkRow ⟨.Formula_SDCT_sea_I, { sym := false }, ⟨true, false, some [1, 0, 2]⟩, plainDecl true⟩ = true := by
  decide +kernel

/-! ## the structural axis symmetries behind `tauFacts` (elementwise: band pair (m,n) fixed, scalars commute) -/

section Tau
variable {K : Type} [CommRing K] (cj : K →+* K) (hcj : ∀ x, cj (cj x) = x) {ι : Type}
include hcj

/-- `Formula_OptCond`: x_ab = i A^a_mn A^b_nm = i p_a conj(p_b)  ⇒  conj x_ab = - x_ba -/
theorem optcond_tau (Iu : K) (hI : cj Iu = -Iu) (p : ι → K) (a b : ι) :
    cj (Iu * p a * cj (p b)) = -(Iu * p b * cj (p a)) := by
  simp only [map_mul, hI, hcj]; ring

/-- `InjectionCurrentFormula`: x_abc = ΔV_a A^b_mn A^c_nm with ΔV real  ⇒  conj x_abc = x_acb -/
theorem injection_tau (v p : ι → K) (hv : ∀ a, cj (v a) = v a) (a b c : ι) :
    cj (v a * p b * cj (p c)) = v a * p c * cj (p b) := by
  simp only [map_mul, hv, hcj]; ring

/-- `Formula_SDCT_surf_I`: S_abc = A^a_mn A^b_nm V^c_n  ⇒  conj S_abc = S_bac, hence Re S is symmetric and
    Im S antisymmetric in (a,b) -/
theorem surfI_tau (half nhalfI : K) (v p : ι → K) (hv : ∀ a, cj (v a) = v a) (a b c : ι) :
    let S := fun a b c => p a * cj (p b) * v c
    half * (S b a c + cj (S b a c)) = half * (S a b c + cj (S a b c)) ∧
    nhalfI * (S b a c - cj (S b a c)) = -(nhalfI * (S a b c - cj (S a b c))) := by
  simp only [map_mul, hv, hcj]
  constructor <;> ring

omit hcj in
/-- `Formula_SDCT.symsumm` (two band indices): Re(S + τS) is τ-symmetric, -Im(S - τS) is τ-antisymmetric -/
theorem symsumm_tau (half nhalfI : K) (S : ι → ι → ι → K) (a b c : ι) :
    let y := fun a b c => half * ((S a b c + S b a c) + cj (S a b c + S b a c))
    let z := fun a b c => -(nhalfI * ((S a b c - S b a c) - cj (S a b c - S b a c)))
    y b a c = y a b c ∧ z b a c = -z a b c := by
  simp only [map_add, map_sub]
  constructor <;> ring

omit hcj cj in
/-- `Formula_SDCT_surf_II(sym=True)`: V_a V_b V_c is symmetric -/
theorem surfII_sym_tau (v : ι → K) (a b c : ι) : v b * v a * v c = v a * v b * v c := by ring

end Tau

/-! ## non-vacuity: the hypotheses of T1/T2 are satisfiable with a non-trivial `rev` -/

open Polynomial in
/-- complex polynomials in one variable k: conj = conjugate the coefficients, rev = substitute -k, D = d/dk -/
noncomputable def polyAlg : Alg (Polynomial ℂ) where
  conj := Polynomial.mapRingHom (starRingEnd ℂ)
  rev := Polynomial.compRingHom (-X)
  dag := (Polynomial.mapRingHom (starRingEnd ℂ)).toAddMonoidHom
  D := Polynomial.derivative.toAddMonoidHom
  lin := fun _ => AddMonoidHom.id _
  emask := fun _ => AddMonoidHom.id _
  hmul := AddMonoidHom.mul
  tau := fun _ => AddMonoidHom.id _
  I := C Complex.I
  cst := fun q => C (q : ℂ)
  wann := fun n => if (baseGrade n).trOdd then C Complex.I * (1 + X ^ 2) else C Complex.I * X + 1
  U := 1 + C Complex.I * X
  E := 1 + X ^ 2
  conj_conj := by
    intro x
    simp only [coe_mapRingHom, Polynomial.map_map]
    have : (starRingEnd ℂ).comp (starRingEnd ℂ) = RingHom.id ℂ := by ext z; simp
    rw [this, Polynomial.map_id]
  rev_rev := by
    intro x
    simp only [coe_compRingHom_apply]
    rw [comp_assoc, neg_comp, X_comp, neg_neg, comp_X]
  rev_conj := by
    intro x
    simp only [coe_compRingHom_apply, coe_mapRingHom, Polynomial.map_comp, Polynomial.map_neg, map_X]
  rev_dag := by
    intro x
    simp only [coe_compRingHom_apply, RingHom.toAddMonoidHom_eq_coe, AddMonoidHom.coe_coe, coe_mapRingHom,
      Polynomial.map_comp, Polynomial.map_neg, map_X]
  conj_dag := by intro x; rfl
  rev_D := by
    intro x
    simp only [coe_compRingHom_apply, LinearMap.toAddMonoidHom_coe, derivative_comp, derivative_neg, derivative_X]
    ring
  conj_D := by
    intro x
    simp only [coe_mapRingHom, LinearMap.toAddMonoidHom_coe, derivative_map]
  rev_lin := by intro t x; rfl
  conj_lin := by intro t x; rfl
  conj_emask := by intro t x; rfl
  rev_hmul := by intro x y; simp only [AddMonoidHom.mul_apply, map_mul]
  conj_hmul := by intro x y; simp only [AddMonoidHom.mul_apply, map_mul]
  conj_tau := by intro p x; rfl
  conj_I := by simp
  rev_I := by simp only [coe_compRingHom_apply, C_comp]
  conj_cst := by intro q; simp
  rev_cst := by intro q; simp only [coe_compRingHom_apply, C_comp]
  conj_E := by simp

open Polynomial in
theorem polyAlg_TRSym : TRSym polyAlg where
  wann := by
    intro n
    cases n <;>
      simp only [polyAlg, baseGrade, Grade.trOdd, coe_compRingHom_apply, coe_mapRingHom, if_true, if_false,
        Bool.false_eq_true, sg_true, sg_false, mul_comp, add_comp, C_comp, X_comp, one_comp, pow_comp,
        Polynomial.map_mul, Polynomial.map_add, Polynomial.map_pow, Polynomial.map_one, map_C, map_X,
        Complex.conj_I] <;>
      simp
  U := by
    simp only [polyAlg, coe_compRingHom_apply, coe_mapRingHom, mul_comp, add_comp, C_comp, X_comp, one_comp,
      Polynomial.map_mul, Polynomial.map_add, Polynomial.map_one, map_C, map_X, Complex.conj_I]
    simp
  E := by
    simp only [polyAlg, coe_compRingHom_apply, add_comp, one_comp, pow_comp, X_comp]
    ring
  emask := by intro t x; rfl

open Polynomial in
/-- the substitution k ↦ -k is not the identity in this model -/
example : polyAlg.rev (X : Polynomial ℂ) = -X := by simp only [polyAlg, coe_compRingHom_apply, X_comp]

/-- a concrete instance of T1: the Berry curvature term with internal and external terms in the polynomial model -/
example : polyAlg.rev (eval polyAlg (termOf .Omega {})) = -polyAlg.conj (eval polyAlg (termOf .Omega {})) :=
  grade_sound_TR polyAlg polyAlg_TRSym _ true false (by decide +kernel)

/-- a concrete instance of T2: the declaration of `DerOmega` in the live table is true in the polynomial model -/
example : applyDecl polyAlg (plainDecl false) (eval polyAlg (termOf .DerOmega {}))
    = polyAlg.rev (eval polyAlg (termOf .DerOmega {})) :=
  declared_TR_sound polyAlg polyAlg_TRSym ⟨.DerOmega, {}, plainDecl false, plainDecl true⟩ (by decide +kernel)
    (by intro t ht; simp [tauFacts] at ht)

end WB.C08
