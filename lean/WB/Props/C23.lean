/-
  C23 — Monkhorst-Pack mesh detection recovers the mesh: property theorems.

  `IsMesh N ks` : the list `ks` consists of points of the Γ-centred mesh `N = (N1,N2,N3)` with coordinates in
  `[0,1)` and contains every one of them — in ANY order and with ANY multiplicities.  All statements are for
  unbounded mesh sizes; the code's `limit_denominator(100)` (which restricts use to N ≤ 100) is outside the model.
-/
import WB.Lemmas.C23Detect
import WB.Lemmas.C23Select

namespace WB.C23

/-! ## detection: `get_mp_grid` -/

/-- T1 (general form, coordinates given modulo 1).  If the fractional parts of the k-points are points of the
    mesh `N` and every mesh point occurs, `get_mp_grid` returns `N` — for every order and multiplicity. -/
theorem mpGrid_mesh_mod1 (N : G3) (hN : GPos N) (ks : List K3)
    (hon : ∀ k ∈ ks, ∃ i j l, i < N.1 ∧ j < N.2.1 ∧ l < N.2.2 ∧
      (frac k.1, frac k.2.1, frac k.2.2) = meshPt N i j l)
    (hall : ∀ i j l, i < N.1 → j < N.2.1 → l < N.2.2 →
      ∃ k ∈ ks, (frac k.1, frac k.2.1, frac k.2.2) = meshPt N i j l) :
    mpGrid ks = .ok N := by
  obtain ⟨n1, n2, n3⟩ := hN
  have d1 : detectDir (ks.map (·.1)) = some N.1 := by
    apply detectDir_mesh N.1 n1
    · intro c hc
      obtain ⟨k, hk, rfl⟩ := List.mem_map.mp hc
      obtain ⟨i, j, l, hi, -, -, e⟩ := hon k hk
      exact ⟨i, hi, (Prod.mk.inj e).1⟩
    · intro h1
      obtain ⟨k, hk, e⟩ := hall 1 0 0 h1 n2 n3
      exact ⟨k.1, List.mem_map.mpr ⟨k, hk, rfl⟩, by simpa [meshPt] using (Prod.mk.inj e).1⟩
  have d2 : detectDir (ks.map (·.2.1)) = some N.2.1 := by
    apply detectDir_mesh N.2.1 n2
    · intro c hc
      obtain ⟨k, hk, rfl⟩ := List.mem_map.mp hc
      obtain ⟨i, j, l, -, hj, -, e⟩ := hon k hk
      exact ⟨j, hj, (Prod.mk.inj (Prod.mk.inj e).2).1⟩
    · intro h1
      obtain ⟨k, hk, e⟩ := hall 0 1 0 n1 h1 n3
      exact ⟨k.2.1, List.mem_map.mpr ⟨k, hk, rfl⟩, by simpa [meshPt] using (Prod.mk.inj (Prod.mk.inj e).2).1⟩
  have d3 : detectDir (ks.map (·.2.2)) = some N.2.2 := by
    apply detectDir_mesh N.2.2 n3
    · intro c hc
      obtain ⟨k, hk, rfl⟩ := List.mem_map.mp hc
      obtain ⟨i, j, l, -, -, hl, e⟩ := hon k hk
      exact ⟨l, hl, (Prod.mk.inj (Prod.mk.inj e).2).2⟩
    · intro h1
      obtain ⟨k, hk, e⟩ := hall 0 0 1 n1 n2 h1
      exact ⟨k.2.2, List.mem_map.mpr ⟨k, hk, rfl⟩, by simpa [meshPt] using (Prod.mk.inj (Prod.mk.inj e).2).2⟩
  have hallon : ks.all (onGridMod1 (N.1, N.2.1, N.2.2)) = true := by
    rw [List.all_eq_true]
    intro k hk
    obtain ⟨i, j, l, -, -, -, e⟩ := hon k hk
    have q1 : (N.1 : Rat) ≠ 0 := by positivity
    have q2 : (N.2.1 : Rat) ≠ 0 := by positivity
    have q3 : (N.2.2 : Rat) ≠ 0 := by positivity
    have e1 : frac k.1 = (i : Rat) / N.1 := (Prod.mk.inj e).1
    have e2 : frac k.2.1 = (j : Rat) / N.2.1 := (Prod.mk.inj (Prod.mk.inj e).2).1
    have e3 : frac k.2.2 = (l : Rat) / N.2.2 := (Prod.mk.inj (Prod.mk.inj e).2).2
    unfold onGridMod1
    simp only [e1, e2, e3, Bool.and_eq_true]
    refine ⟨⟨?_, ?_⟩, ?_⟩
    · rw [div_mul_cancel₀ _ q1]; exact isInt_natCast i
    · rw [div_mul_cancel₀ _ q2]; exact isInt_natCast j
    · rw [div_mul_cancel₀ _ q3]; exact isInt_natCast l
  unfold mpGrid
  rw [d1, d2, d3]
  simp only [hallon, if_true]

/-- T1.  Given the points of any Γ-centred mesh `N` (coordinates in `[0,1)`) in any order, detection returns `N`. -/
theorem mpGrid_mesh (N : G3) (hN : GPos N) (ks : List K3) (h : IsMesh N ks) : mpGrid ks = .ok N := by
  have hfr : ∀ i j l, i < N.1 → j < N.2.1 → l < N.2.2 →
      (frac (meshPt N i j l).1, frac (meshPt N i j l).2.1, frac (meshPt N i j l).2.2) = meshPt N i j l := by
    intro i j l hi hj hl
    obtain ⟨⟨a0, a1⟩, ⟨b0, b1⟩, ⟨c0, c1⟩⟩ := meshPt_reduced N i j l hi hj hl
    rw [frac_of_reduced a0 a1, frac_of_reduced b0 b1, frac_of_reduced c0 c1]
  apply mpGrid_mesh_mod1 N hN ks
  · intro k hk
    obtain ⟨i, j, l, hi, hj, hl, rfl⟩ := h.1 k hk
    exact ⟨i, j, l, hi, hj, hl, hfr i j l hi hj hl⟩
  · intro i j l hi hj hl
    exact ⟨_, h.2 i j l hi hj hl, hfr i j l hi hj hl⟩

/-- soundness of a successful return of `get_mp_grid`: every k-point lies on the returned grid (modulo 1) -/
theorem mpGrid_ok_on_grid (ks : List K3) (g : G3) (h : mpGrid ks = .ok g) :
    ∀ k ∈ ks, onGridMod1 g k = true := by
  unfold mpGrid at h
  split at h
  · split at h
    · rename_i hall
      cases h
      exact List.all_eq_true.mp hall
    · cases h
  · cases h

/-! ## detection: `grid_from_kpoints(kpoints, grid=None)` -/

/-- T2.  The lcm of the reduced denominators of the coordinates of a Γ-centred mesh is the mesh itself. -/
theorem gridOf_mesh (N : G3) (hN : GPos N) (ks : List K3) (h : IsMesh N ks) : gridOf ks = N := by
  obtain ⟨n1, n2, n3⟩ := hN
  have e1 : lcmDen (ks.map (·.1)) = N.1 := by
    apply lcmDen_mesh N.1 n1
    · intro c hc
      obtain ⟨k, hk, rfl⟩ := List.mem_map.mp hc
      obtain ⟨i, j, l, -, -, -, rfl⟩ := h.1 k hk
      exact ⟨i, rfl⟩
    · intro h1
      exact List.mem_map.mpr ⟨_, h.2 1 0 0 h1 n2 n3, by simp [meshPt]⟩
  have e2 : lcmDen (ks.map (·.2.1)) = N.2.1 := by
    apply lcmDen_mesh N.2.1 n2
    · intro c hc
      obtain ⟨k, hk, rfl⟩ := List.mem_map.mp hc
      obtain ⟨i, j, l, -, -, -, rfl⟩ := h.1 k hk
      exact ⟨j, rfl⟩
    · intro h1
      exact List.mem_map.mpr ⟨_, h.2 0 1 0 n1 h1 n3, by simp [meshPt]⟩
  have e3 : lcmDen (ks.map (·.2.2)) = N.2.2 := by
    apply lcmDen_mesh N.2.2 n3
    · intro c hc
      obtain ⟨k, hk, rfl⟩ := List.mem_map.mp hc
      obtain ⟨i, j, l, -, -, -, rfl⟩ := h.1 k hk
      exact ⟨l, rfl⟩
    · intro h1
      exact List.mem_map.mpr ⟨_, h.2 0 0 1 n1 n2 h1, by simp [meshPt]⟩
  unfold gridOf
  rw [e1, e2, e3]

/-! ## selection: `grid_from_kpoints(kpoints, grid=g)` -/

/-- T3a.  The selected indices are strictly increasing (loop order), hence pairwise different. -/
theorem select_increasing (g : G3) (ks : List K3) : (select g ks).Pairwise (· < ·) := by
  have h := (selectFrom_sublist g ks.zipIdx []).map (·.2)
  have e : ks.zipIdx.map (·.2) = List.range' 0 ks.length := List.zipIdx_map_snd 0 ks
  rw [e] at h
  exact List.Pairwise.sublist h List.pairwise_lt_range'

/-- T3b.  Every selected index points at a k-point that lies on the grid. -/
theorem select_on_grid (g : G3) (ks : List K3) (i : Nat) (hi : i ∈ select g ks) :
    ∃ k, ks[i]? = some k ∧ onGrid g k = true := by
  rw [select_eq] at hi
  obtain ⟨p, hp, rfl⟩ := List.mem_map.mp hi
  obtain ⟨h1, _, h3⟩ := selPairs_mem g ks p hp
  exact ⟨p.1, h1, h3⟩

/-- T3c (each mesh point exactly once).  Every on-grid k-point that occurs in the list — however many times —
    is selected through exactly one index. -/
theorem select_each_once (g : G3) (hg : GPos g) (ks : List K3) (k : K3) (hk : k ∈ ks) (hon : onGrid g k = true) :
    ∃! i, i ∈ select g ks ∧ ks[i]? = some k := by
  have hcov := selKints_covers g ks k hk hon
  obtain ⟨p, hp, hpe⟩ := List.mem_map.mp hcov
  obtain ⟨h1, _, h3⟩ := selPairs_mem g ks p hp
  have hpk : p.1 = k := kint_inj g hg _ _ h3 hon hpe
  refine ⟨p.2, ⟨List.mem_map.mpr ⟨p, hp, rfl⟩, hpk ▸ h1⟩, ?_⟩
  rintro i ⟨hi, hik⟩
  rw [select_eq] at hi
  obtain ⟨q, hq, rfl⟩ := List.mem_map.mp hi
  obtain ⟨hq1, _, _⟩ := selPairs_mem g ks q hq
  have hqk : q.1 = k := by rw [hq1] at hik; exact Option.some.inj hik
  have : q = p := by
    apply List.inj_on_of_nodup_map (selKints_nodup g ks) hq hp
    show kint g q.1 = kint g p.1
    rw [hqk, hpk]
  rw [this]

/-- T3d (complete mesh accepted).  If the list (reduced coordinates; duplicates and off-grid points allowed)
    contains every point of the mesh `g`, the selection succeeds and has exactly `N1·N2·N3` entries. -/
theorem selectGrid_complete (g : G3) (hg : GPos g) (ks : List K3) (hr : ∀ k ∈ ks, Reduced k)
    (hall : ∀ i j l, i < g.1 → j < g.2.1 → l < g.2.2 → meshPt g i j l ∈ ks) :
    selectGrid g ks = .ok (select g ks) ∧ (select g ks).length = numGrid g := by
  have h := length_select_complete g hg ks hr hall
  refine ⟨?_, h⟩
  unfold selectGrid
  simp only [h, lt_irrefl, if_false]

/-- T3e (incomplete mesh rejected).  If some point of the mesh `g` is missing from the list (reduced
    coordinates), the selection raises "Some k-points are missing" — whatever else the list contains. -/
theorem selectGrid_missing (g : G3) (hg : GPos g) (ks : List K3) (hr : ∀ k ∈ ks, Reduced k)
    (i j l : Nat) (hi : i < g.1) (hj : j < g.2.1) (hl : l < g.2.2) (hmiss : meshPt g i j l ∉ ks) :
    selectGrid g ks = .missing := by
  have h := length_select_missing g hg ks hr i j l hi hj hl hmiss
  unfold selectGrid
  simp only [h, if_true]

/-- T3f.  On reduced coordinates the branch "Some k-points are taken twice" is unreachable. -/
theorem selectGrid_never_twice (g : G3) (hg : GPos g) (ks : List K3) (hr : ∀ k ∈ ks, Reduced k) :
    selectGrid g ks ≠ .twice := by
  have h := length_select_le g hg ks hr
  unfold selectGrid
  simp only
  split
  · simp
  · split
    · omega
    · simp

/-- the hypothesis "coordinates reduced to [0,1)" is needed: `k = 1` and `k = 0` are counted as different points
    (the integer triple is not reduced modulo the grid), so a complete mesh plus the point `(1,0,0)` is rejected. -/
theorem unreduced_point_taken_twice :
    selectGrid (2, 1, 1) [(0, 0, 0), (1/2, 0, 0), (1, 0, 0)] = .twice := by decide +kernel

/-- T2'.  `grid_from_kpoints(kpoints)` on the points of any Γ-centred mesh, any order, returns the mesh. -/
theorem gridFromKpoints_mesh (N : G3) (hN : GPos N) (ks : List K3) (h : IsMesh N ks) :
    gridFromKpoints ks = .ok N := by
  unfold gridFromKpoints
  rw [gridOf_mesh N hN ks h, (selectGrid_complete N hN ks (isMesh_reduced N ks h) h.2).1]

/-- soundness of a successful return: whenever `grid_from_kpoints` returns a grid for reduced k-points, the list
    really contains every point of that grid. -/
theorem gridFromKpoints_ok_complete (ks : List K3) (g : G3) (hg : GPos g) (hr : ∀ k ∈ ks, Reduced k)
    (h : gridFromKpoints ks = .ok g) :
    ∀ i j l, i < g.1 → j < g.2.1 → l < g.2.2 → meshPt g i j l ∈ ks := by
  intro i j l hi hj hl
  by_contra hmiss
  unfold gridFromKpoints at h
  split at h
  · cases h
    rename_i sel hsel
    rw [selectGrid_missing _ hg ks hr i j l hi hj hl hmiss] at hsel
    cases hsel
  · cases h
  · cases h

/-! ## non-vacuity and concrete instances -/

/-- a shuffled 2×1×3 mesh with a repeated point satisfies `IsMesh` -/
example : IsMesh (2, 1, 3)
    [(1/2, 0, 2/3), (0, 0, 0), (1/2, 0, 0), (0, 0, 2/3), (0, 0, 1/3), (1/2, 0, 1/3), (0, 0, 0)] := by
  constructor
  · intro k hk
    simp only [List.mem_cons, List.not_mem_nil, or_false] at hk
    rcases hk with rfl | rfl | rfl | rfl | rfl | rfl | rfl
    · exact ⟨1, 0, 2, by norm_num [meshPt]⟩
    · exact ⟨0, 0, 0, by norm_num [meshPt]⟩
    · exact ⟨1, 0, 0, by norm_num [meshPt]⟩
    · exact ⟨0, 0, 2, by norm_num [meshPt]⟩
    · exact ⟨0, 0, 1, by norm_num [meshPt]⟩
    · exact ⟨1, 0, 1, by norm_num [meshPt]⟩
    · exact ⟨0, 0, 0, by norm_num [meshPt]⟩
  · intro i j l hi hj hl
    simp only at hi hj hl
    obtain rfl : j = 0 := by omega
    have hi' : i = 0 ∨ i = 1 := by omega
    have hl' : l = 0 ∨ l = 1 ∨ l = 2 := by omega
    rcases hi' with rfl | rfl <;> rcases hl' with rfl | rfl | rfl <;> norm_num [meshPt]

example : mpGrid [(1/2, 0, 2/3), (0, 0, 0), (1/2, 0, 0), (0, 0, 2/3), (0, 0, 1/3), (1/2, 0, 1/3), (0, 0, 0)]
    = .ok (2, 1, 3) := by decide +kernel
example : gridFromKpoints [(1/2, 0, 2/3), (0, 0, 0), (1/2, 0, 0), (0, 0, 2/3), (0, 0, 1/3), (1/2, 0, 1/3), (0, 0, 0)]
    = .ok (2, 1, 3) := by decide +kernel
example : selectGrid (2, 1, 3) [(1/2, 0, 2/3), (0, 0, 0), (1/2, 0, 0), (0, 0, 2/3), (0, 0, 1/3), (1/2, 0, 1/3), (0, 0, 0)]
    = .ok [0, 1, 2, 3, 4, 5] := by decide +kernel
/-- one point removed: rejected -/
example : selectGrid (2, 1, 3) [(1/2, 0, 2/3), (0, 0, 0), (1/2, 0, 0), (0, 0, 2/3), (0, 0, 1/3), (0, 0, 0)]
    = .missing := by decide +kernel
/-- selecting the coarser 1×1×3 sub-mesh out of the 2×1×3 one -/
example : selectGrid (1, 1, 3) [(1/2, 0, 2/3), (0, 0, 0), (1/2, 0, 0), (0, 0, 2/3), (0, 0, 1/3), (1/2, 0, 1/3)]
    = .ok [1, 3, 4] := by decide +kernel
/-- a list that is not a mesh: smallest non-zero fraction 2/5 -/
example : mpGrid [(0, 0, 0), (2/5, 0, 0), (4/5, 0, 0)] = .numNotOne := by decide +kernel
example : mpGrid [(0, 0, 0), (1/2, 0, 0), (3/4, 0, 0)] = .offGrid := by decide +kernel

end WB.C23
