/-
  C13 — Fermi-level scans have the documented sea and surface semantics: property theorems.
  (Statements are the deliverable; helper lemmas live in WB/Lemmas/C13*.lean.)

  Vocabulary (Lemmas/C13Step):  a `Group` is (energy, value) with energy `none` = -inf (the lumped group of bands
  below the Fermi window);  `stepSum groups x = Σ_{g : energy(g) ≤ x} value(g)` — whole groups in or out.
  `Uniform Ef n` : `Ef j = Ef 0 + j · dEF` for `j < n`, `dEF` the spacing the code uses (`Efermi[1]-Efermi[0]`, or
  0.001 for a single Fermi level).  Scalars `constant_factor / cell_volume` multiply every statement and are omitted.
-/
import WB.Lemmas.C13Step
import WB.Lemmas.C13Sea
import WB.Lemmas.C13CumDOS
import WB.Lemmas.C13FD
import WB.Lemmas.C13Glue

namespace WB.C13

/-! ## Fermi-sea semantics -/

/-- T1.  On a uniform grid with spacing `d > 0` the bin index `ceil((E - EFmin)/d)` is `≤ j` exactly when
    `E ≤ EFmin + j·d`. -/
theorem bin_is_step (efmin d E : Rat) (hd : 0 < d) (j : Nat) :
    iEf efmin d E ≤ (j : Int) ↔ E ≤ efmin + (j : Rat) * d :=
  iEf_le_iff efmin d E hd j

/-- T1 (accumulation).  Hence `restot[j]` (before any finite difference) is the sum of the values of exactly the
    groups whose energy is `≤ EFmin + j·d`, every group counted whole, for every bin `j` of the (extended) grid. -/
theorem accumulation_is_step_sum (efmin efmax d : Rat) (hd : 0 < d) (groups : List Group) (j : Nat)
    (hj : efmin + (j : Rat) * d ≤ efmax) :
    accumulate efmin efmax d groups j = stepSum groups (efmin + (j : Rat) * d) :=
  accumulate_eq_stepSum efmin efmax d hd groups j hj

/-- T1 (calculator).  A Fermi-sea calculator (`fder = 0`, any formula values `v`, any degeneracy threshold / Kramers
    flag) at the Fermi level `Ef_j` of a uniform grid returns, for every k-point, the sum of the formula values
    over the groups of `get_bands_in_range_groups_ik` with (mean) energy `≤ Ef_j`, the lumped group of the bands
    below the window included. -/
theorem sea_calculator_is_step_sum (Ef : Nat → Rat) (nEf : Nat) (hu : Uniform Ef nEf) (hd : 0 < dEF Ef nEf)
    (E : Nat → Rat) (th : Rat) (nb : Nat) (kr : Bool) (v : Nat × Nat → Rat) (j : Nat) (hj : j < nEf) :
    resolved 0 Ef nEf (calcK 0 Ef nEf E th nb kr none v) j =
      stepSum (groupsWithValues E th nb kr (Ef 0) (Ef (nEf - 1)) true none v) (Ef j) :=
  sea_eq_stepSum Ef nEf hu hd E th nb kr v j hj

/-! ## cumulative DOS (Identity formula: the value of a group is its size) -/

/-- T2 (monotone).  The CumDOS contribution of a k-point is non-decreasing along the Fermi grid. -/
theorem cumdos_monotone (Ef : Nat → Rat) (nEf : Nat) (hu : Uniform Ef nEf) (hd : 0 < dEF Ef nEf)
    (E : Nat → Rat) (th : Rat) (nb : Nat) (kr : Bool) (j j' : Nat) (hjj : j ≤ j') (hj : j' < nEf) :
    cumdosK Ef nEf E th nb kr j ≤ cumdosK Ef nEf E th nb kr j' :=
  cumdosK_mono_aux Ef nEf hu hd E th nb kr j j' hjj hj

/-- T2 (below).  If `Ef_j` is below all bands of the k-point the contribution is 0. -/
theorem cumdos_zero_below (Ef : Nat → Rat) (nEf : Nat) (hu : Uniform Ef nEf) (hd : 0 < dEF Ef nEf)
    (E : Nat → Rat) (th : Rat) (nb : Nat) (kr : Bool) (hk : kr = true → nb % 2 = 0) (j : Nat) (hj : j < nEf)
    (hbelow : ∀ i, i < nb → Ef j < E i) :
    cumdosK Ef nEf E th nb kr j = 0 :=
  cumdosK_below_aux Ef nEf hu hd E th nb kr hk j hj hbelow

/-- T2 (above).  If `Ef_j` is above all bands of the k-point (energies sorted ascending, as `eigh` returns them; an
    even number of bands when Kramers pairs are requested) the contribution is the number of bands: every band lies
    in exactly one counted group. -/
theorem cumdos_NB_above (Ef : Nat → Rat) (nEf : Nat) (hu : Uniform Ef nEf) (hd : 0 < dEF Ef nEf)
    (E : Nat → Rat) (th : Rat) (nb : Nat) (kr : Bool) (hk : kr = true → nb % 2 = 0)
    (hsorted : ∀ i i', i ≤ i' → i' < nb → E i ≤ E i') (j : Nat) (hj : j < nEf)
    (habove : ∀ i, i < nb → E i ≤ Ef j) :
    cumdosK Ef nEf E th nb kr j = (nb : Rat) :=
  cumdosK_above_aux Ef nEf hu hd E th nb kr hk hsorted j hj habove

/-- T2 (k-average).  The reported CumDOS is the mean over the k-points of the per-k contributions; in particular it
    equals NB once `Ef_j` is above all bands at all k-points, and 0 below all of them. -/
theorem cumdos_is_k_average (Ef : Nat → Rat) (nEf : Nat) (th : Rat) (kr : Bool) (ks : List (Nat → Rat)) (nb : Nat)
    (j : Nat) :
    unresolved 0 Ef nEf (ks.map (fun E => calcK 0 Ef nEf E th nb kr none sizeOf)) j =
      ((ks.map (fun E => cumdosK Ef nEf E th nb kr j)).sum) / (ks.length : Rat) := by
  rw [← kresolved_mean_aux, List.map_map, List.length_map]
  rfl

/-! ## derivatives of the Fermi distribution = central differences of the Fermi sea -/

/-- T3.  For `fder = 1, 2, 3` and a uniform Fermi grid the reported result is the code's stencil applied to the result
    of the Fermi-sea calculator (`fder = 0`, same formula, same thresholds) on the grid extended by `extraEf` points on
    both sides; the lumped group `(0, bandmax)` is constant along the grid and cancels. -/
theorem surface_is_fd_of_sea (fder : Nat) (h1 : 1 ≤ fder) (h3 : fder ≤ 3) (Ef : Nat → Rat) (n : Nat)
    (hn : 0 < n) (hu : Uniform Ef n) (th : Rat) (kr : Bool) (ks : List KPoint) (j : Nat) :
    unresolved fder Ef n (ks.map (fun k => calcK fder Ef n k.1 th k.2.1 kr none k.2.2)) j =
      stencil fder (dEF Ef n)
        (fun i => unresolved 0 (extGrid fder Ef n) (nEFextra n fder)
          (ks.map (fun k => calcK 0 (extGrid fder Ef n) (nEFextra n fder) k.1 th k.2.1 kr none k.2.2)) i) j :=
  surface_is_fd_of_sea_aux fder h1 h3 Ef n hn hu th kr ks j

/-- T3 (k-resolved). -/
theorem surface_is_fd_of_sea_kresolved (fder : Nat) (h1 : 1 ≤ fder) (h3 : fder ≤ 3) (Ef : Nat → Rat) (n : Nat)
    (hn : 0 < n) (hu : Uniform Ef n) (E : Nat → Rat) (th : Rat) (nb : Nat) (kr : Bool) (v : Nat × Nat → Rat)
    (j : Nat) :
    resolved fder Ef n (calcK fder Ef n E th nb kr none v) j =
      stencil fder (dEF Ef n)
        (fun i => resolved 0 (extGrid fder Ef n) (nEFextra n fder)
          (calcK 0 (extGrid fder Ef n) (nEFextra n fder) E th nb kr none v) i) j :=
  surface_is_fd_of_sea_resolved fder h1 h3 Ef n hn hu E th nb kr v j

/-- T3 (the stencils are the central differences).  With `S` the Fermi-sea step sum and `d = dEF > 0`:
    `fder = 1` gives `(S(Ef_j + d) - S(Ef_j - d)) / (2d)`. -/
theorem fder1_is_first_central_difference (Ef : Nat → Rat) (n : Nat) (hn : 0 < n) (hu : Uniform Ef n)
    (hd : 0 < dEF Ef n) (E : Nat → Rat) (th : Rat) (nb : Nat) (kr : Bool) (v : Nat × Nat → Rat) (j : Nat)
    (hj : j < n) :
    let S := stepSum (groupsWithValues E th nb kr (EFmin Ef n 1) (EFmax Ef n 1) true none v)
    let d := dEF Ef n
    resolved 1 Ef n (calcK 1 Ef n E th nb kr none v) j = (S (Ef j + d) - S (Ef j - d)) / (2 * d) := by
  intro S d
  rw [fder_is_central_difference_aux 1 (by omega) (by omega) Ef n hn hu hd E th nb kr v j hj, stencil_1]
  have e : extraEf 1 = 1 := rfl
  simp only [e]
  congr 3 <;> push_cast <;> ring

/-- `fder = 2` gives `(S(Ef_j + d) + S(Ef_j - d) - 2 S(Ef_j)) / d²`. -/
theorem fder2_is_second_central_difference (Ef : Nat → Rat) (n : Nat) (hn : 0 < n) (hu : Uniform Ef n)
    (hd : 0 < dEF Ef n) (E : Nat → Rat) (th : Rat) (nb : Nat) (kr : Bool) (v : Nat × Nat → Rat) (j : Nat)
    (hj : j < n) :
    let S := stepSum (groupsWithValues E th nb kr (EFmin Ef n 2) (EFmax Ef n 2) true none v)
    let d := dEF Ef n
    resolved 2 Ef n (calcK 2 Ef n E th nb kr none v) j = (S (Ef j + d) + S (Ef j - d) - 2 * S (Ef j)) / (d * d) := by
  intro S d
  rw [fder_is_central_difference_aux 2 (by omega) (by omega) Ef n hn hu hd E th nb kr v j hj, stencil_2]
  have e : extraEf 2 = 1 := rfl
  simp only [e]
  have a1 : Ef j + (((j + 2 : Nat) : Rat) - (j : Rat) - ((1 : Nat) : Rat)) * dEF Ef n = Ef j + d := by
    push_cast; ring
  have a2 : Ef j + (((j : Nat) : Rat) - (j : Rat) - ((1 : Nat) : Rat)) * dEF Ef n = Ef j - d := by
    push_cast; ring
  have a3 : Ef j + (((j + 1 : Nat) : Rat) - (j : Rat) - ((1 : Nat) : Rat)) * dEF Ef n = Ef j := by
    push_cast; ring
  rw [a1, a2, a3]

/-- `fder = 3` gives the five-point third difference
    `(S(Ef_j + 2d) - S(Ef_j - 2d) - 2 (S(Ef_j + d) - S(Ef_j - d))) / (2d³)`. -/
theorem fder3_is_third_central_difference (Ef : Nat → Rat) (n : Nat) (hn : 0 < n) (hu : Uniform Ef n)
    (hd : 0 < dEF Ef n) (E : Nat → Rat) (th : Rat) (nb : Nat) (kr : Bool) (v : Nat × Nat → Rat) (j : Nat)
    (hj : j < n) :
    let S := stepSum (groupsWithValues E th nb kr (EFmin Ef n 3) (EFmax Ef n 3) true none v)
    let d := dEF Ef n
    resolved 3 Ef n (calcK 3 Ef n E th nb kr none v) j =
      (S (Ef j + 2 * d) - S (Ef j - 2 * d) - 2 * (S (Ef j + d) - S (Ef j - d))) / (2 * (d * d * d)) := by
  intro S d
  rw [fder_is_central_difference_aux 3 (by omega) (by omega) Ef n hn hu hd E th nb kr v j hj, stencil_3]
  have e : extraEf 3 = 2 := rfl
  simp only [e]
  have a1 : Ef j + (((j + 4 : Nat) : Rat) - (j : Rat) - ((2 : Nat) : Rat)) * dEF Ef n = Ef j + 2 * d := by
    push_cast; ring
  have a2 : Ef j + (((j : Nat) : Rat) - (j : Rat) - ((2 : Nat) : Rat)) * dEF Ef n = Ef j - 2 * d := by
    push_cast; ring
  have a3 : Ef j + (((j + 3 : Nat) : Rat) - (j : Rat) - ((2 : Nat) : Rat)) * dEF Ef n = Ef j + d := by
    push_cast; ring
  have a4 : Ef j + (((j + 1 : Nat) : Rat) - (j : Rat) - ((2 : Nat) : Rat)) * dEF Ef n = Ef j - d := by
    push_cast; ring
  rw [a1, a2, a3, a4]

/-! ## k-resolved -/

/-- T4.  The mean over the k-points of the k-resolved result equals the unresolved result, for every derivative
    order, Fermi grid and group content (the unresolved result is divided by `nk`, the resolved one is not). -/
theorem kresolved_mean (fder : Nat) (Ef : Nat → Rat) (n : Nat) (ks : List (List Group)) (j : Nat) :
    ((ks.map (fun g => resolved fder Ef n g j)).sum) / (ks.length : Rat) = unresolved fder Ef n ks j :=
  kresolved_mean_aux fder Ef n ks j

/-! ## glue: ties, scalars, hole-like flag, value assembly, shared Data_K, non-uniform grids -/

/-- T1 (ties).  In exact arithmetic a state lying exactly on a Fermi level, `E = EFmin + j·d`, has bin index exactly `j`:
    it is counted at that Fermi level and all later ones (`ceil` ⇒ the convention is `E ≤ Ef_j`).  (In floating point
    with a non-dyadic spacing `fl((E - EFmin)/d)` may land just above `j`, which moves the state to bin `j+1`;
    that rounding is outside the model, see TRUSTED.) -/
theorem tie_is_counted (efmin d : Rat) (hd : 0 < d) (j : Nat) :
    iEf efmin d (efmin + (j : Rat) * d) = (j : Int) :=
  iEf_tie efmin d hd j

/-- T5 (scalars).  The reported number is `constant_factor_eff / (nk · cell_volume)` times the stencil of the k-summed
    accumulation — any change of the normalisation (another cell measure, a missing `1/nk`) changes this formula. -/
theorem result_normalisation (cf vol : Rat) (h u : Bool) (fder : Nat) (Ef : Nat → Rat) (n : Nat)
    (ks : List (List Group)) (j : Nat) :
    fullUnresolved cf vol h u fder Ef n ks j =
      effFactor cf h fder u / ((ks.length : Rat) * vol) *
        stencil fder (dEF Ef n)
          (sumK (ks.map (fun g => accumulate (EFmin Ef n fder) (EFmax Ef n fder) (dEF Ef n) g))) j :=
  fullUnresolved_formula cf vol h u fder Ef n ks j

/-- T5 (`_DOS` classes).  CumDOS / DOS multiply by `cell_volume` again, so they do not depend on it. -/
theorem dos_class_volume_free (vol : Rat) (hv : vol ≠ 0) (fder : Nat) (Ef : Nat → Rat) (n : Nat)
    (ks : List (List Group)) (j : Nat) :
    dosClass vol fder Ef n ks j = unresolved fder Ef n ks j := by
  unfold dosClass fullUnresolved effFactor
  simp only [Bool.false_and, Bool.false_eq_true, if_false, if_true, mul_one]
  field_simp

/-- T5 (hole-like, no tetrahedra).  `hole_like=True` changes a Fermi-sea calculator only by the overall sign
    (`constant_factor *= -1`): the sum still runs over the states BELOW the Fermi level; for `fder ≥ 1` the flag has no
    effect.  (With `tetra=True` the same flag selects the states ABOVE the level — C14, `der = -1`.) -/
theorem hole_like_is_sign_flip (cf vol : Rat) (u : Bool) (Ef : Nat → Rat) (n : Nat) (ks : List (List Group)) (j : Nat) :
    fullUnresolved cf vol true u 0 Ef n ks j = - fullUnresolved cf vol false u 0 Ef n ks j := by
  unfold fullUnresolved
  rw [effFactor_hole]; ring

theorem hole_like_ignored_for_surface (cf vol : Rat) (u : Bool) (fder : Nat) (hf : 1 ≤ fder) (Ef : Nat → Rat) (n : Nat)
    (ks : List (List Group)) (j : Nat) :
    fullUnresolved cf vol true u fder Ef n ks j = fullUnresolved cf vol false u fder Ef n ks j := by
  unfold fullUnresolved
  rw [effFactor_hole_pos cf u fder hf]

/-- T6 (value assembly).  For a formula whose trace is additive over adjacent band ranges the two branches of
    `__call__` (`formula.additive` True / False) assign the same value to every group. -/
theorem assembly_agree (tr : Nat → Nat → Rat)
    (hadd : ∀ a b c, a ≤ b → b ≤ c → tr a b + tr b c = tr a c) (ab : Nat × Nat) (hab : ab.1 ≤ ab.2) :
    assemble false tr ab = assemble true tr ab :=
  assemble_agree_aux tr hadd ab hab

/-- T7 (shared Data_K).  The group dictionary is a function of `(energies, emin, emax, thresh, Kramers, sea,
    select_bands)` and the `sea` flag matters: for the same window a sea calculator needs the lumped group that a
    surface calculator must not get.  Any memoisation across calculators sharing one Data_K must key on all of them. -/
theorem sea_flag_matters :
    groupsIK (ofList [-1, 1]) (1 / 100) 2 false 0 2 true none ≠ groupsIK (ofList [-1, 1]) (1 / 100) 2 false 0 2 false none := by
  decide +kernel

/-- T8 (uniform grids are necessary).  On the non-uniform grid 0, 1, 5 the code takes `dEF = 1`, so a band at
    `E = 3 ≤ 5` gets bin index 3, beyond the array: the Fermi-sea result at `Ef = 5` is 0 although the state is below
    it.  The hypothesis `Uniform` of the theorems above cannot be dropped (the property quantifies over uniform
    grids only). -/
theorem nonuniform_grid_miscounts :
    resolved 0 (ofList [0, 1, 5]) 3 (calcK 0 (ofList [0, 1, 5]) 3 (ofList [3]) (1 / 100) 1 false none sizeOf) 2 = 0 ∧
    stepSum (groupsWithValues (ofList [3]) (1 / 100) 1 false 0 5 true none sizeOf) 5 = 1 := by
  decide +kernel

/-- T9 (order of the selection).  `weight_select_bands`, the group filter and hence the whole group dictionary with
    values depend on `select_bands` only as a multiset: permuting the selection changes nothing (repeated entries are
    counted with their multiplicity, as `np.sum` of the masks does). -/
theorem weight_select_perm_invariant {l l' : List Nat} (h : l.Perm l') (ab : Nat × Nat) :
    wsel (some l) ab = wsel (some l') ab ∧ selHits (some l) ab = selHits (some l') ab :=
  wsel_perm h ab

/-! ## non-vacuity -/

/-- a uniform 3-point grid 0, 1/2, 1 -/
example : Uniform (ofList [0, 1 / 2, 1]) 3 ∧ 0 < dEF (ofList [0, 1 / 2, 1]) 3 := by
  constructor
  · intro j hj
    have : j = 0 ∨ j = 1 ∨ j = 2 := by omega
    rcases this with rfl | rfl | rfl <;> simp [ofList, dEF] <;> try norm_num
  · simp [ofList, dEF]
/-- bands -1, 1/4, 1/4 (a doublet), 2: the doublet is counted whole at Ef = 1/2; CumDOS = 1, 3, 3 -/
example : (List.range 3).map (cumdosK (ofList [0, 1 / 2, 1]) 3 (ofList [-1, 1 / 4, 1 / 4, 2]) (1 / 100) 4 false)
    = [1, 3, 3] := by decide +kernel
/-- DOS (fder = 1) of the same bands on the same grid: central differences of the CumDOS on -1/2 … 3/2 -/
example : (List.range 3).map (resolved 1 (ofList [0, 1 / 2, 1]) 3
    (calcK 1 (ofList [0, 1 / 2, 1]) 3 (ofList [-1, 1 / 4, 1 / 4, 2]) (1 / 100) 4 false none sizeOf)) = [2, 2, 0] := by
  decide +kernel

end WB.C13
