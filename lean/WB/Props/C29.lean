/-
  C29 — paths are built and tabulated faithfully: property theorems.

  All statements are for arbitrary node lists (with `None` breaks, repeated nodes, any coordinates), arbitrary labels,
  arbitrary per-segment point numbers ≥ 2, arbitrary refinement factors ≥ 1, arbitrary batch sizes ≥ 1 and arbitrary
  orders of the computed k-points.  Not proved here (oracle only): that `run()` evaluates every batch with the
  tabulators and concatenates the per-batch results (`TABresult.__add__`) — see harness/props/c29.py.
-/
import WB.Lemmas.C29Aux
import WB.Lemmas.C29Path

namespace WB.C29

/-! ## `Path.from_nodes` -/

/-- T1 (every node, in order, at its labelled index).  Reading the path at the labelled indices gives exactly the
    non-None nodes with their labels, in the order of the node list; the labelled indices are strictly increasing
    and inside the path. -/
theorem fromNodes_nodes_in_order (nodes : List (Option (Q3 × Nat))) (nks : List Nat) (r : PathM)
    (hn : ∀ n ∈ nks, 2 ≤ n) (h : fromNodes nodes nks = some r) :
    labelsRead r = someNodes nodes ∧ (r.labels.map (·.1)).Pairwise (· < ·) ∧ ∀ p ∈ r.labels, p.1 < r.K.length := by
  obtain ⟨⟨h1, h2⟩, h3⟩ := fromNodesLoop_labels nodes nks PathM.empty r inv_empty hn h
  refine ⟨?_, h2, h1⟩
  rw [h3]
  simp [labelsRead, PathM.empty]

/-- T2 (uniform sampling).  Whenever the construction reaches a real segment `a → b` with `n ≥ 2` points (in any
    state `st` reached so far), the finished path contains `a + j/(n−1)·(b − a)` for `j < n−1` right after the
    points stored so far, then the node `b` itself; `a` and `b` carry their labels at those indices. -/
theorem fromNodes_segment_uniform (a b : Q3) (la lb : Nat) (rest : List (Option (Q3 × Nat))) (nks : List Nat)
    (st r : PathM) (hinv : Inv st) (hn : ∀ n ∈ nks, 2 ≤ n)
    (h : fromNodesLoop (some (a, la) :: some (b, lb) :: rest) nks st = some r) :
    let n := nks.headD 2
    (∀ j, j < n - 1 → r.K.getD (st.K.length + j) (0, 0, 0) = lerp a b j (n - 1)) ∧
      r.K.getD (st.K.length + (n - 1)) (0, 0, 0) = b ∧
      (st.K.length, la) ∈ r.labels ∧ (st.K.length + (n - 1), lb) ∈ r.labels := by
  intro n
  have hn2 : 2 ≤ n := by
    show 2 ≤ nks.headD 2
    cases nks with
    | nil => simp
    | cons m _ => simpa using hn m (by simp)
  obtain ⟨ext0, lext0, _, g2, g3⟩ := fromNodesLoop_grow _ nks st r hinv hn h
  obtain ⟨_, hla⟩ := g3 a la _ rfl
  simp only [fromNodesLoop] at h
  obtain ⟨tl, htl⟩ := segPts_head a b n hn2
  have h' := h
  rw [show nks.headD 2 = n from rfl, htl] at h'
  obtain ⟨i1, i2, _⟩ := push_inv st a tl la st.breaks hinv
  have hn' : ∀ m ∈ nks.tail, 2 ≤ m := fun m hm => hn m (List.mem_of_mem_tail hm)
  obtain ⟨ext, lext, h1, h2, h3⟩ := fromNodesLoop_grow (some (b, lb) :: rest) nks.tail _ r i1 hn' h'
  obtain ⟨hb, hlb⟩ := h3 b lb rest rfl
  have hK : r.K = st.K ++ (segPts a b n ++ ext) := by rw [h1, htl]; simp
  have hseg : (segPts a b n).length = n - 1 := segPts_length a b n
  refine ⟨?_, ?_, ?_, ?_⟩
  · intro j hj
    rw [hK, getD_append_right' _ _ _ _ (by omega)]
    have e : st.K.length + j - st.K.length = j := by omega
    rw [e, getD_append_left' _ _ _ _ (by omega)]
    exact segPts_getD a b n j hj
  · rw [hK, getD_append_right' _ _ _ _ (by omega)]
    have e : st.K.length + (n - 1) - st.K.length = n - 1 := by omega
    rw [e, getD_append_right' _ _ _ _ (by omega), hseg]
    cases ext with
    | nil => simp at hb
    | cons x _ => simp at hb; simp [hb]
  · rw [g2]
    cases lext0 with
    | nil => simp at hla
    | cons x _ => simp at hla; simp [hla]
  · rw [h2]
    have hlen : (st.K ++ a :: tl).length = st.K.length + (n - 1) := by
      rw [List.length_append, ← htl, hseg]
    cases lext with
    | nil => simp at hlb
    | cons x _ =>
      simp at hlb
      have htl_len : tl.length + 1 = n - 1 := by rw [← hseg, htl]; simp
      rw [hlb, htl_len]
      simp

/-- T3 (breaks).  A node followed by `None` is stored once, its index is a break, and the node after the `None`
    follows immediately (no interpolated points across the break). -/
theorem fromNodes_break (a : Q3) (la : Nat) (rest : List (Option (Q3 × Nat))) (nks : List Nat)
    (st r : PathM) (hinv : Inv st) (hn : ∀ n ∈ nks, 2 ≤ n)
    (h : fromNodesLoop (some (a, la) :: none :: rest) nks st = some r) :
    r.K.getD st.K.length (0, 0, 0) = a ∧ st.K.length ∈ r.breaks ∧ (st.K.length, la) ∈ r.labels ∧
      ∀ c lc rest', rest = some (c, lc) :: rest' →
        r.K.getD (st.K.length + 1) (0, 0, 0) = c ∧ (st.K.length + 1, lc) ∈ r.labels := by
  obtain ⟨ext0, lext0, g1, g2, g3⟩ := fromNodesLoop_grow _ nks st r hinv hn h
  obtain ⟨ha, hla⟩ := g3 a la _ rfl
  simp only [fromNodesLoop] at h
  obtain ⟨bext, hb⟩ := fromNodesLoop_breaks (none :: rest) nks _ r h
  obtain ⟨i1, i2, _⟩ := push_inv st a [] la (st.breaks ++ [st.K.length]) hinv
  refine ⟨?_, ?_, ?_, ?_⟩
  · rw [g1, getD_append_right' _ _ _ _ (le_refl _)]
    cases ext0 with
    | nil => simp at ha
    | cons x _ => simp at ha; simp [ha]
  · rw [hb]; simp
  · rw [g2]
    cases lext0 with
    | nil => simp at hla
    | cons x _ => simp at hla; simp [hla]
  · intro c lc rest' hrest
    subst hrest
    simp only [fromNodesLoop] at h
    obtain ⟨ext, lext, h1, h2, h3⟩ := fromNodesLoop_grow (some (c, lc) :: rest') nks _ r i1 hn h
    obtain ⟨hc, hlc⟩ := h3 c lc rest' rfl
    have hlen : (st.K ++ [a]).length = st.K.length + 1 := by simp
    constructor
    · rw [h1]
      show ((st.K ++ [a]) ++ ext).getD (st.K.length + 1) (0, 0, 0) = c
      rw [getD_append_right' _ _ _ _ (by omega), hlen]
      cases ext with
      | nil => simp at hc
      | cons x _ => simp at hc; simp [hc]
    · rw [h2]
      cases lext with
      | nil => simp at hlc
      | cons x _ =>
        simp at hlc
        simp [hlc]

/-! ## `Path.get_refined` -/

/-- refined index of the original point `t`:  Σ_{u<t} (1 if `u` is a break, else `factor`) -/
def phi (P : PathM) (factor t : Nat) : Nat := phiFrom P factor 0 t

/-- T4a (original points are kept).  The original point `t` is found at refined index `phi t`. -/
theorem refine_keeps_points (P : PathM) (factor : Nat) (hf : 1 ≤ factor) (t : Nat) (ht : t < P.K.length) :
    (refine P factor).K.getD (phi P factor t) (0, 0, 0) = P.K.getD t (0, 0, 0) := by
  have := refineGo_points P factor hf P.K 0 PathM.empty t ht
  simpa [refine, phi, PathM.empty] using this

/-- T4b (labels and breaks are carried, nothing else is marked).  `(k, l)` is a label of the refined path iff
    `k = phi t` for an original point `t` labelled `l`; `k` is a break iff `k = phi t` for an original break `t`. -/
theorem refine_labels_breaks (P : PathM) (factor : Nat) (hf : 1 ≤ factor) :
    (∀ k l, (k, l) ∈ (refine P factor).labels ↔ ∃ t, t < P.K.length ∧ k = phi P factor t ∧ dictGet P.labels t = some l) ∧
    (∀ k, k ∈ (refine P factor).breaks ↔ ∃ t, t < P.K.length ∧ k = phi P factor t ∧ P.breaks.contains t = true) := by
  obtain ⟨h1, h2⟩ := refineGo_labels P factor hf P.K 0 PathM.empty (by simp [PathM.empty])
  constructor
  · intro k l
    unfold refine
    rw [h1]
    simp only [PathM.empty, List.nil_append, List.length_nil]
    rw [mem_refLabels]
    simp [phi]
  · intro k
    unfold refine
    rw [h2]
    simp only [PathM.empty, List.nil_append, List.length_nil]
    rw [mem_refBreaks]
    simp [phi]

/-- T4c (uniform subdivision).  Between two consecutive original points that are not separated by a break the
    refined path holds `K[t] + j/factor·(K[t+1] − K[t])`, `j < factor`. -/
theorem refine_subdivides (P : PathM) (factor : Nat) (hf : 1 ≤ factor) (t j : Nat) (ht : t + 1 < P.K.length)
    (hnb : P.breaks.contains t = false) (hj : j < factor) :
    (refine P factor).K.getD (phi P factor t + j) (0, 0, 0)
      = lerp (P.K.getD t (0, 0, 0)) (P.K.getD (t + 1) (0, 0, 0)) j factor := by
  have := refineGo_interior P factor hf P.K 0 PathM.empty t j ht (by simpa using hnb) hj
  simpa [refine, phi, PathM.empty] using this

/-! ## `Path.getKline` -/

/-- T5.  For non-negative step lengths the path coordinate has one entry per point, starts at 0, never decreases,
    and does not advance across a break. -/
theorem kline_monotone (d : List Rat) (breaks : List Nat) (thresh : Option Rat) (hd : ∀ x ∈ d, 0 ≤ x) :
    (kline d breaks thresh).length = d.length + 1 ∧ (kline d breaks thresh).head? = some 0 ∧
      (kline d breaks thresh).Pairwise (· ≤ ·) ∧
      ∀ i ∈ breaks, i < d.length → (kline d breaks thresh).getD (i + 1) 0 = (kline d breaks thresh).getD i 0 := by
  unfold kline
  refine ⟨?_, rfl, ?_, ?_⟩
  · rw [List.length_cons, cumsum_length, klineSteps_length]
  · exact cumsum_sorted _ 0 (klineSteps_nonneg d breaks thresh hd)
  · intro i hi hlt
    rw [cumsum_step _ 0 i (by rw [klineSteps_length]; exact hlt), klineSteps_break d breaks thresh i hi]
    ring

/-- T5' (the path coordinate is the ARC LENGTH).  Entry `i` of `getKline` is the SUM of the step lengths
    `|k_{t+1} − k_t|` for `t < i` — with the steps at breaks (and above `break_thresh`) replaced by 0 —
    whatever the labels of the path are: no other quantity (e.g. the straight-line distance from the last
    labelled point) is admissible. -/
theorem kline_arc_length (d : List Rat) (breaks : List Nat) (thresh : Option Rat) (i : Nat) (hi : i ≤ d.length) :
    (kline d breaks thresh).getD i 0 = ((klineSteps d breaks thresh).take i).sum := by
  unfold kline
  rw [cumsum_getD _ 0 i (by rw [klineSteps_length]; exact hi)]
  ring

/-- without breaks and threshold the steps are the distances themselves -/
theorem kline_arc_length_plain (d : List Rat) (i : Nat) (hi : i ≤ d.length) :
    (kline d [] none).getD i 0 = (d.take i).sum := by
  rw [kline_arc_length d [] none i hi]
  congr 2
  unfold klineSteps
  simp

/-- the chord-length rule is a different function: on the two-segment path 0 → 1 → 0 (going out and back) the arc
    length is [0, 1, 2] while the straight-line distance from the start is [0, 1, 0] — it decreases, so it is not a
    path coordinate (this is the behaviour of the seeded change T-C29 at an unlabelled corner). -/
theorem chord_rule_counterexample :
    kline (steps1 [0, 1, 0]) [] none = [0, 1, 2] ∧ chordLine [0, 1, 0] = [0, 1, 0] ∧
      ¬ (chordLine [0, 1, 0]).Pairwise (· ≤ ·) := by
  decide +kernel

/-! ## `Path.get_K_list` -/

/-- T6.  For every batch size `k_batch ≥ 1` the batches, concatenated in order, are the k-list; no batch is empty
    and none exceeds `k_batch`. -/
theorem chunks_partition {α} (k : Nat) (hk : 0 < k) (l : List α) :
    (chunks k l).flatten = l ∧ ∀ c ∈ chunks k l, c ≠ [] ∧ c.length ≤ k :=
  ⟨chunksAux_flatten k hk l.length l (le_refl _), chunksAux_sizes k hk l.length l⟩

/-! ## `TABresult.self_to_path` -/

/-- T7a (soundness).  When the reordering succeeds, the result k-point assigned to every path point equals it
    modulo a reciprocal lattice vector — whatever the order in which the k-points were computed. -/
theorem selfToPath_sound (kres kpath : List Q3) (m : List Nat) (h : selfToPath kres kpath = some m) :
    m.length = kpath.length ∧
      ∀ j p, kpath[j]? = some p → Congr (kres.getD (m.getD j 0) (0, 0, 0)) p := by
  unfold selfToPath at h
  simp only at h
  split at h
  · rename_i hall
    cases h
    refine ⟨by simp [pathMapping], ?_⟩
    intro j p hj
    rw [List.all_eq_true] at hall
    unfold pathMapping at hall ⊢
    rw [zip_map_self] at hall
    have hmem : (argmin (kres.map (fun k => pdist2 k p)), p) ∈
        kpath.map (fun p => (argmin (kres.map (fun k => pdist2 k p)), p)) :=
      List.mem_map.mpr ⟨p, List.mem_of_getElem? hj, rfl⟩
    have := hall _ hmem
    simp only [beq_iff_eq] at this
    rw [pdist2_eq_zero_iff] at this
    have e : (kpath.map (fun p => argmin (kres.map (fun k => pdist2 k p)))).getD j 0
        = argmin (kres.map (fun k => pdist2 k p)) := by
      rw [List.getD_eq_getElem?_getD, List.getElem?_map, hj]; rfl
    rw [e]
    exact this
  · cases h

/-- T7b (completeness, first match).  If every path point has a congruent partner among the computed k-points
    (e.g. the batches were evaluated in ANY order, with k-points stored modulo 1), the reordering succeeds, and the
    index chosen for a path point is the FIRST computed k-point congruent to it. -/
theorem selfToPath_complete (kres kpath : List Q3)
    (hall : ∀ p ∈ kpath, ∃ i, i < kres.length ∧ Congr (kres.getD i (0, 0, 0)) p) :
    ∃ m, selfToPath kres kpath = some m ∧
      ∀ j p, kpath[j]? = some p → m.getD j 0 < kres.length ∧
        ∀ i, i < m.getD j 0 → ¬ Congr (kres.getD i (0, 0, 0)) p := by
  have key : ∀ p ∈ kpath,
      let r := argmin (kres.map (fun k => pdist2 k p))
      r < kres.length ∧ pdist2 (kres.getD r (0, 0, 0)) p = 0 ∧
        ∀ i, i < r → ¬ Congr (kres.getD i (0, 0, 0)) p := by
    intro p hp
    obtain ⟨i0, hi0, hc⟩ := hall p hp
    have hne : kres.map (fun k => pdist2 k p) ≠ [] := by
      intro e
      rw [List.map_eq_nil_iff] at e
      rw [e] at hi0
      simp at hi0
    obtain ⟨s1, s2, s3⟩ := argmin_spec _ hne
    have hget : ∀ i, i < kres.length →
        (kres.map (fun k => pdist2 k p)).getD i 0 = pdist2 (kres.getD i (0, 0, 0)) p := by
      intro i hi
      rw [List.getD_eq_getElem?_getD, List.getElem?_map, List.getD_eq_getElem?_getD]
      rw [List.getElem?_eq_getElem hi]
      rfl
    rw [List.length_map] at s1 s2
    intro r
    have hr0 : pdist2 (kres.getD r (0, 0, 0)) p = 0 := by
      have h1 := s2 i0 hi0
      rw [hget _ s1, hget _ hi0, (pdist2_eq_zero_iff _ _).2 hc] at h1
      exact le_antisymm h1 (pdist2_nonneg _ _)
    refine ⟨s1, hr0, ?_⟩
    intro i hi hcon
    have h1 := s3 i hi
    rw [hget _ s1, hget _ (by omega), (pdist2_eq_zero_iff _ _).2 hcon, hr0] at h1
    exact lt_irrefl _ h1
  refine ⟨pathMapping kres kpath, ?_, ?_⟩
  · unfold selfToPath
    simp only
    rw [if_pos]
    rw [List.all_eq_true]
    intro ip hip
    unfold pathMapping at hip
    rw [zip_map_self] at hip
    obtain ⟨p, hp, rfl⟩ := List.mem_map.mp hip
    simp only [beq_iff_eq]
    exact (key p hp).2.1
  · intro j p hj
    have e : (pathMapping kres kpath).getD j 0 = argmin (kres.map (fun k => pdist2 k p)) := by
      unfold pathMapping
      rw [List.getD_eq_getElem?_getD, List.getElem?_map, hj]; rfl
    rw [e]
    have := key p (List.mem_of_getElem? hj)
    exact ⟨this.1, this.2.2⟩

/-! ## component extraction: `KBandResult.get_component`, `TABresult.get_data` -/

/-- T8a.  For a tensor of ANY rank and every index tuple, `get_component(data, component=(a, b, …))` returns the entry
    `data[..., a, b, …]` — the tuple is read in axis order although the loop peels the last axis first. -/
theorem getComponent_entry (T : Tensor) (comp idx : List Nat) : getComponent T comp idx = T (idx ++ comp) := by
  unfold getComponent
  rw [List.foldl_reverse]
  exact foldr_peel T comp idx

/-- rank 2: component `(a, b)` is `T[a][b]` -/
theorem getComponent_rank2 (T : Tensor) (a b : Nat) : getComponent T [a, b] [] = T [a, b] :=
  getComponent_entry T [a, b] []

/-- T8b.  The forward loop of the seeded change W-C29 returns the entry of the REVERSED tuple (the transposed
    element) … -/
theorem getComponentFwd_entry (T : Tensor) (comp idx : List Nat) :
    getComponentFwd T comp idx = T (idx ++ comp.reverse) := foldl_peel T comp idx

/-- … so it agrees with the code on every tensor that is symmetric under reversal of its indices (energies,
    vectors, inverse masses — which is why it passed unnoticed) … -/
theorem getComponentFwd_agrees_on_symmetric (T : Tensor) (hsym : ∀ idx, T idx.reverse = T idx) (comp : List Nat) :
    getComponentFwd T comp [] = getComponent T comp [] := by
  rw [getComponentFwd_entry, getComponent_entry]
  simpa using hsym comp

/-- … and differs on a non-symmetric rank-2 tensor (`T[a][b] = 3a + b`, like `∂_b Ω_a`): component (0,1) is 1, the
    forward loop returns `T[1][0] = 3`. -/
theorem getComponentFwd_counterexample :
    getComponent (tensorOfFlat [0, 1, 2, 3, 4, 5, 6, 7, 8]) [0, 1] [] = 1 ∧
      getComponentFwd (tensorOfFlat [0, 1, 2, 3, 4, 5, 6, 7, 8]) [0, 1] [] = 3 := by
  decide +kernel

/-- T8c (path level).  Let the tensor `V k` be periodic in `k` and computed at the k-points `kres` in ANY order.
    Whenever `self_to_path` succeeds, `get_data(component)` holds, for EVERY path point and in path order, exactly the
    requested entry of the tensor evaluated at that point alone. -/
theorem getDataPath_pointwise (V : Q3 → Tensor) (hper : ∀ k p, Congr k p → V k = V p)
    (kres kpath : List Q3) (m : List Nat) (h : selfToPath kres kpath = some m) (comp : List Nat)
    (j : Nat) (p : Q3) (hj : kpath[j]? = some p) :
    (getDataPath V kres m comp).getD j 0 = V p comp := by
  obtain ⟨hlen, hc⟩ := selfToPath_sound kres kpath m h
  have hj' : j < m.length := by
    rw [hlen]; exact (List.getElem?_eq_some_iff.mp hj).1
  have hcj := hc j p hj
  have e : m.getD j 0 = m[j] := by
    rw [List.getD_eq_getElem?_getD, List.getElem?_eq_getElem hj']; rfl
  rw [e] at hcj
  unfold getDataPath toPath
  rw [List.getD_eq_getElem?_getD, List.getElem?_map, List.getElem?_map, List.getElem?_eq_getElem hj']
  simp only [Option.map_some, Option.getD_some]
  rw [getD_map_default, hper _ _ hcj, getComponent_entry]
  simp

/-- non-vacuity: a rank-3 tensor, a path visited out of order -/
example : getComponent (tensorOfFlat ((List.range 27).map (fun n => (n : Rat)))) [2, 0, 1] [] = 19 := by
  decide +kernel
example : getDataPath (fun k => fun idx => k.1 + (idx.foldl (fun a i => a * 3 + i) 0 : Nat))
    [(1/2, 0, 0), (0, 0, 0), (1/4, 0, 0)] [1, 2, 0] [1, 2] = [5, 1/4 + 5, 1/2 + 5] := by decide +kernel

/-! ## non-vacuity and concrete instances -/

/-- Γ –4– X | M –3– Z : two segments separated by a break (labels 1..4) -/
example : fromNodes [some ((0, 0, 0), 1), some ((1/2, 0, 0), 2), none, some ((1/2, 1/2, 0), 3), some ((0, 0, 1/2), 4)]
    [4, 3] = some ⟨[(0, 0, 0), (1/6, 0, 0), (1/3, 0, 0), (1/2, 0, 0), (1/2, 1/2, 0), (1/4, 1/4, 1/4), (0, 0, 1/2)],
      [(0, 1), (3, 2), (4, 3), (6, 4)], [3]⟩ := by decide +kernel

example : refine ⟨[(0, 0, 0), (1/2, 0, 0), (1/2, 1/2, 0), (0, 0, 1/2)], [(0, 1), (1, 2), (2, 3), (3, 4)], [1]⟩ 2 =
    ⟨[(0, 0, 0), (1/4, 0, 0), (1/2, 0, 0), (1/2, 1/2, 0), (1/4, 1/4, 1/4), (0, 0, 1/2)],
      [(0, 1), (2, 2), (3, 3), (5, 4)], [2]⟩ := by decide +kernel

example : kline [1, 2, 5, 1/2] [2] none = [0, 1, 3, 3, 7/2] := by decide +kernel
example : chunks 3 [0, 1, 2, 3, 4, 5, 6, 7] = [[0, 1, 2], [3, 4, 5], [6, 7]] := by decide +kernel
/-- results computed in the order 2,0,1 (stored modulo 1) are mapped back to path order; the path visits Γ twice -/
example : selfToPath [(1/2, 0, 0), (0, 0, 0), (1/4, 0, 0)] [(0, 0, 0), (1/4, 0, 0), (-1/2, 0, 0), (1, 0, 0)]
    = some [1, 2, 0, 1] := by decide +kernel
/-- a missing k-point is detected -/
example : selfToPath [(1/2, 0, 0), (0, 0, 0)] [(0, 0, 0), (1/4, 0, 0)] = none := by decide +kernel
/-- `None` as the last node is an error in the code -/
example : fromNodes [some ((0, 0, 0), 1), none] [2] = none := by decide +kernel

end WB.C29
