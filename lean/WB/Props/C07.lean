/-
  C07 — irreducible K-points + symmetrisation reproduce the unsymmetrised full-grid run: property theorems.

  What is proved: the bookkeeping.  For ANY finite group (a duplicate-free product-closed list `L` with a
  cancellative product, see `C09.ListGroup`) acting on the set of grid points, and ANY function `f` on the grid
  that is equivariant (`f (g·k) = ρ(g) (f k)`), the weighted, group-averaged sum over irreducible points equals the
  plain grid average, and the symmetrised stacked table reproduces `f` at every grid point; `TABresult.to_grid`
  puts every value at the index of its own grid point.
  What is NOT proved (`_partial` in the sense of DESIGN.md): that each calculator's per-k value IS equivariant
  (C08: declared TR/inversion parities; C09: tensor action; proper-rotation covariance of the formulas) — this is
  the hypothesis `hequiv`, and it is exactly what the oracle tests on the real calculators.
-/
import WB.Lemmas.C07Orbit
import WB.Lemmas.C07Grid
import WB.Lemmas.C07ExprLink
import WB.Lemmas.C07Terms
import WB.Lemmas.C07C06

set_option linter.unusedSimpArgs false

namespace WB.C07
open WB.C09

/-! ## T1 — orbit sum (orbit–stabiliser) -/

/-- T1.  `Σ_{g ∈ G} F(g·r) = c · Σ_{k ∈ orbit(r)} F k`  with  `c · |orbit(r)| = |G|`,
    where `orbit(r)` = the images of `r` with duplicates removed (what `star` computes). -/
theorem orbit_sum {G X V : Type} [DecidableEq X] [AddCommMonoid V] {mul : G → G → G} {L : List G}
    {act : G → X → X} (hA : ListAction mul L act) (r : X) (F : X → V) :
    ∃ c : Nat, c * (orbit L act r).length = L.length ∧
      (L.map fun g => F (act g r)).sum = c • ((orbit L act r).map F).sum :=
  orbit_sum_aux hA r F

/-- T1'.  In the form of DESIGN.md: for equivariant `f`,
    `Σ_{k ∈ orbit(r)} f k = |orbit(r)| · |G|⁻¹ · Σ_g ρ(g) (f r)`. -/
theorem orbit_sum_equivariant {G X V K : Type} [DecidableEq X] [Field K] [CharZero K] [AddCommGroup V]
    [Module K V] {mul : G → G → G} {L : List G} {act : G → X → X} (hA : ListAction mul L act) (hL : L ≠ [])
    (T : G → V → V) (f : X → V) (hequiv : ∀ g ∈ L, ∀ k, f (act g k) = T g (f k)) (r : X) :
    ((orbit L act r).map f).sum
      = (((orbit L act r).length : K) * (L.length : K)⁻¹) • (L.map fun g => T g (f r)).sum := by
  obtain ⟨c, hc, hs⟩ := orbit_sum_aux hA r f
  have e : (L.map fun g => T g (f r)) = L.map fun g => f (act g r) :=
    List.map_congr_left fun g hg => (hequiv g hg r).symm
  have hLne : (L.length : K) ≠ 0 := by
    have : L.length ≠ 0 := fun h => hL (List.length_eq_zero_iff.mp h)
    exact_mod_cast this
  have hc' : (c : K) * ((orbit L act r).length : K) = (L.length : K) := by exact_mod_cast hc
  rw [e, hs, ← Nat.cast_smul_eq_nsmul K c, smul_smul]
  have : ((orbit L act r).length : K) * (L.length : K)⁻¹ * (c : K) = 1 := by
    rw [← hc'] at hLne ⊢
    have h1 : (c : K) ≠ 0 := left_ne_zero_of_mul hLne
    have h2 : ((orbit L act r).length : K) ≠ 0 := right_ne_zero_of_mul hLne
    field_simp
  rw [this, one_smul]

/-! ## T2 — irreducible, weighted, symmetrised sum = full-grid average -/

/-- T2.  With weights `|orbit(r)| / N` (what `Grid.get_K_list(use_symmetry=True)` assigns, C06) and the orbits of
    the irreducible points partitioning the grid:
    `Σ_r w_r · (|G|⁻¹ Σ_g ρ(g) f(r)) = N⁻¹ Σ_{k ∈ grid} f(k)`. -/
theorem irred_equals_full {G X V K : Type} [DecidableEq X] [Field K] [CharZero K] [AddCommGroup V]
    [Module K V] {mul : G → G → G} {L : List G} {act : G → X → X} (hA : ListAction mul L act) (hL : L ≠ [])
    (T : G → V → V) (f : X → V) (hequiv : ∀ g ∈ L, ∀ k, f (act g k) = T g (f k))
    (grid irr : List X) (hpart : (irr.flatMap (orbit L act)).Perm grid) :
    (irr.map fun r => (((orbit L act r).length : K) / (grid.length : K)) •
        ((L.length : K)⁻¹ • (L.map fun g => T g (f r)).sum)).sum
      = (grid.length : K)⁻¹ • (grid.map f).sum :=
  irred_equals_full_aux hA hL T f hequiv grid irr hpart

section ModelLevel
variable {K : Type} [Field K] [CharZero K] {r : Nat} (ι : Rat →+* K) (conj : K →+* K)

/-- T2 for the model of `run()`: `irrSum` (K-list with factors, `pointgroup.symmetrize` of every value, weighted
    sum) equals `fullSum` (every grid point with factor `1/N`, no symmetrisation), for the model's
    `symmetrize_tensor` / `transform_tensor`, every rank, every Transform pair, every point group `L`, every action
    on grid points and every equivariant per-k value `f`.  (Only equivariance of `f` is used: the composition law
    of `transform_tensor` — C09.transformTensor_mul and its side condition — is what makes equivariant `f` exist.) -/
theorem run_irreducible_eq_full (tTR tInv : Transform r)
    (L : List (PSym Rat)) (hne : L ≠ []) (hnd : L.Nodup) (hcl : ∀ a ∈ L, ∀ b ∈ L, a.mul b ∈ L)
    (hp : ∀ g ∈ L, g.Proper)
    {X : Type} [DecidableEq X] (act : PSym Rat → X → X)
    (hact : ∀ g ∈ L, ∀ h ∈ L, ∀ x, act (g.mul h) x = act g (act h x))
    (hinj : ∀ g ∈ L, ∀ x y, act g x = act g y → x = y)
    (f : X → Tensor r K) (hequiv : ∀ g ∈ L, ∀ k, f (act g k) = transformTensor ι conj g tTR tInv (f k))
    (grid irr : List X) (hpart : (irr.flatMap (orbit L act)).Perm grid) :
    irrSum ι conj L tTR tInv (irr.map fun x => (((orbit L act x).length : Rat) / (grid.length : Rat), f x))
      = fullSum ι (grid.map fun k => ((1 : Rat) / (grid.length : Rat), f k)) := by
  have hA : ListAction PSym.mul L act := ⟨listGroup_of_closed L hnd hcl hp, hact, hinj⟩
  have key := irred_equals_full_aux (K := K) hA hne (fun g => transformTensor ι conj g tTR tInv) f hequiv
    grid irr hpart
  funext idx
  have lhs : irrSum ι conj L tTR tInv
      (irr.map fun x => (((orbit L act x).length : Rat) / (grid.length : Rat), f x)) idx
      = ((irr.map fun x => (((orbit L act x).length : K) / (grid.length : K)) •
          ((L.length : K)⁻¹ • (L.map fun g => transformTensor ι conj g tTR tInv (f x)).sum)).sum) idx := by
    unfold irrSum
    rw [foldl_pts_eq, List.map_map, list_sum_apply]
    congr 1
    apply List.map_congr_left
    intro x _
    simp only [Function.comp, symmetrizeTensor_eq, divBy, Pi.smul_apply, smul_eq_mul, map_div₀, map_natCast]
    ring
  have rhs : fullSum ι (grid.map fun k => ((1 : Rat) / (grid.length : Rat), f k)) idx
      = ((grid.length : K)⁻¹ • (grid.map f).sum) idx := by
    unfold fullSum
    rw [foldl_pts_eq, List.map_map, Pi.smul_apply, list_sum_apply, smul_eq_mul]
    have e : (grid.map ((fun p : Rat × Tensor r K => p.2 idx * ι p.1) ∘ fun k => ((1 : Rat) / (grid.length : Rat), f k)))
        = grid.map fun k => f k idx * (grid.length : K)⁻¹ := by
      apply List.map_congr_left
      intro k _
      simp only [Function.comp, one_div, map_inv₀, map_natCast]
    rw [e, List.sum_map_mul_right, mul_comm]
  rw [lhs, rhs, key]

end ModelLevel

/-! ## T3 — tabulation: per-k values over the full grid coincide -/

/-- T3a.  The symmetrised, stacked table `[(g·r, ρ(g) f(r)) | r irreducible, g ∈ G]` carries at every entry the
    value of `f` at that entry's k-point, and reaches every grid point. -/
theorem tab_entries_cover_grid {G X V : Type} [DecidableEq X] {mul : G → G → G} {L : List G}
    {act : G → X → X} (hA : ListAction mul L act) (T : G → V → V) (f : X → V)
    (hequiv : ∀ g ∈ L, ∀ k, f (act g k) = T g (f k))
    (grid irr : List X) (hpart : (irr.flatMap (orbit L act)).Perm grid) :
    (∀ e ∈ irr.flatMap (fun r => L.map fun g => (act g r, T g (f r))), e.2 = f e.1) ∧
    (∀ k ∈ grid, ∃ e ∈ irr.flatMap (fun r => L.map fun g => (act g r, T g (f r))), e.1 = k) :=
  tab_entries_aux hA T f hequiv grid irr hpart

/-- T3b.  Index arithmetic of `TABresult.to_grid`: the grid point of cell `c` (C order, as in `k_new`) is given
    index `c`; every index is below the number of cells; and whatever is given index `c` is, modulo the reciprocal
    lattice, the grid point of cell `c`. -/
theorem kIndex_correct (grid : Fin 3 → Nat) (hg : ∀ i, 0 < grid i) :
    (∀ c, c < grid 0 * grid 1 * grid 2 → kIndex grid (gridPoint grid c) = some c) ∧
    (∀ k c, kIndex grid k = some c → c < grid 0 * grid 1 * grid 2 ∧ equivMod1 k (gridPoint grid c) = true) :=
  ⟨fun c hc => kIndex_gridPoint_aux grid hg c hc,
   fun k c h => ⟨kIndex_lt grid hg k c h, kIndex_sound_aux grid hg k c h⟩⟩

/-- T3c.  `to_grid`: if every entry that falls on cell `c` carries the value `fgrid c` (T3a + periodicity of `f`)
    and every cell is reached, the result is `fgrid` on every cell — i.e. the per-k values of the irreducible,
    symmetrised run are those of the full-grid run. -/
theorem toGrid_per_k {K : Type} [Field K] [CharZero K] (grid : Fin 3 → Nat) (kpts : List (Vec Rat))
    (vals : Nat → K) (fgrid : Nat → K)
    (hval : ∀ ik c, ik < kpts.length → kIndex grid (kpts.getD ik (fun _ => 0)) = some c → vals ik = fgrid c)
    (hcov : ∀ c, c < grid 0 * grid 1 * grid 2 →
      ∃ ik, ik < kpts.length ∧ kIndex grid (kpts.getD ik (fun _ => 0)) = some c) :
    toGrid grid kpts vals = (List.range (grid 0 * grid 1 * grid 2)).map fun c => some (fgrid c) := by
  unfold toGrid
  apply List.ext_getElem
  · simp [kMap]
  · intro c h1 h2
    have hc : c < grid 0 * grid 1 * grid 2 := by simpa [kMap] using h1
    rw [List.getElem_map, List.getElem_map, List.getElem_range]
    have hget : (kMap grid kpts)[c]'(by simpa [kMap] using hc) = (kMap grid kpts).getD c [] := by
      rw [List.getD_eq_getElem?_getD, List.getElem?_eq_getElem (by simpa [kMap] using hc)]; rfl
    rw [hget]
    apply cellAverage_const_aux
    · obtain ⟨ik, hik, hk⟩ := hcov c hc
      intro hempty
      have := (mem_kMap grid kpts c hc ik).2 ⟨hik, hk⟩
      rw [hempty] at this
      simp at this
    · intro ik hik
      obtain ⟨h1, h2⟩ := (mem_kMap grid kpts c hc ik).1 hik
      exact hval ik c h1 h2

/-! ## T4 — the index map of an anisotropic division grid -/

/-- T4.  For an operation `g` and the grid `div`, the image of the grid point with index `n` is the grid point with
    index `n'_j = Σ_i n_i M_ij div_j / div_i` (`M` = the reduced matrix of `g`, signs included); and `n'` is integral
    whenever `symmetric_grid(div)` holds (the indices are then reduced `% div`). -/
theorem gridImage_spec (L : List (PSym Rat)) (B : Mat Rat) (div : Fin 3 → Nat) (hd : ∀ i, div i ≠ 0)
    (g : PSym Rat) (n : Vec Rat) :
    (∀ j, g.transformReduced (fun i => n i / (div i : Rat)) B j * (div j : Rat)
        = gridImage (signedRedMat g B) div n j) ∧
    (det3 B ≠ 0 → symmetricGrid L B (fun i => (div i : Rat)) = true → g ∈ L → (∀ i, isInt (n i) = true) →
        ∀ j, isInt (gridImage (signedRedMat g B) div n j) = true) := by
  refine ⟨fun j => gridImage_spec_aux g B div hd n j, fun hB hs hg hn j => ?_⟩
  rw [← gridImage_spec_aux g B div hd n j]
  exact symmetricGrid_maps_grid_aux L B (fun i => (div i : Rat))
    (fun i => by exact_mod_cast hd i) hB hs g hg n hn j

/-- the mirror of a rectangular lattice described by the oblique cell a1=(1,0), a2=(1,1.3): on reduced k it acts
    as `k @ [[-1,-2,0],[0,1,0],[0,0,1]]` -/
def exObliqueMirror : PSym Rat := PSym.mk' (matOfList [-1, 0, 0, -2, 1, 0, 0, 0, 1]) false

/-- T4'.  Dropping the ratios is wrong on an oblique cell with an anisotropic grid: for the mirror above the grid
    2x3x1 is symmetric; the point with index (1,0,0), k = (1/2,0,0), is its own image (index map with ratios:
    (-1,-3,0) ≡ (1,0,0)), its star has one member; the map without ratios sends it to index (1,1,0), i.e.
    k = (1/2,1/3,0), which is not equivalent to any member of the star — two inequivalent K-points would be merged. -/
theorem dropping_ratio_is_wrong :
    let L := [PSym.identity, exObliqueMirror]
    let div := gridOfList [2, 3, 1]
    let M := signedRedMat exObliqueMirror matId
    symmetricGrid L matId (vecOfList [2, 3, 1]) = true ∧
    modGrid div (gridImage M div (vecOfList [1, 0, 0])) = [1, 0, 0] ∧
    modGrid div (gridImageNoRatio M (vecOfList [1, 0, 0])) = [1, 1, 0] ∧
    (star L matId (vecOfList [1/2, 0, 0])).length = 1 ∧
    (star L matId (vecOfList [1/2, 0, 0])).all (fun y => !equivMod1 y (vecOfList [1/2, 1/3, 0])) = true := by
  decide +kernel

/-! ## T5 — part of the equivariance hypothesis discharged: rotation covariance of index-contraction formulas -/

section Covariance
variable {K : Type} [CommRing K] {X : Type} {A : Nat → Type}

/-- T5.  For one symmetry operation (k ↦ φ k, full orthogonal matrix `R`, `τ = ±1` for time reversal): if every atom
    of a well-formed tensor expression (tensor products, sums, integer multiples, contractions with δ and with ε,
    index transpositions, k-derivatives) is equivariant with its grade (axial?, TR-odd?), then the expression is
    equivariant with the structurally computed grade: `F(φ k) = (det R)^axial · τ^trOdd · R…R F(k)`.
    Hypotheses that stay hypotheses: equivariance of the atoms (`hatom`; what the C07/C20 oracles test on the real
    systems) and the chain rule for the k-derivative (`hD`: the derivative of an equivariant field is equivariant with
    one more polar, TR-odd index). -/
theorem tensor_expr_equivariant (φ : X → X) (R : Mat K) (τ : K) (hR : Orth R) (hτ : τ * τ = 1)
    (axA trA : ∀ r, A r → Bool) (env : ∀ r, A r → X → CT K r)
    (D : ∀ r, (X → CT K r) → (X → CT K (r + 1)))
    (hD : ∀ r (F : X → CT K r) ax tr, Equi φ R (det3 R) τ r F ax tr → Equi φ R (det3 R) τ (r + 1) (D r F) ax (!tr))
    (hatom : ∀ r (a : A r), Equi φ R (det3 R) τ r (env r a) (axA r a) (trA r a))
    {r : Nat} (e : TExpr A r) (hwf : e.wf axA trA = true) :
    Equi φ R (det3 R) τ r (e.eval env D) (e.axial axA) (e.trOdd trA) :=
  tensor_expr_equivariant_aux φ R (det3 R) τ hR (epsCompat_of_orth R hR) (det_sq_of_orth R hR) hτ axA trA env D hD
    hatom e hwf

/-- T5b.  The same in the convention of `transform_tensor`: with the proper part `Rp` (orthogonal, det 1) and the
    flags (inv, tr) of an operation, the value transforms with the proper rotation and the factors
    `transformInv = (-1)^(rank + axial)`, `transformTR = (-1)^trOdd` — the (rank, Inv, TR) triple that
    `PTerm.grade` predicts and that the check compares with every live calculator. -/
theorem tensor_expr_code_convention (φ : X → X) (Rp : Mat K) (inv tr : Bool) (hR : Orth Rp) (hdet : det3 Rp = 1)
    (axA trA : ∀ r, A r → Bool) (env : ∀ r, A r → X → CT K r)
    (D : ∀ r, (X → CT K r) → (X → CT K (r + 1)))
    (hD : ∀ r (F : X → CT K r) ax t, Equi φ (fun i j => sB inv * Rp i j) (sB inv) (sB tr) r F ax t →
      Equi φ (fun i j => sB inv * Rp i j) (sB inv) (sB tr) (r + 1) (D r F) ax (!t))
    (hatom : ∀ r (a : A r), Equi φ (fun i j => sB inv * Rp i j) (sB inv) (sB tr) r (env r a) (axA r a) (trA r a))
    {r : Nat} (e : TExpr A r) (hwf : e.wf axA trA = true) (k : X) :
    e.eval env D (φ k)
      = (sB (inv && ((r % 2 == 1) != e.axial axA)) * sB (tr && e.trOdd trA) : K) • rotC Rp r (e.eval env D k) := by
  have hs : (sB inv : K) * sB inv = 1 := by cases inv <;> simp [sB]
  have hR' : Orth (fun i j => (sB inv : K) * Rp i j) := by
    intro a b
    have := hR a b
    calc ∑ m, (sB inv * Rp m a) * (sB inv * Rp m b) = (sB inv * sB inv) * ∑ m, Rp m a * Rp m b := by
          rw [Finset.mul_sum]; apply Finset.sum_congr rfl; intro m _; ring
      _ = _ := by rw [hs, one_mul, this]
  have hd' : det3 (fun i j => (sB inv : K) * Rp i j) = sB inv := by
    have : (fun i j => (sB inv : K) * Rp i j) = matScale Rp (sB inv) := by funext i j; simp [matScale, mul_comm]
    rw [this, det3_matScale, hdet, mul_one]
    cases inv <;> norm_num [sB]
  have hτ : (sB tr : K) * sB tr = 1 := by cases tr <;> simp [sB]
  have key := tensor_expr_equivariant φ _ (sB tr : K) hR' hτ axA trA env D (by rw [hd']; exact hD)
    (by rw [hd']; exact hatom) e hwf k
  rw [hd'] at key
  rw [key, code_convention]

/-- T5c.  The curried rotation of the calculus is the model's `rotate` (`PointSymmetry.rotate` applied to every
    axis, `WB/Model/C09.lean`), so T5b speaks about `transform_tensor`. -/
theorem rotC_is_model_rotate (Amat : Mat K) (r : Nat) (x : Tensor r K) :
    curry r (rotate Amat x) = rotC Amat r (curry r x) :=
  curry_rotate Amat r x

end Covariance

/-- T5d.  The structure terms of the calculators (`WB/Lemmas/C07Terms.lean`) are well formed (every sum adds
    quantities of equal grade), with these predicted (rank, Inv odd, TR odd); the check compares the same triples
    with the rank and the declared transforms of the live calculators on every run. -/
theorem structure_terms_grades :
    Term.Morb.grade = (1, false, true, true) ∧ Term.AHC.grade = (1, false, true, true) ∧
    Term.GME_orb_FermiSurf.grade = (2, true, false, true) ∧ Term.GME_orb_FermiSea.grade = (2, true, false, true) ∧
    Term.Ohmic_FermiSea.grade = (2, false, false, true) ∧ Term.Ohmic_FermiSurf.grade = (2, false, false, true) ∧
    Term.Hall_classic_FermiSea.grade = (2, false, false, true) ∧
    Term.Hall_classic_FermiSurf.grade = (2, false, false, true) ∧
    Term.BerryDipole_FermiSea.grade = (2, true, false, true) ∧ Term.BerryDipole_FermiSurf.grade = (2, true, false, true) ∧
    Term.NLDrude_FermiSea.grade = (3, true, true, true) ∧ Term.NLDrude_FermiSurf.grade = (3, true, true, true) ∧
    Term.NLDrude_Fermider2.grade = (3, true, true, true) ∧
    Term.eMChA_FermiSurf.grade = (4, true, false, true) ∧ Term.NLDrude_Zeeman_orb.grade = (4, true, false, true) ∧
    Term.NLDrude_Zeeman_spin.grade = (4, true, false, true) ∧ Term.AHC_Zeeman_orb.grade = (2, false, false, true) ∧
    Term.QuantumMetric_Vel_DQ.grade = (4, false, false, true) := by
  refine ⟨?_, ?_, ?_, ?_, ?_, ?_, ?_, ?_, ?_, ?_, ?_, ?_, ?_, ?_, ?_, ?_, ?_, ?_⟩ <;> decide

/-! ## T6 — composition with C06: the K-list of `get_K_list` with its own factors -/

/-- T6.  C07 ∘ C06.  Let `kept syms div true` be the (point, factor) list of the C06 model of
    `Grid.get_K_list(use_symmetry=True)` (`C06.getKList_orbit_cover`: under `OrbitHyp` its factors are
    `|star| / N`, every grid point lies in the star of exactly one retained point, and `getKList` is this list as
    K-points).  If C06's star of a grid index is the orbit of that index under a list-group action (`hstar`: the
    interface between the two models — both are the code's `round(star·div) % div`; the check compares them on every
    group and grid it uses) and `F` is equivariant, then the weighted, group-averaged sum over the K-list is the plain
    average over the division grid. -/
theorem irred_equals_full_with_C06_weights {G V K : Type} [Field K] [CharZero K] [AddCommGroup V] [Module K V]
    {mul : G → G → G} {L : List G} {act : G → C06.Idx → C06.Idx}
    (syms : List C06.Sym) (div : C06.Idx) (hS : C06.OrbitHyp div (C06.starIdx syms div))
    (hA : ListAction mul L act) (hL : L ≠ [])
    (hstar : ∀ r, C06.inRange div r → (C06.starIdx syms div r).Perm (orbit L act r))
    (T : G → V → V) (F : C06.Idx → V) (hequiv : ∀ g ∈ L, ∀ k, F (act g k) = T g (F k)) :
    ((C06.kept syms div true).map fun rf =>
        ((rf.2 : Rat) : K) • ((L.length : K)⁻¹ • (L.map fun g => T g (F rf.1)).sum)).sum
      = (((div.1 * div.2.1 * div.2.2 : Nat) : K))⁻¹ • ((C06.flatOrder div).map F).sum :=
  irred_equals_full_C06_aux syms div hS hA hL hstar T F hequiv

/-- T6'.  The retained points of `get_K_list` are pairwise different (needed for T6; not part of C06's statement). -/
theorem getKList_points_nodup (syms : List C06.Sym) (div : C06.Idx) (useSym : Bool) :
    ((C06.kept syms div useSym).map Prod.fst).Nodup :=
  kept_fst_nodup syms div useSym

/-! ## examples: the hypotheses are met by concrete instances -/

/-- a two-element group (`xor` on `Bool`) acting on `Fin 3` by `k ↦ -k`: a list-action -/
def exAct (b : Bool) (k : Fin 3) : Fin 3 := if b then -k else k

example : ListAction (fun a b : Bool => a != b) [false, true] exAct :=
  ⟨⟨by decide, by decide, by decide⟩, by decide, by decide⟩

/-- orbits `{0}`, `{1, 2}` partition the grid `[0, 1, 2]`; weights 1/3 and 2/3 -/
example : ([0, 1].flatMap (orbit [false, true] exAct)).Perm [0, 1, 2] ∧
    (orbit [false, true] exAct 0).length = 1 ∧ (orbit [false, true] exAct 1).length = 2 := by decide

/-- index arithmetic on a 2x3x4 grid: cell 17 is the point (1/2, 1/3, 1/4), and the equivalent point
    (-1/2, 4/3, 9/4) is given the same index -/
example : gridPoint (gridOfList [2, 3, 4]) 17 = vecOfList [1/2, 1/3, 1/4] ∧
    kIndex (gridOfList [2, 3, 4]) (vecOfList [-1/2, 4/3, 9/4]) = some 17 ∧
    kIndex (gridOfList [2, 3, 4]) (vecOfList [1/2, 1/3, 1/5]) = none := by
  refine ⟨?_, by decide +kernel, by decide +kernel⟩
  funext i; fin_cases i <;> decide +kernel

end WB.C07
