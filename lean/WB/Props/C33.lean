/-
  C33 — property theorems: the matrix diagonalised at a tetrahedron / parallelepiped corner is the Hamiltonian at the
  corner k-point.   (helper lemmas: WB/Lemmas/C33.lean, WB/Lemmas/C02Box.lean)

  Vocabulary: `A` = additive group in which k-vector components live (ℚ, ℝ, …), `ex : A → K` an abstract exponential
  (`IsExp`: `ex (x+y) = ex x · ex y`, `ex 0 = 1`; `x ↦ e^{2πi x}` is an instance), `kdot k R = k·R`,
  `cornerVec h ix iy iz = (±h₁, ±h₂, ±h₃)` with `h = dK/2` = the corner vector `((ix,iy,iz) − ½)∘dK`,
  `cornerPhase` = `expdK[ix,:,0]*expdK[iy,:,1]*expdK[iz,:,2]`, `cornerPath` = `R_to_k(Ham_R * phase array)` at FFT point `m`,
  `explicitSum χ entries = Σ_R χ(R) H(R)`.
-/
import WB.Lemmas.C33

namespace WB.C33
open WB.C01 WB.C02

/-! ## T1 — corner phases -/

/-- T1.  For every half step `h = dK/2`, every corner `(ix,iy,iz)`, every R and every exponential:
    `expdK[ix,R,0]·expdK[iy,R,1]·expdK[iz,R,2] = χ_v(R)` with `v = ((ix,iy,iz) − ½)∘dK`. -/
theorem corner_phase {K : Type} [Field K] {A : Type} [AddCommGroup A] {ex : A → K} (hex : IsExp ex)
    (h : A × A × A) (ix iy iz : Bool) (R : Vec3) :
    cornerPhase (fun r => ex (r • h.1)) (fun r => ex (r • h.2.1)) (fun r => ex (r • h.2.2)) ix iy iz R
      = ex (kdot (cornerVec h ix iy iz) R) :=
  cornerPhase_eq hex h ix iy iz R

/-- T1 (corner Hamiltonian, general phase).  Let the FFT-box characters be `χ_m(R) = ex (k_m·R)` (box periodic), let
    `Ham_R` carry `ex (K·R)` already (`χd`), and let the corner phase array be built from the block's own R list with
    `φ(R) = ex (v·R)`.  Then, for EVERY FFT box size (collisions included), under the inverse-DFT contract, the matrix
    element that is diagonalised is `Σ_R ex((k_m + K + v)·R) H(R)` — the Hamiltonian at the corner k-point.
    (Tetrahedron vertices: `φ = exp(2πi R·vertex)` is of this form by definition.) -/
theorem corner_hamiltonian {K : Type} [Field K] {A : Type} [AddCommGroup A] {ex : A → K} (hex : IsExp ex)
    (N : Mesh) (h1 : 0 < N.1) (h2 : 0 < N.2.1) (h3 : 0 < N.2.2)
    (χ : Vec3 → Vec3 → K) (hper : ∀ m R, χ m R = χ m (vmod R N))
    (Finv : (Vec3 → K) → Vec3 → K) (hF : IDFTContract N χ Finv)
    (m : Vec3) (hm : m ∈ gridPoints N) (km kK v : A × A × A)
    (hχ : ∀ R, χ m R = ex (kdot km R))
    (χd φ : Vec3 → K) (hχd : ∀ R, χd R = ex (kdot kK R)) (hφ : ∀ R, φ R = ex (kdot v R))
    (entries : List (Vec3 × K)) :
    cornerPath Finv N χd φ entries m
      = explicitSum (fun R => ex (kdot (kadd (kadd km kK) v) R)) entries := by
  rw [cornerPath_eq_fftPath, fftPath_eq N h1 h2 h3 χ hper Finv hF _ entries m hm]
  unfold explicitSum
  apply sumK_map_congr
  intro e _
  simp only []
  rw [hχ, hχd, hφ, kdot_add, kdot_add, hex.add, hex.add]
  ring

/-- T1 (parallelepiped corners).  With the code's phase product the diagonalised matrix is the Hamiltonian at
    `k_m + K + ((ix,iy,iz) − ½)∘dK`. -/
theorem parallelepiped_corner_hamiltonian {K : Type} [Field K] {A : Type} [AddCommGroup A] {ex : A → K} (hex : IsExp ex)
    (N : Mesh) (h1 : 0 < N.1) (h2 : 0 < N.2.1) (h3 : 0 < N.2.2)
    (χ : Vec3 → Vec3 → K) (hper : ∀ m R, χ m R = χ m (vmod R N))
    (Finv : (Vec3 → K) → Vec3 → K) (hF : IDFTContract N χ Finv)
    (m : Vec3) (hm : m ∈ gridPoints N) (km kK h : A × A × A)
    (hχ : ∀ R, χ m R = ex (kdot km R))
    (χd : Vec3 → K) (hχd : ∀ R, χd R = ex (kdot kK R)) (ix iy iz : Bool)
    (entries : List (Vec3 × K)) :
    cornerPath Finv N χd
        (cornerPhase (fun r => ex (r • h.1)) (fun r => ex (r • h.2.1)) (fun r => ex (r • h.2.2)) ix iy iz) entries m
      = explicitSum (fun R => ex (kdot (kadd (kadd km kK) (cornerVec h ix iy iz)) R)) entries :=
  corner_hamiltonian hex N h1 h2 h3 χ hper Finv hF m hm km kK _ hχ χd _ hχd (cornerPhase_eq hex h ix iy iz) entries

/-! ## T2 — spin blocks, each with its own R list -/

/-- T2a.  A phase array built from a block's OWN R list multiplies every entry `(R, H(R))` by the phase of its own `R`
    — whatever the order and length of the list (this is what the repaired `Data_K_soc` does for the spin-up block,
    the spin-down block and the SOC term separately). -/
theorem own_list_phase {K : Type} [Field K] (φ : Vec3 → K) (entries : List (Vec3 × K)) :
    mulArr entries (phaseArr φ (entries.map (·.1))) = entries.map fun e => (e.1, e.2 * φ e.1) :=
  mulArr_own φ entries

/-- T2b.  The interlaced assembly puts the spin-up block on even/even, the spin-down block on odd/odd indices and adds the
    SOC term everywhere — exactly where direct evaluation of the spinor Hamiltonian has them. -/
theorem soc_assembly {K : Type} [Field K] (up down soc : Nat → Nat → K) :
    (∀ a b, socElem up down soc (2 * a) (2 * b) = up a b + soc (2 * a) (2 * b)) ∧
    (∀ a b, socElem up down soc (2 * a + 1) (2 * b + 1) = down a b + soc (2 * a + 1) (2 * b + 1)) ∧
    (∀ i j, i % 2 ≠ j % 2 → socElem up down soc i j = soc i j) :=
  ⟨socElem_up up down soc, socElem_down up down soc, socElem_mixed up down soc⟩

/-- T2c (finding F5, repaired).  The pre-fix code multiplied the spin-DOWN entries with the phase array of the spin-UP
    R list.  Already for the same two R vectors listed in a different order this is a different matrix:
    box (1,1,1) (the transform is the plain sum), phases `φ(R) = R₁ + 2`, up list `[0, e₁]`, down entries
    `[(e₁, 1), (0, 10)]`:  own list 3 + 20 = 23,  up list 2 + 30 = 32. -/
theorem old_soc_corner_differs :
    let Finv : (Vec3 → Rat) → Vec3 → Rat := fun B _ => B (0, 0, 0)
    let φ : Vec3 → Rat := fun R => (R.1 : Rat) + 2
    let up : List Vec3 := [(0, 0, 0), (1, 0, 0)]
    let down : List (Vec3 × Rat) := [((1, 0, 0), 1), ((0, 0, 0), 10)]
    cornerPath Finv (1, 1, 1) (fun _ => 1) φ down (0, 0, 0) = 23 ∧
    cornerPathOld Finv (1, 1, 1) (fun _ => 1) φ up down (0, 0, 0) = 32 := by
  decide +kernel

/-! ## T3 — phonon systems -/

/-- T3a.  `phonon_freq_from_square` = `sign(E)·g(|E|)` (with `g` the square root on `[0,∞)`) is an odd map, and monotone
    whenever `g` is monotone and non-negative on `[0,∞)` — so it keeps the ascending order in which `eigvalsh` returns the
    bands, for negative ("imaginary-frequency") eigenvalues too. -/
theorem phonon_map_odd_monotone {K : Type} [Field K] [LinearOrder K] [IsStrictOrderedRing K] (g : K → K)
    (h0 : g 0 = 0) (hg : ∀ x y, 0 ≤ x → x ≤ y → g x ≤ g y) (hpos : ∀ x, 0 ≤ x → 0 ≤ g x) :
    (∀ E, phononFreq g (-E) = -phononFreq g E) ∧ (∀ E E', E ≤ E' → phononFreq g E ≤ phononFreq g E') :=
  ⟨phononFreq_odd g h0, phononFreq_mono g hg hpos⟩

/-- T3b (corner theorem for phonon systems).  The map is applied entrywise AFTER the diagonalisation of the corner matrix;
    since that matrix is the dynamical matrix at the corner k-point (`parallelepiped_corner_hamiltonian`), the corner
    frequencies are the frequencies at the corner k-points — for every spectrum routine `spec` (eigvalsh) and every
    entrywise map `f` (here `phononFreq g`), every FFT box size, under the inverse-DFT contract. -/
theorem phonon_corner_frequencies {K E : Type} [Field K] {A : Type} [AddCommGroup A] {ex : A → K} (hex : IsExp ex)
    (N : Mesh) (h1 : 0 < N.1) (h2 : 0 < N.2.1) (h3 : 0 < N.2.2)
    (χ : Vec3 → Vec3 → K) (hper : ∀ m R, χ m R = χ m (vmod R N))
    (Finv : (Vec3 → K) → Vec3 → K) (hF : IDFTContract N χ Finv)
    (m : Vec3) (hm : m ∈ gridPoints N) (km kK h : A × A × A)
    (hχ : ∀ R, χ m R = ex (kdot km R))
    (χd : Vec3 → K) (hχd : ∀ R, χd R = ex (kdot kK R)) (ix iy iz : Bool)
    (entries : Nat → Nat → List (Vec3 × K)) (spec : (Nat → Nat → K) → List E) (f : E → E) :
    (spec fun a b => cornerPath Finv N χd
        (cornerPhase (fun r => ex (r • h.1)) (fun r => ex (r • h.2.1)) (fun r => ex (r • h.2.2)) ix iy iz) (entries a b) m).map f
      = (spec fun a b => explicitSum (fun R => ex (kdot (kadd (kadd km kK) (cornerVec h ix iy iz)) R)) (entries a b)).map f := by
  congr 2
  funext a b
  exact parallelepiped_corner_hamiltonian hex N h1 h2 h3 χ hper Finv hF m hm km kK h hχ χd hχd ix iy iz (entries a b)

/-- T3c.  The map must be applied exactly ONCE: it is not idempotent (`16 ↦ 4 ↦ 2`, `−16 ↦ −4 ↦ −2`), so corner values that
    are converted a second time are no longer the frequencies at the corner k-points (nor in the units of the centre values). -/
theorem phonon_map_not_idempotent :
    phononFreq sqrtExact (16 : Rat) = 4 ∧ phononFreq sqrtExact (phononFreq sqrtExact (16 : Rat)) = 2 ∧
    phononFreq sqrtExact (phononFreq sqrtExact (-16 : Rat)) = -2 := by
  decide +kernel

/-! ## T4 — k.p systems -/

/-- T4.  `Data_K_k.E_K_corners_*` evaluates the user's Hamiltonian at `fold((p + dK) mod 1 + v)`; this is the direct
    evaluation `fold(p + dK + v)` at the corner k-point: reducing the FFT k-point modulo 1 first changes nothing because
    the folding `k ↦ (k + ½) mod 1 − ½` of `SystemKP` is 1-periodic — for every Hamiltonian function (any codomain), every
    FFT point `p`, shift `dK` and corner / vertex vector `v`. -/
theorem kp_corner_is_direct_evaluation {α : Type} (ham : QVec3 → α) (p dK v : QVec3) :
    kpCorner ham p dK v = kpDirect ham p dK v :=
  kpCorner_eq_kpDirect ham p dK v

/-- T4 (Cartesian convention, any reciprocal cell).  With `k_vector_cartesian=True` the user's Hamiltonian receives
    `k_red2cart(fold(·))`; the corner evaluation is again the direct one, for every reciprocal cell `B` (hexagonal, oblique,
    anisotropic, …). -/
theorem kp_corner_is_direct_evaluation_cart {α : Type} (ham : QVec3 → α) (B : Mat3) (p dK v : QVec3) :
    kpCornerCart ham B p dK v = kpDirectCart ham B p dK v :=
  kpCornerCart_eq_kpDirectCart ham B p dK v

/-- T4 (the corner offset, explicit).  In Cartesian coordinates the corner k-point is
    `corner_k = K·B + Σ_i s_i·dK_i·b_i`  (`s = (ix,iy,iz) − ½`, `b_i` the rows of the reciprocal cell), i.e. the reduced
    offset `s∘dK` of the code equals the ROW-vector contraction `s·dK_cart` with `dK_cart = diag(dK)·B`
    (`KpointBZparallel.dK_fullBZ_cart`) — for every lattice.  When `dK_cart` is symmetric (every cubic `kmax` box) the
    transposed contraction `dK_cart·s` gives the same vector … -/
theorem corner_offset_cartesian (B : Mat3) (k s dK : QVec3) :
    redToCart B (qadd k (hadamard s dK)) = qadd (redToCart B k) (vecMat s (dKcart dK B)) ∧
    (let M := dKcart dK B
     M.1.2.1 = M.2.1.1 → M.1.2.2 = M.2.2.1 → M.2.1.2.2 = M.2.2.2.1 → matVec M s = vecMat s M) :=
  ⟨redToCart_corner B k s dK, fun h12 h13 h23 => matVec_eq_vecMat_of_symm _ s h12 h13 h23⟩

/-- … but NOT in a non-orthogonal cell: oblique cell with rows (1,0,0), (−½,1,0), (¼,½,1), isotropic `dK = ½`,
    corner `s = (½,½,−½)`: the correct offset is `s·dK_cart = (1/16, ⅛, −¼)`, the transposed contraction gives
    `dK_cart·s = (¼, ⅛, −1/16)`. -/
theorem transposed_offset_differs :
    let B : Mat3 := ((1, 0, 0), (-1 / 2, 1, 0), (1 / 4, 1 / 2, 1))
    let dK : QVec3 := (1 / 2, 1 / 2, 1 / 2)
    let s : QVec3 := (1 / 2, 1 / 2, -1 / 2)
    vecMat s (dKcart dK B) = (1 / 16, 1 / 8, -1 / 4) ∧ matVec (dKcart dK B) s = (1 / 4, 1 / 8, -1 / 16) := by
  intro B dK s
  constructor <;> norm_num [B, dK, s, vecMat, matVec, dKcart, smulQ, dotQ, qadd]

/-! ## non-vacuity -/

/-- the phonon map on perfect squares, both signs: `[-9/4, 0, 1/4, 4] ↦ [-3/2, 0, 1/2, 2]` -/
example : [(-9 / 4 : Rat), 0, 1 / 4, 4].map (phononFreq sqrtExact) = [-3 / 2, 0, 1 / 2, 2] := by decide +kernel

/-- folding: the FFT point 2/3 + dK 5/6 reduced mod 1 is 1/2; with the corner vector 1/8 the folded argument is −3/8,
    the same as folding 2/3 + 5/6 + 1/8 directly -/
example : fold1 (frac1 (2 / 3 + 5 / 6) + 1 / 8) = -3 / 8 ∧ fold1 (2 / 3 + 5 / 6 + 1 / 8) = -3 / 8 := by decide +kernel

/-- `IsExp` is satisfiable non-trivially: `ex r = 2^r` on `A = ℤ`, `K = ℚ` -/
example : IsExp (K := ℚ) (A := ℤ) (fun r => (2 : ℚ) ^ r) :=
  ⟨fun x y => zpow_add₀ (by norm_num) x y, by simp⟩

/-- the corner phase on a concrete case: axis characters `2^r`, half steps (1,1,1), corner (1,0,1), R = (1,2,3):
    `2¹ · 2⁻² · 2³ = 4 = 2^{(1,−1,1)·(1,2,3)}` -/
example : cornerPhase (fun r => (2 : ℚ) ^ r) (fun r => (2 : ℚ) ^ r) (fun r => (2 : ℚ) ^ r) true false true (1, 2, 3) = 4 := by
  norm_num [cornerPhase, cornerFactor]

end WB.C33
