/-
  C25 — property theorems: spin doubling and SOC assembly preserve the spectrum; rotated Pauli matrices.
  (helper lemmas: WB/Lemmas/C25Blocks.lean, WB/Lemmas/C25Pauli.lean)
-/
import WB.Lemmas.C25Blocks
import WB.Lemmas.C25Pauli
import WB.Lemmas.C25Complex

namespace WB.C25
open Matrix Polynomial

variable {K : Type}

/-! ## T1  spin doubling: every band exactly twice -/

/-- T1a.  Re-indexed by spin (`up m ↦ 2m`, `down m ↦ 2m+1`) the doubled matrix is `X ⊕ X`
    (permutation similarity). -/
theorem double_spin_blocks [Zero K] (n : Nat) (X : Nat → Nat → K) :
    (toMat (2 * n) (doubleSpin X)).submatrix (interleave n) (interleave n)
      = fromBlocks (toMat n X) 0 0 (toMat n X) :=
  assembleUD_blocks n X X

/-- T1b.  The characteristic polynomial of the doubled matrix is the square of the original one. -/
theorem double_spin_charpoly [CommRing K] (n : Nat) (X : Nat → Nat → K) :
    (toMat (2 * n) (doubleSpin X)).charpoly = (toMat n X).charpoly ^ 2 := by
  rw [doubleSpin_eq_assembleUD, assembleUD_charpoly, sq]

/-- T1c.  Every eigenvalue occurs exactly twice as often: the multiplicity of every `μ` as a root of the
    characteristic polynomial doubles (over ℂ: every band of the spinless model appears exactly twice). -/
theorem double_spin_every_eigenvalue_twice [Field K] (n : Nat) (X : Nat → Nat → K) (μ : K) :
    (toMat (2 * n) (doubleSpin X)).charpoly.rootMultiplicity μ = 2 * (toMat n X).charpoly.rootMultiplicity μ := by
  rw [doubleSpin_eq_assembleUD, assembleUD_charpoly, rootMultiplicity_mul, two_mul]
  exact mul_ne_zero (charpoly_monic _).ne_zero (charpoly_monic _).ne_zero

/-! ## T2  SOC system without SOC: union of the spin-up and spin-down spectra -/

/-- T2a.  `H[::2, ::2] = H↑`, `H[1::2, 1::2] = H↓` is permutation-similar to `H↑ ⊕ H↓`. -/
theorem soc_zero_blocks [Zero K] (n : Nat) (Hu Hd : Nat → Nat → K) :
    (toMat (2 * n) (assembleUD Hu Hd)).submatrix (interleave n) (interleave n)
      = fromBlocks (toMat n Hu) 0 0 (toMat n Hd) :=
  assembleUD_blocks n Hu Hd

/-- T2b.  charpoly = product of the two spin blocks' charpolys. -/
theorem soc_zero_charpoly [CommRing K] (n : Nat) (Hu Hd : Nat → Nat → K) :
    (toMat (2 * n) (assembleUD Hu Hd)).charpoly = (toMat n Hu).charpoly * (toMat n Hd).charpoly :=
  assembleUD_charpoly n Hu Hd

/-- T2c.  The spectrum (with multiplicities) is exactly the union of the up and down spectra. -/
theorem soc_zero_spectrum_union [Field K] (n : Nat) (Hu Hd : Nat → Nat → K) :
    (toMat (2 * n) (assembleUD Hu Hd)).charpoly.roots
      = (toMat n Hu).charpoly.roots + (toMat n Hd).charpoly.roots := by
  rw [assembleUD_charpoly, roots_mul]
  exact mul_ne_zero (charpoly_monic _).ne_zero (charpoly_monic _).ne_zero

/-! ## T3  `get_system_R` has the same H(k) -/

/-- the merged list built by the model (first-occurrence order) contains every input vector; the code's
    `list(set(...))` contains them too, in some other order -/
theorem mergeR_contains (ls : List (List Vec3)) (l : List Vec3) (hl : l ∈ ls) : ∀ R ∈ l, R ∈ mergeR ls := by
  intro R hR
  unfold mergeR
  rw [List.mem_eraseDups]
  exact List.mem_flatten.2 ⟨l, hl, hR⟩

/-- T3.  For EVERY per-entry phase function `χ a b R` (the code: `exp(2πi k·(R + τ_b − τ_a))` with the interlaced
    centres τ), every merged list containing the three R lists (which may all differ), and all matrices:
    the k-space sum of the `Ham` matrix of `get_system_R` equals `Data_K_soc.HH_K`:
        Σ_R χ(R) Ham_SOC(R)  +  interlace( Σ_R χ(R) H↑(R) ,  Σ_R χ(R) H↓(R) ). -/
theorem get_system_R_same_H [CommRing K] (χ : Nat → Nat → Vec3 → K) (merged lsoc lup ldn : List Vec3)
    (h0 : ∀ R ∈ lsoc, R ∈ merged) (h1 : ∀ R ∈ lup, R ∈ merged) (h2 : ∀ R ∈ ldn, R ∈ merged)
    (Hsoc Hup Hdn : Nat → Nat → Nat → K) (a b : Nat) :
    kSum (χ a b) merged (fun r => sysRHam merged lsoc lup ldn Hsoc Hup Hdn r a b)
      = kSum (χ a b) lsoc (fun j => Hsoc j a b)
        + assembleUD (fun m n => kSum (χ (2 * m) (2 * n)) lup (fun j => Hup j m n))
                     (fun m n => kSum (χ (2 * m + 1) (2 * n + 1)) ldn (fun j => Hdn j m n)) a b := by
  unfold sysRHam
  rw [kSum_scatterAdd _ _ _ h2, kSum_scatterAdd _ _ _ h1, kSum_scatterAdd _ _ _ h0, kSum_zero, zero_add,
    kSum_embedStrided, kSum_embedStrided, add_assoc]
  congr 1
  unfold embedStrided assembleUD assignStrided zeroMat
  rcases Nat.mod_two_eq_zero_or_one a with ha | ha <;> rcases Nat.mod_two_eq_zero_or_one b with hb | hb
  · have e1 : 2 * (a / 2) = a := by omega
    have e2 : 2 * (b / 2) = b := by omega
    simp [ha, hb, e1, e2]
  · simp [ha, hb]
  · simp [ha, hb]
  · have e1 : 2 * ((a - 1) / 2) + 1 = a := by omega
    have e2 : 2 * ((b - 1) / 2) + 1 = b := by omega
    simp [ha, hb, e1, e2]

/-- T3'.  The other matrices (`AA`, …) of `get_system_R`: k-space sum = interlaced blocks. -/
theorem get_system_R_same_X [CommRing K] (χ : Nat → Nat → Vec3 → K) (merged lup ldn : List Vec3)
    (h1 : ∀ R ∈ lup, R ∈ merged) (h2 : ∀ R ∈ ldn, R ∈ merged)
    (Xup Xdn : Nat → Nat → Nat → K) (a b : Nat) :
    kSum (χ a b) merged (fun r => sysRMat merged lup ldn Xup Xdn r a b)
      = assembleUD (fun m n => kSum (χ (2 * m) (2 * n)) lup (fun j => Xup j m n))
                   (fun m n => kSum (χ (2 * m + 1) (2 * n + 1)) ldn (fun j => Xdn j m n)) a b := by
  unfold sysRMat
  rw [kSum_scatterAdd _ _ _ h2, kSum_scatterAdd _ _ _ h1, kSum_zero, zero_add,
    kSum_embedStrided, kSum_embedStrided]
  unfold embedStrided assembleUD assignStrided zeroMat
  rcases Nat.mod_two_eq_zero_or_one a with ha | ha <;> rcases Nat.mod_two_eq_zero_or_one b with hb | hb
  · have e1 : 2 * (a / 2) = a := by omega
    have e2 : 2 * (b / 2) = b := by omega
    simp [ha, hb, e1, e2]
  · simp [ha, hb]
  · simp [ha, hb]
  · have e1 : 2 * ((a - 1) / 2) + 1 = a := by omega
    have e2 : 2 * ((b - 1) / 2) + 1 = b := by omega
    simp [ha, hb, e1, e2]

/-- T3b.  Non-magnetic case `nspin = 1` (`system_down = None`): the code uses the spin-up system for BOTH diagonal
    blocks, without conjugation.  Then, for every phase function χ(R), the k-sum of the derived `Ham` is
    `Ham_SOC(k) + double_spin(H↑(k))`: without SOC every spin-up band appears exactly twice (T1). -/
theorem get_system_R_nspin1 [CommRing K] (χ : Vec3 → K) (merged lsoc lup : List Vec3)
    (h0 : ∀ R ∈ lsoc, R ∈ merged) (h1 : ∀ R ∈ lup, R ∈ merged)
    (Hsoc Hup : Nat → Nat → Nat → K) (a b : Nat) :
    kSum χ merged (fun r => sysRHam merged lsoc lup lup Hsoc Hup Hup r a b)
      = kSum χ lsoc (fun j => Hsoc j a b) + doubleSpin (fun m n => kSum χ lup (fun j => Hup j m n)) a b :=
  get_system_R_same_H (fun _ _ => χ) merged lsoc lup lup h0 h1 h1 Hsoc Hup Hup a b

/-- T3c.  Filling the spin-down block with the CONJUGATE of the spin-up block instead (the "time-reversed partner"
    variant) is wrong: already for one orbital, one R-vector, hopping `i` and phase `χ(R) = i` the down-down entry of the
    k-sum is `+1`, while `double_spin(H↑(k))` has `−1` there (the down block would be H↑(−k)*, with bands E↑(−k)). -/
theorem conjugated_down_block_is_wrong :
    ∃ (χ : Vec3 → ℂ) (merged lsoc lup : List Vec3) (Hsoc Hup : Nat → Nat → Nat → ℂ),
      (∀ R ∈ lsoc, R ∈ merged) ∧ (∀ R ∈ lup, R ∈ merged) ∧
      kSum χ merged (fun r => sysRHamConjDown (starRingEnd ℂ) merged lsoc lup Hsoc Hup r 1 1)
        ≠ kSum χ lsoc (fun j => Hsoc j 1 1) + doubleSpin (fun m n => kSum χ lup (fun j => Hup j m n)) 1 1 := by
  refine ⟨fun _ => Complex.I, [(1, 0, 0)], [], [(1, 0, 0)], fun _ _ _ => 0, fun _ _ _ => Complex.I, by simp, by simp, ?_⟩
  have e : List.idxOf ((1, 0, 0) : Vec3) [(1, 0, 0)] = 0 := by decide
  simp [kSum, sumRange, sysRHamConjDown, scatterAdd, rmap, embedStrided, doubleSpin, assignStrided, e]
  norm_num [Complex.ext_iff]

/-- non-vacuity of T3: three different R lists, the model's own merged list -/
example : let l0 : List Vec3 := [(0,0,0), (1,0,0), (-1,0,0)]
          let l1 : List Vec3 := [(0,0,0), (0,2,1)]
          let l2 : List Vec3 := [(0,-2,-1), (1,0,0), (5,5,5)]
          mergeR [l0, l1, l2] = [(0,0,0), (1,0,0), (-1,0,0), (0,2,1), (0,-2,-1), (5,5,5)] ∧
          rmap (mergeR [l0, l1, l2]) l2 = [4, 1, 5] := by decide +kernel

/-! ## T6  each spin channel is Fourier-summed with its own R list (order-independent) -/

theorem chanSum_eq_sum [CommRing K] (phase : Vec3 → K) : ∀ (Rs : List Vec3) (xs : List K),
    chanSum phase Rs xs = ((Rs.zip xs).map (fun p => phase p.1 * p.2)).sum
  | [], _ => by simp [chanSum]
  | _ :: _, [] => by simp [chanSum]
  | R :: Rs, x :: xs => by simp [chanSum, chanSum_eq_sum phase Rs xs]

/-- T6a.  H(k) of a channel depends only on the multiset of pairs (R_i, X_i): a simultaneous permutation of the R list
    and the matrix list does not change it - so the up and down lists may be ordered independently of each other. -/
theorem chanSum_perm [CommRing K] (phase : Vec3 → K) (Rs Rs' : List Vec3) (xs xs' : List K)
    (h : (Rs.zip xs).Perm (Rs'.zip xs')) : chanSum phase Rs xs = chanSum phase Rs' xs' := by
  rw [chanSum_eq_sum, chanSum_eq_sum]
  exact (h.map _).sum_eq

/-- T6b.  Summing the down matrices with the UP list (shared-object rule) is correct when the two lists are identical. -/
theorem downShared_eq_of_same_list [CommRing K] (phase : Vec3 → K) (Rs : List Vec3) (Xdn : List K) :
    downShared phase Rs Rs Xdn = downOwn phase Rs Rs Xdn := by
  simp [downShared, downOwn]

/-- T6c.  … and wrong otherwise, already for lists of equal length: (i) the same set in another order, (ii) another set
    of the same size.  Phases ±1 = exp(2πi k·R) at k = (1/2, 0, 0). -/
theorem downShared_wrong_for_equal_length :
    let phase : Vec3 → Rat := fun R => if R.1 % 2 = 0 then 1 else -1
    (downShared phase [(0, 0, 0), (1, 0, 0)] [(1, 0, 0), (0, 0, 0)] [1, 2]
        ≠ downOwn phase [(0, 0, 0), (1, 0, 0)] [(1, 0, 0), (0, 0, 0)] [1, 2]) ∧
    (downShared phase [(0, 0, 0), (1, 0, 0)] [(0, 0, 0), (2, 0, 0)] [1, 2]
        ≠ downOwn phase [(0, 0, 0), (1, 0, 0)] [(0, 0, 0), (2, 0, 0)] [1, 2]) := by
  decide +kernel

/-- non-vacuity of T6a: the pairs in another order -/
example : chanSum (fun R : Vec3 => ((R.1 : Int) : Rat)) [(1, 0, 0), (2, 0, 0)] [3, 5]
    = chanSum (fun R : Vec3 => ((R.1 : Int) : Rat)) [(2, 0, 0), (1, 0, 0)] [5, 3] := by decide +kernel

/-! ## T4  rotated Pauli matrices -/

variable [Field K] {conj : K →+* K} {I c s e : K}

/-- T4a.  `C_ss` is unitary: `C†C = 1`. -/
theorem Css_unitary (h : PauliHyp conj I c s e) (i j : Fin 2) :
    conj (Css c s e 0 i) * Css c s e 0 j + conj (Css c s e 1 i) * Css c s e 1 j = one2 i j :=
  Css_unitary_aux h i j

/-- T4b.  Pauli algebra for every axis: `σ'_a σ'_b = δ_ab·1 + i Σ_c ε_abc σ'_c`
    (in particular `σ'_a² = 1`, `σ'_x σ'_y = iσ'_z` and cyclic, anticommutation). -/
theorem pauli_rotated_algebra (h : PauliHyp conj I c s e) (a b : Fin 3) (i j : Fin 2) :
    mul2 (pauliRot conj I c s e a) (pauliRot conj I c s e b) i j =
      (if a = b then one2 i j else 0) +
      I * ((leviCivita a b 0 : K) * pauliRot conj I c s e 0 i j + (leviCivita a b 1 : K) * pauliRot conj I c s e 1 i j
            + (leviCivita a b 2 : K) * pauliRot conj I c s e 2 i j) :=
  pauli_algebra_aux h a b i j

/-- T4c.  The rotated matrices are Hermitian. -/
theorem pauli_rotated_hermitian (h : PauliHyp conj I c s e) (a : Fin 3) (i j : Fin 2) :
    conj (pauliRot conj I c s e a i j) = pauliRot conj I c s e a j i :=
  pauli_hermitian_aux h a i j

/-- T4d.  The spin component along the quantisation axis `n = (sinθ cosφ, sinθ sinφ, cosθ)` is `diag(+1, −1)`. -/
theorem pauli_rotated_axis_diagonal (h : PauliHyp conj I c s e) (i j : Fin 2) :
    axis conj I c s e 0 * pauliRot conj I c s e 0 i j + axis conj I c s e 1 * pauliRot conj I c s e 1 i j
      + axis conj I c s e 2 * pauliRot conj I c s e 2 i j = pauli I 2 i j :=
  pauli_axis_aux h i j

/-- T4e.  The hypotheses of T4a–d are met by the complex numbers the code uses, for EVERY pair of angles:
    `c = cos(θ/2)`, `s = sin(θ/2)`, `e = exp(−iφ/2)`, `conj` = complex conjugation (so T4a–d hold in ℂ for all θ, φ). -/
theorem pauli_hypotheses_hold_in_C (θ φ : ℝ) :
    PauliHyp (starRingEnd ℂ) Complex.I (Real.cos (θ / 2) : ℂ) (Real.sin (θ / 2) : ℂ) (eC φ) :=
  pauliHyp_complex θ φ

/-- T4f.  … and the abstract axis of T4d is the unit vector `(sinθ cosφ, sinθ sinφ, cosθ)`. -/
theorem pauli_axis_in_C (θ φ : ℝ) :
    axis (starRingEnd ℂ) Complex.I (Real.cos (θ / 2) : ℂ) (Real.sin (θ / 2) : ℂ) (eC φ) 0
        = ((Real.sin θ * Real.cos φ : ℝ) : ℂ) ∧
    axis (starRingEnd ℂ) Complex.I (Real.cos (θ / 2) : ℂ) (Real.sin (θ / 2) : ℂ) (eC φ) 1
        = ((Real.sin θ * Real.sin φ : ℝ) : ℂ) ∧
    axis (starRingEnd ℂ) Complex.I (Real.cos (θ / 2) : ℂ) (Real.sin (θ / 2) : ℂ) (eC φ) 2
        = ((Real.cos θ : ℝ) : ℂ) :=
  axis_complex θ φ

/-! ## T5  the SOC Hamiltonian built by `set_soc_axis` is Hermitian: `H_soc(−R) = H_soc(R)†` -/

/-- primed data = the data at `−R`.  Hypotheses: `dV_00`, `dV_11` Hermitian as R-matrices, `d01c = conj_XX_R(d01)`,
    Hermitian (rotated) Pauli matrices, real `alpha_soc`. -/
theorem socHam_hermitian (α : K) (P : Fin 2 → Fin 2 → Fin 3 → K)
    (hα : conj α = α) (hP : ∀ i j c, conj (P i j c) = P j i c)
    (d00 d11 d01 d01c d00' d11' d01' d01c' : Nat → Nat → Fin 3 → K)
    (h00 : ∀ m n c, d00' m n c = conj (d00 n m c)) (h11 : ∀ m n c, d11' m n c = conj (d11 n m c))
    (h01 : ∀ m n c, d01c' m n c = conj (d01 n m c)) (h10 : ∀ m n c, d01' m n c = conj (d01c n m c))
    (a b : Nat) :
    socHam α P d00' d11' d01' d01c' a b = conj (socHam α P d00 d11 d01 d01c b a) := by
  unfold socHam dot3
  rcases Nat.mod_two_eq_zero_or_one a with ha | ha <;> rcases Nat.mod_two_eq_zero_or_one b with hb | hb <;>
    simp [ha, hb, h00, h11, h01, h10, hP, hα, map_add, map_mul]

/-- non-vacuity of T5 (trivial conjugation on ℚ, symmetric `P`, primed data defined from the unprimed) -/
example (d00 d11 d01 d01c : Nat → Nat → Fin 3 → ℚ) (a b : Nat) :
    socHam (3/2 : ℚ) (fun i j c => (i.val + j.val + c.val : ℚ))
        (fun m n c => d00 n m c) (fun m n c => d11 n m c) (fun m n c => d01c n m c) (fun m n c => d01 n m c) a b
      = socHam (3/2 : ℚ) (fun i j c => (i.val + j.val + c.val : ℚ)) d00 d11 d01 d01c b a :=
  socHam_hermitian (conj := RingHom.id ℚ) (3/2) _ rfl (fun i j c => by simp [add_comm]) d00 d11 d01 d01c _ _ _ _
    (fun _ _ _ => rfl) (fun _ _ _ => rfl) (fun _ _ _ => rfl) (fun _ _ _ => rfl) a b

end WB.C25
