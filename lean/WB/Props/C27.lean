/-
  C27 — Berry-curvature sum rule: property theorems.

  Proved here, for every number of bands, every Hermitian velocity matrix, every real spectrum (degenerate or not),
  every field with a conjugation (ℂ, ℚ(i), …) and every grouping of the bands into blocks:
    T1  D_H is anti-Hermitian                                   (`D_antihermitian`)
    T2  the internal Berry-curvature terms A→B and B→A cancel   (`omega_pair_cancel`)
    T3  summed over any partition of all bands the internal Berry curvature vanishes (`omega_sum_rule`,
        `omega_sum_rule_get_borders` for the groups the code really builds)
    T4  hence a Fermi-sea integral of it with the Fermi level above all bands is zero (`ahc_internal_zero_above_bands`)
  NOT proved (oracle only, see harness/props/c27.py): quantisation of AHC·c in units of e²/h for gapped 2D models —
  that is topology plus quadrature error, not bookkeeping.  The claim is labelled partial for that reason.
-/
import WB.Lemmas.C27Sums
import WB.Lemmas.C27Sea
import WB.Lemmas.C04Expr
import WB.Props.C15
import Mathlib.Data.Complex.Basic

namespace WB.C27
open Finset

/-! ## T1: `D_H` is anti-Hermitian -/

/-- the mask `|E n - E l| < thr` of `dEig_inv` is symmetric -/
theorem selRat_symm (E : ℕ → ℚ) (thr : ℚ) (n l : ℕ) : selRat E thr n l = selRat E thr l n := by
  unfold selRat; exact Bool.and_comm _ _

section field
variable {K : Type} [Field K] [StarRing K]

omit [StarRing K] in
/-- `dEig_inv` is antisymmetric (degenerate pairs, where it is set to 0, included) -/
theorem dEigInv_antisymm (E : ℕ → K) (sel : ℕ → ℕ → Bool) (hsel : ∀ n l, sel n l = sel l n) (n l : ℕ) :
    dEigInv E sel l n = -dEigInv E sel n l := by
  unfold dEigInv
  rw [hsel l n]
  split
  · simp
  · rw [← neg_sub (E n) (E l), inv_neg]

/-- **T1.**  With a Hermitian velocity matrix `V` (`star (V n l a) = V l n a`), real energies and the symmetric
    degeneracy mask, `D_H = -V·dEig_inv` satisfies `D_nl = -conj D_ln`. -/
theorem D_antihermitian (V : ℕ → ℕ → ℕ → K) (E : ℕ → K) (sel : ℕ → ℕ → Bool)
    (hV : ∀ n l a, star (V n l a) = V l n a) (hE : ∀ n, star (E n) = E n)
    (hsel : ∀ n l, sel n l = sel l n) (n l a : ℕ) :
    star (DH V E sel l n a) = -DH V E sel n l a := by
  unfold DH
  rw [star_mul', star_neg, hV, dEigInv_antisymm E sel hsel n l]
  have : star (dEigInv E sel n l) = dEigInv E sel n l := by
    unfold dEigInv
    split
    · simp
    · rw [star_inv₀, star_sub, hE, hE]
  rw [star_neg, this]
  ring

/-- the hypotheses of T1 are met by the rational mask used by the driver -/
example (E : ℕ → ℚ) (thr : ℚ) : ∀ n l, selRat E thr n l = selRat E thr l n := selRat_symm E thr

/-! ## T2: pair cancellation -/

theorem pairTerm_antisymm (I : K) (D : ℕ → ℕ → ℕ → K) (hI : star I = -I)
    (hD : ∀ n l a, star (D l n a) = -D n l a) (c n l : ℕ) :
    pairTerm I D c n l + pairTerm I D c l n = 0 := by
  unfold pairTerm
  simp only [star_mul', star_neg, hI, hD]
  ring

theorem pairTerm_diag (I : K) (D : ℕ → ℕ → ℕ → K) (hI : star I = -I)
    (hD : ∀ n l a, star (D l n a) = -D n l a) (c n : ℕ) :
    pairTerm I D c n n = 0 := by
  unfold pairTerm
  simp only [star_mul', star_neg, hI, hD]
  ring

theorem pairTerm_star (I : K) (D : ℕ → ℕ → ℕ → K) (c n l : ℕ) :
    star (pairTerm I D c n l) = pairTerm I D c n l := by
  unfold pairTerm; rw [star_add, star_star, add_comm]

theorem star_list_sum_fixed (l : List ℕ) (f : ℕ → K) (h : ∀ x, star (f x) = f x) :
    star (l.map f).sum = (l.map f).sum := by
  induction l with
  | nil => simp
  | cons x xs ih => simp only [List.map_cons, List.sum_cons, star_add, ih, h]

/-- the trace is self-conjugate, so the `.real` taken by `Formula_ln.trace` discards nothing -/
theorem omegaTrace_real (I : K) (D : ℕ → ℕ → ℕ → K) (inn out : List ℕ) (c : ℕ) :
    star (omegaTrace star I D inn out c) = omegaTrace star I D inn out c := by
  rw [omegaTrace_eq]
  apply star_list_sum_fixed
  intro n
  apply star_list_sum_fixed
  intro l
  exact pairTerm_star I D c n l

/-- **T2.**  For any two band sets `A`, `B` (lists without repetition; disjoint sets in the code) the internal
    Berry-curvature term of `A` traced against `B` and that of `B` traced against `A` cancel. -/
theorem omega_pair_cancel (I : K) (D : ℕ → ℕ → ℕ → K) (hI : star I = -I)
    (hD : ∀ n l a, star (D l n a) = -D n l a) (A B : List ℕ) (hA : A.Nodup) (hB : B.Nodup) (c : ℕ) :
    omegaTrace star I D A B c + omegaTrace star I D B A c = 0 := by
  rw [omegaTrace_finset I D A B c hA hB, omegaTrace_finset I D B A c hB hA]
  exact sum_pair_antisymm _ _ _ (pairTerm_antisymm I D hI hD c)

/-! ## T3: the sum rule over any partition of the bands -/

/-- `blocks` is a grouping of the bands `0..N-1`: no block listed twice, every block inside `0..N`,
    every band in exactly one block -/
structure IsPartition (N : ℕ) (blocks : List (ℕ × ℕ)) : Prop where
  nodup : blocks.Nodup
  le : ∀ ab ∈ blocks, ab.1 ≤ ab.2 ∧ ab.2 ≤ N
  cover : ∀ j, j < N → ∃ ab ∈ blocks, ab.1 ≤ j ∧ j < ab.2
  unique : ∀ ab ∈ blocks, ∀ cd ∈ blocks, ∀ j, ab.1 ≤ j → j < ab.2 → cd.1 ≤ j → j < cd.2 → ab = cd

/-- **T3.**  For any anti-Hermitian `D` (in particular `D_H`, by T1) and any partition of all `N` bands into
    blocks, the internal Berry curvature of the blocks — each traced against all bands outside it, exactly as
    `Formula_ln.trace(ik, inn, out)` is called by the calculators — sums to zero. -/
theorem omega_sum_rule (I : K) (D : ℕ → ℕ → ℕ → K) (hI : star I = -I)
    (hD : ∀ n l a, star (D l n a) = -D n l a) (N : ℕ) (blocks : List (ℕ × ℕ))
    (hP : IsPartition N blocks) (c : ℕ) :
    omegaBlocks star I D N blocks c = 0 := by
  unfold omegaBlocks
  have hblock : ∀ ab ∈ blocks,
      omegaTrace star I D (blockInn ab.1 ab.2) (blockOut ab.1 ab.2 N) c
        = ∑ n ∈ Finset.Ico ab.1 ab.2, ∑ l ∈ Finset.range N \ Finset.Ico ab.1 ab.2, pairTerm I D c n l := by
    intro ab hab
    obtain ⟨h1, h2⟩ := hP.le ab hab
    rw [omegaTrace_finset I D _ _ c (blockInn_nodup _ _) (blockOut_nodup _ _ _ h1),
      blockInn_toFinset, blockOut_toFinset _ _ _ h1 h2]
  rw [List.map_congr_left hblock, ← List.sum_toFinset _ hP.nodup]
  apply sum_partition_antisymm blocks.toFinset (fun ab => Finset.Ico ab.1 ab.2) (Finset.range N)
  · intro ab hab cd hcd hne
    rw [Function.onFun, Finset.disjoint_left]
    intro j hj1 hj2
    rw [Finset.mem_Ico] at hj1 hj2
    exact hne (hP.unique ab (List.mem_toFinset.mp hab) cd (List.mem_toFinset.mp hcd) j hj1.1 hj1.2 hj2.1 hj2.2)
  · ext j
    simp only [Finset.mem_biUnion, List.mem_toFinset, Finset.mem_Ico, Finset.mem_range]
    constructor
    · rintro ⟨ab, hab, _, h2⟩
      exact lt_of_lt_of_le h2 (hP.le ab hab).2
    · intro hj
      obtain ⟨ab, hab, h⟩ := hP.cover j hj
      exact ⟨ab, hab, h⟩
  · exact pairTerm_antisymm I D hI hD c
  · exact pairTerm_diag I D hI hD c

/-- the single-band grouping (what `evaluate_k` tabulates for a non-degenerate spectrum) is a partition -/
theorem singles_isPartition (N : ℕ) : IsPartition N ((List.range N).map fun n => (n, n + 1)) where
  nodup := by
    apply List.Nodup.map _ List.nodup_range
    intro a b h; exact congrArg Prod.fst h
  le := by
    intro ab hab
    obtain ⟨n, hn, rfl⟩ := List.mem_map.mp hab
    simp only [List.mem_range] at hn
    constructor
    · simp
    · simp; omega
  cover := by
    intro j hj
    exact ⟨(j, j + 1), List.mem_map.mpr ⟨j, List.mem_range.mpr hj, rfl⟩, le_refl _, Nat.lt_succ_self _⟩
  unique := by
    intro ab hab cd hcd j h1 h2 h3 h4
    obtain ⟨n, _, rfl⟩ := List.mem_map.mp hab
    obtain ⟨m, _, rfl⟩ := List.mem_map.mp hcd
    simp only at h1 h2 h3 h4
    have : n = m := by omega
    rw [this]

/-- the groups built by `get_borders` (any threshold; Kramers pairs with an even number of bands) are a partition:
    the sum rule therefore holds for exactly the groupings the calculators use -/
theorem get_borders_isPartition (Eb : ℕ → ℚ) (th : ℚ) (N : ℕ) (kr : Bool) (hN : 0 < N)
    (hk : kr = true → N % 2 = 0) : IsPartition N (WB.C15.blocks Eb th N kr) where
  nodup := by
    unfold WB.C15.blocks
    have hs := WB.C15.borders_sorted Eb th N kr
    generalize WB.C15.borders Eb th N kr = l at hs
    induction l with
    | nil => simp [WB.C15.pairs]
    | cons x xs ih =>
      cases xs with
      | nil => simp [WB.C15.pairs]
      | cons y ys =>
        rw [WB.C15.pairs]
        have hs' := (List.pairwise_cons.mp hs).2
        refine List.nodup_cons.mpr ⟨?_, ih hs'⟩
        intro hmem
        obtain ⟨ha, _, _, _⟩ := WB.C15.pairs_mem_consecutive _ hs' x y hmem
        have := (List.pairwise_cons.mp hs).1 x ha
        exact lt_irrefl _ this
  le := by
    intro ab hab
    obtain ⟨a, b⟩ := ab
    obtain ⟨_, hb, hlt, _⟩ := WB.C15.pairs_mem_consecutive _ (WB.C15.borders_sorted Eb th N kr) a b hab
    exact ⟨le_of_lt hlt, ((WB.C15.mem_borders ..).1 hb).1⟩
  cover := by
    intro j hj
    obtain ⟨ab, hab, h, _⟩ := WB.C15.blocks_partition Eb th N kr hN hk j hj
    exact ⟨ab, hab, h⟩
  unique := by
    intro ab hab cd hcd j h1 h2 h3 h4
    exact WB.C15.pairs_disjoint _ (WB.C15.borders_sorted Eb th N kr) ab hab cd hcd j h1 h2 h3 h4

/-- **T3 for the code's own grouping.** -/
theorem omega_sum_rule_get_borders (I : K) (D : ℕ → ℕ → ℕ → K) (hI : star I = -I)
    (hD : ∀ n l a, star (D l n a) = -D n l a) (Eb : ℕ → ℚ) (th : ℚ) (N : ℕ) (kr : Bool) (hN : 0 < N)
    (hk : kr = true → N % 2 = 0) (c : ℕ) :
    omegaBlocks star I D N (WB.C15.blocks Eb th N kr) c = 0 :=
  omega_sum_rule I D hI hD N _ (get_borders_isPartition Eb th N kr hN hk) c

/-- **T1 + T3**: stated directly on the code's inputs — Hermitian `V`, real energies, symmetric mask. -/
theorem omega_sum_rule_DH (I : K) (hI : star I = -I) (V : ℕ → ℕ → ℕ → K) (E : ℕ → K) (sel : ℕ → ℕ → Bool)
    (hV : ∀ n l a, star (V n l a) = V l n a) (hE : ∀ n, star (E n) = E n)
    (hsel : ∀ n l, sel n l = sel l n) (N : ℕ) (blocks : List (ℕ × ℕ)) (hP : IsPartition N blocks) (c : ℕ) :
    omegaBlocks star I (DH V E sel) N blocks c = 0 :=
  omega_sum_rule I _ hI (D_antihermitian V E sel hV hE hsel) N blocks hP c


/-! ## the band groups of a Fermi-sea calculator are a partition (because of the clamp) -/

theorem seaGroups_nil {E : ℕ → ℚ} {th : ℚ} {n : ℕ} {kr : Bool} {emin emax : ℚ}
    (h : WB.C15.bandsInRange E th n kr emin emax = []) :
    seaGroups E th n kr emin emax
      = (if belowRange E emin n > 0 then [(0, belowRange E emin n)] else []) := by
  unfold seaGroups; simp only [h, List.append_nil]

theorem seaGroups_cons {E : ℕ → ℚ} {th : ℚ} {n : ℕ} {kr : Bool} {emin emax : ℚ} {hd : ℕ × ℕ} {t : List (ℕ × ℕ)}
    (h : WB.C15.bandsInRange E th n kr emin emax = hd :: t) :
    seaGroups E th n kr emin emax
      = (if min (belowRange E emin n) hd.1 > 0 then [(0, min (belowRange E emin n) hd.1)] else []) ++ hd :: t := by
  unfold seaGroups; simp only [h]

/-- **The groups traced by a Fermi-sea calculator partition the bands.**  `get_bands_in_range_groups_ik(sea=True)`
    returns the groups of `get_borders` that reach into `[emin, emax]` plus ONE lumped block `(0, bandmax)` for the
    bands below; `bandmax` is clamped to the start of the first group in range.  For a sorted spectrum and `emax`
    above all bands (top of the Fermi-level list above all bands) these groups are a partition of all bands — also
    when a (near-)degenerate group straddles `emin` (the lowest Fermi level lies inside a multiplet). -/
theorem sea_groups_isPartition (E : ℕ → ℚ) (th : ℚ) (n : ℕ) (kr : Bool) (emin emax : ℚ)
    (hn : 0 < n) (hk : kr = true → n % 2 = 0)
    (hsorted : ∀ i j, i ≤ j → j < n → E i ≤ E j) (hmax : ∀ i, i < n → E i ≤ emax) :
    IsPartition n (seaGroups E th n kr emin emax) := by
  have hB := get_borders_isPartition E th n kr hn hk
  have hbs := WB.C15.borders_sorted E th n kr
  have hord : (WB.C15.blocks E th n kr).Pairwise (fun x y => x.2 ≤ y.1) := pairs_ordered _ hbs
  have hlt : ∀ ab ∈ WB.C15.blocks E th n kr, ab.1 < ab.2 := by
    intro ab hab; obtain ⟨a, b⟩ := ab
    exact (WB.C15.pairs_mem_consecutive _ hbs a b hab).2.2.1
  have hP : ∀ ab, ab ∈ WB.C15.bandsInRange E th n kr emin emax ↔
      ab ∈ WB.C15.blocks E th n kr ∧ ∃ i, ab.1 ≤ i ∧ i < ab.2 ∧ emin ≤ E i := by
    intro ab
    rw [mem_bandsInRange]
    constructor
    · rintro ⟨h1, h2, _⟩; exact ⟨h1, (sliceMax_ge_iff E _ _ (hlt ab h1) emin).mp h2⟩
    · rintro ⟨h1, h2⟩
      refine ⟨h1, (sliceMax_ge_iff E _ _ (hlt ab h1) emin).mpr h2, sliceMin_le E _ _ _ (hmax _ ?_)⟩
      have := (hB.le ab h1).2; have := hlt ab h1; omega
  have hfil : (WB.C15.bandsInRange E th n kr emin emax).Sublist (WB.C15.blocks E th n kr) := by
    unfold WB.C15.bandsInRange; exact List.filter_sublist
  have hinord := hord.sublist hfil
  have hinnodup := hB.nodup.sublist hfil
  -- any two blocks are equal or ordered
  have htri : ∀ x ∈ WB.C15.blocks E th n kr, ∀ y ∈ WB.C15.blocks E th n kr, x = y ∨ x.2 ≤ y.1 ∨ y.2 ≤ x.1 :=
    pairwise_trichotomy _ hord
  obtain ⟨hm1, hm2, _⟩ := belowRange_spec E emin n
  cases hin : WB.C15.bandsInRange E th n kr emin emax with
  | nil =>
    have hall : ∀ i, i < n → E i < emin := by
      intro i hi
      by_contra hc
      obtain ⟨ab, hab, h1, h2⟩ := hB.cover i hi
      have : ab ∈ WB.C15.bandsInRange E th n kr emin emax := (hP ab).mpr ⟨hab, i, h1, h2, not_lt.mp hc⟩
      rw [hin] at this; simp at this
    have hmn : belowRange E emin n = n := by
      have := hm2 (n - 1) (by omega) (hall (n - 1) (by omega)); omega
    rw [seaGroups_nil hin, hmn, if_pos hn]
    exact ⟨by simp, by intro ab hab; simp at hab; subst hab; simp,
      fun j hj => ⟨(0, n), by simp, Nat.zero_le _, hj⟩,
      by intro ab hab cd hcd; simp at hab hcd; subst hab; subst hcd; intros; rfl⟩
  | cons hd t =>
    have hhd : hd ∈ WB.C15.bandsInRange E th n kr emin emax := by rw [hin]; simp
    obtain ⟨hhdB, i0, hi01, hi02, hi03⟩ := (hP hd).mp hhd
    have F1 : ∀ cd ∈ WB.C15.bandsInRange E th n kr emin emax, hd.1 ≤ cd.1 := by
      intro cd hcd
      rw [hin] at hcd hinord
      rcases List.mem_cons.mp hcd with rfl | hcd
      · exact le_refl _
      · have := (List.pairwise_cons.mp hinord).1 cd hcd
        have := hlt hd hhdB; omega
    have F2 : ∀ cd ∈ WB.C15.blocks E th n kr, cd ∉ WB.C15.bandsInRange E th n kr emin emax → cd.2 ≤ hd.1 := by
      intro cd hcd hnot
      rcases htri cd hcd hd hhdB with h | h | h
      · exact absurd (h ▸ hhd) hnot
      · exact h
      · exfalso
        apply hnot
        refine (hP cd).mpr ⟨hcd, cd.1, le_refl _, hlt cd hcd, ?_⟩
        have h1 : i0 ≤ cd.1 := by omega
        have h2 : cd.1 < n := by have := (hB.le cd hcd).2; have := hlt cd hcd; omega
        exact le_trans hi03 (hsorted i0 cd.1 h1 h2)
    have hle : hd.1 ≤ belowRange E emin n := by
      by_contra hc
      have h0 : 0 < hd.1 := by omega
      have hlt1 : hd.1 - 1 < n := by have := (hB.le hd hhdB).2; have := hlt hd hhdB; omega
      have : E (hd.1 - 1) < emin := by
        by_contra hge
        obtain ⟨ab, hab, h1, h2⟩ := hB.cover (hd.1 - 1) hlt1
        have hin' : ab ∈ WB.C15.bandsInRange E th n kr emin emax :=
          (hP ab).mpr ⟨hab, hd.1 - 1, h1, h2, not_lt.mp hge⟩
        have := F1 ab hin'
        omega
      have := hm2 (hd.1 - 1) hlt1 this
      omega
    rw [seaGroups_cons hin, Nat.min_eq_right hle, ← hin]
    have hpre : ∀ g, g ∈ (if hd.1 > 0 then [((0 : ℕ), hd.1)] else []) ↔ (0 < hd.1 ∧ g = (0, hd.1)) := by
      intro g; split_ifs with h0
      · simp [h0]
      · simp; intro h; omega
    refine ⟨?_, ?_, ?_, ?_⟩
    · rw [List.nodup_append]
      refine ⟨by split_ifs <;> simp, hinnodup, ?_⟩
      intro x hx y hy hxy
      obtain ⟨h0, rfl⟩ := (hpre x).mp hx
      have := F1 y hy
      rw [← hxy] at this; simp at this; omega
    · intro ab hab
      rcases List.mem_append.mp hab with h | h
      · obtain ⟨_, rfl⟩ := (hpre ab).mp h
        have := (hB.le hd hhdB).2; have := hlt hd hhdB
        constructor <;> simp <;> omega
      · exact hB.le ab (hfil.subset h)
    · intro j hj
      obtain ⟨cd, hcd, h1, h2⟩ := hB.cover j hj
      by_cases hc : cd ∈ WB.C15.bandsInRange E th n kr emin emax
      · exact ⟨cd, List.mem_append.mpr (Or.inr hc), h1, h2⟩
      · have := F2 cd hcd hc
        have h0 : 0 < hd.1 := by omega
        exact ⟨(0, hd.1), List.mem_append.mpr (Or.inl ((hpre _).mpr ⟨h0, rfl⟩)), Nat.zero_le _, by simp; omega⟩
    · intro ab hab cd hcd j h1 h2 h3 h4
      rcases List.mem_append.mp hab with ha | ha <;> rcases List.mem_append.mp hcd with hc | hc
      · obtain ⟨_, rfl⟩ := (hpre ab).mp ha
        obtain ⟨_, rfl⟩ := (hpre cd).mp hc
        rfl
      · obtain ⟨_, rfl⟩ := (hpre ab).mp ha
        have := F1 cd hc; simp at h2; omega
      · obtain ⟨_, rfl⟩ := (hpre cd).mp hc
        have := F1 ab ha; simp at h4; omega
      · exact hB.unique ab (hfil.subset ha) cd (hfil.subset hc) j h1 h2 h3 h4

/-- **Sum rule for the groups a Fermi-sea calculator really traces** (lumped block included): with the top of
    the Fermi-level list above all bands, the internal Berry curvature summed over these groups vanishes. -/
theorem omega_sum_rule_sea (I : K) (D : ℕ → ℕ → ℕ → K) (hI : star I = -I)
    (hD : ∀ n l a, star (D l n a) = -D n l a) (Eb : ℕ → ℚ) (th : ℚ) (N : ℕ) (kr : Bool) (emin emax : ℚ)
    (hN : 0 < N) (hk : kr = true → N % 2 = 0)
    (hsorted : ∀ i j, i ≤ j → j < N → Eb i ≤ Eb j) (hmax : ∀ i, i < N → Eb i ≤ emax) (c : ℕ) :
    omegaBlocks star I D N (seaGroups Eb th N kr emin emax) c = 0 :=
  omega_sum_rule I D hI hD N _ (sea_groups_isPartition Eb th N kr emin emax hN hk hsorted hmax) c

/-- the clamp is needed: two bands 5·10⁻⁵ apart (one group for `degen_thresh = 10⁻⁴`), lowest Fermi level between
    them.  With the clamp the groups are `(0,2),(2,3)`; without it band 0 is in `(0,1)` AND in `(0,2)`. -/
theorem sea_groups_without_clamp_overlap :
    let E := WB.C15.ofList [0, 1/20000, 3/2]
    seaGroups E (1/10000) 3 false (1/50000) 30 = [(0, 2), (2, 3)] ∧
    seaGroupsNoClamp E (1/10000) 3 false (1/50000) 30 = [(0, 1), (0, 2), (2, 3)] := by
  decide +kernel


/-! ## the full Berry curvature (with external terms): gauge invariant over a partition, but no sum rule -/

open WB.C04 in
/-- **`omega_total_gauge_invariant`.**  The full Berry curvature `Omega` (internal AND external terms, as the class
    computes it: `WB.C04.omegaE`) traced over every block of a grouping of the bands and summed is unchanged by a gauge
    change that rotates the states inside each block (and, independently, the states outside it) among states of
    exactly equal energy.  Each block comes with its own inner/outer data `env`, gauge `g` and transformed atoms. -/
theorem omega_total_gauge_invariant (I half : K) (dei : K → K → K) (int ext : Bool) (oo : String) (c : ℕ)
    (blocks : List ((env : BEnv K) × Gauge env × (String → ℕ → List ℕ → Side → Side → ℕ → ℕ → K)))
    (hatom : ∀ b ∈ blocks, ∀ name der cs r c', toMat (b.1.dim r) (b.1.dim c') (b.2.2 name der cs r c')
      = cj (b.2.1.U r) (b.2.1.U c') (toMat (b.1.dim r) (b.1.dim c') (b.1.blk name der cs r c'))) :
    (blocks.map fun b => traceM (b.1.dim .inn)
        ((omegaE I half dei int ext oo [c] .inn).eval star { b.1 with blk := b.2.2 })).sum
      = (blocks.map fun b => traceM (b.1.dim .inn) ((omegaE I half dei int ext oo [c] .inn).eval star b.1)).sum := by
  congr 1
  apply List.map_congr_left
  intro b hb
  exact trace_sound b.1 b.2.1 b.2.2 (hatom b hb) _

open WB.C04 in
/-- the external terms obey NO sum rule: one band, nothing outside, `rotAA = 1` — the external Berry curvature
    summed over all bands is `½·1 + conj(½·1) = 1 ≠ 0` (it is the trace of `curl A^W`, a property of the Wannier
    functions, not of the Hamiltonian) -/
theorem external_terms_no_sum_rule :
    let env : BEnv GRat := ⟨fun s => match s with | .inn => 1 | .out => 0,
      fun name _ _ _ _ _ _ => if name = "rotAA" then ⟨1, 0⟩ else ⟨0, 0⟩, fun _ _ => ⟨0, 0⟩⟩
    traceM 1 ((omegaE GRat.I ⟨1/2, 0⟩ (deiG (1/10)) false true "rotAA" [2] .inn).eval GRat.conj env) = ⟨1, 0⟩ := by
  decide +kernel


/-! ## `dEig_inv` is the per-k function at EVERY k-point, whatever the size of the grid -/

/-- **`dEigInv_all_k`.**  The array equals the per-k function at every index `ik < nk` — for every `nk`
    (1, 7, 1023, 1024, 1025, …). -/
theorem dEigInv_all_k {K : Type} [Field K] (E : ℕ → ℕ → K) (sel : ℕ → ℕ → ℕ → Bool) (nk ik n l : ℕ) (h : ik < nk) :
    dEigInvAllK E sel nk ik n l = dEigInv (E ik) (sel ik) n l := by
  unfold dEigInvAllK; rw [if_pos h]

/-- a block-wise fill is the same array iff the blocks cover all k-points: `⌈nk/nb⌉` blocks do … -/
theorem dEigInv_blocks_ceil {K : Type} [Field K] (E : ℕ → ℕ → K) (sel : ℕ → ℕ → ℕ → Bool) (nb nk ik n l : ℕ)
    (hnb : 0 < nb) (h : ik < nk) :
    dEigInvBlocks E sel ((nk + nb - 1) / nb) nb nk ik n l = dEigInvAllK E sel nk ik n l := by
  unfold dEigInvBlocks dEigInvAllK
  have : ik < (nk + nb - 1) / nb * nb := by
    have h1 := Nat.div_add_mod (nk + nb - 1) nb
    have h2 := Nat.mod_lt (nk + nb - 1) hnb
    have h3 : nb * ((nk + nb - 1) / nb) = (nk + nb - 1) / nb * nb := Nat.mul_comm _ _
    omega
  rw [if_pos ⟨h, this⟩, if_pos h]

/-- … `max(nk // nb, 1)` blocks do NOT: with `nb = 1024` and `nk = 1025` the last k-point is never written, its
    `dEig_inv` stays 0 although the two bands are 1 apart (the Berry curvature silently vanishes there) -/
theorem dEigInv_blocks_floor_truncates :
    let E : ℕ → ℕ → ℚ := fun _ b => b
    let sel : ℕ → ℕ → ℕ → Bool := fun _ n l => n == l
    dEigInvBlocks E sel (max (1025 / 1024) 1) 1024 1025 1024 1 0 = 0 ∧ dEigInvAllK E sel 1025 1024 1 0 = 1 := by
  decide +kernel


/-! ## Hermitian part vs symmetric part of the velocity matrix (k.p models) -/

section hermitian_part
variable {K : Type} [Field K] [StarRing K]

/-- the Hermitian part of a Hermitian matrix is the matrix itself: `0.5 (X + X†) = X` -/
theorem hermitize_of_hermitian (half : K) (hhalf : half * (1 + 1) = 1) (X : ℕ → ℕ → K)
    (hX : ∀ i j, star (X j i) = X i j) (i j : ℕ) : hermitize star half X i j = X i j := by
  unfold hermitize
  rw [hX i j]
  calc half * (X i j + X i j) = half * (1 + 1) * X i j := by ring
    _ = X i j := by rw [hhalf, one_mul]

omit [StarRing K] in
/-- the symmetric part `0.5 (X + Xᵀ)` equals `X` iff `X` is symmetric — for a Hermitian `X` iff all its entries are
    real, i.e. iff the imaginary (σ_y-like) inter-band elements vanish -/
theorem symmetrize_eq_iff (half : K) (hhalf : half * (1 + 1) = 1) (X : ℕ → ℕ → K) :
    (∀ i j, symmetrize half X i j = X i j) ↔ ∀ i j, X j i = X i j := by
  have h2 : (1 + 1 : K) ≠ 0 := by
    intro h; rw [h, mul_zero] at hhalf; exact zero_ne_one hhalf
  constructor
  · intro h i j
    have := h i j
    unfold symmetrize at this
    have e : (1 + 1) * (half * (X i j + X j i)) = (1 + 1) * X i j := by rw [this]
    have e2 : (1 + 1) * (half * (X i j + X j i)) = (half * (1 + 1)) * (X i j + X j i) := by ring
    rw [e2, hhalf, one_mul] at e
    have : X i j + X j i = X i j + X i j := by rw [e]; ring
    exact add_left_cancel this
  · intro h i j
    unfold symmetrize
    rw [h i j]
    calc half * (X i j + X i j) = half * (1 + 1) * X i j := by ring
      _ = X i j := by rw [hhalf, one_mul]

theorem symmetrize_hermitian_eq_iff_real (half : K) (hhalf : half * (1 + 1) = 1) (X : ℕ → ℕ → K)
    (hX : ∀ i j, star (X j i) = X i j) :
    (∀ i j, symmetrize half X i j = X i j) ↔ ∀ i j, star (X i j) = X i j := by
  rw [symmetrize_eq_iff half hhalf]
  constructor
  · intro h i j
    calc star (X i j) = star (X j i) := by rw [h i j]
      _ = X i j := hX i j
  · intro h i j
    calc X j i = star (X j i) := (h j i).symm
      _ = X i j := hX i j

/-- the symmetric part of a Hermitian matrix has only real entries -/
theorem symmetrize_real (half : K) (hh : star half = half) (X : ℕ → ℕ → K) (hX : ∀ i j, star (X j i) = X i j)
    (i j : ℕ) : star (symmetrize half X i j) = symmetrize half X i j := by
  unfold symmetrize
  rw [star_mul', star_add, hh, hX j i, hX i j, add_comm]

/-- with real velocity matrices and real energies `D_H` is real … -/
theorem DH_real (V : ℕ → ℕ → ℕ → K) (E : ℕ → K) (sel : ℕ → ℕ → Bool)
    (hV : ∀ n l a, star (V n l a) = V n l a) (hE : ∀ n, star (E n) = E n) (n l a : ℕ) :
    star (DH V E sel n l a) = DH V E sel n l a := by
  unfold DH dEigInv
  rw [star_mul', star_neg, hV]
  split
  · simp
  · rw [star_inv₀, star_sub, hE, hE]

/-- … and then the internal Berry curvature vanishes IDENTICALLY, for every band group and any number of bands:
    `-i D_nl D_ln + c.c. = 0` for real `D`.  Dropping the imaginary inter-band velocity elements (the `d_y σ_y` part of
    a two-band model `d(k)·σ`) therefore kills the curvature and with it the Chern number. -/
theorem omega_zero_of_real_D (I : K) (hI : star I = -I) (D : ℕ → ℕ → ℕ → K)
    (hD : ∀ n l a, star (D n l a) = D n l a) (inn out : List ℕ) (c : ℕ) :
    omegaTrace star I D inn out c = 0 := by
  rw [omegaTrace_eq]
  have hp : ∀ n l, pairTerm I D c n l = 0 := by
    intro n l
    unfold pairTerm
    rw [star_mul', star_mul', star_neg, hI, hD, hD]
    ring
  simp [hp]

end hermitian_part

/-- σ_y over the Gaussian rationals: Hermitian, its Hermitian part is σ_y, its symmetric part is 0 — the velocity
    matrix `∂H/∂k_y = σ_y` of the model `k_x σ_x + k_y σ_y + m σ_z` is wiped out by `0.5 (X + Xᵀ)` -/
theorem symmetrize_kills_sigma_y :
    let sy : ℕ → ℕ → GRat := fun i j => if i = 0 ∧ j = 1 then ⟨0, -1⟩ else if i = 1 ∧ j = 0 then ⟨0, 1⟩ else ⟨0, 0⟩
    (∀ i ∈ List.range 2, ∀ j ∈ List.range 2, hermitize GRat.conj ⟨1/2, 0⟩ sy i j = sy i j) ∧
    (∀ i ∈ List.range 2, ∀ j ∈ List.range 2, symmetrize ⟨1/2, 0⟩ sy i j = ⟨0, 0⟩) ∧ sy 0 1 ≠ ⟨0, 0⟩ := by
  decide +kernel

/-- non-vacuity and the two-band tie: `V^x = σ_x`, `V^y = σ_y`, energies ∓1 give Berry curvature 1/2 per band
    (`-1/2` for the other); with `V^y` replaced by its symmetric part (0) the curvature is 0 -/
example :
    let Vgood : ℕ → ℕ → ℕ → GRat := fun n l a =>
      if a = 0 then (if n ≠ l ∧ n < 2 ∧ l < 2 then ⟨1, 0⟩ else ⟨0, 0⟩)
      else if a = 1 then (if n = 0 ∧ l = 1 then ⟨0, -1⟩ else if n = 1 ∧ l = 0 then ⟨0, 1⟩ else ⟨0, 0⟩) else ⟨0, 0⟩
    let Vbad : ℕ → ℕ → ℕ → GRat := fun n l a => if a = 1 then symmetrize ⟨1/2, 0⟩ (fun i j => Vgood i j 1) n l else Vgood n l a
    let E : ℕ → GRat := fun n => if n = 0 then ⟨-1, 0⟩ else ⟨1, 0⟩
    let sel : ℕ → ℕ → Bool := fun n l => n == l
    omegaTrace GRat.conj GRat.I (DH Vgood E sel) [0] [1] 2 = ⟨-1/2, 0⟩ ∧
    omegaTrace GRat.conj GRat.I (DH Vbad E sel) [0] [1] 2 = ⟨0, 0⟩ := by
  decide +kernel

/-! ## T4: Fermi level above all bands -/

/-- **T4.**  A Fermi-sea k-sum of the internal Berry curvature with the Fermi level above every band (all blocks of
    every k-point counted with the same weight) vanishes: the internal AHC is zero there. -/
theorem ahc_internal_zero_above_bands (I : K) (hI : star I = -I) (fac : K) (N : ℕ)
    (ks : List ((ℕ → ℕ → ℕ → K) × List (ℕ × ℕ)))
    (hks : ∀ kd ∈ ks, (∀ n l a, star (kd.1 l n a) = -kd.1 n l a) ∧ IsPartition N kd.2) (c : ℕ) :
    ahcAbove star I fac N ks c = 0 := by
  unfold ahcAbove
  have : (ks.map (fun kd => omegaBlocks star I kd.1 N kd.2 c)) = ks.map (fun _ => (0 : K)) := by
    apply List.map_congr_left
    intro kd hkd
    exact omega_sum_rule I kd.1 hI (hks kd hkd).1 N kd.2 (hks kd hkd).2 c
  rw [this]
  simp

end field

/-! ## non-vacuity -/

/-- the hypotheses on the scalar field are met by the complex numbers with `I = Complex.I` -/
example (D : ℕ → ℕ → ℕ → ℂ) (hD : ∀ n l a, star (D l n a) = -D n l a) (N c : ℕ) :
    omegaBlocks star Complex.I D N ((List.range N).map fun n => (n, n + 1)) c = 0 :=
  omega_sum_rule Complex.I D (by simp) hD N _ (singles_isPartition N) c

/-- a concrete 3-band instance run through the executable model at Gaussian rationals: Hermitian `V`, a doublet
    block and a single band; each block has a non-zero internal Berry curvature, the two add up to zero -/
def exV : ℕ → ℕ → ℕ → GRat := mkV
  [[1, 0, 2,   1, 2, 0,   0, 1, 1], [1, 2, 0,   -1, 1, 0,   2, 0, 1], [0, 1, 1,   2, 0, 1,   0, 3, 1]]
  [[0, 0, 0,   1, -1, 2,  2, 0, -1], [-1, 1, -2,  0, 0, 0,   1, 1, 0], [-2, 0, 1,  -1, -1, 0,  0, 0, 0]]
def exE : ℕ → ℚ := fun i => [0, 0, 2].getD i 0
def exD : ℕ → ℕ → ℕ → GRat := DH exV (fun i => GRat.ofRat (exE i)) (selRat exE (1/10))

example : ∀ n ∈ List.range 3, ∀ l ∈ List.range 3, ∀ a ∈ List.range 3, GRat.conj (exV n l a) = exV l n a := by
  decide +kernel
example : omegaTrace GRat.conj GRat.I exD [0, 1] [2] 1 = ⟨3/2, 0⟩ ∧
          omegaTrace GRat.conj GRat.I exD [2] [0, 1] 1 = ⟨-3/2, 0⟩ ∧
          omegaBlocks GRat.conj GRat.I exD 3 [(0, 2), (2, 3)] 1 = ⟨0, 0⟩ := by decide +kernel

end WB.C27
