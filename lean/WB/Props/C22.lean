/-
  C22 — finite-difference b-vectors: property theorems.

  Proved for every mesh size, every k order, every b list, every (rational) mesh basis and — for the shell search —
  for EVERY behaviour of the two numerical kernels (SVD solve, parallel test).
  `_partial`: existence of a complete shell set / minimality of the chosen set are NOT proved (they depend on the SVD
  solve and on `is_parallel_shell`, which are abstract here; the oracle shows that the real search fails for some
  valid lattices, finding C22-bk-search-fails).  "Whole shells" is proved relative to the symmetric search box.
-/
import WB.Lemmas.C22Nb
import WB.Lemmas.C22Shells
import Mathlib.Tactic.LinearCombination

namespace WB.C22

/-! ## neighbours and lattice shifts: `find_G_and_neighbours` -/

/-- T1a (neighbour relation).  Whatever the k-point list and the b-vector: a returned neighbour index `nb` and shift
    `G` satisfy `k + b = k[nb] + G * mp_grid`, and `nb` is a valid index. -/
theorem findNb_relation (N : G3) (ks : List I3) (kb : I3) (nb : Nat) (G : I3)
    (h : findNb N ks kb = some (nb, G)) :
    ∃ k2, ks[nb]? = some k2 ∧ kb = add3 k2 (mulN G N) := by
  obtain ⟨k2, hf, rfl⟩ := findNb_eq_some N ks kb nb G h
  have hp : divisible N (sub3 kb k2) = true := by simpa using List.find?_some hf
  have hm := List.mem_of_find?_eq_some hf
  refine ⟨k2, List.mem_zipIdx_iff_getElem?.1 hm, ?_⟩
  rw [mulN_gShift N _ hp, add3_sub3]

/-- T1b.  The returned neighbour is the FIRST k-point congruent to `k + b` (the loop `break`s). -/
theorem findNb_first (N : G3) (ks : List I3) (kb : I3) (nb : Nat) (G : I3)
    (h : findNb N ks kb = some (nb, G)) :
    ∀ j k', j < nb → ks[j]? = some k' → divisible N (sub3 kb k') = false := by
  obtain ⟨k2, hf, _⟩ := findNb_eq_some N ks kb nb G h
  obtain ⟨_, as, bs, hsplit, hall⟩ := List.find?_eq_some_iff_append.1 hf
  obtain ⟨hlen, hmem⟩ := zipIdx_split_index ks as bs (k2, nb) hsplit
  intro j k' hj hk'
  have hlen' : nb = as.length := hlen
  have := hall (k', j) (hmem j k' (by omega) hk')
  simpa using this

/-- the k-point list contains every point of the Γ-centred mesh `N` (integer coordinates `0 ≤ i < N`),
    in any order, possibly with repetitions or additional points -/
def IsMeshInt (N : G3) (ks : List I3) : Prop :=
  ∀ i j l : Nat, i < N.1 → j < N.2.1 → l < N.2.2 → ((i : Int), (j : Int), (l : Int)) ∈ ks

/-- T1c (a neighbour always exists).  For a complete Γ-centred mesh in ANY order, every `k + b` — for every
    integer vector `b` — has a neighbour: the `RuntimeError` branch is unreachable. -/
theorem findNb_total (N : G3) (hN : GPos N) (ks : List I3) (hmesh : IsMeshInt N ks) (kb : I3) :
    ∃ nb G, findNb N ks kb = some (nb, G) := by
  obtain ⟨n1, n2, n3⟩ := hN
  have p1 : (0 : Int) < N.1 := by exact_mod_cast n1
  have p2 : (0 : Int) < N.2.1 := by exact_mod_cast n2
  have p3 : (0 : Int) < N.2.2 := by exact_mod_cast n3
  have key : ∀ (a : Int) (n : Nat), (0 : Int) < n →
      ((a % n).toNat < n) ∧ (((a % n).toNat : Int) = a % n) ∧ ((n : Int) ∣ a - a % n) := by
    intro a n hn
    have h0 := Int.emod_nonneg a (ne_of_gt hn)
    have h1 := Int.emod_lt_of_pos a hn
    refine ⟨by omega, Int.toNat_of_nonneg h0, ⟨a / n, ?_⟩⟩
    have := Int.mul_ediv_add_emod a n
    linarith
  obtain ⟨a1, a2, a3⟩ := key kb.1 N.1 p1
  obtain ⟨b1, b2, b3⟩ := key kb.2.1 N.2.1 p2
  obtain ⟨c1, c2, c3⟩ := key kb.2.2 N.2.2 p3
  have hm := hmesh _ _ _ a1 b1 c1
  rw [a2, b2, c2] at hm
  obtain ⟨idx, hidx⟩ := List.mem_iff_getElem?.1 hm
  have hz : ((kb.1 % N.1, kb.2.1 % N.2.1, kb.2.2 % N.2.2), idx) ∈ ks.zipIdx :=
    List.mem_zipIdx_iff_getElem?.2 hidx
  have hdiv : divisible N (sub3 kb (kb.1 % N.1, kb.2.1 % N.2.1, kb.2.2 % N.2.2)) = true :=
    (divisible_iff _ _).2 ⟨a3, b3, c3⟩
  unfold findNb
  cases hf : ks.zipIdx.find? (fun p => divisible N (sub3 kb p.1)) with
  | none =>
    rw [List.find?_eq_none] at hf
    exact absurd hdiv (by simpa using hf _ hz)
  | some p => exact ⟨p.2, gShift N (sub3 kb p.1), rfl⟩

/-- no two k-points of the list are congruent modulo the mesh -/
def Incongruent (N : G3) (ks : List I3) : Prop :=
  ∀ (i j : Nat) (k k' : I3), ks[i]? = some k → ks[j]? = some k' → divisible N (sub3 k k') = true → i = j

/-- T1d (uniqueness).  For pairwise incongruent k-points (a mesh without repeated points) the returned pair is the
    ONLY index and shift satisfying the neighbour relation. -/
theorem findNb_unique (N : G3) (hN : GPos N) (ks : List I3) (hinc : Incongruent N ks) (kb : I3) (nb : Nat) (G : I3)
    (h : findNb N ks kb = some (nb, G)) (i' : Nat) (k' G' : I3) (hk' : ks[i']? = some k')
    (hrel : kb = add3 k' (mulN G' N)) : i' = nb ∧ G' = G := by
  obtain ⟨k2, hk2, hrel2⟩ := findNb_relation N ks kb nb G h
  obtain ⟨n1, n2, n3⟩ := hN
  have p1 : (N.1 : Int) ≠ 0 := by exact_mod_cast (ne_of_gt n1)
  have p2 : (N.2.1 : Int) ≠ 0 := by exact_mod_cast (ne_of_gt n2)
  have p3 : (N.2.2 : Int) ≠ 0 := by exact_mod_cast (ne_of_gt n3)
  unfold add3 mulN at hrel hrel2
  have e1 : kb.1 = k'.1 + G'.1 * N.1 := congrArg (·.1) hrel
  have e2 : kb.2.1 = k'.2.1 + G'.2.1 * N.2.1 := congrArg (·.2.1) hrel
  have e3 : kb.2.2 = k'.2.2 + G'.2.2 * N.2.2 := congrArg (·.2.2) hrel
  have f1 : kb.1 = k2.1 + G.1 * N.1 := congrArg (·.1) hrel2
  have f2 : kb.2.1 = k2.2.1 + G.2.1 * N.2.1 := congrArg (·.2.1) hrel2
  have f3 : kb.2.2 = k2.2.2 + G.2.2 * N.2.2 := congrArg (·.2.2) hrel2
  have hdiv : divisible N (sub3 k' k2) = true := by
    rw [divisible_iff]
    unfold sub3
    exact ⟨⟨G.1 - G'.1, by linear_combination f1 - e1⟩, ⟨G.2.1 - G'.2.1, by linear_combination f2 - e2⟩,
      ⟨G.2.2 - G'.2.2, by linear_combination f3 - e3⟩⟩
  have hi : i' = nb := hinc i' nb k' k2 hk' hk2 hdiv
  subst hi
  have hk : k' = k2 := by rw [hk'] at hk2; exact Option.some.inj hk2
  subst hk
  refine ⟨rfl, ?_⟩
  have g1 : G'.1 = G.1 := Int.eq_of_mul_eq_mul_right p1 (by linarith)
  have g2 : G'.2.1 = G.2.1 := Int.eq_of_mul_eq_mul_right p2 (by linarith)
  have g3 : G'.2.2 = G.2.2 := Int.eq_of_mul_eq_mul_right p3 (by linarith)
  exact Prod.ext g1 (Prod.ext g2 g3)

/-- T1 (whole table).  Every entry of the tables returned by `find_G_and_neighbours` satisfies
    `k + b = k[neighbour] + G * mp_grid`. -/
theorem findGN_relation (N : G3) (ks bs : List I3) (irr : List Nat) (rows : List (List (Nat × I3)))
    (h : findGN N ks bs irr = some rows) :
    List.Forall₂ (fun ik row => List.Forall₂ (fun b (r : Nat × I3) =>
      ∃ k2, ks[r.1]? = some k2 ∧ add3 (ks.getD ik (0, 0, 0)) b = add3 k2 (mulN r.2 N)) bs row) irr rows := by
  have h1 := mapM_option_forall₂ _ irr rows h
  refine h1.imp ?_
  intro ik row hrow
  have h2 := mapM_option_forall₂ _ bs row hrow
  refine h2.imp ?_
  intro b r hr
  exact findNb_relation N ks _ r.1 r.2 hr

/-- T1 (totality of the table).  For a complete Γ-centred mesh in any order `find_G_and_neighbours` never raises,
    for any list of b-vectors and any selection `kptirr`. -/
theorem findGN_total (N : G3) (hN : GPos N) (ks : List I3) (hmesh : IsMeshInt N ks) (bs : List I3) (irr : List Nat) :
    ∃ rows, findGN N ks bs irr = some rows := by
  unfold findGN
  apply mapM_option_total
  intro ik _
  unfold neighboursOf
  apply mapM_option_total
  intro b _
  obtain ⟨nb, G, h⟩ := findNb_total N hN ks hmesh (add3 (ks.getD ik (0, 0, 0)) b)
  exact ⟨(nb, G), h⟩

/-! ## shells: `k_to_shells` on the symmetric search box -/

/-- T2a.  The vectors of one shell have one and the same non-zero length and belong to the input. -/
theorem shell_equal_length (l : List BV) (S : Shell) (hS : S ∈ kToShells l) (p q : BV) (hp : p ∈ S) (hq : q ∈ S) :
    norm2 p.2 = norm2 q.2 ∧ norm2 p.2 ≠ 0 ∧ p ∈ l := by
  obtain ⟨L, hL, rfl⟩ := (mem_kToShells l S).1 hS
  obtain ⟨h1, h2⟩ := (mem_shellOf l L p).1 hp
  obtain ⟨_, h4⟩ := (mem_shellOf l L q).1 hq
  exact ⟨by rw [h2, h4], by rw [h2]; exact ((mem_shellKeys l L).1 hL).1, h1⟩

/-- T2b (whole shells).  A shell contains EVERY input vector of its length. -/
theorem shell_whole (l : List BV) (S : Shell) (hS : S ∈ kToShells l) (p q : BV) (hp : p ∈ S) (hq : q ∈ l)
    (hlen : norm2 q.2 = norm2 p.2) : q ∈ S := by
  obtain ⟨L, hL, rfl⟩ := (mem_kToShells l S).1 hS
  obtain ⟨_, h2⟩ := (mem_shellOf l L p).1 hp
  exact (mem_shellOf l L q).2 ⟨hq, by rw [hlen, h2]⟩

/-- T2c (partition).  Every input vector of non-zero length lies in exactly one shell. -/
theorem shells_cover_once (l : List BV) (p : BV) (hp : p ∈ l) (h0 : norm2 p.2 ≠ 0) :
    ∃! S, S ∈ kToShells l ∧ p ∈ S := by
  have hk : norm2 p.2 ∈ shellKeys l := (mem_shellKeys l _).2 ⟨h0, p, hp, rfl⟩
  refine ⟨shellOf l (norm2 p.2), ⟨(mem_kToShells l _).2 ⟨_, hk, rfl⟩, (mem_shellOf l _ p).2 ⟨hp, rfl⟩⟩, ?_⟩
  rintro S ⟨hS, hpS⟩
  obtain ⟨L, _, rfl⟩ := (mem_kToShells l S).1 hS
  obtain ⟨_, h2⟩ := (mem_shellOf l L p).1 hpS
  rw [h2]

/-- T2d.  Shells are listed by strictly increasing length. -/
theorem shells_increasing (l : List BV) :
    (kToShells l).Pairwise (fun S T => ∀ p ∈ S, ∀ q ∈ T, norm2 p.2 < norm2 q.2) := by
  rw [kToShells_eq]
  refine List.Pairwise.map _ ?_ (shellKeys_sorted l)
  intro a b hab p hp q hq
  rw [((mem_shellOf l a p).1 hp).2, ((mem_shellOf l b q).1 hq).2]
  exact hab

/-- T2e (closed under b → −b).  Every shell of the search box `±search_supercell·mp_grid` contains `−b` with `b`,
    for every basis and every mesh. -/
theorem box_shells_closed_neg (B : Basis) (N : G3) (s : Nat) (S : Shell) (hS : S ∈ kToShells (boxBV B N s))
    (p : BV) (hp : p ∈ S) : (neg3 p.1, cart B (neg3 p.1)) ∈ S := by
  obtain ⟨_, _, hpl⟩ := shell_equal_length _ S hS p p hp hp
  obtain ⟨hbox, hcart⟩ := (mem_boxBV B N s p).1 hpl
  apply shell_whole _ S hS p _ hp
  · exact (mem_boxBV B N s _).2 ⟨neg_mem_boxList N s _ hbox, rfl⟩
  · show norm2 (cart B (neg3 p.1)) = norm2 p.2
    rw [cart_neg3, norm2_negQ, hcart]

/-! ## weights: `get_shell_weights` -/

/-- T3a.  The completeness array of the RETURNED flat list `Σ_b w_b b_i b_j` is exactly the array `check_eye` the
    code tested — the expansion into per-vector weights loses and adds nothing. -/
theorem expand_completeness (ws : List Rat) (shells : List Shell) (i j : Fin 3) :
    wbb (expand ws shells) i j = checkEye ws shells i j := wbb_expand ws shells i j

/-- T3b (completeness guard).  On every successful return the flat list is the expansion of the given shells and
    `‖Σ_b w_b b bᵀ − 1‖_F ≤ bk_complete_tol`; in particular every entry is within the tolerance of δ_ij. -/
theorem shellWeights_complete (ws : List Rat) (shells : List Shell) (tol : Rat) (r : List WB3)
    (h : shellWeights ws shells tol = some r) :
    r = expand ws shells ∧ frob2 (wbb r) ≤ tol * tol ∧
      ∀ i j, (wbb r i j - delta i j) * (wbb r i j - delta i j) ≤ tol * tol := by
  unfold shellWeights at h
  split at h
  · rename_i hle
    cases h
    have e : wbb (expand ws shells) = checkEye ws shells := by
      funext i j; exact wbb_expand ws shells i j
    have hf : frob2 (wbb (expand ws shells)) ≤ tol * tol := by rw [e]; exact hle
    exact ⟨rfl, hf, fun i j => le_trans (entry_sq_le_frob2 _ i j) hf⟩
  · cases h

/-- T3c.  If the residual is exactly zero, the completeness relation holds exactly. -/
theorem complete_of_frob2_zero (r : List WB3) (h : frob2 (wbb r) ≤ 0) (i j : Fin 3) : wbb r i j = delta i j := by
  have h1 := le_trans (entry_sq_le_frob2 (wbb r) i j) h
  have h2 : (wbb r i j - delta i j) * (wbb r i j - delta i j) = 0 := le_antisymm h1 (mul_self_nonneg _)
  have h3 := mul_self_eq_zero.mp h2
  linarith

/-- T3d (what completeness is for).  With `Σ_b w_b b_i b_j = δ_ij` the finite-difference formula
    `Σ_b w_b b (f(k+b) − f(k))` returns the exact gradient `q` of every linear function `f(k) = q·k`. -/
theorem fd_gradient_exact (r : List WB3) (h : ∀ i j, wbb r i j = delta i j) (q : Q3) (i : Fin 3) :
    (r.map (fun p => p.1 * el p.2.2 i * dot q p.2.2)).sum = el q i := by
  rw [gradient_aux q i r, h i 0, h i 1, h i 2]
  exact delta_contract q i

/-- T3e (one weight per shell, whole shells listed).  Every entry of the flat list carries the weight of the shell
    its vector belongs to; with one weight per shell the listed vectors are exactly the shells, concatenated. -/
theorem expand_whole_shells (ws : List Rat) (shells : List Shell) (hlen : ws.length = shells.length) :
    (expand ws shells).map (fun x => (x.2.1, x.2.2)) = shells.flatten ∧
      ∀ x ∈ expand ws shells, ∃ p ∈ ws.zip shells, x.1 = p.1 ∧ (x.2.1, x.2.2) ∈ p.2 :=
  ⟨expand_vectors ws shells hlen, fun x hx => (mem_expand ws shells x).1 hx⟩

/-! ## the shell search: `find_bk_vectors` -/

/-- T4 (soundness of the search for arbitrary kernels).  Whatever the SVD solve (`kernel`) and the parallel test
    (`par`) answer: if `find_bk_vectors` returns, then
    (a) the result is the expansion of a non-empty sub-list `t` of the shells of the search box, in order of
        increasing length, with the weights the solve produced for exactly that set;
    (b) `‖Σ_b w_b b bᵀ − 1‖_F ≤ bk_complete_tol` for the returned list;
    (c) with every `b` the list contains `−b` with the same weight;
    (d) with every `b` it contains every vector of the search box of the same length, with the same weight. -/
theorem findBk_sound (par : List Shell → Shell → Bool) (kernel : List Shell → Solve) (tol : Rat)
    (B : Basis) (N : G3) (s : Nat) (r : List WB3) (h : findBk par kernel tol B N s = some r) :
    (∃ (t : List Shell) (ws : List Rat), t.Sublist (kToShells (boxBV B N s)) ∧ t ≠ [] ∧
        kernel t = .weights ws ∧ r = expand ws t) ∧
    frob2 (wbb r) ≤ tol * tol ∧
    (∀ x ∈ r, (x.1, neg3 x.2.1, cart B (neg3 x.2.1)) ∈ r) ∧
    (∀ x ∈ r, ∀ m ∈ boxList N s, norm2 (cart B m) = norm2 x.2.2 → (x.1, m, cart B m) ∈ r) := by
  unfold findBk at h
  obtain ⟨t, ws, hsub, hne, hker, hsw⟩ := findLoop_spec par kernel tol _ [] r h
  rw [List.nil_append] at hker hsw
  obtain ⟨hr, hfrob, _⟩ := shellWeights_complete ws t tol r hsw
  have hshell : ∀ x ∈ r, ∃ S ∈ kToShells (boxBV B N s), (x.2.1, x.2.2) ∈ S ∧
      ∀ y : BV, y ∈ S → (x.1, y.1, y.2) ∈ r := by
    intro x hx
    rw [hr] at hx
    obtain ⟨p, hp, hw, hmem⟩ := (mem_expand ws t x).1 hx
    refine ⟨p.2, hsub.subset (List.of_mem_zip hp).2, hmem, ?_⟩
    intro y hy
    rw [hr]
    exact (mem_expand ws t _).2 ⟨p, hp, hw, hy⟩
  refine ⟨⟨t, ws, hsub, hne, hker, hr⟩, hfrob, ?_, ?_⟩
  · intro x hx
    obtain ⟨S, hS, hxS, hall⟩ := hshell x hx
    exact hall _ (box_shells_closed_neg B N s S hS _ hxS)
  · intro x hx m hm hlen
    obtain ⟨S, hS, hxS, hall⟩ := hshell x hx
    exact hall _ (shell_whole _ S hS _ (m, cart B m) hxS ((mem_boxBV B N s _).2 ⟨hm, rfl⟩) hlen)

/-! ## non-vacuity and concrete instances -/

/-- cubic mesh basis, 2×2×2 mesh, search_supercell 1: the first shell is the six nearest neighbours, and the weight
    1/2 (= 1/(2 b²), b = 1) passes the guard exactly -/
example : (kToShells (boxBV ((1, 0, 0), (0, 1, 0), (0, 0, 1)) (1, 1, 1) 1)).head? =
    some [((-1, 0, 0), (-1, 0, 0)), ((0, -1, 0), (0, -1, 0)), ((0, 0, -1), (0, 0, -1)),
          ((0, 0, 1), (0, 0, 1)), ((0, 1, 0), (0, 1, 0)), ((1, 0, 0), (1, 0, 0))] := by decide +kernel

example : (findBk (fun _ _ => false) (fun _ => .weights [1 / 2]) (1 / 100000)
    ((1, 0, 0), (0, 1, 0), (0, 0, 1)) (1, 1, 1) 1).map (fun r => r.map (fun x => (x.1, x.2.1))) =
    some [(1 / 2, (-1, 0, 0)), (1 / 2, (0, -1, 0)), (1 / 2, (0, 0, -1)),
          (1 / 2, (0, 0, 1)), (1 / 2, (0, 1, 0)), (1 / 2, (1, 0, 0))] := by
  decide +kernel

/-- a wrong weight is rejected by the guard ("incomplete shells"), whatever the kernel claims -/
example : shellWeights [1 / 3] [[((1, 0, 0), (1, 0, 0)), ((-1, 0, 0), (-1, 0, 0)), ((0, 1, 0), (0, 1, 0)),
    ((0, -1, 0), (0, -1, 0)), ((0, 0, 1), (0, 0, 1)), ((0, 0, -1), (0, 0, -1))]] (1 / 100000) = none := by
  decide +kernel

/-- neighbours on a shuffled 2×1×2 mesh: k = (1,0,1), b = (1,0,1) → k+b = (2,0,2) = k[2] + (1,0,1)·N -/
example : findNb (2, 1, 2) [(1, 0, 0), (1, 0, 1), (0, 0, 0), (0, 0, 1)] (2, 0, 2) = some (2, (1, 0, 1)) := by
  decide +kernel
example : IsMeshInt (2, 1, 2) [(1, 0, 0), (1, 0, 1), (0, 0, 0), (0, 0, 1)] := by
  intro i j l hi hj hl
  simp only at hi hj hl
  have hi' : i = 0 ∨ i = 1 := by omega
  have hj' : j = 0 := by omega
  have hl' : l = 0 ∨ l = 1 := by omega
  subst hj'
  rcases hi' with rfl | rfl <;> rcases hl' with rfl | rfl <;> simp
/-- an incomplete list does raise: no point congruent to (0,0,1) -/
example : findNb (2, 1, 2) [(1, 0, 0), (1, 0, 1), (0, 0, 0)] (0, 0, 1) = none := by decide +kernel

end WB.C22
