/-
  C02 — property theorems: all Fourier back ends give the same k-space matrices; results are Hermitian.
  (helper lemmas live in WB/Lemmas/C02*.lean)

  Vocabulary: an "entry" is `(R, X_ab(R))` for one matrix element and Cartesian component;
  `placeOnBox N entries` = the FFT box after `AAA_K[iRvec % NKFFT] += AAA_R`;  `explicitSum χ` = `Σ_R χ(R) X(R)`
  (= the `slow_path`/k-list branch with `χ = e^{2πi k·R}`);  `fftPath` / `slowPath` = the fft and slow branches of
  `FFT_R_to_k.__call__` after `apply_expdK`;  `boxChar ζ m R = Π_i ζ_i^{m_i R_i}` = `e^{2πi (m/N)·R}`;
  `derivN I vs x` = the factor applied by `R_to_k(der=n)`.
-/
import WB.Lemmas.C02Herm

namespace WB.C02
open WB.C01

/-! ## T1 — box placement, every box size -/

/-- T1.  For every FFT box (including boxes SMALLER than recommended, where different R vectors collide and are
    added up) and every character that is periodic with the box: `Σ_{c∈box} χ(c)·box(c) = Σ_R χ(R)·X(R)`. -/
theorem box_sum_eq_list_sum {K : Type} [Field K] (N : Mesh) (h1 : 0 < N.1) (h2 : 0 < N.2.1) (h3 : 0 < N.2.2)
    (χ : Vec3 → K) (hper : ∀ R, χ R = χ (vmod R N)) (entries : List (Vec3 × K)) :
    sumK ((gridPoints N).map fun c => χ c * placeOnBox N entries c) = explicitSum χ entries :=
  box_sum N h1 h2 h3 χ hper entries

/-! ## T2 — slow-FT index -/

/-- T2.  `ζ^N = 1 → exponent[(k·R) mod N] = ζ^{k·R}` for all integers `k`, `R` (and the same with `R` reduced mod `N`
    first, as the code does). -/
theorem slow_index {K : Type} [Field K] (ζ : K) (N : Nat) (hN : 0 < N) (h : ζ ^ N = 1) (k R : Int) :
    slowPhase ζ N k R = ζ ^ (k * R) ∧ slowPhase ζ N k (R % (N : Int)) = ζ ^ (k * R) :=
  ⟨slowPhase_eq ζ N hN h k R, slowPhase_reduced ζ N hN h k R⟩

/-! ## T3 — the back ends agree -/

/-- T3a.  (`IDFTContract` = the library's `ifftn·prod(N)` is the inverse-DFT sum `Σ_c χ_m(c) B(c)`.)
    fft branch = explicit sum with the character of `k = m/N + dK`, for every box size. -/
theorem fft_path_eq_explicit {K : Type} [Field K] (N : Mesh) (h1 : 0 < N.1) (h2 : 0 < N.2.1) (h3 : 0 < N.2.2)
    (χ : Vec3 → Vec3 → K) (hper : ∀ m R, χ m R = χ m (vmod R N))
    (Finv : (Vec3 → K) → Vec3 → K) (hF : IDFTContract N χ Finv)
    (χd : Vec3 → K) (entries : List (Vec3 × K)) (m : Vec3) (hm : m ∈ gridPoints N) :
    fftPath Finv N χd entries m = explicitSum (fun R => χ m R * χd R) entries :=
  fftPath_eq N h1 h2 h3 χ hper Finv hF χd entries m hm

/-- `IDFTContract` is satisfied, for every box and every family of characters, by the explicit inverse-DFT sum itself
    (the contract only says that the library evaluates that sum). -/
theorem explicit_idft_satisfies_contract {K : Type} [Field K] (N : Mesh) (χ : Vec3 → Vec3 → K) :
    IDFTContract N χ (fun B m => sumK ((gridPoints N).map fun c => χ m c * B c)) :=
  fun _ _ _ => rfl

/-- T3b.  slow branch = the same explicit sum (roots of unity `ζ_i^{N_i} = 1`). -/
theorem slow_path_eq_explicit {K : Type} [Field K] (ζ : K × K × K) (N : Mesh)
    (h1 : 0 < N.1) (h2 : 0 < N.2.1) (h3 : 0 < N.2.2)
    (z1 : ζ.1 ^ N.1 = 1) (z2 : ζ.2.1 ^ N.2.1 = 1) (z3 : ζ.2.2 ^ N.2.2 = 1)
    (χd : Vec3 → K) (entries : List (Vec3 × K)) (m : Vec3) :
    slowPath ζ N χd entries m = explicitSum (fun R => boxChar ζ m R * χd R) entries :=
  slowPath_eq ζ N h1 h2 h3 z1 z2 z3 χd entries m

/-- T3 (corollary).  fftw ≡ numpy ≡ slow ≡ explicit k-list: with the box characters `boxChar ζ`, any `dK` character
    `χd`, any box size, any R list (collisions or not) and data in any field, all paths return
    `Σ_R χ_k(R) X(R)` with `χ_k = χ_{m/N} · χ_{dK}` — which is what the k-list branch computes directly. -/
theorem backends_agree {K : Type} [Field K] (ζ : K × K × K) (N : Mesh)
    (h1 : 0 < N.1) (h2 : 0 < N.2.1) (h3 : 0 < N.2.2)
    (z1 : ζ.1 ^ N.1 = 1) (z2 : ζ.2.1 ^ N.2.1 = 1) (z3 : ζ.2.2 ^ N.2.2 = 1)
    (Finv : (Vec3 → K) → Vec3 → K) (hF : IDFTContract N (boxChar ζ) Finv)
    (χd : Vec3 → K) (entries : List (Vec3 × K)) (m : Vec3) (hm : m ∈ gridPoints N) :
    fftPath Finv N χd entries m = slowPath ζ N χd entries m ∧
    slowPath ζ N χd entries m = explicitSum (fun R => boxChar ζ m R * χd R) entries := by
  refine ⟨?_, slowPath_eq ζ N h1 h2 h3 z1 z2 z3 χd entries m⟩
  rw [slowPath_eq ζ N h1 h2 h3 z1 z2 z3 χd entries m]
  exact fft_path_eq_explicit N h1 h2 h3 (boxChar ζ) (boxChar_periodic ζ N h1 h2 h3 z1 z2 z3) Finv hF χd entries m hm

/-! ## T3' — no hidden state: `R_to_k` depends on the CURRENT configuration only -/

/-- For every history of `set_fft_R_to_k` calls on one `Rvectors` object (grids with any `NK`, `fftlib`, `dK`, and
    k-lists, in any order), the result of `R_to_k(apply_expdK(X))` after the last call is what that last configuration
    alone prescribes — nothing of the earlier calls survives (in particular not the `exp(2πi dK·R)` factors of an
    earlier `dK`, although the k-list branch leaves the stale `self.expdK` in place). -/
theorem rtok_depends_on_current_config {K : Type} [Field K]
    (Finv : Mesh → (Vec3 → K) → Vec3 → K) (ζ : Mesh → K × K × K)
    (hist : List (Cfg K)) (c : Cfg K) (entries : List (Vec3 × K)) :
    rToK Finv ζ (runCfgs (hist ++ [c])) entries = rToKcfg Finv ζ c entries := by
  unfold runCfgs
  rw [List.foldl_append]
  cases c with
  | grid N lib χd => cases lib <;> rfl
  | klist χs => rfl

/-- … and therefore, after ANY history, a grid configuration `(N, fftlib, dK)` returns at every grid point `m` the
    explicit sum `Σ_R χ_{m/N}(R)·χ_{dK}(R)·X(R)` of the current `dK` (both branches; fft branch under the contract), and
    a k-list configuration returns the explicit sums of its own k-points. -/
theorem rtok_after_any_history {K : Type} [Field K]
    (Finv : Mesh → (Vec3 → K) → Vec3 → K) (ζ : Mesh → K × K × K) (hist : List (Cfg K)) (entries : List (Vec3 × K))
    (N : Mesh) (h1 : 0 < N.1) (h2 : 0 < N.2.1) (h3 : 0 < N.2.2)
    (z1 : (ζ N).1 ^ N.1 = 1) (z2 : (ζ N).2.1 ^ N.2.1 = 1) (z3 : (ζ N).2.2 ^ N.2.2 = 1)
    (hF : IDFTContract N (boxChar (ζ N)) (Finv N)) (lib : Lib) (χd : Vec3 → K) (χs : List (Vec3 → K)) :
    rToK Finv ζ (runCfgs (hist ++ [Cfg.grid N lib χd])) entries
        = (gridPoints N).map (fun m => explicitSum (fun R => boxChar (ζ N) m R * χd R) entries) ∧
    rToK Finv ζ (runCfgs (hist ++ [Cfg.klist χs])) entries = χs.map fun χ => explicitSum χ entries := by
  constructor
  · rw [rtok_depends_on_current_config]
    cases lib
    · apply List.map_congr_left
      intro m hm
      exact fftPath_eq N h1 h2 h3 (boxChar (ζ N)) (boxChar_periodic (ζ N) N h1 h2 h3 z1 z2 z3) (Finv N) hF χd entries m hm
    · apply List.map_congr_left
      intro m _
      exact slowPath_eq (ζ N) N h1 h2 h3 z1 z2 z3 χd entries m
  · rw [rtok_depends_on_current_config]
    rfl

/-! ## T4 — Hermiticity -/

/-- T4a.  If `X(-R) = X(R)†` then so does the real-space matrix after `n` applications of `derivative`, for every
    order `n` and every choice of Cartesian components, whenever the factors are real and odd under
    `(R,a,b) ↦ (-R,b,a)`; `I` is any element with `conj I = -I`. -/
theorem deriv_hermitian {K : Type} [Field K] [StarRing K] (I : K) (hI : star I = -I)
    (vs : List (Vec3 → Nat → Nat → K)) (hvs : ∀ v ∈ vs, RealOdd v)
    (X : Vec3 → Nat → Nat → K) (hX : HermR X) :
    HermR (fun R a b => derivN I (vs.map fun v => v R a b) (X R a b)) :=
  derivN_hermitian I hI vs hvs X hX

/-- T4b.  The factor the code uses, `cRvec_shifted = (R + t_b − t_a)·L`, is real and odd — for every lattice and
    every set of centres. -/
theorem code_factor_real_odd {K : Type} [Field K] [StarRing K] (L : List (List Rat)) (cs : List QVec3) (α : Nat) :
    RealOdd (fun R a b => ((cRshift L cs R a b α : Rat) : K)) :=
  cRshift_realOdd L cs α

/-- T4c.  Hence the k-space Hamiltonian and every Cartesian component of its 1st, 2nd, 3rd, … derivative are Hermitian
    matrices: for Hermitian real-space data on an inversion-symmetric duplicate-free R list, every lattice, centres,
    components `αs`, and every character with `conj χ(R) = χ(−R)` (all `e^{2πi k·R}`),
    `H_{ba} = conj H_{ab}` where `H_{ab} = Σ_R χ(R) · i^n Π_α (R+t_b−t_a)_α · X_{ab}(R)`. -/
theorem kspace_derivatives_hermitian {K : Type} [Field K] [StarRing K] (I : K) (hI : star I = -I)
    (L : List (List Rat)) (cs : List QVec3) (αs : List Nat)
    (iRvec : List Vec3) (hsym : (iRvec.map vneg).Perm iRvec)
    (χ : Vec3 → K) (hχ : ∀ R, star (χ R) = χ (vneg R))
    (X : Vec3 → Nat → Nat → K) (hX : HermR X) (a b : Nat) :
    let Y : Vec3 → Nat → Nat → K := fun R a b =>
      derivN I (αs.map fun α => ((cRshift L cs R a b α : Rat) : K)) (X R a b)
    explicitSum χ (iRvec.map fun R => (R, Y R b a)) = star (explicitSum χ (iRvec.map fun R => (R, Y R a b))) := by
  intro Y
  have hY : HermR Y := by
    have := derivN_hermitian I hI (αs.map fun α => fun R a b => ((cRshift L cs R a b α : Rat) : K))
      (by
        intro v hv
        obtain ⟨α, -, rfl⟩ := List.mem_map.mp hv
        exact cRshift_realOdd L cs α) X hX
    intro R a b
    have h := this R a b
    simp only [List.map_map] at h
    exact h
  exact ksum_hermitian iRvec hsym χ hχ Y hY a b

/-- T4d.  `hermitian=True` (`0.5·(A + A†)`) returns a Hermitian matrix, leaves a Hermitian matrix unchanged, and is
    therefore idempotent (characteristic ≠ 2). -/
theorem hermitize_props {K : Type} [Field K] [StarRing K] (h2 : (2 : K) ≠ 0) (A : Nat → Nat → K) :
    (∀ a b, hermitize ((2 : K)⁻¹) star A b a = star (hermitize ((2 : K)⁻¹) star A a b)) ∧
    ((∀ a b, A b a = star (A a b)) → ∀ a b, hermitize ((2 : K)⁻¹) star A a b = A a b) ∧
    (∀ a b, hermitize ((2 : K)⁻¹) star (hermitize ((2 : K)⁻¹) star A) a b = hermitize ((2 : K)⁻¹) star A a b) := by
  refine ⟨hermitize_hermitian A, hermitize_fix h2 A, ?_⟩
  exact hermitize_fix h2 _ (fun a b => hermitize_hermitian A a b)

/-! ## T4' — the `hermitian` / `antihermitean` option and the k layout -/

/-- The option acts on the two band indices at fixed k WHATEVER the layout of the k index: for every re-indexing `φ` of the
    k-points (flattening `(k1,k2,k3) ↦ k`, `reshapeKline=False`, a k list) hermitising the re-laid-out array is the
    re-laid-out hermitised array. -/
theorem hermK_layout_independent {K : Type} [Field K] {ι ι' : Type} (half : K) (conj : K → K) (sign : K)
    (H : ι → Nat → Nat → K) (φ : ι' → ι) (k' : ι') (a b : Nat) :
    hermK half conj sign (fun k => H (φ k)) k' a b = hermK half conj sign H (φ k') a b := rfl

/-- `hermitian=True` is a no-op on a matrix that is Hermitian at every k (characteristic ≠ 2), in every layout;
    `antihermitean=True` then returns 0. -/
theorem hermK_noop_on_hermitian {K : Type} [Field K] [StarRing K] (h2 : (2 : K) ≠ 0) {ι : Type}
    (H : ι → Nat → Nat → K) (hH : ∀ k a b, H k b a = star (H k a b)) (k : ι) (a b : Nat) :
    hermK ((2 : K)⁻¹) star 1 H k a b = H k a b ∧ hermK ((2 : K)⁻¹) star (-1) H k a b = 0 := by
  unfold hermK
  rw [hH k a b, star_star]
  constructor
  · field_simp; ring
  · ring

/-- Exchanging GRID axes instead (what `swapaxes(1,2)` does to an array still in the `(N1,N2,N3,m,n)` layout) is a different
    operation: one band, grid (1,2,2), real `H(k) = 1, 2, 3, 4` (Hermitian at every k): the correct option returns `H`,
    the grid swap averages `H(0,0,1)` with `H(0,1,0)`. -/
theorem swapping_grid_axes_differs :
    let H : Vec3 → Nat → Nat → Rat := fun m _ _ => 1 + m.2.1 * 2 + m.2.2
    let pts : List Vec3 := [(0, 0, 0), (0, 0, 1), (0, 1, 0), (0, 1, 1)]
    pts.map (fun m => hermK (1 / 2) id 1 H m 0 0) = [1, 2, 3, 4] ∧
    pts.map (fun m => hermSwapGrid (1 / 2) id H m 0 0) = [1, 5 / 2, 5 / 2, 4] := by
  intro H pts
  constructor <;> norm_num [H, pts, hermK, hermSwapGrid]

/-! ## T5 — `Data_K_R._rotate` / `Xbar` glue -/

/-- T5.  `_rotate` (`U†XU` per k-point, applied to every Cartesian component separately) maps a Hermitian matrix to a
    Hermitian matrix for ANY `U` (the eigenvector matrix of `eigh`, unitary or not, any gauge) and any size. -/
theorem rotate_preserves_hermiticity {K : Type} [Field K] [StarRing K] (n : Nat) (U X : Nat → Nat → K)
    (hX : ∀ b c, X c b = star (X b c)) (a d : Nat) :
    rotate n star U X d a = star (rotate n star U X a d) :=
  rotate_hermitian n U X hX a d

/-- T5 (corollary: `Xbar(name, der)`).  For Hermitian real-space data on an inversion-symmetric R list, every Cartesian
    component of every derivative order of the k-space matrix stays Hermitian after the rotation to the Hamiltonian
    gauge — the statement `kspace_derivatives_hermitian` survives `_rotate`. -/
theorem xbar_hermitian {K : Type} [Field K] [StarRing K] (I : K) (hI : star I = -I)
    (L : List (List Rat)) (cs : List QVec3) (αs : List Nat)
    (iRvec : List Vec3) (hsym : (iRvec.map vneg).Perm iRvec)
    (χ : Vec3 → K) (hχ : ∀ R, star (χ R) = χ (vneg R))
    (X : Vec3 → Nat → Nat → K) (hX : HermR X) (n : Nat) (U : Nat → Nat → K) (a d : Nat) :
    let Y : Vec3 → Nat → Nat → K := fun R a b =>
      derivN I (αs.map fun α => ((cRshift L cs R a b α : Rat) : K)) (X R a b)
    let H : Nat → Nat → K := fun a b => explicitSum χ (iRvec.map fun R => (R, Y R a b))
    rotate n star U H d a = star (rotate n star U H a d) := by
  intro Y H
  apply rotate_hermitian
  intro b c
  exact kspace_derivatives_hermitian I hI L cs αs iRvec hsym χ hχ X hX b c

/-! ## non-vacuity -/

/-- a box smaller than the R set: R = 0, 2, −2, 1 on the box (2,1,1) collide pairwise; contents are added -/
example :
    (gridPoints (2, 1, 1)).map (placeOnBox (K := Rat) (2, 1, 1) [((0, 0, 0), 1), ((2, 0, 0), 10), ((-2, 0, 0), 100), ((1, 0, 0), 1000)])
      = [111, 1000] := by decide +kernel

/-- the hypotheses of `backends_agree` are satisfiable with a non-trivial root of unity: `ζ = (-1, 1, 1)` on the box
    (2,1,1) over ℚ, with the explicit inverse DFT as the library -/
example :
    let ζ : ℚ × ℚ × ℚ := (-1, 1, 1)
    let N : Mesh := (2, 1, 1)
    ζ.1 ^ N.1 = 1 ∧ ζ.2.1 ^ N.2.1 = 1 ∧ ζ.2.2 ^ N.2.2 = 1 ∧
      IDFTContract N (boxChar ζ) (fun B m => sumK ((gridPoints N).map fun c => boxChar ζ m c * B c)) := by
  refine ⟨by norm_num, by norm_num, by norm_num, ?_⟩
  intro B m _
  rfl

/-- the slow-FT index on a concrete case: ζ = −1, N = 2, k = 3, R = −5: (k·R) mod 2 = 1 -/
example : slowPhase (-1 : ℚ) 2 3 (-5) = -1 := by decide +kernel

end WB.C02
