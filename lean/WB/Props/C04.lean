/-
  C04 — periodicity in k and gauge independence: property theorems.

  T1  periodicity: the k-point bookkeeping (`% 1`, `k_to_1BZ`) and the Fourier phase `exp(2πi k·R)` are unchanged by
      k → k+G for integer G; likewise any N-th root of unity on an N-point FFT grid.  Everything evaluated at k is a
      function of these phases (H(k), every Xbar), hence periodic.
  T2  `tr(U†XU) = tr X`, and products `A_nl B_ln` of covariant blocks are covariant, for unitary inner/outer rotations.
  T3  the generalised derivative `Matrix_GenDer_ln` (nn and ln blocks) is covariant; `D_H` is covariant under any
      unitary that mixes only states of exactly equal energy; the complete `Omega.nn` (internal AND external terms)
      is covariant and its trace gauge invariant.
  T4  ONE soundness theorem for the expression syntax `CExpr` of Model/C04.lean (sums, products over the inner/outer
      set, Hermitian conjugates, scalar and energy-dependent element-wise factors, generalised derivatives) and the
      formula classes as structure terms: Omega, DerOmega, Der2Omega, Morb_H, Morb_Hpm, DerMorb_H, DerMorb, Der2Morb_H,
      Der2Morb, InvMass, Der3E, Spin, DerSpin, Der2Spin (= Der2A/B/O/H), DerDcov, Der2Dcov, products.
  Still oracle-only: SpinVelocity/SpinOmega, the `*_test`/FormulaSymmetric classes, SDCT, eigh, near-degenerate groups.
-/
import WB.Lemmas.C04Gauge
import WB.Lemmas.C04Expr
import WB.Props.C15
import Mathlib.Algebra.Order.Floor.Ring
import Mathlib.Data.Rat.Floor
import Mathlib.Analysis.SpecialFunctions.Trigonometric.Basic

namespace WB.C04
open Matrix

/-! ## T1: periodicity -/

theorem mod1_eq_fract (x : ℚ) : mod1 x = Int.fract x := rfl

/-- `(k + G) % 1 = k % 1` for every integer `G` -/
theorem mod1_periodic (x : ℚ) (G : ℤ) : mod1 (x + G) = mod1 x := by
  rw [mod1_eq_fract, mod1_eq_fract, Int.fract_add_intCast]

theorem mod1_range (x : ℚ) : 0 ≤ mod1 x ∧ mod1 x < 1 := by
  rw [mod1_eq_fract]; exact ⟨Int.fract_nonneg x, Int.fract_lt_one x⟩

/-- `Data_K.kpoints_all` reports the same point for `dK` and `dK + G` -/
theorem kpointAll_periodic (p dK : ℚ) (G : ℤ) : kpointAll p (dK + G) = kpointAll p dK := by
  unfold kpointAll; rw [← add_assoc, mod1_periodic]

/-- `SystemKP.k_to_1BZ` maps `k` and `k + G` to the same point of `[-1/2, 1/2)` -/
theorem kTo1BZ_periodic (k : ℚ) (G : ℤ) : kTo1BZ (k + G) = kTo1BZ k := by
  unfold kTo1BZ; rw [add_right_comm, mod1_periodic]

theorem kTo1BZ_range (k : ℚ) : -(1/2) ≤ kTo1BZ k ∧ kTo1BZ k < 1/2 := by
  unfold kTo1BZ
  obtain ⟨h1, h2⟩ := mod1_range (k + 1/2)
  constructor <;> linarith

/-- `k_to_1BZ` only shifts by an integer (so a periodic Hamiltonian is evaluated at an equivalent point) -/
theorem kTo1BZ_shift (k : ℚ) : ∃ G : ℤ, kTo1BZ k = k - G :=
  ⟨⌊k + 1/2⌋, by unfold kTo1BZ; rw [mod1_eq_fract, Int.fract]; ring⟩

/-- **T1.**  The Fourier phase of every lattice vector is unchanged by a reciprocal lattice vector:
    `exp(2πi (k+G)·R) = exp(2πi k·R)` for integer `G`, `R` (reduced coordinates). -/
theorem phase_periodic (k : Fin 3 → ℝ) (G R : Fin 3 → ℤ) :
    Complex.exp (2 * Real.pi * Complex.I * ∑ i, ((k i : ℂ) + (G i : ℂ)) * (R i : ℂ))
      = Complex.exp (2 * Real.pi * Complex.I * ∑ i, (k i : ℂ) * (R i : ℂ)) := by
  have h : (2 * Real.pi * Complex.I * ∑ i, ((k i : ℂ) + (G i : ℂ)) * (R i : ℂ))
      = (2 * Real.pi * Complex.I * ∑ i, (k i : ℂ) * (R i : ℂ))
        + ((∑ i, G i * R i : ℤ) : ℂ) * (2 * Real.pi * Complex.I) := by
    push_cast
    simp only [add_mul, Finset.sum_add_distrib]
    ring
  rw [h, Complex.exp_add, Complex.exp_int_mul_two_pi_mul_I, mul_one]

/-- the same on an `N`-point FFT grid, for any field: with `ζ^N = 1`, the phase `ζ^(m·r)` of grid point `m` and
    lattice vector `r` is unchanged by `m → m + N t` -/
theorem root_of_unity_periodic {K : Type} [Field K] (ζ : K) (N : ℕ) (hζ : ζ ^ N = 1) (m t r : ℤ) (h0 : ζ ≠ 0) :
    ζ ^ ((m + N * t) * r) = ζ ^ (m * r) := by
  have : (m + N * t) * r = m * r + (N : ℤ) * (t * r) := by ring
  have h1 : ζ ^ ((N : ℤ) * (t * r)) = 1 := by rw [zpow_mul, zpow_natCast, hζ, one_zpow]
  rw [this, zpow_add₀ h0, h1, mul_one]

/-- a Fourier sum built from phases that agree on every lattice vector of the model is the same sum
    (`H(k+G) = H(k)`, and likewise every `Xbar`, every comma derivative) -/
theorem fourier_sum_periodic {K : Type} [Field K] (Rs : List (Fin 3 → ℤ)) (X : (Fin 3 → ℤ) → K)
    (ph ph' : (Fin 3 → ℤ) → K) (h : ∀ R ∈ Rs, ph' R = ph R) :
    (Rs.map fun R => ph' R * X R).sum = (Rs.map fun R => ph R * X R).sum := by
  congr 1
  apply List.map_congr_left
  intro R hR; rw [h R hR]

section gauge
variable {K : Type} [Field K] [StarRing K] {n l : ℕ}

/-! ## T2: traces and products -/

/-- **T2a.** `Formula_ln.trace` of a covariant inner block is invariant under a unitary rotation of the inner states -/
theorem trace_gauge_invariant (U X : Matrix (Fin n) (Fin n) K) (hU : U * Uᴴ = 1) :
    (Uᴴ * X * U).trace = X.trace := trace_cj U X hU

/-- **T2b.** products `A_nl B_ln` (inner `n`, outer `l`) transform with the inner rotation only: the outer unitary
    `W` cancels -/
theorem product_nl_ln_covariant (U : Matrix (Fin n) (Fin n) K) (W : Matrix (Fin l) (Fin l) K) (hW : W * Wᴴ = 1)
    (A : Matrix (Fin n) (Fin l) K) (B : Matrix (Fin l) (Fin n) K) :
    (Uᴴ * A * W) * (Wᴴ * B * U) = Uᴴ * (A * B) * U := cj_mul U W U hW A B

/-- the model of `Data_K._rotate` followed by a trace: invariant under any unitary `U` (given as index function) -/
theorem rotate_trace_invariant (m : ℕ) (U X : ℕ → ℕ → K)
    (hU : (Matrix.of fun i j : Fin m => U i j) * (Matrix.of fun i j : Fin m => U i j)ᴴ = 1) :
    traceM m (rotate star m U X) = traceM m X := by
  rw [traceM_eq, traceM_eq]
  have : (Matrix.of fun i j : Fin m => rotate star m U X i j)
      = (Matrix.of fun i j : Fin m => U i j)ᴴ * (Matrix.of fun i j : Fin m => X i j)
        * (Matrix.of fun i j : Fin m => U i j) := by
    ext a d; exact rotate_eq m U X a d
  rw [this]
  exact trace_cj _ _ hU


/-! ## T2c: products of any number of factors (`FormulaProduct`) -/

/-- **T2c.**  `FormulaProduct.nn` — the chain `M₀·M₁·…·M_r` of covariant inner blocks — is covariant for ANY number
    of factors, … -/
theorem product_chain_covariant (U : Matrix (Fin n) (Fin n) K) (hU : U * Uᴴ = 1)
    (M0 : Matrix (Fin n) (Fin n) K) (rest : List (Matrix (Fin n) (Fin n) K)) :
    productChain (Uᴴ * M0 * U) (rest.map fun X => Uᴴ * X * U) = Uᴴ * productChain M0 rest * U :=
  productChain_cj U hU M0 rest

/-- … hence its trace (what every calculator built on a product formula integrates or tabulates:
    `v·v·v`, `v·∂v·v`, `∂v·Ω·v`, …) does not depend on the gauge inside the band group. -/
theorem product_trace_gauge_invariant (U : Matrix (Fin n) (Fin n) K) (hU : U * Uᴴ = 1)
    (M0 : Matrix (Fin n) (Fin n) K) (rest : List (Matrix (Fin n) (Fin n) K)) :
    (productChain (Uᴴ * M0 * U) (rest.map fun X => Uᴴ * X * U)).trace = (productChain M0 rest).trace := by
  rw [product_chain_covariant U hU]; exact trace_cj U _ hU

/-- the same for `List.prod` (empty product included): `tr(Π U†XᵢU) = tr(Π Xᵢ)` -/
theorem list_prod_trace_gauge_invariant (U : Matrix (Fin n) (Fin n) K) (hU : U * Uᴴ = 1)
    (Xs : List (Matrix (Fin n) (Fin n) K)) :
    ((Xs.map fun X => Uᴴ * X * U).prod).trace = Xs.prod.trace := by
  cases Xs with
  | nil => simp
  | cons X Xs =>
    have h : ∀ (Y : Matrix (Fin n) (Fin n) K) (Ys : List (Matrix (Fin n) (Fin n) K)),
        (Y :: Ys).prod = productChain Y Ys := by
      intro Y Ys
      unfold productChain
      rw [List.prod_eq_foldl, List.foldl_cons, one_mul]
    rw [List.map_cons, h, h]
    exact product_trace_gauge_invariant U hU X Xs

/-- the optional Hermitian completion of `FormulaProduct.nn` (`0.5 (res + res†)`) keeps covariance -/
theorem hermitize_covariant (half : K) (U : Matrix (Fin n) (Fin n) K) (X : Matrix (Fin n) (Fin n) K) :
    half • (cj U U X + (cj U U X)ᴴ) = cj U U (half • (X + Xᴴ)) := by
  rw [cj_conjTranspose, ← cj_add, ← cj_smul]

/-- T2c on the executable model: the trace of the model's chain (`chainM`, as run by the driver against the real
    `FormulaProduct.trace`) is unchanged when every factor is rotated by the model of `Data_K._rotate` -/
theorem chainM_trace_gauge_invariant (m : ℕ) (U : ℕ → ℕ → K) (hU : toM m U * (toM m U)ᴴ = 1)
    (M0 : ℕ → ℕ → K) (rest : List (ℕ → ℕ → K)) :
    traceM m (chainM m (rotate star m U M0) (rest.map (rotate star m U))) = traceM m (chainM m M0 rest) := by
  have e1 : ∀ X : ℕ → ℕ → K, traceM m X = (toM m X).trace := fun X => traceM_eq m X
  rw [e1, e1, toM_chainM, toM_chainM, toM_rotate, List.map_map]
  have : (rest.map (toM m ∘ rotate star m U)) = (rest.map (toM m)).map (cj (toM m U) (toM m U)) := by
    rw [List.map_map]; apply List.map_congr_left; intro X _; exact toM_rotate m U X
  rw [this, productChain_cj _ hU]
  exact trace_cj _ _ hU


/-! ## T4: every formula class at once — covariant expressions

  `CExpr` (Model/C04.lean) is the syntax of everything the formula classes do with blocks of Hamiltonian-gauge
  matrices: sums, products over the inner or the outer set, Hermitian conjugates, scalar factors, element-wise
  factors depending on the two band energies (`dEig_inv`, `E_out`, `(E_m+E_n)/2`), generalised derivatives (a
  derived form).  One soundness theorem covers them all; the classes are structure terms, and the SAME terms are run
  by the driver against the real classes (harness corr `fx`). -/

/-- **T4 (soundness).**  For a gauge change (one unitary per index set, mixing only states of exactly equal energy;
    inner and outer unitaries independent) under which every atom block `Xbar(name,der)[r,c]` goes to `U_r† X U_c`,
    every expression goes to `U_r† (value) U_c`. -/
theorem formula_expr_covariant (env : BEnv K) (g : Gauge env)
    (blk' : String → ℕ → List ℕ → Side → Side → ℕ → ℕ → K)
    (hatom : ∀ name der cs r c, toMat (env.dim r) (env.dim c) (blk' name der cs r c)
      = cj (g.U r) (g.U c) (toMat (env.dim r) (env.dim c) (env.blk name der cs r c)))
    {r c : Side} (e : CExpr K r c) :
    toMat (env.dim r) (env.dim c) (e.eval star { env with blk := blk' })
      = (g.U r)ᴴ * toMat (env.dim r) (env.dim c) (e.eval star env) * g.U c :=
  covariant_sound env g blk' hatom e

/-- **T4 (traces).**  The trace over the inner set of every diagonal-block expression is gauge invariant; so are its
    real and imaginary parts (`Formula_ln.trace` takes `.real`, `SpinOmega` takes `.imag`). -/
theorem formula_expr_trace_invariant (env : BEnv K) (g : Gauge env)
    (blk' : String → ℕ → List ℕ → Side → Side → ℕ → ℕ → K)
    (hatom : ∀ name der cs r c, toMat (env.dim r) (env.dim c) (blk' name der cs r c)
      = cj (g.U r) (g.U c) (toMat (env.dim r) (env.dim c) (env.blk name der cs r c)))
    {r : Side} (e : CExpr K r r) :
    traceM (env.dim r) (e.eval star { env with blk := blk' }) = traceM (env.dim r) (e.eval star env)
    ∧ traceM (env.dim r) (e.eval star { env with blk := blk' }) + star (traceM (env.dim r) (e.eval star { env with blk := blk' }))
        = traceM (env.dim r) (e.eval star env) + star (traceM (env.dim r) (e.eval star env))
    ∧ traceM (env.dim r) (e.eval star { env with blk := blk' }) - star (traceM (env.dim r) (e.eval star { env with blk := blk' }))
        = traceM (env.dim r) (e.eval star env) - star (traceM (env.dim r) (e.eval star env)) := by
  have h := trace_sound env g blk' hatom e
  exact ⟨h, by rw [h], by rw [h]⟩

section classes
variable (env : BEnv K) (g : Gauge env) (blk' : String → ℕ → List ℕ → Side → Side → ℕ → ℕ → K)
  (hatom : ∀ name der cs r c, toMat (env.dim r) (env.dim c) (blk' name der cs r c)
    = cj (g.U r) (g.U c) (toMat (env.dim r) (env.dim c) (env.blk name der cs r c)))
  (I half sgn : K) (dei : K → K → K) (int ext : Bool) (oo : String) (cs : List ℕ) (r : Side)
include hatom

/-- `Omega` (internal and external terms, any `key_OO`) -/
theorem Omega_trace_gauge_invariant :
    traceM (env.dim r) ((omegaE I half dei int ext oo cs r).eval star { env with blk := blk' })
      = traceM (env.dim r) ((omegaE I half dei int ext oo cs r).eval star env) := trace_sound env g blk' hatom _

/-- `DerOmega` -/
theorem DerOmega_trace_gauge_invariant :
    traceM (env.dim r) ((derOmegaE I half dei int ext oo cs r).eval star { env with blk := blk' })
      = traceM (env.dim r) ((derOmegaE I half dei int ext oo cs r).eval star env) := trace_sound env g blk' hatom _

/-- `Morb_H` (BB, CC terms and the energy-weighted products) -/
theorem Morb_H_trace_gauge_invariant :
    traceM (env.dim r) ((morbHE I half dei int ext cs r).eval star { env with blk := blk' })
      = traceM (env.dim r) ((morbHE I half dei int ext cs r).eval star env) := trace_sound env g blk' hatom _

/-- `Morb_Hpm` / `morb` (`Morb_H ± (E_m+E_n)/2 · Omega`) -/
theorem Morb_Hpm_trace_gauge_invariant :
    traceM (env.dim r) ((morbHpmE I half sgn dei int ext oo cs r).eval star { env with blk := blk' })
      = traceM (env.dim r) ((morbHpmE I half sgn dei int ext oo cs r).eval star env) := trace_sound env g blk' hatom _

/-- `DerMorb_H` -/
theorem DerMorb_H_trace_gauge_invariant :
    traceM (env.dim r) ((derMorbHE I half dei int ext cs r).eval star { env with blk := blk' })
      = traceM (env.dim r) ((derMorbHE I half dei int ext cs r).eval star env) := trace_sound env g blk' hatom _

/-- `DerMorb` / `Dermorb` -/
theorem DerMorb_trace_gauge_invariant :
    traceM (env.dim r) ((derMorbE I half sgn dei int ext oo cs r).eval star { env with blk := blk' })
      = traceM (env.dim r) ((derMorbE I half sgn dei int ext oo cs r).eval star env) := trace_sound env g blk' hatom _

/-- `InvMass` (second derivative of the band energy) -/
theorem InvMass_trace_gauge_invariant :
    traceM (env.dim r) ((invMass dei cs r r).eval star { env with blk := blk' })
      = traceM (env.dim r) ((invMass dei cs r r).eval star env) := trace_sound env g blk' hatom _

/-- `Der3E` -/
theorem Der3E_trace_gauge_invariant :
    traceM (env.dim r) ((der3E dei cs r).eval star { env with blk := blk' })
      = traceM (env.dim r) ((der3E dei cs r).eval star env) := trace_sound env g blk' hatom _

/-- `Spin`, and any `Matrix_ln(Xbar(name, der))` (`Velocity` on the diagonal blocks) -/
theorem Matrix_ln_trace_gauge_invariant (name : String) (der : ℕ) :
    traceM (env.dim r) ((Xm name der cs r r).eval star { env with blk := blk' })
      = traceM (env.dim r) ((Xm name der cs r r).eval star env) := trace_sound env g blk' hatom _

/-- `DerSpin` and every `data_K.covariant(name, gender=1)` (`Matrix_GenDer_ln`) -/
theorem GenDer_trace_gauge_invariant (name : String) :
    traceM (env.dim r) ((covGender dei name cs r r).eval star { env with blk := blk' })
      = traceM (env.dim r) ((covGender dei name cs r r).eval star env) := trace_sound env g blk' hatom _

/-- `Der2Spin` (and `Der2A`, `Der2B`, `Der2O`, `Der2H`, which have the same body) -/
theorem Der2X_trace_gauge_invariant (name : String) :
    traceM (env.dim r) ((der2X dei name cs r r).eval star { env with blk := blk' })
      = traceM (env.dim r) ((der2X dei name cs r r).eval star env) := trace_sound env g blk' hatom _

/-- `Der2Omega` -/
theorem Der2Omega_trace_gauge_invariant :
    traceM (env.dim r) ((der2OmegaE I half dei int ext cs r).eval star { env with blk := blk' })
      = traceM (env.dim r) ((der2OmegaE I half dei int ext cs r).eval star env) := trace_sound env g blk' hatom _

/-- `Der2Morb_H` -/
theorem Der2Morb_H_trace_gauge_invariant :
    traceM (env.dim r) ((der2MorbHE I half dei int ext cs r).eval star { env with blk := blk' })
      = traceM (env.dim r) ((der2MorbHE I half dei int ext cs r).eval star env) := trace_sound env g blk' hatom _

/-- `Der2Morb` / `Der2morb` -/
theorem Der2Morb_trace_gauge_invariant :
    traceM (env.dim r) ((der2MorbE I half sgn dei int ext oo cs r).eval star { env with blk := blk' })
      = traceM (env.dim r) ((der2MorbE I half sgn dei int ext oo cs r).eval star env) := trace_sound env g blk' hatom _

/-- `DerDcov` and `Der2Dcov` (off-diagonal blocks) are covariant -/
theorem DerDcov_Der2Dcov_covariant (c' : Side) :
    toMat (env.dim r) (env.dim c') ((derDcov dei cs r c').eval star { env with blk := blk' })
        = (g.U r)ᴴ * toMat (env.dim r) (env.dim c') ((derDcov dei cs r c').eval star env) * g.U c'
    ∧ toMat (env.dim r) (env.dim c') ((der2Dcov dei cs r c').eval star { env with blk := blk' })
        = (g.U r)ᴴ * toMat (env.dim r) (env.dim c') ((der2Dcov dei cs r c').eval star env) * g.U c' :=
  ⟨covariant_sound env g blk' hatom _, covariant_sound env g blk' hatom _⟩

/-- products of any number of diagonal-block formulas (`FormulaProduct`: `VelVelVel`, `VelMassVel`, `VelOmega`, …) -/
theorem Product_trace_gauge_invariant (x : CExpr K r r) (rest : List (CExpr K r r)) :
    traceM (env.dim r) ((prodE x rest).eval star { env with blk := blk' })
      = traceM (env.dim r) ((prodE x rest).eval star env) := trace_sound env g blk' hatom _

end classes

/-- the gauge structure is inhabited in a non-trivial way: the identity on one set and a 90° rotation inside a
    degenerate doublet on the other (both energies equal) -/
example : ∃ (env : BEnv ℂ) (g : Gauge env), g.U .inn ≠ 1 := by
  let env : BEnv ℂ := ⟨fun s => match s with | .inn => 2 | .out => 1, fun _ _ _ _ _ _ _ => 0, fun _ _ => 0⟩
  refine ⟨env, ⟨fun s => match s with | .inn => !![0, 1; -1, 0] | .out => 1, ?_, ?_⟩, ?_⟩
  · intro s; cases s
    · ext i j; fin_cases i <;> fin_cases j <;> simp [Matrix.mul_apply, Fin.sum_univ_two]
    · simp
  · intro s i j _; rfl
  · intro h
    have := congrFun (congrFun h 0) 0
    simp at this

/-! ## T3: generalised derivative, D_H, Omega -/

/-- `Matrix_GenDer_ln.nn = dA.nn - D.nl·A.ln + A.nl·D.ln` -/
def genDerNN (dAnn : Matrix (Fin n) (Fin n) K) (Dnl Anl : Matrix (Fin n) (Fin l) K)
    (Dln Aln : Matrix (Fin l) (Fin n) K) : Matrix (Fin n) (Fin n) K :=
  dAnn - Dnl * Aln + Anl * Dln

/-- `Matrix_GenDer_ln.ln = dA.ln - D.ln·A.nn + A.ll·D.ln` -/
def genDerLN (dAln Dln : Matrix (Fin l) (Fin n) K) (Ann : Matrix (Fin n) (Fin n) K)
    (All : Matrix (Fin l) (Fin l) K) : Matrix (Fin l) (Fin n) K :=
  dAln - Dln * Ann + All * Dln

/-- **T3a.** the `nn` block of the generalised derivative is covariant when `A`, `dA` and `D` are -/
theorem gender_nn_covariant (U : Matrix (Fin n) (Fin n) K) (W : Matrix (Fin l) (Fin l) K) (hW : W * Wᴴ = 1)
    (dAnn : Matrix (Fin n) (Fin n) K) (Dnl Anl : Matrix (Fin n) (Fin l) K) (Dln Aln : Matrix (Fin l) (Fin n) K) :
    genDerNN (cj U U dAnn) (cj U W Dnl) (cj U W Anl) (cj W U Dln) (cj W U Aln)
      = cj U U (genDerNN dAnn Dnl Anl Dln Aln) := by
  unfold genDerNN
  rw [cj_mul U W U hW, cj_mul U W U hW, cj_add, cj_sub]

/-- **T3b.** the `ln` block of the generalised derivative is covariant -/
theorem gender_ln_covariant (U : Matrix (Fin n) (Fin n) K) (W : Matrix (Fin l) (Fin l) K)
    (hU : U * Uᴴ = 1) (hW : W * Wᴴ = 1)
    (dAln Dln : Matrix (Fin l) (Fin n) K) (Ann : Matrix (Fin n) (Fin n) K) (All : Matrix (Fin l) (Fin l) K) :
    genDerLN (cj W U dAln) (cj W U Dln) (cj U U Ann) (cj W W All) = cj W U (genDerLN dAln Dln Ann All) := by
  unfold genDerLN
  rw [cj_mul W U U hU, cj_mul W W U hW, cj_add, cj_sub]

/-- **T3c.** `D_H = -V ∘ dEig_inv(E,E)` is covariant under every unitary `G` that mixes only states whose energies
    are exactly equal (the random gauge inside an exactly degenerate subspace; block diagonal gauge changes of the
    inner and outer sets): `D_H[G†VG] = G† D_H[V] G`.  `φ` is any function of the two energies, in particular
    `dEig_inv` with its threshold mask. -/
theorem D_covariant (G V : Matrix (Fin n) (Fin n) K) (E : Fin n → K) (φ : K → K → K)
    (hG : ∀ i j, G i j ≠ 0 → E i = E j) :
    DHmat (Gᴴ * V * G) E φ = Gᴴ * DHmat V E φ * G := (DHmat_covariant G V E φ hG).symm

/-- `Omega.nn` for one Cartesian component `c` (α = alpha_A[c], β = beta_A[c]) with all terms:
    internal `-i D_nl^α D_ln^β`; external `½ O_nn - D_nl^α A_ln^β + D_nl^β A_ln^α - i A_nn^α A_nn^β`;
    then `summ += summ†`.  `int`/`ext` switch the internal / external terms (0 or 1). -/
def omegaNN (I half int ext : K) (Dnlα Dnlβ : Matrix (Fin n) (Fin l) K) (Dlnβ Alnα Alnβ : Matrix (Fin l) (Fin n) K)
    (Annα Annβ Onn : Matrix (Fin n) (Fin n) K) : Matrix (Fin n) (Fin n) K :=
  let S := int • (-I • (Dnlα * Dlnβ))
    + ext • (half • Onn - Dnlα * Alnβ + Dnlβ * Alnα - I • (Annα * Annβ))
  S + Sᴴ

/-- **T3d.** the complete Berry-curvature block (internal and external terms) is covariant -/
theorem omega_gauge_covariant (I half int ext : K) (U : Matrix (Fin n) (Fin n) K) (W : Matrix (Fin l) (Fin l) K)
    (hU : U * Uᴴ = 1) (hW : W * Wᴴ = 1)
    (Dnlα Dnlβ : Matrix (Fin n) (Fin l) K) (Dlnβ Alnα Alnβ : Matrix (Fin l) (Fin n) K)
    (Annα Annβ Onn : Matrix (Fin n) (Fin n) K) :
    omegaNN I half int ext (cj U W Dnlα) (cj U W Dnlβ) (cj W U Dlnβ) (cj W U Alnα) (cj W U Alnβ)
        (cj U U Annα) (cj U U Annβ) (cj U U Onn)
      = cj U U (omegaNN I half int ext Dnlα Dnlβ Dlnβ Alnα Alnβ Annα Annβ Onn) := by
  unfold omegaNN
  simp only [cj_mul U W U hW, cj_mul U U U hU, ← cj_smul, ← cj_add, ← cj_sub, cj_conjTranspose]

/-- **T3e.** hence the tabulated / integrated Berry curvature of a band group does not depend on the gauge chosen
    inside the group (`U`) nor outside it (`W`) -/
theorem omega_trace_gauge_invariant (I half int ext : K) (U : Matrix (Fin n) (Fin n) K) (W : Matrix (Fin l) (Fin l) K)
    (hU : U * Uᴴ = 1) (hW : W * Wᴴ = 1)
    (Dnlα Dnlβ : Matrix (Fin n) (Fin l) K) (Dlnβ Alnα Alnβ : Matrix (Fin l) (Fin n) K)
    (Annα Annβ Onn : Matrix (Fin n) (Fin n) K) :
    (omegaNN I half int ext (cj U W Dnlα) (cj U W Dnlβ) (cj W U Dlnβ) (cj W U Alnα) (cj W U Alnβ)
        (cj U U Annα) (cj U U Annβ) (cj U U Onn)).trace
      = (omegaNN I half int ext Dnlα Dnlβ Dlnβ Alnα Alnβ Annα Annβ Onn).trace := by
  rw [omega_gauge_covariant I half int ext U W hU hW, trace_cj _ _ hU]

/-- a block-diagonal gauge change `G = U ⊕ W` acts on the four blocks of a matrix as `cj` does -/
theorem blocks_of_conj (U : Matrix (Fin n) (Fin n) K) (W : Matrix (Fin l) (Fin l) K)
    (Xnn : Matrix (Fin n) (Fin n) K) (Xnl : Matrix (Fin n) (Fin l) K) (Xln : Matrix (Fin l) (Fin n) K)
    (Xll : Matrix (Fin l) (Fin l) K) :
    (Matrix.fromBlocks U 0 0 W)ᴴ * Matrix.fromBlocks Xnn Xnl Xln Xll * Matrix.fromBlocks U 0 0 W
      = Matrix.fromBlocks (cj U U Xnn) (cj U W Xnl) (cj W U Xln) (cj W W Xll) := by
  unfold cj
  rw [Matrix.fromBlocks_conjTranspose, Matrix.fromBlocks_multiply, Matrix.fromBlocks_multiply]
  simp


/-! ## band groups must be closed under the gauge's mixing -/

/-- if the gauge change is block diagonal with respect to the split inner / outer (the group is closed under the
    mixing), the trace over the group is invariant -/
theorem group_trace_invariant_of_closed (U : Matrix (Fin n) (Fin n) K) (W : Matrix (Fin l) (Fin l) K) (hU : U * Uᴴ = 1)
    (Xnn : Matrix (Fin n) (Fin n) K) (Xnl : Matrix (Fin n) (Fin l) K) (Xln : Matrix (Fin l) (Fin n) K)
    (Xll : Matrix (Fin l) (Fin l) K) :
    ((Matrix.fromBlocks U 0 0 W)ᴴ * Matrix.fromBlocks Xnn Xnl Xln Xll * Matrix.fromBlocks U 0 0 W).toBlocks₁₁.trace
      = Xnn.trace := by
  rw [blocks_of_conj, Matrix.toBlocks_fromBlocks₁₁]
  exact trace_cj U Xnn hU

end gauge

/-! ## the degenerate groups of `Data_K.degen` and the random gauge -/

/-- every group rotated by `random_gauge` has at least two bands and all gaps inside it are `≤ thr` -/
theorem degenGroups_spec (E : ℕ → ℚ) (thr : ℚ) (n a b : ℕ) (h : (a, b) ∈ degenGroups E thr n) :
    b - a > 1 ∧ ∀ i, a < i → i < b → E i - E (i - 1) ≤ thr := by
  unfold degenGroups at h
  rw [List.mem_filter] at h
  refine ⟨by simpa using h.2, ?_⟩
  intro i h1 h2
  exact WB.C15.blocks_internal_gap E thr n a b i h.1 h1 h2

/-- columns outside every degenerate group are left untouched by the random gauge -/
theorem applyGauge_outside {K : Type} [Add K] [Mul K] [Zero K] (groups : List (ℕ × ℕ)) (W : ℕ → ℕ → ℕ → K)
    (UU : ℕ → ℕ → K) (r j : ℕ) (h : ∀ g ∈ groups, ¬ (g.1 ≤ j ∧ j < g.2)) :
    applyGauge groups W UU r j = UU r j := by
  unfold applyGauge groupOf
  have : groups.zipIdx.find? (fun g => decide (g.1.1 ≤ j) && decide (j < g.1.2)) = none := by
    rw [List.find?_eq_none]
    intro g hg
    have hmem : g.1 ∈ groups := by
      obtain ⟨x, i⟩ := g
      exact (List.mem_zipIdx hg).2.2 ▸ List.getElem_mem _
    have := h g.1 hmem
    simpa using this
  rw [this]; rfl

/-! ## non-vacuity -/

/-- the hypotheses of T2/T3 are met by a non-trivial unitary over ℂ: the rotation by 90° mixing two states -/
example : (!![0, 1; -1, 0] : Matrix (Fin 2) (Fin 2) ℂ) * (!![0, 1; -1, 0] : Matrix (Fin 2) (Fin 2) ℂ)ᴴ = 1 := by
  ext i j; fin_cases i <;> fin_cases j <;> simp [Matrix.mul_apply, Fin.sum_univ_two]

/-- the hypothesis of T3c (G mixes only equal energies) is met by that rotation on a doublet, and violated when the
    two energies differ: there `D_H` is NOT covariant -/
example : ∃ (G V : Matrix (Fin 2) (Fin 2) ℚ) (E : Fin 2 → ℚ),
    Gᴴ * DHmat V E (fun x y => if x = y then 0 else (x - y)⁻¹) * G
      ≠ DHmat (Gᴴ * V * G) E (fun x y => if x = y then 0 else (x - y)⁻¹) := by
  refine ⟨!![1, 1; -1, 1], !![0, 1; 1, 0], ![0, 1], ?_⟩
  intro h
  have := congrFun (congrFun h 0) 1
  simp [DHmat, Matrix.mul_apply, Fin.sum_univ_two] at this

/-- closing the chain with the last factor TRANSPOSED (`Tr(A·B·Cᵀ)`) is not gauge invariant: a 2-fold group,
    the unitary `diag(1, i)`, three Hermitian factors — the correct trace is unchanged, the transposed one is not -/
theorem transposed_last_factor_not_invariant :
    let U : ℕ → ℕ → WB.C27.GRat := fun i j => if i = j then (if i = 0 then ⟨1, 0⟩ else ⟨0, 1⟩) else ⟨0, 0⟩
    let A : ℕ → ℕ → WB.C27.GRat := mkM [[1, 2], [2, 0]] [[0, 1], [-1, 0]]
    let B : ℕ → ℕ → WB.C27.GRat := mkM [[0, 1], [1, 3]] [[0, -2], [2, 0]]
    let C : ℕ → ℕ → WB.C27.GRat := mkM [[2, 1], [1, 1]] [[0, 3], [-3, 0]]
    let r := rotate WB.C27.GRat.conj 2 U
    productTrace [0, 1] [r A, r B, r C] = productTrace [0, 1] [A, B, C] ∧
    productTraceLastT [0, 1] [r A, r B, r C] ≠ productTraceLastT [0, 1] [A, B, C] := by
  decide +kernel


/-- …and the closedness is needed: a 4-fold degenerate subspace cut into the two pairs `{0,1}`, `{2,3}` (what a
    fixed pairing `(0,1),(2,3),…` does to two touching Kramers pairs).  A unitary of the whole subspace (here the
    exchange of states 1 and 2) leaves the trace over all four states unchanged but changes the trace over a pair. -/
theorem pair_trace_not_invariant_in_quartet :
    ∃ (U X : Matrix (Fin 4) (Fin 4) ℚ), U * Uᴴ = 1 ∧ (Uᴴ * X * U).trace = X.trace ∧
      (Uᴴ * X * U) 0 0 + (Uᴴ * X * U) 1 1 ≠ X 0 0 + X 1 1 := by
  refine ⟨!![1, 0, 0, 0; 0, 0, 1, 0; 0, 1, 0, 0; 0, 0, 0, 1], Matrix.diagonal ![1, 2, 3, 4], ?_, ?_, ?_⟩
  · ext i j; fin_cases i <;> fin_cases j <;> simp [Matrix.mul_apply, Fin.sum_univ_four]
  · simp [Matrix.trace, Matrix.mul_apply, Fin.sum_univ_four, Matrix.diagonal]; norm_num
  · simp [Matrix.mul_apply, Fin.sum_univ_four, Matrix.diagonal]

/-- the driver's degenerate-group finder on a concrete spectrum: a doublet and a triplet are found, singles are not -/
example : degenGroups (WB.C15.ofList [0, 1, 1, 2, 3, 3, 3]) (1/10000) 7 = [(1, 3), (4, 7)] := by decide +kernel

end WB.C04
