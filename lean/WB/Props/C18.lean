/-
  C18 — system files round-trip: property theorems.

  `ρ` is "print with the format of the file, parse again" (`%15.8e` for matrix elements); nothing is assumed
  about it, so every statement holds "to printed precision" in the strongest sense: the reader returns
  exactly the printed value of the element that the writer put at that position.  `K` is any field
  (ℝ, ℂ, ℚ); complex numbers are (re, im) pairs.
-/
import WB.Lemmas.C18Files
import WB.Lemmas.C18Npz

namespace WB.C18

/-! ## the 15-per-line integer header (`Ndegen`) -/

/-- for every list of degeneracies the reader's `while len(Ndegen) < nRvec` loop recovers the list and
    leaves the cursor on the first line after the header (lengths 0, 1..15, 16.. all included) -/
theorem ndegen_header_roundtrip {V : Type} (l : List Int) (rest : File V) :
    readInts l.length (chunks15 l ++ rest) [] = (l, rest) :=
  readInts_chunks15 l rest

/-! ## `_hr.dat` -/

/-- T1.  `get_system_hr ∘ write_hr_file`: num_wann, the R-vectors (in order) and every matrix element come
    back, the element being the printed value of `Ham_R[iR][m][n]` — for every `num_wann ≥ 1` and every R list. -/
theorem hr_roundtrip {K : Type} [Field K] (ρ : K → K) (s : Sys K) (hnw : 0 < s.nw) :
    (readHr (writeHr ρ s)).nw = s.nw ∧ (readHr (writeHr ρ s)).Rs = s.Rs ∧
    ∀ ir m n, ir < s.Rs.length → m < s.nw → n < s.nw →
      (readHr (writeHr ρ s)).ham ir m n = (ρ (s.ham ir m n).1, ρ (s.ham ir m n).2) := by
  obtain ⟨h1, h2, h3⟩ := readHr_writeHrNd ρ (List.replicate s.Rs.length 1) s (by simp)
  refine ⟨h1, h2 hnw, ?_⟩
  intro ir m n hir hm hn
  have := h3 ir m n hir hm hn
  rw [getD_ones _ _ _ hir, getD_ones _ _ _ hir] at this
  rw [writeHr, this]
  exact cdiv_cmul_one ρ _

/-- T1'.  The reader's division by `Ndegen` inverts Wannier90's convention (elements stored multiplied by the
    degeneracy) for ANY non-zero degeneracies, when values are printed exactly. -/
theorem hr_roundtrip_ndegen {K : Type} [Field K] (nd : List Int) (s : Sys K) (hnw : 0 < s.nw)
    (hlen : nd.length = s.Rs.length) (hnz : ∀ ir, ir < s.Rs.length → ((nd.getD ir 0 : Int) : K) ≠ 0) :
    (readHr (writeHrNd id nd s)).Rs = s.Rs ∧
    ∀ ir m n, ir < s.Rs.length → m < s.nw → n < s.nw →
      (readHr (writeHrNd id nd s)).ham ir m n = s.ham ir m n := by
  obtain ⟨-, h2, h3⟩ := readHr_writeHrNd id nd s hlen
  refine ⟨h2 hnw, ?_⟩
  intro ir m n hir hm hn
  rw [h3 ir m n hir hm hn]
  have e : nd.getD ir 1 = nd.getD ir 0 := by
    simp [List.getD_eq_getElem?_getD, List.getElem?_eq_getElem (hlen ▸ hir)]
  have hz := hnz ir hir
  rw [e]
  simp only [cdivInt, cmulInt, id]
  ext
  · exact mul_div_cancel_right₀ _ hz
  · exact mul_div_cancel_right₀ _ hz

/-- non-vacuity: a 3-orbital (odd!), 2-R-vector system written and read at `Rat` -/
example :
    let s : Sys Rat := mkSys 3 [(0, 0, 0), (1, -2, 0)] [] [] ((List.range 36).map (fun i => (i : Rat) / 7)) []
    flatHam 2 3 (readHr (writeHr id s)).ham = flatHam 2 3 s.ham ∧ (readHr (writeHr id s)).Rs = s.Rs := by
  decide +kernel

/-! ## Wannier-centre file (even rows first, then odd rows) -/

/-- T3.  `read_WCC_WT_format ∘ write_WCC_WT_format` returns the rows in the original order, each value
    being what was printed (`κ` = clip below 1e-7, then `repr`) — for every number of rows, odd included. -/
theorem wcc_roundtrip {V : Type} [IntCast V] (κ : V → V) (rows : List (List V)) :
    readWcc (writeWcc κ rows) = some (rows.map (fun r => r.map κ)) :=
  readWccWith_write κ rows _ rfl

/-- T3'.  The split point used before the repair (`n // 2`, finding F2) makes the reader fail on every file
    with an odd number of rows (numpy raises on the slice assignment). -/
theorem wcc_old_reader_fails_odd {V : Type} [IntCast V] (f : File V) (hodd : f.length % 2 = 1) :
    readWccOld f = none := by
  unfold readWccOld readWccWith
  simp only [List.length_map]
  rw [if_neg]
  omega

example : readWcc (writeWcc id [[(1 : Rat), 2, 3], [4, 5, 6], [7, 8, 9]]) = some [[1, 2, 3], [4, 5, 6], [7, 8, 9]] := by
  decide +kernel

/-! ## `_tb.dat` -/

/-- T2a.  Header, lattice (printed exactly by `np.savetxt`), R-vectors and Hamiltonian: for every option of
    writer and reader, every num_wann (0 included) and every R list. -/
theorem tb_roundtrip_ham {K : Type} [Field K] (ρ : K → K) (s : Sys K) (hasAA useII needAA convII : Bool)
    (given : Option (Nat → Nat → K)) :
    let r := readTb (writeTb ρ s hasAA useII) needAA convII given
    r.nw = s.nw ∧ r.Rs = s.Rs ∧ (∀ i j, i < 3 → j < 3 → r.lat i j = s.lat i j) ∧
    (∀ ir m n, ir < s.Rs.length → m < s.nw → n < s.nw → r.ham ir m n = (ρ (s.ham ir m n).1, ρ (s.ham ir m n).2)) :=
  readTb_writeTb_basic ρ s hasAA useII needAA convII given

/-- T2b.  Default options (write convention II, read with conversion to convention I, centres taken from the
    file): for a system whose AA(R=0) has a zero real diagonal (what convention I means), the centres come
    back as printed, the diagonal of AA(R=0) comes back with real part exactly 0, and every other element of AA
    is the printed value of the original. -/
theorem tb_roundtrip_convII {K : Type} [Field K] (ρ : K → K) (s : Sys K)
    (h0 : iR0 s.Rs < s.Rs.length)
    (hdiag : ∀ i c, i < s.nw → c < 3 → (s.aa (iR0 s.Rs) i i c).1 = 0) :
    let r := readTb (writeTb ρ s true true) true true none
    (∀ i c, i < s.nw → c < 3 → r.wcc i c = ρ (s.wcc i c)) ∧
    (∀ ir m n c, ir < s.Rs.length → m < s.nw → n < s.nw → c < 3 →
      r.aa ir m n c = if ir = iR0 s.Rs ∧ m = n then (0, ρ (s.aa ir m n c).2)
                      else (ρ (s.aa ir m n c).1, ρ (s.aa ir m n c).2)) := by
  intro r
  obtain ⟨hw, ha⟩ := readTb_writeTb_aa ρ s true true true none h0
  have hwcc : ∀ i c, i < s.nw → c < 3 → r.wcc i c = ρ (s.wcc i c) := by
    intro i c hi hc
    rw [(hw i c hi hc).2 rfl]
    simp [aaW, aaShift, hdiag i c hi hc]
  refine ⟨hwcc, ?_⟩
  intro ir m n c hir hm hn hc
  rw [ha ir m n c hir hm hn hc]
  by_cases hd : ir = iR0 s.Rs ∧ m = n
  · obtain ⟨rfl, rfl⟩ := hd
    have e : r.wcc m c = ρ (s.wcc m c) := hwcc m c hm hc
    simp only [Bool.and_self, beq_self_eq_true, if_true, and_self, Bool.true_and]
    rw [e]
    simp [aaW, aaShift, hdiag m c hm hc]
  · rw [if_neg hd]
    have : (true && true && ir == iR0 s.Rs && m == n) = false := by
      simp only [Bool.and_self, Bool.true_and, Bool.and_eq_false_iff, beq_eq_false_iff_ne]
      by_contra hcon
      push_neg at hcon
      exact hd hcon
    rw [this]
    simp only [Bool.false_eq_true, if_false, aaW, aaShift]
    have hb : (true && ir == iR0 s.Rs && m == n) = false := by simpa using this
    rw [hb]
    simp

/-- T2c.  No convention switch on either side and the centres handed to the reader: everything is the
    printed value of the original, for an arbitrary AA. -/
theorem tb_roundtrip_noswitch {K : Type} [Field K] (ρ : K → K) (s : Sys K) (h0 : iR0 s.Rs < s.Rs.length) :
    let r := readTb (writeTb ρ s true false) true false (some s.wcc)
    (∀ i c, i < s.nw → c < 3 → r.wcc i c = s.wcc i c) ∧
    (∀ ir m n c, ir < s.Rs.length → m < s.nw → n < s.nw → c < 3 →
      r.aa ir m n c = (ρ (s.aa ir m n c).1, ρ (s.aa ir m n c).2)) := by
  intro r
  obtain ⟨hw, ha⟩ := readTb_writeTb_aa ρ s false true false (some s.wcc) h0
  refine ⟨fun i c hi hc => (hw i c hi hc).1 _ rfl, ?_⟩
  intro ir m n c hir hm hn hc
  rw [ha ir m n c hir hm hn hc]
  simp [aaW, aaShift]

/-- T2d.  With exact printing (`ρ = id`) the convention switch II→I on reading undoes the switch I→II on
    writing for an ARBITRARY AA when the centres are handed to the reader. -/
theorem tb_roundtrip_exact_given {K : Type} [Field K] (s : Sys K) (h0 : iR0 s.Rs < s.Rs.length) :
    let r := readTb (writeTb id s true true) true true (some s.wcc)
    ∀ ir m n c, ir < s.Rs.length → m < s.nw → n < s.nw → c < 3 → r.aa ir m n c = s.aa ir m n c := by
  intro r ir m n c hir hm hn hc
  obtain ⟨hw, ha⟩ := readTb_writeTb_aa id s true true true (some s.wcc) h0
  rw [ha ir m n c hir hm hn hc, (hw m c hm hc).1 _ rfl]
  by_cases hd : (ir == iR0 s.Rs && m == n) = true
  · simp only [Bool.and_self, Bool.true_and, hd, if_true, aaW, aaShift, id]
    ext <;> simp
  · have hd' : (ir == iR0 s.Rs && m == n) = false := by simpa using hd
    simp only [Bool.and_self, Bool.true_and, hd', Bool.false_eq_true, if_false, aaW, aaShift, id]

/-- non-vacuity of the hypotheses of T2b: a 3-orbital system with R = 0 in second position and zero real
    diagonal of AA(0), run through the model at `Rat` -/
example :
    let s : Sys Rat := mkSys 3 [(1, 0, 0), (0, 0, 0)] [1, 0, 0, 0, 1, 0, 0, 0, 1] [1/2, 1/3, 1/5, 0, 1/7, 0, 2, 3, 4]
      ((List.range 36).map (fun (i : Nat) => (i : Rat))) ((List.range 108).map (fun (i : Nat) => if i ≥ 54 ∧ (i - 54) % 24 < 6 ∧ i % 2 = 0 then (0 : Rat) else (i : Rat)))
    iR0 s.Rs < s.Rs.length ∧ (∀ i < 3, ∀ c < 3, (s.aa (iR0 s.Rs) i i c).1 = 0) ∧
      flatMat 3 3 (readTb (writeTb id s true true) true true none).wcc = flatMat 3 3 s.wcc ∧
      flatAA 2 3 (readTb (writeTb id s true true) true true none).aa = flatAA 2 3 s.aa := by
  decide +kernel

/-- T2e.  Structured sparsity: an R-vector whose Hamiltonian block vanishes identically is written and read back
    like every other one — the R list comes back complete and in order, and the AA block of that R-vector is the
    printed value of the original (no convention switch, centres handed to the reader). -/
theorem tb_keeps_R_with_zero_ham {K : Type} [Field K] (ρ : K → K) (s : Sys K) (h0 : iR0 s.Rs < s.Rs.length)
    (ir : Nat) (hir : ir < s.Rs.length) (_hzero : ∀ m n, m < s.nw → n < s.nw → s.ham ir m n = (0, 0)) :
    let r := readTb (writeTb ρ s true false) true false (some s.wcc)
    r.Rs = s.Rs ∧ ∀ m n c, m < s.nw → n < s.nw → c < 3 → r.aa ir m n c = (ρ (s.aa ir m n c).1, ρ (s.aa ir m n c).2) := by
  intro r
  exact ⟨(tb_roundtrip_ham ρ s true false true false (some s.wcc)).2.1,
    fun m n c hm hn hc => (tb_roundtrip_noswitch ρ s h0).2 ir m n c hir hm hn hc⟩

/-- T2e'.  Counterexample for the rule "do not write R-vectors with Ham(R) = 0": a 1-orbital system with
    R = 0, (1,0,0), (-1,0,0), Ham only at R = 0 but AA also at ±(1,0,0) (and it satisfies the hypotheses of T2e):
    the file of the dropping writer reads back with ONE R-vector, the code's file with all three and their AA. -/
theorem dropping_zero_ham_loses_AA :
    let s : Sys Rat := mkSys 1 [(0, 0, 0), (1, 0, 0), (-1, 0, 0)] [1, 0, 0, 0, 1, 0, 0, 0, 1] [0, 0, 0]
      [3, 0, 0, 0, 0, 0] [0, 0, 0, 0, 0, 0, 1, 2, 0, 0, 0, 0, 1, -2, 0, 0, 0, 0]
    (∀ m < s.nw, ∀ n < s.nw, s.ham 1 m n = (0, 0)) ∧ iR0 s.Rs < s.Rs.length ∧
    (readTb (writeTb id (dropZeroHam s) true false) true false (some s.wcc)).Rs = [(0, 0, 0)] ∧
    (readTb (writeTb id s true false) true false (some s.wcc)).Rs = s.Rs ∧
    (readTb (writeTb id s true false) true false (some s.wcc)).aa 1 0 0 0 = (1, 2) := by
  decide +kernel

/-! ## npz directory -/

/-- T4.  `load_npz ∘ to_npz` on the dictionary level, for EVERY order in which the directory is listed:
    the R-vector object is built from the saved lattice, R-vectors and centres (this is what the
    "load real_lattice and wannier_centers_cart first" rule is for), every other saved property is set to its
    saved value, and the loaded matrices are exactly the saved ones.  Side condition (checked against the live
    property names on every run): no property name starts with `_XX_R_`. -/
theorem npz_roundtrip {A : Type} (props mats : List (Name × A)) (listing : List Name) (L W I : A)
    (hlist : ∀ k, k ∈ listing ↔ k ∈ (saveDir props mats).map (·.1))
    (hnop : ∀ p ∈ props, xxPrefix.isPrefixOf p.1 = false)
    (hL : dirGet props nLat = some L) (hW : dirGet props nWcc = some W) (hI : dirGet props nIR = some I) :
    let r := loadDir (saveDir props mats) listing
    r.rvec = some (some L, I, some W) ∧
    (∀ k a, k ≠ nIR → dirGet props k = some a → r.attr k = some a) ∧
    (∀ k a, dirGet mats k = some a → (k, a) ∈ r.mats) ∧
    (∀ k a, (k, a) ∈ r.mats → dirGet mats k = some a) := by
  intro r
  set dir := saveDir props mats with hdir
  have hL' := dirGet_saveDir_prop props mats nLat L hL
  have hW' := dirGet_saveDir_prop props mats nWcc W hW
  have hI' := dirGet_saveDir_prop props mats nIR I hI
  -- the first two steps
  set s0 : Loaded A := { attrs := [], rvec := none, mats := [], done := [] } with hs0
  have inv0 : LoadInv dir s0 := ⟨fun k _ => rfl, fun k hk => by simp [hs0] at hk⟩
  obtain ⟨inv1, hk1, -, hb1⟩ := loadStep_inv dir s0 nLat inv0
  obtain ⟨inv2, hk2, hm2, hb2⟩ := loadStep_inv dir _ nWcc inv1
  have hnot : nIR ∉ (loadStep dir (loadStep dir s0 nLat) nWcc).done := by
    intro h
    rcases hb2 _ h with e | h
    · exact absurd e (by decide)
    · rcases hb1 _ h with e | h
      · exact absurd e (by decide)
      · simp [hs0] at h
  have inv2' : LoadInv2 dir (loadStep dir (loadStep dir s0 nLat) nWcc) L W I :=
    { toLoadInv := inv2, lat := hm2 _ hk1, wcc := hk2, rv := fun h => absurd h hnot }
  set propsL := listing.filter (fun x => !(xxPrefix.isPrefixOf x)) with hpropsL
  obtain ⟨invF, hall⟩ := foldl_inv2 dir L W I hL' hW' hI' propsL _ inv2'
  have hfold : r = { (propsL.foldl (loadStep dir) (loadStep dir (loadStep dir s0 nLat) nWcc)) with
      mats := ((listing.filter (fun x => xxPrefix.isPrefixOf x)).map (fun x => x.drop 6)).filterMap
        (fun k => (dirGet dir (xxPrefix ++ k)).map (fun a => (k, a))) } := rfl
  have hinList : ∀ k a, dirGet props k = some a → k ∈ propsL := by
    intro k a hk
    have hmem := dirGet_mem hk
    rw [hpropsL, List.mem_filter]
    refine ⟨(hlist k).2 ?_, by simp [hnop _ hmem]⟩
    rw [hdir, saveDir, List.map_append, List.mem_append]
    exact Or.inl (List.mem_map.2 ⟨(k, a), hmem, rfl⟩)
  refine ⟨?_, ?_, ?_, ?_⟩
  · rw [hfold]
    exact invF.rv (hall _ (hinList nIR I hI))
  · intro k a hne hk
    rw [hfold]
    have := invF.loaded k (hall k (hinList k a hk)) hne
    rw [attr_eq_dirGet] at this ⊢
    rw [this, hdir]
    exact dirGet_saveDir_prop props mats k a hk
  · intro k a hk
    rw [hfold]
    simp only [List.mem_filterMap, List.mem_map, List.mem_filter]
    refine ⟨k, ⟨xxPrefix ++ k, ⟨(hlist _).2 ?_, isPrefix_xx k⟩, by simp [xxPrefix]⟩, ?_⟩
    · rw [hdir, saveDir, List.map_append, List.mem_append]
      right
      exact List.mem_map.2 ⟨(xxPrefix ++ k, a), List.mem_map.2 ⟨(k, a), dirGet_mem hk, rfl⟩, rfl⟩
    · rw [hdir, dirGet_saveDir_mat props mats k hnop, hk]; rfl
  · intro k a hk
    rw [hfold] at hk
    simp only [List.mem_filterMap, List.mem_map, List.mem_filter] at hk
    obtain ⟨k', -, hk'⟩ := hk
    rw [hdir, dirGet_saveDir_mat props mats k' hnop] at hk'
    cases hg : dirGet mats k' with
    | none => rw [hg] at hk'; simp at hk'
    | some a' =>
      rw [hg] at hk'
      simp only [Option.map_some, Option.some.injEq, Prod.mk.injEq] at hk'
      obtain ⟨rfl, rfl⟩ := hk'
      exact hg

/-- non-vacuity: the essential properties of `System_R` and two matrices, listed in an order that puts `iRvec`
    first and the lattice last -/
example :
    let props : List (Name × Nat) := [("num_wann".toList, 1), (nLat, 2), (nIR, 3), ("periodic".toList, 4),
      (nWcc, 5), ("pointgroup".toList, 6)]
    let mats : List (Name × Nat) := [("Ham".toList, 10), ("AA".toList, 11)]
    let listing := [nIR, xxPrefix ++ "AA".toList, "pointgroup".toList, nWcc, "periodic".toList,
      xxPrefix ++ "Ham".toList, "num_wann".toList, nLat]
    (loadDir (saveDir props mats) listing).rvec = some (some 2, 3, some 5) ∧
      (loadDir (saveDir props mats) listing).mats = [("AA".toList, 11), ("Ham".toList, 10)] := by
  decide +kernel

/-! ## point group serialisation -/

/-- T5a.  `PointSymmetry(**sym.as_dict())` is `sym` again (the inversion flag is recomputed from the sign of
    the determinant of the full matrix) — for every symmetry whose proper part has a positive determinant. -/
theorem pointsym_dict_roundtrip {K : Type} [Field K] [LinearOrder K] [IsStrictOrderedRing K]
    (s : PSym K) (hdet : 0 < det3 s.R) :
    PSym.ofMatrix s.asDict.1 s.asDict.2 = s := by
  obtain ⟨R, TR, Inv⟩ := s
  simp only at hdet
  cases Inv
  · have hneg : ¬ (det3 R < 0) := not_lt.mpr hdet.le
    simp [PSym.ofMatrix, PSym.asDict, hneg]
  · have hneg : det3 (fun i j => - R i j) < 0 := by rw [det3_neg]; linarith
    simp only [PSym.ofMatrix, PSym.asDict, if_true, hneg, decide_true, neg_neg]

/-- T5b.  Re-generating a group from its own full element list adds nothing and keeps the order: the generators
    are read unchanged (they are pairwise different) and the closure loop returns the list itself after one pass —
    for every product `*`, every equality test, every closed list shorter than the loop bound. -/
theorem pointgroup_closure_fixed {G : Type} (mul : G → G → G) (eqv : G → G → Bool) (l : List G)
    (hdistinct : l.Pairwise (fun y x => eqv x y = false))
    (hclosed : ∀ a ∈ l, ∀ b ∈ l, l.any (fun x => eqv (mul a b) x) = true)
    (fuel k : Nat) (hf : l.length < fuel) :
    generate mul eqv fuel (k + 1) l = some l := by
  unfold generate
  rw [dedupGens_fixed eqv l hdistinct]
  exact closure_closed_aux mul eqv l hclosed fuel k hf

/-- non-vacuity: C4 × time reversal generated from two generators is closed (8 elements), and closing it
    again returns the same list -/
example :
    let g := [[0, -1, 0, 1, 0, 0, 0, 0, 1, 0], [1, 0, 0, 0, 1, 0, 0, 0, 1, 1]]
    ∃ l, generate mulI (fun a b => a == b) 1000 64 (g ++ g) = some l ∧ l.length = 8 ∧
      generate mulI (fun a b => a == b) 1000 64 l = some l := by
  refine ⟨_, rfl, ?_, ?_⟩ <;> decide +kernel

end WB.C18
