/-
  C03 — integrals depend only on the k-point set, not on its FFT factorisation: property theorems.
-/
import WB.Lemmas.C03

namespace WB.C03
open WB.C06 Finset

/-! ## T1 — the index bijection of one direction: K-point `x < div`, FFT point `m < fft`  ↦  grid point `m·div + x` -/

theorem kset_bijection (d f : Nat) (hd : 0 < d) :
    (∀ x m, x < d → m < f → m * d + x < d * f) ∧
    (∀ x m x' m', x < d → x' < d → m * d + x = m' * d + x' → x = x' ∧ m = m') ∧
    (∀ n, n < d * f → ∃ x m, x < d ∧ m < f ∧ m * d + x = n) := by
  refine ⟨fun x m hx hm => index_lt d f x m hx hm, fun x m x' m' hx hx' h => index_inj d x m x' m' hx hx' h, ?_⟩
  intro n hn
  obtain ⟨a, b, c⟩ := index_surj d f n hd hn
  exact ⟨n % d, n / d, a, b, c⟩

/-- the k-point that the code assigns to (K-point `x`, FFT point `i`), `(i/fft + (x/div)/fft) % 1`, IS grid point
    `i·div + x` of the full grid `div·fft` (the `% 1` does nothing on the initial grid) -/
theorem kpoint_is_grid_point (d f x i : Nat) (hx : x < d) (hi : i < f) :
    frac ((i : Rat) * (1 / (f : Rat)) + ((x : Rat) * (1 / (d : Rat))) / (f : Rat)) =
      ((i * d + x : Nat) : Rat) * (1 / ((d * f : Nat) : Rat)) :=
  kpoint_1d d f x i hx hi

/-! ## T2 — the weighted sum over all K-points and their FFT points is the plain mean over the full grid, for every
    factorisation and every function of k with values in a ℚ-module (scalars, tensors, arrays of them, …) -/

theorem weighted_sum_is_grid_mean {V : Type} [AddCommMonoid V] [Module ℚ V] (syms : List Sym) (div fft : Idx)
    (hd : 0 < div.1 ∧ 0 < div.2.1 ∧ 0 < div.2.2) (hf : 0 < fft.1 ∧ 0 < fft.2.1 ∧ 0 < fft.2.2) (f : V3 → V) :
    wsum (gridKW (getKList syms div false) fft) f =
      gridMean (div.1 * fft.1, div.2.1 * fft.2.1, div.2.2 * fft.2.2) f := by
  rw [wsum_gridKW]
  unfold gridMean
  rw [sum_flatOrder]
  simp only [sum_flatOrder]
  -- the constant weight
  have hc : (1 / ((div.1 * div.2.1 * div.2.2 : Nat) : Rat)) / ((nprod fft : Nat) : Rat) =
      1 / ((nprod (div.1 * fft.1, div.2.1 * fft.2.1, div.2.2 * fft.2.2) : Nat) : Rat) := by
    unfold nprod
    have h1 : ((div.1 * div.2.1 * div.2.2 : Nat) : Rat) ≠ 0 := by
      have := Nat.mul_pos (Nat.mul_pos hd.1 hd.2.1) hd.2.2
      exact_mod_cast this.ne'
    have h2 : ((fft.1 * fft.2.1 * fft.2.2 : Nat) : Rat) ≠ 0 := by
      have := Nat.mul_pos (Nat.mul_pos hf.1 hf.2.1) hf.2.2
      exact_mod_cast this.ne'
    simp only
    push_cast at h1 h2 ⊢
    field_simp
  rw [hc]
  -- every k-point is a point of the full grid
  have hk : ∀ x ∈ range div.1, ∀ y ∈ range div.2.1, ∀ z ∈ range div.2.2,
      ∀ i ∈ range fft.1, ∀ j ∈ range fft.2.1, ∀ l ∈ range fft.2.2,
      kpt div fft (x, y, z) (i, j, l) =
        gridK (div.1 * fft.1, div.2.1 * fft.2.1, div.2.2 * fft.2.2) (i * div.1 + x, j * div.2.1 + y, l * div.2.2 + z) := by
    intro x hx y hy z hz i hi j hj l hl
    rw [mem_range] at hx hy hz hi hj hl
    unfold kpt gridK
    simp only
    rw [kpoint_1d _ _ _ _ hx hi, kpoint_1d _ _ _ _ hy hj, kpoint_1d _ _ _ _ hz hl]
  obtain ⟨H, hH⟩ : ∃ H : Nat → Nat → Nat → V, H = fun a b c =>
      (1 / ((nprod (div.1 * fft.1, div.2.1 * fft.2.1, div.2.2 * fft.2.2) : Nat) : Rat)) •
        f (gridK (div.1 * fft.1, div.2.1 * fft.2.1, div.2.2 * fft.2.2) (a, b, c)) := ⟨_, rfl⟩
  have step : ∑ x ∈ range div.1, ∑ y ∈ range div.2.1, ∑ z ∈ range div.2.2,
      ∑ i ∈ range fft.1, ∑ j ∈ range fft.2.1, ∑ l ∈ range fft.2.2,
        (1 / ((nprod (div.1 * fft.1, div.2.1 * fft.2.1, div.2.2 * fft.2.2) : Nat) : Rat)) • f (kpt div fft (x, y, z) (i, j, l)) =
    ∑ x ∈ range div.1, ∑ y ∈ range div.2.1, ∑ z ∈ range div.2.2,
      ∑ i ∈ range fft.1, ∑ j ∈ range fft.2.1, ∑ l ∈ range fft.2.2,
        H (i * div.1 + x) (j * div.2.1 + y) (l * div.2.2 + z) :=
    Finset.sum_congr rfl fun x hx => Finset.sum_congr rfl fun y hy => Finset.sum_congr rfl fun z hz =>
      Finset.sum_congr rfl fun i hi => Finset.sum_congr rfl fun j hj => Finset.sum_congr rfl fun l hl => by
        rw [hk x hx y hy z hz i hi j hj l hl, hH]
  rw [step, sum_factor3 div fft H, hH]
  simp only [Finset.smul_sum]

/-- the statement of the property: two factorisations of the same grid give the same integral -/
theorem weighted_sum_invariant {V : Type} [AddCommMonoid V] [Module ℚ V] (syms syms' : List Sym)
    (div fft div' fft' : Idx)
    (hd : 0 < div.1 ∧ 0 < div.2.1 ∧ 0 < div.2.2) (hf : 0 < fft.1 ∧ 0 < fft.2.1 ∧ 0 < fft.2.2)
    (hd' : 0 < div'.1 ∧ 0 < div'.2.1 ∧ 0 < div'.2.2) (hf' : 0 < fft'.1 ∧ 0 < fft'.2.1 ∧ 0 < fft'.2.2)
    (h1 : div.1 * fft.1 = div'.1 * fft'.1) (h2 : div.2.1 * fft.2.1 = div'.2.1 * fft'.2.1)
    (h3 : div.2.2 * fft.2.2 = div'.2.2 * fft'.2.2) (f : V3 → V) :
    wsum (gridKW (getKList syms div false) fft) f = wsum (gridKW (getKList syms' div' false) fft') f := by
  rw [weighted_sum_is_grid_mean syms div fft hd hf, weighted_sum_is_grid_mean syms' div' fft' hd' hf', h1, h2, h3]

/-- non-vacuity: 6 = 1·6 = 2·3 = 3·2 = 6·1 along x (and 4 = 2·2 = 4·1, 2 = 1·2 along y, z), a non-symmetric function -/
example :
    let f : V3 → Rat := fun k => k.x * k.x + 3 * k.y + k.x * k.z
    wsum (gridKW (getKList [] (2, 2, 1) false) (3, 2, 2)) f = wsum (gridKW (getKList [] (3, 4, 2) false) (2, 1, 1)) f ∧
    wsum (gridKW (getKList [] (6, 1, 2) false) (1, 4, 1)) f = gridMean (6, 4, 2) f := by
  decide +kernel

/-! ## T3 — the folded FFT: with the K-shift phase `expdK` and R-vectors folded into (and added on) an FFT box that
    may be smaller than the range of R, FFT point `m` of K-point `x` gets the Fourier sum at grid point `m·div + x`.
    `pw n` stands for `exp(2πi n/(div·fft))`; the two hypotheses are the contract of `exp` (trusted, C02). -/

theorem folded_fft_is_direct_sum {K : Type} [CommSemiring K] (pw : Int → K) (Rs : List Int) (X : Int → K)
    (d f x m : Nat) (hf : 0 < f)
    (hadd : ∀ a b : Int, pw (a + b) = pw a * pw b)
    (hper : ∀ t : Int, pw ((d : Int) * (f : Int) * t) = 1) :
    foldedFT pw Rs X d f x m = directFT pw Rs X (m * d + x) := by
  unfold foldedFT directFT
  have h := sum_filter_partition f hf Rs (fun R c => X R * pw ((x : Int) * R) * pw ((d : Int) * (m : Int) * (c : Int)))
  have e : ∀ c : Nat,
      ((Rs.filter fun R => R % (f : Int) == (c : Int)).map fun R => X R * pw ((x : Int) * R)).sum
        * pw ((d : Int) * (m : Int) * (c : Int)) =
      ((Rs.filter fun R => R % (f : Int) == (c : Int)).map fun R =>
        X R * pw ((x : Int) * R) * pw ((d : Int) * (m : Int) * (c : Int))).sum := by
    intro c
    rw [← List.sum_map_mul_right]
  simp only [e]
  rw [h]
  congr 1
  apply List.map_congr_left
  intro R _
  have hr0 : 0 ≤ R % (f : Int) := Int.emod_nonneg R (by omega)
  rw [Int.toNat_of_nonneg hr0, mul_assoc, ← hadd]
  congr 1
  -- x R + d m (R % f) = (m d + x) R - d f (m (R / f))
  have hR : R = (f : Int) * (R / (f : Int)) + R % (f : Int) := (Int.mul_ediv_add_emod R f).symm
  have : (x : Int) * R + (d : Int) * (m : Int) * (R % (f : Int)) =
      ((m * d + x : Nat) : Int) * R + (d : Int) * (f : Int) * (-(m : Int) * (R / (f : Int))) := by
    push_cast
    have : (d : Int) * m * (R % f) = (d : Int) * m * (R - f * (R / f)) := by rw [eq_sub_of_add_eq' hR.symm]
    rw [this]; ring
  rw [this, hadd, hper, mul_one]

/-- non-vacuity: `ζ = -1` (a grid of 2 points: 2 = 1·2 = 2·1) satisfies both hypotheses; R-vectors −3 … 3 are folded
    into a box of 2 (resp. 1) -/
def pwSign : Int → Rat := fun n => if n % 2 = 0 then 1 else -1

theorem pwSign_add (a b : Int) : pwSign (a + b) = pwSign a * pwSign b := by
  unfold pwSign
  rcases Int.emod_two_eq_zero_or_one a with ha | ha <;> rcases Int.emod_two_eq_zero_or_one b with hb | hb <;>
    simp [Int.add_emod, ha, hb]

theorem pwSign_per (d f : Nat) (h : d * f = 2) (t : Int) : pwSign ((d : Int) * (f : Int) * t) = 1 := by
  have : (d : Int) * (f : Int) = 2 := by exact_mod_cast h
  unfold pwSign
  rw [this]
  simp

example (X : Int → Rat) (m : Nat) :
    foldedFT pwSign [-3, -2, -1, 0, 1, 2, 3] X 1 2 0 m = directFT pwSign [-3, -2, -1, 0, 1, 2, 3] X (m * 1 + 0) :=
  folded_fft_is_direct_sum pwSign _ X 1 2 0 m (by norm_num) pwSign_add (pwSign_per 1 2 rfl)

example :
    let Rs : List Int := [-3, -2, -1, 0, 1, 2, 3]
    let X : Int → Rat := fun R => (R + 5 : Int)
    foldedFT pwSign Rs X 1 2 0 1 = directFT pwSign Rs X 1 ∧ directFT pwSign Rs X 1 = -5 ∧
    foldedFT pwSign Rs X 2 1 1 0 = directFT pwSign Rs X 1 := by
  decide +kernel

/-! ## T4 — the cell of a k-point (used by the tetrahedron method) has the size of the full grid for every factorisation -/

theorem cell_shape_invariant (div fft : Idx) (hd : 0 < div.1 ∧ 0 < div.2.1 ∧ 0 < div.2.2)
    (hf : 0 < fft.1 ∧ 0 < fft.2.1 ∧ 0 < fft.2.2) :
    dKFullBZ (gridDK div) fft = gridDK (div.1 * fft.1, div.2.1 * fft.2.1, div.2.2 * fft.2.2) := by
  have a1 : (div.1 : Rat) ≠ 0 := by exact_mod_cast hd.1.ne'
  have a2 : (div.2.1 : Rat) ≠ 0 := by exact_mod_cast hd.2.1.ne'
  have a3 : (div.2.2 : Rat) ≠ 0 := by exact_mod_cast hd.2.2.ne'
  have b1 : (fft.1 : Rat) ≠ 0 := by exact_mod_cast hf.1.ne'
  have b2 : (fft.2.1 : Rat) ≠ 0 := by exact_mod_cast hf.2.1.ne'
  have b3 : (fft.2.2 : Rat) ≠ 0 := by exact_mod_cast hf.2.2.ne'
  unfold dKFullBZ gridDK
  simp only [V3.mk.injEq]
  refine ⟨?_, ?_, ?_⟩ <;> push_cast <;> field_simp

/-! ## T5 — `determineNK`: a requested grid `NK` that is a multiple of the given `NKFFT` is reproduced exactly -/

theorem determineNK_exact (d f : Idx) (hd : 0 < d.1 ∧ 0 < d.2.1 ∧ 0 < d.2.2) (hf : 0 < f.1 ∧ 0 < f.2.1 ∧ 0 < f.2.2) :
    determineNK (true, true, true) none (some f) (some (d.1 * f.1, d.2.1 * f.2.1, d.2.2 * f.2.2)) = some (d, f) ∧
    determineNK (true, true, true) (some d) (some f) none = some (d, f) := by
  have key : ∀ a b : Nat, 0 < a → 0 < b →
      (let q := (roundHE (((a * b : Nat) : Rat) / (b : Rat))).toNat; if q = 0 then 1 else q) = a := by
    intro a b ha hb
    have hb' : (b : Rat) ≠ 0 := by exact_mod_cast hb.ne'
    have : ((a * b : Nat) : Rat) / (b : Rat) = ((a : Int) : Rat) := by push_cast; field_simp
    simp only [this, WB.C06.roundHE_int, Int.toNat_natCast]
    rw [if_neg (by omega)]
  have k1 := key d.1 f.1 hd.1 hf.1
  have k2 := key d.2.1 f.2.1 hd.2.1 hf.2.1
  have k3 := key d.2.2 f.2.2 hd.2.2 hf.2.2
  simp only at k1 k2 k3
  constructor
  · unfold determineNK
    simp only [↓reduceIte, k1, k2, k3]
  · unfold determineNK
    simp only [↓reduceIte]

/-! ## T6 — which factorisations are accepted.
    T2 (`weighted_sum_invariant`) needs nothing but the k-set: without symmetry reduction EVERY factorisation gives the
    same integral.  The symmetry reduction of `get_K_list` (star of K taken in units of the K-grid) and the per-K
    symmetrisation in run() additionally need that the K-grid `NKdiv` is symmetric on its own (then the images of grid
    points are grid points again, `symmetric_grid_star_on_grid`), and the FFT sub-grid `NKFFT` likewise; a symmetric total
    grid `NKdiv * NKFFT` does not imply either (`total_grid_symmetric_not_enough`).  The rule the check enforces is the
    one of `determineNK`: `acceptNK` = every grid the caller specifies (NKdiv, NKFFT, NK) is symmetric on its own; a
    factorisation must EITHER be refused OR give the reference result. -/

theorem symmetric_grid_star_on_grid (syms : List Sym) (div : Idx) (hd : 0 < div.1 ∧ 0 < div.2.1 ∧ 0 < div.2.2)
    (hs : symmetricGrid syms div = true) (s : Sym) (hsm : s ∈ syms) (p : Idx) :
    isInt ((s.apply (gridK div p)).x * div.1) = true ∧ isInt ((s.apply (gridK div p)).y * div.2.1) = true ∧
    isInt ((s.apply (gridK div p)).z * div.2.2) = true := by
  obtain ⟨a, b, c⟩ := symmetricGrid_onGrid syms div hd hs s hsm p
  exact ⟨(isInt_iff _).mpr a, (isInt_iff _).mpr b, (isInt_iff _).mpr c⟩

/-- 4-fold rotation about z: the total grid 6x6x1 of NKdiv=(3,2,1) x NKFFT=(2,3,1) is symmetric, neither factor is, the
    rule refuses the factorisation, and the image of K-grid point (1,0,0) is off the K-grid (2/3 of a step along y) -/
theorem total_grid_symmetric_not_enough :
    let c4 : Sym := ⟨0, 1, 0, -1, 0, 0, 0, 0, 1, false, false⟩
    symmetricGrid [c4] (6, 6, 1) = true ∧ symmetricGrid [c4] (3, 2, 1) = false ∧ symmetricGrid [c4] (2, 3, 1) = false ∧
    acceptNK [c4] (some (3, 2, 1)) (some (2, 3, 1)) none = false ∧ acceptNK [c4] (some (3, 3, 1)) (some (2, 2, 1)) none = true ∧
    isInt ((c4.apply (gridK (3, 2, 1) (1, 0, 0))).y * 2) = false := by
  decide +kernel

/-! ## T7 — the sign of time reversal in the star of a K-point.  The model's `Sym.apply` is the code's rule
    `k ↦ iTR · iInv · (k M)`; with it the star relation of a group is an equivalence and equivalent points are merged
    with orbit weights (C06: `getKList_orbit_cover_of_group`).  `dropTR` is the rule without the TR sign.
    (a) If the group contains the inversion, both rules give the same set of images of every k
    (`star_images_same_with_inversion`) - this is why non-magnetic groups and groups with inversion cannot see the
    difference.  (b) For the magnetic group generated by C3z and C2y·TR on the hexagonal lattice (no inversion, no pure
    TR) and a 3x3 K-grid, the rule without the sign puts the inequivalent points K=(1/3,1/3) and K'=(2/3,2/3) into one
    star and changes the weights (`dropping_TR_sign_merges_valleys`). -/

theorem star_images_same_with_inversion (syms : List Sym)
    (hinv : ∀ s ∈ syms, ∃ t ∈ syms, t.tr = s.tr ∧ ∀ k : V3, t.apply k = negV (s.apply k)) (k v : V3) :
    (∃ s ∈ syms, v = (dropTR s).apply k) ↔ (∃ s ∈ syms, v = s.apply k) :=
  images_same_with_inversion syms hinv k v

/-- C3z, C2y·TR and their products, as reduced integer matrices read from the code's PointGroup (hexagonal lattice) -/
def magSyms : List Sym :=
  [⟨-1, 1, 0, -1, 0, 0, 0, 0, 1, false, false⟩, ⟨-1, 1, 0, 0, 1, 0, 0, 0, -1, false, true⟩,
   ⟨0, -1, 0, 1, -1, 0, 0, 0, 1, false, false⟩, ⟨0, -1, 0, -1, 0, 0, 0, 0, -1, false, true⟩,
   ⟨1, 0, 0, 0, 1, 0, 0, 0, 1, false, false⟩, ⟨1, 0, 0, 1, -1, 0, 0, 0, -1, false, true⟩]

theorem dropping_TR_sign_merges_valleys :
    groupCheck magSyms = true ∧ symmetricGrid magSyms (3, 3, 1) = true ∧
    starIdx magSyms (3, 3, 1) (1, 1, 0) = [(1, 1, 0)] ∧
    starIdx (magSyms.map dropTR) (3, 3, 1) (1, 1, 0) = [(1, 1, 0), (2, 2, 0)] ∧
    (getKList magSyms (3, 3, 1) true).map KPoint.factor = [1/9, 2/3, 1/9, 1/9] ∧
    (getKList (magSyms.map dropTR) (3, 3, 1) true).map KPoint.factor = [1/9, 1/3, 2/9, 1/3] := by
  decide +kernel

/-- non-vacuity of (a): the group {E, I, TR, I·TR} -/
example : ∀ s ∈ ([⟨1, 0, 0, 0, 1, 0, 0, 0, 1, false, false⟩, ⟨1, 0, 0, 0, 1, 0, 0, 0, 1, true, false⟩,
      ⟨1, 0, 0, 0, 1, 0, 0, 0, 1, false, true⟩, ⟨1, 0, 0, 0, 1, 0, 0, 0, 1, true, true⟩] : List Sym),
    ∃ t ∈ ([⟨1, 0, 0, 0, 1, 0, 0, 0, 1, false, false⟩, ⟨1, 0, 0, 0, 1, 0, 0, 0, 1, true, false⟩,
      ⟨1, 0, 0, 0, 1, 0, 0, 0, 1, false, true⟩, ⟨1, 0, 0, 0, 1, 0, 0, 0, 1, true, true⟩] : List Sym),
      t.tr = s.tr ∧ ∀ k : V3, t.apply k = negV (s.apply k) := by
  intro s hs
  simp only [List.mem_cons, List.not_mem_nil, or_false] at hs
  rcases hs with rfl | rfl | rfl | rfl
  · exact ⟨⟨1, 0, 0, 0, 1, 0, 0, 0, 1, true, false⟩, by simp, rfl, fun k => by simp [Sym.apply, Sym.sign, negV]⟩
  · exact ⟨⟨1, 0, 0, 0, 1, 0, 0, 0, 1, false, false⟩, by simp, rfl, fun k => by simp [Sym.apply, Sym.sign, negV]⟩
  · exact ⟨⟨1, 0, 0, 0, 1, 0, 0, 0, 1, true, true⟩, by simp, rfl, fun k => by simp [Sym.apply, Sym.sign, negV]⟩
  · exact ⟨⟨1, 0, 0, 0, 1, 0, 0, 0, 1, false, true⟩, by simp, rfl, fun k => by simp [Sym.apply, Sym.sign, negV]⟩

end WB.C03
